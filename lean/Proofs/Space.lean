import Proofs.SpaceCat

/-! Space-level lemmas for C09: pack by dimension / hstack / slice by `transformed_size` /
transpose, and the per-dimension facts for an arbitrary dimension. -/

namespace DH.Space

/-! ### any dimension -/

theorem dim_transform_ok (L : Rat → Rat) (d : Dim) (hwf : d.wf = true) (hM : MonoOn L)
    (col : List Val) (hmem : ∀ v ∈ col, memDim d v = true) :
    ∃ c, d.transform L col = .ok c ∧ c.toRows = .ok (col.map (cellT L d)) := by
  cases d with
  | real lo hi p t =>
    obtain ⟨qs, rfl, hb⟩ := real_members lo hi p t col hmem
    exact real_transform_ok L lo hi p t hwf hM qs hb
  | int lo hi p t =>
    obtain ⟨is, rfl, hb⟩ := int_members lo hi p t col hmem
    exact int_transform_ok L lo hi p t hwf hM is hb
  | cat cs t => exact cat_transform_ok L cs t hwf col (cat_mem cs t col hmem)

theorem dim_inverse_ok (L E : Rat → Rat) (d : Dim) (hwf : d.wf = true) (hM : MonoOn L)
    (hI : InvOn L E) (col : List Val) (hmem : ∀ v ∈ col, memDim d v = true) :
    d.inverseTransform L E (reslice d.transformedSize (col.map (cellT L d))) = .ok col := by
  cases d with
  | real lo hi p t =>
    obtain ⟨qs, rfl, hb⟩ := real_members lo hi p t col hmem
    exact real_inverse_ok L E lo hi p t hwf hM hI qs hb
  | int lo hi p t =>
    obtain ⟨is, rfl, hb⟩ := int_members lo hi p t col hmem
    exact int_inverse_ok L E lo hi p t hwf hM hI is hb
  | cat cs t => exact cat_inverse_ok L E cs t hwf col (cat_mem cs t col hmem)

theorem binarize_length (n k : Nat) : (binarize n k).length = if n = 2 then 1 else n := by
  unfold binarize
  by_cases h1 : n = 1
  · subst h1; simp
  · by_cases h2 : n = 2
    · subst h2; simp
    · simp [h1, h2]

theorem cellT_length (L : Rat → Rat) (d : Dim) (v : Val) (hmem : memDim d v = true) :
    (cellT L d v).length = d.transformedSize := by
  cases d with
  | real lo hi p t =>
    cases v <;> simp [memDim] at hmem
    cases p <;> cases t <;> rfl
  | int lo hi p t =>
    cases v <;> simp [memDim] at hmem
    cases p <;> cases t <;> rfl
  | cat cs t =>
    cases t
    · simp [cellT_cat_identity, Dim.transformedSize]
    · simp [cellT_cat_label, Dim.transformedSize]
    · simp [cellT_cat_onehot, Dim.transformedSize, binarize_length]
    · simp [cellT_cat_normalize, Dim.transformedSize]

/-! ### rows of members -/

theorem rows_decompose (d : Dim) (ds : List Dim) :
    ∀ X : List (List Val), (∀ r ∈ X, memRow (d :: ds) r = true) →
      ∃ col tails, X = List.zipWith List.cons col tails ∧ col.length = tails.length ∧
        (∀ v ∈ col, memDim d v = true) ∧ (∀ r ∈ tails, memRow ds r = true)
  | [], _ => ⟨[], [], rfl, rfl, by simp, by simp⟩
  | r :: X, h => by
    obtain ⟨col, tails, hX, hlen, hc, ht⟩ := rows_decompose d ds X (fun r' hr' => h r' (by simp [hr']))
    have hr := h r (by simp)
    cases r with
    | nil => simp [memRow] at hr
    | cons v vs =>
      simp only [memRow, Bool.and_eq_true] at hr
      refine ⟨v :: col, vs :: tails, by simp [hX], by simp [hlen], ?_, ?_⟩
      · intro x hx
        rcases List.mem_cons.mp hx with rfl | hx
        · exact hr.1
        · exact hc x hx
      · intro x hx
        rcases List.mem_cons.mp hx with rfl | hx
        · exact hr.2
        · exact ht x hx

theorem heads_zipWith_cons : ∀ (col : List Val) (tails : List (List Val)), col.length = tails.length →
    heads (List.zipWith List.cons col tails) = .ok col
  | [], [], _ => rfl
  | [], _ :: _, h => by simp at h
  | _ :: _, [], h => by simp at h
  | v :: col, t :: tails, h => by
    have ih := heads_zipWith_cons col tails (by simpa using h)
    unfold heads at ih ⊢
    exact mapE_cons_ok rfl ih

theorem tails_zipWith_cons {α : Type} : ∀ (col : List α) (tails : List (List α)), col.length = tails.length →
    (List.zipWith List.cons col tails).map List.tail = tails
  | [], [], _ => rfl
  | [], _ :: _, h => by simp at h
  | _ :: _, [], h => by simp at h
  | v :: col, t :: tails, h => by
    simp [tails_zipWith_cons col tails (by simpa using h)]

/-! ### transform: row-wise form -/

/-- the transformed row of a point (specification-level) -/
def rowT (L : Rat → Rat) : List Dim → List Val → List Rat
  | d :: ds, v :: vs => cellT L d v ++ rowT L ds vs
  | _, _ => []

theorem map_rowT_zipWith (L : Rat → Rat) (d : Dim) (ds : List Dim) :
    ∀ (col : List Val) (tails : List (List Val)),
      (List.zipWith List.cons col tails).map (rowT L (d :: ds)) =
        List.zipWith (· ++ ·) (col.map (cellT L d)) (tails.map (rowT L ds))
  | [], _ => by simp
  | _ :: _, [] => by simp
  | v :: col, t :: tails => by
    simp [rowT, map_rowT_zipWith L d ds col tails]

theorem transformCols_ok (L : Rat → Rat) (hM : MonoOn L) :
    ∀ (dims : List Dim) (X : List (List Val)), (∀ d ∈ dims, d.wf = true) →
      (∀ r ∈ X, memRow dims r = true) →
      ∃ blocks, transformCols L dims X = .ok blocks ∧ hstack X.length blocks = X.map (rowT L dims)
  | [], X, _, hX => by
    refine ⟨[], rfl, ?_⟩
    have : ∀ r ∈ X, rowT L [] r = [] := by
      intro r _; cases r <;> rfl
    rw [List.map_congr_left this]
    simp [hstack, List.map_const']
  | d :: ds, X, hwf, hX => by
    obtain ⟨col, tails, rfl, hlen, hc, ht⟩ := rows_decompose d ds X hX
    obtain ⟨c, hc1, hc2⟩ := dim_transform_ok L d (hwf d (by simp)) hM col hc
    obtain ⟨rest, hr1, hr2⟩ := transformCols_ok L hM ds tails (fun d' hd' => hwf d' (by simp [hd'])) ht
    refine ⟨col.map (cellT L d) :: rest, ?_, ?_⟩
    · simp [transformCols, heads_zipWith_cons col tails hlen, hc1, hc2,
        tails_zipWith_cons col tails hlen, hr1]
    · have hl : (List.zipWith List.cons col tails).length = tails.length := by simp [hlen]
      rw [map_rowT_zipWith, hstack, hl, hr2]

/-! ### inverse: slice, invert, transpose -/

theorem sliceCol_zipWith (w : Nat) (hw : 1 ≤ w) :
    ∀ (A B : List (List Rat)), A.length = B.length → (∀ a ∈ A, a.length = w) →
      sliceCol w (List.zipWith (· ++ ·) A B) = .ok (reslice w A) ∧
      (List.zipWith (· ++ ·) A B).map (List.drop w) = B
  | [], [], _, _ => by
    constructor
    · by_cases h : w = 1 <;> simp [sliceCol, reslice, h, mapE]
    · rfl
  | [], _ :: _, h, _ => by simp at h
  | _ :: _, [], h, _ => by simp at h
  | a :: A, b :: B, hlen, hA => by
    have ha : a.length = w := hA a (by simp)
    obtain ⟨ih1, ih2⟩ := sliceCol_zipWith w hw A B (by simpa using hlen) (fun x hx => hA x (by simp [hx]))
    constructor
    · by_cases h : w = 1
      · subst h
        match a, ha with
        | [x], _ =>
          simp only [sliceCol, reslice, if_true] at ih1 ⊢
          cases hm : mapE headNumE (List.zipWith (· ++ ·) A B) with
          | error e => simp [hm] at ih1
          | ok l =>
            simp only [hm] at ih1
            have : l = A.flatten.map Val.num := by simpa using ih1
            subst this
            simp [mapE, headNumE, hm]
      · simp only [sliceCol, reslice, if_neg h] at ih1 ⊢
        have : (List.zipWith (· ++ ·) A B).map (List.take w) = A := by simpa using ih1
        simp [this, List.take_left' ha]
    · simp [ih2, List.drop_left' ha]

/-- the columns of a list of rows that all have `n` entries -/
def colsOf : Nat → List (List Val) → List (List Val)
  | 0, _ => []
  | n + 1, X => X.filterMap List.head? :: colsOf n (X.map List.tail)

theorem filterMap_head_zipWith_cons {α : Type} : ∀ (col : List α) (tails : List (List α)),
    col.length = tails.length → (List.zipWith List.cons col tails).filterMap List.head? = col
  | [], [], _ => rfl
  | [], _ :: _, h => by simp at h
  | _ :: _, [], h => by simp at h
  | v :: col, t :: tails, h => by
    simp [filterMap_head_zipWith_cons col tails (by simpa using h)]

theorem map_cellT_mem_length (L : Rat → Rat) (d : Dim) (col : List Val)
    (hc : ∀ v ∈ col, memDim d v = true) : ∀ a ∈ col.map (cellT L d), a.length = d.transformedSize := by
  intro a ha
  obtain ⟨v, hv, rfl⟩ := List.mem_map.mp ha
  exact cellT_length L d v (hc v hv)

theorem transformedSize_pos (d : Dim) (hwf : d.wf = true) : 1 ≤ d.transformedSize := by
  cases d with
  | real => exact Nat.le_refl 1
  | int => exact Nat.le_refl 1
  | cat cs t =>
    obtain ⟨hne, _, _⟩ := cat_wf cs t hwf
    have : 1 ≤ cs.length := by
      cases cs with
      | nil => exact absurd rfl hne
      | cons _ _ => simp
    cases t <;> simp [Dim.transformedSize]
    split <;> omega

theorem inverseCols_ok (L E : Rat → Rat) (hM : MonoOn L) (hI : InvOn L E) :
    ∀ (dims : List Dim) (X : List (List Val)), (∀ d ∈ dims, d.wf = true) →
      (∀ r ∈ X, memRow dims r = true) →
      inverseCols L E dims (X.map (rowT L dims)) = .ok (colsOf dims.length X)
  | [], _, _, _ => rfl
  | d :: ds, X, hwf, hX => by
    obtain ⟨col, tails, rfl, hlen, hc, ht⟩ := rows_decompose d ds X hX
    have hd := hwf d (by simp)
    have ih := inverseCols_ok L E hM hI ds tails (fun d' hd' => hwf d' (by simp [hd'])) ht
    obtain ⟨hs1, hs2⟩ := sliceCol_zipWith d.transformedSize (transformedSize_pos d hd)
      (col.map (cellT L d)) (tails.map (rowT L ds)) (by simp [hlen])
      (map_cellT_mem_length L d col hc)
    rw [map_rowT_zipWith]
    simp only [inverseCols, hs1, hs2, dim_inverse_ok L E d hd hM hI col hc, ih, List.length_cons,
      colsOf, filterMap_head_zipWith_cons col tails hlen, tails_zipWith_cons col tails hlen]

theorem colsOf_length : ∀ (n : Nat) (X : List (List Val)), (colsOf n X).length = n
  | 0, _ => rfl
  | n + 1, X => by simp [colsOf, colsOf_length n]

theorem colsOf_cons : ∀ (n : Nat) (r : List Val) (X : List (List Val)), r.length = n →
    colsOf n (r :: X) = List.zipWith List.cons r (colsOf n X)
  | 0, [], _, _ => rfl
  | 0, _ :: _, _, h => by simp at h
  | n + 1, [], _, h => by simp at h
  | n + 1, v :: vs, X, h => by
    simp [colsOf, colsOf_cons n vs (X.map List.tail) (by simpa using h)]

theorem transposeAux_colsOf (n : Nat) : ∀ X : List (List Val), (∀ r ∈ X, r.length = n) →
    transposeAux X.length (colsOf n X) = .ok X
  | [], _ => rfl
  | r :: X, h => by
    have hr : r.length = n := h r (by simp)
    have ih := transposeAux_colsOf n X (fun r' hr' => h r' (by simp [hr']))
    have hl : r.length = (colsOf n X).length := by rw [colsOf_length, hr]
    rw [colsOf_cons n r X hr]
    simp [transposeAux, heads_zipWith_cons r (colsOf n X) hl, tails_zipWith_cons r (colsOf n X) hl, ih]

theorem memRow_length : ∀ (dims : List Dim) (r : List Val), memRow dims r = true → r.length = dims.length
  | [], [], _ => rfl
  | [], _ :: _, h => by simp [memRow] at h
  | _ :: _, [], h => by simp [memRow] at h
  | d :: ds, v :: vs, h => by
    simp only [memRow, Bool.and_eq_true] at h
    simp [memRow_length ds vs h.2]

theorem transposeCols_colsOf (n : Nat) (hn : 1 ≤ n) (X : List (List Val))
    (h : ∀ r ∈ X, r.length = n) : transposeCols (colsOf n X) = .ok X := by
  cases n with
  | zero => omega
  | succ m =>
    have hlen : (X.filterMap List.head?).length = X.length := by
      clear hn
      induction X with
      | nil => rfl
      | cons r X ih =>
        have hr := h r (by simp)
        cases r with
        | nil => simp at hr
        | cons v vs => simp [ih (fun r' hr' => h r' (by simp [hr']))]
    have := transposeAux_colsOf (m + 1) X h
    simp only [colsOf] at this ⊢
    simp only [transposeCols, hlen]
    exact this

/-- the rows of `transform X` are the row-wise images; used by shape, bounds and round trip -/
theorem transform_ok (L : Rat → Rat) (hM : MonoOn L) (dims : List Dim) (X : List (List Val))
    (hd : dims ≠ []) (hx : X ≠ []) (hwf : ∀ d ∈ dims, d.wf = true)
    (hX : ∀ r ∈ X, memRow dims r = true) : transform L dims X = .ok (X.map (rowT L dims)) := by
  obtain ⟨blocks, h1, h2⟩ := transformCols_ok L hM dims X hwf hX
  have hd' : dims.isEmpty = false := by cases dims <;> simp at hd ⊢
  have hx' : X.isEmpty = false := by cases X <;> simp at hx ⊢
  simp [transform, hd', hx', h1, h2]

theorem roundtrip_ok (L E : Rat → Rat) (hM : MonoOn L) (hI : InvOn L E) (dims : List Dim)
    (X : List (List Val)) (hd : dims ≠ []) (hwf : ∀ d ∈ dims, d.wf = true)
    (hX : ∀ r ∈ X, memRow dims r = true) :
    inverseTransform L E dims (X.map (rowT L dims)) = .ok X := by
  have h1 := inverseCols_ok L E hM hI dims X hwf hX
  have hn : 1 ≤ dims.length := by
    cases dims with
    | nil => exact absurd rfl hd
    | cons _ _ => simp
  have h2 := transposeCols_colsOf dims.length hn X (fun r hr => memRow_length dims r (hX r hr))
  simp [inverseTransform, h1, h2]

end DH.Space
