import Proofs.EvaluatorMultiStep

/-!
`gather` (own tasks + `gather_other_jobs_done`) preserves the invariant; every reachable system satisfies
it (`mreach_inv`).  Core Lean only.
-/

namespace DH.Evaluator

variable {C O : Type}

theorem SInv.gatherLocal {p : MParams C O} {n : Nat} {sys : Sys C O} (h : SInv p n sys) {who : Nat} {me : MEv C O}
    (hme : sys.evs[who]? = some me) (all : Bool) (k : Nat) (st : List Nat) (ws : List (List Nat))
    (hok : mOpOkLocal sys.rows me (.gather all k st ws) = true) :
    SInv p n { rows := (mGatherLocal p (sys.rows, me) all k st ws).1.1,
               evs := sys.evs.set who (mGatherLocal p (sys.rows, me) all k st ws).1.2 } := by
  have hold := h.ev who me hme
  obtain ⟨s, hs, hr⟩ := hold.sim
  obtain ⟨hi, _, _⟩ := reach_good hs
  obtain ⟨lst, lws, _, _, hok', rows', me', hm, hr', hj, _⟩ := gather_step_sim p hi hr all k st ws hok
  obtain ⟨hstep, ⟨ids, hd⟩, hrowp⟩ := mGatherLocal_facts p who (rows_nodup h.rows.ids)
    (fun g hg => hr.running_own hi hg) all k st ws hok h.rows.sout
  have e1 : (mGatherLocal p (sys.rows, me) all k st ws).1.1 = rows' := by rw [hm]
  have e2 : (mGatherLocal p (sys.rows, me) all k st ws).1.2 = me' := by rw [hm]
  rw [e1] at hstep hrowp ⊢
  rw [e2] at hd ⊢
  refine h.replace hme (hj ▸ hstep) ⟨_, Reach.step (.gather all k lst lws) hs hok', hr'⟩ (fun g hg => hj ▸ hg)
    (fun g hg => Or.inl (hj ▸ hg)) hrowp (hold.hist.delta hd hstep.len hstep.frozen)

/-! ### consequences of the invariant used by `gather_other_jobs_done` -/

/-- a job with an output is not READY / RUNNING any more -/
theorem SInv.terminal_of_out {p : MParams C O} {n : Nat} {sys : Sys C O} (h : SInv p n sys) {r : Row C O}
    (hr : r ∈ sys.rows) (hout : r.out ≠ none) : activeRow r = false := by
  have hlt : r.owner < sys.evs.length := h.len ▸ h.rows.owner r hr
  have hme : sys.evs[r.owner]? = some sys.evs[r.owner] := List.getElem?_eq_getElem hlt
  have hev := h.ev _ _ hme
  obtain ⟨s, hs, hrel⟩ := hev.sim
  obtain ⟨_, hp, _⟩ := reach_good hs
  have hown : r.id ∈ sys.evs[r.owner].jobs := (hev.own r hr).1 rfl
  have : recOf r ∈ (ownRows sys.rows sys.evs[r.owner].jobs).map recOf :=
    List.mem_map_of_mem (List.mem_filter.2 ⟨hr, by simpa using hown⟩)
  rw [← hrel.jobs] at this
  obtain ⟨j, hj, hjr⟩ := List.mem_map.1 this
  have e1 : j.out = r.out := by have := congrArg JobRec.out hjr; simpa [renRec, recOf] using this
  have e2 : j.status = r.status := by have := congrArg JobRec.status hjr; simpa [renRec, recOf] using this
  cases hact : activeRow r with
  | false => rfl
  | true =>
    have : active j = true := by
      unfold active; unfold activeRow at hact; rw [e2]; exact hact
    have := hp.actOut j hj this
    rw [e1] at this
    exact absurd this hout

theorem SInv.noRunningStored {p : MParams C O} {n : Nat} {sys : Sys C O} (h : SInv p n sys) :
    NoRunningStored p sys.rows := by
  intro r hr ht hrun
  have hs := h.rows.sout r hr
  have hout : r.out ≠ none := by
    intro e
    unfold RowP at hs
    rw [e] at hs
    have : r.sout = none := by cases p.hpo <;> simpa using hs
    rw [this] at ht
    simp [truthyOut] at ht
  have := h.terminal_of_out hr hout
  simp [activeRow, hrun] at this

/-- every own job is in flight or in `job_id_gathered` -/
theorem EvOk.jobs_cover {p : MParams C O} {rows : List (Row C O)} {who : Nat} {me : MEv C O}
    (h : EvOk p rows who me) : ∀ g ∈ me.jobs, g ∈ me.submitted ∨ g ∈ me.gathered := by
  intro g hg
  obtain ⟨s, hs, hr⟩ := h.sim
  obtain ⟨hi, _, _⟩ := reach_good hs
  rw [← map_rho_range me.jobs rows.length] at hg
  obtain ⟨i, hi', rfl⟩ := List.mem_map.1 hg
  have hlt : i < s.nextId := by rw [hr.n]; exact List.mem_range.1 hi'
  have := hi.part.mem_iff.2 (List.mem_range.2 hlt)
  rcases List.mem_append.1 this with h1 | h1
  · left; rw [← hr.submitted]; exact List.mem_map_of_mem h1
  · right
    apply h.hist.gath.mem_iff.2
    apply List.mem_append_left
    rw [← hr.delivered, List.map_map]
    obtain ⟨x, hx, rfl⟩ := List.mem_map.1 h1
    exact List.mem_map.2 ⟨x, hx, rfl⟩

theorem SInv.other {p : MParams C O} {n : Nat} {sys : Sys C O} (h : SInv p n sys) {who : Nat} {me : MEv C O}
    (hme : sys.evs[who]? = some me) :
    SInv p n { rows := (gatherOther p (sys.rows, me)).1.1,
               evs := sys.evs.set who (gatherOther p (sys.rows, me)).1.2 } := by
  have hold := h.ev who me hme
  have hh := hold.hist
  rw [gatherOther_eq p (rows_nodup h.rows.ids) h.noRunningStored]
  obtain ⟨hnd, hmem⟩ := otherObjs_ids (p := p) (rows := sys.rows) (me := me)
  have hcand : ∀ g ∈ (otherObjs p sys.rows me).map (·.id),
      g < sys.rows.length ∧ g ∉ me.submitted ∧ g ∉ me.gathered := fun g hg => mem_otherCand.1 ((hmem g).1 hg).1
  refine h.private hme rfl rfl rfl rfl rfl rfl ⟨?_, ?_, ?_, ?_, ?_, ?_⟩
  · exact perm_append_end hh.gath
  · show (me.dumped ++ (me.jobsDone ++ _)).Perm _
    rw [← List.append_assoc]
    exact perm_append_end hh.dumpOnce
  · show (me.reported ++ _).Nodup
    rw [List.nodup_append]
    refine ⟨hh.repNodup, hnd, ?_⟩
    intro a ha b hb hab
    subst hab
    exact (hcand a hb).2.2 (hh.gath.mem_iff.2 (List.mem_append_right _ ha))
  · intro g hg
    have hg' : g ∈ me.reported ++ (otherObjs p sys.rows me).map (·.id) := hg
    rcases List.mem_append.1 hg' with h1 | h1
    · exact hh.repForeign g h1
    · refine ⟨fun hin => ?_, (hcand g h1).1⟩
      rcases hold.jobs_cover g hin with h2 | h2
      · exact (hcand g h1).2.1 h2
      · exact (hcand g h1).2.2 h2
  · show (me.foreign ++ _).map (·.id) = me.reported ++ _
    rw [List.map_append, hh.foreign]
  · intro o ho
    have ho' : o ∈ me.foreign ++ otherObjs p sys.rows me := ho
    rcases List.mem_append.1 ho' with h1 | h1
    · exact hh.fobj o h1
    · unfold otherObjs at h1
      obtain ⟨id, _, hfo⟩ := List.mem_filterMap.1 h1
      obtain ⟨r, hrow, ht, rfl⟩ := foreignObj_some hfo
      obtain ⟨hrm, hrid⟩ := rowOf_some hrow
      have hs := h.rows.sout r hrm
      have hso : r.sout = r.out := by
        unfold RowP at hs
        cases hp : p.hpo with
        | true => rw [hp] at hs; simpa using hs
        | false =>
          rw [hp] at hs
          simp only [Bool.false_eq_true, if_false] at hs
          rw [hs] at ht; simp [truthyOut] at ht
      have hout : r.out ≠ none := by
        intro e; rw [hso, e] at ht; simp [truthyOut] at ht
      exact ⟨r, hrm, hrid, h.terminal_of_out hrm hout, rfl, hso, ht⟩

/-- **every call of every evaluator preserves the invariant** -/
theorem SInv.step {p : MParams C O} {n : Nat} {sys : Sys C O} (h : SInv p n sys) (who : Nat) (op : MOp C)
    (hok : mOpOk sys who op = true) : SInv p n (mStep p sys who op).1 := by
  unfold mOpOk at hok
  unfold mStep
  cases hme : sys.evs[who]? with
  | none => rw [hme] at hok; simp at hok
  | some me =>
    rw [hme] at hok
    simp only at hok ⊢
    cases op with
    | submit cfgs => exact h.submit hme cfgs
    | setMax k => exact h.setMax hme k
    | dump fl => exact h.dump hme fl
    | close fin => exact h.close hme fin hok
    | gather all k st ws =>
      have h1 := h.gatherLocal hme all k st ws hok
      simp only [mStepLocal, mGather]
      cases hg : mGatherLocal p (sys.rows, me) all k st ws with
      | mk st1 res =>
        rw [hg] at h1
        cases res with
        | error e => exact h1
        | ok js =>
          simp only
          have hme1 : ({ rows := st1.1, evs := sys.evs.set who st1.2 } : Sys C O).evs[who]? = some st1.2 := by
            show (sys.evs.set who st1.2)[who]? = some st1.2
            rw [List.getElem?_set_self (List.getElem?_eq_some_iff.1 hme).1]
          have h2 := h1.other hme1
          simpa using h2

theorem mreach_inv {p : MParams C O} {n : Nat} {sys : Sys C O} (h : MReach p n sys) : SInv p n sys := by
  induction h with
  | init => exact SInv.init p n
  | step who op _ hok ih => exact ih.step who op hok

end DH.Evaluator
