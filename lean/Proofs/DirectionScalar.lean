import Proofs.Direction

/-! Helper lemmas for C05, part 2: the five scalarisations — homogeneity, positivity on
positive directions, Pareto-monotonicity of Linear / Chebyshev / AugChebyshev. -/

namespace DH.Direction

open List (Forall₂)

/-! ### algebra of `dot`, `nsq`, `mulAbs`, `vsub` under scaling -/

theorem dot_smul_right (c : Rat) (w z : Vec) : dot w (smul c z) = c * dot w z := by
  induction w generalizing z with
  | nil => simp [dot, sumL]
  | cons a as ih =>
    cases z with
    | nil => simp [dot, smul, sumL]
    | cons b bs =>
      have := ih bs
      simp only [dot, smul, List.map_cons, List.zipWith_cons_cons, sumL] at this ⊢
      rw [this]; ring

theorem dot_smul_left (c : Rat) (w z : Vec) : dot (smul c w) z = c * dot w z := by
  induction w generalizing z with
  | nil => simp [dot, smul, sumL]
  | cons a as ih =>
    cases z with
    | nil => simp [dot, smul, sumL]
    | cons b bs =>
      have := ih bs
      simp only [dot, smul, List.map_cons, List.zipWith_cons_cons, sumL] at this ⊢
      rw [this]; ring

theorem nsq_smul (c : Rat) (z : Vec) : nsq (smul c z) = c * c * nsq z := by
  unfold nsq
  rw [dot_smul_right, dot_smul_left]; ring

theorem nsq_nonneg (z : Vec) : 0 ≤ nsq z := by
  induction z with
  | nil => simp [nsq, dot, sumL]
  | cons a as ih =>
    simp only [nsq, dot, List.zipWith_cons_cons, sumL] at ih ⊢
    have : 0 ≤ a * a := mul_self_nonneg a
    linarith

theorem nsq_pos_of_exists {w : Vec} (h : ∃ x ∈ w, 0 < x) : 0 < nsq w := by
  induction w with
  | nil => simp at h
  | cons a as ih =>
    simp only [nsq, dot, List.zipWith_cons_cons, sumL]
    have h0 : 0 ≤ nsq as := nsq_nonneg as
    simp only [nsq, dot] at h0 ih
    obtain ⟨x, hx, hpos⟩ := h
    rcases List.mem_cons.1 hx with rfl | hx
    · have : 0 < x * x := mul_pos hpos hpos
      linarith
    · have := ih ⟨x, hx, hpos⟩
      have : 0 ≤ a * a := mul_self_nonneg a
      linarith

theorem mulAbs_smul {c : Rat} (hc : 0 ≤ c) (w z : Vec) : mulAbs w (smul c z) = smul c (mulAbs w z) := by
  induction w generalizing z with
  | nil => simp [mulAbs, smul]
  | cons a as ih =>
    cases z with
    | nil => simp [mulAbs, smul]
    | cons b bs =>
      have := ih bs
      simp only [mulAbs, smul, List.map_cons, List.zipWith_cons_cons] at this ⊢
      rw [this, rabs_mul_of_nonneg b hc]
      congr 1; ring

theorem vsub_smul (c d : Rat) (z w : Vec) :
    vsub (smul c z) (smul (c * d) w) = smul c (vsub z (smul d w)) := by
  induction z generalizing w with
  | nil => simp [vsub, smul]
  | cons a as ih =>
    cases w with
    | nil => simp [vsub, smul]
    | cons b bs =>
      have := ih bs
      simp only [vsub, smul, List.map_cons, List.zipWith_cons_cons] at this ⊢
      rw [this]
      congr 1; ring

theorem smul_smul (c d : Rat) (z : Vec) : smul c (smul d z) = smul (c * d) z := by
  simp [smul, List.map_map, Function.comp_def, mul_assoc]

/-! ### homogeneity of the scalarisations -/

/-- degree-1 strategies scale with `τ`, Quadratic with `τ²` -/
def deg (s : Strategy) (t : Rat) : Rat :=
  match s with
  | .quadratic _ => t * t
  | _ => t

theorem core_smul (s : Strategy) (w z : Vec) {t : Rat} (ht : 0 ≤ t) :
    core s w (smul t z) = (core s w z).map (fun k => deg s t * k) := by
  cases s with
  | linear => simp [core, deg, dot_smul_right]
  | chebyshev =>
    simp only [core, deg, mulAbs_smul ht, maxL_smul ht]
  | augChebyshev alpha =>
    simp only [core, deg, mulAbs_smul ht, maxL_smul ht, norm1_smul ht, Option.map_map]
    congr 1
    funext m
    simp only [Function.comp]
    ring
  | pbi penalty =>
    simp only [core, deg]
    by_cases hw : nsq w = 0
    · simp [hw]
    · simp only [hw, if_false, Option.map_some, dot_smul_right]
      have e : t * dot w z / nsq w = t * (dot w z / nsq w) := by ring
      rw [e, vsub_smul, norm1_smul ht]
      congr 1; ring
  | quadratic alpha =>
    simp only [core, deg]
    by_cases hw : nsq w = 0
    · simp [hw]
    · simp only [hw, if_false, Option.map_some, dot_smul_right, nsq_smul]
      congr 1
      field_simp

theorem deg_strictMono (s : Strategy) {a b : Rat} (ha : 0 ≤ a) (hab : a < b) : deg s a < deg s b := by
  cases s <;> simp only [deg] <;> first | exact hab | nlinarith

theorem deg_pos (s : Strategy) {a : Rat} (ha : 0 < a) : 0 < deg s a := by
  cases s <;> simp only [deg] <;> first | exact ha | exact mul_pos ha ha

/-! ### positivity on a positive direction -/

theorem dot_pos {w d : Vec} (hlen : w.length = d.length) (hw : ∀ x ∈ w, 0 ≤ x)
    (hw0 : ∃ x ∈ w, 0 < x) (hd : ∀ x ∈ d, 0 < x) : 0 < dot w d := by
  induction w generalizing d with
  | nil => simp at hw0
  | cons a as ih =>
    cases d with
    | nil => simp at hlen
    | cons b bs =>
      simp only [dot, List.zipWith_cons_cons, sumL]
      have hb : 0 < b := hd b (by simp)
      have ha : 0 ≤ a := hw a (by simp)
      have hrest : 0 ≤ sumL (List.zipWith (· * ·) as bs) := by
        apply sumL_nonneg
        intro x hx
        rcases List.mem_iff_getElem.1 hx with ⟨i, hi, rfl⟩
        simp only [List.getElem_zipWith]
        simp only [List.length_zipWith] at hi
        exact mul_nonneg (hw _ (by simp)) (le_of_lt (hd _ (by simp)))
      obtain ⟨x, hx, hpos⟩ := hw0
      rcases List.mem_cons.1 hx with rfl | hx
      · have : 0 < x * b := mul_pos hpos hb
        linarith
      · have := ih (d := bs) (by simpa using hlen) (fun y hy => hw y (by simp [hy])) ⟨x, hx, hpos⟩
          (fun y hy => hd y (by simp [hy]))
        simp only [dot] at this
        have : 0 ≤ a * b := mul_nonneg ha (le_of_lt hb)
        linarith

theorem mulAbs_nonneg {w z : Vec} (hw : ∀ x ∈ w, 0 ≤ x) : ∀ x ∈ mulAbs w z, 0 ≤ x := by
  intro x hx
  rcases List.mem_iff_getElem.1 hx with ⟨i, hi, rfl⟩
  simp only [mulAbs, List.getElem_zipWith]
  exact mul_nonneg (hw _ (by simp)) (rabs_nonneg _)

theorem mulAbs_exists_pos {w d : Vec} (hlen : w.length = d.length)
    (hw0 : ∃ x ∈ w, 0 < x) (hd : ∀ x ∈ d, 0 < x) : ∃ x ∈ mulAbs w d, 0 < x := by
  induction w generalizing d with
  | nil => simp at hw0
  | cons a as ih =>
    cases d with
    | nil => simp at hlen
    | cons b bs =>
      obtain ⟨x, hx, hpos⟩ := hw0
      rcases List.mem_cons.1 hx with rfl | hx
      · refine ⟨x * rabs b, by simp [mulAbs], ?_⟩
        have hb : 0 < b := hd b (by simp)
        rw [rabs_of_nonneg (le_of_lt hb)]
        exact mul_pos hpos hb
      · obtain ⟨y, hy, hy0⟩ := ih (d := bs) (by simpa using hlen) ⟨x, hx, hpos⟩
          (fun y hy => hd y (by simp [hy]))
        exact ⟨y, by simp only [mulAbs, List.zipWith_cons_cons, List.mem_cons]; right; exact hy, hy0⟩

theorem nsq_vsub_smul (z w : Vec) (c : Rat) (h : z.length = w.length) :
    nsq (vsub z (smul c w)) = nsq z - 2 * c * dot w z + c * c * nsq w := by
  induction z generalizing w with
  | nil =>
    cases w with
    | nil => simp [nsq, dot, vsub, smul, sumL]
    | cons b bs => simp at h
  | cons a as ih =>
    cases w with
    | nil => simp at h
    | cons b bs =>
      have := ih bs (by simpa using h)
      simp only [nsq, dot, vsub, smul, List.map_cons, List.zipWith_cons_cons, sumL] at this ⊢
      rw [this]; ring

/-- Cauchy–Schwarz in the form needed for Quadratic: `‖z‖² − (w·z)²/‖w‖² ≥ 0` -/
theorem cauchy_schwarz (z w : Vec) (h : z.length = w.length) (hw : nsq w ≠ 0) :
    0 ≤ nsq z - dot w z * dot w z / nsq w := by
  have h0 := nsq_nonneg (vsub z (smul (dot w z / nsq w) w))
  rw [nsq_vsub_smul z w _ h] at h0
  have e : nsq z - 2 * (dot w z / nsq w) * dot w z + dot w z / nsq w * (dot w z / nsq w) * nsq w
      = nsq z - dot w z * dot w z / nsq w := by
    field_simp; ring
  rw [e] at h0; exact h0

/-- every scalarisation is strictly positive on a strictly positive direction
(weights `≥ 0`, not all zero) -/
theorem core_pos (s : Strategy) {w d : Vec} (hlen : w.length = d.length) (hw : ∀ x ∈ w, 0 ≤ x)
    (hw0 : ∃ x ∈ w, 0 < x) (hd : ∀ x ∈ d, 0 < x) {k : Rat} (hk : core s w d = some k) : 0 < k := by
  have hdot := dot_pos hlen hw hw0 hd
  have hnsq := nsq_pos_of_exists hw0
  cases s with
  | linear =>
    simp only [core, Option.some.injEq] at hk; subst hk; exact hdot
  | chebyshev =>
    simp only [core] at hk
    obtain ⟨_, hub⟩ := maxL_spec hk
    obtain ⟨x, hx, hx0⟩ := mulAbs_exists_pos hlen hw0 hd
    exact lt_of_lt_of_le hx0 (hub x hx)
  | augChebyshev alpha =>
    simp only [core] at hk
    cases hm : maxL (mulAbs w d) with
    | none => simp [hm] at hk
    | some m =>
      simp only [hm, Option.map_some, Option.some.injEq] at hk; subst hk
      obtain ⟨_, hub⟩ := maxL_spec hm
      obtain ⟨x, hx, hx0⟩ := mulAbs_exists_pos hlen hw0 hd
      have h1 : 0 < m := lt_of_lt_of_le hx0 (hub x hx)
      have h2 : 0 ≤ rabs alpha * norm1 (mulAbs w d) := mul_nonneg (rabs_nonneg _) (norm1_nonneg _)
      linarith
  | pbi penalty =>
    simp only [core, ne_of_gt hnsq, if_false, Option.some.injEq] at hk; subst hk
    have h1 : 0 < dot w d / nsq w := div_pos hdot hnsq
    have h2 : 0 ≤ rabs penalty * norm1 (vsub d (smul (dot w d / nsq w) w)) :=
      mul_nonneg (rabs_nonneg _) (norm1_nonneg _)
    linarith
  | quadratic alpha =>
    simp only [core, ne_of_gt hnsq, if_false, Option.some.injEq] at hk; subst hk
    have h1 : 0 < dot w d * dot w d / nsq w := div_pos (mul_pos hdot hdot) hnsq
    have h2 : 0 ≤ rabs alpha * (nsq d - dot w d * dot w d / nsq w) :=
      mul_nonneg (rabs_nonneg _) (cauchy_schwarz d w hlen.symm (ne_of_gt hnsq))
    linarith

/-- along a positive direction every scalarisation is strictly increasing in the distance -/
theorem core_ray_strictMono (s : Strategy) {w d : Vec} (hlen : w.length = d.length)
    (hw : ∀ x ∈ w, 0 ≤ x) (hw0 : ∃ x ∈ w, 0 < x) (hd : ∀ x ∈ d, 0 < x)
    {t t' : Rat} (ht : 0 ≤ t) (htt : t < t') {a b : Rat}
    (ha : core s w (smul t d) = some a) (hb : core s w (smul t' d) = some b) : a < b := by
  have ht' : 0 ≤ t' := le_trans ht (le_of_lt htt)
  rw [core_smul s w d ht] at ha
  rw [core_smul s w d ht'] at hb
  cases hk : core s w d with
  | none => simp [hk] at ha
  | some k =>
    simp only [hk, Option.map_some, Option.some.injEq] at ha hb
    subst ha hb
    have hkpos := core_pos s hlen hw hw0 hd hk
    exact mul_lt_mul_of_pos_right (deg_strictMono s ht htt) hkpos

/-! ### Pareto-monotonicity of Linear, Chebyshev, AugChebyshev -/

/-- the strategies for which `z ≤ z'` (componentwise, `z ≥ 0`) implies `s(z) ≤ s(z')` -/
def Strategy.monotone : Strategy → Bool
  | .linear => true
  | .chebyshev => true
  | .augChebyshev _ => true
  | _ => false

theorem dot_mono {z z' : Vec} (h : Forall₂ (· ≤ ·) z z') (w : Vec) (hw : ∀ x ∈ w, 0 ≤ x) :
    dot w z ≤ dot w z' := by
  induction h generalizing w with
  | nil => simp [dot]
  | cons hab _ ih =>
    cases w with
    | nil => simp [dot]
    | cons c cs =>
      have := ih cs (fun x hx => hw x (by simp [hx]))
      simp only [dot, List.zipWith_cons_cons, sumL] at this ⊢
      have hc := hw c (by simp)
      nlinarith

theorem mulAbs_mono {z z' : Vec} (h : Forall₂ (fun a b => 0 ≤ a ∧ a ≤ b) z z') (w : Vec)
    (hw : ∀ x ∈ w, 0 ≤ x) :
    Forall₂ (fun a b => 0 ≤ a ∧ a ≤ b) (mulAbs w z) (mulAbs w z') := by
  induction h generalizing w with
  | nil => cases w <;> simp [mulAbs]
  | cons hab _ ih =>
    cases w with
    | nil => simp [mulAbs]
    | cons c cs =>
      simp only [mulAbs, List.zipWith_cons_cons]
      refine Forall₂.cons ?_ (ih cs (fun x hx => hw x (by simp [hx])))
      have hc := hw c (by simp)
      rw [rabs_of_nonneg hab.1, rabs_of_nonneg (le_trans hab.1 hab.2)]
      exact ⟨mul_nonneg hc hab.1, mul_le_mul_of_nonneg_left hab.2 hc⟩

theorem norm1_mono {l l' : Vec} (h : Forall₂ (fun a b => 0 ≤ a ∧ a ≤ b) l l') : norm1 l ≤ norm1 l' := by
  induction h with
  | nil => simp [norm1]
  | cons hab _ ih =>
    simp only [norm1, List.map_cons, sumL] at ih ⊢
    rw [rabs_of_nonneg hab.1, rabs_of_nonneg (le_trans hab.1 hab.2)]
    linarith [hab.2]

theorem forall₂_le_of {l l' : Vec} (h : Forall₂ (fun a b => 0 ≤ a ∧ a ≤ b) l l') :
    Forall₂ (· ≤ ·) l l' := by
  induction h with
  | nil => exact Forall₂.nil
  | cons hab _ ih => exact Forall₂.cons hab.2 ih

theorem core_mono (s : Strategy) (hs : s.monotone = true) {w z z' : Vec} (hw : ∀ x ∈ w, 0 ≤ x)
    (h : Forall₂ (fun a b => 0 ≤ a ∧ a ≤ b) z z') {a b : Rat}
    (ha : core s w z = some a) (hb : core s w z' = some b) : a ≤ b := by
  cases s with
  | linear =>
    simp only [core, Option.some.injEq] at ha hb; subst ha hb
    exact dot_mono (forall₂_le_of h) w hw
  | chebyshev =>
    simp only [core] at ha hb
    exact maxL_mono (forall₂_le_of (mulAbs_mono h w hw)) ha hb
  | augChebyshev alpha =>
    simp only [core] at ha hb
    cases hm : maxL (mulAbs w z) with
    | none => simp [hm] at ha
    | some m =>
      cases hm' : maxL (mulAbs w z') with
      | none => simp [hm'] at hb
      | some m' =>
        simp only [hm, hm', Option.map_some, Option.some.injEq] at ha hb; subst ha hb
        have h1 := maxL_mono (forall₂_le_of (mulAbs_mono h w hw)) hm hm'
        have h2 := norm1_mono (mulAbs_mono h w hw)
        have h3 := rabs_nonneg alpha
        nlinarith
  | pbi _ => simp [Strategy.monotone] at hs
  | quadratic _ => simp [Strategy.monotone] at hs

theorem vsub_mono {u y y' : Vec} (h1 : Forall₂ (· ≤ ·) u y) (h2 : Forall₂ (· ≤ ·) y y') :
    Forall₂ (fun a b => 0 ≤ a ∧ a ≤ b) (vsub y u) (vsub y' u) := by
  induction h1 generalizing y' with
  | nil => cases h2; simp [vsub]
  | cons hab _ ih =>
    cases h2 with
    | cons hbc htl =>
      simp only [vsub, List.zipWith_cons_cons]
      exact Forall₂.cons ⟨by linarith, by linarith⟩ (ih htl)

theorem forall₂_length {R : Rat → Rat → Prop} {l l' : Vec} (h : Forall₂ R l l') : l.length = l'.length := by
  induction h with
  | nil => rfl
  | cons _ _ ih => simp [ih]

/-- Pareto-monotone: above the utopia point, a componentwise smaller (better, in the internal
minimisation) vector never gets a larger scalarised value -/
theorem scalarize_mono (s : Strategy) (hs : s.monotone = true) {w u y y' : Vec} (hw : ∀ x ∈ w, 0 ≤ x)
    (hu : Forall₂ (· ≤ ·) u y) (hy : Forall₂ (· ≤ ·) y y') {a b : Rat}
    (ha : scalarize s w u y = some a) (hb : scalarize s w u y' = some b) : a ≤ b := by
  unfold scalarize at ha hb
  split at ha
  · simp at ha
  · split at hb
    · simp at hb
    · exact core_mono s hs hw (vsub_mono hu hy) ha hb

end DH.Direction
