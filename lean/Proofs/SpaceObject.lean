import Model.SpaceObject
import Proofs.SpaceBasic

/-! Lemmas for the `Space` object under a history of transformer changes (C09,
`Model/SpaceObject.lean`): every step keeps the declaration of every dimension, its
well-formedness and hence the set of points of the space. -/

namespace DH.Space

/-- position by position: the same declaration, well-formedness kept -/
def relDims : List Dim → List Dim → Prop
  | [], [] => True
  | d :: ds, d' :: ds' => (d.sameDecl d' = true ∧ (d.wf = true → d'.wf = true)) ∧ relDims ds ds'
  | _, _ => False

theorem sameDecl_refl (d : Dim) : d.sameDecl d = true := by
  cases d <;> simp [Dim.sameDecl]

theorem sameDecl_trans {a b c : Dim} (h1 : a.sameDecl b = true) (h2 : b.sameDecl c = true) :
    a.sameDecl c = true := by
  cases a <;> cases b <;> cases c <;> simp_all [Dim.sameDecl]

theorem sameDecl_memDim {d d' : Dim} (h : d.sameDecl d' = true) (v : Val) :
    memDim d' v = memDim d v := by
  cases d <;> cases d' <;> simp [Dim.sameDecl] at h
  · obtain ⟨⟨rfl, rfl⟩, rfl⟩ := h
    cases v <;> simp [memDim]
  · obtain ⟨⟨rfl, rfl⟩, rfl⟩ := h
    cases v <;> simp [memDim]
  · subst h
    simp [memDim]

theorem sameDecl_kind {d d' : Dim} (h : d.sameDecl d' = true) : d'.kind = d.kind := by
  cases d <;> cases d' <;> simp [Dim.sameDecl] at h <;> rfl

/-- `set_transformer`: the declaration stays, the transformer is the one asked for, a well-formed
dimension stays well-formed -/
theorem setTransformer_spec (d d' : Dim) (t : TrName) (h : d.setTransformer t = .ok d') :
    d.sameDecl d' = true ∧ d'.trName = t ∧ (d.wf = true → d'.wf = true) := by
  cases d with
  | real lo hi p tr =>
    cases t <;> simp [Dim.setTransformer] at h <;> subst h <;> simp [Dim.sameDecl, Dim.trName, Dim.wf]
  | int lo hi p tr =>
    cases t <;> simp [Dim.setTransformer] at h <;> subst h <;> simp [Dim.sameDecl, Dim.trName, Dim.wf]
  | cat cs tr =>
    cases t with
    | identity =>
      simp only [Dim.setTransformer] at h
      split at h
      · rename_i hc
        cases h
        refine ⟨by simp [Dim.sameDecl], rfl, ?_⟩
        intro hw
        simp only [Dim.wf, Bool.and_eq_true] at hw ⊢
        exact ⟨hw.1, by simpa using hc⟩
      · cases h
    | normalize =>
      simp [Dim.setTransformer] at h; subst h
      refine ⟨by simp [Dim.sameDecl], rfl, ?_⟩
      intro hw
      simp only [Dim.wf, Bool.and_eq_true] at hw ⊢
      exact ⟨hw.1, by simp⟩
    | label =>
      simp [Dim.setTransformer] at h; subst h
      refine ⟨by simp [Dim.sameDecl], rfl, ?_⟩
      intro hw
      simp only [Dim.wf, Bool.and_eq_true] at hw ⊢
      exact ⟨hw.1, by simp⟩
    | onehot =>
      simp [Dim.setTransformer] at h; subst h
      refine ⟨by simp [Dim.sameDecl], rfl, ?_⟩
      intro hw
      simp only [Dim.wf, Bool.and_eq_true] at hw ⊢
      exact ⟨hw.1, by simp⟩

theorem relDims_refl : ∀ dims : List Dim, relDims dims dims
  | [] => trivial
  | d :: ds => ⟨⟨sameDecl_refl d, id⟩, relDims_refl ds⟩

theorem relDims_trans : ∀ {a b c : List Dim}, relDims a b → relDims b c → relDims a c
  | [], [], [], _, _ => trivial
  | _ :: _, _ :: _, _ :: _, ⟨⟨h1, w1⟩, r1⟩, ⟨⟨h2, w2⟩, r2⟩ =>
    ⟨⟨sameDecl_trans h1 h2, fun h => w2 (w1 h)⟩, relDims_trans r1 r2⟩
  | [], [], _ :: _, _, h => h.elim
  | [], _ :: _, _, h, _ => h.elim
  | _ :: _, [], _, h, _ => h.elim
  | _ :: _, _ :: _, [], _, h => h.elim

theorem relDims_length : ∀ {a b : List Dim}, relDims a b → b.length = a.length
  | [], [], _ => rfl
  | _ :: _, _ :: _, ⟨_, r⟩ => by simp [relDims_length r]
  | [], _ :: _, h => h.elim
  | _ :: _, [], h => h.elim

theorem relDims_wf : ∀ {a b : List Dim}, relDims a b → (∀ d ∈ a, d.wf = true) → ∀ d ∈ b, d.wf = true
  | [], [], _, _ => by simp
  | x :: xs, y :: ys, ⟨⟨_, w⟩, r⟩, h => by
    intro d hd
    rcases List.mem_cons.mp hd with rfl | hd
    · exact w (h x (by simp))
    · exact relDims_wf r (fun d hd' => h d (by simp [hd'])) d hd
  | [], _ :: _, h, _ => h.elim
  | _ :: _, [], h, _ => h.elim

theorem relDims_memRow : ∀ {a b : List Dim}, relDims a b → ∀ r : List Val, memRow b r = memRow a r
  | [], [], _, r => rfl
  | x :: xs, y :: ys, ⟨⟨s, _⟩, rel⟩, r => by
    cases r with
    | nil => rfl
    | cons v vs => simp [memRow, sameDecl_memDim s v, relDims_memRow rel vs]
  | [], _ :: _, h, _ => h.elim
  | _ :: _, [], h, _ => h.elim

/-- a per-dimension step that either keeps a dimension or calls its `set_transformer` -/
theorem mapE_rel (f : Dim → Except Err Dim)
    (hf : ∀ d d', f d = .ok d' → d.sameDecl d' = true ∧ (d.wf = true → d'.wf = true)) :
    ∀ (dims dims' : List Dim), mapE f dims = .ok dims' → relDims dims dims'
  | [], dims', h => by
    simp [mapE] at h; subst h; trivial
  | d :: ds, dims', h => by
    simp only [mapE] at h
    cases hfd : f d with
    | error e => simp [hfd] at h
    | ok d' =>
      cases hm : mapE f ds with
      | error e => simp [hfd, hm] at h
      | ok ds' =>
        simp [hfd, hm] at h
        subst h
        exact ⟨hf d d' hfd, mapE_rel f hf ds ds' hm⟩

theorem setEachDims_rel : ∀ (dims : List Dim) (ts : List TrName) (dims' : List Dim),
    setEachDims dims ts = .ok dims' → relDims dims dims'
  | [], _, dims', h => by
    simp [setEachDims] at h; subst h; trivial
  | _ :: _, [], _, h => by simp [setEachDims] at h
  | d :: ds, t :: ts, dims', h => by
    simp only [setEachDims] at h
    cases hd : d.setTransformer t with
    | error e => simp [hd] at h
    | ok d' =>
      cases hm : setEachDims ds ts with
      | error e => simp [hd, hm] at h
      | ok ds' =>
        simp [hd, hm] at h
        subst h
        have s := setTransformer_spec d d' t hd
        exact ⟨⟨s.1, s.2.2⟩, setEachDims_rel ds ts ds' hm⟩

theorem setAt_rel : ∀ (dims : List Dim) (j : Nat) (t : TrName) (dims' : List Dim),
    setAt dims j t = .ok dims' → relDims dims dims'
  | [], _, _, _, h => by simp [setAt] at h
  | d :: ds, 0, t, dims', h => by
    simp only [setAt] at h
    cases hd : d.setTransformer t with
    | error e => simp [hd] at h
    | ok d' =>
      simp [hd] at h
      subst h
      have s := setTransformer_spec d d' t hd
      exact ⟨⟨s.1, s.2.2⟩, relDims_refl ds⟩
  | d :: ds, j + 1, t, dims', h => by
    simp only [setAt] at h
    cases hm : setAt ds j t with
    | error e => simp [hm] at h
    | ok ds' =>
      simp [hm] at h
      subst h
      exact ⟨⟨sameDecl_refl d, id⟩, setAt_rel ds j t ds' hm⟩

/-- the dimension a dimension-level switch addresses gets the transformer asked for; every other
dimension object is exactly what it was -/
theorem setAt_get : ∀ (dims : List Dim) (j : Nat) (t : TrName) (dims' : List Dim),
    setAt dims j t = .ok dims' →
      (∃ d d', dims[j]? = some d ∧ dims'[j]? = some d' ∧ d.setTransformer t = .ok d') ∧
      ∀ i, i ≠ j → dims'[i]? = dims[i]?
  | [], _, _, _, h => by simp [setAt] at h
  | d :: ds, 0, t, dims', h => by
    simp only [setAt] at h
    cases hd : d.setTransformer t with
    | error e => simp [hd] at h
    | ok d' =>
      simp [hd] at h
      subst h
      refine ⟨⟨d, d', by simp, by simp, hd⟩, ?_⟩
      intro i hi
      cases i with
      | zero => exact absurd rfl hi
      | succ i => simp
  | d :: ds, j + 1, t, dims', h => by
    simp only [setAt] at h
    cases hm : setAt ds j t with
    | error e => simp [hm] at h
    | ok ds' =>
      simp [hm] at h
      subst h
      obtain ⟨⟨x, x', h1, h2, h3⟩, h4⟩ := setAt_get ds j t ds' hm
      refine ⟨⟨x, x', by simpa using h1, by simpa using h2, h3⟩, ?_⟩
      intro i hi
      cases i with
      | zero => simp
      | succ i =>
        have := h4 i (fun e => hi (by omega))
        simpa using this

theorem apply_rel (dims dims' : List Dim) (op : SpaceOp) (h : op.apply dims = .ok dims') :
    relDims dims dims' := by
  cases op with
  | setDim j t => exact setAt_rel dims j t dims' h
  | setAll t =>
    refine mapE_rel _ ?_ dims dims' h
    intro d d' hd
    have s := setTransformer_spec d d' t hd
    exact ⟨s.1, s.2.2⟩
  | setEach ts => exact setEachDims_rel dims ts dims' h
  | setByType k t =>
    refine mapE_rel _ ?_ dims dims' h
    intro d d' hd
    by_cases hk : d.kind = k
    · simp only [hk, if_true] at hd
      have s := setTransformer_spec d d' t hd
      exact ⟨s.1, s.2.2⟩
    · simp only [hk, if_false] at hd
      cases hd
      exact ⟨sameDecl_refl d, id⟩
  | normalizeDims =>
    refine mapE_rel _ ?_ dims dims' h
    intro d d' hd
    have s := setTransformer_spec d d' .normalize hd
    exact ⟨s.1, s.2.2⟩

theorem runOps_rel : ∀ (ops : List SpaceOp) (dims dims' : List Dim),
    runOps dims ops = .ok dims' → relDims dims dims'
  | [], dims, dims', h => by
    simp [runOps] at h; subst h; exact relDims_refl dims
  | op :: ops, dims, dims', h => by
    simp only [runOps] at h
    cases ha : op.apply dims with
    | error e => simp [ha] at h
    | ok mid =>
      simp [ha] at h
      exact relDims_trans (apply_rel dims mid op ha) (runOps_rel ops mid dims' h)

/-- `normalize_dimensions` (and `set_transformer("normalize")`) is accepted by every dimension -/
theorem normalize_accepted (d : Dim) : ∃ d', d.setTransformer .normalize = .ok d' := by
  cases d <;> exact ⟨_, rfl⟩

theorem normalizeDims_accepted : ∀ dims : List Dim, ∃ dims', SpaceOp.normalizeDims.apply dims = .ok dims' ∧
    dims'.map Dim.trName = dims.map (fun _ => TrName.normalize)
  | [] => ⟨[], rfl, rfl⟩
  | d :: ds => by
    obtain ⟨d', hd⟩ := normalize_accepted d
    obtain ⟨ds', hds, hn⟩ := normalizeDims_accepted ds
    refine ⟨d' :: ds', ?_, ?_⟩
    · simp only [SpaceOp.apply] at hds ⊢
      exact mapE_cons_ok hd hds
    · have := (setTransformer_spec d d' .normalize hd).2.1
      simp [this, hn]

theorem relDims_get : ∀ {a b : List Dim}, relDims a b → ∀ (j : Nat) (x y : Dim),
    a[j]? = some x → b[j]? = some y → x.sameDecl y = true
  | [], [], _, j, x, y, h1, _ => by simp at h1
  | x0 :: xs, y0 :: ys, ⟨⟨s, _⟩, rel⟩, j, x, y, h1, h2 => by
    cases j with
    | zero =>
      simp at h1 h2
      subst h1; subst h2
      exact s
    | succ j =>
      simp at h1 h2
      exact relDims_get rel j x y h1 h2
  | [], _ :: _, h, _, _, _, _, _ => h.elim
  | _ :: _, [], h, _, _, _, _, _ => h.elim

/-- a normalized dimension is one column between 0 and 1, whatever its kind -/
theorem normalized_layout (L : Rat → Rat) (d : Dim) (h : d.trName = .normalize) :
    d.transformedSize = 1 ∧ d.transformedBounds L = [(0, 1)] := by
  cases d with
  | real lo hi p tr =>
    cases tr <;> simp [Dim.trName] at h
    cases p <;> simp [Dim.transformedSize, Dim.transformedBounds]
  | int lo hi p tr =>
    cases tr <;> simp [Dim.trName] at h
    cases p <;> simp [Dim.transformedSize, Dim.transformedBounds]
  | cat cs tr =>
    cases tr <;> simp [Dim.trName] at h
    simp [Dim.transformedSize, Dim.transformedBounds]

theorem normalized_layouts (L : Rat → Rat) : ∀ dims : List Dim, (∀ d ∈ dims, d.trName = .normalize) →
    transformedNDims dims = dims.length ∧ transformedBounds L dims = List.replicate dims.length (0, 1)
  | [], _ => by simp [transformedNDims, transformedBounds]
  | d :: ds, h => by
    have h1 := normalized_layout L d (h d (by simp))
    have ih := normalized_layouts L ds (fun x hx => h x (by simp [hx]))
    simp only [transformedNDims, transformedBounds] at ih ⊢
    refine ⟨?_, ?_⟩
    · simp [h1.1, ih.1]; omega
    · simp [h1.2, ih.2, List.replicate_succ]

end DH.Space
