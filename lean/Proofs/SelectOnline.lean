import Proofs.SelectGreedy

/-! C20: the masked candidate `OnlineSelector.on_done` builds from a finished job (`scatter`, `onlineCandidate`). -/

namespace DH.Select

theorem scatter_spec (ps : List (Nat × Rat)) : ∀ (buf : List (Option Rat)),
    (∀ p ∈ ps, p.1 < buf.length) → (ps.map (·.1)).Nodup →
    (scatter ps buf).length = buf.length ∧
    (∀ p ∈ ps, (scatter ps buf)[p.1]? = some (some p.2)) ∧
    (∀ s, s ∉ ps.map (·.1) → (scatter ps buf)[s]? = buf[s]?) := by
  induction ps with
  | nil => intro buf _ _; simp [scatter]
  | cons q ps ih =>
    intro buf hv hnd
    have hnd' : q.1 ∉ ps.map (·.1) ∧ (ps.map (·.1)).Nodup := List.nodup_cons.1 hnd
    have hq : q.1 < buf.length := hv q (by simp)
    have hv' : ∀ p ∈ ps, p.1 < (buf.set q.1 (some q.2)).length := by
      intro p hp; simpa using hv p (by simp [hp])
    obtain ⟨h1, h2, h3⟩ := ih (buf.set q.1 (some q.2)) hv' hnd'.2
    have e : scatter (q :: ps) buf = scatter ps (buf.set q.1 (some q.2)) := rfl
    rw [e]
    refine ⟨by simpa using h1, ?_, ?_⟩
    · intro p hp
      rcases List.mem_cons.1 hp with rfl | hp
      · rw [h3 p.1 hnd'.1]
        simp [hq]
      · exact h2 p hp
    · intro s hs
      have hs' : s ≠ q.1 ∧ s ∉ ps.map (·.1) := by simpa using hs
      rw [h3 s hs'.2, List.getElem?_set]
      have : ¬ q.1 = s := fun h => hs'.1 h.symm
      simp [this]

end DH.Select
