import Model.Timeout

/-! Helper lemmas for C14 (core Lean only). -/

namespace DH.Timeout

/-! ### the run-function -/

theorem sees_mono {armed : Option Nat} {jf : Bool} {x y : Nat} (h : sees armed jf x = true)
    (hxy : x < y) : sees armed jf y = true := by
  cases armed with
  | none => simp [sees] at h
  | some c =>
    simp only [sees, Bool.or_eq_true, Bool.and_eq_true, decide_eq_true_eq] at h ⊢
    left; rcases h with h | ⟨h, _⟩ <;> omega

theorem sees_ge {c : Nat} {jf : Bool} {x : Nat} (h : sees (some c) jf x = true) : c ≤ x := by
  simp only [sees, Bool.or_eq_true, Bool.and_eq_true, decide_eq_true_eq] at h
  rcases h with h | ⟨h, _⟩ <;> omega

theorem sees_of_lt {c : Nat} {jf : Bool} {x : Nat} (h : c < x) : sees (some c) jf x = true := by
  simp [sees, h]

theorem not_sees_of_lt {c : Nat} {jf : Bool} {x : Nat} (h : x < c) : sees (some c) jf x = false := by
  simp only [sees, Bool.or_eq_false_iff, Bool.and_eq_false_iff, decide_eq_false_iff_not]
  exact ⟨by omega, Or.inl (by omega)⟩

/-- what the polling loop returns: an instant between the first and the last poll, at which
`sees` is exactly the flag it returns; every earlier poll did not see CANCELLING -/
theorem polls_spec (armed : Option Nat) (jf : Bool) (p : Nat) :
    ∀ (r x : Nat),
      x ≤ (polls armed jf p x r).1 ∧ (polls armed jf p x r).1 ≤ x + r * p ∧
      (polls armed jf p x r).2 = sees armed jf (polls armed jf p x r).1 ∧
      ((polls armed jf p x r).2 = false → (polls armed jf p x r).1 = x + r * p) ∧
      (sees armed jf (x + r * p) = true → (polls armed jf p x r).2 = true)
  | 0, x => by simp [polls]
  | r + 1, x => by
    simp only [polls]
    split
    · next h =>
      refine ⟨Nat.le_refl _, by omega, h.symm, by simp, fun _ => rfl⟩
    · next h =>
      obtain ⟨i1, i2, i3, i4, i5⟩ := polls_spec armed jf p r (x + p)
      have e : x + p + r * p = x + (r + 1) * p := by rw [Nat.add_mul]; omega
      rw [e] at i2 i4 i5
      exact ⟨by omega, i2, i3, i4, i5⟩

/-- a cooperative run-function returns at most one poll interval after the deadline -/
theorem polls_prompt (c : Nat) (jf : Bool) (p : Nat) :
    ∀ (r x : Nat), x ≤ c + p → (polls (some c) jf p x r).1 ≤ c + p
  | 0, x, h => by simpa [polls] using h
  | r + 1, x, h => by
    simp only [polls]
    split
    · exact h
    · next hs =>
      have : x ≤ c := by
        false_or_by_contra
        rename_i hn
        exact hs (sees_of_lt (by omega))
      exact polls_prompt c jf p r (x + p) (by omega)

/-- the run started at `s` finishes at `s + m*p` at the latest; `saw` is `sees` at the instant it returns
(when it slept at least once) -/
theorem runFn_spec (armed : Option Nat) (sp : Spec) (s : Nat) :
    s ≤ (runFn armed sp s).1 ∧ (runFn armed sp s).1 ≤ s + sp.m * sp.p ∧
    ((runFn armed sp s).2 = true → sees armed sp.jobFirst (runFn armed sp s).1 = true) ∧
    ((runFn armed sp s).2 = false → (runFn armed sp s).1 = s + sp.m * sp.p) ∧
    (0 < sp.m → (runFn armed sp s).2 = sees armed sp.jobFirst (runFn armed sp s).1) := by
  unfold runFn
  split
  · next hm => simp [hm]
  · next r hm =>
    obtain ⟨i1, i2, i3, i4, _⟩ := polls_spec armed sp.jobFirst sp.p r (s + sp.p)
    have e : s + sp.p + r * sp.p = s + sp.m * sp.p := by rw [hm, Nat.succ_mul]; omega
    rw [e] at i2 i4
    exact ⟨by omega, i2, fun h => by rw [← i3]; exact h, i4, fun _ => i3⟩

/-- **finished strictly before the deadline**: the run returns at its natural end, never reads
CANCELLING, and no TimeoutError is raised -/
theorem runFn_before (c : Nat) (sp : Spec) (s : Nat) (h : s + sp.m * sp.p < c) :
    runFn (some c) sp s = (s + sp.m * sp.p, false) ∧
    sees (some c) sp.jobFirst (runFn (some c) sp s).1 = false := by
  obtain ⟨r1, r2, r3, r4, _⟩ := runFn_spec (some c) sp s
  have hns : sees (some c) sp.jobFirst (runFn (some c) sp s).1 = false := not_sees_of_lt (by omega)
  have h2 : (runFn (some c) sp s).2 = false := by
    cases hb : (runFn (some c) sp s).2 with
    | false => rfl
    | true => have := r3 hb; rw [hns] at this; simp at this
  exact ⟨Prod.ext (r4 h2) h2, hns⟩

/-- **still running at the deadline** (acquired no later than the deadline, natural end strictly
after it): TimeoutError is raised, the run reads CANCELLING, and returns between the deadline and
one poll interval after it -/
theorem runFn_after (c : Nat) (sp : Spec) (s : Nat) (hs : s ≤ c) (h : c < s + sp.m * sp.p) :
    (runFn (some c) sp s).2 = true ∧ sees (some c) sp.jobFirst (runFn (some c) sp s).1 = true ∧
    c ≤ (runFn (some c) sp s).1 ∧ (runFn (some c) sp s).1 ≤ c + sp.p ∧
    (runFn (some c) sp s).1 ≤ s + sp.m * sp.p := by
  have hm : 0 < sp.m := by
    cases hm : sp.m with
    | zero => rw [hm] at h; simp at h; omega
    | succ r => omega
  obtain ⟨r1, r2, r3, r4, r5⟩ := runFn_spec (some c) sp s
  have hsaw : (runFn (some c) sp s).2 = true := by
    unfold runFn
    split
    · next hm' => omega
    · next r hm' =>
      have e : s + sp.p + r * sp.p = s + sp.m * sp.p := by rw [hm', Nat.succ_mul]; omega
      exact (polls_spec (some c) sp.jobFirst sp.p r (s + sp.p)).2.2.2.2 (by rw [e]; exact sees_of_lt h)
  have hsees := r3 hsaw
  have hprompt : (runFn (some c) sp s).1 ≤ c + sp.p := by
    unfold runFn
    split
    · next hm' => omega
    · next r hm' => exact polls_prompt c sp.jobFirst sp.p r (s + sp.p) (by omega)
  exact ⟨hsaw, hsees, sees_ge hsees, hprompt, r2⟩

/-- **acquired after the deadline**: TimeoutError is raised at once -/
theorem runFn_late (c : Nat) (sp : Spec) (s : Nat) (hs : c < s) :
    sees (some c) sp.jobFirst (runFn (some c) sp s).1 = true :=
  sees_of_lt (by have := (runFn_spec (some c) sp s).1; omega)

/-! ### the per-job invariant: program counter ↔ status ↔ history of status writes -/

open Status in
/-- what the log / status / output of a job look like at each program counter -/
def JInv (j : Job) : Prop :=
  match j.pc with
  | .created => j.log = [ready] ∧ j.status = ready
  | .queued => j.log = [ready] ∧ j.status = ready
  | .waiting => j.log = [ready, running] ∧ j.status = running
  | .cancelling => j.log = [ready, running, cancelling] ∧ j.status = cancelling ∧ j.fired = true
  | .returned =>
    (j.log = [ready, running] ∧ j.status = running ∧ j.fired = false ∧ j.output = .val j.spec.val) ∨
    (j.log = [ready, running, cancelling, cancelled] ∧ j.status = cancelled ∧ j.fired = true ∧
      j.output = .val j.spec.val)
  | .gathered =>
    (j.log = [ready, running, done] ∧ j.status = done ∧ j.fired = false ∧ j.output = .val j.spec.val) ∨
    (j.log = [ready, running, cancelling, cancelled] ∧ j.status = cancelled ∧ j.fired = true ∧
      j.output = .val j.spec.val)
  | .closedOut => (j.log = [ready, cancelled] ∨ j.log = [ready, running, cancelled]) ∧ j.status = cancelled
  | .aborted => j.log = [ready, running, cancelling] ∧ j.status = cancelling

/-- the timeline computed at acquisition is the run-function's, and `fired` says whether the
TimeoutError comes before the result -/
def TInv (j : Job) : Prop :=
  (j.pc = .waiting ∨ j.pc = .cancelling ∨ j.pc = .returned ∨ j.pc = .gathered) →
    (j.ret, j.saw) = runFn j.armed j.spec j.start ∧ j.fired = sees j.armed j.spec.jobFirst j.ret

def Inv (j : Job) : Prop := JInv j ∧ TInv j

theorem inv_fresh (sp : Spec) : Inv ({ spec := sp } : Job) := by
  constructor
  · simp [JInv]
  · intro h; simp at h

theorem inv_jQueue (g : Nat) {j : Job} (h : Inv j) : Inv (jQueue g j) := by
  unfold jQueue
  split
  · next hp =>
    obtain ⟨h1, h2⟩ := h
    constructor
    · simp only [JInv, hp] at h1 ⊢; exact h1
    · intro hh; simp at hh
  · exact h

theorem inv_jAcquire (g now : Nat) (dl : Option Nat) {j : Job} (h : Inv j) :
    Inv (jAcquire g now dl j) := by
  unfold jAcquire
  split
  · next hp =>
    obtain ⟨h1, _⟩ := h
    have hl : j.log = [.ready] := by
      rcases hp with hp | hp <;> simp only [JInv, hp] at h1 <;> exact h1.1
    constructor
    · simp [JInv, Job.write, hl]
    · intro _; simp [Job.write]
  · exact h

theorem inv_jFire {j : Job} (h : Inv j) : Inv (jFire j) := by
  unfold jFire
  split
  · next hp =>
    obtain ⟨h1, h2⟩ := h
    constructor
    · simp only [JInv, hp.1] at h1
      simp [JInv, Job.write, h1.1, hp.2]
    · intro _
      have := h2 (Or.inl hp.1)
      simpa [Job.write] using this
  · exact h

theorem jFire_waiting {j : Job} (h : (jFire j).pc = .waiting) : jFire j = j ∧ j.fired = false := by
  unfold jFire at h ⊢
  split
  · next hp => rw [if_pos hp] at h; simp at h
  · next hp =>
    rw [if_neg hp] at h
    refine ⟨rfl, ?_⟩
    cases hf : j.fired with
    | false => rfl
    | true => exact absurd ⟨h, hf⟩ hp

theorem inv_jReturn {j : Job} (h : Inv j) : Inv (jReturn j) := by
  have hf := inv_jFire h
  unfold jReturn
  simp only
  split
  · next hp =>
    obtain ⟨he, hfalse⟩ := jFire_waiting hp
    rw [he] at hp ⊢
    obtain ⟨h1, h2⟩ := h
    constructor
    · simp only [JInv, hp] at h1
      simp [JInv, h1.1, h1.2, hfalse]
    · intro _
      have := h2 (Or.inl hp)
      simpa using this
  · obtain ⟨h1, h2⟩ := hf
    generalize jFire j = j1 at h1 h2 ⊢
    split
    · next hp =>
      constructor
      · simp only [JInv, hp] at h1
        simp [JInv, Job.write, h1.1, h1.2.2]
      · intro _
        have := h2 (Or.inr (Or.inl hp))
        simpa [Job.write] using this
    · exact ⟨h1, h2⟩

theorem inv_jOnDone {j : Job} (h : Inv j) : Inv (jOnDone j) := by
  unfold jOnDone
  obtain ⟨h1, h2⟩ := h
  split
  · next hp =>
    simp only [JInv, hp] at h1
    split
    · next hs =>
      constructor
      · rcases h1 with ⟨a, b, c, d⟩ | ⟨a, b, c, d⟩
        · simp [JInv, Job.write, a, c, d]
        · rw [b] at hs; simp at hs
      · intro _
        have := h2 (Or.inr (Or.inr (Or.inl hp)))
        simpa [Job.write] using this
    · next hs =>
      constructor
      · rcases h1 with ⟨a, b, c, d⟩ | ⟨a, b, c, d⟩
        · exact absurd b hs
        · simp [JInv, a, b, c, d]
      · intro _
        have := h2 (Or.inr (Or.inr (Or.inl hp)))
        simpa using this
  · exact ⟨h1, h2⟩

theorem inv_jClose (hpo : Bool) {j : Job} (h : Inv j) : Inv (jClose hpo j) := by
  unfold jClose
  split
  · exact inv_jOnDone h
  · split
    · next hp =>
      obtain ⟨h1, _⟩ := h
      constructor
      · rcases hp with hp | hp | hp <;> simp only [JInv, hp] at h1 <;>
          simp [JInv, Job.write, h1.1]
      · intro hh; simp at hh
    · split
      · next hp =>
        obtain ⟨h1, _⟩ := h
        constructor
        · simp only [JInv, hp] at h1
          simp [JInv, h1.1, h1.2.1]
        · intro hh; simp at hh
      · exact h

theorem inv_fireDue (now : Nat) {j : Job} (h : Inv j) : Inv (fireDue now j) := by
  unfold fireDue
  split
  · split
    · exact inv_jFire h
    · exact h
  · exact h

/-! ### lists of jobs -/

def AllInv (jobs : List Job) : Prop := ∀ j ∈ jobs, Inv j

theorem allInv_upd {f : Job → Job} (hf : ∀ j, Inv j → Inv (f j)) :
    ∀ (i : Nat) (l : List Job), AllInv l → AllInv (upd f i l)
  | _, [], h => by simpa [upd] using h
  | 0, j :: js, h => by
    intro x hx
    simp only [upd, List.mem_cons] at hx
    rcases hx with rfl | hx
    · exact hf _ (h j (by simp))
    · exact h x (by simp [hx])
  | i + 1, j :: js, h => by
    intro x hx
    simp only [upd, List.mem_cons] at hx
    rcases hx with rfl | hx
    · exact h _ (by simp)
    · exact allInv_upd hf i js (fun y hy => h y (by simp [hy])) x hx

theorem allInv_map {f : Job → Job} (hf : ∀ j, Inv j → Inv (f j)) {l : List Job} (h : AllInv l) :
    AllInv (l.map f) := by
  intro x hx
  simp only [List.mem_map] at hx
  obtain ⟨y, hy, rfl⟩ := hx
  exact hf y (h y hy)

theorem allInv_append {a b : List Job} (ha : AllInv a) (hb : AllInv b) : AllInv (a ++ b) := by
  intro x hx
  simp only [List.mem_append] at hx
  rcases hx with hx | hx
  · exact ha x hx
  · exact hb x hx

theorem allInv_startCreated (W g now : Nat) (dl : Option Nat) :
    ∀ (js acc : List Job), AllInv acc → AllInv js → AllInv (startCreated W g now dl acc js)
  | [], acc, ha, _ => by simpa [startCreated] using ha
  | j :: js, acc, ha, hj => by
    have hj0 : Inv j := hj j (by simp)
    have hjs : AllInv js := fun y hy => hj y (by simp [hy])
    simp only [startCreated]
    split
    · split
      · exact allInv_startCreated W g now dl js _
          (allInv_append ha (by intro x hx; simp at hx; subst hx; exact inv_jAcquire g now dl hj0)) hjs
      · exact allInv_startCreated W g now dl js _
          (allInv_append ha (by intro x hx; simp at hx; subst hx; exact inv_jQueue g hj0)) hjs
    · exact allInv_startCreated W g now dl js _
        (allInv_append ha (by intro x hx; simp at hx; subst hx; exact hj0)) hjs

/-! ### every operation of the evaluator keeps the per-job invariant -/

theorem allInv_stepReturn {s s' : Ev} (h : AllInv s.jobs) (hs : stepReturn s = some s') :
    AllInv s'.jobs := by
  unfold stepReturn at hs
  split at hs
  · simp at hs
  · next i r _ =>
    simp only [Option.some.injEq] at hs
    subst hs
    simp only
    have h1 := allInv_upd (fun j hj => inv_jReturn hj) i s.jobs h
    split
    · exact allInv_upd (fun j hj => inv_jAcquire _ _ _ hj) _ _ h1
    · exact h1

theorem allInv_advance (need : Nat) : ∀ (fuel : Nat) (s : Ev), AllInv s.jobs →
    AllInv (advance need fuel s).1.jobs
  | 0, s, h => by simpa [advance] using h
  | fuel + 1, s, h => by
    simp only [advance]
    split
    · exact h
    · split
      · exact h
      · next s' hs => exact allInv_advance need fuel s' (allInv_stepReturn h hs)

theorem allInv_flush : ∀ (fuel : Nat) (s : Ev), AllInv s.jobs → AllInv (flush fuel s).jobs
  | 0, s, h => by simpa [flush] using h
  | fuel + 1, s, h => by
    simp only [flush]
    split
    · exact h
    · split
      · split
        · next s' hs => exact allInv_flush fuel s' (allInv_stepReturn h hs)
        · exact h
      · exact h

theorem allInv_report : ∀ (rep : List Nat) (s s' : Ev), AllInv s.jobs → report s rep = some s' →
    AllInv s'.jobs
  | [], s, s', h, hr => by simp [report] at hr; subst hr; exact h
  | i :: rest, s, s', h, hr => by
    simp only [report] at hr
    split at hr
    · exact allInv_report rest _ s' (allInv_upd (fun j hj => inv_jOnDone hj) i s.jobs h) hr
    · simp at hr

theorem allInv_waitFor (s : Ev) (need : Nat) (h : AllInv s.jobs) : AllInv (waitFor s need).1.jobs := by
  unfold waitFor
  simp only
  have h1 : AllInv (startCreated s.W s.semGen s.now s.deadline [] s.jobs) :=
    allInv_startCreated _ _ _ _ _ _ (by intro x hx; simp at hx) h
  generalize (startCreated s.W s.semGen s.now s.deadline [] s.jobs).length = fuel
  generalize hs1 : ({ s with jobs := startCreated s.W s.semGen s.now s.deadline [] s.jobs } : Ev) = s1
  have h1' : AllInv s1.jobs := by rw [← hs1]; exact h1
  have h2 := allInv_advance need fuel s1 h1'
  generalize advance need fuel s1 = adv at h2 ⊢
  split
  · exact h2
  · exact allInv_map (fun j hj => inv_fireDue _ hj) (allInv_flush _ _ h2)

theorem allInv_gatherN (s : Ev) (size : Nat) (rep : List Nat) (h : AllInv s.jobs) :
    AllInv (gatherN s size rep).1.jobs := by
  unfold gatherN
  simp only
  have hw := allInv_waitFor s (min size s.running.length) h
  generalize waitFor s (min size s.running.length) = w at hw ⊢
  split
  · exact h
  · split
    · exact hw
    · split
      · exact hw
      · split
        · next s3 hr => exact allInv_report _ _ _ hw hr
        · exact hw

theorem allInv_gather (s : Ev) (all : Bool) (size : Nat) (rep : List Nat) (h : AllInv s.jobs) :
    AllInv (gather s all size rep).1.jobs := by
  unfold gather
  simp only
  generalize (if all = true then s.running.length else size) = sz
  split
  · split <;> exact h
  · exact allInv_gatherN s sz rep h

theorem allInv_settle (s : Ev) (h : AllInv s.jobs) : AllInv (settle s).jobs :=
  allInv_waitFor s 0 h

theorem allInv_close (s : Ev) (rep : List Nat) (h : AllInv s.jobs) : AllInv (close s rep).1.jobs := by
  unfold close
  simp only
  split
  · exact h
  · split
    · exact h
    · split
      · exact h
      · next s1 hr =>
        exact allInv_map (fun j hj => inv_jClose _ hj) (allInv_report _ _ _ h hr)

theorem allInv_submitN (s : Ev) (k : Nat) (h : AllInv s.jobs) : AllInv (submitN s k).jobs := by
  unfold submitN
  simp only
  apply allInv_append h
  intro x hx
  simp only [List.mem_map] at hx
  obtain ⟨i, _, rfl⟩ := hx
  exact inv_fresh _

theorem allInv_submitCap : ∀ (k : Nat) (s : Ev), AllInv s.jobs → AllInv (submitCap s k).1.jobs
  | 0, s, h => by simpa [submitCap] using h
  | k + 1, s, h => by
    simp only [submitCap]
    split
    · exact h
    · apply allInv_submitCap k
      apply allInv_append h
      intro x hx
      simp only [List.mem_singleton] at hx
      subst hx
      exact inv_fresh _

theorem allInv_loop (strict : Bool) (target : Int) :
    ∀ (reps : List (List Nat)) (s : Ev) (nAsk : Nat), AllInv s.jobs →
      AllInv (loop strict target s nAsk reps).1.jobs := by
  intro reps
  induction reps with
  | nil =>
    intro s nAsk h
    unfold loop
    dsimp only
    split
    · have := allInv_submitCap nAsk (askStep s) h
      split
      · exact this
      · exact this
    · exact h
  | cons rep rest ih =>
    intro s nAsk h
    unfold loop
    dsimp only
    split
    · have hsub := allInv_submitCap nAsk (askStep s) h
      generalize submitCap (askStep s) nAsk = sub at hsub ⊢
      split
      · exact hsub
      · have hg := allInv_gather sub.1 false 1 rep hsub
        generalize gather sub.1 false 1 rep = ga at hg ⊢
        split
        · exact hg
        · exact hg
        · exact hg
        · split
          · exact hg
          · exact ih _ _ hg
    · exact h

theorem allInv_search (s : Ev) (c : Call) (reps : List (List Nat)) (drainRep : List Nat)
    (h : AllInv s.jobs) : AllInv (search s c reps drainRep).1.jobs := by
  unfold search
  dsimp only
  have h2 : AllInv (setTimeout (if c.strict = true then
      { s with maxSub := c.maxEvals, offset := (s.results.length : Int) } else { s with maxSub := -1 })
      c.timeout).jobs := by
    unfold setTimeout; split <;> exact h
  generalize setTimeout (if c.strict = true then
      { s with maxSub := c.maxEvals, offset := (s.results.length : Int) } else { s with maxSub := -1 })
      c.timeout = s2 at h2 ⊢
  have hl := allInv_loop c.strict (if c.maxEvals < 0 then c.maxEvals else c.maxEvals + numEvals c.strict s2)
    reps s2 s2.W h2
  generalize loop c.strict (if c.maxEvals < 0 then c.maxEvals else c.maxEvals + numEvals c.strict s2)
    s2 s2.W reps = lp at hl ⊢
  split
  · exact hl
  · exact hl
  · exact hl
  · exact hl
  · split
    · have hg := allInv_gather lp.1 true 0 drainRep hl
      generalize gather lp.1 true 0 drainRep = ga at hg ⊢
      split
      · exact hg
      · exact hg
      · exact hg
      · split
        · exact hg
        · exact allInv_close _ _ hg
    · exact allInv_close _ _ hl

theorem allInv_step (s : Ev) (op : Op) (h : AllInv s.jobs) : AllInv (step s op).jobs := by
  cases op with
  | timeout t => unfold step setTimeout; exact h
  | submit k => exact allInv_submitN s k h
  | gather all size rep => exact allInv_gather s all size rep h
  | close rep => exact allInv_close s rep h
  | settle => exact allInv_settle s h
  | askDelays ds => exact h
  | search c reps d => exact allInv_search s c reps d h

theorem allInv_runOps : ∀ (ops : List Op) (s : Ev), AllInv s.jobs → AllInv (runOps s ops).jobs
  | [], s, h => by simpa [runOps] using h
  | op :: rest, s, h => by
    simp only [runOps]
    exact allInv_runOps rest _ (allInv_step s op h)

theorem allInv_init (W : Nat) (hpo : Bool) (specs : List Spec) : AllInv (init W hpo specs).jobs := by
  intro j hj; simp [init] at hj

/-- every job of every reachable state satisfies the invariant -/
theorem reachable_inv (W : Nat) (hpo : Bool) (specs : List Spec) (ops : List Op) :
    AllInv (runOps (init W hpo specs) ops).jobs :=
  allInv_runOps ops _ (allInv_init W hpo specs)

/-! ### arbitrary interleavings of the per-job transitions -/

/-- one transition of one job, with whatever arguments the scheduler supplies -/
inductive JT where
  | queue (g : Nat) | acquire (g now : Nat) (dl : Option Nat) | fire | ret | onDone
  | close (hpo : Bool) | fireDue (now : Nat)

def jApply (j : Job) : JT → Job
  | .queue g => jQueue g j
  | .acquire g now dl => jAcquire g now dl j
  | .fire => jFire j
  | .ret => jReturn j
  | .onDone => jOnDone j
  | .close hpo => jClose hpo j
  | .fireDue now => fireDue now j

theorem inv_jApply {j : Job} (h : Inv j) (t : JT) : Inv (jApply j t) := by
  cases t with
  | queue g => exact inv_jQueue g h
  | acquire g now dl => exact inv_jAcquire g now dl h
  | fire => exact inv_jFire h
  | ret => exact inv_jReturn h
  | onDone => exact inv_jOnDone h
  | close hpo => exact inv_jClose hpo h
  | fireDue now => exact inv_fireDue now h

theorem inv_foldl : ∀ (ts : List JT) (j : Job), Inv j → Inv (ts.foldl jApply j)
  | [], j, h => h
  | t :: ts, j, h => inv_foldl ts _ (inv_jApply h t)

open Status in
/-- the status sequences the property allows -/
def Allowed (l : List Status) : Prop :=
  l = [ready] ∨ l = [ready, running] ∨ l = [ready, running, done] ∨
  l = [ready, running, cancelling] ∨ l = [ready, running, cancelling, cancelled] ∨
  l = [ready, cancelled] ∨ l = [ready, running, cancelled]

theorem allowed_of_inv {j : Job} (h : Inv j) : Allowed j.log ∧ j.log.getLast? = some j.status := by
  obtain ⟨h1, _⟩ := h
  unfold JInv at h1
  unfold Allowed
  cases hp : j.pc <;> simp only [hp] at h1
  · simp [h1.1, h1.2]
  · simp [h1.1, h1.2]
  · simp [h1.1, h1.2]
  · simp [h1.1, h1.2.1]
  · rcases h1 with ⟨a, b, _⟩ | ⟨a, b, _⟩ <;> simp [a, b]
  · rcases h1 with ⟨a, b, _⟩ | ⟨a, b, _⟩ <;> simp [a, b]
  · obtain ⟨a | a, b⟩ := h1 <;> simp [a, b]
  · simp [h1.1, h1.2]

/-! ### bookkeeping of reported / running jobs (for completeness) -/

/-- 0 = in flight (its task is in `_tasks_running`), 1 = reported (in `jobs_done`), 2 = aborted -/
def cls : Pc → Nat
  | .created | .queued | .waiting | .cancelling | .returned => 0
  | .gathered | .closedOut => 1
  | .aborted => 2

def clsList (jobs : List Job) : List Nat := jobs.map (fun j => cls j.pc)

theorem cls_jQueue (g : Nat) (j : Job) : cls (jQueue g j).pc = cls j.pc := by
  unfold jQueue; split
  · next h => simp [h, cls]
  · rfl

theorem cls_jAcquire (g now : Nat) (dl : Option Nat) (j : Job) : cls (jAcquire g now dl j).pc = cls j.pc := by
  unfold jAcquire; split
  · next h => rcases h with h | h <;> simp [h, cls]
  · rfl

theorem cls_jFire (j : Job) : cls (jFire j).pc = cls j.pc := by
  unfold jFire; split
  · next h => simp [h.1, cls]
  · rfl

theorem cls_jReturn (j : Job) : cls (jReturn j).pc = cls j.pc := by
  unfold jReturn
  simp only
  rw [← cls_jFire j]
  split
  · next h => simp [h, cls]
  · split
    · next h => simp [h, cls]
    · rfl

theorem cls_fireDue (now : Nat) (j : Job) : cls (fireDue now j).pc = cls j.pc := by
  unfold fireDue; split
  · split
    · exact cls_jFire j
    · rfl
  · rfl

theorem clsList_upd {f : Job → Job} (hf : ∀ j, cls (f j).pc = cls j.pc) :
    ∀ (i : Nat) (l : List Job), clsList (upd f i l) = clsList l
  | _, [] => by simp [upd]
  | 0, j :: js => by simp [upd, clsList, hf]
  | i + 1, j :: js => by
    have := clsList_upd hf i js
    simp only [clsList] at this
    simp [upd, clsList, this]

theorem clsList_map {f : Job → Job} (hf : ∀ j, cls (f j).pc = cls j.pc) (l : List Job) :
    clsList (l.map f) = clsList l := by
  simp [clsList, List.map_map, Function.comp_def, hf]

theorem clsList_append (a b : List Job) : clsList (a ++ b) = clsList a ++ clsList b := by
  simp [clsList]

theorem clsList_startCreated (W g now : Nat) (dl : Option Nat) :
    ∀ (js acc : List Job), clsList (startCreated W g now dl acc js) = clsList (acc ++ js)
  | [], acc => by simp [startCreated]
  | j :: js, acc => by
    simp only [startCreated]
    split
    · split
      · rw [clsList_startCreated W g now dl js]
        simp [clsList, cls_jAcquire]
      · rw [clsList_startCreated W g now dl js]
        simp [clsList, cls_jQueue]
    · rw [clsList_startCreated W g now dl js]
      simp [clsList]

/-- what the waiting part of a gather may change: job states within their class, and the clock -/
structure Frame (s s' : Ev) : Prop where
  running : s'.running = s.running
  results : s'.results = s.results
  cl : clsList s'.jobs = clsList s.jobs
  W : s'.W = s.W
  hpo : s'.hpo = s.hpo
  specs : s'.specs = s.specs
  deadline : s'.deadline = s.deadline
  semGen : s'.semGen = s.semGen
  offset : s'.offset = s.offset
  maxSub : s'.maxSub = s.maxSub

theorem Frame.refl (s : Ev) : Frame s s := ⟨rfl, rfl, rfl, rfl, rfl, rfl, rfl, rfl, rfl, rfl⟩

theorem Frame.trans {a b c : Ev} (h1 : Frame a b) (h2 : Frame b c) : Frame a c :=
  ⟨h2.running.trans h1.running, h2.results.trans h1.results, h2.cl.trans h1.cl, h2.W.trans h1.W,
   h2.hpo.trans h1.hpo, h2.specs.trans h1.specs, h2.deadline.trans h1.deadline,
   h2.semGen.trans h1.semGen, h2.offset.trans h1.offset, h2.maxSub.trans h1.maxSub⟩

theorem frame_stepReturn {s s' : Ev} (hs : stepReturn s = some s') : Frame s s' := by
  unfold stepReturn at hs
  split at hs
  · simp at hs
  · next i r _ =>
    simp only [Option.some.injEq] at hs
    subst hs
    refine ⟨rfl, rfl, ?_, rfl, rfl, rfl, rfl, rfl, rfl, rfl⟩
    simp only
    split
    · rw [clsList_upd (cls_jAcquire _ _ _), clsList_upd cls_jReturn]
    · rw [clsList_upd cls_jReturn]

theorem frame_advance (need : Nat) : ∀ (fuel : Nat) (s : Ev), Frame s (advance need fuel s).1
  | 0, s => by simp [advance]; exact Frame.refl s
  | fuel + 1, s => by
    simp only [advance]
    split
    · exact Frame.refl s
    · split
      · exact Frame.refl s
      · next s' hs => exact (frame_stepReturn hs).trans (frame_advance need fuel s')

theorem frame_flush : ∀ (fuel : Nat) (s : Ev), Frame s (flush fuel s)
  | 0, s => by simp [flush]; exact Frame.refl s
  | fuel + 1, s => by
    simp only [flush]
    split
    · exact Frame.refl s
    · split
      · split
        · next s' hs => exact (frame_stepReturn hs).trans (frame_flush fuel s')
        · exact Frame.refl s
      · exact Frame.refl s

theorem frame_waitFor (s : Ev) (need : Nat) : Frame s (waitFor s need).1 := by
  unfold waitFor
  simp only
  generalize (startCreated s.W s.semGen s.now s.deadline [] s.jobs).length = fuel
  have f1 : Frame s { s with jobs := startCreated s.W s.semGen s.now s.deadline [] s.jobs } :=
    ⟨rfl, rfl, by simp [clsList_startCreated], rfl, rfl, rfl, rfl, rfl, rfl, rfl⟩
  generalize ({ s with jobs := startCreated s.W s.semGen s.now s.deadline [] s.jobs } : Ev) = s1 at f1 ⊢
  have f2 := frame_advance need fuel s1
  generalize advance need fuel s1 = adv at f2 ⊢
  split
  · exact f1.trans f2
  · have f3 := frame_flush adv.1.jobs.length adv.1
    generalize flush adv.1.jobs.length adv.1 = fl at f3 ⊢
    have f4 : Frame fl { fl with jobs := fl.jobs.map (fireDue fl.now) } :=
      ⟨rfl, rfl, clsList_map (cls_fireDue _) _, rfl, rfl, rfl, rfl, rfl, rfl, rfl⟩
    exact ((f1.trans f2).trans f3).trans f4

/-- `jobs_done` and `_tasks_running` partition the jobs: every job is in flight (its id is in
`running`) or reported (its id is in `results`, once), nothing is aborted -/
structure Rep (s : Ev) : Prop where
  nodupR : s.results.Nodup
  nodupRun : s.running.Nodup
  res : ∀ i : Nat, i ∈ s.results ↔ (clsList s.jobs)[i]? = some 1
  run : ∀ i : Nat, i ∈ s.running ↔ (clsList s.jobs)[i]? = some 0
  noAborted : ∀ i : Nat, (clsList s.jobs)[i]? ≠ some 2
  count : s.jobs.length = s.results.length + s.running.length

theorem clsList_length (l : List Job) : (clsList l).length = l.length := by simp [clsList]

theorem rep_init (W : Nat) (hpo : Bool) (specs : List Spec) : Rep (init W hpo specs) := by
  refine ⟨?_, ?_, ?_, ?_, ?_, ?_⟩ <;> simp [init, clsList]

theorem rep_frame {s s' : Ev} (f : Frame s s') (h : Rep s) : Rep s' := by
  obtain ⟨h1, h2, h3, h4, h5, h6⟩ := h
  have hl : s'.jobs.length = s.jobs.length := by
    rw [← clsList_length, ← clsList_length, f.cl]
  refine ⟨by rw [f.results]; exact h1, by rw [f.running]; exact h2, ?_, ?_, ?_, ?_⟩
  · intro i; rw [f.results, f.cl]; exact h3 i
  · intro i; rw [f.running, f.cl]; exact h4 i
  · intro i; rw [f.cl]; exact h5 i
  · rw [hl, f.results, f.running]; exact h6

/-- a configuration-only change (cap, offset, timeout, semaphore generation) -/
theorem rep_cfg {s s' : Ev} (hj : s'.jobs = s.jobs) (hr : s'.running = s.running)
    (hres : s'.results = s.results) (h : Rep s) : Rep s' := by
  obtain ⟨h1, h2, h3, h4, h5, h6⟩ := h
  refine ⟨by rw [hres]; exact h1, by rw [hr]; exact h2, ?_, ?_, ?_, ?_⟩
  · intro i; rw [hres, hj]; exact h3 i
  · intro i; rw [hr, hj]; exact h4 i
  · intro i; rw [hj]; exact h5 i
  · rw [hj, hres, hr]; exact h6

/-- one new READY job -/
theorem rep_push {s : Ev} (sp : Spec) (h : Rep s) :
    Rep { s with jobs := s.jobs ++ [({ spec := sp } : Job)], running := s.running ++ [s.jobs.length] } := by
  obtain ⟨h1, h2, h3, h4, h5, h6⟩ := h
  have hcl : clsList (s.jobs ++ [({ spec := sp } : Job)]) = clsList s.jobs ++ [0] := by
    simp [clsList, cls]
  have hlen := clsList_length s.jobs
  have hnot : s.jobs.length ∉ s.running := by
    intro hm
    have := (h4 _).mp hm
    rw [List.getElem?_eq_some_iff] at this
    obtain ⟨hlt, _⟩ := this
    omega
  refine ⟨h1, ?_, ?_, ?_, ?_, ?_⟩
  · simp only
    rw [List.nodup_append]
    refine ⟨h2, by simp, ?_⟩
    intro a ha b hb
    simp only [List.mem_singleton] at hb
    subst hb
    intro hab; subst hab; exact hnot ha
  · intro i
    simp only [hcl, List.getElem?_append, hlen]
    rw [h3 i]
    split
    · rfl
    · next hi =>
      constructor
      · intro hh
        rw [List.getElem?_eq_some_iff] at hh
        obtain ⟨hlt, _⟩ := hh
        omega
      · intro hh
        rw [List.getElem?_eq_some_iff] at hh
        obtain ⟨hlt, he⟩ := hh
        simp at hlt he
  · intro i
    simp only [hcl, List.getElem?_append, hlen, List.mem_append, List.mem_singleton]
    rw [h4 i]
    split
    · next hi =>
      constructor
      · intro hh; rcases hh with hh | hh
        · exact hh
        · omega
      · intro hh; exact Or.inl hh
    · next hi =>
      constructor
      · intro hh; rcases hh with hh | hh
        · rw [List.getElem?_eq_some_iff] at hh
          obtain ⟨hlt, _⟩ := hh
          omega
        · subst hh; simp
      · intro hh
        rw [List.getElem?_eq_some_iff] at hh
        obtain ⟨hlt, _⟩ := hh
        simp at hlt
        right; omega
  · intro i
    simp only [hcl, List.getElem?_append, hlen]
    split
    · exact h5 i
    · intro hh
      rw [List.getElem?_eq_some_iff] at hh
      obtain ⟨hlt, he⟩ := hh
      simp at hlt he
  · simp only [List.length_append, List.length_singleton]
    omega

theorem rep_submitCap : ∀ (k : Nat) (s : Ev), Rep s → Rep (submitCap s k).1
  | 0, s, h => by simpa [submitCap] using h
  | k + 1, s, h => by
    simp only [submitCap]
    split
    · exact h
    · exact rep_submitCap k _ (rep_push _ h)

theorem jOnDone_pc {j : Job} (h : j.pc = .returned) : (jOnDone j).pc = .gathered := by
  unfold jOnDone
  rw [if_pos h]
  split <;> simp

theorem clsList_onDone : ∀ (i : Nat) (l : List Job), (l[i]?).map (·.pc) = some .returned →
    clsList (upd jOnDone i l) = (clsList l).set i 1
  | _, [], h => by simp at h
  | 0, j :: js, h => by
    simp only [List.getElem?_cons_zero, Option.map_some, Option.some.injEq] at h
    simp [upd, clsList, jOnDone_pc h, cls]
  | i + 1, j :: js, h => by
    simp only [List.getElem?_cons_succ] at h
    have := clsList_onDone i js h
    simp only [clsList] at this
    simp [upd, clsList, this]

theorem rep_report1 {s : Ev} {i : Nat} (h : Rep s) (hm : i ∈ s.running)
    (hp : pcOf s i = some .returned) :
    Rep { s with jobs := upd jOnDone i s.jobs, running := s.running.erase i,
                 results := s.results ++ [i] } := by
  obtain ⟨h1, h2, h3, h4, h5, h6⟩ := h
  have hcl := clsList_onDone i s.jobs hp
  have hi0 := (h4 i).mp hm
  have hilt : i < (clsList s.jobs).length := by
    rw [List.getElem?_eq_some_iff] at hi0; exact hi0.1
  have hinot : i ∉ s.results := by
    intro hh; have := (h3 i).mp hh; rw [hi0] at this; simp at this
  refine ⟨?_, h2.erase i, ?_, ?_, ?_, ?_⟩
  · simp only
    rw [List.nodup_append]
    refine ⟨h1, by simp, ?_⟩
    intro a ha b hb
    simp only [List.mem_singleton] at hb
    subst hb
    intro hab; subst hab; exact hinot ha
  · intro k
    simp only [hcl, List.getElem?_set, List.mem_append, List.mem_singleton]
    rw [h3 k]
    by_cases hk : i = k
    · subst hk; simp [hilt]
    · simp only [hk, if_false]
      constructor
      · intro hh; rcases hh with hh | hh
        · exact hh
        · exact absurd hh.symm hk
      · intro hh; exact Or.inl hh
  · intro k
    simp only [hcl, List.getElem?_set]
    rw [h2.mem_erase_iff, h4 k]
    by_cases hk : i = k
    · subst hk; simp [hilt]
    · simp only [hk, if_false]
      constructor
      · intro hh; exact hh.2
      · intro hh; exact ⟨fun e => hk e.symm, hh⟩
  · intro k
    simp only [hcl, List.getElem?_set]
    by_cases hk : i = k
    · subst hk; simp [hilt]
    · simp only [hk, if_false]; exact h5 k
  · have hl : (upd jOnDone i s.jobs).length = s.jobs.length := by
      rw [← clsList_length, hcl, List.length_set, clsList_length]
    simp only [hl, List.length_append, List.length_singleton, List.length_erase_of_mem hm]
    have : 0 < s.running.length := List.length_pos_of_mem hm
    omega

/-- the reporting part of a gather: every reported id leaves `running` and enters `results` -/
theorem rep_report : ∀ (rep : List Nat) (s s' : Ev), Rep s → report s rep = some s' →
    Rep s' ∧ s'.running.length + rep.length = s.running.length ∧
    s'.results = s.results ++ rep ∧ s'.deadline = s.deadline ∧ s'.now = s.now ∧ s'.W = s.W ∧
    s'.jobs.length = s.jobs.length
  | [], s, s', h, hr => by
    simp [report] at hr; subst hr; simp [h]
  | i :: rest, s, s', h, hr => by
    simp only [report] at hr
    split at hr
    · next hc =>
      have h1 := rep_report1 h hc.1 hc.2
      obtain ⟨r1, r2, r3, r4, r5, r6, r7⟩ := rep_report rest _ s' h1 hr
      simp only at r2 r3 r4 r5 r6 r7
      refine ⟨r1, ?_, ?_, r4, r5, r6, ?_⟩
      · rw [List.length_erase_of_mem hc.1] at r2
        have : 0 < s.running.length := List.length_pos_of_mem hc.1
        simp only [List.length_cons]; omega
      · rw [r3]; simp
      · rw [r7, ← clsList_length, clsList_onDone i s.jobs hc.2, List.length_set, clsList_length]
    · simp at hr

theorem rep_gatherN (s : Ev) (size : Nat) (rep : List Nat) (h : Rep s)
    (hok : (gatherN s size rep).2 = none) :
    Rep (gatherN s size rep).1 ∧
    (gatherN s size rep).1.running.length + rep.length = s.running.length ∧
    (s.running.length ≤ size → (gatherN s size rep).1.running = []) := by
  unfold gatherN at hok ⊢
  simp only at hok ⊢
  have fw := frame_waitFor s (min size s.running.length)
  generalize waitFor s (min size s.running.length) = w at fw hok ⊢
  split at hok
  · simp at hok
  · split at hok
    · simp at hok
    · split at hok
      · simp at hok
      · next hne hw hchk =>
        rw [if_neg hne, if_neg hw, if_neg hchk]
        split at hok
        · next s3 hr =>
          simp only [hr]
          obtain ⟨r1, r2, _⟩ := rep_report rep w.1 s3 (rep_frame fw h) hr
          rw [fw.running] at r2
          refine ⟨r1, r2, ?_⟩
          intro hsz
          have : rep.length = s.running.length := by
            have hmin : min size s.running.length = s.running.length := Nat.min_eq_right hsz
            rw [hmin] at hchk
            false_or_by_contra
            rename_i hc
            exact hchk (Or.inr ⟨rfl, hc⟩)
          exact List.eq_nil_of_length_eq_zero (by omega)
        · simp at hok

theorem rep_gather (s : Ev) (all : Bool) (size : Nat) (rep : List Nat) (h : Rep s)
    (hok : (gather s all size rep).2 = none) :
    Rep (gather s all size rep).1 ∧ (all = true → (gather s all size rep).1.running = []) := by
  unfold gather at hok ⊢
  simp only at hok ⊢
  cases all with
  | false =>
    simp only [Bool.false_eq_true, if_false] at hok ⊢
    split
    · next h0 =>
      rw [if_pos h0] at hok
      split
      · exact ⟨h, fun hh => by simp at hh⟩
      · next hne => rw [if_neg hne] at hok; simp at hok
    · next h0 =>
      rw [if_neg h0] at hok
      exact ⟨(rep_gatherN s size rep h hok).1, fun hh => by simp at hh⟩
  | true =>
    simp only [if_true] at hok ⊢
    split
    · next h0 =>
      rw [if_pos h0] at hok
      split
      · exact ⟨h, fun _ => List.eq_nil_of_length_eq_zero h0⟩
      · next hne => rw [if_neg hne] at hok; simp at hok
    · next h0 =>
      rw [if_neg h0] at hok
      obtain ⟨r1, _, r3⟩ := rep_gatherN s s.running.length rep h hok
      exact ⟨r1, fun _ => r3 (Nat.le_refl _)⟩

def SettledStop (st : Stop) : Prop := st = .budget ∨ st = .cap ∨ st = .timeout

theorem rep_loop (strict : Bool) (target : Int) :
    ∀ (reps : List (List Nat)) (s : Ev) (nAsk : Nat), Rep s →
      SettledStop (loop strict target s nAsk reps).2 → Rep (loop strict target s nAsk reps).1 := by
  intro reps
  induction reps with
  | nil =>
    intro s nAsk h hs
    unfold loop at hs ⊢
    dsimp only at hs ⊢
    split
    · next hc =>
      rw [if_pos hc] at hs
      have hsub := rep_submitCap nAsk (askStep s) (rep_cfg (s := s) rfl rfl rfl h)
      generalize submitCap (askStep s) nAsk = sub at hsub hs ⊢
      split
      · exact hsub
      · next hr => rw [if_neg hr] at hs; simp [SettledStop] at hs
    · exact h
  | cons rep rest ih =>
    intro s nAsk h hs
    unfold loop at hs ⊢
    dsimp only at hs ⊢
    split
    · next hc =>
      rw [if_pos hc] at hs
      have hsub := rep_submitCap nAsk (askStep s) (rep_cfg (s := s) rfl rfl rfl h)
      generalize submitCap (askStep s) nAsk = sub at hsub hs ⊢
      split
      · exact hsub
      · next hr =>
        rw [if_neg hr] at hs
        have hg := rep_gather sub.1 false 1 rep hsub
        generalize gather sub.1 false 1 rep = ga at hg hs ⊢
        obtain ⟨g1, g2⟩ := ga
        cases g2 with
        | some e => cases e <;> simp [SettledStop] at hs
        | none =>
          simp only at hs ⊢
          have hg1 := (hg rfl).1
          split
          · exact hg1
          · next he =>
            rw [if_neg he] at hs
            exact ih _ _ hg1 hs
    · exact h

/-- **completeness of one `search()` call**: if it returns (budget, cap or timeout), nothing is
left running and the bookkeeping invariant holds -/
theorem rep_search (s : Ev) (c : Call) (reps : List (List Nat)) (drainRep : List Nat) (h : Rep s)
    (hs : SettledStop (search s c reps drainRep).2) :
    Rep (search s c reps drainRep).1 ∧ (search s c reps drainRep).1.running = [] := by
  unfold search at hs ⊢
  dsimp only at hs ⊢
  have h2 : Rep (setTimeout (if c.strict = true then
      { s with maxSub := c.maxEvals, offset := (s.results.length : Int) } else { s with maxSub := -1 })
      c.timeout) := by
    unfold setTimeout
    split <;> exact rep_cfg (s := s) rfl rfl rfl h
  generalize setTimeout (if c.strict = true then
      { s with maxSub := c.maxEvals, offset := (s.results.length : Int) } else { s with maxSub := -1 })
      c.timeout = s2 at h2 hs ⊢
  have hl := rep_loop c.strict (if c.maxEvals < 0 then c.maxEvals else c.maxEvals + numEvals c.strict s2)
    reps s2 s2.W h2
  generalize loop c.strict (if c.maxEvals < 0 then c.maxEvals else c.maxEvals + numEvals c.strict s2)
    s2 s2.W reps = lp at hl hs ⊢
  obtain ⟨l1, l2⟩ := lp
  have close_nil : ∀ (t : Ev), t.running = [] → (close t []).1 = t := by
    intro t ht; unfold close; simp [ht]
  cases l2 with
  | noJobs => simp [SettledStop] at hs
  | hang => simp [SettledStop] at hs
  | badEnv => simp [SettledStop] at hs
  | envExhausted => simp [SettledStop] at hs
  | budget =>
    simp only at hs ⊢
    have hr := hl (Or.inl rfl)
    simp only at hr
    split
    · next hd =>
      rw [if_pos hd] at hs
      have hg := rep_gather l1 true 0 drainRep hr
      generalize gather l1 true 0 drainRep = ga at hg hs ⊢
      obtain ⟨g1, g2⟩ := ga
      cases g2 with
      | some e => cases e <;> simp [SettledStop] at hs
      | none =>
        simp only at hs ⊢
        obtain ⟨a, b⟩ := hg rfl
        have b' := b rfl
        simp only at a b'
        split
        · next hh => rw [if_pos hh] at hs; simp [SettledStop] at hs
        · rw [close_nil g1 b']; exact ⟨a, b'⟩
    · next hd =>
      simp only [numSubmitted, numGathered] at hd
      have : l1.running = [] := List.eq_nil_of_length_eq_zero (by have := hr.count; omega)
      rw [close_nil l1 this]; exact ⟨hr, this⟩
  | cap =>
    simp only at hs ⊢
    have hr := hl (Or.inr (Or.inl rfl))
    simp only at hr
    split
    · next hd =>
      rw [if_pos hd] at hs
      have hg := rep_gather l1 true 0 drainRep hr
      generalize gather l1 true 0 drainRep = ga at hg hs ⊢
      obtain ⟨g1, g2⟩ := ga
      cases g2 with
      | some e => cases e <;> simp [SettledStop] at hs
      | none =>
        simp only at hs ⊢
        obtain ⟨a, b⟩ := hg rfl
        have b' := b rfl
        simp only at a b'
        split
        · next hh => rw [if_pos hh] at hs; simp [SettledStop] at hs
        · rw [close_nil g1 b']; exact ⟨a, b'⟩
    · next hd =>
      simp only [numSubmitted, numGathered] at hd
      have : l1.running = [] := List.eq_nil_of_length_eq_zero (by have := hr.count; omega)
      rw [close_nil l1 this]; exact ⟨hr, this⟩
  | timeout =>
    simp only at hs ⊢
    have hr := hl (Or.inr (Or.inr rfl))
    simp only at hr
    split
    · next hd =>
      rw [if_pos hd] at hs
      have hg := rep_gather l1 true 0 drainRep hr
      generalize gather l1 true 0 drainRep = ga at hg hs ⊢
      obtain ⟨g1, g2⟩ := ga
      cases g2 with
      | some e => cases e <;> simp [SettledStop] at hs
      | none =>
        simp only at hs ⊢
        obtain ⟨a, b⟩ := hg rfl
        have b' := b rfl
        simp only at a b'
        split
        · next hh => rw [if_pos hh] at hs; simp [SettledStop] at hs
        · rw [close_nil g1 b']; exact ⟨a, b'⟩
    · next hd =>
      simp only [numSubmitted, numGathered] at hd
      have : l1.running = [] := List.eq_nil_of_length_eq_zero (by have := hr.count; omega)
      rw [close_nil l1 this]; exact ⟨hr, this⟩

theorem cls_cases (p : Pc) : cls p = 0 ∨ cls p = 1 ∨ cls p = 2 := by
  cases p <;> simp [cls]

theorem cls_one {p : Pc} (h : cls p = 1) : p = .gathered ∨ p = .closedOut := by
  cases p <;> simp [cls] at h ⊢

theorem terminal_of_reported {j : Job} (hi : Inv j) (hp : j.pc = .gathered ∨ j.pc = .closedOut) :
    j.status = .done ∨ j.status = .cancelled := by
  obtain ⟨h1, _⟩ := hi
  unfold JInv at h1
  rcases hp with hp | hp <;> simp only [hp] at h1
  · rcases h1 with ⟨_, b, _⟩ | ⟨_, b, _⟩
    · exact Or.inl b
    · exact Or.inr b
  · exact Or.inr h1.2

/-- nothing running + bookkeeping invariant = every job ever submitted is in `results` exactly once,
with a terminal status -/
theorem complete_of_rep {s : Ev} (h : Rep s) (hr : s.running = []) (hinv : AllInv s.jobs) :
    s.results.Nodup ∧ (∀ i : Nat, i < s.jobs.length ↔ i ∈ s.results) ∧
    ∀ (i : Nat) (j : Job), s.jobs[i]? = some j →
      (j.pc = .gathered ∨ j.pc = .closedOut) ∧ (j.status = .done ∨ j.status = .cancelled) := by
  obtain ⟨h1, _, h3, h4, h5, _⟩ := h
  have key : ∀ (i : Nat) (j : Job), s.jobs[i]? = some j → cls j.pc = 1 := by
    intro i j hj
    have hc : (clsList s.jobs)[i]? = some (cls j.pc) := by simp [clsList, hj]
    rcases cls_cases j.pc with c | c | c
    · have := (h4 i).mpr (by rw [hc, c]); rw [hr] at this; simp at this
    · exact c
    · exact absurd (by rw [hc, c]) (h5 i)
  refine ⟨h1, ?_, ?_⟩
  · intro i
    constructor
    · intro hi
      have hj : s.jobs[i]? = some s.jobs[i] := List.getElem?_eq_getElem hi
      exact (h3 i).mpr (by simp [clsList, hj, key i _ hj])
    · intro hi
      have := (h3 i).mp hi
      rw [List.getElem?_eq_some_iff] at this
      obtain ⟨hlt, _⟩ := this
      rw [clsList_length] at hlt; exact hlt
  · intro i j hj
    have hp := cls_one (key i j hj)
    exact ⟨hp, terminal_of_reported (hinv j (List.mem_of_getElem? hj)) hp⟩

/-! ### a wait never blocks while an evaluation is running -/

theorem nextReturn_best : ∀ (l : List Job) (base : Nat) (b : Nat × Nat),
    ∃ k r, nextReturn l base (some b) = some (k, r) ∧ r ≤ b.2
  | [], base, b => ⟨b.1, b.2, by simp [nextReturn], Nat.le_refl _⟩
  | j :: js, base, b => by
    simp only [nextReturn]
    split
    · split
      · obtain ⟨k, r, h1, h2⟩ := nextReturn_best js (base + 1) (base, j.ret)
        exact ⟨k, r, h1, by simp at h2; omega⟩
      · exact nextReturn_best js (base + 1) b
    · exact nextReturn_best js (base + 1) b

theorem nextReturn_some : ∀ (l : List Job) (base : Nat) (best : Option (Nat × Nat)) (i : Nat) (j : Job),
    l[i]? = some j → (j.pc = .waiting ∨ j.pc = .cancelling) →
    ∃ k r, nextReturn l base best = some (k, r) ∧ r ≤ j.ret
  | [], _, _, _, _, h, _ => by simp at h
  | j0 :: js, base, best, 0, j, h, hp => by
    simp only [List.getElem?_cons_zero, Option.some.injEq] at h
    subst h
    simp only [nextReturn, hp, if_true]
    cases best with
    | none =>
      obtain ⟨k, r, h1, h2⟩ := nextReturn_best js (base + 1) (base, j0.ret)
      exact ⟨k, r, h1, h2⟩
    | some b =>
      obtain ⟨b1, b2⟩ := b
      simp only
      split
      · obtain ⟨k, r, h1, h2⟩ := nextReturn_best js (base + 1) (base, j0.ret)
        exact ⟨k, r, h1, h2⟩
      · next hlt =>
        obtain ⟨k, r, h1, h2⟩ := nextReturn_best js (base + 1) (b1, b2)
        exact ⟨k, r, h1, by simp at h2; omega⟩
  | j0 :: js, base, best, i + 1, j, h, hp => by
    simp only [List.getElem?_cons_succ] at h
    simp only [nextReturn]
    split
    · cases best with
      | none => exact nextReturn_some js (base + 1) _ i j h hp
      | some b =>
        obtain ⟨b1, b2⟩ := b
        simp only
        split
        · exact nextReturn_some js (base + 1) _ i j h hp
        · exact nextReturn_some js (base + 1) _ i j h hp
    · exact nextReturn_some js (base + 1) _ i j h hp

theorem reachable_inv' (W : Nat) (hpo : Bool) (specs : List Spec) (ops : List Op) :
    AllInv (reach W hpo specs ops).jobs := reachable_inv W hpo specs ops

/-- the part of the invariant the classification theorems use -/
theorem gathered_cases (W : Nat) (hpo : Bool) (specs : List Spec) (ops : List Op)
    (j : Job) (hj : j ∈ (reach W hpo specs ops).jobs) (hp : j.pc = .gathered) :
    ((j.log = [.ready, .running, .done] ∧ j.status = .done ∧ j.fired = false) ∨
     (j.log = [.ready, .running, .cancelling, .cancelled] ∧ j.status = .cancelled ∧ j.fired = true)) ∧
    j.output = .val j.spec.val ∧
    (j.ret, j.saw) = runFn j.armed j.spec j.start ∧ j.fired = sees j.armed j.spec.jobFirst j.ret := by
  obtain ⟨h1, h2⟩ := reachable_inv' W hpo specs ops j hj
  unfold JInv at h1
  simp only [hp] at h1
  have t := h2 (Or.inr (Or.inr (Or.inr hp)))
  rcases h1 with ⟨a, b, c, d⟩ | ⟨a, b, c, d⟩
  · exact ⟨Or.inl ⟨a, b, c⟩, d, t⟩
  · exact ⟨Or.inr ⟨a, b, c⟩, d, t⟩

theorem runSearches_rep : ∀ (hist : List SCall) (s : Ev), Rep s → AllInv s.jobs →
    (∀ st ∈ (runSearches s hist).2, SettledStop st) →
    Rep (runSearches s hist).1 ∧ AllInv (runSearches s hist).1.jobs
  | [], s, h, hi, _ => ⟨h, hi⟩
  | sc :: rest, s, h, hi, hs => by
    simp only [runSearches] at hs ⊢
    have h1 := rep_search s sc.call sc.reps sc.drainRep h (hs _ (List.mem_cons_self ..))
    exact runSearches_rep rest _ h1.1 (allInv_search s sc.call sc.reps sc.drainRep hi)
      (fun st hst => hs st (List.mem_cons_of_mem _ hst))

end DH.Timeout
