import Proofs.Hypervolume

/-! Three objectives end to end: the general branch of `hvRecursive` at the top level
(`dimIndex = 2`), where the recursive call is the stateless 2-D sweep. -/

namespace DH.Hypervolume
open DH.Pareto (Vec wdVec)

/-! ### node access -/

theorem node_setNode_self (st : St) (q : Nat) (n' : Node) (h : q < st.nodes.length) :
    (st.setNode q n').node q = n' := by
  simp [St.setNode, St.node, List.getD_eq_getElem?_getD, List.getElem?_set_self h]

theorem node_setNode_ne (st : St) (q i : Nat) (n' : Node) (h : q ≠ i) :
    (st.setNode q n').node i = st.node i := by
  simp [St.setNode, St.node, List.getD_eq_getElem?_getD, List.getElem?_set_ne h]

theorem setNode_length (st : St) (q : Nat) (n' : Node) : (st.setNode q n').nodes.length = st.nodes.length := by
  simp [St.setNode]

theorem setNode_bounds (st : St) (q : Nat) (n' : Node) : (st.setNode q n').bounds = st.bounds := rfl

theorem node_cargo_setNode (st : St) (q i : Nat) (n' : Node) (hc : n'.cargo = (st.node q).cargo) :
    ((st.setNode q n').node i).cargo = (st.node i).cargo := by
  by_cases hqi : q = i
  · subst hqi
    by_cases h : q < st.nodes.length
    · rw [node_setNode_self st q n' h, hc]
    · have : st.setNode q n' = st := by
        simp [St.setNode, List.set_eq_of_length_le (Nat.le_of_not_lt h)]
      rw [this]
  · rw [node_setNode_ne st q i n' hqi]

theorem setNode_node_self_eq (st : St) (q : Nat) : st.setNode q (st.node q) = st := by
  by_cases h : q < st.nodes.length
  · have : st.node q = st.nodes[q] := by
      simp [St.node, List.getD_eq_getElem?_getD, List.getElem?_eq_getElem h]
    simp [St.setNode, this]
  · simp [St.setNode, List.set_eq_of_length_le (Nat.le_of_not_lt h)]

/-- changing only `bounds` (same length) does not change what `node` returns -/
theorem node_bounds_irrel (st : St) (b : List Rat) (hb : b.length = st.bounds.length) (i : Nat) :
    ({ st with bounds := b } : St).node i = st.node i := by
  simp [St.node, hb]

theorem updBounds_length (d : Nat) (b : List Rat) (c : Vec) : (updBounds d b c).length = b.length := by
  simp [updBounds]

theorem updBounds_getD_ge (d : Nat) (b : List Rat) (c : Vec) (j : Nat) (hj : d ≤ j) :
    (updBounds d b c).getD j 0 = b.getD j 0 := by
  simp only [updBounds, List.getD_eq_getElem?_getD, List.getElem?_map, List.getElem?_zipIdx]
  cases h : b[j]? with
  | none => simp
  | some x =>
    have : ¬ (j < d) := Nat.not_lt.mpr hj
    simp [this]

/-! ### `resetIgnore` on a fresh state is the identity -/

theorem resetIgnore_id (d : Nat) : ∀ (l : List Nat) (st : St), (∀ i, (st.node i).ignore = 0) →
    resetIgnore d st l = st
  | [], _, _ => rfl
  | i :: l, st, h => by
    have hstep : (let n := st.node i
        if n.ignore < d then st.setNode i { n with ignore := 0 } else st) = st := by
      simp only
      split
      · have : ({ st.node i with ignore := 0 } : Node) = st.node i := by
          have := h i
          cases hn : st.node i with
          | mk c ig a v => rw [hn] at this; simp at this; simp [this]
        rw [this, setNode_node_self_eq]
      · rfl
    show resetIgnore d _ l = st
    dsimp only
    rw [hstep]
    exact resetIgnore_id d l st h

/-! ### the unlink loop on a fresh `bounds[d] = -1e308` removes everything but the first node -/

theorem removeLoop_all (d : Nat) : ∀ (rev removed : List Nat) (st : St),
    st.bounds.getD d 0 = negInf → (∀ i ∈ rev, negInf < co (st.node i).cargo d) →
    ∃ st', removeLoop d rev removed st
        = (rev.drop (rev.length - 1), (rev.take (rev.length - 1)).reverse ++ removed, st') ∧
      st'.nodes = st.nodes ∧ st'.bounds.length = st.bounds.length
  | [], removed, st, _, _ => ⟨st, by simp [removeLoop], rfl, rfl⟩
  | [q], removed, st, _, _ => ⟨st, by simp [removeLoop], rfl, rfl⟩
  | q :: q' :: rest, removed, st, hb, hc => by
    have hq := hc q (by simp)
    let st1 : St := { st with bounds := updBounds d st.bounds (st.node q).cargo }
    have hb1 : st1.bounds.getD d 0 = negInf := by
      show (updBounds d st.bounds (st.node q).cargo).getD d 0 = negInf
      rw [updBounds_getD_ge d _ _ d (Nat.le_refl _), hb]
    have hnode : ∀ i, st1.node i = st.node i :=
      fun i => node_bounds_irrel st _ (updBounds_length _ _ _) i
    obtain ⟨st', h1, h2, h3⟩ := removeLoop_all d (q' :: rest) (q :: removed) st1 hb1
      (fun i hi => by rw [hnode i]; exact hc i (by simp [hi]))
    refine ⟨st', ?_, h2, by rw [h3]; exact updBounds_length _ _ _⟩
    rw [removeLoop, hb]
    simp only [hq, decide_true, Bool.true_or, if_true]
    rw [h1]
    simp [List.take_succ_cons, List.reverse_cons]

theorem removeLoop_fresh (d : Nat) (a : Nat) (t : List Nat) (st : St)
    (hb : st.bounds.getD d 0 = negInf) (hc : ∀ i ∈ a :: t, negInf < co (st.node i).cargo d) :
    ∃ st', removeLoop d (a :: t).reverse [] st = ([a], t, st') ∧
      st'.nodes = st.nodes ∧ st'.bounds.length = st.bounds.length := by
  obtain ⟨st', h1, h2, h3⟩ := removeLoop_all d (a :: t).reverse [] st hb
    (fun i hi => hc i (List.mem_reverse.mp hi))
  refine ⟨st', ?_, h2, h3⟩
  rw [h1]
  simp [List.reverse_cons]

/-! ### `settle` and the re-insertion loop when the recursive call is stateless -/

/-- what is kept true of the state while the top-level sweep runs -/
structure Inv3 (rel : List Vec) (st : St) : Prop where
  len : st.nodes.length = rel.length
  cargo : ∀ i, (st.node i).cargo = rel.getD i []
  area : ∀ i, i < rel.length → 2 < (st.node i).area.length

theorem inv3_setNode {rel : List Vec} {st : St} (h : Inv3 rel st) (q : Nat) (n' : Node)
    (hc : n'.cargo = (st.node q).cargo) (ha : 2 < n'.area.length) : Inv3 rel (st.setNode q n') := by
  refine ⟨by rw [setNode_length]; exact h.len, fun i => by rw [node_cargo_setNode st q i n' hc]; exact h.cargo i, ?_⟩
  intro i hi
  by_cases hqi : q = i
  · subst hqi
    rw [node_setNode_self st q n' (by rw [h.len]; exact hi)]; exact ha
  · rw [node_setNode_ne st q i n' hqi]; exact h.area i hi

section setters
variable {rel : List Vec} {st : St} (hI : Inv3 rel st) (q : Nat) (hq : q < rel.length)
include hI hq

theorem setVolume_spec (d : Nat) (v : Rat) :
    Inv3 rel (setVolume d q v st) ∧ ((setVolume d q v st).node q).ignore = (st.node q).ignore ∧
    (∀ i, i ≠ q → (setVolume d q v st).node i = st.node i) ∧ (setVolume d q v st).bounds = st.bounds := by
  refine ⟨inv3_setNode hI q _ rfl (hI.area q hq), ?_, fun i hi => node_setNode_ne st q i _ (Ne.symm hi), rfl⟩
  unfold setVolume
  rw [node_setNode_self st q _ (by rw [hI.len]; exact hq)]

theorem setArea_spec (a : Rat) :
    Inv3 rel (setArea 2 q a st) ∧ ((setArea 2 q a st).node q).area.getD 2 0 = a ∧
    (∀ i, i ≠ q → (setArea 2 q a st).node i = st.node i) ∧ (setArea 2 q a st).bounds = st.bounds := by
  refine ⟨inv3_setNode hI q _ rfl (by simp only [List.length_set]; exact hI.area q hq), ?_,
    fun i hi => node_setNode_ne st q i _ (Ne.symm hi), rfl⟩
  unfold setArea
  rw [node_setNode_self st q _ (by rw [hI.len]; exact hq)]
  show ((st.node q).area.set 2 a).getD 2 0 = a
  rw [List.getD_eq_getElem?_getD, List.getElem?_set_self (hI.area q hq)]; rfl

theorem setIgnore_spec (d : Nat) :
    Inv3 rel (setIgnore d q st) ∧ ((setIgnore d q st).node q).area = (st.node q).area ∧
    (∀ i, i ≠ q → (setIgnore d q st).node i = st.node i) ∧ (setIgnore d q st).bounds = st.bounds := by
  refine ⟨inv3_setNode hI q _ rfl (hI.area q hq), ?_, fun i hi => node_setNode_ne st q i _ (Ne.symm hi), rfl⟩
  unfold setIgnore
  rw [node_setNode_self st q _ (by rw [hI.len]; exact hq)]

end setters

theorem settle_spec {rel : List Vec} (rec : List Nat → St → Rat × St) (Bf : List Nat → Rat)
    (hrec : ∀ act st, (∀ i, (st.node i).cargo = rel.getD i []) → rec act st = (Bf act, st))
    (q : Nat) (prev : Option Nat) (active : List Nat) (hvol : Rat) (st : St)
    (hI : Inv3 rel st) (hq : q < rel.length) (hig : (st.node q).ignore = 0) :
    Inv3 rel (settle 2 rec q prev active hvol st) ∧
    ((settle 2 rec q prev active hvol st).node q).area.getD 2 0 = Bf active ∧
    (∀ i, i ≠ q → ((settle 2 rec q prev active hvol st).node i).ignore = (st.node i).ignore) ∧
    (settle 2 rec q prev active hvol st).bounds = st.bounds := by
  obtain ⟨hI1, hig1, ho1, hb1⟩ := setVolume_spec hI q hq 2 hvol
  have hnot : ¬ (2 ≤ ((setVolume 2 q hvol st).node q).ignore) := by rw [hig1, hig]; omega
  have hr := hrec active _ hI1.cargo
  obtain ⟨hI2, ha2, ho2, hb2⟩ := setArea_spec hI1 q hq (Bf active)
  obtain ⟨hI3, ha3, ho3, hb3⟩ := setIgnore_spec hI2 q hq 2
  unfold settle
  simp only [if_neg hnot, hr]
  split
  · refine ⟨hI3, by rw [ha3]; exact ha2, fun i hi => by rw [ho3 i hi, ho2 i hi, ho1 i hi], by rw [hb3, hb2, hb1]⟩
  · exact ⟨hI2, ha2, fun i hi => by rw [ho2 i hi, ho1 i hi], by rw [hb2, hb1]⟩

theorem inv3_bounds {rel : List Vec} {st : St} (h : Inv3 rel st) (b : List Rat)
    (hb : b.length = st.bounds.length) : Inv3 rel ({ st with bounds := b } : St) :=
  ⟨h.len, fun i => by rw [node_bounds_irrel st b hb i]; exact h.cargo i,
   fun i hi => by rw [node_bounds_irrel st b hb i]; exact h.area i hi⟩

/-- the sum the top-level sweep accumulates, on node ids: `Aq` = `area[2]` of the current node -/
def idSum (rel : List Vec) (Bf : List Nat → Rat) : Rat → Nat → List Nat → List Nat → Rat
  | Aq, q, _, [] => -(Aq * co (rel.getD q []) 2)
  | Aq, q, active, p :: rest =>
    Aq * (co (rel.getD p []) 2 - co (rel.getD q []) 2)
      + idSum rel Bf (Bf (active ++ [p])) p (active ++ [p]) rest

theorem reinsertLoop_spec {rel : List Vec} (rec : List Nat → St → Rat × St) (Bf : List Nat → Rat)
    (hrec : ∀ act st, (∀ i, (st.node i).cargo = rel.getD i []) → rec act st = (Bf act, st)) :
    ∀ (removed : List Nat) (q : Nat) (active : List Nat) (hvol : Rat) (st : St) (Aq : Rat),
      Inv3 rel st → (∀ p ∈ removed, p < rel.length ∧ (st.node p).ignore = 0) → removed.Nodup →
      (st.node q).area.getD 2 0 = Aq →
      let out := reinsertLoop 2 rec removed q active hvol st
      out.2.1 - (out.2.2.node out.1).area.getD 2 0 * co (out.2.2.node out.1).cargo 2
        = hvol + idSum rel Bf Aq q active removed
  | [], q, active, hvol, st, Aq, hI, _, _, hA => by
    simp only [reinsertLoop, idSum, hA, hI.cargo q]; ring
  | p :: rest, q, active, hvol, st, Aq, hI, hrem, hnd, hA => by
    have hp := hrem p (by simp)
    have hnd' := List.nodup_cons.mp hnd
    -- bounds update
    let b := updBounds 2 (st.bounds.set 2 (co (st.node p).cargo 2)) (st.node p).cargo
    have hbl : b.length = st.bounds.length := by simp [b, updBounds_length]
    have hIb := inv3_bounds hI b hbl
    have higb : (({ st with bounds := b } : St).node p).ignore = 0 := by
      rw [node_bounds_irrel st b hbl p]; exact hp.2
    obtain ⟨hI2, ha2, ho2, _⟩ := settle_spec rec Bf hrec p (some q) (active ++ [p])
      (hvol + (st.node q).area.getD 2 0 * (co (st.node p).cargo 2 - co (st.node q).cargo 2))
      ({ st with bounds := b } : St) hIb hp.1 higb
    have ih := reinsertLoop_spec rec Bf hrec rest p (active ++ [p])
      (hvol + (st.node q).area.getD 2 0 * (co (st.node p).cargo 2 - co (st.node q).cargo 2))
      _ (Bf (active ++ [p])) hI2
      (by intro x hx
          have hxp : x ≠ p := fun h => hnd'.1 (h ▸ hx)
          refine ⟨(hrem x (by simp [hx])).1, ?_⟩
          rw [ho2 x hxp, node_bounds_irrel st b hbl x]
          exact (hrem x (by simp [hx])).2)
      hnd'.2 ha2
    simp only [reinsertLoop, idSum]
    simp only at ih
    rw [ih, hA, hI.cargo p, hI.cargo q]; ring

theorem node_eq_of_nodes_eq (st st' : St) (h1 : st'.nodes = st.nodes)
    (h2 : st'.bounds.length = st.bounds.length) (i : Nat) : st'.node i = st.node i := by
  simp [St.node, h1, h2]

theorem runProd_length (cargo : Vec) : ∀ (fuel i : Nat) (acc : Rat), (runProd cargo i fuel acc).length = fuel
  | 0, _, _ => rfl
  | fuel + 1, i, acc => by simp [runProd, runProd_length cargo fuel]

theorem areaInit_length (cum : Bool) (area : List Rat) (cargo : Vec) (h : 2 < area.length) :
    2 < (areaInit cum 2 area cargo).length := by
  unfold areaInit
  cases cum <;> simp [runProd_length] <;> omega

/-- **the top-level call of the general branch for three objectives**: on a fresh state
(no flag set, `bounds[2] = -1e308` below every coordinate) with a stateless recursive call, the
value is the slab sum `idSum` -/
theorem levelN_top {rel : List Vec} (rec : List Nat → St → Rat × St) (Bf : List Nat → Rat)
    (hrec : ∀ act st, (∀ i, (st.node i).cargo = rel.getD i []) → rec act st = (Bf act, st))
    (cum : Bool) (a : Nat) (t : List Nat) (st : St)
    (hI : Inv3 rel st) (hig : ∀ i, (st.node i).ignore = 0) (hb : st.bounds.getD 2 0 = negInf)
    (hids : ∀ i ∈ a :: t, i < rel.length) (hnd : (a :: t).Nodup)
    (hz : ∀ i ∈ a :: t, negInf < co (rel.getD i []) 2) :
    (levelN cum 2 rec (a :: t) st).1 = idSum rel Bf (Bf [a]) a [a] t := by
  obtain ⟨st', hrm, hn', hbl'⟩ := removeLoop_fresh 2 a t st hb
    (fun i hi => by rw [hI.cargo i]; exact hz i hi)
  have hnode : ∀ i, st'.node i = st.node i := node_eq_of_nodes_eq st st' hn' hbl'
  have hI' : Inv3 rel st' :=
    ⟨by rw [hn']; exact hI.len, fun i => by rw [hnode i]; exact hI.cargo i,
     fun i hi => by rw [hnode i]; exact hI.area i hi⟩
  have ha : a < rel.length := hids a (by simp)
  -- start node
  have hI1 : Inv3 rel (startNode cum 2 a none st').2 := by
    show Inv3 rel (st'.setNode a _)
    exact inv3_setNode hI' a _ rfl (areaInit_length cum _ _ (hI'.area a ha))
  have hig1 : ∀ i, ((startNode cum 2 a none st').2.node i).ignore = 0 := by
    intro i
    show ((st'.setNode a _).node i).ignore = 0
    by_cases hai : a = i
    · subst hai
      rw [node_setNode_self st' a _ (by rw [hI'.len]; exact ha)]
      show (st'.node a).ignore = 0
      rw [hnode a]; exact hig a
    · rw [node_setNode_ne st' a i _ hai, hnode i]; exact hig i
  have hs1 : (startNode cum 2 a none st').1 = 0 := rfl
  obtain ⟨hI2, ha2, ho2, _⟩ := settle_spec rec Bf hrec a none [a] 0 _ hI1 ha (hig1 a)
  have hnd' := List.nodup_cons.mp hnd
  have hloop := reinsertLoop_spec rec Bf hrec t a [a] 0 _ (Bf [a]) hI2
    (by intro p hp
        have hpa : p ≠ a := fun h => hnd'.1 (h ▸ hp)
        exact ⟨hids p (by simp [hp]), by rw [ho2 p hpa]; exact hig1 p⟩)
    hnd'.2 ha2
  simp only at hloop
  unfold levelN
  rw [resetIgnore_id 2 _ st hig]
  dsimp only
  rw [hrm]
  dsimp only [List.head?_nil, List.reverse_cons, List.reverse_nil, List.nil_append, finish]
  have hrev : ([a] : List Nat).reverse = [a] := rfl
  rw [hrev, hs1, hloop]; ring

/-! ### the areas returned by the 2-D sweep are the cross-section volumes -/

/-- the first two coordinates -/
def pi2 (p : Vec) : Vec := [co p 0, co p 1]

theorem sweep2Loop_pi2 : ∀ (rest : List Vec) (h : Rat) (q : Vec) (acc : Rat),
    sweep2Loop h (pi2 q) acc (rest.map pi2) = sweep2Loop h q acc rest
  | [], h, q, acc => by simp [sweep2Loop, pi2, co]
  | p :: rest, h, q, acc => by
    simp only [List.map_cons, sweep2Loop]
    have h0 : co (pi2 p) 0 = co p 0 := by simp [pi2, co]
    have h1 : co (pi2 p) 1 = co p 1 := by simp [pi2, co]
    have hq1 : co (pi2 q) 1 = co q 1 := by simp [pi2, co]
    rw [h0, h1, hq1]
    exact sweep2Loop_pi2 rest _ p _

theorem sweep2_pi2 : ∀ l : List Vec, sweep2 (l.map pi2) = sweep2 l
  | [] => rfl
  | q :: rest => by
    simp only [List.map_cons, sweep2]
    have h0 : co (pi2 q) 0 = co q 0 := by simp [pi2, co]
    rw [h0]
    exact sweep2Loop_pi2 rest _ q _

theorem len3 {p : Vec} (h : p.length = 3) : ∃ a b c, p = [a, b, c] := by
  match p, h with
  | [a, b, c], _ => exact ⟨a, b, c, rfl⟩

section three
variable {rel : List Vec} (hrect : Rect 3 rel) (hneg : ∀ p ∈ rel, wdVec p [0, 0, 0] = true)
include hrect hneg

omit hrect hneg in
theorem getD_mem {i : Nat} (hi : i < rel.length) : rel.getD i [] ∈ rel := by
  rw [List.getD_eq_getElem?_getD, List.getElem?_eq_getElem hi]
  exact List.getElem_mem hi

theorem row3 {i : Nat} (hi : i < rel.length) :
    ∃ x y z, rel.getD i [] = [x, y, z] ∧ x ≤ 0 ∧ y ≤ 0 ∧ z ≤ 0 := by
  have hm := getD_mem hi
  obtain ⟨x, y, z, h⟩ := len3 (hrect _ hm)
  have := hneg _ hm
  rw [h] at this
  simp only [wdVec, Bool.and_eq_true, decide_eq_true_eq, and_true] at this
  exact ⟨x, y, z, h, this.1, this.2.1, this.2.2⟩

/-- the area stored for a node = the 2-D hypervolume of the first two coordinates of the nodes
linked so far = the volume of the cross-section of the reversed vectors -/
theorem area_correct (s1 : List Nat) (orders : List (List Nat)) (ho : orders.getD 1 [] = s1)
    (hperm : s1.Perm (List.range rel.length))
    (hsorted : s1.Pairwise (fun i j => co (rel.getD i []) 1 ≤ co (rel.getD j []) 1))
    (act : List Nat) (hact : ∀ i ∈ act, i < rel.length) :
    (if act.isEmpty then 0 else sweep2 ((linked orders 1 act).map (fun i => rel.getD i [])))
      = hv [0, 0] ((act.map (fun i => (rel.getD i []).reverse)).map List.tail) := by
  by_cases he : act = []
  · subst he; simp [hv_nil_pts]
  have hne : act.isEmpty = false := by cases act <;> simp_all
  rw [hne]
  simp only [Bool.false_eq_true, if_false]
  -- the reversed tails are the reversed first-two-coordinate vectors
  have htail : (act.map (fun i => (rel.getD i []).reverse)).map List.tail
      = ((act.map (fun i => rel.getD i [])).map pi2).map List.reverse := by
    rw [List.map_map, List.map_map, List.map_map]
    apply List.map_congr_left
    intro i hi
    obtain ⟨x, y, z, h, _⟩ := row3 hrect hneg (hact i hi)
    show ((rel.getD i []).reverse).tail = (pi2 (rel.getD i [])).reverse
    rw [h]; rfl
  have hrect2 : Rect 2 ((act.map (fun i => rel.getD i [])).map pi2) := by
    intro p hp
    obtain ⟨q, _, rfl⟩ := List.mem_map.mp hp
    rfl
  rw [htail]
  have := hv_reverse [0, 0] _ hrect2
  simp only [List.reverse_cons, List.reverse_nil, List.nil_append, List.cons_append] at this
  rw [this]
  -- the sweep side
  have hlinked_mem : ∀ i, i ∈ linked orders 1 act ↔ i ∈ act := by
    intro i
    simp only [linked, ho, List.mem_filter, List.contains_iff_mem]
    constructor
    · exact fun h => h.2
    · intro h
      exact ⟨hperm.mem_iff.mpr (List.mem_range.mpr (hact i h)), h⟩
  set L1 := (linked orders 1 act).map (fun i => rel.getD i []) with hL1
  have hrectL : Rect 2 (L1.map pi2) := by
    intro p hp
    obtain ⟨q, _, rfl⟩ := List.mem_map.mp hp
    rfl
  have hsortedL : (L1.map pi2).Pairwise (fun p q => co p 1 ≤ co q 1) := by
    rw [hL1, List.map_map, List.pairwise_map]
    have : (linked orders 1 act).Pairwise (fun i j => co (rel.getD i []) 1 ≤ co (rel.getD j []) 1) := by
      simp only [linked, ho]
      exact List.Pairwise.sublist List.filter_sublist hsorted
    refine this.imp ?_
    intro i j hij
    simpa [Function.comp, pi2, co] using hij
  have hnegL : ∀ p ∈ L1.map pi2, wdVec p [0, 0] = true := by
    intro p hp
    rw [hL1, List.map_map] at hp
    obtain ⟨i, hi, rfl⟩ := List.mem_map.mp hp
    obtain ⟨x, y, z, h, hx, hy, _⟩ := row3 hrect hneg (hact i ((hlinked_mem i).mp hi))
    show wdVec (pi2 (rel.getD i [])) [0, 0] = true
    rw [h]; simp [pi2, co, wdVec, hx, hy]
  rw [← sweep2_pi2 L1, sweep2_eq _ hrectL hsortedL hnegL]
  have := hv_reverse [0, 0] _ hrectL
  simp only [List.reverse_cons, List.reverse_nil, List.nil_append, List.cons_append] at this
  rw [this]
  apply hv_set_ext
  intro p
  simp only [hL1, List.mem_map]
  constructor
  · rintro ⟨q, ⟨i, hi, rfl⟩, rfl⟩; exact ⟨_, ⟨i, (hlinked_mem i).mp hi, rfl⟩, rfl⟩
  · rintro ⟨q, ⟨i, hi, rfl⟩, rfl⟩; exact ⟨_, ⟨i, (hlinked_mem i).mpr hi, rfl⟩, rfl⟩

end three

section three
variable {rel : List Vec} (hrect : Rect 3 rel) (hneg : ∀ p ∈ rel, wdVec p [0, 0, 0] = true)
include hrect hneg

theorem hd_rev {i : Nat} (hi : i < rel.length) : hd (rel.getD i []).reverse = co (rel.getD i []) 2 := by
  obtain ⟨x, y, z, h, _⟩ := row3 hrect hneg hi
  rw [h]; rfl

/-- the id-level sum is the slab sum of the reversed vectors with exact cross-section volumes -/
theorem idSum_eq_sweepSum (Bf : List Nat → Rat)
    (hB : ∀ act, (∀ i ∈ act, i < rel.length) →
      Bf act = hv [0, 0] ((act.map (fun i => (rel.getD i []).reverse)).map List.tail)) :
    ∀ (rest actpre : List Nat) (q : Nat), (∀ i ∈ actpre ++ q :: rest, i < rel.length) →
      idSum rel Bf (Bf (actpre ++ [q])) q (actpre ++ [q]) rest
        = sweepSum (fun X => hv [0, 0] (X.map List.tail)) 0
            (actpre.map (fun i => (rel.getD i []).reverse)) (rel.getD q []).reverse
            (rest.map (fun i => (rel.getD i []).reverse))
  | [], actpre, q, hlt => by
    have hq : q < rel.length := hlt q (by simp)
    simp only [idSum, List.map_nil, sweepSum]
    rw [hB (actpre ++ [q]) (fun i hi => hlt i (by simpa using hi)), hd_rev hrect hneg hq]
    simp only [List.map_append, List.map_cons, List.map_nil]
    ring
  | p :: rest, actpre, q, hlt => by
    have hq : q < rel.length := hlt q (by simp)
    have hp : p < rel.length := hlt p (by simp)
    simp only [idSum, List.map_cons, sweepSum]
    have ih := idSum_eq_sweepSum Bf hB rest (actpre ++ [q]) p
      (fun i hi => hlt i (by simp only [List.mem_append, List.mem_cons, List.not_mem_nil, or_false] at hi ⊢; tauto))
    rw [ih, hB (actpre ++ [q]) (fun i hi => hlt i (by simp only [List.mem_append, List.mem_cons, List.not_mem_nil, or_false] at hi ⊢; tauto)),
      hd_rev hrect hneg hq, hd_rev hrect hneg hp]
    simp only [List.map_append, List.map_cons, List.map_nil]
    ring

/-- the specification, sliced along the last coordinate over the nodes sorted by it -/
theorem hv_eq_sweepSum_ids (a : Nat) (t : List Nat) (hperm : (a :: t).Perm (List.range rel.length))
    (hsorted : (a :: t).Pairwise (fun i j => co (rel.getD i []) 2 ≤ co (rel.getD j []) 2)) :
    hv [0, 0, 0] rel = sweepSum (fun X => hv [0, 0] (X.map List.tail)) 0 []
      (rel.getD a []).reverse (t.map (fun i => (rel.getD i []).reverse)) := by
  have hlt : ∀ i ∈ a :: t, i < rel.length := fun i hi => List.mem_range.mp (hperm.mem_iff.mp hi)
  have h1 := hv_reverse [0, 0, 0] rel hrect
  simp only [List.reverse_cons, List.reverse_nil, List.nil_append, List.cons_append] at h1
  rw [← h1]
  have hset : hv [0, 0, 0] (rel.map List.reverse)
      = hv [0, 0, 0] ((a :: t).map (fun i => (rel.getD i []).reverse)) := by
    apply hv_set_ext
    intro p
    have hmap : rel.map List.reverse = (List.range rel.length).map (fun i => (rel.getD i []).reverse) := by
      conv_lhs => rw [← range_map_getD rel]
      rw [List.map_map]; rfl
    rw [hmap]
    exact (List.Perm.map _ hperm).symm.mem_iff
  rw [hset, List.map_cons]
  have e : (rel.getD a []).reverse :: t.map (fun i => (rel.getD i []).reverse)
      = (a :: t).map (fun i => (rel.getD i []).reverse) := rfl
  apply hv_eq_sweepSum
  · rw [e, List.pairwise_map]
    refine (List.Pairwise.and_mem.mp hsorted).imp ?_
    rintro i j ⟨hi, hj, hij⟩
    rw [hd_rev hrect hneg (hlt i hi), hd_rev hrect hneg (hlt j hj)]; exact hij
  · intro p hp
    rw [e] at hp
    obtain ⟨i, hi, rfl⟩ := List.mem_map.mp hp
    obtain ⟨x, y, z, h, _, _, hz⟩ := row3 hrect hneg (hlt i hi)
    rw [h]; exact hz
  · intro p hp
    rw [e] at hp
    obtain ⟨i, hi, rfl⟩ := List.mem_map.mp hp
    obtain ⟨x, y, z, h, _⟩ := row3 hrect hneg (hlt i hi)
    rw [h]; simp

end three

theorem hvRecursive_two (cum : Bool) (orders : List (List Nat)) (active : List Nat) (st : St)
    (h : active.isEmpty = false) :
    hvRecursive cum orders 2 active st
      = levelN cum 2 (hvRecursive cum orders 1) (linked orders 2 active) st := by
  show hvRecursive cum orders (0 + 2) active st = _
  rw [hvRecursive, h]
  rfl

theorem rec1_pure (rel : List Vec) (cum : Bool) (orders : List (List Nat)) (act : List Nat) (st : St)
    (hc : ∀ i, (st.node i).cargo = rel.getD i []) :
    hvRecursive cum orders 1 act st
      = ((if act.isEmpty then 0 else sweep2 ((linked orders 1 act).map (fun i => rel.getD i []))), st) := by
  simp only [hvRecursive]
  split
  · rfl
  · have : (linked orders 1 act).map (fun i => (st.node i).cargo)
        = (linked orders 1 act).map (fun i => rel.getD i []) :=
      List.map_congr_left (fun i _ => hc i)
    rw [this]

theorem initNode_eq (rel : List Vec) (m : Nat) (bounds : List Rat) (i : Nat) (hi : i < rel.length) :
    (⟨rel.map (fun p => ⟨p, 0, List.replicate m 0, List.replicate m 0⟩), bounds⟩ : St).node i
      = ⟨rel.getD i [], 0, List.replicate m 0, List.replicate m 0⟩ := by
  simp [St.node, List.getD_eq_getElem?_getD, List.getElem?_map, List.getElem?_eq_getElem hi]

theorem initNode_ignore (rel : List Vec) (m : Nat) (bounds : List Rat) (i : Nat) :
    ((⟨rel.map (fun p => ⟨p, 0, List.replicate m 0, List.replicate m 0⟩), bounds⟩ : St).node i).ignore = 0 := by
  simp only [St.node, List.getD_eq_getElem?_getD, List.getElem?_map]
  cases h : rel[i]? <;> simp [sentinelNode]

/-- **three objectives, end to end**: `_HyperVolume(ref).compute(front)` — shift, `preProcess`,
the general branch of `hvRecursive` at `dimIndex = 2` with its unlink / re-insert loops,
`ignore` flags and `area`/`volume` bookkeeping, calling the 2-D sweep — is the hypervolume.
`hbig`: the shifted last coordinates lie above the code's sentinel `-1.0e308`. -/
theorem compute_3d (r0 r1 r2 : Rat) (front : List Vec) (hrect : Rect 3 front)
    (hle : ∀ p ∈ front, wdVec p [r0, r1, r2] = true) (hbig : ∀ p ∈ front, negInf < co p 2 - r2) :
    compute [r0, r1, r2] front = some (hv [r0, r1, r2] front) := by
  have hsh := shift_eq [r0, r1, r2] front
  have htr : hv [0, 0, 0] (front.map (fun p => subVec p [r0, r1, r2])) = hv [r0, r1, r2] front := by
    have := hv_translate [r0, r1, r2] [r0, r1, r2] front rfl hrect
    simpa [subVec] using this
  simp only [compute, computeV, List.length_cons, List.length_nil, Nat.zero_add, Nat.succ_ne_zero,
    if_false, hsh, Option.some.injEq]
  have hrectrel0 : Rect 3 (front.map (fun p => subVec p [r0, r1, r2])) := rect_shift rfl hrect
  have hneg0 : ∀ p ∈ front.map (fun p => subVec p [r0, r1, r2]), wdVec p [0, 0, 0] = true := by
    intro p hp
    obtain ⟨q, hq, rfl⟩ := List.mem_map.mp hp
    obtain ⟨a, b, c, rfl⟩ := len3 (hrect q hq)
    have := hle [a, b, c] hq
    simp only [wdVec, Bool.and_true, Bool.and_eq_true, decide_eq_true_eq] at this
    simp only [subVec, wdVec, Bool.and_true, Bool.and_eq_true, decide_eq_true_eq]
    refine ⟨?_, ?_, ?_⟩ <;> linarith [this.1, this.2.1, this.2.2]
  have hbig0 : ∀ p ∈ front.map (fun p => subVec p [r0, r1, r2]), negInf < co p 2 := by
    intro p hp
    obtain ⟨q, hq, rfl⟩ := List.mem_map.mp hp
    obtain ⟨a, b, c, rfl⟩ := len3 (hrect q hq)
    have := hbig [a, b, c] hq
    simpa [subVec, co] using this
  generalize front.map (fun p => subVec p [r0, r1, r2]) = rel at *
  show (hvRecursive true (preOrders true rel 3) 2 (List.range rel.length) _).1 = _
  rw [← htr]
  by_cases hne : rel = []
  · subst hne; simp [hvRecursive, hv_nil_pts]
  have hnpos : 0 < rel.length := List.length_pos_iff.mpr hne
  have hlen : (List.range rel.length).isEmpty = false := by
    cases rel with
    | nil => exact absurd rfl hne
    | cons _ _ => simp [List.range_succ]
  rw [hvRecursive_two true _ _ _ hlen]
  -- the sweep lists
  have ho2 : (preOrders true rel 3).getD 2 [] = sortByDim rel 2 (List.range rel.length) := by
    simp [preOrders, preOrdersDown, preOrdersDown.go]
  have ho1 : (preOrders true rel 3).getD 1 []
      = sortByDim rel 1 (sortByDim rel 2 (List.range rel.length)) := by
    simp [preOrders, preOrdersDown, preOrdersDown.go]
  have hp2 : (sortByDim rel 2 (List.range rel.length)).Perm (List.range rel.length) := sortByKey_perm _ _
  have hp1 : (sortByDim rel 1 (sortByDim rel 2 (List.range rel.length))).Perm (List.range rel.length) :=
    (sortByKey_perm _ _).trans hp2
  have hlinked : linked (preOrders true rel 3) 2 (List.range rel.length)
      = sortByDim rel 2 (List.range rel.length) := by
    unfold linked
    rw [ho2, List.filter_eq_self]
    intro a ha
    simpa using List.mem_range.mp (hp2.mem_iff.mp ha)
  rw [hlinked]
  -- name the sorted list
  obtain ⟨a, t, hat⟩ : ∃ a t, sortByDim rel 2 (List.range rel.length) = a :: t := by
    cases h : sortByDim rel 2 (List.range rel.length) with
    | nil =>
      have := hp2.length_eq
      rw [h] at this
      simp at this
      omega
    | cons a t => exact ⟨a, t, rfl⟩
  rw [hat] at hp2 ⊢
  have hs2 : (a :: t).Pairwise (fun i j => co (rel.getD i []) 2 ≤ co (rel.getD j []) 2) := by
    rw [← hat]; exact sortByKey_sorted _ _
  have hlt : ∀ i ∈ a :: t, i < rel.length := fun i hi => List.mem_range.mp (hp2.mem_iff.mp hi)
  -- the fresh state
  let st0 : St := ⟨rel.map (fun p => ⟨p, 0, List.replicate 3 0, List.replicate 3 0⟩), List.replicate 3 negInf⟩
  have hI0 : Inv3 rel st0 :=
    ⟨by simp [st0], fun i => initNode_cargo rel 3 _ i,
     fun i hi => by rw [initNode_eq rel 3 _ i hi]; simp⟩
  let Bf : List Nat → Rat := fun act =>
    if act.isEmpty then 0 else sweep2 ((linked (preOrders true rel 3) 1 act).map (fun i => rel.getD i []))
  have hrec : ∀ act st, (∀ i, (st.node i).cargo = rel.getD i []) →
      hvRecursive true (preOrders true rel 3) 1 act st = (Bf act, st) :=
    fun act st hc => rec1_pure rel true _ act st hc
  have htop := levelN_top (hvRecursive true (preOrders true rel 3) 1) Bf hrec true a t st0 hI0
    (fun i => initNode_ignore rel 3 _ i) (by simp [st0]) hlt (hp2.nodup_iff.mpr List.nodup_range)
    (fun i hi => hbig0 _ (getD_mem (hlt i hi)))
  rw [htop]
  have hB : ∀ act, (∀ i ∈ act, i < rel.length) →
      Bf act = hv [0, 0] ((act.map (fun i => (rel.getD i []).reverse)).map List.tail) :=
    fun act hact => area_correct hrectrel0 hneg0 _ _ ho1 hp1 (sortByKey_sorted _ _) act hact
  have := idSum_eq_sweepSum hrectrel0 hneg0 Bf hB t [] a (by simpa using hlt)
  simp only [List.nil_append, List.map_nil] at this
  rw [this, ← hv_eq_sweepSum_ids hrectrel0 hneg0 a t hp2 hs2]

end DH.Hypervolume
