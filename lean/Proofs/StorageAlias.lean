import Model.StorageAlias

/-!
Lemmas about `Model/StorageAlias.lean` (object identities in the job table of `MemoryStorage`).
Core Lean only.
-/

namespace DH.Storage

/-! ### an in-place change of an object that does not occur in a value leaves the value alone -/

mutual
theorem RVal.edit_of_not_mem (a : Nat) (e : Edit) : ∀ v : RVal, a ∉ v.addrs → v.edit a e = v
  | .atom v, _ => by simp [RVal.edit]
  | .list b l, h => by
    simp only [RVal.addrs, List.mem_cons, not_or] at h
    have hb : ¬ b = a := fun hh => h.1 hh.symm
    simp [RVal.edit, RVal.editL_of_not_mem a e l h.2, hb]
  | .tuple l, h => by
    simp only [RVal.addrs] at h
    simp [RVal.edit, RVal.editL_of_not_mem a e l h]
  | .dict b kv, h => by
    simp only [RVal.addrs, List.mem_cons, not_or] at h
    have hb : ¬ b = a := fun hh => h.1 hh.symm
    simp [RVal.edit, RVal.editKV_of_not_mem a e kv h.2, hb]
theorem RVal.editL_of_not_mem (a : Nat) (e : Edit) : ∀ l : List RVal, a ∉ RVal.addrsL l → RVal.editL a e l = l
  | [], _ => rfl
  | x :: r, h => by
    simp only [RVal.addrsL, List.mem_append, not_or] at h
    simp [RVal.editL, RVal.edit_of_not_mem a e x h.1, RVal.editL_of_not_mem a e r h.2]
theorem RVal.editKV_of_not_mem (a : Nat) (e : Edit) :
    ∀ kv : List (String × RVal), a ∉ RVal.addrsKV kv → RVal.editKV a e kv = kv
  | [], _ => rfl
  | (k, x) :: r, h => by
    simp only [RVal.addrsKV, List.mem_append, not_or] at h
    simp [RVal.editKV, RVal.edit_of_not_mem a e x h.1, RVal.editKV_of_not_mem a e r h.2]
end

/-! ### association lists of objects -/

theorem addrsKV_aset_sub (k : String) (w : RVal) :
    ∀ kv : List (String × RVal), ∀ x, x ∈ RVal.addrsKV (aset k w kv) → x ∈ w.addrs ∨ x ∈ RVal.addrsKV kv
  | [], x, h => by simpa [aset, RVal.addrsKV] using h
  | (a, v) :: r, x, h => by
    by_cases hk : a = k
    · simp only [aset, hk, if_true, RVal.addrsKV, List.mem_append] at h ⊢
      rcases h with h | h
      · exact Or.inl h
      · exact Or.inr (Or.inr h)
    · simp only [aset, hk, if_false, RVal.addrsKV, List.mem_append] at h ⊢
      rcases h with h | h
      · exact Or.inr (Or.inl h)
      · rcases addrsKV_aset_sub k w r x h with h | h
        · exact Or.inl h
        · exact Or.inr (Or.inr h)

theorem addrsKV_adel_sub (k : String) :
    ∀ kv : List (String × RVal), ∀ x, x ∈ RVal.addrsKV (adel k kv) → x ∈ RVal.addrsKV kv
  | [], x, h => by simpa [adel] using h
  | (a, v) :: r, x, h => by
    by_cases hk : a = k
    · simp only [adel, hk, if_true] at h
      simp only [RVal.addrsKV, List.mem_append]
      exact Or.inr h
    · simp only [adel, hk, if_false, RVal.addrsKV, List.mem_append] at h ⊢
      rcases h with h | h
      · exact Or.inl h
      · exact Or.inr (addrsKV_adel_sub k r x h)

theorem addrsL_append (l1 l2 : List RVal) : RVal.addrsL (l1 ++ l2) = RVal.addrsL l1 ++ RVal.addrsL l2 := by
  induction l1 with
  | nil => rfl
  | cons x r ih => simp [RVal.addrsL, ih, List.append_assoc]

/-- the value found under a key is part of the table -/
theorem aget_addrs_sub {k : String} {v : RVal} :
    ∀ {kv : List (String × RVal)}, aget k kv = some v → ∀ x ∈ v.addrs, x ∈ RVal.addrsKV kv
  | [], h => by simp [aget] at h
  | (a, w) :: r, h => by
    intro x hx
    by_cases hk : a = k
    · simp only [aget, hk, if_true, Option.some.injEq] at h
      subst h
      simp only [RVal.addrsKV, List.mem_append]
      exact Or.inl hx
    · simp only [aget, hk, if_false] at h
      simp only [RVal.addrsKV, List.mem_append]
      exact Or.inr (aget_addrs_sub h x hx)

theorem aget_addrs_nodup {k : String} {v : RVal} :
    ∀ {kv : List (String × RVal)}, aget k kv = some v → (RVal.addrsKV kv).Nodup → v.addrs.Nodup
  | [], h, _ => by simp [aget] at h
  | (a, w) :: r, h, hn => by
    simp only [RVal.addrsKV, List.nodup_append] at hn
    by_cases hk : a = k
    · simp only [aget, hk, if_true, Option.some.injEq] at h
      subst h
      exact hn.1
    · simp only [aget, hk, if_false] at h
      exact aget_addrs_nodup h hn.2.1

/-! ### what an edit can put into a value -/

theorem Edit.apply_addrs_sub (e : Edit) (v : RVal) : ∀ x, x ∈ (e.apply v).addrs → x ∈ v.addrs ∨ x ∈ e.addrs := by
  intro x h
  cases e with
  | setKey k w =>
    cases v with
    | dict a kv =>
      simp only [Edit.apply, RVal.addrs, List.mem_cons] at h ⊢
      rcases h with h | h
      · exact Or.inl (Or.inl h)
      · rcases addrsKV_aset_sub k w kv x h with h | h
        · exact Or.inr h
        · exact Or.inl (Or.inr h)
    | atom _ => exact Or.inl h
    | list _ _ => exact Or.inl h
    | tuple _ => exact Or.inl h
  | delKey k =>
    cases v with
    | dict a kv =>
      simp only [Edit.apply, RVal.addrs, List.mem_cons] at h ⊢
      rcases h with h | h
      · exact Or.inl (Or.inl h)
      · exact Or.inl (Or.inr (addrsKV_adel_sub k kv x h))
    | atom _ => exact Or.inl h
    | list _ _ => exact Or.inl h
    | tuple _ => exact Or.inl h
  | append w =>
    cases v with
    | list a l =>
      simp only [Edit.apply, RVal.addrs, List.mem_cons, addrsL_append, List.mem_append, RVal.addrsL, List.append_nil] at h ⊢
      rcases h with h | h | h
      · exact Or.inl (Or.inl h)
      · exact Or.inl (Or.inr h)
      · exact Or.inr h
    | atom _ => exact Or.inl h
    | dict _ _ => exact Or.inl h
    | tuple _ => exact Or.inl h
  | clear =>
    cases v with
    | list a l =>
      simp only [Edit.apply, RVal.addrs, RVal.addrsL, List.mem_cons, List.not_mem_nil, or_false] at h
      exact Or.inl (by simp [RVal.addrs, h])
    | dict a kv =>
      simp only [Edit.apply, RVal.addrs, RVal.addrsKV, List.mem_cons, List.not_mem_nil, or_false] at h
      exact Or.inl (by simp [RVal.addrs, h])
    | atom _ => exact Or.inl h
    | tuple _ => exact Or.inl h

mutual
theorem RVal.edit_addrs_sub (a : Nat) (e : Edit) : ∀ v : RVal, ∀ x, x ∈ (v.edit a e).addrs → x ∈ v.addrs ∨ x ∈ e.addrs
  | .atom v, x, h => Or.inl (by simpa [RVal.edit] using h)
  | .list b l, x, h => by
    have key : ∀ y, y ∈ (RVal.list b (RVal.editL a e l)).addrs → y ∈ (RVal.list b l).addrs ∨ y ∈ e.addrs := by
      intro y hy
      simp only [RVal.addrs, List.mem_cons] at hy ⊢
      rcases hy with hy | hy
      · exact Or.inl (Or.inl hy)
      · rcases RVal.editL_addrs_sub a e l y hy with hy | hy
        · exact Or.inl (Or.inr hy)
        · exact Or.inr hy
    by_cases hb : b = a
    · simp only [RVal.edit, hb, if_true] at h
      rcases Edit.apply_addrs_sub e _ x h with h | h
      · exact key x (by simpa [hb] using h)
      · exact Or.inr h
    · simp only [RVal.edit, hb, if_false] at h
      exact key x h
  | .tuple l, x, h => by
    simp only [RVal.edit, RVal.addrs] at h ⊢
    exact RVal.editL_addrs_sub a e l x h
  | .dict b kv, x, h => by
    have key : ∀ y, y ∈ (RVal.dict b (RVal.editKV a e kv)).addrs → y ∈ (RVal.dict b kv).addrs ∨ y ∈ e.addrs := by
      intro y hy
      simp only [RVal.addrs, List.mem_cons] at hy ⊢
      rcases hy with hy | hy
      · exact Or.inl (Or.inl hy)
      · rcases RVal.editKV_addrs_sub a e kv y hy with hy | hy
        · exact Or.inl (Or.inr hy)
        · exact Or.inr hy
    by_cases hb : b = a
    · simp only [RVal.edit, hb, if_true] at h
      rcases Edit.apply_addrs_sub e _ x h with h | h
      · exact key x (by simpa [hb] using h)
      · exact Or.inr h
    · simp only [RVal.edit, hb, if_false] at h
      exact key x h
theorem RVal.editL_addrs_sub (a : Nat) (e : Edit) :
    ∀ l : List RVal, ∀ x, x ∈ RVal.addrsL (RVal.editL a e l) → x ∈ RVal.addrsL l ∨ x ∈ e.addrs
  | [], x, h => by simp [RVal.editL, RVal.addrsL] at h
  | v :: r, x, h => by
    simp only [RVal.editL, RVal.addrsL, List.mem_append] at h ⊢
    rcases h with h | h
    · rcases RVal.edit_addrs_sub a e v x h with h | h
      · exact Or.inl (Or.inl h)
      · exact Or.inr h
    · rcases RVal.editL_addrs_sub a e r x h with h | h
      · exact Or.inl (Or.inr h)
      · exact Or.inr h
theorem RVal.editKV_addrs_sub (a : Nat) (e : Edit) :
    ∀ kv : List (String × RVal), ∀ x, x ∈ RVal.addrsKV (RVal.editKV a e kv) → x ∈ RVal.addrsKV kv ∨ x ∈ e.addrs
  | [], x, h => by simp [RVal.editKV, RVal.addrsKV] at h
  | (k, v) :: r, x, h => by
    simp only [RVal.editKV, RVal.addrsKV, List.mem_append] at h ⊢
    rcases h with h | h
    · rcases RVal.edit_addrs_sub a e v x h with h | h
      · exact Or.inl (Or.inl h)
      · exact Or.inr h
    · rcases RVal.editKV_addrs_sub a e r x h with h | h
      · exact Or.inl (Or.inr h)
      · exact Or.inr h
end

/-! ### `sup` bounds the identities -/

mutual
theorem RVal.lt_sup : ∀ v : RVal, ∀ x ∈ v.addrs, x < v.sup
  | .atom _, x, h => by simp [RVal.addrs] at h
  | .list a l, x, h => by
    simp only [RVal.addrs, List.mem_cons] at h
    simp only [RVal.sup]
    rcases h with h | h
    · omega
    · have := RVal.lt_supL l x h; omega
  | .tuple l, x, h => by
    simp only [RVal.addrs] at h
    simpa [RVal.sup] using RVal.lt_supL l x h
  | .dict a kv, x, h => by
    simp only [RVal.addrs, List.mem_cons] at h
    simp only [RVal.sup]
    rcases h with h | h
    · omega
    · have := RVal.lt_supKV kv x h; omega
theorem RVal.lt_supL : ∀ l : List RVal, ∀ x ∈ RVal.addrsL l, x < RVal.supL l
  | [], x, h => by simp [RVal.addrsL] at h
  | v :: r, x, h => by
    simp only [RVal.addrsL, List.mem_append] at h
    simp only [RVal.supL]
    rcases h with h | h
    · have := RVal.lt_sup v x h; omega
    · have := RVal.lt_supL r x h; omega
theorem RVal.lt_supKV : ∀ kv : List (String × RVal), ∀ x ∈ RVal.addrsKV kv, x < RVal.supKV kv
  | [], x, h => by simp [RVal.addrsKV] at h
  | (_, v) :: r, x, h => by
    simp only [RVal.addrsKV, List.mem_append] at h
    simp only [RVal.supKV]
    rcases h with h | h
    · have := RVal.lt_sup v x h; omega
    · have := RVal.lt_supKV r x h; omega
end

theorem Edit.lt_sup (e : Edit) : ∀ x ∈ e.addrs, x < e.sup := by
  intro x h
  cases e with
  | setKey k w => exact RVal.lt_sup w x h
  | append w => exact RVal.lt_sup w x h
  | delKey k => simp [Edit.addrs] at h
  | clear => simp [Edit.addrs] at h

/-! ### `copy.deepcopy`: new objects only, same value -/

mutual
theorem RVal.copy_mono : ∀ (v : RVal) (n : Nat), n ≤ (v.copy n).2
  | .atom _, n => by simp [RVal.copy]
  | .list _ l, n => by
    have := RVal.copyL_mono l (n + 1)
    simp only [RVal.copy]; omega
  | .tuple l, n => by
    have := RVal.copyL_mono l n
    simp only [RVal.copy]; omega
  | .dict _ kv, n => by
    have := RVal.copyKV_mono kv (n + 1)
    simp only [RVal.copy]; omega
theorem RVal.copyL_mono : ∀ (l : List RVal) (n : Nat), n ≤ (RVal.copyL n l).2
  | [], n => by simp [RVal.copyL]
  | x :: r, n => by
    have h1 := RVal.copy_mono x n
    have h2 := RVal.copyL_mono r (x.copy n).2
    simp only [RVal.copyL]; omega
theorem RVal.copyKV_mono : ∀ (kv : List (String × RVal)) (n : Nat), n ≤ (RVal.copyKV n kv).2
  | [], n => by simp [RVal.copyKV]
  | (_, x) :: r, n => by
    have h1 := RVal.copy_mono x n
    have h2 := RVal.copyKV_mono r (x.copy n).2
    simp only [RVal.copyKV]; omega
end

mutual
/-- every object of the copy is a new one -/
theorem RVal.copy_addrs : ∀ (v : RVal) (n : Nat), ∀ x ∈ (v.copy n).1.addrs, n ≤ x ∧ x < (v.copy n).2
  | .atom _, n, x, h => by simp [RVal.copy, RVal.addrs] at h
  | .list _ l, n, x, h => by
    simp only [RVal.copy, RVal.addrs, List.mem_cons] at h ⊢
    have hm := RVal.copyL_mono l (n + 1)
    rcases h with h | h
    · omega
    · have := RVal.copyL_addrs l (n + 1) x h; omega
  | .tuple l, n, x, h => by
    simp only [RVal.copy, RVal.addrs] at h ⊢
    exact RVal.copyL_addrs l n x h
  | .dict _ kv, n, x, h => by
    simp only [RVal.copy, RVal.addrs, List.mem_cons] at h ⊢
    have hm := RVal.copyKV_mono kv (n + 1)
    rcases h with h | h
    · omega
    · have := RVal.copyKV_addrs kv (n + 1) x h; omega
theorem RVal.copyL_addrs : ∀ (l : List RVal) (n : Nat), ∀ x ∈ RVal.addrsL (RVal.copyL n l).1, n ≤ x ∧ x < (RVal.copyL n l).2
  | [], n, x, h => by simp [RVal.copyL, RVal.addrsL] at h
  | v :: r, n, x, h => by
    simp only [RVal.copyL, RVal.addrsL, List.mem_append] at h ⊢
    have h1 := RVal.copy_mono v n
    have h2 := RVal.copyL_mono r (v.copy n).2
    rcases h with h | h
    · have := RVal.copy_addrs v n x h; omega
    · have := RVal.copyL_addrs r (v.copy n).2 x h; omega
theorem RVal.copyKV_addrs : ∀ (kv : List (String × RVal)) (n : Nat),
    ∀ x ∈ RVal.addrsKV (RVal.copyKV n kv).1, n ≤ x ∧ x < (RVal.copyKV n kv).2
  | [], n, x, h => by simp [RVal.copyKV, RVal.addrsKV] at h
  | (_, v) :: r, n, x, h => by
    simp only [RVal.copyKV, RVal.addrsKV, List.mem_append] at h ⊢
    have h1 := RVal.copy_mono v n
    have h2 := RVal.copyKV_mono r (v.copy n).2
    rcases h with h | h
    · have := RVal.copy_addrs v n x h; omega
    · have := RVal.copyKV_addrs r (v.copy n).2 x h; omega
end

mutual
/-- no object occurs twice in the copy -/
theorem RVal.copy_nodup : ∀ (v : RVal) (n : Nat), (v.copy n).1.addrs.Nodup
  | .atom _, n => by simp [RVal.copy, RVal.addrs]
  | .list _ l, n => by
    simp only [RVal.copy, RVal.addrs, List.nodup_cons]
    refine ⟨fun h => ?_, RVal.copyL_nodup l (n + 1)⟩
    have := RVal.copyL_addrs l (n + 1) n h; omega
  | .tuple l, n => by
    simp only [RVal.copy, RVal.addrs]
    exact RVal.copyL_nodup l n
  | .dict _ kv, n => by
    simp only [RVal.copy, RVal.addrs, List.nodup_cons]
    refine ⟨fun h => ?_, RVal.copyKV_nodup kv (n + 1)⟩
    have := RVal.copyKV_addrs kv (n + 1) n h; omega
theorem RVal.copyL_nodup : ∀ (l : List RVal) (n : Nat), (RVal.addrsL (RVal.copyL n l).1).Nodup
  | [], n => by simp [RVal.copyL, RVal.addrsL]
  | v :: r, n => by
    simp only [RVal.copyL, RVal.addrsL, List.nodup_append]
    refine ⟨RVal.copy_nodup v n, RVal.copyL_nodup r _, fun a ha b hb hab => ?_⟩
    have h1 := RVal.copy_addrs v n a ha
    have h2 := RVal.copyL_addrs r (v.copy n).2 b hb
    omega
theorem RVal.copyKV_nodup : ∀ (kv : List (String × RVal)) (n : Nat), (RVal.addrsKV (RVal.copyKV n kv).1).Nodup
  | [], n => by simp [RVal.copyKV, RVal.addrsKV]
  | (_, v) :: r, n => by
    simp only [RVal.copyKV, RVal.addrsKV, List.nodup_append]
    refine ⟨RVal.copy_nodup v n, RVal.copyKV_nodup r _, fun a ha b hb hab => ?_⟩
    have h1 := RVal.copy_addrs v n a ha
    have h2 := RVal.copyKV_addrs r (v.copy n).2 b hb
    omega
end

mutual
/-- the copy is the same value -/
theorem RVal.copy_erase : ∀ (v : RVal) (n : Nat), (v.copy n).1.erase = v.erase
  | .atom _, n => by simp [RVal.copy, RVal.erase]
  | .list _ l, n => by simp [RVal.copy, RVal.erase, RVal.copyL_erase l (n + 1)]
  | .tuple l, n => by simp [RVal.copy, RVal.erase, RVal.copyL_erase l n]
  | .dict _ kv, n => by simp [RVal.copy, RVal.erase, RVal.copyKV_erase kv (n + 1)]
theorem RVal.copyL_erase : ∀ (l : List RVal) (n : Nat), RVal.eraseL (RVal.copyL n l).1 = RVal.eraseL l
  | [], n => by simp [RVal.copyL, RVal.eraseL]
  | v :: r, n => by simp [RVal.copyL, RVal.eraseL, RVal.copy_erase v n, RVal.copyL_erase r _]
theorem RVal.copyKV_erase : ∀ (kv : List (String × RVal)) (n : Nat), RVal.eraseKV (RVal.copyKV n kv).1 = RVal.eraseKV kv
  | [], n => by simp [RVal.copyKV, RVal.eraseKV]
  | (k, v) :: r, n => by simp [RVal.copyKV, RVal.eraseKV, RVal.copy_erase v n, RVal.copyKV_erase r _]
end

/-! ### forgetting identities commutes with the dict operations -/

theorem eraseKV_aset (k : String) (w : RVal) :
    ∀ kv : List (String × RVal), RVal.eraseKV (aset k w kv) = aset k w.erase (RVal.eraseKV kv)
  | [] => by simp [aset, RVal.eraseKV]
  | (a, v) :: r => by
    by_cases hk : a = k
    · simp [aset, RVal.eraseKV, hk]
    · simp [aset, RVal.eraseKV, hk, eraseKV_aset k w r]

theorem aget_eraseKV (k : String) :
    ∀ kv : List (String × RVal), aget k (RVal.eraseKV kv) = (aget k kv).map RVal.erase
  | [] => by simp [aget, RVal.eraseKV]
  | (a, v) :: r => by
    by_cases hk : a = k
    · simp [aget, RVal.eraseKV, hk]
    · simp [aget, RVal.eraseKV, hk, aget_eraseKV k r]

theorem collectLive_erase (jobs : List (String × RVal)) :
    ∀ (jids : List String) (acc : List (String × RVal)),
      collectLive (RVal.eraseKV jobs) jids (RVal.eraseKV acc) = (collectLive jobs jids acc).map RVal.eraseKV
  | [], acc => by simp [collectLive]
  | jid :: r, acc => by
    simp only [collectLive, aget_eraseKV]
    rcases hj : aget jid jobs with _ | j
    · simp
    · simp only [Option.map_some]
      rw [← eraseKV_aset, collectLive_erase jobs r]

theorem collectLive_addrs (jobs : List (String × RVal)) :
    ∀ (jids : List String) (acc d : List (String × RVal)), collectLive jobs jids acc = some d →
      ∀ x ∈ RVal.addrsKV d, x ∈ RVal.addrsKV jobs ∨ x ∈ RVal.addrsKV acc
  | [], acc, d, h => by
    simp only [collectLive, Option.some.injEq] at h
    subst h
    exact fun x hx => Or.inr hx
  | jid :: r, acc, d, h => by
    simp only [collectLive] at h
    rcases hj : aget jid jobs with _ | j
    · simp [hj] at h
    · simp only [hj] at h
      intro x hx
      rcases collectLive_addrs jobs r _ d h x hx with hx | hx
      · exact Or.inl hx
      · rcases addrsKV_aset_sub jid j acc x hx with hx | hx
        · exact Or.inl (aget_addrs_sub hj x hx)
        · exact Or.inr hx

/-! ### a table in which no object occurs twice -/

/-- an in-place change of an object inside the value found under `k` changes that entry only -/
theorem editKV_eq_aset (a : Nat) (e : Edit) {k : String} {v : RVal} :
    ∀ {kv : List (String × RVal)}, aget k kv = some v → a ∈ v.addrs → (RVal.addrsKV kv).Nodup →
      RVal.editKV a e kv = aset k (v.edit a e) kv
  | [], h, _, _ => by simp [aget] at h
  | (b, w) :: r, h, ha, hn => by
    simp only [RVal.addrsKV, List.nodup_append] at hn
    by_cases hk : b = k
    · simp only [aget, hk, if_true, Option.some.injEq] at h
      subst h
      have hr : a ∉ RVal.addrsKV r := fun hh => hn.2.2 a ha a hh rfl
      simp [RVal.editKV, aset, hk, RVal.editKV_of_not_mem a e r hr]
    · simp only [aget, hk, if_false] at h
      have hw : a ∉ w.addrs := fun hh => hn.2.2 a hh a (aget_addrs_sub h a ha) rfl
      simp [RVal.editKV, aset, hk, RVal.edit_of_not_mem a e w hw, editKV_eq_aset a e h ha hn.2.1]

/-- replacing the value under `k` keeps the table free of repetitions if the new value has none and shares objects
with nothing but the value it replaces -/
theorem nodupKV_aset (k : String) (v : RVal) (hv : v.addrs.Nodup) :
    ∀ kv : List (String × RVal), (RVal.addrsKV kv).Nodup →
      (∀ x ∈ v.addrs, x ∈ RVal.addrsKV kv → ∃ old, aget k kv = some old ∧ x ∈ old.addrs) →
      (RVal.addrsKV (aset k v kv)).Nodup
  | [], _, _ => by simpa [aset, RVal.addrsKV] using hv
  | (b, w) :: r, hn, hsh => by
    simp only [RVal.addrsKV, List.nodup_append] at hn
    by_cases hk : b = k
    · simp only [aset, hk, if_true, RVal.addrsKV, List.nodup_append]
      refine ⟨hv, hn.2.1, fun x hx y hy hxy => ?_⟩
      subst hxy
      obtain ⟨old, ho, hxo⟩ := hsh x hx (by simp only [RVal.addrsKV, List.mem_append]; exact Or.inr hy)
      simp only [aget, hk, if_true, Option.some.injEq] at ho
      subst ho
      exact hn.2.2 x hxo x hy rfl
    · simp only [aset, hk, if_false, RVal.addrsKV, List.nodup_append]
      have hsh' : ∀ x ∈ v.addrs, x ∈ RVal.addrsKV r → ∃ old, aget k r = some old ∧ x ∈ old.addrs := by
        intro x hx hxr
        obtain ⟨old, ho, hxo⟩ := hsh x hx (by simp only [RVal.addrsKV, List.mem_append]; exact Or.inr hxr)
        simp only [aget, hk, if_false] at ho
        exact ⟨old, ho, hxo⟩
      refine ⟨hn.1, nodupKV_aset k v hv r hn.2.1 hsh', fun x hx y hy hxy => ?_⟩
      subst hxy
      rcases addrsKV_aset_sub k v r x hy with hy | hy
      · obtain ⟨old, ho, hxo⟩ := hsh x hy (by simp only [RVal.addrsKV, List.mem_append]; exact Or.inl hx)
        simp only [aget, hk, if_false] at ho
        exact hn.2.2 x hx x (aget_addrs_sub ho x hxo) rfl
      · exact hn.2.2 x hx x hy rfl

/-! ### the invariant of the world -/

structure Inv (W : World) : Prop where
  /-- every object of the job table was allocated -/
  bound : ∀ a ∈ RVal.addrsKV W.jobs, a < W.next
  /-- every object the caller holds was allocated -/
  hbound : ∀ a ∈ RVal.addrsL W.held, a < W.next
  /-- no object occurs at two places of the job table -/
  nodup : (RVal.addrsKV W.jobs).Nodup

theorem Inv_init : Inv World.init := ⟨by simp [World.init, RVal.addrsKV], by simp [World.init, RVal.addrsL], by simp [World.init, RVal.addrsKV]⟩

/-- an in-place change of an object outside the table -/
theorem Inv_editAll_outside {W : World} (hW : Inv W) (a : Nat) (e : Edit) (ha : a ∉ RVal.addrsKV W.jobs) :
    Inv (W.editAll a e) ∧ (W.editAll a e).jobs = W.jobs := by
  have hj : RVal.editKV a e W.jobs = W.jobs := RVal.editKV_of_not_mem a e _ ha
  refine ⟨⟨?_, ?_, ?_⟩, hj⟩
  · intro x hx
    simp only [World.editAll, hj] at hx ⊢
    have := hW.bound x hx; omega
  · intro x hx
    simp only [World.editAll] at hx ⊢
    rcases RVal.editL_addrs_sub a e _ x hx with hx | hx
    · have := hW.hbound x hx; omega
    · have := Edit.lt_sup e x hx; omega
  · simp only [World.editAll, hj]; exact hW.nodup

end DH.Storage
