import Proofs.EvaluatorMultiThm
import Proofs.EvaluatorFacts

/-!
What a gather / a close of an evaluator of a system satisfying the invariant does (the content of
`C01_multi_gather`, `C01_multi_close_record`), for use in `Proofs/EvaluatorMultiTrace.lean`.  Core Lean only.
-/

namespace DH.Evaluator

variable {C O : Type}

theorem multi_gather {p : MParams C O} {n : Nat} {sys : Sys C O} (hinv : SInv p n sys) {who : Nat}
    {me : MEv C O} (hme : sys.evs[who]? = some me) (all : Bool) (k : Nat) (st : List Nat)
    (ws : List (List Nat)) (hok : mOpOkLocal sys.rows me (.gather all k st ws) = true) :
    (∀ e, (mStep p sys who (.gather all k st ws)).2 = .error e →
      all = false ∧ k ≠ 0 ∧ me.running = [] ∧
        ((e = .noLoop ∧ me.loopOpen = false) ∨ (e = .noJobs ∧ me.loopOpen = true))) ∧
    (∀ js others, (mStep p sys who (.gather all k st ws)).2 = .jobs js others →
      ∃ me', (mStep p sys who (.gather all k st ws)).1.evs[who]? = some me' ∧
        (js.map (·.id)).Nodup ∧
        (∀ j ∈ js, j.id ∈ mRunningIds me ∧ (j.id, Via.gather) ∈ me'.delivered ∧ j.status = .done ∧
          j.out = some (p.f j.cfg) ∧ (∃ row ∈ sys.rows, row.id = j.id ∧ row.owner = who ∧ row.cfg = j.cfg) ∧
          ∃ row' ∈ (mStep p sys who (.gather all k st ws)).1.rows, recOf row' = j) ∧
        min (if all then me.running.length else k) me.running.length ≤ js.length ∧
        (all = true → me'.running = []) ∧
        me'.reported = me.reported ++ others.map (·.id) ∧ (others.map (·.id)).Nodup ∧
        (∀ o ∈ others, o.id ∉ me.reported ∧
          ∃ row ∈ (mStep p sys who (.gather all k st ws)).1.rows, row.id = o.id ∧ row.owner ≠ who ∧
            activeRow row = false ∧ o.cfg = row.cfg ∧ o.out = row.out ∧ o.status = row.status)) := by
  obtain ⟨s, lst, lws, rows1, me1, hs, hr, hok', e1, hm, hr1, hj, hl, ⟨ids, hd⟩, h1, hstep⟩ :=
    gather_bundle hinv hme all k st ws hok
  obtain ⟨cs, ht⟩ := reach_trace hs
  obtain ⟨hi, _, _⟩ := reach_good hs
  have hme1 : ({ rows := rows1, evs := sys.evs.set who me1 } : Sys C O).evs[who]? = some me1 :=
    set_getElem?_self hme
  have hrho : rho me1.jobs rows1.length = rho me.jobs sys.rows.length := by rw [hj, hl]
  rw [hstep]
  rcases gather_spec (p := p.toParams) hi all k lst lws hok' with ⟨hg, h0⟩ | ⟨hg, h0, hlo⟩ | ⟨hg, h0, hrun⟩ |
    ⟨done, s', ljs, hg, _, _, _, _, _, _, _, many, _⟩
  · -- nothing to wait for: `[]`
    have hX : (gather p.toParams s all k lst lws).2 = .jobs [] := by rw [hg]
    have hpay := fact_payload p.toParams ht all k lst lws hok' [] (by simp only [step]; exact hX)
    have hbat := fact_batch_size p.toParams hs all k lst lws hok' [] (by simp only [step]; exact hX)
    simp only [hX, outRes, renRes, List.map_nil]
    refine ⟨fun e he => by simp at he, fun js others hjo => ?_⟩
    simp only [MOut.jobs.injEq] at hjo
    obtain ⟨rfl, rfl⟩ := hjo
    obtain ⟨hnd, hrec, hspec, _⟩ := others_spec h1 hme1
    refine ⟨_, set_getElem?_self hme, by simp, by simp, ?_, ?_, ?_, ?_, ?_⟩
    · have := hbat.1; simp only [List.length_nil] at this ⊢
      rw [hr.runLen]; exact this
    · intro ha
      have := hbat.2 ha
      simp only [step] at this
      show me1.running = []
      rw [← hr1.running, this]; rfl
    · show me1.reported ++ _ = _
      rw [hd.reported, hrec]
    · rw [hrec]; exact hnd
    · intro o ho
      obtain ⟨a, _, r, hrm, b1, b2, b3, b4, b5, b6, _⟩ := hspec o ho
      exact ⟨hd.reported ▸ a, r, hrm, b1, b2, b3, b4, b5, b6⟩
  · -- `self.loop is None`
    have hX : (gather p.toParams s all k lst lws).2 = .error .noLoop := by rw [hg]
    have herr := fact_no_spurious_error p.toParams hs (.gather all k lst lws) hok' .noLoop
      (by simp only [step]; exact hX)
    simp only [hX, outRes, renRes]
    refine ⟨fun e he => ?_, fun js others hjo => by simp at hjo⟩
    simp only [MOut.error.injEq] at he
    subst he
    obtain ⟨k', st', ws', hop, hk, hrun, hcase⟩ := herr
    simp only [Op.gather.injEq] at hop
    obtain ⟨rfl, rfl, _, _⟩ := hop
    refine ⟨rfl, hk, by rw [← hr.running, hrun]; rfl, ?_⟩
    rw [← hr.lopen]; exact hcase
  · have hX : (gather p.toParams s all k lst lws).2 = .error .noJobs := by rw [hg]
    have herr := fact_no_spurious_error p.toParams hs (.gather all k lst lws) hok' .noJobs
      (by simp only [step]; exact hX)
    simp only [hX, outRes, renRes]
    refine ⟨fun e he => ?_, fun js others hjo => by simp at hjo⟩
    simp only [MOut.error.injEq] at he
    subst he
    obtain ⟨k', st', ws', hop, hk, hrun, hcase⟩ := herr
    simp only [Op.gather.injEq] at hop
    obtain ⟨rfl, rfl, _, _⟩ := hop
    refine ⟨rfl, hk, by rw [← hr.running, hrun]; rfl, ?_⟩
    rw [← hr.lopen]; exact hcase
  · have hX : (gather p.toParams s all k lst lws).2 = .jobs ljs := by rw [hg]
    have hS : (gather p.toParams s all k lst lws).1 = s' := by rw [hg]
    have hpay := fact_payload p.toParams ht all k lst lws hok' ljs (by simp only [step]; exact hX)
    have hbat := fact_batch_size p.toParams hs all k lst lws hok' ljs (by simp only [step]; exact hX)
    simp only [step] at hpay hbat
    rw [hS] at hpay hbat hr1
    simp only [hX, outRes, renRes]
    refine ⟨fun e he => by simp at he, fun js others hjo => ?_⟩
    simp only [MOut.jobs.injEq] at hjo
    obtain ⟨rfl, rfl⟩ := hjo
    obtain ⟨hnd, hrec, hspec, _⟩ := others_spec h1 hme1
    refine ⟨_, set_getElem?_self hme, ?_, ?_, ?_, ?_, ?_, ?_, ?_⟩
    · rw [List.map_map]
      have : ((fun j : JobRec C O => j.id) ∘ renRec (rho me.jobs sys.rows.length)) =
          (rho me.jobs sys.rows.length) ∘ (fun j : JobRec C O => j.id) := rfl
      rw [this, ← List.map_map]
      exact nodup_map_inj hr.inj hpay.1
    · intro j' hj'
      obtain ⟨j, hjm, rfl⟩ := List.mem_map.1 hj'
      obtain ⟨a1, a2, a3, a4, a5⟩ := hpay.2 j hjm
      obtain ⟨row, hrow, b1, b2, b3⟩ := hr.row_of_cfg ht a5
      obtain ⟨row', hrow', _, hrec'⟩ := hr1.row_of_job (many.res j hjm).2.2
      refine ⟨?_, ?_, a3, a4, ⟨row, hrow, b1, ((hinv.ev who me hme).own row hrow).2 b3, b2⟩, row', hrow', by rw [hrec', hrho]⟩
      · rw [hr.runIds]; exact List.mem_map_of_mem a1
      · show (rho me.jobs sys.rows.length j.id, Via.gather) ∈ me1.delivered
        apply hr1.mem_del.2
        exact ⟨j.id, a2, by rw [hrho]⟩
    · have := hbat.1
      rw [List.length_map, hr.runLen]; exact this
    · intro ha
      show me1.running = []
      rw [← hr1.running, hbat.2 ha]; rfl
    · show me1.reported ++ _ = _
      rw [hd.reported, hrec]
    · rw [hrec]; exact hnd
    · intro o ho
      obtain ⟨a, _, r, hrm, b1, b2, b3, b4, b5, b6, _⟩ := hspec o ho
      exact ⟨hd.reported ▸ a, r, hrm, b1, b2, b3, b4, b5, b6⟩

theorem multi_close_record {p : MParams C O} {n : Nat} {sys : Sys C O} (hinv : SInv p n sys) {who : Nat}
    {me : MEv C O} (hme : sys.evs[who]? = some me) (fin : List Nat)
    (hok : mOpOkLocal sys.rows me (.close fin) = true) :
    (mStep p sys who (.close fin)).2 = .unit ∧
    ∃ me', (mStep p sys who (.close fin)).1.evs[who]? = some me' ∧
      me'.running = [] ∧ me'.submitted = [] ∧ me'.loopOpen = false ∧
      ∀ g ∈ mRunningIds me, (g, Via.close) ∈ me'.delivered ∧
        ∃ row ∈ (mStep p sys who (.close fin)).1.rows, row.id = g ∧ row.owner = who ∧
          (∃ row0 ∈ sys.rows, row0.id = g ∧ row0.cfg = row.cfg) ∧
          (if g ∈ fin then row.status = .done ∧ row.out = some (p.f row.cfg)
           else row.status = .cancelled ∧ row.out = if p.hpo then some p.cancelOut else none) := by
  have hinv' := hinv.step who (.close fin) (by unfold mOpOk; rw [hme]; exact hok)
  obtain ⟨s, lfin, rows', me', hs, hr, hok', e1, hstep, hr', hj, hl, _⟩ :=
    close_bundle hinv hme fin hok
  obtain ⟨cs, ht⟩ := reach_trace hs
  have hrec := fact_close_record p.toParams ht lfin hok'
  simp only [step] at hrec
  obtain ⟨hu, hrun, hsub, hlo, hall⟩ := hrec
  have hrho : rho me'.jobs rows'.length = rho me.jobs sys.rows.length := by rw [hj, hl]
  rw [hstep] at hinv' ⊢
  have hme' : ({ rows := rows', evs := sys.evs.set who me' } : Sys C O).evs[who]? = some me' :=
    set_getElem?_self hme
  refine ⟨by simp only [hu, outM], me', hme', ?_, ?_, ?_, ?_⟩
  · rw [← hr'.running, hrun]; rfl
  · rw [← hr'.submitted, hsub]; rfl
  · rw [← hr'.lopen, hlo]
  · intro g hg
    rw [hr.runIds] at hg
    obtain ⟨i, hi', rfl⟩ := List.mem_map.1 hg
    obtain ⟨hdel, j, hjm, hji, hcfg, hcase⟩ := hall i hi'
    refine ⟨hr'.mem_del.2 ⟨i, hdel, by rw [hrho]⟩, ?_⟩
    obtain ⟨row, hrow, hown, hrec'⟩ := hr'.row_of_job hjm
    have e0 : row.id = rho me.jobs sys.rows.length i := by
      have := congrArg JobRec.id hrec'
      simpa [recOf, renRec, hji, hrho] using this
    have e2 : row.cfg = j.cfg := by have := congrArg JobRec.cfg hrec'; simpa [recOf, renRec] using this
    have e3 : row.status = j.status := by have := congrArg JobRec.status hrec'; simpa [recOf, renRec] using this
    have e4 : row.out = j.out := by have := congrArg JobRec.out hrec'; simpa [recOf, renRec] using this
    obtain ⟨row0, hrow0, b1, b2, _⟩ := hr.row_of_cfg ht hcfg
    refine ⟨row, hrow, e0, ((hinv'.ev who me' hme').own row hrow).2 hown, ⟨row0, hrow0, b1, by rw [b2, e2]⟩, ?_⟩
    have hfin : rho me.jobs sys.rows.length i ∈ fin ↔ i ∈ lfin := by
      rw [← e1]; exact mem_map_inj hr.inj
    rw [e2, e3, e4]
    by_cases hif : i ∈ lfin
    · rw [if_pos (hfin.2 hif)]; rw [if_pos hif] at hcase; exact hcase
    · rw [if_neg (fun hh => hif (hfin.1 hh))]; rw [if_neg hif] at hcase; exact hcase

/-! ### further facts used by the trace proof -/

theorem mProcessAll_err (p : MParams C O) (via : Via) : ∀ (l : List Nat) (st : List (Row C O) × MEv C O) (e : Err),
    (mProcessAll p via st l).2 = .error e → e = .badTask
  | [], st, e, h => by simp [mProcessAll] at h
  | g :: rest, st, e, h => by
    simp only [mProcessAll] at h
    cases h1 : mProcessOne p via st g with
    | error e' =>
      rw [h1] at h
      simp only [Except.error.injEq] at h
      subst h
      unfold mProcessOne at h1
      split at h1
      · simp only [Except.error.injEq] at h1; exact h1.symm
      · split at h1
        · simp only [Except.error.injEq] at h1; exact h1.symm
        · simp at h1
    | ok x =>
      obtain ⟨st1, j⟩ := x
      rw [h1] at h
      simp only at h
      cases h2 : mProcessAll p via st1 rest with
      | mk st2 res =>
        rw [h2] at h
        cases res with
        | ok js => simp at h
        | error e' =>
          simp only [Except.error.injEq] at h
          subst h
          exact mProcessAll_err p via rest st1 e' (by rw [h2])

/-- a gather that raises `noLoop` / `noJobs` has not touched anything -/
theorem mGatherLocal_err_state (p : MParams C O) (st : List (Row C O) × MEv C O) (all : Bool) (k : Nat)
    (sd : List Nat) (ws : List (List Nat)) (e : Err) (he : (mGatherLocal p st all k sd ws).2 = .error e)
    (hne : e ≠ .badTask) : (mGatherLocal p st all k sd ws).1 = st := by
  unfold mGatherLocal at he ⊢
  simp only at he ⊢
  generalize (if all = true then st.2.running.length else k) = size at he ⊢
  by_cases h0 : size = 0
  · rw [if_pos h0]
  · rw [if_neg h0] at he ⊢
    by_cases h1 : (!st.2.loopOpen) = true
    · rw [if_pos h1]
    · rw [if_neg h1] at he ⊢
      cases hd : mAwaitN st.2 size ws with
      | error e' => rfl
      | ok done =>
        rw [hd] at he
        simp only at he
        exact absurd (mProcessAll_err p .gather done _ e he) hne

/-- the own jobs a gather hands back are exactly what it appends to its histories -/
theorem mGatherLocal_delta_ok (p : MParams C O) (st : List (Row C O) × MEv C O) (all : Bool) (k : Nat)
    (sd : List Nat) (ws : List (List Nat)) (js : List (JobRec C O))
    (hjs : (mGatherLocal p st all k sd ws).2 = .ok js) :
    Delta st.2 (mGatherLocal p st all k sd ws).1.2 (js.map (·.id)) .gather := by
  unfold mGatherLocal at hjs ⊢
  simp only at hjs ⊢
  generalize (if all = true then st.2.running.length else k) = size at hjs ⊢
  by_cases h0 : size = 0
  · rw [if_pos h0] at hjs ⊢
    simp only [Except.ok.injEq] at hjs
    subst hjs
    exact Delta.refl _ _
  · rw [if_neg h0] at hjs ⊢
    by_cases h1 : (!st.2.loopOpen) = true
    · rw [if_pos h1] at hjs; simp at hjs
    · rw [if_neg h1] at hjs ⊢
      cases hd : mAwaitN st.2 size ws with
      | error e => rw [hd] at hjs; simp at hjs
      | ok done =>
        rw [hd] at hjs
        simp only at hjs ⊢
        obtain ⟨ids, _, hdel, hok⟩ := mProcessAll_delta p .gather done (mMarkStarted st.1 sd, st.2)
        obtain ⟨e1, e2⟩ := hok js hjs
        rw [e2]
        rw [e1] at hdel
        exact hdel

theorem multi_jobs_length {p : MParams C O} {n : Nat} {sys : Sys C O} (hinv : SInv p n sys) {who : Nat}
    {me : MEv C O} (hme : sys.evs[who]? = some me) :
    me.jobs.length = me.running.length + me.delivered.length := by
  obtain ⟨s, hs, hr⟩ := (hinv.ev who me hme).sim
  obtain ⟨hi, _, _⟩ := reach_good hs
  have h4 : s.submitted.length + s.delivered.length = s.nextId := by
    have := hi.part.length_eq; simpa using this
  have h5 : s.running.length = s.submitted.length := by rw [← hi.runSub]; simp
  have e1 : me.jobs.length = s.nextId := hr.n.symm
  have e2 : me.running.length = s.running.length := hr.runLen
  have e3 : me.delivered.length = s.delivered.length := by rw [← hr.delivered]; simp
  omega

/-- a job whose status is terminal has been delivered by its owner -/
theorem delivered_of_terminal {p : MParams C O} {n : Nat} {sys : Sys C O} (hinv : SInv p n sys) {w : Nat}
    {mw : MEv C O} (hmw : sys.evs[w]? = some mw) {r : Row C O} (hr : r ∈ sys.rows) (hown : r.owner = w)
    (hterm : activeRow r = false) : r.id ∈ mw.delivered.map (·.1) := by
  have hj : r.id ∈ mw.jobs := ((hinv.ev w mw hmw).own r hr).1 hown
  obtain ⟨_, _, hpart, _, _⟩ := multi_exactly_once hinv hmw
  rcases (hpart r.id).1 hj with hrun | hdel
  · obtain ⟨r', hr', hact⟩ := multi_running_active hinv hmw hrun
    have h1 := rowOf_of_mem (rows_nodup hinv.rows.ids) hr
    rw [hr'] at h1
    have : r' = r := Option.some.inj h1
    rw [this, hterm] at hact
    exact absurd hact (by simp)
  · exact hdel

end DH.Evaluator
