import Mathlib.Analysis.SpecialFunctions.Log.Base

/-!
The hypotheses that `C09_roundtrip` / `C10_log_uniform_affine` put on the parameters `L`, `E`
(`MonoOn`, `InvOn`, `StrictMonoOn`, `RightInvOn`) are those of the real logarithm and power:
for every base `b > 1`, `L = Real.logb b` and `E = (b ^ ·)` satisfy them over `ℝ`.  (The models
are over `ℚ`, where `log` is not a function; this file only records that the assumed contract is
the mathematical one and is satisfiable by the intended functions.)
-/

namespace DH.RealLog

theorem logb_mono (b : ℝ) (hb : 1 < b) (x y : ℝ) (hx : 0 < x) (hxy : x ≤ y) :
    Real.logb b x ≤ Real.logb b y :=
  Real.logb_le_logb_of_le hb hx hxy

theorem logb_strictMono (b : ℝ) (hb : 1 < b) (x y : ℝ) (hx : 0 < x) (hxy : x < y) :
    Real.logb b x < Real.logb b y :=
  Real.logb_lt_logb hb hx hxy

theorem rpow_logb (b : ℝ) (hb : 1 < b) (x : ℝ) (hx : 0 < x) : b ^ Real.logb b x = x :=
  Real.rpow_logb (by linarith) (ne_of_gt hb) hx

theorem logb_rpow (b : ℝ) (hb : 1 < b) (t : ℝ) : Real.logb b (b ^ t) = t ∧ 0 < b ^ t :=
  ⟨Real.logb_rpow (by linarith) (ne_of_gt hb), Real.rpow_pos_of_pos (by linarith) t⟩

end DH.RealLog
