import Proofs.SelectCheck

/-!
C20 ⟷ C19: the greedy selector's two ways of evaluating an ensemble — `aggregate(members)` without
weights (the starting ensemble, in argsort order) and `aggregate(unique members, counts/total)` —
for any aggregator that is invariant under a common factor on the weights and under permuting
members together with their weights (what C19 proves of the four aggregators).
-/

namespace DH.Select

/-- a cell-wise aggregator with the two symmetries C19 proves -/
structure SymAgg (X Out : Type) where
  agg : List Rat → List X → Out
  scale : ∀ (k : Rat), k ≠ 0 → ∀ (ws : List Rat) (xs : List X), agg (ws.map (k * ·)) xs = agg ws xs
  perm : ∀ {ws ws' : List Rat} {xs xs' : List X}, (ws.zip xs).Perm (ws'.zip xs') → agg ws xs = agg ws' xs'

variable {X Out : Type}

/-- the aggregated prediction (an array of `m` cells) of the members `idx` with weights `ws`;
`pred i j` = prediction of candidate `i` at cell `j` -/
def ensPred (A : SymAgg X Out) (pred : Nat → Nat → X) (m : Nat) (ws : List Rat) (idx : List Nat) : List Out :=
  (List.range m).map (fun j => A.agg ws (idx.map (fun i => pred i j)))

/-- `self._evaluate(y, self._aggregate([y_predictors[i] for i in selected]))` — no weights -/
def lossNone (A : SymAgg X Out) (pred : Nat → Nat → X) (m : Nat) (loss : List Out → Rat) (idx : List Nat) : Rat :=
  loss (ensPred A pred m (List.replicate idx.length 1) idx)

/-- `self._evaluate(y, self._aggregate(y_[unique], counts / sum))` -/
def lossCounts (A : SymAgg X Out) (pred : Nat → Nat → X) (m : Nat) (loss : List Out → Rat)
    (uc : List (Nat × Nat)) : Rat :=
  loss (ensPred A pred m (weightsOf uc) (uc.map (·.1)))

theorem uniqueCounts_perm {n : Nat} {l : List Nat} (hnd : l.Nodup) (hv : ∀ a ∈ l, a < n) :
    ((uniqueCounts n l).map (·.1)).Perm l := by
  rw [List.perm_ext_iff_of_nodup (uniqueCounts_nodup n l) hnd]
  intro a
  rw [uniqueCounts_fst]
  simp only [List.mem_filter, List.mem_range, decide_eq_true_eq]
  exact ⟨fun h => h.2, fun h => ⟨hv a h, h⟩⟩

theorem uniqueCounts_ones {n : Nat} {l : List Nat} (hnd : l.Nodup) : ∀ p ∈ uniqueCounts n l, p.2 = 1 := by
  intro p hp
  obtain ⟨_, h2, h3⟩ := mem_uniqueCounts.1 hp
  have h1 := (List.nodup_iff_count.1 hnd) p.1
  have h0 := List.count_pos_iff.2 h2
  omega

theorem sum_ones (l : List (Nat × Nat)) (h : ∀ p ∈ l, p.2 = 1) : (l.map (·.2)).sum = l.length := by
  induction l with
  | nil => simp
  | cons p l ih =>
    have := ih (fun q hq => h q (by simp [hq]))
    have hp := h p (by simp)
    simp only [List.map_cons, List.sum_cons, List.length_cons, this, hp]; omega

theorem weightsOf_ones (l : List (Nat × Nat)) (h : ∀ p ∈ l, p.2 = 1) :
    weightsOf l = (List.replicate l.length (1 : Rat)).map ((1 / (l.length : Rat)) * ·) := by
  simp only [weightsOf, sum_ones l h, List.map_replicate, mul_one]
  rw [List.eq_replicate_iff]
  refine ⟨by simp, ?_⟩
  intro w hw
  simp only [List.mem_map] at hw
  obtain ⟨p, hp, rfl⟩ := hw
  rw [h p hp]; simp

theorem zip_replicate_map {α : Type} (f : Nat → α) (l : List Nat) (c : Rat) :
    (List.replicate l.length c).zip (l.map f) = l.map (fun i => (c, f i)) := by
  induction l with
  | nil => simp
  | cons a l ih => simp [List.replicate_succ, ih]

/-- the hypothesis `hInit` of `C20_greedy_no_worse`, discharged: for distinct valid starting members the
weighted evaluation (unique members in index order, weights counts/total = 1/len) equals the
un-weighted evaluation in argsort order -/
theorem lossCounts_init (A : SymAgg X Out) (pred : Nat → Nat → X) (m : Nat) (loss : List Out → Rat)
    {n : Nat} {init : List Nat} (hnd : init.Nodup) (hv : ∀ a ∈ init, a < n) (hne : init ≠ []) :
    lossCounts A pred m loss (uniqueCounts n init) = lossNone A pred m loss init := by
  have hperm := uniqueCounts_perm hnd hv
  have hlen : (uniqueCounts n init).length = init.length := by simpa using hperm.length_eq
  have hpos : ((uniqueCounts n init).length : Rat) ≠ 0 := by
    rw [hlen]
    have : 0 < init.length := List.length_pos_iff.2 hne
    exact_mod_cast Nat.pos_iff_ne_zero.1 this
  unfold lossCounts lossNone ensPred
  congr 1
  apply List.map_congr_left
  intro j _
  rw [weightsOf_ones _ (uniqueCounts_ones hnd), A.scale _ (one_div_ne_zero hpos)]
  apply A.perm
  have e1 : (List.replicate (uniqueCounts n init).length (1 : Rat)).zip
      (((uniqueCounts n init).map (·.1)).map (fun i => pred i j)) =
      ((uniqueCounts n init).map (·.1)).map (fun i => ((1 : Rat), pred i j)) := by
    have := zip_replicate_map (fun i => pred i j) ((uniqueCounts n init).map (·.1)) 1
    simpa using this
  rw [e1, zip_replicate_map]
  exact hperm.map _

/-! ### EnsemblePredictor.predict -/

/-- `predict`: gather the members' predictions (in whatever order they complete), sort by job id,
aggregate with the ensemble's weights -/
def predictModel (A : SymAgg X Out) (ws : List Rat) (gathered : List (Nat × X)) : Out :=
  A.agg ws ((sortById gathered).map (·.2))

end DH.Select
