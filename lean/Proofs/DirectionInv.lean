import Proofs.DirectionPipe

/-! Helper lemmas for C05, part 4: invariance of the targets under a constant shift and a
positive rescaling of the objectives; single-objective scalers; aligned objectives as rays. -/

namespace DH.Direction

open List (Forall₂)

/-- add a constant vector to a row -/
def vadd (y c : Vec) : Vec := List.zipWith (· + ·) y c

/-! ### positive rescaling -/

theorem zipWith_rmin_smul {c : Rat} (hc : 0 < c) (a b : Vec) :
    List.zipWith rmin (smul c a) (smul c b) = smul c (List.zipWith rmin a b) := by
  induction a generalizing b with
  | nil => simp [smul]
  | cons x xs ih =>
    cases b with
    | nil => simp [smul]
    | cons y ys =>
      have := ih ys
      simp only [smul, List.map_cons, List.zipWith_cons_cons] at this ⊢
      rw [this, rmin_mul_of_pos hc]

theorem foldl_rmin_smul {c : Rat} (hc : 0 < c) (rs : List Vec) (acc : Vec) :
    (rs.map (smul c)).foldl (List.zipWith rmin) (smul c acc)
      = smul c (rs.foldl (List.zipWith rmin) acc) := by
  induction rs generalizing acc with
  | nil => rfl
  | cons r rs ih =>
    simp only [List.map_cons, List.foldl_cons, zipWith_rmin_smul hc]
    exact ih _

theorem colMin_smul {c : Rat} (hc : 0 < c) (rows : List Vec) :
    colMin (rows.map (smul c)) = (colMin rows).map (smul c) := by
  cases rows with
  | nil => rfl
  | cons r rs => simp only [List.map_cons, colMin, foldl_rmin_smul hc, Option.map_some]

theorem vsub_smul_both (c : Rat) (y u : Vec) : vsub (smul c y) (smul c u) = smul c (vsub y u) := by
  induction y generalizing u with
  | nil => simp [vsub, smul]
  | cons a as ih =>
    cases u with
    | nil => simp [vsub, smul]
    | cons b bs =>
      have := ih bs
      simp only [vsub, smul, List.map_cons, List.zipWith_cons_cons] at this ⊢
      rw [this]; congr 1; ring

theorem scalarize_smul (s : Strategy) (w u y : Vec) {c : Rat} (hc : 0 ≤ c) :
    scalarize s w (smul c u) (smul c y) = (scalarize s w u y).map (fun k => deg s c * k) := by
  unfold scalarize
  have h1 : (smul c y).length = y.length := by simp [smul]
  have h2 : (smul c u).length = u.length := by simp [smul]
  rw [h1, h2]
  split
  · rfl
  · rw [vsub_smul_both, core_smul s w _ hc]

theorem targetsOf_smul (s : Strategy) (w : Vec) (rows : List Vec) {c : Rat} (hc : 0 < c) :
    targetsOf s w (rows.map (smul c)) = (targetsOf s w rows).map (List.map (fun k => deg s c * k)) := by
  unfold targetsOf
  rw [colMin_smul hc]
  cases colMin rows with
  | none => rfl
  | some u =>
    simp only [Option.map_some]
    rw [mapOpt_map, ← mapOpt_map_out]
    apply mapOpt_congr
    intro y _
    exact scalarize_smul s w u y (le_of_lt hc)

/-! ### constant shift -/

theorem zipWith_rmin_vadd : ∀ (a b c : Vec), a.length = c.length → b.length = c.length →
    List.zipWith rmin (vadd a c) (vadd b c) = vadd (List.zipWith rmin a b) c
  | [], [], [], _, _ => rfl
  | _ :: _, _, [], h, _ => by simp at h
  | [], _, _ :: _, h, _ => by simp at h
  | _, [], _ :: _, _, h => by simp at h
  | _, _ :: _, [], _, h => by simp at h
  | x :: xs, y :: ys, z :: zs, h1, h2 => by
    have := zipWith_rmin_vadd xs ys zs (by simpa using h1) (by simpa using h2)
    simp only [vadd, List.zipWith_cons_cons] at this ⊢
    rw [this, rmin_add]

theorem foldl_rmin_vadd (c : Vec) (rs : List Vec) (acc : Vec) (hacc : acc.length = c.length)
    (hrs : ∀ r ∈ rs, r.length = c.length) :
    (rs.map (fun r => vadd r c)).foldl (List.zipWith rmin) (vadd acc c)
      = vadd (rs.foldl (List.zipWith rmin) acc) c := by
  induction rs generalizing acc with
  | nil => rfl
  | cons r rs ih =>
    have hr := hrs r (by simp)
    simp only [List.map_cons, List.foldl_cons, zipWith_rmin_vadd acc r c hacc hr]
    exact ih _ (by simp [hacc, hr]) (fun x hx => hrs x (by simp [hx]))

theorem colMin_vadd (c : Vec) (rows : List Vec) (h : ∀ r ∈ rows, r.length = c.length) :
    colMin (rows.map (fun r => vadd r c)) = (colMin rows).map (fun u => vadd u c) := by
  cases rows with
  | nil => rfl
  | cons r rs =>
    simp only [List.map_cons, colMin, Option.map_some]
    rw [foldl_rmin_vadd c rs r (h r (by simp)) (fun x hx => h x (by simp [hx]))]

theorem vsub_vadd : ∀ (y u c : Vec), y.length = c.length → u.length = c.length →
    vsub (vadd y c) (vadd u c) = vsub y u
  | [], [], [], _, _ => rfl
  | _ :: _, _, [], h, _ => by simp at h
  | [], _, _ :: _, h, _ => by simp at h
  | _, [], _ :: _, _, h => by simp at h
  | _, _ :: _, [], _, h => by simp at h
  | x :: xs, y :: ys, z :: zs, h1, h2 => by
    have := vsub_vadd xs ys zs (by simpa using h1) (by simpa using h2)
    simp only [vsub, vadd, List.zipWith_cons_cons] at this ⊢
    rw [this]; congr 1; ring

theorem scalarize_vadd (s : Strategy) (w u y c : Vec) (hy : y.length = c.length)
    (hu : u.length = c.length) :
    scalarize s w (vadd u c) (vadd y c) = scalarize s w u y := by
  unfold scalarize
  have h1 : (vadd y c).length = y.length := by simp [vadd, hy]
  have h2 : (vadd u c).length = u.length := by simp [vadd, hu]
  rw [h1, h2, vsub_vadd y u c hy hu]

theorem targetsOf_vadd (s : Strategy) (w c : Vec) (rows : List Vec)
    (h : ∀ r ∈ rows, r.length = c.length) :
    targetsOf s w (rows.map (fun r => vadd r c)) = targetsOf s w rows := by
  unfold targetsOf
  rw [colMin_vadd c rows h]
  cases hu : colMin rows with
  | none => rfl
  | some u =>
    simp only [Option.map_some]
    rw [mapOpt_map]
    apply mapOpt_congr
    intro y hy
    exact scalarize_vadd s w u y c (h y hy) (colMin_le hu c.length h).1

/-! ### single objective: one column -/

theorem flatten_map_singleton (f : Rat → Rat) (l : Vec) :
    List.flatten (l.map (fun y => [f y])) = l.map f := by
  induction l with
  | nil => rfl
  | cons a as ih => simp only [List.map_cons, List.flatten_cons, ih]; rfl

theorem flatten_map_nil (l : Vec) : List.flatten (l.map (fun _ => ([] : Vec))) = [] := by
  induction l with
  | nil => rfl
  | cons a as ih => simp only [List.map_cons, List.flatten_cons, ih]; rfl

/-- the single-objective targets are the told values mapped by a strictly increasing function
(or nothing at all) for the two exactly modelled scalers -/
theorem singleTargets_form (sc : Scaler) (hsc : sc = .identity ∨ sc = .minmax) (told T : Vec)
    (hT : singleTargets sc told = some T) :
    T = [] ∨ ∃ s o : Rat, 0 < s ∧ T = told.map (fun y => y * s + o) := by
  rcases hsc with rfl | rfl
  · right
    refine ⟨1, 0, by norm_num, ?_⟩
    simp only [singleTargets, applyScaler, scaleIdentity, Option.map_some, Option.some.injEq] at hT
    subst hT
    have := flatten_map_singleton (fun y => y * 1 + 0) told
    simp only [mul_one, add_zero] at this ⊢
    rw [this]
  · simp only [singleTargets, applyScaler] at hT
    cases hsm : scaleMinMax (told.map (fun y => [y])) with
    | none => simp [hsm] at hT
    | some scaled =>
      simp only [hsm, Option.map_some, Option.some.injEq] at hT
      subst hT
      obtain ⟨sc, off, hpos, rfl⟩ := scaleMinMax_affine hsm
      rw [List.map_map]
      cases sc with
      | nil =>
        left
        have : (affRow [] off ∘ fun y => [y]) = fun _ => ([] : Vec) := by
          funext y; simp [affRow]
        rw [this]; exact flatten_map_nil told
      | cons s ss =>
        cases off with
        | nil =>
          left
          have : (affRow (s :: ss) [] ∘ fun y => [y]) = fun _ => ([] : Vec) := by
            funext y; simp [affRow]
          rw [this]; exact flatten_map_nil told
        | cons o os =>
          right
          refine ⟨s, o, hpos s (by simp), ?_⟩
          have : (affRow (s :: ss) (o :: os) ∘ fun y => [y]) = fun y => [y * s + o] := by
            funext y; simp [affRow]
          rw [this]; exact flatten_map_singleton _ told

/-! ### affinely aligned objectives are rays -/

/-- objectives of a candidate of score `x`: objective `c` is `λ_c · x + k_c` -/
def alignedObj (cols : List (Rat × Rat)) (x : Rat) : Vec := cols.map (fun p => p.1 * x + p.2)

/-- what `CBO._tell` hands over for a numeric tuple -/
def negV (v : Vec) : Vec := v.map (fun x => -x)

/-- `(a_c, d_c) = (−k_c, λ_c)`: the told row of score `x` is the ray at parameter `−x` -/
def alignedAD (cols : List (Rat × Rat)) : List (Rat × Rat) := cols.map (fun p => (-p.2, p.1))

theorem told_aligned_ray (cols : List (Rat × Rat)) (x : Rat) :
    negV (alignedObj cols x) = ray (alignedAD cols) (-x) := by
  simp only [negV, alignedObj, ray, alignedAD, List.map_map]
  apply List.map_congr_left
  intro p _
  simp only [Function.comp]; ring

theorem alignedAD_pos (cols : List (Rat × Rat)) (h : ∀ p ∈ cols, 0 < p.1) :
    ∀ q ∈ alignedAD cols, 0 < q.2 := by
  intro q hq
  rcases List.mem_map.1 hq with ⟨p, hp, rfl⟩
  exact h p hp

theorem acqLCB_zero (mu sd : Vec) (h : sd.length = mu.length) : acqLCB 0 mu sd = mu := by
  induction mu generalizing sd with
  | nil => simp [acqLCB]
  | cons m ms ih =>
    cases sd with
    | nil => simp at h
    | cons s ss =>
      have := ih ss (by simpa using h)
      simp only [acqLCB, List.zipWith_cons_cons] at this ⊢
      rw [this]; congr 1; ring

end DH.Direction
