import Proofs.SpaceSpec
import Model.Sampling

/-! Helper lemmas for C10: conversion, support of the samplers, pre-images. -/

namespace DH.Space

/-! ### conversion -/

/-- what `convert_to_skopt_dim` must keep of a hyperparameter: name, kind, bounds, log flag,
choices in order, weights -/
def Preserves : CsHp → SkoptDim → Prop
  | .uniformInt n lo hi log, d =>
    d.name = n ∧ ∃ tr, d.dim = .int lo hi (if log then .logUniform else .uniform) tr
  | .uniformFloat n lo hi log, d =>
    d.name = n ∧ ∃ tr, d.dim = .real lo hi (if log then .logUniform else .uniform) tr
  | .categorical n ch w, d => d.name = n ∧ d.prior = w ∧ ∃ tr, d.dim = .cat ch tr
  | .ordinal n seq, d => d.name = n ∧ d.prior = none ∧ ∃ tr, d.dim = .cat seq tr
  | .constant n v, d => d.name = n ∧ d.prior = none ∧ ∃ tr, d.dim = .cat [v] tr
  | .other _, _ => False

def AllPreserve : List CsHp → List SkoptDim → Prop
  | [], [] => True
  | h :: hs, d :: ds => Preserves h d ∧ AllPreserve hs ds
  | _, _ => False

theorem toSkoptDim_preserves (h : CsHp) (sur : String) (d : SkoptDim)
    (hd : toSkoptDim h sur = .ok d) : Preserves h d ∧ d.name = h.name := by
  cases h <;> simp [toSkoptDim] at hd
  all_goals subst hd
  all_goals simp [Preserves, CsHp.name]

theorem mapC_toSkoptDim (sur : String) : ∀ (hps : List CsHp) (dims : List SkoptDim),
    mapC (fun h => toSkoptDim h sur) hps = .ok dims →
    AllPreserve hps dims ∧ dims.map (·.name) = hps.map CsHp.name
  | [], dims, h => by
    simp [mapC] at h; subst h; exact ⟨trivial, rfl⟩
  | hp :: hps, dims, h => by
    simp only [mapC] at h
    cases h1 : toSkoptDim hp sur with
    | error e => simp [h1] at h
    | ok d =>
      cases h2 : mapC (fun h => toSkoptDim h sur) hps with
      | error e => simp [h1, h2] at h
      | ok ds =>
        simp [h1, h2] at h
        subst h
        obtain ⟨ih1, ih2⟩ := mapC_toSkoptDim sur hps ds h2
        obtain ⟨p1, p2⟩ := toSkoptDim_preserves hp sur d h1
        exact ⟨⟨p1, ih1⟩, by simp [p2, ih2]⟩

/-! ### support -/

theorem sampleDim_member (L E : Rat → Rat) (d : Dim) (hwf : d.wf = true) (prior : Option (List Rat))
    (w : Draw) (v : Val) (h : sampleDim L E d prior w = .ok v) : memDim d v = true := by
  cases d with
  | cat cs t =>
    simp only [sampleDim] at h
    cases w with
    | r k => simp at h
    | u q s =>
      simp only at h
      split at h
      · rename_i x hx
        simp at h; subst h
        simp [memDim, List.mem_of_getElem? hx]
      · simp at h
  | real lo hi p t =>
    simp only [sampleDim] at h
    cases hr : rvsTransformed L (.real lo hi p t) w with
    | error e => simp [hr] at h
    | ok x =>
      simp only [hr] at h
      cases hi' : (Dim.real lo hi p t).inverseTransform L E (.vals [.num x]) with
      | error e => simp [hi'] at h
      | ok col =>
        simp only [hi'] at h
        match col, h, hi' with
        | [v'], h, hi' =>
          simp at h; subst h
          exact dim_inverse_member L E _ hwf rfl _ _ hi' v' (by simp)
        | [], h, _ => simp at h
        | _ :: _ :: _, h, _ => simp at h
  | int lo hi p t =>
    simp only [sampleDim] at h
    cases hr : rvsTransformed L (.int lo hi p t) w with
    | error e => simp [hr] at h
    | ok x =>
      simp only [hr] at h
      cases hi' : (Dim.int lo hi p t).inverseTransform L E (.vals [.num x]) with
      | error e => simp [hi'] at h
      | ok col =>
        simp only [hi'] at h
        match col, h, hi' with
        | [v'], h, hi' =>
          simp at h; subst h
          exact dim_inverse_member L E _ hwf rfl _ _ hi' v' (by simp)
        | [], h, _ => simp at h
        | _ :: _ :: _, h, _ => simp at h

/-- what a one-element inverse returns for the four numeric pipelines (used for the laws) -/
theorem inverse_single_real (L E : Rat → Rat) (lo hi : Rat) (p : Prior) (t : NumTr) (x y : Rat)
    (h : ((Dim.real lo hi p t).transformer L).inverse E (.vals [.num x]) = .ok (.vals [.num y])) :
    (Dim.real lo hi p t).inverseTransform L E (.vals [.num x]) = .ok [.num (clip lo hi y)] := by
  have := inverseTransform_real L E lo hi p t (.vals [.num x]) [y] (by simpa using h)
  simpa using this

theorem inverse_single_int (L E : Rat → Rat) (lo hi : Int) (p : Prior) (t : NumTr) (x : Rat) (v : Val)
    (y : Rat) (hv : v.toRat? = some y)
    (h : ((Dim.int lo hi p t).transformer L).inverse E (.vals [.num x]) = .ok (.vals [v])) :
    (Dim.int lo hi p t).inverseTransform L E (.vals [.num x]) =
      .ok [.int (roundHalfEven (clip (lo : Rat) (hi : Rat) y))] := by
  have hn : nums .typeError [v] = .ok [y] := by
    simp [nums, mapE, numCell, hv]
  have := inverseTransform_int L E lo hi p t (.vals [.num x]) [v] [y] h hn
  simpa using this

/-! ### uniform integers: the sampler is the identity on the draw range -/

theorem sample_int_uniform (L E : Rat → Rat) (lo hi : Int) (t : NumTr) (hlt : lo < hi)
    (prior : Option (List Rat)) (k : Int) (hk : lo ≤ k ∧ k ≤ hi) :
    sampleDim L E (.int lo hi .uniform t) prior (.r k) = .ok (.int k) := by
  have hq : (lo : Rat) < (hi : Rat) := by exact_mod_cast hlt
  have h1 : (lo : Rat) ≤ (k : Rat) := by exact_mod_cast hk.1
  have h2 : (k : Rat) ≤ (hi : Rat) := by exact_mod_cast hk.2
  cases t
  · -- identity
    have ht : ((Dim.int lo hi .uniform .identity).transformer L).inverse E (.vals [.num (k : Rat)]) =
        .ok (.vals [.num (k : Rat)]) := runInverse_one E _ _ _ (identity_inverse E _)
    have := inverse_single_int L E lo hi .uniform .identity (k : Rat) (.num (k : Rat)) (k : Rat) rfl ht
    simp [sampleDim, rvsTransformed, this, clip_id _ _ _ h1 h2, roundHalfEven_intCast]
  · -- normalize: (k - lo)/(hi - lo) comes back as k
    have hr := norm_range (k : Rat) lo hi hq h1 h2
    have hn := normalize_inverse E (lo : Rat) (hi : Rat) true [((k : Rat) - lo) / (hi - lo)] (by
      intro x hx; simp at hx; subst hx; exact hr)
    simp only [List.map_cons, List.map_nil, if_true, norm_denorm (k : Rat) lo hi hq,
      roundHalfEven_intCast] at hn
    have ht : ((Dim.int lo hi .uniform .normalize).transformer L).inverse E
        (.vals [.num (((k : Rat) - lo) / (hi - lo))]) = .ok (.vals [.int k]) :=
      runInverse_two E _ _ _ _ _ hn (identity_inverse E _)
    have := inverse_single_int L E lo hi .uniform .normalize _ (.int k) (k : Rat) rfl ht
    simp [sampleDim, rvsTransformed, this, clip_id _ _ _ h1 h2, roundHalfEven_intCast]

/-! ### categorical: inverse CDF -/

theorem firstGe_ge (q : Rat) : ∀ (cs : List Rat) (i k : Nat), firstGe q i cs = some k → i ≤ k
  | [], _, _, h => by simp [firstGe] at h
  | c :: cs, i, k, h => by
    simp only [firstGe] at h
    split at h
    · simp at h; omega
    · have := firstGe_ge q cs (i + 1) k h; omega

/-- `firstGe` returns `i + j` exactly when entry `j` is the first one `≥ q` -/
theorem firstGe_spec (q : Rat) : ∀ (cs : List Rat) (i j : Nat),
    firstGe q i cs = some (i + j) ↔
      (∃ c, cs[j]? = some c ∧ q ≤ c) ∧ ∀ j', j' < j → ∀ c, cs[j']? = some c → c < q
  | [], i, j => by simp [firstGe]
  | c :: cs, i, j => by
    simp only [firstGe]
    by_cases hq : q ≤ c
    · simp only [if_pos hq]
      constructor
      · intro h
        have : j = 0 := by simp at h; omega
        subst this
        exact ⟨⟨c, by simp, hq⟩, by intro j' hj'; omega⟩
      · intro ⟨_, h2⟩
        cases j with
        | zero => rfl
        | succ j =>
          have := h2 0 (by omega) c (by simp)
          exact absurd hq (not_le.mpr this)
    · simp only [if_neg hq]
      cases j with
      | zero =>
        constructor
        · intro h
          have := firstGe_ge q cs (i + 1) (i + 0) h
          omega
        · intro ⟨⟨c', hc', hq'⟩, _⟩
          simp at hc'; subst hc'
          exact absurd hq' hq
      | succ j =>
        have ih := firstGe_spec q cs (i + 1) j
        have e : i + 1 + j = i + (j + 1) := by omega
        rw [e] at ih
        rw [ih]
        constructor
        · intro ⟨⟨c', hc', hq'⟩, h2⟩
          refine ⟨⟨c', by simpa using hc', hq'⟩, ?_⟩
          intro j' hj' c'' hc''
          cases j' with
          | zero => simp at hc''; subst hc''; exact not_le.mp hq
          | succ j' => exact h2 j' (by omega) c'' (by simpa using hc'')
        · intro ⟨⟨c', hc', hq'⟩, h2⟩
          refine ⟨⟨c', by simpa using hc', hq'⟩, ?_⟩
          intro j' hj' c'' hc''
          exact h2 (j' + 1) (by omega) c'' (by simpa using hc'')

/-- the cumulative weight after `k` categories -/
def cumAt (prior : List Rat) (k : Nat) : Rat := (prior.take k).sum

theorem cumsum_getElem? : ∀ (prior : List Rat) (acc : Rat) (j : Nat), j < prior.length →
    (cumsum acc prior)[j]? = some (acc + cumAt prior (j + 1))
  | [], _, _, h => by simp at h
  | p :: ps, acc, 0, _ => by simp [cumsum, cumAt]
  | p :: ps, acc, j + 1, h => by
    have := cumsum_getElem? ps (acc + p) j (by simpa using h)
    simp only [cumsum, List.getElem?_cons_succ, this, cumAt, List.take_succ_cons, List.sum_cons]
    congr 1
    ring

theorem cumsum_length : ∀ (prior : List Rat) (acc : Rat), (cumsum acc prior).length = prior.length
  | [], _ => rfl
  | p :: ps, acc => by simp [cumsum, cumsum_length ps]

theorem cumAt_mono (prior : List Rat) (hnn : ∀ p ∈ prior, 0 ≤ p) :
    ∀ (a b : Nat), a ≤ b → cumAt prior a ≤ cumAt prior b := by
  intro a b hab
  induction b with
  | zero =>
    have : a = 0 := by omega
    subst this; exact le_refl _
  | succ b ih =>
    rcases Nat.lt_or_ge a (b + 1) with h | h
    · have h1 := ih (by omega)
      refine le_trans h1 ?_
      unfold cumAt
      by_cases hb : b < prior.length
      · rw [List.take_succ_eq_append_getElem hb, List.sum_append]
        have := hnn prior[b] (List.getElem_mem hb)
        simp; exact this
      · rw [List.take_of_length_le (by omega), List.take_of_length_le (by omega)]
    · have : a = b + 1 := by omega
      subst this; exact le_refl _

/-- **inverse CDF**: with non-negative weights, category `k` is drawn exactly for
`cum(k) < u ≤ cum(k+1)`: an interval whose length is the weight of the category -/
theorem ppfIdx_eq_iff (prior : List Rat) (hnn : ∀ p ∈ prior, 0 ≤ p) (u : Rat) (k : Nat)
    (hk : k < prior.length) (hu : 0 < u) :
    (firstGe u 0 (cumsum 0 prior) = some k) ↔ cumAt prior k < u ∧ u ≤ cumAt prior (k + 1) := by
  have hs := firstGe_spec u (cumsum 0 prior) 0 k
  rw [Nat.zero_add] at hs
  rw [hs]
  constructor
  · intro ⟨⟨c, hc, hq⟩, h2⟩
    rw [cumsum_getElem? prior 0 k hk] at hc
    simp at hc; subst hc
    refine ⟨?_, by simpa using hq⟩
    cases k with
    | zero => simpa [cumAt] using hu
    | succ k =>
      have := h2 k (by omega) _ (cumsum_getElem? prior 0 k (by omega))
      simpa using this
  · intro ⟨h1, h2⟩
    refine ⟨⟨_, cumsum_getElem? prior 0 k hk, by simpa using h2⟩, ?_⟩
    intro j' hj' c hc
    rw [cumsum_getElem? prior 0 j' (by omega)] at hc
    simp at hc; subst hc
    exact lt_of_le_of_lt (cumAt_mono prior hnn (j' + 1) k (by omega)) h1

theorem cumAt_succ (prior : List Rat) (k : Nat) (hk : k < prior.length) :
    cumAt prior (k + 1) = cumAt prior k + prior[k] := by
  unfold cumAt
  rw [List.take_succ_eq_append_getElem hk, List.sum_append]
  simp

theorem firstGe_none (q : Rat) : ∀ (cs : List Rat) (i : Nat), firstGe q i cs = none → ∀ c ∈ cs, c < q
  | [], _, _ => by simp
  | c :: cs, i, h => by
    simp only [firstGe] at h
    split at h
    · simp at h
    · rename_i hq
      intro c' hc'
      rcases List.mem_cons.mp hc' with rfl | hc'
      · exact not_le.mp hq
      · exact firstGe_none q cs (i + 1) h c' hc'

theorem inactiveValue_member (d : Dim) (hwf : d.wf = true) (v : Val) (h : inactiveValue d = some v) :
    memDim d v = true := by
  cases d with
  | real lo hi p t =>
    simp [inactiveValue] at h; subst h
    simp [Dim.wf] at hwf
    simp [memDim, le_of_lt hwf.1]
  | int lo hi p t =>
    simp [inactiveValue] at h; subst h
    simp [Dim.wf] at hwf
    simp [memDim, Int.le_of_lt hwf.1]
  | cat cs t =>
    cases cs with
    | nil => simp [inactiveValue] at h
    | cons c rest =>
      simp [inactiveValue] at h; subst h
      simp [memDim]

theorem confCell_member (conf : List (String × Val)) (d : SkoptDim) (hwf : d.dim.wf = true)
    (hconf : ∀ v, conf.lookup d.name = some v → memDim d.dim v = true) (v : Val)
    (h : confCell conf d = .ok v) : memDim d.dim v = true := by
  unfold confCell at h
  cases hl : conf.lookup d.name with
  | some x =>
    simp [hl] at h; subst h
    exact hconf x hl
  | none =>
    simp only [hl] at h
    cases hi : inactiveValue d.dim with
    | none => simp [hi] at h
    | some x =>
      simp [hi] at h; subst h
      exact inactiveValue_member d.dim hwf x hi

/-! ### clip under strictly monotone `L` -/

/-- `L` strictly monotone on the positives -/
def StrictMonoOn (L : Rat → Rat) : Prop := ∀ x y : Rat, 0 < x → x < y → L x < L y

/-- `E` is a right inverse of `L` on `[a, b]` and produces positive numbers there -/
def RightInvOn (L E : Rat → Rat) (a b : Rat) : Prop := ∀ t : Rat, a ≤ t → t ≤ b → L (E t) = t ∧ 0 < E t

theorem E_in_range (L E : Rat → Rat) (hS : StrictMonoOn L) (lo hi : Rat) (hpos : 0 < lo) (hlh : lo ≤ hi)
    (hR : RightInvOn L E (L lo) (L hi)) (t : Rat) (h1 : L lo ≤ t) (h2 : t ≤ L hi) :
    lo ≤ E t ∧ E t ≤ hi := by
  obtain ⟨hLE, hEpos⟩ := hR t h1 h2
  constructor
  · by_contra hc
    have := hS (E t) lo hEpos (not_le.mp hc)
    rw [hLE] at this
    exact absurd h1 (not_le.mpr this)
  · by_contra hc
    have := hS hi (E t) (lt_of_lt_of_le hpos hlh) (not_le.mp hc)
    rw [hLE] at this
    exact absurd h2 (not_le.mpr this)

end DH.Space
