import Proofs.Ask
import Proofs.AskTotal
import Proofs.Membership

/-!
# Glue: the declared space of `Model/Membership.lean` as the `Ops` of `Model/Ask.lean`,
and the decidable form of the C08 freshness predicate (the checker the harness runs).
-/

namespace DH.Mem

open DH.Ask

/-- the search space of a declared problem as `Optimizer` uses it -/
def memOps (ne : NumEnv) (d : Decl) : Ops Config (List Slice) :=
  { tr := tr ne d, fin := fin ne d, accept := checkXInSpace d }

theorem memOps_ok (ne : NumEnv) (d : Decl) (hw : d.wfAll = true) :
    SpaceOK (fun x => memSpace d x = true) (Tok ne d) (memOps ne d) := by
  have hw1 : d.wf = true := by
    simp only [Decl.wfAll, Bool.and_eq_true] at hw; exact hw.1
  exact ⟨fun _ _ htok h => fin_mem hw1 htok h, fun _ hc => tr_tok hw hc⟩

/-- a freshly set-up optimizer: nothing computed or cached yet -/
def Fresh (c : Cbo Config) : Prop :=
  c.opt.nextX = none ∧ c.opt.last = none ∧ c.opt.cache = none

end DH.Mem

namespace DH.Ask

variable {α : Type} [DecidableEq α]

theorem selsOKb_iff : ∀ (H : List α) (Z : List (Sel α)),
    selsOKb H Z = true ↔ SelsOK (fun _ => True) H Z
  | _, [] => by simp [selsOKb, SelsOK]
  | H, z :: zs => by
    simp only [selsOKb, SelsOK, SelOK, Bool.and_eq_true, Bool.or_eq_true, Bool.not_eq_true',
      decide_eq_false_iff_not, List.all_eq_true, decide_eq_true_eq, true_and, selsOKb_iff]
    constructor
    · rintro ⟨h1, h2⟩
      refine ⟨Or.inr (fun hx => ?_), h2⟩
      rcases h1 with h1 | h1
      · exact absurd hx h1
      · exact h1
    · rintro ⟨h1, h2⟩
      refine ⟨?_, h2⟩
      by_cases hx : z.x ∈ H
      · rcases h1 with ⟨_, h1⟩ | h1
        · exact absurd hx h1
        · exact Or.inr (h1 hx)
      · exact Or.inl hx

end DH.Ask
