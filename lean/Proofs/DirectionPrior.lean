import Proofs.DirectionBatch

/-! Helper lemmas for C05, part 11: the selection rule of `update_prior=True` (`np.quantile`, `y <= quantile`). -/

namespace DH.Direction

/-! ### ascending order -/

theorem insertAsc_perm (a : Rat) : ∀ l : Vec, (insertAsc a l).Perm (a :: l)
  | [] => List.Perm.refl _
  | b :: l => by
    simp only [insertAsc]
    split
    · exact List.Perm.refl _
    · exact ((insertAsc_perm a l).cons b).trans (List.Perm.swap a b l)

theorem sortAsc_perm : ∀ l : Vec, (sortAsc l).Perm l
  | [] => List.Perm.refl _
  | a :: l => (insertAsc_perm a (sortAsc l)).trans ((sortAsc_perm l).cons a)

theorem insertAsc_pairwise (a : Rat) : ∀ l : Vec, l.Pairwise (· ≤ ·) → (insertAsc a l).Pairwise (· ≤ ·)
  | [], _ => by simp [insertAsc]
  | b :: l, h => by
    simp only [insertAsc]
    split
    · rename_i hab
      refine List.Pairwise.cons ?_ h
      intro x hx
      rcases List.mem_cons.mp hx with rfl | hx
      · exact hab
      · exact Rat.le_trans hab ((List.pairwise_cons.mp h).1 x hx)
    · rename_i hab
      have hba : b ≤ a := by linarith
      refine List.Pairwise.cons ?_ (insertAsc_pairwise a l (List.pairwise_cons.mp h).2)
      intro x hx
      rcases List.mem_cons.mp ((insertAsc_perm a l).mem_iff.mp hx) with rfl | hx'
      · exact hba
      · exact (List.pairwise_cons.mp h).1 x hx'

theorem sortAsc_pairwise : ∀ l : Vec, (sortAsc l).Pairwise (· ≤ ·)
  | [] => List.Pairwise.nil
  | a :: l => insertAsc_pairwise a _ (sortAsc_pairwise l)

theorem sortAsc_length (l : Vec) : (sortAsc l).length = l.length := (sortAsc_perm l).length_eq

theorem sortAsc_le {l : Vec} {i j : Nat} {a b : Rat} (hij : i ≤ j) (ha : (sortAsc l)[i]? = some a)
    (hb : (sortAsc l)[j]? = some b) : a ≤ b := by
  rcases Nat.lt_or_eq_of_le hij with hlt | rfl
  · have hj : j < (sortAsc l).length := by
      rcases Nat.lt_or_ge j (sortAsc l).length with h | h
      · exact h
      · rw [List.getElem?_eq_none h] at hb; cases hb
    have hi : i < (sortAsc l).length := by omega
    rw [List.getElem?_eq_getElem hi] at ha
    rw [List.getElem?_eq_getElem hj] at hb
    cases ha; cases hb
    exact (List.pairwise_iff_getElem.mp (sortAsc_pairwise l)) i j hi hj hlt
  · rw [ha] at hb; cases hb; exact Rat.le_refl

/-! ### `np.quantile`, method "linear" -/

/-- what a defined quantile looks like: position `lo = ⌊(n-1)q⌋` of the ascending order exists, the quantile is at
least the value there and — when there is a next value — at most that one, strictly below it if the two differ -/
theorem quantileLin_spec {y : Vec} {q t : Rat} (h : quantileLin y q = some t) :
    0 < y.length ∧ 0 ≤ q ∧ q ≤ 1 ∧
    ∃ a, (sortAsc y)[((((sortAsc y).length : Rat) - 1) * q).floor.toNat]? = some a ∧ a ≤ t ∧
      (∀ b, (sortAsc y)[((((sortAsc y).length : Rat) - 1) * q).floor.toNat + 1]? = some b → t ≤ b ∧ (a < b → t < b)) ∧
      ((sortAsc y)[((((sortAsc y).length : Rat) - 1) * q).floor.toNat + 1]? = none → t = a) := by
  unfold quantileLin at h
  simp only at h
  split at h
  · cases h
  · rename_i hc
    have hc' : ¬ (sortAsc y).length = 0 ∧ ¬ q < 0 ∧ ¬ 1 < q := by
      refine ⟨fun h0 => hc (Or.inl h0), fun h0 => hc (Or.inr (Or.inl h0)), fun h0 => hc (Or.inr (Or.inr h0))⟩
    obtain ⟨hn, hq0, hq1⟩ := hc'
    have hq0' : 0 ≤ q := by linarith [Rat.not_lt.mp hq0]
    have hq1' : q ≤ 1 := Rat.not_lt.mp hq1
    have hlen : 0 < y.length := by rw [← sortAsc_length]; omega
    refine ⟨hlen, hq0', hq1', ?_⟩
    -- the virtual position and its fractional part
    have hn1 : (1 : Rat) ≤ ((sortAsc y).length : Rat) := by
      have : 1 ≤ (sortAsc y).length := by omega
      exact_mod_cast this
    have hh0 : 0 ≤ (((sortAsc y).length : Rat) - 1) * q := by
      apply Rat.mul_nonneg <;> linarith
    have hfl0 : 0 ≤ ((((sortAsc y).length : Rat) - 1) * q).floor := by
      rw [Rat.le_floor_iff]; simpa using hh0
    have hcast : ((((((sortAsc y).length : Rat) - 1) * q).floor.toNat : Nat) : Rat)
        = ((((((sortAsc y).length : Rat) - 1) * q).floor : Int) : Rat) := by
      have : (((((sortAsc y).length : Rat) - 1) * q).floor.toNat : Int) = ((((sortAsc y).length : Rat) - 1) * q).floor :=
        Int.toNat_of_nonneg hfl0
      exact_mod_cast this
    have hg0 : 0 ≤ (((sortAsc y).length : Rat) - 1) * q - ((((((sortAsc y).length : Rat) - 1) * q).floor.toNat : Nat) : Rat) := by
      rw [hcast]; linarith [Rat.floor_le ((((sortAsc y).length : Rat) - 1) * q)]
    have hg1 : (((sortAsc y).length : Rat) - 1) * q - ((((((sortAsc y).length : Rat) - 1) * q).floor.toNat : Nat) : Rat) < 1 := by
      rw [hcast]
      have := Rat.lt_floor_add_one ((((sortAsc y).length : Rat) - 1) * q)
      push_cast at this
      linarith
    split at h
    · rename_i a b ha hb
      cases h
      have hab : a ≤ b := sortAsc_le (Nat.le_succ _) ha hb
      refine ⟨a, ha, ?_, ?_, ?_⟩
      · nlinarith
      · intro b' hb'
        rw [hb] at hb'; cases hb'
        refine ⟨by nlinarith, fun hlt => by nlinarith⟩
      · intro hnone; rw [hb] at hnone; cases hnone
    · rename_i a ha hb
      cases h
      exact ⟨t, ha, Rat.le_refl, (fun b hb' => by rw [hb] at hb'; cases hb'), fun _ => rfl⟩
    · cases h

/-! ### the mask `y <= quantile` -/

theorem priorMask_getElem? {q : Rat} {y : Vec} {m : List Bool} (h : priorMask q y = some m) :
    ∃ t, quantileLin y q = some t ∧ m.length = y.length ∧
      ∀ (i : Nat) (b : Bool), m[i]? = some b ↔ ∃ v, y[i]? = some v ∧ b = decide (v ≤ t) := by
  unfold priorMask at h
  cases hq : quantileLin y q with
  | none => rw [hq] at h; cases h
  | some t =>
    rw [hq] at h
    simp only [Option.map_some, Option.some.injEq] at h
    subst h
    refine ⟨t, rfl, by simp, ?_⟩
    intro i b
    simp only [List.getElem?_map, Option.map_eq_some_iff]
    constructor
    · rintro ⟨v, hv, rfl⟩; exact ⟨v, hv, rfl⟩
    · rintro ⟨v, hv, rfl⟩; exact ⟨v, hv, rfl⟩

/-- the quantile is at least the smallest value: the best observation is always kept -/
theorem quantileLin_ge_min {y : Vec} {q t v : Rat} (h : quantileLin y q = some t) (hv : ∀ w ∈ y, v ≤ w) : v ≤ t := by
  obtain ⟨_, _, _, a, ha, hat, _, _⟩ := quantileLin_spec h
  have : a ∈ y := (sortAsc_perm y).mem_iff.mp (List.mem_of_getElem? ha)
  exact Rat.le_trans (hv a this) hat

/-- distinct values: exactly `⌊(n-1)q⌋ + 1` of them are `<=` the quantile -/
theorem quantileLin_count {y : Vec} {q t : Rat} (h : quantileLin y q = some t) (hnd : y.Nodup) :
    y.countP (fun v => decide (v ≤ t)) = ((((y.length : Rat) - 1) * q).floor.toNat) + 1 := by
  obtain ⟨_, _, _, a, ha, hat, hnext, hlast⟩ := quantileLin_spec h
  rw [sortAsc_length] at ha hnext hlast
  generalize hlo : ((((y.length : Rat) - 1) * q).floor.toNat) = lo at ha hnext hlast ⊢
  rw [← (sortAsc_perm y).countP_eq]
  have hsnd : (sortAsc y).Nodup := (sortAsc_perm y).nodup_iff.mpr hnd
  have hlolt : lo < (sortAsc y).length := by
    rcases Nat.lt_or_ge lo (sortAsc y).length with h' | h'
    · exact h'
    · rw [List.getElem?_eq_none h'] at ha; cases ha
  rw [← List.take_append_drop (lo + 1) (sortAsc y), List.countP_append]
  have h1 : (List.take (lo + 1) (sortAsc y)).countP (fun v => decide (v ≤ t)) = lo + 1 := by
    rw [List.countP_eq_length.mpr]
    · rw [List.length_take]; omega
    · intro x hx
      obtain ⟨i, hi, rfl⟩ := List.mem_iff_getElem.mp hx
      rw [List.length_take] at hi
      have hi' : i < (sortAsc y).length := by omega
      have hil : i ≤ lo := by omega
      rw [List.getElem_take]
      have := sortAsc_le (l := y) hil (List.getElem?_eq_getElem hi') ha
      simpa using Rat.le_trans this hat
  have h2 : (List.drop (lo + 1) (sortAsc y)).countP (fun v => decide (v ≤ t)) = 0 := by
    rw [List.countP_eq_zero]
    intro x hx
    obtain ⟨i, hi, rfl⟩ := List.mem_iff_getElem.mp hx
    rw [List.length_drop] at hi
    have hi' : lo + 1 + i < (sortAsc y).length := by omega
    rw [List.getElem_drop]
    have hlo1 : lo + 1 < (sortAsc y).length := by omega
    have hb := List.getElem?_eq_getElem hlo1
    obtain ⟨_, hstrict⟩ := hnext _ hb
    -- strictly increasing: the value after position `lo` is larger
    have hne : a < (sortAsc y)[lo + 1] := by
      have hle := sortAsc_le (l := y) (Nat.le_succ lo) ha hb
      by_cases heq : a = (sortAsc y)[lo + 1]
      · exfalso
        have hpw := List.pairwise_iff_getElem.mp hsnd lo (lo + 1) hlolt hlo1 (Nat.lt_succ_self lo)
        rw [List.getElem?_eq_getElem hlolt] at ha
        cases ha
        exact hpw heq
      · rcases Rat.le_iff_lt_or_eq.mp hle with hlt | heq'
        · exact hlt
        · exact absurd heq' heq
    have ht := hstrict hne
    have := sortAsc_le (l := y) (Nat.le_add_right (lo + 1) i) hb (List.getElem?_eq_getElem hi')
    simp only [decide_eq_true_eq]
    intro hle
    linarith
  rw [h1, h2]

/-! ### direction of the selection -/

/-- what a selection of told points must satisfy to point the right way: it is not empty and every point left out has a
strictly larger fitted target (= a strictly smaller objective) than every selected point -/
def PriorSelSpec (y : Vec) (sel : List Bool) : Prop :=
  sel.length = y.length ∧ (∃ i : Nat, sel[i]? = some true) ∧
  ∀ (i j : Nat) (vi vj : Rat), y[i]? = some vi → y[j]? = some vj → sel[i]? = some true → sel[j]? = some false → vi < vj

theorem checkPriorSel_iff (y : Vec) (sel : List Bool) : checkPriorSel y sel = true ↔ PriorSelSpec y sel := by
  unfold checkPriorSel PriorSelSpec
  simp only [Bool.and_eq_true, beq_iff_eq, List.any_eq_true, List.all_eq_true, List.mem_range, id]
  constructor
  · rintro ⟨⟨h1, x, hx, rfl⟩, h3⟩
    refine ⟨h1, ?_, ?_⟩
    · obtain ⟨i, hi⟩ := List.mem_iff_getElem?.mp hx
      exact ⟨i, hi⟩
    · intro i j vi vj hi hj si sj
      have hil : i < y.length := by
        rcases Nat.lt_or_ge i y.length with h | h
        · exact h
        · rw [List.getElem?_eq_none h] at hi; cases hi
      have hjl : j < y.length := by
        rcases Nat.lt_or_ge j y.length with h | h
        · exact h
        · rw [List.getElem?_eq_none h] at hj; cases hj
      have := h3 i hil j hjl
      rw [hi, hj, si, sj] at this
      simpa using this
  · rintro ⟨h1, ⟨i, hi⟩, h3⟩
    refine ⟨⟨h1, true, List.mem_of_getElem? hi, rfl⟩, ?_⟩
    intro i _ j _
    split
    · rename_i vi vj e1 e2 e3 e4
      simpa using h3 i j vi vj e1 e2 e3 e4
    · rfl

/-- the model's mask points the right way: it keeps the best observation and leaves out only observations that are
strictly worse than every one it keeps -/
theorem priorMask_spec {q : Rat} {y : Vec} {m : List Bool} (h : priorMask q y = some m) : PriorSelSpec y m := by
  obtain ⟨t, hq, hml, hget⟩ := priorMask_getElem? h
  obtain ⟨hpos, _, _, _⟩ := quantileLin_spec hq
  refine ⟨hml, ?_, ?_⟩
  · -- the smallest value (first of the ascending order) is kept
    have hs0 : 0 < (sortAsc y).length := by rw [sortAsc_length]; exact hpos
    have hmem : (sortAsc y)[0] ∈ y := (sortAsc_perm y).mem_iff.mp (List.getElem_mem hs0)
    obtain ⟨i, hi⟩ := List.mem_iff_getElem?.mp hmem
    refine ⟨i, (hget i true).mpr ⟨_, hi, ?_⟩⟩
    have : (sortAsc y)[0] ≤ t := by
      apply quantileLin_ge_min hq
      intro w hw
      obtain ⟨k, hk⟩ := List.mem_iff_getElem?.mp ((sortAsc_perm y).mem_iff.mpr hw)
      exact sortAsc_le (l := y) (Nat.zero_le k) (List.getElem?_eq_getElem hs0) hk
    simpa using this
  · intro i j vi vj hi hj si sj
    obtain ⟨v, hv, hb⟩ := (hget i true).mp si
    obtain ⟨w, hw, hb'⟩ := (hget j false).mp sj
    rw [hi] at hv; cases hv
    rw [hj] at hw; cases hw
    have h1 : vi ≤ t := by simpa using hb.symm
    have h2 : ¬ vj ≤ t := by simpa using hb'.symm
    have : t < vj := Rat.not_le.mp h2
    linarith

/-- fitted targets that are strictly decreasing in pairwise distinct scores are pairwise distinct -/
theorem nodup_targets_of_anti {score T : Vec} (hlen : score.length = T.length)
    (hanti : ∀ (i j : Nat) (a b ta tb : Rat), score[i]? = some a → score[j]? = some b → T[i]? = some ta →
      T[j]? = some tb → a < b → tb < ta) (hnd : score.Nodup) : T.Nodup := by
  rw [List.Nodup, List.pairwise_iff_getElem]
  intro i j hi hj hij heq
  have hsi : i < score.length := by omega
  have hsj : j < score.length := by omega
  have hne := List.pairwise_iff_getElem.mp hnd i j hsi hsj hij
  rcases lt_trichotomy score[i] score[j] with h | h | h
  · have := hanti i j _ _ _ _ (List.getElem?_eq_getElem hsi) (List.getElem?_eq_getElem hsj)
      (List.getElem?_eq_getElem hi) (List.getElem?_eq_getElem hj) h
    rw [heq] at this; exact lt_irrefl _ this
  · exact hne h
  · have := hanti j i _ _ _ _ (List.getElem?_eq_getElem hsj) (List.getElem?_eq_getElem hsi)
      (List.getElem?_eq_getElem hj) (List.getElem?_eq_getElem hi) h
    rw [heq] at this; exact lt_irrefl _ this

/-- **selection rule of `update_prior` in terms of a score.**  Fitted targets strictly decreasing in pairwise distinct scores:
the mask `targets <= quantile(targets, q)` (a) contains every observation whose score exceeds a selected one's, (b) contains
the observation of largest score, (c) holds exactly `⌊(n-1)·q⌋ + 1` observations. -/
theorem priorMask_by_score (score T : Vec) (q : Rat) (m : List Bool)
    (hlen : score.length = T.length)
    (hanti : ∀ (i j : Nat) (a b ta tb : Rat), score[i]? = some a → score[j]? = some b → T[i]? = some ta →
      T[j]? = some tb → a < b → tb < ta) (hnd : score.Nodup)
    (hm : priorMask q T = some m) :
    (∀ (i j : Nat) (a b : Rat), score[i]? = some a → score[j]? = some b → a < b → m[i]? = some true → m[j]? = some true) ∧
    (∀ (i : Nat) (a : Rat), score[i]? = some a → (∀ b ∈ score, b ≤ a) → m[i]? = some true) ∧
    m.count true = (((T.length : Rat) - 1) * q).floor.toNat + 1 := by
  obtain ⟨t, hq, hml, hget⟩ := priorMask_getElem? hm
  have hidx : ∀ {k : Nat} {a : Rat}, score[k]? = some a → k < T.length := by
    intro k a hk
    rcases Nat.lt_or_ge k score.length with h | h
    · omega
    · rw [List.getElem?_eq_none h] at hk; cases hk
  refine ⟨?_, ?_, ?_⟩
  · intro i j a b hi hj hab si
    obtain ⟨v, hv, hb⟩ := (hget i true).mp si
    have hjl := hidx hj
    have hw := List.getElem?_eq_getElem hjl
    have hlt := hanti i j a b v _ hi hj hv hw hab
    have h1 : v ≤ t := by simpa using hb.symm
    refine (hget j true).mpr ⟨_, hw, ?_⟩
    have : T[j] ≤ t := by linarith
    simpa using this
  · intro i a hi hbest
    have hil := hidx hi
    have hv := List.getElem?_eq_getElem hil
    refine (hget i true).mpr ⟨_, hv, ?_⟩
    have : T[i] ≤ t := by
      apply quantileLin_ge_min hq
      intro w hw
      obtain ⟨j, hjl, rfl⟩ := List.mem_iff_getElem.mp hw
      have hsj : j < score.length := by omega
      have hsi : i < score.length := by omega
      have hb := hbest _ (List.getElem_mem hsj)
      rcases Rat.le_iff_lt_or_eq.mp hb with hlt | heq
      · exact Rat.le_of_lt (hanti j i _ a _ _ (List.getElem?_eq_getElem hsj) hi (List.getElem?_eq_getElem hjl) hv hlt)
      · -- equal scores at two positions of a duplicate-free list: the same position
        have hai : score[i] = a := by rw [List.getElem?_eq_getElem hsi] at hi; exact Option.some.inj hi
        have hji : j = i := by
          rcases Nat.lt_trichotomy j i with h | h | h
          · exact absurd (heq.trans hai.symm) (List.pairwise_iff_getElem.mp hnd j i hsj hsi h)
          · exact h
          · exact absurd (hai.trans heq.symm) (List.pairwise_iff_getElem.mp hnd i j hsi hsj h)
        subst hji
        exact Rat.le_refl
    simpa using this
  · have hT := nodup_targets_of_anti hlen hanti hnd
    have hc := quantileLin_count hq hT
    have hmeq : m = T.map (fun v => decide (v ≤ t)) := by
      unfold priorMask at hm
      rw [hq] at hm
      simpa using hm.symm
    rw [hmeq, List.count_eq_countP, List.countP_map, ← hc]
    congr 1
    funext v
    simp

end DH.Direction
