import Mathlib.Tactic.Ring
import Mathlib.Tactic.Linarith
import Model.Hypervolume

namespace DH.Hypervolume
open DH.Pareto (Vec wdVec)

/-- strictly increasing -/
abbrev Sorted (l : List Rat) : Prop := l.Pairwise (· < ·)

theorem mem_insertCut {x y : Rat} : ∀ {l : List Rat}, y ∈ insertCut x l ↔ y = x ∨ y ∈ l
  | [] => by simp [insertCut]
  | c :: cs => by
    unfold insertCut
    split
    · simp
    · split
      · rename_i h; subst h; simp
      · simp only [List.mem_cons, mem_insertCut (l := cs)]
        constructor
        · rintro (h | h | h) <;> simp [h]
        · rintro (h | h | h) <;> simp [h]

theorem sorted_insertCut {x : Rat} : ∀ {l : List Rat}, Sorted l → Sorted (insertCut x l)
  | [], _ => by simp [insertCut, Sorted]
  | c :: cs, h => by
    unfold insertCut
    have hc := List.pairwise_cons.mp h
    split
    · rename_i hx
      refine List.pairwise_cons.mpr ⟨?_, h⟩
      intro a ha
      rcases List.mem_cons.mp ha with rfl | ha
      · exact hx
      · exact lt_trans hx (hc.1 a ha)
    · split
      · exact h
      · rename_i h1 h2
        refine List.pairwise_cons.mpr ⟨?_, sorted_insertCut hc.2⟩
        intro a ha
        rcases mem_insertCut.mp ha with rfl | ha
        · exact lt_of_le_of_ne (not_lt.mp h1) (Ne.symm h2)
        · exact hc.1 a ha

theorem sorted_cutsOf : ∀ l : List Rat, Sorted (cutsOf l)
  | [] => by simp [cutsOf, Sorted]
  | a :: l => by
    show Sorted (insertCut a (cutsOf l))
    exact sorted_insertCut (sorted_cutsOf l)

theorem mem_cutsOf {y : Rat} : ∀ {l : List Rat}, y ∈ cutsOf l ↔ y ∈ l
  | [] => by simp [cutsOf]
  | a :: l => by
    show y ∈ insertCut a (cutsOf l) ↔ _
    rw [mem_insertCut, mem_cutsOf (l := l)]; simp

/-- strictly increasing lists with the same members are equal -/
theorem sorted_ext : ∀ {l₁ l₂ : List Rat}, Sorted l₁ → Sorted l₂ → (∀ x, x ∈ l₁ ↔ x ∈ l₂) → l₁ = l₂
  | [], [], _, _, _ => rfl
  | [], b :: l₂, _, _, h => by have := (h b).mpr (by simp); simp at this
  | a :: l₁, [], _, _, h => by have := (h a).mp (by simp); simp at this
  | a :: l₁, b :: l₂, h₁, h₂, h => by
    have c₁ := List.pairwise_cons.mp h₁
    have c₂ := List.pairwise_cons.mp h₂
    have hab : a = b := by
      have ha : a ∈ b :: l₂ := (h a).mp (by simp)
      have hb : b ∈ a :: l₁ := (h b).mpr (by simp)
      rcases List.mem_cons.mp ha with rfl | ha
      · rfl
      rcases List.mem_cons.mp hb with rfl | hb
      · rfl
      exact absurd (lt_trans (c₁.1 b hb) (c₂.1 a ha)) (lt_irrefl _)
    subst hab
    congr 1
    apply sorted_ext c₁.2 c₂.2
    intro x
    constructor
    · intro hx
      have := (h x).mp (by simp [hx])
      rcases List.mem_cons.mp this with rfl | h'
      · exact absurd (c₁.1 x hx) (lt_irrefl _)
      · exact h'
    · intro hx
      have := (h x).mpr (by simp [hx])
      rcases List.mem_cons.mp this with rfl | h'
      · exact absurd (c₂.1 x hx) (lt_irrefl _)
      · exact h'

theorem mem_cuts {r y : Rat} {pts : List Vec} : y ∈ cuts r pts ↔ (∃ p ∈ pts, hd p = y) ∧ y ≤ r := by
  unfold cuts
  rw [mem_cutsOf]
  simp [List.mem_filter, List.mem_map]

theorem sorted_cuts (r : Rat) (pts : List Vec) : Sorted (cuts r pts) := sorted_cutsOf _

theorem cuts_ext {r : Rat} {P Q : List Vec} (h : ∀ p, p ∈ P ↔ p ∈ Q) : cuts r P = cuts r Q := by
  apply sorted_ext (sorted_cuts r P) (sorted_cuts r Q)
  intro x
  simp only [mem_cuts]
  constructor
  · rintro ⟨⟨p, hp, rfl⟩, hr⟩; exact ⟨⟨p, (h p).mp hp, rfl⟩, hr⟩
  · rintro ⟨⟨p, hp, rfl⟩, hr⟩; exact ⟨⟨p, (h p).mpr hp, rfl⟩, hr⟩

theorem mem_proj {t : Rat} {pts : List Vec} {v : Vec} :
    v ∈ proj t pts ↔ ∃ p ∈ pts, hd p ≤ t ∧ p.tail = v := by
  simp [proj, List.mem_map, List.mem_filter, and_assoc]

theorem hv_nil_pts : ∀ ref : List Rat, hv ref [] = 0
  | [] => by simp [hv]
  | r :: rs => by simp [hv, cuts, cutsOf, slabs]

/-- **set extensionality** -/
theorem hv_set_ext : ∀ (ref : List Rat) (P Q : List Vec), (∀ p, p ∈ P ↔ p ∈ Q) → hv ref P = hv ref Q
  | [], P, Q, h => by
    simp only [hv]
    have : P.isEmpty = Q.isEmpty := by
      cases P with
      | nil =>
        cases Q with
        | nil => rfl
        | cons q Q => have := (h q).mpr (by simp); simp at this
      | cons p P =>
        cases Q with
        | nil => have := (h p).mp (by simp); simp at this
        | cons q Q => rfl
    rw [this]
  | r :: rs, P, Q, h => by
    simp only [hv]
    rw [cuts_ext h]
    congr 1
    funext t
    apply hv_set_ext rs
    intro v
    simp only [mem_proj]
    constructor
    · rintro ⟨p, hp, h1, h2⟩; exact ⟨p, (h p).mp hp, h1, h2⟩
    · rintro ⟨p, hp, h1, h2⟩; exact ⟨p, (h p).mpr hp, h1, h2⟩


/-! ### the slab integral -/

theorem slabs_congr {A B : Rat → Rat} {r : Rat} : ∀ {l : List Rat}, (∀ c ∈ l, A c = B c) →
    slabs A r l = slabs B r l
  | [], _ => rfl
  | [c], h => by simp [slabs, h c (by simp)]
  | c :: c' :: rest, h => by
    simp only [slabs]
    rw [h c (by simp), slabs_congr (l := c' :: rest) (fun x hx => h x (by simp [hx]))]

/-- only values at cuts strictly below the reference matter (the cut at `r` has width 0) -/
theorem slabs_congr_lt {A B : Rat → Rat} {r : Rat} : ∀ {l : List Rat}, Sorted l → (∀ c ∈ l, c ≤ r) →
    (∀ c ∈ l, c < r → A c = B c) → slabs A r l = slabs B r l
  | [], _, _, _ => rfl
  | [c], _, hr, h => by
    simp only [slabs]
    rcases lt_or_eq_of_le (hr c (by simp)) with hc | hc
    · rw [h c (by simp) hc]
    · subst hc; simp
  | c :: c' :: rest, hs, hr, h => by
    simp only [slabs]
    have hc := List.pairwise_cons.mp hs
    have : c < r := lt_of_lt_of_le (hc.1 c' (by simp)) (hr c' (by simp))
    rw [h c (by simp) this, slabs_congr_lt (l := c' :: rest) hc.2 (fun x hx => hr x (by simp [hx]))
      (fun x hx => h x (by simp [hx]))]

theorem slabs_mono {A B : Rat → Rat} {r : Rat} : ∀ {l : List Rat}, Sorted l → (∀ c ∈ l, c ≤ r) →
    (∀ c ∈ l, A c ≤ B c) → slabs A r l ≤ slabs B r l
  | [], _, _, _ => le_refl _
  | [c], _, hr, h => by
    simp only [slabs]
    exact mul_le_mul_of_nonneg_left (h c (by simp)) (sub_nonneg.mpr (hr c (by simp)))
  | c :: c' :: rest, hs, hr, h => by
    simp only [slabs]
    have hc := List.pairwise_cons.mp hs
    have h1 : (c' - c) * A c ≤ (c' - c) * B c :=
      mul_le_mul_of_nonneg_left (h c (by simp)) (sub_nonneg.mpr (le_of_lt (hc.1 c' (by simp))))
    have h2 := slabs_mono (A := A) (B := B) (r := r) (l := c' :: rest) hc.2
      (fun x hx => hr x (by simp [hx])) (fun x hx => h x (by simp [hx]))
    linarith

theorem slabs_zero {r : Rat} : ∀ l : List Rat, slabs (fun _ => 0) r l = 0
  | [] => rfl
  | [c] => by simp [slabs]
  | c :: c' :: rest => by simp [slabs, slabs_zero (c' :: rest)]

theorem slabs_nonneg {A : Rat → Rat} {r : Rat} {l : List Rat} (hs : Sorted l) (hr : ∀ c ∈ l, c ≤ r)
    (h : ∀ c ∈ l, 0 ≤ A c) : 0 ≤ slabs A r l := by
  have := slabs_mono (A := fun _ => 0) (B := A) hs hr h
  rwa [slabs_zero] at this

/-- `A` is a right-continuous step function whose jumps are among `S`, zero before the first -/
structure Step (A : Rat → Rat) (S : List Rat) : Prop where
  const : ∀ x y, (∀ s ∈ S, s ≤ x ↔ s ≤ y) → A x = A y
  zero : ∀ x, (∀ s ∈ S, x < s) → A x = 0

/-- refinement, inner step: the head `c` of the grid is `< x` -/
theorem slabs_insert_aux {A : Rat → Rat} {r x : Rat} (hx : x ≤ r) :
    ∀ (l : List Rat) (c : Rat), Sorted (c :: l) → c < x →
      (∀ g ∈ c :: l, g ≤ x → (∀ g' ∈ c :: l, g' ≤ x → g' ≤ g) → A x = A g) →
      slabs A r (c :: insertCut x l) = slabs A r (c :: l)
  | [], c, _, hcx, hA => by
    have : A x = A c := hA c (by simp) (le_of_lt hcx) (by simp)
    simp only [insertCut, slabs, this]; ring
  | c' :: rest, c, hs, hcx, hA => by
    have hc := List.pairwise_cons.mp hs
    have hcc' : c < c' := hc.1 c' (by simp)
    unfold insertCut
    split
    · rename_i hxc'
      have : A x = A c := by
        apply hA c (by simp) (le_of_lt hcx)
        intro g' hg' hg'x
        rcases List.mem_cons.mp hg' with rfl | hg'
        · exact le_refl _
        · have hc2 := List.pairwise_cons.mp hc.2
          rcases List.mem_cons.mp hg' with rfl | hg''
          · exact absurd (lt_of_le_of_lt hg'x hxc') (lt_irrefl _)
          · exact absurd (lt_trans (lt_of_le_of_lt hg'x hxc') (hc2.1 g' hg'')) (lt_irrefl _)
      simp only [slabs, this]; ring
    · split
      · rfl
      · rename_i h1 h2
        have hc'x : c' < x := lt_of_le_of_ne (not_lt.mp h1) (Ne.symm h2)
        simp only [slabs]
        rw [slabs_insert_aux hx rest c' hc.2 hc'x]
        intro g hg hgx hmax
        apply hA g (by simp [hg]) hgx
        intro g' hg' hg'x
        rcases List.mem_cons.mp hg' with rfl | hg'
        · exact le_trans (le_of_lt hcc') (hmax c' (by simp) (le_of_lt hc'x))
        · exact hmax g' hg' hg'x

/-- **refinement lemma**: adding a cut point `x ≤ r` to a grid that already contains every jump
of `A` up to `r` does not change the integral -/
theorem slabs_insert {A : Rat → Rat} {S : List Rat} (hA : Step A S) {r x : Rat} (hx : x ≤ r)
    {l : List Rat} (hs : Sorted l) (hS : ∀ s ∈ S, s ≤ r → s ∈ l) :
    slabs A r (insertCut x l) = slabs A r l := by
  have key : ∀ g ∈ l, g ≤ x → (∀ g' ∈ l, g' ≤ x → g' ≤ g) → A x = A g := by
    intro g hg hgx hmax
    apply hA.const
    intro s hs'
    constructor
    · intro hsx; exact hmax s (hS s hs' (le_trans hsx hx)) hsx
    · intro hsg; exact le_trans hsg hgx
  have zero : (∀ g ∈ l, x < g) → A x = 0 := by
    intro h
    apply hA.zero
    intro s hs'
    by_cases hsr : s ≤ r
    · exact h s (hS s hs' hsr)
    · exact lt_of_le_of_lt hx (not_le.mp hsr)
  cases l with
  | nil => simp [insertCut, slabs, zero (by simp)]
  | cons c cs =>
    have hc := List.pairwise_cons.mp hs
    unfold insertCut
    split
    · rename_i hxc
      have : A x = 0 := by
        apply zero
        intro g hg
        rcases List.mem_cons.mp hg with rfl | hg
        · exact hxc
        · exact lt_trans hxc (hc.1 g hg)
      simp [slabs, this]
    · split
      · rfl
      · rename_i h1 h2
        exact slabs_insert_aux hx cs c hs (lt_of_le_of_ne (not_lt.mp h1) (Ne.symm h2)) key


/-! ### cross-sections -/

theorem proj_cons (t : Rat) (q : Vec) (P : List Vec) :
    proj t (q :: P) = if hd q ≤ t then q.tail :: proj t P else proj t P := by
  unfold proj
  by_cases h : hd q ≤ t <;> simp [h]

theorem cuts_cons (r : Rat) (q : Vec) (P : List Vec) :
    cuts r (q :: P) = if hd q ≤ r then insertCut (hd q) (cuts r P) else cuts r P := by
  unfold cuts
  by_cases h : hd q ≤ r <;> simp [h, cutsOf]

theorem le_of_mem_cuts {r y : Rat} {pts : List Vec} (h : y ∈ cuts r pts) : y ≤ r := (mem_cuts.mp h).2

/-- the cross-section volume is a step function of the cut position, jumps at the first
coordinates of the points -/
theorem step_section (rs : List Rat) (P : List Vec) :
    Step (fun t => hv rs (proj t P)) (P.map hd) := by
  constructor
  · intro x y h
    have : proj x P = proj y P := by
      unfold proj
      congr 1
      apply List.filter_congr
      intro p hp
      have := h (hd p) (List.mem_map.mpr ⟨p, hp, rfl⟩)
      simp [this]
    show hv rs (proj x P) = hv rs (proj y P)
    rw [this]
  · intro x h
    have : proj x P = [] := by
      unfold proj
      rw [List.map_eq_nil_iff, List.filter_eq_nil_iff]
      intro p hp
      have := h (hd p) (List.mem_map.mpr ⟨p, hp, rfl⟩)
      simp [not_le.mpr this]
    show hv rs (proj x P) = 0
    rw [this, hv_nil_pts]

/-- `hv` of `P` may be computed on the finer grid that also has a cut at `x` -/
theorem hv_insert_cut (r : Rat) (rs : List Rat) (P : List Vec) {x : Rat} (hx : x ≤ r) :
    hv (r :: rs) P = slabs (fun t => hv rs (proj t P)) r (insertCut x (cuts r P)) := by
  simp only [hv]
  rw [slabs_insert (step_section rs P) hx (sorted_cuts r P)]
  intro s hs hsr
  obtain ⟨p, hp, rfl⟩ := List.mem_map.mp hs
  exact mem_cuts.mpr ⟨⟨p, hp, rfl⟩, hsr⟩

/-- … in particular on the grid of `q :: P` -/
theorem hv_on_cons_grid (r : Rat) (rs : List Rat) (q : Vec) (P : List Vec) :
    hv (r :: rs) P = slabs (fun t => hv rs (proj t P)) r (cuts r (q :: P)) := by
  rw [cuts_cons]
  split
  · rename_i h; exact hv_insert_cut r rs P h
  · rfl

/-! ### non-negativity, monotonicity -/

theorem hv_nonneg : ∀ (ref : List Rat) (P : List Vec), 0 ≤ hv ref P
  | [], P => by simp only [hv]; split <;> simp
  | r :: rs, P => by
    simp only [hv]
    exact slabs_nonneg (sorted_cuts r P) (fun c hc => le_of_mem_cuts hc) (fun c _ => hv_nonneg rs _)

theorem hv_le_cons : ∀ (ref : List Rat) (q : Vec) (P : List Vec), hv ref P ≤ hv ref (q :: P)
  | [], q, P => by simp only [hv]; cases P <;> simp
  | r :: rs, q, P => by
    rw [hv_on_cons_grid r rs q P]
    simp only [hv]
    apply slabs_mono (sorted_cuts r _) (fun c hc => le_of_mem_cuts hc)
    intro c _
    show hv rs (proj c P) ≤ hv rs (proj c (q :: P))
    rw [proj_cons]
    split
    · exact hv_le_cons rs _ _
    · exact le_refl _

theorem hv_le_append (ref : List Rat) (P : List Vec) : ∀ Q : List Vec, hv ref P ≤ hv ref (Q ++ P)
  | [] => le_refl _
  | q :: Q => le_trans (hv_le_append ref P Q) (hv_le_cons ref q (Q ++ P))

/-- monotone in the point set -/
theorem hv_mono (ref : List Rat) {P Q : List Vec} (h : ∀ p ∈ P, p ∈ Q) : hv ref P ≤ hv ref Q := by
  have : hv ref Q = hv ref (Q ++ P) := by
    apply hv_set_ext
    intro p
    simp only [List.mem_append]
    constructor
    · exact Or.inl
    · rintro (h' | h')
      · exact h'
      · exact h p h'
  rw [this]
  exact hv_le_append ref P Q

/-! ### dominated points -/

theorem wdVec_hd_tail : ∀ {p q : Vec}, wdVec p q = true → hd p ≤ hd q ∧ wdVec p.tail q.tail = true
  | [], [], _ => by simp [hd, wdVec]
  | [], _ :: _, h => by simp [wdVec] at h
  | _ :: _, [], h => by simp [wdVec] at h
  | a :: as, b :: bs, h => by
    simp only [wdVec, Bool.and_eq_true, decide_eq_true_eq] at h
    simpa [hd] using h

theorem hv_cons_dominated : ∀ (ref : List Rat) (P : List Vec) (p q : Vec), p ∈ P →
    wdVec p q = true → hv ref (q :: P) = hv ref P
  | [], P, p, q, hp, _ => by
    simp only [hv]
    cases P with
    | nil => simp at hp
    | cons _ _ => rfl
  | r :: rs, P, p, q, hp, hw => by
    rw [hv_on_cons_grid r rs q P]
    simp only [hv]
    apply slabs_congr
    intro c _
    show hv rs (proj c (q :: P)) = hv rs (proj c P)
    rw [proj_cons]
    split
    · rename_i hqc
      have ht := wdVec_hd_tail hw
      apply hv_cons_dominated rs _ p.tail q.tail _ ht.2
      exact mem_proj.mpr ⟨p, hp, le_trans ht.1 hqc, rfl⟩
    · rfl

theorem hv_append_dominated (ref : List Rat) (P : List Vec) : ∀ Q : List Vec,
    (∀ x ∈ Q, ∃ y ∈ P, wdVec y x = true) → hv ref (Q ++ P) = hv ref P
  | [], _ => rfl
  | q :: Q, h => by
    obtain ⟨y, hy, hyq⟩ := h q (by simp)
    show hv ref (q :: (Q ++ P)) = _
    rw [hv_cons_dominated ref (Q ++ P) y q (by simp [hy]) hyq]
    exact hv_append_dominated ref P Q (fun x hx => h x (by simp [hx]))

/-- any sub-collection that weakly dominates every point has the same hypervolume
(soundness of the non-dominated pre-filter) -/
theorem hv_cover (ref : List Rat) {F P : List Vec} (hsub : ∀ y ∈ F, y ∈ P)
    (hcov : ∀ x ∈ P, ∃ y ∈ F, wdVec y x = true) : hv ref F = hv ref P := by
  rw [← hv_append_dominated ref F P hcov]
  apply hv_set_ext
  intro p
  simp only [List.mem_append]
  constructor
  · rintro (h' | h')
    · exact h'
    · exact hsub p h'
  · exact Or.inl


/-! ### points on or beyond the reference boundary -/

theorem hv_cons_outside : ∀ (ref : List Rat) (q : Vec) (P : List Vec) (i : Nat) (r x : Rat),
    ref[i]? = some r → q[i]? = some x → r ≤ x → hv ref (q :: P) = hv ref P
  | [], _, _, _, _, _, h, _, _ => by simp at h
  | _ :: _, [], _, _, _, _, _, h, _ => by simp at h
  | r0 :: rs, b :: bs, P, 0, r, x, h1, h2, hrx => by
    simp only [List.getElem?_cons_zero, Option.some.injEq] at h1 h2
    subst h1 h2
    rw [hv_on_cons_grid r0 rs (b :: bs) P]
    simp only [hv]
    apply slabs_congr_lt (sorted_cuts _ _) (fun c hc => le_of_mem_cuts hc)
    intro c _ hcr
    show hv rs (proj c ((b :: bs) :: P)) = hv rs (proj c P)
    rw [proj_cons, if_neg]
    show ¬ (b ≤ c)
    exact not_le.mpr (lt_of_lt_of_le hcr hrx)
  | r0 :: rs, b :: bs, P, j + 1, r, x, h1, h2, hrx => by
    simp only [List.getElem?_cons_succ] at h1 h2
    rw [hv_on_cons_grid r0 rs (b :: bs) P]
    simp only [hv]
    apply slabs_congr
    intro c _
    show hv rs (proj c ((b :: bs) :: P)) = hv rs (proj c P)
    rw [proj_cons]
    split
    · exact hv_cons_outside rs bs _ j r x h1 h2 hrx
    · rfl

/-! ### translation -/

/-- rectangular input: every point has as many coordinates as the reference -/
def Rect (m : Nat) (P : List Vec) : Prop := ∀ p ∈ P, p.length = m

theorem slabs_shift (A B : Rat → Rat) (r e : Rat) : ∀ l : List Rat, (∀ c ∈ l, B (c - e) = A c) →
    slabs B (r - e) (l.map (· - e)) = slabs A r l
  | [], _ => rfl
  | [c], h => by simp only [List.map, slabs, h c (by simp)]; ring
  | c :: c' :: rest, h => by
    have ih := slabs_shift A B r e (c' :: rest) (fun x hx => h x (by simp [hx]))
    simp only [List.map, slabs, h c (by simp)] at ih ⊢
    rw [ih]; ring

theorem rect_proj {m : Nat} {P : List Vec} (h : Rect (m + 1) P) (t : Rat) : Rect m (proj t P) := by
  intro v hv
  obtain ⟨p, hp, _, rfl⟩ := mem_proj.mp hv
  have := h p hp
  simp [List.length_tail, this]

theorem hv_translate : ∀ (ref d : List Rat) (P : List Vec), d.length = ref.length → Rect ref.length P →
    hv (subVec ref d) (P.map (fun p => subVec p d)) = hv ref P
  | [], [], P, _, _ => by
    simp only [subVec, hv]
    cases P <;> simp
  | [], _ :: _, _, h, _ => by simp at h
  | _ :: _, [], _, h, _ => by simp at h
  | r :: rs, e :: es, P, hd', hP => by
    have hlen : es.length = rs.length := by simpa using hd'
    have hP' : Rect (rs.length + 1) P := by simpa using hP
    have hhd : ∀ p ∈ P, hd (subVec p (e :: es)) = hd p - e ∧ (subVec p (e :: es)).tail = subVec p.tail es := by
      intro p hp
      have := hP' p hp
      cases p with
      | nil => simp at this
      | cons a as => simp [subVec, hd]
    simp only [subVec, hv]
    have hcuts : cuts (r - e) (P.map (fun p => subVec p (e :: es))) = (cuts r P).map (· - e) := by
      apply sorted_ext (sorted_cuts _ _)
      · exact List.Pairwise.map _ (fun a b hab => by linarith) (sorted_cuts r P)
      · intro x
        simp only [mem_cuts, List.mem_map]
        constructor
        · rintro ⟨⟨p', ⟨p, hp, rfl⟩, rfl⟩, hx⟩
          refine ⟨hd p, ⟨⟨p, hp, rfl⟩, ?_⟩, ((hhd p hp).1).symm⟩
          rw [(hhd p hp).1] at hx; linarith
        · rintro ⟨y, ⟨⟨p, hp, rfl⟩, hy⟩, rfl⟩
          refine ⟨⟨_, ⟨p, hp, rfl⟩, (hhd p hp).1⟩, by linarith⟩
    rw [hcuts]
    apply slabs_shift
    intro c _
    show hv (subVec rs es) (proj (c - e) (P.map (fun p => subVec p (e :: es)))) = hv rs (proj c P)
    have : proj (c - e) (P.map (fun p => subVec p (e :: es))) = (proj c P).map (fun p => subVec p es) := by
      unfold proj
      rw [List.filter_map, List.map_map, List.map_map]
      have hf : List.filter ((fun p => decide (hd p ≤ c - e)) ∘ fun p => subVec p (e :: es)) P
          = List.filter (fun p => decide (hd p ≤ c)) P := by
        apply List.filter_congr
        intro p hp
        simp only [Function.comp, (hhd p hp).1]
        have : hd p - e ≤ c - e ↔ hd p ≤ c := by constructor <;> intro h <;> linarith
        simp [this]
      rw [hf]
      apply List.map_congr_left
      intro p hp
      exact (hhd p (List.mem_filter.mp hp).1).2
    rw [this]
    exact hv_translate rs es _ hlen (rect_proj hP' c)


/-! ### the pruned evaluator `hvFast` computes `hv` -/

theorem wd_refl : ∀ v : Vec, wdVec v v = true
  | [] => rfl
  | a :: as => by simp [wdVec, wd_refl as]

theorem wd_trans : ∀ a b c : Vec, wdVec a b = true → wdVec b c = true → wdVec a c = true
  | [], [], [], _, _ => rfl
  | [], [], _ :: _, _, h => by simp [wdVec] at h
  | [], _ :: _, _, h, _ => by simp [wdVec] at h
  | _ :: _, [], _, h, _ => by simp [wdVec] at h
  | _ :: _, _ :: _, [], _, h => by simp [wdVec] at h
  | x :: xs, y :: ys, z :: zs, h1, h2 => by
    simp only [wdVec, Bool.and_eq_true, decide_eq_true_eq] at h1 h2 ⊢
    exact ⟨Rat.le_trans h1.1 h2.1, wd_trans xs ys zs h1.2 h2.2⟩

theorem prune_inv : ∀ (rest kept seen : List Vec),
    (∀ y ∈ kept, y ∈ seen) → (∀ x ∈ seen, ∃ y ∈ kept, wdVec y x = true) →
    (∀ y ∈ rest.foldl pruneStep kept, y ∈ seen ∨ y ∈ rest) ∧
    (∀ x, x ∈ seen ∨ x ∈ rest → ∃ y ∈ rest.foldl pruneStep kept, wdVec y x = true)
  | [], kept, seen, h1, h2 => by
    simp only [List.foldl_nil, List.not_mem_nil, or_false]
    exact ⟨h1, h2⟩
  | p :: rest, kept, seen, h1, h2 => by
    have step : (∀ y ∈ pruneStep kept p, y ∈ p :: seen) ∧
        (∀ x ∈ p :: seen, ∃ y ∈ pruneStep kept p, wdVec y x = true) := by
      unfold pruneStep
      split
      · rename_i hany
        obtain ⟨y, hy, hyp⟩ := List.any_eq_true.mp hany
        refine ⟨fun z hz => by simp [h1 z hz], ?_⟩
        intro x hx
        rcases List.mem_cons.mp hx with rfl | hx
        · exact ⟨y, hy, hyp⟩
        · exact h2 x hx
      · constructor
        · intro z hz
          rcases List.mem_cons.mp hz with rfl | hz
          · simp
          · simp [h1 z (List.mem_filter.mp hz).1]
        · intro x hx
          rcases List.mem_cons.mp hx with rfl | hx
          · exact ⟨x, by simp, wd_refl x⟩
          · obtain ⟨y, hy, hyx⟩ := h2 x hx
            by_cases hpy : wdVec p y = true
            · exact ⟨p, by simp, wd_trans p y x hpy hyx⟩
            · exact ⟨y, by simp [List.mem_filter, hy, hpy], hyx⟩
    have ih := prune_inv rest (pruneStep kept p) (p :: seen) step.1 step.2
    simp only [List.foldl_cons]
    constructor
    · intro y hy
      rcases ih.1 y hy with h | h
      · rcases List.mem_cons.mp h with rfl | h
        · simp
        · exact Or.inl h
      · simp [h]
    · intro x hx
      apply ih.2
      rcases hx with h | h
      · simp [h]
      · rcases List.mem_cons.mp h with rfl | h
        · simp
        · exact Or.inr h

theorem prune_sub (P : List Vec) : ∀ y ∈ prune P, y ∈ P := by
  intro y hy
  have := (prune_inv P [] [] (by simp) (by simp)).1 y hy
  simpa using this

theorem prune_cover (P : List Vec) : ∀ x ∈ P, ∃ y ∈ prune P, wdVec y x = true := by
  intro x hx
  exact (prune_inv P [] [] (by simp) (by simp)).2 x (Or.inr hx)

theorem hv_prune (ref : List Rat) (P : List Vec) : hv ref (prune P) = hv ref P :=
  hv_cover ref (prune_sub P) (prune_cover P)

theorem hvFast_eq : ∀ (ref : List Rat) (P : List Vec), hvFast ref P = hv ref P
  | [], P => by simp [hvFast, hv]
  | r :: rs, P => by
    rw [← hv_prune (r :: rs) P]
    simp only [hvFast, hv]
    congr 1
    funext t
    exact hvFast_eq rs _


/-! ### one box; raising the first coordinate of the lowest point -/

/-- volume of the box `[p, ref]` -/
def boxVol : List Rat → Vec → Rat
  | r :: rs, a :: as => (r - a) * boxVol rs as
  | _, _ => 1

theorem cuts_single {r a : Rat} (as : Vec) (h : a ≤ r) : cuts r [a :: as] = [a] := by
  simp [cuts, hd, h, cutsOf, insertCut]

theorem proj_single (a : Rat) (as : Vec) : proj a [a :: as] = [as] := by
  simp [proj, hd]

theorem hv_single : ∀ (ref : List Rat) (p : Vec), wdVec p ref = true → hv ref [p] = boxVol ref p
  | [], [], _ => by simp [hv, boxVol]
  | [], _ :: _, h => by simp [wdVec] at h
  | _ :: _, [], h => by simp [wdVec] at h
  | r :: rs, a :: as, h => by
    simp only [wdVec, Bool.and_eq_true, decide_eq_true_eq] at h
    simp only [hv, boxVol, cuts_single as h.1, slabs, proj_single]
    rw [hv_single rs as h.2]

theorem insertCut_of_le_all {x : Rat} : ∀ {l : List Rat}, (∀ g ∈ l, x ≤ g) → ∃ l', insertCut x l = x :: l' ∧
    ∀ g ∈ l', g ∈ l
  | [], _ => ⟨[], rfl, by simp⟩
  | c :: cs, h => by
    unfold insertCut
    split
    · exact ⟨c :: cs, rfl, fun g hg => hg⟩
    · rename_i h1
      have : x = c := le_antisymm (h c (by simp)) (not_lt.mp h1)
      subst this
      exact ⟨cs, by simp, fun g hg => by simp [hg]⟩

theorem insertCut_of_lt_all {x : Rat} : ∀ {l : List Rat}, (∀ g ∈ l, x < g) → insertCut x l = x :: l
  | [], _ => rfl
  | c :: cs, h => by simp [insertCut, h c (by simp)]

/-- **peel lemma**: if every other point has first coordinate `≥ yb`, moving the first
coordinate of `ya :: as` up to `yb` loses exactly the slab `[ya, yb] × (section of as)` -/
theorem hv_raise (r : Rat) (rs : List Rat) (ya yb : Rat) (as : Vec) (R : List Vec)
    (hab : ya ≤ yb) (hbr : yb ≤ r) (hR : ∀ p ∈ R, yb ≤ hd p) :
    hv (r :: rs) ((ya :: as) :: R) = (yb - ya) * hv rs [as] + hv (r :: rs) ((yb :: as) :: R) := by
  rcases eq_or_lt_of_le hab with rfl | hlt
  · simp
  have har : ya ≤ r := le_trans hab hbr
  have hcR : ∀ g ∈ cuts r R, yb ≤ g := by
    intro g hg
    obtain ⟨⟨p, hp, rfl⟩, _⟩ := mem_cuts.mp hg
    exact hR p hp
  -- the grid of the right-hand side starts at `yb`
  obtain ⟨G', hG', hG'mem⟩ := insertCut_of_le_all hcR
  have hgridR : cuts r ((yb :: as) :: R) = yb :: G' := by
    rw [cuts_cons, if_pos (by simpa [hd] using hbr)]; simpa [hd] using hG'
  have hgridL : cuts r ((ya :: as) :: R) = ya :: cuts r R := by
    rw [cuts_cons, if_pos (by simpa [hd] using har)]
    apply insertCut_of_lt_all
    intro g hg; exact lt_of_lt_of_le hlt (hcR g hg)
  have hins : insertCut yb (ya :: cuts r R) = ya :: yb :: G' := by
    simp only [insertCut, if_neg (not_lt.mpr hab), if_neg (ne_of_gt hlt)]
    rw [hG']
  rw [hv_insert_cut r rs ((ya :: as) :: R) hbr, hgridL, hins]
  simp only [hv, hgridR, slabs]
  congr 1
  · -- the first slab sees only `as`
    congr 1
    have : proj ya ((ya :: as) :: R) = [as] := by
      rw [proj_cons, if_pos (by simp [hd])]
      have : proj ya R = [] := by
        unfold proj
        rw [List.map_eq_nil_iff, List.filter_eq_nil_iff]
        intro p hp
        simp [not_le.mpr (lt_of_lt_of_le hlt (hR p hp))]
      simp [this]
    rw [this]
  · apply slabs_congr
    intro c hc
    have hyc : yb ≤ c := by
      rcases List.mem_cons.mp hc with rfl | hc
      · exact le_refl _
      · exact hcR c (hG'mem c hc)
    show hv rs (proj c ((ya :: as) :: R)) = hv rs (proj c ((yb :: as) :: R))
    rw [proj_cons, proj_cons, if_pos (by simpa [hd] using le_trans hab hyc), if_pos (by simpa [hd] using hyc)]
    rfl

/-- two points of which one weakly dominates the other count as the dominating one -/
theorem hv_merge (ref : List Rat) (u v : Vec) (R : List Vec) (h : wdVec v u = true) :
    hv ref (u :: v :: R) = hv ref (v :: R) :=
  hv_cons_dominated ref (v :: R) v u (by simp) h

theorem hv_swap (ref : List Rat) (u v : Vec) (R : List Vec) : hv ref (u :: v :: R) = hv ref (v :: u :: R) := by
  apply hv_set_ext
  intro p; simp only [List.mem_cons]
  constructor <;> (rintro (h | h | h) <;> simp [h])

/-! ### the `dimIndex == 0` and `dimIndex == 1` branches -/

theorem len1 {p : Vec} (h : p.length = 1) : ∃ a, p = [a] := by
  match p, h with
  | [a], _ => exact ⟨a, rfl⟩

theorem len2 {p : Vec} (h : p.length = 2) : ∃ a b, p = [a, b] := by
  match p, h with
  | [a, b], _ => exact ⟨a, b, rfl⟩

/-- branch `dimIndex == 0` over list 0 (sorted by `cargo[0]`), reference at the origin -/
theorem level0_eq (l : List Vec) (hne : l ≠ []) (hrect : Rect 1 l)
    (hsorted : l.Pairwise (fun p q => co p 0 ≤ co q 0)) (hneg : ∀ p ∈ l, co p 0 ≤ 0) :
    level0 l = hv [0] l := by
  cases l with
  | nil => exact absurd rfl hne
  | cons q rest =>
    obtain ⟨a, rfl⟩ := len1 (hrect q (by simp))
    have hq := List.pairwise_cons.mp hsorted
    have : hv [0] ([a] :: rest) = hv [0] [[a]] := by
      symm
      apply hv_cover
      · intro y hy; simp at hy; simp [hy]
      · intro x hx
        refine ⟨[a], by simp, ?_⟩
        rcases List.mem_cons.mp hx with rfl | hx
        · exact wd_refl _
        · obtain ⟨b, rfl⟩ := len1 (hrect x (by simp [hx]))
          have := hq.1 [b] hx
          simpa [wdVec, co] using this
    rw [this, hv_single [0] [a] (by simpa [wdVec, co] using hneg [a] (by simp))]
    simp [level0, boxVol, co]

/-- the loop of the 2-D branch: `(h, q)` acts as the point `(h, q₁)` -/
theorem sweep2Loop_eq : ∀ (rest : List Vec) (h : Rat) (q : Vec) (acc : Rat),
    Rect 2 rest → rest.Pairwise (fun p p' => co p 1 ≤ co p' 1) →
    (∀ p ∈ rest, co q 1 ≤ co p 1) → (∀ p ∈ rest, co p 1 ≤ 0) → co q 1 ≤ 0 → h ≤ 0 →
    sweep2Loop h q acc rest = acc + hv [0, 0] ([co q 1, h] :: rest.map List.reverse)
  | [], h, q, acc, _, _, _, _, hq0, hh => by
    rw [List.map_nil, hv_single [0, 0] [co q 1, h] (by simp [wdVec, hq0, hh])]
    simp only [sweep2Loop, boxVol]; ring
  | p :: rest, h, q, acc, hrect, hs, hge, hneg, hq0, hh => by
    obtain ⟨px, py, rfl⟩ := len2 (hrect p (by simp))
    have hs' := List.pairwise_cons.mp hs
    have hpy0 : py ≤ 0 := by simpa [co] using hneg [px, py] (by simp)
    have hqp : co q 1 ≤ py := by simpa [co] using hge [px, py] (by simp)
    have hrest_ge : ∀ p' ∈ rest, py ≤ co p' 1 := by
      intro p' hp'; simpa [co] using hs'.1 p' hp'
    simp only [sweep2Loop]
    rw [sweep2Loop_eq rest _ [px, py] _ (fun x hx => hrect x (by simp [hx])) hs'.2
      (by simpa [co] using hrest_ge) (fun x hx => hneg x (by simp [hx])) (by simpa [co] using hpy0)
      (by split <;> [(rename_i hlt; simpa [co] using le_trans (le_of_lt hlt) hh); exact hh])]
    -- specification side: peel the slab, then merge the two points with first coordinate `py`
    have hR : ∀ v ∈ ([py, px] :: rest.map List.reverse), py ≤ hd v := by
      intro v hv'
      rcases List.mem_cons.mp hv' with rfl | hv'
      · simp [hd]
      · obtain ⟨p', hp', rfl⟩ := List.mem_map.mp hv'
        obtain ⟨a, b, rfl⟩ := len2 (hrect p' (by simp [hp']))
        simpa [hd, co] using hrest_ge [a, b] hp'
    have hpeel := hv_raise 0 [0] (co q 1) py [h] ([py, px] :: rest.map List.reverse) hqp hpy0 hR
    simp only [List.map_cons, List.reverse_cons, List.reverse_nil, List.nil_append, List.cons_append]
    rw [hpeel, hv_single [0] [h] (by simp [wdVec, hh])]
    simp only [co, List.getD_cons_zero, List.getD_cons_succ, boxVol]
    have hmerge : hv [0, 0] ([py, h] :: [py, px] :: rest.map List.reverse) =
        hv [0, 0] ([py, if px < h then px else h] :: rest.map List.reverse) := by
      split
      · rename_i hlt
        exact hv_merge _ _ _ _ (by simp [wdVec, le_of_lt hlt])
      · rename_i hnlt
        rw [hv_swap]
        exact hv_merge _ _ _ _ (by simp [wdVec, not_lt.mp hnlt])
    rw [hmerge]; ring

/-- branch `dimIndex == 1` over list 1 (sorted by `cargo[1]`), reference at the origin:
the sweep computes the area sliced along the last coordinate -/
theorem sweep2_eq (l : List Vec) (hrect : Rect 2 l)
    (hsorted : l.Pairwise (fun p q => co p 1 ≤ co q 1)) (hneg : ∀ p ∈ l, wdVec p [0, 0] = true) :
    sweep2 l = hv [0, 0] (l.map List.reverse) := by
  cases l with
  | nil => simp [sweep2, hv_nil_pts]
  | cons q rest =>
    obtain ⟨qx, qy, rfl⟩ := len2 (hrect q (by simp))
    have hs := List.pairwise_cons.mp hsorted
    have hq := hneg [qx, qy] (by simp)
    simp only [wdVec, Bool.and_eq_true, decide_eq_true_eq, and_true] at hq
    have hneg1 : ∀ p ∈ rest, co p 1 ≤ 0 := by
      intro p hp
      obtain ⟨a, b, rfl⟩ := len2 (hrect p (by simp [hp]))
      have := hneg [a, b] (by simp [hp])
      simp only [wdVec, Bool.and_eq_true, decide_eq_true_eq, and_true] at this
      simpa [co] using this.2
    simp only [sweep2]
    rw [sweep2Loop_eq rest _ _ _ (fun x hx => hrect x (by simp [hx])) hs.2 hs.1 hneg1
      (by simpa [co] using hq.2) (by simpa [co] using hq.1)]
    simp [co]

/-! ### refinement to an arbitrary finer grid; linearity -/

theorem mem_foldr_insertCut {y : Rat} {l : List Rat} : ∀ {xs : List Rat},
    y ∈ xs.foldr insertCut l ↔ y ∈ xs ∨ y ∈ l
  | [] => by simp
  | x :: xs => by
    simp only [List.foldr_cons, mem_insertCut, mem_foldr_insertCut (xs := xs), List.mem_cons]
    constructor
    · rintro (h | h | h) <;> simp [h]
    · rintro ((h | h) | h) <;> simp [h]

theorem sorted_foldr_insertCut {l : List Rat} (hl : Sorted l) : ∀ xs : List Rat, Sorted (xs.foldr insertCut l)
  | [] => hl
  | _ :: xs => sorted_insertCut (sorted_foldr_insertCut hl xs)

theorem slabs_refine {A : Rat → Rat} {S : List Rat} (hA : Step A S) {r : Rat} {l : List Rat}
    (hl : Sorted l) (hS : ∀ s ∈ S, s ≤ r → s ∈ l) : ∀ xs : List Rat, (∀ x ∈ xs, x ≤ r) →
    slabs A r (xs.foldr insertCut l) = slabs A r l
  | [], _ => rfl
  | x :: xs, hx => by
    simp only [List.foldr_cons]
    rw [slabs_insert hA (hx x (by simp)) (sorted_foldr_insertCut hl xs)
      (fun s hs hsr => mem_foldr_insertCut.mpr (Or.inr (hS s hs hsr)))]
    exact slabs_refine hA hl hS xs (fun y hy => hx y (by simp [hy]))

/-- `hv` may be computed on any grid (strictly increasing, inside `(-∞, r]`) that contains the
first coordinates of the points -/
theorem hv_on_grid (r : Rat) (rs : List Rat) (X : List Vec) (G : List Rat) (hG : Sorted G)
    (hGr : ∀ g ∈ G, g ≤ r) (hX : ∀ p ∈ X, hd p ≤ r → hd p ∈ G) :
    hv (r :: rs) X = slabs (fun t => hv rs (proj t X)) r G := by
  have hGeq : G = G.foldr insertCut (cuts r X) := by
    apply sorted_ext hG (sorted_foldr_insertCut (sorted_cuts r X) G)
    intro x
    rw [mem_foldr_insertCut]
    constructor
    · exact Or.inl
    · rintro (h | h)
      · exact h
      · obtain ⟨⟨p, hp, rfl⟩, hr⟩ := mem_cuts.mp h
        exact hX p hp hr
  rw [hGeq, slabs_refine (step_section rs X) (sorted_cuts r X) _ G hGr]
  · rfl
  · intro s hs hsr
    obtain ⟨p, hp, rfl⟩ := List.mem_map.mp hs
    exact mem_cuts.mpr ⟨⟨p, hp, rfl⟩, hsr⟩

theorem slabs_add (A B : Rat → Rat) (r : Rat) : ∀ l : List Rat,
    slabs (fun t => A t + B t) r l = slabs A r l + slabs B r l
  | [] => by simp [slabs]
  | [c] => by simp only [slabs]; ring
  | c :: c' :: rest => by
    simp only [slabs]
    rw [slabs_add A B r (c' :: rest)]; ring

/-! ### inclusion–exclusion -/

/-- componentwise maximum: the corner of the intersection of the two dominated orthants -/
def meet (p q : Vec) : Vec := List.zipWith (fun a b => if a ≤ b then b else a) p q

/-- all pairwise intersections -/
def meets (P Q : List Vec) : List Vec := P.flatMap (fun p => Q.map (meet p))

theorem mem_meets {P Q : List Vec} {v : Vec} : v ∈ meets P Q ↔ ∃ p ∈ P, ∃ q ∈ Q, meet p q = v := by
  simp [meets, List.mem_flatMap, List.mem_map]

theorem proj_append (t : Rat) (P Q : List Vec) : proj t (P ++ Q) = proj t P ++ proj t Q := by
  simp [proj]

theorem meet_cons (a b : Rat) (as bs : Vec) :
    meet (a :: as) (b :: bs) = (if a ≤ b then b else a) :: meet as bs := rfl

theorem meet_length {m : Nat} {p q : Vec} (hp : p.length = m) (hq : q.length = m) :
    (meet p q).length = m := by
  simp [meet, hp, hq]

theorem rect_meets {m : Nat} {P Q : List Vec} (hP : Rect m P) (hQ : Rect m Q) : Rect m (meets P Q) := by
  intro v hv
  obtain ⟨p, hp, q, hq, rfl⟩ := mem_meets.mp hv
  exact meet_length (hP p hp) (hQ q hq)

theorem rect_append {m : Nat} {P Q : List Vec} (hP : Rect m P) (hQ : Rect m Q) : Rect m (P ++ Q) := by
  intro v hv
  rcases List.mem_append.mp hv with h | h
  · exact hP v h
  · exact hQ v h

theorem ne_nil_of_rect {m : Nat} {P : List Vec} (hP : Rect (m + 1) P) {p : Vec} (hp : p ∈ P) :
    ∃ a as, p = a :: as := by
  have := hP p hp
  cases p with
  | nil => simp at this
  | cons a as => exact ⟨a, as, rfl⟩

/-- **inclusion–exclusion** (valuation property): volume of a union plus volume of the
intersection equals the sum of the volumes -/
theorem hv_incl_excl : ∀ (ref : List Rat) (P Q : List Vec), Rect ref.length P → Rect ref.length Q →
    hv ref (P ++ Q) + hv ref (meets P Q) = hv ref P + hv ref Q
  | [], P, Q, _, _ => by
    simp only [hv]
    cases P with
    | nil => simp [meets]
    | cons p P =>
      cases Q with
      | nil => simp [meets]
      | cons q Q => simp [meets]
  | r :: rs, P, Q, hP, hQ => by
    have hP' : Rect (rs.length + 1) P := by simpa using hP
    have hQ' : Rect (rs.length + 1) Q := by simpa using hQ
    have hG := sorted_cuts r (P ++ Q)
    have hGr : ∀ g ∈ cuts r (P ++ Q), g ≤ r := fun g hg => le_of_mem_cuts hg
    rw [hv_on_grid r rs P _ hG hGr (fun p hp hpr => mem_cuts.mpr ⟨⟨p, by simp [hp], rfl⟩, hpr⟩),
      hv_on_grid r rs Q _ hG hGr (fun p hp hpr => mem_cuts.mpr ⟨⟨p, by simp [hp], rfl⟩, hpr⟩),
      hv_on_grid r rs (meets P Q) _ hG hGr ?_]
    · simp only [hv]
      rw [← slabs_add, ← slabs_add]
      apply slabs_congr
      intro t _
      show hv rs (proj t (P ++ Q)) + hv rs (proj t (meets P Q)) = hv rs (proj t P) + hv rs (proj t Q)
      rw [proj_append, hv_set_ext rs (proj t (meets P Q)) (meets (proj t P) (proj t Q))]
      · exact hv_incl_excl rs _ _ (rect_proj hP' t) (rect_proj hQ' t)
      · intro v
        simp only [mem_proj, mem_meets]
        constructor
        · rintro ⟨w, ⟨p, hp, q, hq, rfl⟩, hwt, rfl⟩
          obtain ⟨a, as, rfl⟩ := ne_nil_of_rect hP' hp
          obtain ⟨b, bs, rfl⟩ := ne_nil_of_rect hQ' hq
          rw [meet_cons] at hwt ⊢
          simp only [hd, List.headD_cons] at hwt
          refine ⟨as, ⟨a :: as, hp, ?_, rfl⟩, bs, ⟨b :: bs, hq, ?_, rfl⟩, rfl⟩
          · simp only [hd, List.headD_cons]; split at hwt <;> linarith
          · simp only [hd, List.headD_cons]; split at hwt <;> linarith
        · rintro ⟨p', ⟨p, hp, hpt, rfl⟩, q', ⟨q, hq, hqt, rfl⟩, rfl⟩
          obtain ⟨a, as, rfl⟩ := ne_nil_of_rect hP' hp
          obtain ⟨b, bs, rfl⟩ := ne_nil_of_rect hQ' hq
          refine ⟨meet (a :: as) (b :: bs), ⟨a :: as, hp, b :: bs, hq, rfl⟩, ?_, rfl⟩
          rw [meet_cons]
          simp only [hd, List.headD_cons] at hpt hqt ⊢
          split <;> assumption
    · intro v hv hvr
      obtain ⟨p, hp, q, hq, rfl⟩ := mem_meets.mp hv
      obtain ⟨a, as, rfl⟩ := ne_nil_of_rect hP' hp
      obtain ⟨b, bs, rfl⟩ := ne_nil_of_rect hQ' hq
      rw [meet_cons] at hvr ⊢
      simp only [hd, List.headD_cons] at hvr ⊢
      split
      · exact mem_cuts.mpr ⟨⟨b :: bs, by simp [hq], rfl⟩, by rwa [if_pos ‹_›] at hvr⟩
      · exact mem_cuts.mpr ⟨⟨a :: as, by simp [hp], rfl⟩, by rwa [if_neg ‹_›] at hvr⟩

/-- the inclusion–exclusion recursion that determines `hv` from the volumes of single boxes -/
theorem hv_cons_incl_excl (ref : List Rat) (p : Vec) (P : List Vec) (hp : p.length = ref.length)
    (hP : Rect ref.length P) :
    hv ref (p :: P) = hv ref [p] + hv ref P - hv ref (P.map (meet p)) := by
  have h := hv_incl_excl ref [p] P (by intro x hx; simp at hx; subst hx; exact hp) hP
  have : meets [p] P = P.map (meet p) := by simp [meets]
  rw [this] at h
  have : [p] ++ P = p :: P := rfl
  rw [this] at h
  linarith

/-! ### coordinate permutations (in particular: slicing order does not matter) -/

/-- Any map of vectors that commutes with `meet` and preserves the volume of single boxes
preserves `hv`: the inclusion–exclusion recursion determines `hv` from single boxes. -/
theorem hv_map_invariant (ref ref' : List Rat) (f : Vec → Vec)
    (hlen : ∀ p : Vec, p.length = ref.length → (f p).length = ref'.length)
    (hmeet : ∀ p q : Vec, p.length = ref.length → q.length = ref.length → f (meet p q) = meet (f p) (f q))
    (hbox : ∀ p : Vec, p.length = ref.length → hv ref' [f p] = hv ref [p]) :
    ∀ (n : Nat) (P : List Vec), P.length = n → Rect ref.length P → hv ref' (P.map f) = hv ref P
  | 0, P, hn, _ => by
    have : P = [] := List.length_eq_zero_iff.mp hn
    subst this
    simp [hv_nil_pts]
  | n + 1, P, hn, hP => by
    cases P with
    | nil => simp at hn
    | cons p P =>
      have hp : p.length = ref.length := hP p (by simp)
      have hP' : Rect ref.length P := fun x hx => hP x (by simp [hx])
      have hn' : P.length = n := by simpa using hn
      have hfP : Rect ref'.length (P.map f) := by
        intro x hx
        obtain ⟨y, hy, rfl⟩ := List.mem_map.mp hx
        exact hlen y (hP' y hy)
      rw [List.map_cons, hv_cons_incl_excl ref p P hp hP',
        hv_cons_incl_excl ref' (f p) (P.map f) (hlen p hp) hfP, hbox p hp,
        hv_map_invariant ref ref' f hlen hmeet hbox n P hn' hP']
      have hmm : (P.map f).map (meet (f p)) = (P.map (meet p)).map f := by
        rw [List.map_map, List.map_map]
        apply List.map_congr_left
        intro q hq
        simp only [Function.comp]
        exact (hmeet p q hp (hP' q hq)).symm
      have hrectm : Rect ref.length (P.map (meet p)) := by
        intro x hx
        obtain ⟨y, hy, rfl⟩ := List.mem_map.mp hx
        exact meet_length hp (hP' y hy)
      rw [hmm, hv_map_invariant ref ref' f hlen hmeet hbox n (P.map (meet p)) (by simpa using hn') hrectm]

/-! reversal of the coordinates -/

theorem meet_append : ∀ (p q p' q' : Vec), p.length = q.length →
    meet (p ++ p') (q ++ q') = meet p q ++ meet p' q'
  | [], [], _, _, _ => rfl
  | [], _ :: _, _, _, h => by simp at h
  | _ :: _, [], _, _, h => by simp at h
  | a :: as, b :: bs, p', q', h => by
    simp only [List.cons_append, meet_cons]
    rw [meet_append as bs p' q' (by simpa using h)]

theorem meet_reverse : ∀ (p q : Vec), p.length = q.length → (meet p q).reverse = meet p.reverse q.reverse
  | [], [], _ => rfl
  | [], _ :: _, h => by simp at h
  | _ :: _, [], h => by simp at h
  | a :: as, b :: bs, h => by
    have h' : as.length = bs.length := by simpa using h
    rw [meet_cons, List.reverse_cons, List.reverse_cons, List.reverse_cons, meet_reverse as bs h',
      meet_append _ _ _ _ (by simpa using h')]
    rfl

theorem boxVol_append : ∀ (rs as : List Rat) (r a : Rat), rs.length = as.length →
    boxVol (rs ++ [r]) (as ++ [a]) = boxVol rs as * (r - a)
  | [], [], r, a, _ => by simp [boxVol]
  | [], _ :: _, _, _, h => by simp at h
  | _ :: _, [], _, _, h => by simp at h
  | r0 :: rs, a0 :: as, r, a, h => by
    simp only [List.cons_append, boxVol]
    rw [boxVol_append rs as r a (by simpa using h)]; ring

theorem boxVol_reverse : ∀ (rs as : List Rat), rs.length = as.length →
    boxVol rs.reverse as.reverse = boxVol rs as
  | [], [], _ => rfl
  | [], _ :: _, h => by simp at h
  | _ :: _, [], h => by simp at h
  | r :: rs, a :: as, h => by
    have h' : rs.length = as.length := by simpa using h
    rw [List.reverse_cons, List.reverse_cons, boxVol_append _ _ _ _ (by simpa using h'),
      boxVol_reverse rs as h']
    simp only [boxVol]; ring

theorem wdVec_append : ∀ (p q : Vec) (a b : Rat), p.length = q.length →
    wdVec (p ++ [a]) (q ++ [b]) = (wdVec p q && decide (a ≤ b))
  | [], [], a, b, _ => by simp [wdVec]
  | [], _ :: _, _, _, h => by simp at h
  | _ :: _, [], _, _, h => by simp at h
  | x :: p, y :: q, a, b, h => by
    simp only [List.cons_append, wdVec]
    rw [wdVec_append p q a b (by simpa using h), Bool.and_assoc]

theorem wdVec_reverse : ∀ (p q : Vec), p.length = q.length → wdVec p.reverse q.reverse = wdVec p q
  | [], [], _ => rfl
  | [], _ :: _, h => by simp at h
  | _ :: _, [], h => by simp at h
  | x :: p, y :: q, h => by
    have h' : p.length = q.length := by simpa using h
    rw [List.reverse_cons, List.reverse_cons, wdVec_append _ _ _ _ (by simpa using h'),
      wdVec_reverse p q h']
    simp only [wdVec, Bool.and_comm]

/-- a point that is not below the reference in some coordinate spans no volume -/
theorem hv_single_outside : ∀ (ref : List Rat) (p : Vec), p.length = ref.length → wdVec p ref = false →
    hv ref [p] = 0
  | [], [], _, h => by simp [wdVec] at h
  | [], _ :: _, h, _ => by simp at h
  | _ :: _, [], h, _ => by simp at h
  | r :: rs, a :: as, hl, h => by
    by_cases har : a ≤ r
    · have h2 : wdVec as rs = false := by simpa [wdVec, har] using h
      simp only [hv, cuts_single as har, slabs, proj_single]
      rw [hv_single_outside rs as (by simpa using hl) h2]; simp
    · rw [hv_cons_outside (r :: rs) (a :: as) [] 0 r a rfl rfl (le_of_lt (not_le.mp har)), hv_nil_pts]

theorem hv_single_reverse (ref : List Rat) (p : Vec) (hp : p.length = ref.length) :
    hv ref.reverse [p.reverse] = hv ref [p] := by
  by_cases h : wdVec p ref = true
  · rw [hv_single ref p h, hv_single _ _ (by rw [wdVec_reverse p ref hp]; exact h),
      boxVol_reverse ref p hp.symm]
  · have h' : wdVec p ref = false := by simpa using h
    rw [hv_single_outside ref p hp h',
      hv_single_outside _ _ (by simpa using hp) (by rw [wdVec_reverse p ref hp]; exact h')]

/-- **the slicing order is immaterial**: slicing on the last coordinate first (as the code
does) gives the same value as slicing on the first coordinate first -/
theorem hv_reverse (ref : List Rat) (P : List Vec) (hP : Rect ref.length P) :
    hv ref.reverse (P.map List.reverse) = hv ref P :=
  hv_map_invariant ref ref.reverse List.reverse
    (fun p hp => by simpa using hp)
    (fun p q hp hq => meet_reverse p q (by rw [hp, hq]))
    (fun p hp => hv_single_reverse ref p hp)
    P.length P rfl hP

theorem hvLast_eq (ref : List Rat) (P : List Vec) (hP : Rect ref.length P) : hvLast ref P = hv ref P :=
  hv_reverse ref P hP

/-! ### `preProcess`: the stable insertion sort -/

theorem insertByKey_perm (key : Nat → Rat) (a : Nat) : ∀ l : List Nat, (insertByKey key a l).Perm (a :: l)
  | [] => List.Perm.refl _
  | b :: l => by
    unfold insertByKey
    split
    · exact List.Perm.refl _
    · exact ((insertByKey_perm key a l).cons b).trans (List.Perm.swap a b l)

theorem sortByKey_perm (key : Nat → Rat) : ∀ l : List Nat, (sortByKey key l).Perm l
  | [] => List.Perm.refl _
  | a :: l => by
    show (insertByKey key a (sortByKey key l)).Perm (a :: l)
    exact (insertByKey_perm key a _).trans ((sortByKey_perm key l).cons a)

theorem insertByKey_sorted (key : Nat → Rat) (a : Nat) : ∀ l : List Nat,
    l.Pairwise (fun x y => key x ≤ key y) → (insertByKey key a l).Pairwise (fun x y => key x ≤ key y)
  | [], _ => by simp [insertByKey]
  | b :: l, h => by
    have hb := List.pairwise_cons.mp h
    unfold insertByKey
    split
    · rename_i hab
      refine List.pairwise_cons.mpr ⟨?_, h⟩
      intro y hy
      rcases List.mem_cons.mp hy with rfl | hy
      · exact hab
      · exact le_trans hab (hb.1 y hy)
    · rename_i hab
      refine List.pairwise_cons.mpr ⟨?_, insertByKey_sorted key a l hb.2⟩
      intro y hy
      rcases List.mem_cons.mp ((List.Perm.mem_iff (insertByKey_perm key a l)).mp hy) with rfl | hy
      · exact le_of_lt (not_le.mp hab)
      · exact hb.1 y hy

theorem sortByKey_sorted (key : Nat → Rat) : ∀ l : List Nat,
    (sortByKey key l).Pairwise (fun x y => key x ≤ key y)
  | [] => by simp [sortByKey]
  | a :: l => insertByKey_sorted key a _ (sortByKey_sorted key l)

/-! ### end to end: `compute` for one and two objectives -/

theorem subVec_self : ∀ r : Vec, subVec r r = List.replicate r.length 0
  | [] => rfl
  | a :: as => by simp [subVec, subVec_self as, List.replicate_succ]

theorem subVec_zeros : ∀ (p ref : Vec), (∀ r ∈ ref, r = 0) → subVec p ref = p
  | [], [], _ => rfl
  | [], _ :: _, _ => rfl
  | _ :: _, [], _ => rfl
  | a :: as, b :: bs, h => by
    have hb : b = 0 := h b (by simp)
    subst hb
    simp [subVec, subVec_zeros as bs (fun r hr => h r (by simp [hr]))]

theorem shift_eq (ref : Vec) (front : List Vec) : shift ref front = front.map (fun p => subVec p ref) := by
  unfold shift
  split
  · rfl
  · rename_i h
    have hz : ∀ r ∈ ref, r = 0 := by
      intro r hr
      by_contra hne
      exact h (List.any_eq_true.mpr ⟨r, hr, by simpa using hne⟩)
    symm
    calc front.map (fun p => subVec p ref) = front.map id :=
          List.map_congr_left (fun p _ => subVec_zeros p ref hz)
      _ = front := List.map_id _

/-- cargo of node `i` of the initial state: row `i` of the shifted front -/
theorem initNode_cargo (rel : List Vec) (m : Nat) (bounds : List Rat) (i : Nat) :
    ((⟨rel.map (fun p => ⟨p, 0, List.replicate m 0, List.replicate m 0⟩), bounds⟩ : St).node i).cargo
      = rel.getD i [] := by
  simp only [St.node, List.getD_eq_getElem?_getD, List.getElem?_map]
  cases h : rel[i]? <;> simp [sentinelNode]

theorem range_map_getD (rel : List Vec) : (List.range rel.length).map (fun i => rel.getD i []) = rel := by
  apply List.ext_getElem
  · simp
  · intro i h1 h2
    simp at h1
    simp [List.getD_eq_getElem?_getD, h1]

/-- the cargos of list `d` of the multi-list, when every node is linked: a permutation of the
shifted front, sorted by coordinate `d` -/
theorem linked_all (rel : List Vec) (d : Nat) (orders : List (List Nat)) (ids : List Nat)
    (hids : ids.Perm (List.range rel.length))
    (hord : orders.getD d [] = sortByDim rel d ids) :
    let L := (linked orders d (List.range rel.length)).map (fun i => rel.getD i [])
    L.Perm rel ∧ L.Pairwise (fun p q => co p d ≤ co q d) := by
  intro L
  have hperm : (sortByDim rel d ids).Perm (List.range rel.length) :=
    (sortByKey_perm _ ids).trans hids
  have hlinked : linked orders d (List.range rel.length) = sortByDim rel d ids := by
    unfold linked
    rw [hord, List.filter_eq_self]
    intro a ha
    have := (List.Perm.mem_iff hperm).mp ha
    simpa using List.mem_range.mp this
  constructor
  · show ((linked orders d (List.range rel.length)).map (fun i => rel.getD i [])).Perm rel
    rw [hlinked]
    have := List.Perm.map (fun i => rel.getD i []) hperm
    rwa [range_map_getD] at this
  · show ((linked orders d (List.range rel.length)).map (fun i => rel.getD i [])).Pairwise _
    rw [hlinked, List.pairwise_map]
    exact sortByKey_sorted _ ids

theorem subVec_length : ∀ (p ref : Vec), p.length = ref.length → (subVec p ref).length = p.length
  | [], [], _ => rfl
  | [], _ :: _, h => by simp at h
  | _ :: _, [], h => by simp at h
  | a :: as, b :: bs, h => by
    simp only [subVec, List.length_cons]
    rw [subVec_length as bs (by simpa using h)]

theorem rect_shift {m : Nat} {front : List Vec} {ref : Vec} (hm : ref.length = m) (h : Rect m front) :
    Rect m (front.map (fun p => subVec p ref)) := by
  intro v hv
  obtain ⟨p, hp, rfl⟩ := List.mem_map.mp hv
  rw [subVec_length p ref (by rw [h p hp, hm]), h p hp]

/-- **one objective, end to end**: `_HyperVolume(ref).compute(front)` is the 1-D hypervolume -/
theorem compute_1d (r : Rat) (front : List Vec) (hrect : Rect 1 front)
    (hle : ∀ p ∈ front, wdVec p [r] = true) : compute [r] front = some (hv [r] front) := by
  have hsh := shift_eq [r] front
  have htr : hv [0] (front.map (fun p => subVec p [r])) = hv [r] front := by
    have := hv_translate [r] [r] front rfl hrect
    simpa [subVec] using this
  simp only [compute, computeV, List.length_cons, List.length_nil, Nat.zero_add, Nat.succ_ne_zero,
    if_false, hsh, Nat.sub_self, Option.some.injEq]
  generalize hrel : front.map (fun p => subVec p [r]) = rel at *
  simp only [hvRecursive]
  by_cases hne : rel = []
  · subst hne
    have : front = [] := by simpa using hrel
    subst this
    simp [hv_nil_pts]
  · have hlen : (List.range rel.length).isEmpty = false := by
      cases rel with
      | nil => exact absurd rfl hne
      | cons _ _ => simp [List.range_succ]
    rw [hlen]
    simp only [Bool.false_eq_true, if_false]
    have hord : (preOrders true rel 1).getD 0 [] = sortByDim rel 0 (List.range rel.length) := by
      simp [preOrders, preOrdersDown, preOrdersDown.go]
    obtain ⟨hperm, hsorted⟩ := linked_all rel 0 (preOrders true rel 1) (List.range rel.length)
      (List.Perm.refl _) hord
    have hcargo : (linked (preOrders true rel 1) 0 (List.range rel.length)).map
        (fun i => ((⟨rel.map (fun p => ⟨p, 0, List.replicate 1 0, List.replicate 1 0⟩),
          List.replicate 1 negInf⟩ : St).node i).cargo)
        = (linked (preOrders true rel 1) 0 (List.range rel.length)).map (fun i => rel.getD i []) :=
      List.map_congr_left (fun i _ => initNode_cargo rel 1 _ i)
    rw [hcargo]
    have hrectrel : Rect 1 rel := by rw [← hrel]; exact rect_shift rfl hrect
    have hneg : ∀ p ∈ rel, co p 0 ≤ 0 := by
      intro p hp
      rw [← hrel] at hp
      obtain ⟨q, hq, rfl⟩ := List.mem_map.mp hp
      obtain ⟨a, rfl⟩ := len1 (hrect q hq)
      have := hle [a] hq
      simp only [wdVec, Bool.and_true, decide_eq_true_eq] at this
      simp only [subVec, co, List.getD_cons_zero]; linarith
    rw [level0_eq _ ?_ ?_ hsorted ?_]
    · rw [← htr]
      exact hv_set_ext [0] _ _ (fun p => hperm.mem_iff)
    · intro h
      have := hperm.length_eq
      rw [h] at this
      exact hne (List.length_eq_zero_iff.mp this.symm)
    · intro p hp; exact hrectrel p (hperm.mem_iff.mp hp)
    · intro p hp; exact hneg p (hperm.mem_iff.mp hp)

/-- **two objectives, end to end**: `_HyperVolume(ref).compute(front)` (shift, `preProcess`,
the 2-D sweep over list 1) is the hypervolume — for any list of points below the reference,
non-dominated or not -/
theorem compute_2d (r0 r1 : Rat) (front : List Vec) (hrect : Rect 2 front)
    (hle : ∀ p ∈ front, wdVec p [r0, r1] = true) : compute [r0, r1] front = some (hv [r0, r1] front) := by
  have hsh := shift_eq [r0, r1] front
  have htr : hv [0, 0] (front.map (fun p => subVec p [r0, r1])) = hv [r0, r1] front := by
    have := hv_translate [r0, r1] [r0, r1] front rfl hrect
    simpa [subVec] using this
  simp only [compute, computeV, List.length_cons, List.length_nil, Nat.zero_add, Nat.succ_ne_zero,
    if_false, hsh, Option.some.injEq]
  generalize hrel : front.map (fun p => subVec p [r0, r1]) = rel at *
  show (hvRecursive true (preOrders true rel 2) 1 (List.range rel.length) _).1 = _
  simp only [hvRecursive]
  by_cases hne : rel = []
  · subst hne
    have : front = [] := by simpa using hrel
    subst this
    simp [hv_nil_pts]
  · have hlen : (List.range rel.length).isEmpty = false := by
      cases rel with
      | nil => exact absurd rfl hne
      | cons _ _ => simp [List.range_succ]
    rw [hlen]
    simp only [Bool.false_eq_true, if_false]
    have hord : (preOrders true rel 2).getD 1 [] = sortByDim rel 1 (List.range rel.length) := by
      simp [preOrders, preOrdersDown, preOrdersDown.go]
    obtain ⟨hperm, hsorted⟩ := linked_all rel 1 (preOrders true rel 2) (List.range rel.length)
      (List.Perm.refl _) hord
    have hcargo : (linked (preOrders true rel 2) 1 (List.range rel.length)).map
        (fun i => ((⟨rel.map (fun p => ⟨p, 0, List.replicate 2 0, List.replicate 2 0⟩),
          List.replicate 2 negInf⟩ : St).node i).cargo)
        = (linked (preOrders true rel 2) 1 (List.range rel.length)).map (fun i => rel.getD i []) :=
      List.map_congr_left (fun i _ => initNode_cargo rel 2 _ i)
    rw [hcargo]
    have hrectrel : Rect 2 rel := by rw [← hrel]; exact rect_shift rfl hrect
    have hneg : ∀ p ∈ rel, wdVec p [0, 0] = true := by
      intro p hp
      rw [← hrel] at hp
      obtain ⟨q, hq, rfl⟩ := List.mem_map.mp hp
      obtain ⟨a, b, rfl⟩ := len2 (hrect q hq)
      have := hle [a, b] hq
      simp only [wdVec, Bool.and_true, Bool.and_eq_true, decide_eq_true_eq] at this
      simp only [subVec, wdVec, Bool.and_true, Bool.and_eq_true, decide_eq_true_eq]
      constructor <;> linarith
    have hrectL : Rect 2 ((linked (preOrders true rel 2) 1 (List.range rel.length)).map
        (fun i => rel.getD i [])) := fun p hp => hrectrel p (hperm.mem_iff.mp hp)
    rw [sweep2_eq _ hrectL hsorted (fun p hp => hneg p (hperm.mem_iff.mp hp))]
    have hrev := hv_reverse [0, 0] _ hrectL
    simp only [List.reverse_cons, List.reverse_nil, List.nil_append, List.cons_append] at hrev
    rw [hrev, ← htr]
    exact hv_set_ext [0, 0] _ _ (fun p => hperm.mem_iff)

/-! ### the dimension-sweep scheme: slabs between consecutive points of a sorted list -/

/-- the cross-section `T` placed at first coordinate `y` -/
def atHead (y : Rat) (T : List Vec) : List Vec := T.map (fun v => y :: v)

theorem proj_atHead_le {y c : Rat} (T : List Vec) (h : y ≤ c) : proj c (atHead y T) = T := by
  unfold proj atHead
  rw [List.filter_map, List.map_map]
  have : List.filter ((fun p => decide (hd p ≤ c)) ∘ fun v => y :: v) T = T := by
    rw [List.filter_eq_self]; intro v _; simp [hd, h]
  rw [this]
  calc List.map (List.tail ∘ fun v => y :: v) T = List.map id T :=
        List.map_congr_left (fun v _ => rfl)
    _ = T := List.map_id _

theorem proj_nil_of_lt {c : Rat} {R : List Vec} (h : ∀ p ∈ R, c < hd p) : proj c R = [] := by
  unfold proj
  rw [List.map_eq_nil_iff, List.filter_eq_nil_iff]
  intro p hp
  simp [not_le.mpr (h p hp)]

theorem hv_atHead_ref (r : Rat) (rs : List Rat) : ∀ T : List Vec, hv (r :: rs) (atHead r T) = 0
  | [] => hv_nil_pts _
  | v :: T => by
    show hv (r :: rs) ((r :: v) :: atHead r T) = 0
    rw [hv_cons_outside (r :: rs) (r :: v) _ 0 r r rfl rfl (le_refl _)]
    exact hv_atHead_ref r rs T

/-- **peel lemma for a whole cross-section**: if every other point has first coordinate `≥ yb`,
moving the points `ya :: v` (`v ∈ T`) up to `yb` loses exactly the slab `[ya, yb] × T` -/
theorem hv_raise_set (r : Rat) (rs : List Rat) (ya yb : Rat) (T R : List Vec)
    (hab : ya ≤ yb) (hbr : yb ≤ r) (hR : ∀ p ∈ R, yb ≤ hd p) :
    hv (r :: rs) (atHead ya T ++ R) = (yb - ya) * hv rs T + hv (r :: rs) (atHead yb T ++ R) := by
  rcases eq_or_lt_of_le hab with rfl | hlt
  · simp
  have hcR : ∀ g ∈ cuts r R, yb ≤ g := by
    intro g hg
    obtain ⟨⟨p, hp, rfl⟩, _⟩ := mem_cuts.mp hg
    exact hR p hp
  obtain ⟨G', hG', hG'mem⟩ := insertCut_of_le_all hcR
  have hsG : Sorted (yb :: G') := by rw [← hG']; exact sorted_insertCut (sorted_cuts r R)
  have hGr : ∀ g ∈ yb :: G', g ≤ r := by
    intro g hg
    rcases List.mem_cons.mp hg with rfl | hg
    · exact hbr
    · exact le_of_mem_cuts (hG'mem g hg)
  have hmemG : ∀ g, g ∈ cuts r R → g ∈ yb :: G' := by
    intro g hg
    have : g ∈ insertCut yb (cuts r R) := mem_insertCut.mpr (Or.inr hg)
    rwa [hG'] at this
  have hsL : Sorted (ya :: yb :: G') := by
    refine List.pairwise_cons.mpr ⟨?_, hsG⟩
    intro g hg
    rcases List.mem_cons.mp hg with rfl | hg
    · exact hlt
    · exact lt_of_lt_of_le hlt (hcR g (hG'mem g hg))
  -- both sides on explicit grids
  have hL := hv_on_grid r rs (atHead ya T ++ R) (ya :: yb :: G') hsL
    (by intro g hg
        rcases List.mem_cons.mp hg with rfl | hg
        · exact le_trans hab hbr
        · exact hGr g hg)
    (by intro p hp hpr
        rcases List.mem_append.mp hp with hp | hp
        · obtain ⟨v, _, rfl⟩ := List.mem_map.mp hp
          simp [hd]
        · exact List.mem_cons_of_mem _ (hmemG _ (mem_cuts.mpr ⟨⟨p, hp, rfl⟩, hpr⟩)))
  have hRt := hv_on_grid r rs (atHead yb T ++ R) (yb :: G') hsG hGr
    (by intro p hp hpr
        rcases List.mem_append.mp hp with hp | hp
        · obtain ⟨v, _, rfl⟩ := List.mem_map.mp hp
          simp [hd]
        · exact hmemG _ (mem_cuts.mpr ⟨⟨p, hp, rfl⟩, hpr⟩))
  rw [hL, hRt]
  simp only [slabs]
  congr 1
  · congr 1
    show hv rs (proj ya (atHead ya T ++ R)) = hv rs T
    rw [proj_append, proj_atHead_le T (le_refl _),
      proj_nil_of_lt (fun p hp => lt_of_lt_of_le hlt (hR p hp)), List.append_nil]
  · apply slabs_congr
    intro c hc
    have hyc : yb ≤ c := by
      rcases List.mem_cons.mp hc with rfl | hc
      · exact le_refl _
      · exact hcR c (hG'mem c hc)
    show hv rs (proj c (atHead ya T ++ R)) = hv rs (proj c (atHead yb T ++ R))
    rw [proj_append, proj_append, proj_atHead_le T (le_trans hab hyc), proj_atHead_le T hyc]

/-- what a dimension sweep adds up: the points sorted by first coordinate, `A` = the volume of
the cross-section spanned by the points seen so far (`pre ++ [q]`), times the distance to the
next point (to the reference for the last one) -/
def sweepSum (A : List Vec → Rat) (r : Rat) : List Vec → Vec → List Vec → Rat
  | pre, q, [] => (r - hd q) * A (pre ++ [q])
  | pre, q, p :: rest => (hd p - hd q) * A (pre ++ [q]) + sweepSum A r (pre ++ [q]) p rest

theorem sweep_inv (r : Rat) (rs : List Rat) : ∀ (rest pre : List Vec) (q : Vec),
    ((q :: rest).Pairwise (fun a b => hd a ≤ hd b)) → (∀ p ∈ q :: rest, hd p ≤ r) →
    (∀ p ∈ rest, p ≠ []) →
    hv (r :: rs) (atHead (hd q) ((pre ++ [q]).map List.tail) ++ rest)
      = sweepSum (fun X => hv rs (X.map List.tail)) r pre q rest
  | [], pre, q, _, hr, _ => by
    have := hv_raise_set r rs (hd q) r ((pre ++ [q]).map List.tail) [] (hr q (by simp)) (le_refl _)
      (by simp)
    simp only [List.append_nil] at this ⊢
    rw [this, hv_atHead_ref]
    simp [sweepSum]
  | p :: rest, pre, q, hs, hr, hne => by
    have hs' := List.pairwise_cons.mp hs
    have hqp : hd q ≤ hd p := hs'.1 p (by simp)
    have hs2 := List.pairwise_cons.mp hs'.2
    rw [hv_raise_set r rs (hd q) (hd p) _ (p :: rest) hqp (hr p (by simp))
      (by intro x hx
          rcases List.mem_cons.mp hx with rfl | hx
          · exact le_refl _
          · exact hs2.1 x hx)]
    simp only [sweepSum]
    congr 1
    rw [← sweep_inv r rs rest (pre ++ [q]) p hs'.2 (fun x hx => hr x (by simp [hx]))
      (fun x hx => hne x (by simp [hx]))]
    obtain ⟨a, as, rfl⟩ : ∃ a as, p = a :: as := by
      cases p with
      | nil => exact absurd rfl (hne [] (by simp))
      | cons a as => exact ⟨a, as, rfl⟩
    have : atHead (hd (a :: as)) ((pre ++ [q] ++ [a :: as]).map List.tail) ++ rest
        = atHead (hd (a :: as)) ((pre ++ [q]).map List.tail) ++ (a :: as) :: rest := by
      simp [atHead, hd]
    rw [this]

/-- **the dimension-sweep scheme is exact**: for points sorted by their first coordinate (ties
allowed), below the reference, the slab sum with exact cross-section volumes is `hv` -/
theorem hv_eq_sweepSum (r : Rat) (rs : List Rat) (q : Vec) (rest : List Vec)
    (hs : (q :: rest).Pairwise (fun a b => hd a ≤ hd b)) (hr : ∀ p ∈ q :: rest, hd p ≤ r)
    (hne : ∀ p ∈ q :: rest, p ≠ []) :
    hv (r :: rs) (q :: rest) = sweepSum (fun X => hv rs (X.map List.tail)) r [] q rest := by
  rw [← sweep_inv r rs rest [] q hs hr (fun p hp => hne p (by simp [hp]))]
  obtain ⟨a, as, rfl⟩ : ∃ a as, q = a :: as := by
    cases q with
    | nil => exact absurd rfl (hne [] (by simp))
    | cons a as => exact ⟨a, as, rfl⟩
  rfl

end DH.Hypervolume
