import Proofs.Select

/-! C20: well-formedness, no-worse-than-start and termination of the greedy loop; `sortById`. -/

namespace DH.Select

/-! ### well-formedness -/

/-- invariant of `selected_indices` -/
structure WF (n bound : Nat) (sel : List Nat) : Prop where
  valid : ∀ a ∈ sel, a < n
  nonempty : sel ≠ []
  uniq : numUnique n sel ≤ bound

theorem initSel_length {n : Nat} {losses : Nat → Rat} {order : List Nat} (h : OrderOK n losses order) (o : Opts) :
    (initSel o order).length = min o.kInit n := by
  simp [initSel, h.length]

theorem init_wf {n : Nat} {losses : Nat → Rat} {order : List Nat} (h : OrderOK n losses order) (o : Opts)
    (hn : 0 < n) (hk : 0 < o.kInit) : WF n (max o.k (min o.kInit n)) (initSel o order) := by
  have hlen := initSel_length h o
  refine ⟨?_, ?_, ?_⟩
  · intro a ha; exact (h.mem a).1 (List.mem_of_mem_take ha)
  · intro h0; rw [h0] at hlen; simp at hlen; omega
  · have := numUnique_le_length n (initSel o order); omega

theorem continues_spec {o : Opts} {n it : Nat} {sel : List Nat} (h : continues o n it sel = true) :
    (o.maxIt < 0 ∨ (it : Int) < o.maxIt) ∧ numUnique n sel < o.k := by
  simpa [continues] using h

theorem wf_step {o : Opts} {n : Nat} {L : List (Nat × Nat) → Rat} {bag : List Nat} {it : Nat} {sel : List Nat}
    {bound : Nat} (hb : o.k ≤ bound) {iMin : Nat} {lMin : Rat} (hw : WF n bound sel)
    (hc : continues o n it sel = true) (hn : nanargmin (candLosses o n L sel bag) = some (iMin, lMin)) :
    WF n bound (sel ++ [iMin]) := by
  obtain ⟨hi, _, _⟩ := step_spec hn
  refine ⟨?_, by simp, ?_⟩
  · intro a ha
    rcases List.mem_append.1 ha with ha | ha
    · exact hw.valid a ha
    · simp at ha; subst ha; exact hi
  · have := numUnique_snoc_le n sel iMin
    have := (continues_spec hc).2
    omega

theorem greedyLoop_wf (o : Opts) (n : Nat) (L : List (Nat × Nat) → Rat) (bags : Nat → List Nat) {bound : Nat}
    (hb : o.k ≤ bound) (fuel it : Nat) (sel : List Nat) (lossMin : Rat) (sel' : List Nat) (hw : WF n bound sel)
    (h : greedyLoop o n L bags fuel it sel lossMin = .ok sel') : WF n bound sel' := by
  obtain ⟨_, h'⟩ := greedyLoop_inv o n L bags (fun s _ => WF n bound s)
    (fun it sel _ iMin lMin hP hc hn _ => wf_step hb hP hc hn) fuel it sel lossMin sel' hw h
  exact h'

/-- what `select` returns for a well-formed final list -/
theorem output_wf {n bound : Nat} {sel : List Nat} (h : WF n bound sel) :
    (output n sel).1.Nodup ∧ (∀ i ∈ (output n sel).1, i < n ∧ i ∈ sel) ∧ (output n sel).1 ≠ [] ∧
    (output n sel).1.length ≤ bound ∧ (output n sel).2.length = (output n sel).1.length ∧
    (∀ w ∈ (output n sel).2, 0 < w) ∧ (output n sel).2.sum = 1 := by
  have hne : uniqueCounts n sel ≠ [] := by
    obtain ⟨a, ha⟩ := List.exists_mem_of_ne_nil sel h.nonempty
    have : (a, sel.count a) ∈ uniqueCounts n sel := mem_uniqueCounts.2 ⟨h.valid a ha, ha, rfl⟩
    exact List.ne_nil_of_mem this
  have hpos : ∀ p ∈ uniqueCounts n sel, 0 < p.2 := by
    intro p hp
    obtain ⟨_, h2, h3⟩ := mem_uniqueCounts.1 hp
    rw [h3]; exact List.count_pos_iff.2 h2
  obtain ⟨w1, w2, w3⟩ := weightsOf_spec hne hpos
  simp only [output]
  refine ⟨uniqueCounts_nodup n sel, ?_, by simpa using hne, ?_, by simp [w1], w2, w3⟩
  · intro i hi
    simp only [List.mem_map] at hi
    obtain ⟨p, hp, rfl⟩ := hi
    obtain ⟨h1, h2, _⟩ := mem_uniqueCounts.1 hp
    exact ⟨h1, h2⟩
  · have : (uniqueCounts n sel).length = numUnique n sel := rfl
    simp only [List.length_map, this]; exact h.uniq

/-! ### with early stopping the loss never gets worse than the starting ensemble's -/

theorem stops_false_es {o : Opts} {n : Nat} {sel : List Nat} {lossMin : Rat} {iMin : Nat} {lMin : Rat}
    (hes : o.earlyStopping = true) (h : stops o n sel lossMin iMin lMin = false) : lMin < lossMin - o.epsTol := by
  simp only [stops, hes, Bool.true_and, Bool.or_eq_false_iff, decide_eq_false_iff_not] at h
  exact lt_of_not_ge h.1

theorem greedyLoop_no_worse (o : Opts) (n : Nat) (L : List (Nat × Nat) → Rat) (bags : Nat → List Nat)
    (hes : o.earlyStopping = true) (heps : 0 ≤ o.epsTol) (start : Rat)
    (fuel it : Nat) (sel : List Nat) (lossMin : Rat) (sel' : List Nat)
    (h0 : L (uniqueCounts n sel) ≤ lossMin ∧ lossMin ≤ start)
    (h : greedyLoop o n L bags fuel it sel lossMin = .ok sel') : L (uniqueCounts n sel') ≤ start := by
  obtain ⟨lm, h1, h2⟩ := greedyLoop_inv o n L bags (fun s lm => L (uniqueCounts n s) ≤ lm ∧ lm ≤ start)
    (fun it sel lossMin iMin lMin hP _ hn hs => by
      obtain ⟨_, _, hl⟩ := step_spec hn
      have := stops_false_es hes hs
      exact ⟨le_of_eq hl.symm, by linarith [hP.2]⟩) fuel it sel lossMin sel' h0 h
  exact le_trans h1 h2

/-! ### termination -/

theorem total_maxIt (o : Opts) (n : Nat) (L : List (Nat × Nat) → Rat) (bags : Nat → List Nat)
    (hm : 0 ≤ o.maxIt) : ∀ fuel it sel lossMin, o.maxIt.toNat ≤ fuel + it →
      greedyLoop o n L bags fuel it sel lossMin ≠ .outOfFuel := by
  intro fuel
  induction fuel with
  | zero =>
    intro it sel lossMin hf
    rw [greedyLoop_unfold]
    split
    · rename_i hc
      have := (continues_spec hc).1
      omega
    · simp
  | succ fuel ih =>
    intro it sel lossMin hf
    rw [greedyLoop_unfold]
    split
    · simp only
      split
      · simp
      · split
        · simp
        · exact ih _ _ _ (by omega)
    · simp

theorem eligible_not_mem {o : Opts} {sel bag : List Nat} {i : Nat} (hr : o.withReplacement = false)
    (h : eligible o sel bag i = true) : i ∉ sel := by
  simp only [eligible, hr, Bool.not_false, Bool.true_and, Bool.not_eq_true', Bool.or_eq_false_iff] at h
  simpa using h.1.2

theorem total_no_replacement (o : Opts) (n : Nat) (L : List (Nat × Nat) → Rat) (bags : Nat → List Nat)
    (hr : o.withReplacement = false) : ∀ fuel it sel lossMin, o.k ≤ fuel + numUnique n sel →
      greedyLoop o n L bags fuel it sel lossMin ≠ .outOfFuel := by
  intro fuel
  induction fuel with
  | zero =>
    intro it sel lossMin hf
    rw [greedyLoop_unfold]
    split
    · rename_i hc
      have := (continues_spec hc).2
      omega
    · simp
  | succ fuel ih =>
    intro it sel lossMin hf
    rw [greedyLoop_unfold]
    split
    · simp only
      split
      · simp
      · rename_i iMin lMin hn
        split
        · simp
        · obtain ⟨hi, he, _⟩ := step_spec hn
          have := numUnique_snoc_new hi (eligible_not_mem hr he)
          exact ih _ _ _ (by omega)
    · simp

theorem total_early_stopping (o : Opts) (n : Nat) (L : List (Nat × Nat) → Rat) (bags : Nat → List Nat)
    (hes : o.earlyStopping = true) (heps : 0 < o.epsTol) (B : Rat) (hB : ∀ uc, B ≤ L uc) :
    ∀ (fuel it : Nat) (sel : List Nat) (lossMin : Rat), B ≤ lossMin → lossMin - B < ((fuel : Nat) : Rat) * o.epsTol →
      greedyLoop o n L bags fuel it sel lossMin ≠ .outOfFuel := by
  intro fuel
  induction fuel with
  | zero =>
    intro it sel lossMin hl hf
    simp only [Nat.cast_zero, zero_mul] at hf
    linarith
  | succ fuel ih =>
    intro it sel lossMin hl hf
    rw [greedyLoop_unfold]
    split
    · simp only
      split
      · simp
      · rename_i iMin lMin hn
        split
        · simp
        · rename_i hs
          obtain ⟨_, _, hv⟩ := step_spec hn
          have h1 := stops_false_es hes (by simpa using hs)
          refine ih _ _ _ (hv ▸ hB _) ?_
          push_cast at hf
          linarith [heps]
    · simp

/-! ### defect 14b: without early stopping, with replacement and no iteration bound the loop can run for ever -/

/-- loss that only looks at whether member 2 is in the ensemble -/
def L14b (uc : List (Nat × Nat)) : Rat := if uc.any (fun p => p.1 == 2) then 2 else 1

def o14b : Opts :=
  { k := 3, kInit := 1, maxIt := -1, epsTol := 1 / 1000, withReplacement := true, earlyStopping := false,
    bagging := false }

theorem any_uniqueCounts (n : Nat) (sel : List Nat) (j : Nat) :
    (uniqueCounts n sel).any (fun p => p.1 == j) = true ↔ j < n ∧ j ∈ sel := by
  simp only [List.any_eq_true, beq_iff_eq]
  constructor
  · rintro ⟨p, hp, rfl⟩
    obtain ⟨h1, h2, _⟩ := mem_uniqueCounts.1 hp
    exact ⟨h1, h2⟩
  · rintro ⟨h1, h2⟩
    exact ⟨(j, sel.count j), mem_uniqueCounts.2 ⟨h1, h2, rfl⟩, rfl⟩

theorem L14b_val (sel : List Nat) : L14b (uniqueCounts 3 sel) = if 2 ∈ sel then 2 else 1 := by
  unfold L14b
  by_cases h : 2 ∈ sel
  · rw [if_pos ((any_uniqueCounts 3 sel 2).2 ⟨by omega, h⟩), if_pos h]
  · have : ¬ ((uniqueCounts 3 sel).any (fun p => p.1 == 2) = true) := fun h' =>
      h ((any_uniqueCounts 3 sel 2).1 h').2
    rw [if_neg this, if_neg h]

/-- the states the run goes through after its first iteration: members 0 and 1 chosen, 2 never -/
structure Stuck (sel : List Nat) : Prop where
  len : 2 ≤ sel.length
  has0 : 0 ∈ sel
  has1 : 1 ∈ sel
  no2 : 2 ∉ sel

theorem stuck_numUnique {sel : List Nat} (h : Stuck sel) : numUnique 3 sel = 2 := by
  rw [numUnique_eq]
  simp [List.range_succ, h.has0, h.has1, h.no2]

theorem stuck_cand {sel : List Nat} (h : Stuck sel) (bag : List Nat) :
    candLosses o14b 3 L14b sel bag = [some 1, some 1, some 2] := by
  have hl : (sel.length == 1) = false := by
    have := h.len; simp; omega
  simp [candLosses, List.range_succ, eligible, o14b, hl, L14b_val, h.no2]

theorem stuck_forever (bags : Nat → List Nat) :
    ∀ fuel it sel lossMin, Stuck sel → greedyLoop o14b 3 L14b bags fuel it sel lossMin = .outOfFuel := by
  intro fuel
  induction fuel with
  | zero =>
    intro it sel lossMin h
    rw [greedyLoop_unfold]
    have : continues o14b 3 it sel = true := by simp [continues, stuck_numUnique h, o14b]
    simp [this]
  | succ fuel ih =>
    intro it sel lossMin h
    rw [greedyLoop_unfold]
    have hc : continues o14b 3 it sel = true := by simp [continues, stuck_numUnique h, o14b]
    have hn : nanargmin (candLosses o14b 3 L14b sel (bags it)) = some (0, 1) := by
      rw [stuck_cand h]; decide +kernel
    have hs : stops o14b 3 sel lossMin 0 1 = false := by
      simp [stops, o14b, stuck_numUnique h]
    simp only [hc, hn, hs, if_true]
    exact ih _ _ _ ⟨by have := h.len; simp; omega, by simp [h.has0], by simp [h.has1], by simp [h.no2]⟩

/-! ### sorting the gathered jobs by numeric id -/

theorem insertJob_perm {α : Type} (j : Nat × α) (l : List (Nat × α)) : (insertJob j l).Perm (j :: l) := by
  induction l with
  | nil => simp [insertJob]
  | cons x xs ih =>
    simp only [insertJob]
    split
    · exact List.Perm.refl _
    · exact (List.Perm.cons x ih).trans (List.Perm.swap j x xs)

theorem sortById_perm {α : Type} (jobs : List (Nat × α)) : (sortById jobs).Perm jobs := by
  unfold sortById
  induction jobs with
  | nil => simp
  | cons j l ih => exact (insertJob_perm j _).trans (List.Perm.cons j ih)

theorem insertJob_sorted {α : Type} (j : Nat × α) (l : List (Nat × α))
    (h : l.Pairwise (fun a b => a.1 ≤ b.1)) : (insertJob j l).Pairwise (fun a b => a.1 ≤ b.1) := by
  induction l with
  | nil => simp [insertJob]
  | cons x xs ih =>
    simp only [insertJob]
    have hx := List.pairwise_cons.1 h
    split
    · rename_i hjx
      refine List.pairwise_cons.2 ⟨?_, h⟩
      intro b hb
      rcases List.mem_cons.1 hb with rfl | hb
      · exact hjx
      · exact Nat.le_trans hjx (hx.1 b hb)
    · rename_i hjx
      refine List.pairwise_cons.2 ⟨?_, ih hx.2⟩
      intro b hb
      rcases List.mem_cons.1 ((insertJob_perm j xs).subset hb) with rfl | hb
      · omega
      · exact hx.1 b hb

theorem sortById_sorted {α : Type} (jobs : List (Nat × α)) :
    (sortById jobs).Pairwise (fun a b => a.1 ≤ b.1) := by
  unfold sortById
  induction jobs with
  | nil => simp
  | cons j l ih => exact insertJob_sorted j _ ih

theorem eq_of_id_eq {α : Type} {l : List (Nat × α)} (h : l.Pairwise (fun a b => a.1 < b.1)) {a b : Nat × α}
    (ha : a ∈ l) (hb : b ∈ l) (hab : a.1 = b.1) : a = b := by
  induction l with
  | nil => simp at ha
  | cons x xs ih =>
    have hx := List.pairwise_cons.1 h
    rcases List.mem_cons.1 ha with hax | hax
    · rcases List.mem_cons.1 hb with hbx | hbx
      · rw [hax, hbx]
      · have := hx.1 b hbx; rw [hax] at hab; omega
    · rcases List.mem_cons.1 hb with hbx | hbx
      · have := hx.1 a hax; rw [hbx] at hab; omega
      · exact ih hx.2 hax hbx

end DH.Select
