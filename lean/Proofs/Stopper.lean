import Model.Stopper

/-! Helper lemmas for C16 (core Lean only): metadata dicts, the per-job view of a protocol step. -/

namespace DH.Stopper

/-! ### metadata dicts -/

theorem mget_mset_self (k : MKey) (v : MVal) : ∀ m : Meta, mget k (mset k v m) = some v
  | [] => by simp [mset, mget]
  | (a, w) :: r => by
    by_cases h : a = k
    · simp [mset, mget, h]
    · simp [mset, mget, h, mget_mset_self k v r]

theorem mget_mset_ne {k k' : MKey} (v : MVal) (h : k' ≠ k) : ∀ m : Meta, mget k' (mset k v m) = mget k' m
  | [] => by simp [mset, mget, Ne.symm h]
  | (a, w) :: r => by
    by_cases h1 : a = k
    · subst h1
      simp [mset, mget, Ne.symm h]
    · by_cases h2 : a = k'
      · subst h2
        simp [mset, mget, h1]
      · simp [mset, mget, h1, h2, mget_mset_ne v h r]

/-- the failure rewriting loop of `SuccessiveHalvingStopper.observe` -/
theorem mget_foldl_rungs (o : Obj) (k : MKey) :
    ∀ (rs : List Nat) (m : Meta),
      mget k (rs.foldl (fun m r => mset (.rung r) (.obj o) m) m) =
        if ∃ r ∈ rs, k = .rung r then some (.obj o) else mget k m
  | [], m => by simp
  | r :: rs, m => by
    rw [List.foldl_cons, mget_foldl_rungs o k rs]
    by_cases h : ∃ r' ∈ rs, k = .rung r'
    · have : ∃ r' ∈ r :: rs, k = .rung r' := by
        obtain ⟨r', hr, e⟩ := h
        exact ⟨r', List.mem_cons_of_mem _ hr, e⟩
      simp [h, this]
    · by_cases hk : k = .rung r
      · have : ∃ r' ∈ r :: rs, k = .rung r' := ⟨r, List.mem_cons_self, hk⟩
        rw [if_neg h, if_pos this, hk, mget_mset_self]
      · have : ¬ ∃ r' ∈ r :: rs, k = .rung r' := by
          rintro ⟨r', hr, e⟩
          rcases List.mem_cons.1 hr with rfl | hr
          · exact hk e
          · exact h ⟨r', hr, e⟩
        rw [if_neg h, if_neg this, mget_mset_ne _ hk]

/-! ### one protocol step seen from the job's own record

`jobStep` is what `protoStep` does to the record of the stepping job; the rest of the system is only
read (`decide'` loads one metadata key from all jobs). -/

def haltIf (jr : JobRec) (r : Except Err Bool) : JobRec :=
  match r with
  | .ok false => jr
  | _ => { jr with halted := true }

def jobStep (P : Params) (s : Sys) (j : Nat) (jr : JobRec) (o : Obj) : JobRec × Except Err Bool :=
  match observeRec P jr (jr.js.budgets.length + 1) o with
  | (jr1, some e) => ({ jr1 with halted := true }, .error e)
  | (jr1, none) =>
    match baseStop P jr1 with
    | (jr2, .error e) => ({ jr2 with halted := true }, .error e)
    | (jr2, .ok true) => ({ jr2 with halted := true }, .ok true)
    | (jr2, .ok false) =>
      match jr2.js.objs.getLast?, jr2.js.budgets.getLast? with
      | some (.num q), some b =>
        let r := decide' .fixed P (s.set j jr2) jr2 b q
        (haltIf r.1 r.2, r.2)
      | _, _ => ({ jr2 with halted := true }, .error .indexError)

theorem getElem?_lt {α : Type} {l : List α} {i : Nat} {a : α} (h : l[i]? = some a) : i < l.length := by
  rcases List.getElem?_eq_some_iff.1 h with ⟨hi, _⟩
  exact hi

theorem markHalted_set (s : Sys) (j : Nat) (x : JobRec) (hj : j < s.length) :
    markHalted (s.set j x) j = s.set j { x with halted := true } := by
  unfold markHalted
  rw [List.getElem?_set_self (by simpa using hj)]
  simp [List.set_set]

theorem protoStep_eq (P : Params) (s : Sys) (j : Nat) (jr : JobRec) (o : Obj)
    (hj : s[j]? = some jr) (hl : jr.halted = false) :
    protoStep P s (.step j o) = (s.set j (jobStep P s j jr o).1, some (jobStep P s j jr o).2) := by
  have hlt : j < s.length := getElem?_lt hj
  have hget : ∀ x : JobRec, (s.set j x)[j]? = some x := fun x => List.getElem?_set_self hlt
  have hlt' : ∀ x : JobRec, j < (s.set j x).length := fun x => by simpa using hlt
  unfold protoStep protoStepGen jobStep
  simp only [hj, hl, Bool.false_eq_true, if_false, record]
  rcases hobs : observeRec P jr (jr.js.budgets.length + 1) o with ⟨jr1, _ | e⟩
  · simp only [stoppedGen, hget]
    rcases hbs : baseStop P jr1 with ⟨jr2, e | b⟩
    · simp [markHalted_set, hlt, List.set_set]
    · cases b
      · simp only [List.set_set]
        rcases hq : jr2.js.objs.getLast? with _ | (q | t) <;>
          rcases hb : jr2.js.budgets.getLast? with _ | b <;>
          simp [markHalted_set, hlt, List.set_set]
        rcases hd : decide' .fixed P (s.set j jr2) jr2 b q with ⟨jr3, e | b3⟩
        · simp [haltIf, markHalted_set, hlt, List.set_set]
        · cases b3 <;> simp [haltIf, markHalted_set, hlt, List.set_set]
      · simp [markHalted_set, hlt, List.set_set]
  · simp [markHalted_set, hlt]


/-! ### a property of every job record is an invariant of the protocol if `jobStep` preserves it -/

theorem protoRun_forall (P : Params) (I : JobRec → Prop) (h0 : I {})
    (hstep : ∀ (s : Sys) (j : Nat) (jr : JobRec) (o : Obj), (∀ (i : Nat) (x : JobRec), s[i]? = some x → I x) →
      s[j]? = some jr → jr.halted = false → I (jobStep P s j jr o).1) :
    ∀ (es : List Ev) (s : Sys), (∀ (i : Nat) (x : JobRec), s[i]? = some x → I x) →
      ∀ (i : Nat) (x : JobRec), (protoRun P s es).1[i]? = some x → I x := by
  intro es
  induction es with
  | nil => intro s hs i x h; exact hs i x (by simpa [protoRun, protoRunGen] using h)
  | cons e es ih =>
    intro s hs i x h
    have hrun : (protoRun P s (e :: es)).1 = (protoRun P (protoStep P s e).1 es).1 := by
      simp [protoRun, protoRunGen, protoStep]
    rw [hrun] at h
    refine ih (protoStep P s e).1 ?_ i x h
    intro i' x' h'
    cases e with
    | add =>
      simp only [protoStep, protoStepGen, addJob] at h'
      rcases Nat.lt_or_ge i' s.length with hlt | hge
      · rw [List.getElem?_append_left hlt] at h'
        exact hs i' x' h'
      · rw [List.getElem?_append_right hge] at h'
        have : x' = {} := by
          rcases Nat.eq_zero_or_pos (i' - s.length) with h0' | hp
          · rw [h0'] at h'; simpa using h'.symm
          · have hnone : ([({} : JobRec)] : List JobRec)[i' - s.length]? = none := by
              apply List.getElem?_eq_none; simp; omega
            rw [hnone] at h'; cases h'
        rw [this]; exact h0
    | step j o =>
      rcases hj : s[j]? with _ | jr
      · have : protoStep P s (.step j o) = (s, none) := by simp [protoStep, protoStepGen, hj]
        rw [this] at h'; exact hs i' x' h'
      · by_cases hl : jr.halted = true
        · have : protoStep P s (.step j o) = (s, none) := by simp [protoStep, protoStepGen, hj, hl]
          rw [this] at h'; exact hs i' x' h'
        · have hl' : jr.halted = false := by simpa using hl
          rw [protoStep_eq P s j jr o hj hl'] at h'
          by_cases hij : j = i'
          · subst hij
            rw [List.getElem?_set_self (getElem?_lt hj)] at h'
            cases h'
            exact hstep s j jr o hs hj hl'
          · rw [List.getElem?_set_ne hij] at h'
            exact hs i' x' h'

theorem reach_forall (P : Params) (I : JobRec → Prop) (h0 : I {})
    (hstep : ∀ (s : Sys) (j : Nat) (jr : JobRec) (o : Obj), (∀ (i : Nat) (x : JobRec), s[i]? = some x → I x) →
      s[j]? = some jr → jr.halted = false → I (jobStep P s j jr o).1)
    (es : List Ev) (i : Nat) (x : JobRec) (h : (reach P es)[i]? = some x) : I x :=
  protoRun_forall P I h0 hstep es [] (by intro i x h; simp at h) i x h


/-! ### decision budgets -/

/-- the `r`-th decision budget: SHA `(min_steps-1) + rf^(mesr+r)`, median `min_steps + r*interval_steps` -/
def decBudget (P : Params) (r : Nat) : Nat :=
  match P.kind with
  | .sha ms rf mesr _ _ _ => (ms - 1) + rf ^ (mesr + r)
  | .median ms _ iv _ => ms + r * iv
  | _ => 0

/-- the parameter ranges of the property (rung-based stoppers only) -/
def RungValid (P : Params) : Prop :=
  match P.kind with
  | .sha ms rf _ _ _ _ => 1 ≤ ms ∧ 2 ≤ rf
  | .median ms _ iv _ => 1 ≤ ms ∧ 1 ≤ iv
  | _ => False

/-- the test both `observe` and `stop` use to recognise a decision budget -/
def decTest (P : Params) (rung b : Nat) : Bool :=
  match P.kind with
  | .sha ms rf mesr _ _ _ => decide (shaHB ms rf mesr rung ≤ (b : Int))
  | .median ms _ iv _ => medianIsHalting ms iv b == some true
  | _ => false

theorem dec_pos {P : Params} (hv : RungValid P) : 0 < decBudget P 0 := by
  cases hk : P.kind with
  | sha ms rf mesr mc mfc eps =>
    simp only [RungValid, hk] at hv
    simp only [decBudget, hk]
    have : 0 < rf ^ (mesr + 0) := Nat.pow_pos (by omega)
    omega
  | median ms mc iv eps =>
    simp only [RungValid, hk] at hv
    simp only [decBudget, hk]; omega
  | idle => simp [RungValid, hk] at hv
  | const st => simp [RungValid, hk] at hv

theorem dec_lt_succ {P : Params} (hv : RungValid P) (r : Nat) : decBudget P r < decBudget P (r + 1) := by
  cases hk : P.kind with
  | sha ms rf mesr mc mfc eps =>
    simp only [RungValid, hk] at hv
    simp only [decBudget, hk]
    have h0 : 0 < rf ^ (mesr + r) := Nat.pow_pos (by omega)
    have h1 : rf ^ (mesr + r) * 2 ≤ rf ^ (mesr + r) * rf := Nat.mul_le_mul_left _ hv.2
    have h2 : rf ^ (mesr + (r + 1)) = rf ^ (mesr + r) * rf := by rw [← Nat.add_assoc, Nat.pow_succ]
    omega
  | median ms mc iv eps =>
    simp only [RungValid, hk] at hv
    simp only [decBudget, hk]
    rw [Nat.succ_mul]; omega
  | idle => simp [RungValid, hk] at hv
  | const st => simp [RungValid, hk] at hv

theorem dec_mono {P : Params} (hv : RungValid P) {r r' : Nat} (h : r ≤ r') : decBudget P r ≤ decBudget P r' := by
  induction h with
  | refl => exact Nat.le_refl _
  | step _ ih => exact Nat.le_trans ih (Nat.le_of_lt (dec_lt_succ hv _))

theorem dec_lt_of_lt {P : Params} (hv : RungValid P) {r r' : Nat} (h : r < r') : decBudget P r < decBudget P r' :=
  Nat.lt_of_lt_of_le (dec_lt_succ hv r) (dec_mono hv h)

/-- with the rung counter in step with the number of observations, the test fires exactly at the
`rung`-th decision budget -/
theorem decTest_iff {P : Params} (hv : RungValid P) {rung n : Nat}
    (below : ∀ r, r < rung → decBudget P r ≤ n) (above : n < decBudget P rung) :
    decTest P rung (n + 1) = true ↔ n + 1 = decBudget P rung := by
  cases hk : P.kind with
  | sha ms rf mesr mc mfc eps =>
    simp only [RungValid, hk] at hv
    have hd : decBudget P rung = (ms - 1) + rf ^ (mesr + rung) := by simp [decBudget, hk]
    have above' : n < (ms - 1) + rf ^ (mesr + rung) := hd ▸ above
    rw [hd]
    simp only [decTest, hk, shaHB]
    constructor
    · intro h; have h' := of_decide_eq_true h; omega
    · intro h; apply decide_eq_true; omega
  | median ms mc iv eps =>
    simp only [RungValid, hk] at hv
    have hd : ∀ r, decBudget P r = ms + r * iv := by intro r; simp [decBudget, hk]
    rw [hd] at above ⊢
    have hiv : iv ≠ 0 := by omega
    simp only [decTest, hk, medianIsHalting, hiv, if_false]
    constructor
    · intro h
      by_cases hlt : n + 1 < ms
      · simp [hlt] at h
      · have hmod : (n + 1 - ms) % iv = 0 := by simpa [hlt] using h
        obtain ⟨c, hc⟩ := Nat.dvd_of_mod_eq_zero hmod
        have hn : n + 1 = ms + c * iv := by rw [Nat.mul_comm c iv]; omega
        rcases Nat.lt_trichotomy c rung with hlt' | heq | hgt
        · have := below c hlt'; rw [hd] at this; omega
        · rw [← heq]; exact hn
        · have h1 : (rung + 1) * iv ≤ c * iv := Nat.mul_le_mul_right iv hgt
          rw [Nat.succ_mul] at h1; omega
    · intro h
      have hlt : ¬ n + 1 < ms := by omega
      have : n + 1 - ms = rung * iv := by omega
      simp [hlt, this]
  | idle => simp [RungValid, hk] at hv
  | const st => simp [RungValid, hk] at hv


/-! ### what each stage of a step does to the job's record -/

structure ObsSpec (P : Params) (jr : JobRec) (b : Nat) (o : Obj) (jr1 : JobRec) : Prop where
  halted : jr1.halted = jr.halted
  rung : jr1.js.rung = jr.js.rung
  objs : jr1.js.objs = jr.js.objs ++ [o]
  budgets : jr1.js.budgets = jr.js.budgets ++ [b]
  old_or_new : ∀ r v, mget (.rung r) jr1.md = some v →
    mget (.rung r) jr.md = some v ∨
      (v = .obj o ∧ ((∃ t, o = .fail t) ∨ (r = jr.js.rung ∧ decTest P jr.js.rung b = true)))
  own : decTest P jr.js.rung b = true → ∀ q, o = .num q → mget (.rung jr.js.rung) jr1.md = some (.obj o)

theorem observeRec_spec {P : Params} (hv : RungValid P) (jr : JobRec) (b : Nat) (o : Obj) :
    ∃ jr1, observeRec P jr b o = (jr1, none) ∧ ObsSpec P jr b o jr1 := by
  cases hk : P.kind with
  | idle => simp [RungValid, hk] at hv
  | const st => simp [RungValid, hk] at hv
  | sha ms rf mesr mc mfc eps =>
    by_cases ht : shaHB ms rf mesr jr.js.rung ≤ (b : Int)
    · have hdt : decTest P jr.js.rung b = true := by simp [decTest, hk, ht]
      cases o with
      | num q =>
        refine ⟨_, by simp [observeRec, hk, baseObserve, ht]; rfl, ?_⟩
        refine ⟨rfl, rfl, rfl, rfl, ?_, ?_⟩
        · intro r v h
          by_cases hr : r = jr.js.rung
          · subst hr
            simp only [mget_mset_self] at h
            right; exact ⟨by cases h; rfl, Or.inr ⟨rfl, hdt⟩⟩
          · have hne : MKey.rung r ≠ MKey.rung jr.js.rung := by intro e; cases e; exact hr rfl
            left; simpa [mget_mset_ne _ hne] using h
        · intro _ q' _; simp [mget_mset_self]
      | fail t =>
        refine ⟨_, by simp [observeRec, hk, baseObserve, ht]; rfl, ?_⟩
        refine ⟨rfl, rfl, rfl, rfl, ?_, ?_⟩
        · intro r v h
          simp only at h
          by_cases hr : r = jr.js.rung
          · subst hr
            rw [mget_mset_self] at h
            right; exact ⟨by cases h; rfl, Or.inl ⟨t, rfl⟩⟩
          · have hne : MKey.rung r ≠ MKey.rung jr.js.rung := by intro e; cases e; exact hr rfl
            rw [mget_mset_ne _ hne, mget_foldl_rungs] at h
            split at h
            · right; exact ⟨by cases h; rfl, Or.inl ⟨t, rfl⟩⟩
            · left; simpa [mget_mset_ne _ hne] using h
        · intro _ q' hq; cases hq
    · have hdt : decTest P jr.js.rung b = false := by simp [decTest, hk, ht]
      cases o with
      | num q =>
        refine ⟨_, by simp [observeRec, hk, baseObserve, ht]; rfl, ?_⟩
        refine ⟨rfl, rfl, rfl, rfl, ?_, ?_⟩
        · intro r v h; left; exact h
        · intro h; simp [hdt] at h
      | fail t =>
        refine ⟨_, by simp [observeRec, hk, baseObserve, ht]; rfl, ?_⟩
        refine ⟨rfl, rfl, rfl, rfl, ?_, ?_⟩
        · intro r v h
          simp only at h
          rw [mget_foldl_rungs] at h
          split at h
          · right; exact ⟨by cases h; rfl, Or.inl ⟨t, rfl⟩⟩
          · left; exact h
        · intro h; simp [hdt] at h
  | median ms mc iv eps =>
    simp only [RungValid, hk] at hv
    have hiv : iv ≠ 0 := by omega
    rcases hm : medianIsHalting ms iv b with _ | _ | _
    · exfalso
      unfold medianIsHalting at hm
      by_cases h : b < ms <;> simp [h, hiv] at hm
    · have hdt : decTest P jr.js.rung b = false := by simp [decTest, hk, hm]
      refine ⟨_, by simp [observeRec, hk, baseObserve, hm]; rfl, ?_⟩
      refine ⟨rfl, rfl, rfl, rfl, ?_, ?_⟩
      · intro r v h; left; exact h
      · intro h; simp [hdt] at h
    · have hdt : decTest P jr.js.rung b = true := by simp [decTest, hk, hm]
      refine ⟨_, by simp [observeRec, hk, baseObserve, hm]; rfl, ?_⟩
      refine ⟨rfl, rfl, rfl, rfl, ?_, ?_⟩
      · intro r v h
        by_cases hr : r = jr.js.rung
        · subst hr
          simp only [mget_mset_self] at h
          right
          refine ⟨by cases h; rfl, ?_⟩
          cases o with
          | num q => exact Or.inr ⟨rfl, hdt⟩
          | fail t => exact Or.inl ⟨t, rfl⟩
        · have hne : MKey.rung r ≠ MKey.rung jr.js.rung := by intro e; cases e; exact hr rfl
          left; simpa [mget_mset_ne _ hne] using h
      · intro _ q' _; simp [mget_mset_self, transformObjective]

structure BaseSpec (jr jr2 : JobRec) : Prop where
  halted : jr2.halted = jr.halted
  rung : jr2.js.rung = jr.js.rung
  objs : jr2.js.objs = jr.js.objs
  budgets : jr2.js.budgets = jr.js.budgets
  rungs : ∀ r, mget (.rung r) jr2.md = mget (.rung r) jr.md

def baseResult (P : Params) (o : Obj) (b : Nat) : Bool :=
  match o with
  | .fail _ => true
  | .num _ => decide (P.maxSteps ≤ b)

theorem baseStop_spec (P : Params) (jr : JobRec) (o : Obj) (b : Nat)
    (ho : jr.js.objs.getLast? = some o) (hb : jr.js.budgets.getLast? = some b) :
    ∃ jr2, baseStop P jr = (jr2, .ok (baseResult P o b)) ∧ BaseSpec jr jr2 := by
  have hne : ∀ r, MKey.rung r ≠ MKey.completed := by intro r e; cases e
  cases hc : jr.js.stopCalled
  · cases o with
    | fail t =>
      refine ⟨{ jr with js := { jr.js with stopCalled := true }, md := mset .completed (.bool false) jr.md }, ?_, ?_⟩
      · simp [baseStop, hc, ho, hb, baseResult]
      · exact ⟨rfl, rfl, rfl, rfl, fun r => mget_mset_ne _ (hne r) _⟩
    | num q =>
      by_cases hm : P.maxSteps ≤ b
      · refine ⟨{ jr with js := { jr.js with stopCalled := true },
                          md := mset .completed (.bool true) (mset .completed (.bool false) jr.md) }, ?_, ?_⟩
        · simp [baseStop, hc, ho, hb, baseResult, hm]
        · exact ⟨rfl, rfl, rfl, rfl, fun r => by simp only [mget_mset_ne _ (hne r)]⟩
      · refine ⟨{ jr with js := { jr.js with stopCalled := true }, md := mset .completed (.bool false) jr.md }, ?_, ?_⟩
        · simp [baseStop, hc, ho, hb, baseResult, hm]
        · exact ⟨rfl, rfl, rfl, rfl, fun r => mget_mset_ne _ (hne r) _⟩
  · cases o with
    | fail t =>
      refine ⟨jr, ?_, ⟨rfl, rfl, rfl, rfl, fun _ => rfl⟩⟩
      simp [baseStop, hc, ho, hb, baseResult]
    | num q =>
      by_cases hm : P.maxSteps ≤ b
      · refine ⟨{ jr with md := mset .completed (.bool true) jr.md }, ?_, ?_⟩
        · simp [baseStop, hc, ho, hb, baseResult, hm]
        · exact ⟨rfl, rfl, rfl, rfl, fun r => mget_mset_ne _ (hne r) _⟩
      · refine ⟨jr, ?_, ⟨rfl, rfl, rfl, rfl, fun _ => rfl⟩⟩
        simp [baseStop, hc, ho, hb, baseResult, hm]

theorem decide_spec (P : Params) (s : Sys) (jr : JobRec) (b : Nat) (q : ERat) :
    (decide' .fixed P s jr b q).1.md = jr.md ∧ (decide' .fixed P s jr b q).1.halted = jr.halted ∧
    (decide' .fixed P s jr b q).1.js.objs = jr.js.objs ∧ (decide' .fixed P s jr b q).1.js.budgets = jr.js.budgets ∧
    ((decide' .fixed P s jr b q).2 = .ok false →
      (decide' .fixed P s jr b q).1.js.rung = if decTest P jr.js.rung b = true then jr.js.rung + 1 else jr.js.rung) := by
  cases hk : P.kind with
  | idle => simp [decide', hk, decTest]
  | const st => simp [decide', hk, decTest]
  | sha ms rf mesr mc mfc eps =>
    simp only [decide', hk, decTest, shaDecide]
    by_cases h1 : (b : Int) < shaHB ms rf mesr jr.js.rung
    · have : ¬ shaHB ms rf mesr jr.js.rung ≤ (b : Int) := by omega
      simp [h1, this]
    · have h1' : shaHB ms rf mesr jr.js.rung ≤ (b : Int) := by omega
      simp only [h1, if_false, h1', decide_true, if_true]
      split
      · simp [bumpRung]
      · split
        · simp
        · split
          · simp
          · split
            · simp
            · split <;> simp [bumpRung]
  | median ms mc iv eps =>
    simp only [decide', hk, decTest, medianDecide]
    rcases medianIsHalting ms iv b with _ | _ | _
    · simp
    · simp
    · simp only [beq_self_eq_true, if_true]
      split
      · simp [bumpRung]
      · split
        · simp
        · split <;> simp [bumpRung]


/-! ### the alignment invariant -/

/-- the entry stored under rung `r` is the objective observed at the `r`-th decision budget -/
def StrictAt (P : Params) (jr : JobRec) (r : Nat) (v : MVal) : Prop :=
  ∃ o, v = .obj o ∧ jr.js.objs[decBudget P r - 1]? = some o

/-- … or (SHA's failure rewriting) the failure the job observed last -/
def AlignedAt (P : Params) (jr : JobRec) (r : Nat) (v : MVal) : Prop :=
  ∃ o, v = .obj o ∧
    (jr.js.objs[decBudget P r - 1]? = some o ∨ ((∃ t, o = .fail t) ∧ jr.js.objs.getLast? = some o))

/-- a job that is still running: budgets 1..n observed, the rung counter counts the decision budgets
passed, every rung entry strictly aligned -/
structure Live (P : Params) (jr : JobRec) : Prop where
  budgets : jr.js.budgets = List.range' 1 jr.js.objs.length
  below : ∀ r, r < jr.js.rung → decBudget P r ≤ jr.js.objs.length
  above : jr.js.objs.length < decBudget P jr.js.rung
  strict : ∀ r v, mget (.rung r) jr.md = some v → StrictAt P jr r v

def JInv (P : Params) (jr : JobRec) : Prop :=
  (jr.halted = false → Live P jr) ∧ (∀ r v, mget (.rung r) jr.md = some v → AlignedAt P jr r v)

theorem StrictAt.aligned {P : Params} {jr : JobRec} {r : Nat} {v : MVal} (h : StrictAt P jr r v) :
    AlignedAt P jr r v := by
  obtain ⟨o, hv, ho⟩ := h
  exact ⟨o, hv, Or.inl ho⟩

theorem JInv_fresh {P : Params} (hv : RungValid P) : JInv P {} := by
  refine ⟨fun _ => ⟨rfl, ?_, dec_pos hv, ?_⟩, ?_⟩
  · intro r h; exact absurd h (Nat.not_lt_zero _)
  · intro r v h; simp [mget] at h
  · intro r v h; simp [mget] at h

/-- the entries after one more observation `o` (record + the later stages, which leave rung entries alone) -/
theorem aligned_after {P : Params} (hv : RungValid P) {jr jr' : JobRec} {o : Obj} (hlive : Live P jr)
    (hobjs : jr'.js.objs = jr.js.objs ++ [o])
    (hmd : ∀ r v, mget (.rung r) jr'.md = some v →
      mget (.rung r) jr.md = some v ∨
        (v = .obj o ∧ ((∃ t, o = .fail t) ∨
          (r = jr.js.rung ∧ decTest P jr.js.rung (jr.js.objs.length + 1) = true)))) :
    (∀ r v, mget (.rung r) jr'.md = some v → AlignedAt P jr' r v) ∧
    ((∃ q, o = .num q) → ∀ r v, mget (.rung r) jr'.md = some v → StrictAt P jr' r v) := by
  have old : ∀ r v, mget (.rung r) jr.md = some v → StrictAt P jr' r v := by
    intro r v h
    obtain ⟨o', hv', ho'⟩ := hlive.strict r v h
    refine ⟨o', hv', ?_⟩
    rw [hobjs, List.getElem?_append_left (getElem?_lt ho')]
    exact ho'
  have new : ∀ r, r = jr.js.rung → decTest P jr.js.rung (jr.js.objs.length + 1) = true →
      StrictAt P jr' r (.obj o) := by
    intro r hr ht
    have hn := (decTest_iff hv hlive.below hlive.above).1 ht
    refine ⟨o, rfl, ?_⟩
    rw [hr, ← hn, hobjs]
    simp
  constructor
  · intro r v h
    rcases hmd r v h with h1 | ⟨hv', h2⟩
    · exact (old r v h1).aligned
    · rcases h2 with ⟨t, ht⟩ | ⟨hr, ht⟩
      · refine ⟨o, hv', Or.inr ⟨⟨t, ht⟩, ?_⟩⟩
        rw [hobjs]; simp
      · rw [hv']; exact (new r hr ht).aligned
  · rintro ⟨q, hq⟩ r v h
    rcases hmd r v h with h1 | ⟨hv', h2⟩
    · exact old r v h1
    · rcases h2 with ⟨t, ht⟩ | ⟨hr, ht⟩
      · rw [hq] at ht; cases ht
      · rw [hv']; exact new r hr ht

theorem range'_succ_one (n : Nat) : List.range' 1 n ++ [n + 1] = List.range' 1 (n + 1) := by
  rw [List.range'_concat]; simp [Nat.add_comm]

/-- `jobStep` preserves the invariant of the stepping job, whatever the other jobs stored -/
theorem jobStep_inv {P : Params} (hv : RungValid P) (s : Sys) (j : Nat) (jr : JobRec) (o : Obj)
    (hl : jr.halted = false) (hi : JInv P jr) : JInv P (jobStep P s j jr o).1 := by
  have hlive := hi.1 hl
  have hlen : jr.js.budgets.length = jr.js.objs.length := by rw [hlive.budgets]; simp
  obtain ⟨jr1, hobs, O⟩ := observeRec_spec hv jr (jr.js.budgets.length + 1) o
  have ho1 : jr1.js.objs.getLast? = some o := by rw [O.objs]; simp
  have hb1 : jr1.js.budgets.getLast? = some (jr.js.budgets.length + 1) := by rw [O.budgets]; simp
  obtain ⟨jr2, hbase, B⟩ := baseStop_spec P jr1 o (jr.js.budgets.length + 1) ho1 hb1
  -- rung entries of jr2 in terms of jr
  have hmd2 : ∀ r v, mget (.rung r) jr2.md = some v →
      mget (.rung r) jr.md = some v ∨
        (v = .obj o ∧ ((∃ t, o = .fail t) ∨
          (r = jr.js.rung ∧ decTest P jr.js.rung (jr.js.objs.length + 1) = true))) := by
    intro r v h
    rw [B.rungs] at h
    have := O.old_or_new r v h
    rwa [hlen] at this
  have hobjs2 : jr2.js.objs = jr.js.objs ++ [o] := by rw [B.objs, O.objs]
  have A2 := aligned_after hv hlive hobjs2 hmd2
  have halt2 : JInv P { jr2 with halted := true } := by
    refine ⟨fun h => absurd h (by simp), ?_⟩
    intro r v h
    obtain ⟨o', h1, h2⟩ := A2.1 r v h
    exact ⟨o', h1, h2⟩
  unfold jobStep
  rw [hobs]; simp only [hbase]
  cases hres : baseResult P o (jr.js.budgets.length + 1) with
  | true => simpa using halt2
  | false =>
    have hnum : ∃ q, o = .num q := by
      cases o with
      | num q => exact ⟨q, rfl⟩
      | fail t => simp [baseResult] at hres
    obtain ⟨q, hq⟩ := hnum
    have ho2 : jr2.js.objs.getLast? = some (.num q) := by rw [B.objs, ho1, hq]
    have hb2 : jr2.js.budgets.getLast? = some (jr.js.budgets.length + 1) := by rw [B.budgets, hb1]
    simp only [ho2, hb2]
    obtain ⟨hdmd, hdh, hdo, hdb, hdr⟩ := decide_spec P (s.set j jr2) jr2 (jr.js.budgets.length + 1) q
    generalize hd : decide' .fixed P (s.set j jr2) jr2 (jr.js.budgets.length + 1) q = res at *
    obtain ⟨jr3, r⟩ := res
    simp only at hdmd hdh hdo hdb hdr ⊢
    have hobjs3 : jr3.js.objs = jr.js.objs ++ [o] := by rw [hdo, hobjs2]
    have hmd3 : ∀ r v, mget (.rung r) jr3.md = some v →
        mget (.rung r) jr.md = some v ∨
          (v = .obj o ∧ ((∃ t, o = .fail t) ∨
            (r = jr.js.rung ∧ decTest P jr.js.rung (jr.js.objs.length + 1) = true))) := by
      intro r v h; rw [hdmd] at h; exact hmd2 r v h
    have A3 := aligned_after hv hlive hobjs3 hmd3
    by_cases hr : r = .ok false
    · subst hr
      simp only [haltIf]
      refine ⟨fun _ => ?_, A3.1⟩
      have hrung := hdr rfl
      rw [B.rung, O.rung, hlen] at hrung
      have hlen3 : jr3.js.objs.length = jr.js.objs.length + 1 := by rw [hobjs3]; simp
      refine ⟨?_, ?_, ?_, A3.2 ⟨q, hq⟩⟩
      · rw [hdb, B.budgets, O.budgets, hlen3, hlen, hlive.budgets, range'_succ_one]
      · intro r' hr'
        rw [hlen3]
        by_cases ht : decTest P jr.js.rung (jr.js.objs.length + 1) = true
        · rw [if_pos ht] at hrung
          have hn := (decTest_iff hv hlive.below hlive.above).1 ht
          rw [hrung] at hr'
          rcases Nat.lt_succ_iff_lt_or_eq.1 hr' with h | h
          · exact Nat.le_succ_of_le (hlive.below r' h)
          · rw [h, hn]; exact Nat.le_refl _
        · rw [if_neg ht] at hrung
          rw [hrung] at hr'
          exact Nat.le_succ_of_le (hlive.below r' hr')
      · rw [hlen3]
        by_cases ht : decTest P jr.js.rung (jr.js.objs.length + 1) = true
        · rw [if_pos ht] at hrung
          have hn := (decTest_iff hv hlive.below hlive.above).1 ht
          rw [hrung, hn]; exact dec_lt_succ hv _
        · rw [if_neg ht] at hrung
          rw [hrung]
          have := hlive.above
          have hne : jr.js.objs.length + 1 ≠ decBudget P jr.js.rung := fun e =>
            ht ((decTest_iff hv hlive.below hlive.above).2 e)
          omega
    · have : haltIf jr3 r = { jr3 with halted := true } := by
        cases r with
        | error e => rfl
        | ok b => cases b with
          | true => rfl
          | false => exact absurd rfl hr
      rw [this]
      exact ⟨fun h => absurd h (by simp), fun r' v h => A3.1 r' v h⟩

/-- every job of every reachable system satisfies the invariant -/
theorem reach_inv {P : Params} (hv : RungValid P) (es : List Ev) (i : Nat) (x : JobRec)
    (h : (reach P es)[i]? = some x) : JInv P x :=
  reach_forall P (JInv P) (JInv_fresh hv)
    (fun s j jr o hs hj hl => jobStep_inv hv s j jr o hl (hs j jr hj)) es i x h

end DH.Stopper
