import Proofs.Pareto

/-! `is_pareto_efficient` and the sorted front. -/

namespace DH.Pareto

theorem isParetoEfficient_iff (new : Vec) (objs : List Vec) :
    isParetoEfficient new objs = true ↔ ∀ r ∈ objs, wdVec r new = false := by
  simp [isParetoEfficient]

theorem lexLe_total : ∀ a b : Vec, (lexLe a b || lexLe b a) = true
  | [], _ => by simp [lexLe]
  | _ :: _, [] => by simp [lexLe]
  | x :: xs, y :: ys => by
    simp only [lexLe]
    rcases Rat.le_total (a := x) (b := y) with h | h
    · rcases Rat.le_iff_lt_or_eq.1 h with h | h
      · simp [h]
      · subst h; have := lexLe_total xs ys
        simp only [Bool.or_eq_true] at this
        rcases this with t | t <;> simp [t, Rat.lt_irrefl]
    · rcases Rat.le_iff_lt_or_eq.1 h with h | h
      · simp [h]
      · subst h; have := lexLe_total xs ys
        simp only [Bool.or_eq_true] at this
        rcases this with t | t <;> simp [t, Rat.lt_irrefl]

theorem rat_lt_trans {a b c : Rat} (h1 : a < b) (h2 : b < c) : a < c := by
  have h1' := Rat.le_of_lt h1
  have h2' := Rat.le_of_lt h2
  have hac : a ≤ c := Rat.le_trans h1' h2'
  rcases Rat.le_iff_lt_or_eq.1 hac with h | h
  · exact h
  · subst h
    have : a = b := Rat.le_antisymm h1' h2'
    subst this; exact absurd h1 Rat.lt_irrefl

theorem lexLe_trans : ∀ a b c : Vec, lexLe a b = true → lexLe b c = true → lexLe a c = true
  | [], _, _, _, _ => by simp [lexLe]
  | _ :: _, [], _, h, _ => by simp [lexLe] at h
  | _ :: _, _ :: _, [], _, h => by simp [lexLe] at h
  | x :: xs, y :: ys, z :: zs, h1, h2 => by
    simp only [lexLe, Bool.or_eq_true, Bool.and_eq_true, decide_eq_true_eq] at h1 h2 ⊢
    rcases h1 with h1 | ⟨rfl, h1⟩ <;> rcases h2 with h2 | ⟨rfl, h2⟩
    · exact Or.inl (rat_lt_trans h1 h2)
    · exact Or.inl h1
    · exact Or.inl h2
    · exact Or.inr ⟨rfl, lexLe_trans xs ys zs h1 h2⟩

/-- the sorted front is a permutation of the (unsorted) front indices, ordered lexicographically -/
theorem frontSortedIdx_spec (pts : List Vec) (order : List Nat)
    (hval : ∀ i ∈ ndsIdx pts order, i < pts.length) :
    (frontSortedIdx pts order).Perm (ndsIdx pts order) ∧
    ((((ndsIdx pts order).filterMap (fun i => (pts[i]?).map (fun v => (i, v)))).mergeSort
      (fun a b => lexLe a.2 b.2)).Pairwise (fun a b => lexLe a.2 b.2 = true)) := by
  constructor
  · unfold frontSortedIdx
    have hp := List.mergeSort_perm ((ndsIdx pts order).filterMap (fun i => (pts[i]?).map (fun v => (i, v))))
      (fun a b => lexLe a.2 b.2)
    refine (hp.map (·.1)).trans ?_
    have : ((ndsIdx pts order).filterMap (fun i => (pts[i]?).map (fun v => (i, v)))).map (·.1)
        = ndsIdx pts order := by
      generalize ndsIdx pts order = l at hval
      induction l with
      | nil => simp
      | cons a t ih =>
        have ha : a < pts.length := hval a (by simp)
        have ht := ih (fun i hi => hval i (by simp [hi]))
        simp [List.filterMap_cons, List.getElem?_eq_getElem ha, ht]
    rw [this]
  · exact List.pairwise_mergeSort (le := fun (a b : Nat × Vec) => lexLe a.2 b.2)
      (fun a b c h1 h2 => lexLe_trans a.2 b.2 c.2 h1 h2) (fun a b => lexLe_total a.2 b.2) _

end DH.Pareto
