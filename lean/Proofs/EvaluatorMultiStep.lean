import Proofs.EvaluatorMultiInv

/-!
Every call of every evaluator preserves the invariant `SInv` of the system (`SInv.step`), hence every
reachable system satisfies it (`mreach_inv`).  Core Lean only.
-/

namespace DH.Evaluator

variable {C O : Type}

/-! ### the stored output mirrors the owner's output -/

theorem rowP_procRow {p : MParams C O} {r : Row C O} (h : RowP p r) : RowP p (procRow p r) := by
  unfold RowP procRow at *
  cases hh : p.hpo <;> simp_all

theorem rowP_cancelRow {p : MParams C O} {r : Row C O} (h : RowP p r) : RowP p (cancelRow p r) := by
  unfold RowP cancelRow at *
  cases hh : p.hpo <;> simp_all

theorem rowP_mMarkStarted {p : MParams C O} {rows : List (Row C O)} (st : List Nat)
    (h : ∀ r ∈ rows, RowP p r) : ∀ r ∈ mMarkStarted rows st, RowP p r := by
  intro r hr
  unfold mMarkStarted at hr
  obtain ⟨x, hx, rfl⟩ := List.mem_map.1 hr
  split
  · exact h x hx
  · exact h x hx

theorem rowP_updRow {p : MParams C O} {rows : List (Row C O)} (g : Nat) (r' : Row C O) (hr' : RowP p r')
    (h : ∀ r ∈ rows, RowP p r) : ∀ r ∈ updRow rows g (fun _ => r'), RowP p r := by
  intro r hr
  unfold updRow at hr
  obtain ⟨x, hx, rfl⟩ := List.mem_map.1 hr
  split
  · exact hr'
  · exact h x hx

theorem rowP_mProcessAll (p : MParams C O) (via : Via) : ∀ (l : List Nat) (st : List (Row C O) × MEv C O),
    (∀ r ∈ st.1, RowP p r) → ∀ r ∈ (mProcessAll p via st l).1.1, RowP p r
  | [], _, h => h
  | g :: rest, st, h => by
    simp only [mProcessAll]
    cases h1 : mProcessOne p via st g with
    | error e => exact h
    | ok x =>
      obtain ⟨st1, j⟩ := x
      obtain ⟨r, hrow, _, _, _, hst1⟩ := mProcessOne_ok h1
      have h1' : ∀ r ∈ st1.1, RowP p r := by
        rw [hst1]
        exact rowP_updRow g _ (rowP_procRow (h r (rowOf_some hrow).1)) h
      have ih := rowP_mProcessAll p via rest st1 h1'
      simp only
      cases h2 : mProcessAll p via st1 rest with
      | mk st2 res =>
        rw [h2] at ih
        cases res <;> exact ih

theorem rowP_mCancelActive (p : MParams C O) (st : List (Row C O) × MEv C O) (h : ∀ r ∈ st.1, RowP p r) :
    ∀ r ∈ (mCancelActive p st).1, RowP p r := by
  rw [mCancelActive_eq]
  intro r hr
  obtain ⟨x, hx, rfl⟩ := List.mem_map.1 hr
  split
  · exact rowP_cancelRow (h x hx)
  · exact h x hx

theorem rowP_mCreateTasks (p : MParams C O) (who : Nat) : ∀ (cfgs : List C) (k : Nat)
    (st : List (Row C O) × MEv C O), (∀ r ∈ st.1, RowP p r) → ∀ r ∈ (mCreateTasks who st k cfgs).1.1, RowP p r
  | [], _, _, h => h
  | c :: cs, k, st, h => by
    simp only [mCreateTasks]
    split
    · exact h
    · apply rowP_mCreateTasks p who cs (k + 1)
      intro r hr
      rw [mCreateTask_eq] at hr
      rcases List.mem_append.1 hr with h1 | h1
      · exact h r h1
      · simp only [List.mem_singleton] at h1
        subst h1
        unfold RowP newRow
        cases p.hpo <;> rfl

/-! ### histories -/

theorem HistOk.delta {p : MParams C O} {rows rows' : List (Row C O)} {me me' : MEv C O} {ids : List Nat}
    {via : Via} (h : HistOk p rows me) (hd : Delta me me' ids via) (hlen : rows.length ≤ rows'.length)
    (hfrozen : ∀ r ∈ rows, activeRow r = false → r ∈ rows') : HistOk p rows' me' := by
  have h0 := h.frame hlen hfrozen
  have hmap : (me.delivered ++ ids.map (fun i => (i, via))).map (·.1) = me.delivered.map (·.1) ++ ids := by
    rw [List.map_append, List.map_map]
    congr 1
    conv => rhs; rw [← List.map_id ids]
    rfl
  refine ⟨?_, ?_, ?_, ?_, ?_, ?_⟩
  · rw [hd.gathered, hd.delivered, hd.reported, hmap]
    exact perm_append_mid h0.gath
  · rw [hd.dumped, hd.jobsDone, hd.delivered, hd.reported, hmap, ← List.append_assoc]
    exact perm_append_mid h0.dumpOnce
  · rw [hd.reported]; exact h0.repNodup
  · rw [hd.reported, hd.jobs]; exact h0.repForeign
  · rw [hd.foreign, hd.reported]; exact h0.foreign
  · rw [hd.foreign]; exact h0.fobj

/-- the history fields `submit` / `setMax` leave alone -/
structure SameHist (me me' : MEv C O) : Prop where
  gathered : me'.gathered = me.gathered
  jobsDone : me'.jobsDone = me.jobsDone
  delivered : me'.delivered = me.delivered
  foreign : me'.foreign = me.foreign
  reported : me'.reported = me.reported
  dumped : me'.dumped = me.dumped

theorem HistOk.same {p : MParams C O} {rows rows' : List (Row C O)} {me me' : MEv C O} (h : HistOk p rows me)
    (hs : SameHist me me') (hlen : rows.length ≤ rows'.length)
    (hfrozen : ∀ r ∈ rows, activeRow r = false → r ∈ rows')
    (hnew : ∀ g ∈ me'.jobs, g ∈ me.jobs ∨ rows.length ≤ g) : HistOk p rows' me' := by
  have h0 := h.frame hlen hfrozen
  refine ⟨?_, ?_, ?_, ?_, ?_, ?_⟩
  · rw [hs.gathered, hs.delivered, hs.reported]; exact h0.gath
  · rw [hs.dumped, hs.jobsDone, hs.delivered, hs.reported]; exact h0.dumpOnce
  · rw [hs.reported]; exact h0.repNodup
  · rw [hs.reported]
    intro g hg
    refine ⟨fun hin => ?_, (h0.repForeign g hg).2⟩
    rcases hnew g hin with h1 | h1
    · exact (h.repForeign g hg).1 h1
    · have := (h.repForeign g hg).2; omega
  · rw [hs.foreign, hs.reported]; exact h0.foreign
  · rw [hs.foreign]; exact h0.fobj

theorem mCreateTasks_same (who : Nat) : ∀ (cfgs : List C) (k : Nat) (st : List (Row C O) × MEv C O),
    SameHist st.2 (mCreateTasks who st k cfgs).1.2 ∧
      ∀ g ∈ (mCreateTasks who st k cfgs).1.2.jobs, g ∈ st.2.jobs ∨ st.1.length ≤ g
  | [], _, st => ⟨⟨rfl, rfl, rfl, rfl, rfl, rfl⟩, fun _ h => Or.inl h⟩
  | c :: cs, k, st => by
    simp only [mCreateTasks]
    split
    · exact ⟨⟨rfl, rfl, rfl, rfl, rfl, rfl⟩, fun _ h => Or.inl h⟩
    · obtain ⟨h1, h2⟩ := mCreateTasks_same who cs (k + 1) (mCreateTask who st c)
      refine ⟨⟨h1.gathered, h1.jobsDone, h1.delivered, h1.foreign, h1.reported, h1.dumped⟩, ?_⟩
      intro g hg
      rcases h2 g hg with h3 | h3
      · have h3' : g ∈ st.2.jobs ++ [st.1.length] := h3
        rcases List.mem_append.1 h3' with h4 | h4
        · exact Or.inl h4
        · simp only [List.mem_singleton] at h4; exact Or.inr (by omega)
      · have : (mCreateTask who st c).1.length = st.1.length + 1 := by
          show (st.1 ++ [_]).length = _; simp
        exact Or.inr (by omega)

/-! ### `submit`, `set_maximum_num_jobs_submitted`, `dump` -/

theorem mSubmit_fst (who : Nat) (st : List (Row C O) × MEv C O) (cfgs : List C) :
    (mSubmit who st cfgs).1 = (mCreateTasks who (st.1, mSetEventLoop st.2) 0 cfgs).1 := by
  unfold mSubmit
  split <;> rename_i heq <;> rw [heq]

theorem mSetEventLoop_same (me : MEv C O) :
    SameHist me (mSetEventLoop me) ∧ (mSetEventLoop me).jobs = me.jobs := by
  unfold mSetEventLoop
  split <;> exact ⟨⟨rfl, rfl, rfl, rfl, rfl, rfl⟩, rfl⟩

theorem SInv.submit {p : MParams C O} {n : Nat} {sys : Sys C O} (h : SInv p n sys) {who : Nat} {me : MEv C O}
    (hme : sys.evs[who]? = some me) (cfgs : List C) :
    SInv p n { rows := (mSubmit who (sys.rows, me) cfgs).1.1,
               evs := sys.evs.set who (mSubmit who (sys.rows, me) cfgs).1.2 } := by
  have hold := h.ev who me hme
  obtain ⟨s, hs, hr⟩ := hold.sim
  obtain ⟨m, _, hrel, _⟩ := submit_sim who hr cfgs
  have hsame := mCreateTasks_same who cfgs 0 (sys.rows, mSetEventLoop me)
  have hstep := mCreateTasks_rowsStep who cfgs 0 (sys.rows, mSetEventLoop me) h.rows.ids
  have hjobs := mCreateTasks_jobs who cfgs 0 (sys.rows, mSetEventLoop me)
  have hrowp := rowP_mCreateTasks p who cfgs 0 (sys.rows, mSetEventLoop me) h.rows.sout
  have e : (mSubmit who (sys.rows, me) cfgs).1 = (mCreateTasks who (sys.rows, mSetEventLoop me) 0 cfgs).1 :=
    mSubmit_fst who (sys.rows, me) cfgs
  rw [← e] at hsame hstep hjobs hrowp
  have hnew : ∀ g ∈ (mSubmit who (sys.rows, me) cfgs).1.2.jobs, g ∈ me.jobs ∨ sys.rows.length ≤ g := by
    intro g hg
    have := hsame.2 g hg
    rwa [(mSetEventLoop_same me).2] at this
  refine h.replace hme hstep.1 ⟨_, Reach.step (.submit (cfgs.take m)) hs rfl, hrel⟩ ?_ hnew hrowp ?_
  · intro g hg
    exact hjobs g (by show g ∈ (mSetEventLoop me).jobs; rw [(mSetEventLoop_same me).2]; exact hg)
  · have hs1 := (mSetEventLoop_same me).1
    have hs2 := hsame.1
    have : SameHist me (mSubmit who (sys.rows, me) cfgs).1.2 :=
      ⟨hs2.gathered.trans hs1.gathered, hs2.jobsDone.trans hs1.jobsDone, hs2.delivered.trans hs1.delivered,
        hs2.foreign.trans hs1.foreign, hs2.reported.trans hs1.reported, hs2.dumped.trans hs1.dumped⟩
    exact hold.hist.same this hstep.1.len hstep.1.frozen hnew

/-- a change of the private state that the simulation and the histories do not look at -/
theorem SInv.private {p : MParams C O} {n : Nat} {sys : Sys C O} (h : SInv p n sys) {who : Nat} {me me' : MEv C O}
    (hme : sys.evs[who]? = some me) (hjobs : me'.jobs = me.jobs) (hrun : me'.running = me.running)
    (hsubm : me'.submitted = me.submitted) (hdel : me'.delivered = me.delivered) (hgen : me'.loopGen = me.loopGen)
    (hopen : me'.loopOpen = me.loopOpen) (hhist : HistOk p sys.rows me') :
    SInv p n { rows := sys.rows, evs := sys.evs.set who me' } := by
  have hold := h.ev who me hme
  obtain ⟨s, hs, hr⟩ := hold.sim
  refine h.replace hme (RowsStep.refl _ _ _) ⟨s, hs, ?_⟩ (fun g hg => hjobs ▸ hg) (fun g hg => Or.inl (hjobs ▸ hg))
    h.rows.sout hhist
  exact ⟨hjobs ▸ hr.sorted, hjobs ▸ hr.lt, hr.ids, hjobs ▸ hr.n, hjobs ▸ hr.ownIds, hjobs ▸ hr.jobs,
    by rw [hjobs, hrun]; exact hr.running, by rw [hjobs, hsubm]; exact hr.submitted,
    by rw [hjobs, hdel]; exact hr.delivered, by rw [hgen]; exact hr.gen, by rw [hopen]; exact hr.lopen⟩

theorem SInv.setMax {p : MParams C O} {n : Nat} {sys : Sys C O} (h : SInv p n sys) {who : Nat} {me : MEv C O}
    (hme : sys.evs[who]? = some me) (k : Int) :
    SInv p n { rows := sys.rows, evs := sys.evs.set who (mSetMax me k) } := by
  have hh := (h.ev who me hme).hist
  exact h.private hme rfl rfl rfl rfl rfl rfl
    ⟨hh.gath, hh.dumpOnce, hh.repNodup, hh.repForeign, hh.foreign, hh.fobj⟩

theorem SInv.dump {p : MParams C O} {n : Nat} {sys : Sys C O} (h : SInv p n sys) {who : Nat} {me : MEv C O}
    (hme : sys.evs[who]? = some me) (fl : Bool) :
    SInv p n { rows := (mDump p (sys.rows, me) fl).1.1, evs := sys.evs.set who (mDump p (sys.rows, me) fl).1.2 } := by
  have hh := (h.ev who me hme).hist
  have hsame : SInv p n { rows := sys.rows, evs := sys.evs.set who me } :=
    h.private hme rfl rfl rfl rfl rfl rfl hh
  unfold mDump
  split
  · exact hsame
  · split
    · refine h.private hme rfl rfl rfl rfl rfl rfl ⟨hh.gath, ?_, hh.repNodup, hh.repForeign, hh.foreign, hh.fobj⟩
      show ((me.dumped ++ me.jobsDone) ++ []).Perm _
      rw [List.append_nil]; exact hh.dumpOnce
    · exact hsame

/-! ### `close` -/

theorem mWaitOk_active {rows : List (Row C O)} {me : MEv C O} {w : List Nat} (h : mWaitOk rows me w = true) :
    w.Nodup ∧ ∀ g ∈ w, g ∈ mRunningIds me ∧ ∃ r, rowOf rows g = some r ∧ activeRow r = true := by
  unfold mWaitOk at h
  simp only [Bool.and_eq_true, List.all_eq_true, List.contains_eq_mem, decide_eq_true_eq, beq_iff_eq] at h
  refine ⟨h.1, fun g hg => ⟨(h.2 g hg).1, ?_⟩⟩
  have := (h.2 g hg).2
  unfold statusAt at this
  cases hrow : rowOf rows g with
  | none => rw [hrow] at this; simp at this
  | some r =>
    rw [hrow] at this
    simp only [Option.map_some, Option.some.injEq] at this
    exact ⟨r, rfl, by simp [activeRow, this]⟩

theorem mClose_facts (p : MParams C O) (who : Nat) {rows : List (Row C O)} {me : MEv C O}
    (hn : (rows.map (·.id)).Nodup) (hown : ∀ g ∈ mRunningIds me, g ∈ me.jobs) (fin : List Nat)
    (hok : mWaitOk rows me fin = true) (hrp : ∀ r ∈ rows, RowP p r) :
    RowsStep who me.jobs rows (mClose p (rows, me) fin).1.1 ∧
      (∃ ids, Delta me (mClose p (rows, me) fin).1.2 ids .close) ∧
      (∀ r ∈ (mClose p (rows, me) fin).1.1, RowP p r) := by
  obtain ⟨hnd, hact⟩ := mWaitOk_active hok
  have hprem : ∀ g ∈ fin, g ∈ me.jobs ∧ ∃ r, rowOf rows g = some r ∧ activeRow r = true :=
    fun g hg => ⟨hown g (hact g hg).1, (hact g hg).2⟩
  unfold mClose
  by_cases h0 : (!me.loopOpen) = true
  · rw [if_pos h0]; exact ⟨RowsStep.refl _ _ _, ⟨[], Delta.refl _ _⟩, hrp⟩
  · rw [if_neg h0]
    by_cases h1 : me.running.isEmpty = true
    · rw [if_pos h1]
      exact ⟨RowsStep.refl _ _ _, ⟨[], by constructor <;> simp⟩, hrp⟩
    · rw [if_neg h1]
      by_cases h2 : mStale me = true
      · rw [if_pos h2]; exact ⟨RowsStep.refl _ _ _, ⟨[], Delta.refl _ _⟩, hrp⟩
      · rw [if_neg h2]
        have hs1 := mProcessAll_rowsStep p .close who me.jobs fin (rows, me) hn hnd hprem
        obtain ⟨ids1, _, hd1, _⟩ := mProcessAll_delta p .close fin (rows, me)
        have hp1 := rowP_mProcessAll p .close fin (rows, me) hrp
        cases h3 : mProcessAll p .close (rows, me) fin with
        | mk st1 res =>
          rw [h3] at hs1 hd1 hp1
          cases res with
          | error e => exact ⟨hs1, ⟨ids1, hd1⟩, hp1⟩
          | ok js =>
            simp only
            have hd2 := mCancelActive_delta p st1
            have hp2 := rowP_mCancelActive p st1 hp1
            refine ⟨hs1.trans ?_, ⟨ids1 ++ mActiveIds st1.1 st1.2 ++ [], ((hd1.trans hd2).trans ?_)⟩, hp2⟩
            · rw [mCancelActive_eq]
              apply RowsStep.map
              · intro r; split <;> exact ⟨rfl, rfl, rfl⟩
              · intro r _ hne
                by_cases hc : (st1.2.jobs.contains r.id && activeRow r) = true
                · simp only [Bool.and_eq_true, List.contains_eq_mem, decide_eq_true_eq] at hc
                  exact ⟨hd1.jobs ▸ hc.1, hc.2⟩
                · rw [if_neg hc] at hne; exact absurd rfl hne
            · constructor <;> simp

theorem SInv.close {p : MParams C O} {n : Nat} {sys : Sys C O} (h : SInv p n sys) {who : Nat} {me : MEv C O}
    (hme : sys.evs[who]? = some me) (fin : List Nat) (hok : mOpOkLocal sys.rows me (.close fin) = true) :
    SInv p n { rows := (mClose p (sys.rows, me) fin).1.1,
               evs := sys.evs.set who (mClose p (sys.rows, me) fin).1.2 } := by
  have hold := h.ev who me hme
  obtain ⟨s, hs, hr⟩ := hold.sim
  obtain ⟨hi, _, _⟩ := reach_good hs
  obtain ⟨lfin, _, hok', rows', me', hm, hr', hj, _⟩ := close_step_sim p hi hr fin hok
  obtain ⟨hstep, ⟨ids, hd⟩, hrowp⟩ := mClose_facts p who (rows_nodup h.rows.ids)
    (fun g hg => hr.running_own hi hg) fin hok h.rows.sout
  have e1 : (mClose p (sys.rows, me) fin).1.1 = rows' := by rw [hm]
  have e2 : (mClose p (sys.rows, me) fin).1.2 = me' := by rw [hm]
  rw [e1] at hstep hrowp ⊢
  rw [e2] at hd ⊢
  refine h.replace hme (hj ▸ hstep) ⟨_, Reach.step (.close lfin) hs hok', hr'⟩ (fun g hg => hj ▸ hg)
    (fun g hg => Or.inl (hj ▸ hg)) hrowp (hold.hist.delta hd hstep.len hstep.frozen)

/-! ### `gather`: the evaluator's own tasks -/

theorem waitLoop_mem {m : Nat} : ∀ {ws : List (List Nat)} {d d' : List Nat} {rest : List (List Nat)},
    waitLoop m d ws = .ok (d', rest) → d' = d ∨ d' ∈ ws
  | [], d, d', rest, h => by
    simp only [waitLoop] at h
    split at h
    · simp only [Except.ok.injEq, Prod.mk.injEq] at h; exact Or.inl h.1.symm
    · simp at h
  | w :: ws, d, d', rest, h => by
    simp only [waitLoop] at h
    split at h
    · simp only [Except.ok.injEq, Prod.mk.injEq] at h; exact Or.inl h.1.symm
    · rcases waitLoop_mem h with h1 | h1
      · exact Or.inr (h1 ▸ List.mem_cons_self)
      · exact Or.inr (List.mem_cons_of_mem _ h1)

theorem mAwaitN_mem {me : MEv C O} {n : Nat} {ws : List (List Nat)} {done : List Nat}
    (h : mAwaitN me n ws = .ok done) : done = [] ∨ done ∈ ws := by
  unfold mAwaitN mAwaitM at h
  split at h
  · split at h
    · simp at h
    · split at h
      · simp at h
      · split at h
        · simp only [Except.ok.injEq] at h; subst h; exact Or.inr (by simp)
        · simp at h
  · split at h
    · simp at h
    · split at h
      · rename_i d hd
        simp only [Except.ok.injEq] at h
        subst h
        exact waitLoop_mem hd
      · simp at h
      · simp at h

theorem mStartedOk_ready {rows : List (Row C O)} {me : MEv C O} {st : List Nat} (h : mStartedOk rows me st = true) :
    ∀ g ∈ st, g ∈ mRunningIds me ∧ statusAt rows g = some .ready := by
  unfold mStartedOk at h
  simp only [Bool.and_eq_true, List.all_eq_true, List.contains_eq_mem, decide_eq_true_eq, beq_iff_eq] at h
  exact h.2

theorem mGatherLocal_facts_aux (p : MParams C O) (who : Nat) {rows : List (Row C O)} {me : MEv C O}
    (hn : (rows.map (·.id)).Nodup) (hown : ∀ g ∈ mRunningIds me, g ∈ me.jobs) (size : Nat) (st : List Nat)
    (ws : List (List Nat))
    (hok : (if (size = 0 || !me.loopOpen) = true then st.isEmpty && ws.isEmpty
      else match mAwaitN me size ws with
        | .error e => e != .envStuck && st.isEmpty && ws.isEmpty
        | .ok done =>
          mStartedOk rows me st && ws.all (mWaitOk (mMarkStarted rows st) me) &&
          (if size ≥ me.running.length then (mRunningIds me).all done.contains else true)) = true)
    (hrp : ∀ r ∈ rows, RowP p r) :
    let res := (if size = 0 then ((rows, me), Except.ok [])
      else if !me.loopOpen then ((rows, me), .error .noLoop)
      else match mAwaitN me size ws with
        | .error e => ((rows, me), .error e)
        | .ok done => mProcessAll p .gather (mMarkStarted rows st, me) done :
        (List (Row C O) × MEv C O) × Except Err (List (JobRec C O)))
    RowsStep who me.jobs rows res.1.1 ∧ (∃ ids, Delta me res.1.2 ids .gather) ∧ (∀ r ∈ res.1.1, RowP p r) := by
  intro res
  have htriv : RowsStep who me.jobs rows rows ∧ (∃ ids, Delta me me ids .gather) ∧ (∀ r ∈ rows, RowP p r) :=
    ⟨RowsStep.refl _ _ _, ⟨[], Delta.refl _ _⟩, hrp⟩
  by_cases h0 : size = 0
  · simp only [res, if_pos h0]; exact htriv
  · by_cases h1 : (!me.loopOpen) = true
    · simp only [res, if_neg h0, if_pos h1]; exact htriv
    · have h01 : ¬ ((size = 0 || !me.loopOpen) = true) := by
        simp only [Bool.or_eq_true, decide_eq_true_eq, not_or]
        exact ⟨h0, h1⟩
      rw [if_neg h01] at hok
      simp only [res, if_neg h0, if_neg h1]
      cases hd : mAwaitN me size ws with
      | error e => exact htriv
      | ok done =>
        rw [hd] at hok
        simp only [Bool.and_eq_true, List.all_eq_true] at hok
        obtain ⟨⟨hst, hws⟩, _⟩ := hok
        have hready := mStartedOk_ready hst
        -- `markStarted` touches READY jobs of this evaluator only
        have hs0 : RowsStep who me.jobs rows (mMarkStarted rows st) := by
          unfold mMarkStarted
          apply RowsStep.map
          · intro r; split <;> exact ⟨rfl, rfl, rfl⟩
          · intro r hr hne
            by_cases hc : st.contains r.id = true
            · have hg : r.id ∈ st := by simpa using hc
              obtain ⟨h1', h2'⟩ := hready r.id hg
              unfold statusAt at h2'
              rw [rowOf_of_mem hn hr] at h2'
              simp only [Option.map_some, Option.some.injEq] at h2'
              exact ⟨hown _ h1', by simp [activeRow, h2']⟩
            · rw [if_neg hc] at hne; exact absurd rfl hne
        have hn0 : ((mMarkStarted rows st).map (·.id)).Nodup := by
          unfold mMarkStarted
          rw [map_id_map _ _ (fun r => by split <;> rfl)]
          exact hn
        have hdone : done.Nodup ∧ ∀ g ∈ done, g ∈ me.jobs ∧
            ∃ r, rowOf (mMarkStarted rows st) g = some r ∧ activeRow r = true := by
          rcases mAwaitN_mem hd with h | h
          · subst h; simp
          · obtain ⟨a, b⟩ := mWaitOk_active (hws done h)
            exact ⟨a, fun g hg => ⟨hown g (b g hg).1, (b g hg).2⟩⟩
        have hs1 := mProcessAll_rowsStep p .gather who me.jobs done (mMarkStarted rows st, me) hn0 hdone.1 hdone.2
        obtain ⟨ids, _, hd1, _⟩ := mProcessAll_delta p .gather done (mMarkStarted rows st, me)
        exact ⟨hs0.trans hs1, ⟨ids, hd1⟩,
          rowP_mProcessAll p .gather done (mMarkStarted rows st, me) (rowP_mMarkStarted st hrp)⟩

theorem mGatherLocal_facts (p : MParams C O) (who : Nat) {rows : List (Row C O)} {me : MEv C O}
    (hn : (rows.map (·.id)).Nodup) (hown : ∀ g ∈ mRunningIds me, g ∈ me.jobs) (all : Bool) (k : Nat)
    (st : List Nat) (ws : List (List Nat)) (hok : mOpOkLocal rows me (.gather all k st ws) = true)
    (hrp : ∀ r ∈ rows, RowP p r) :
    RowsStep who me.jobs rows (mGatherLocal p (rows, me) all k st ws).1.1 ∧
      (∃ ids, Delta me (mGatherLocal p (rows, me) all k st ws).1.2 ids .gather) ∧
      (∀ r ∈ (mGatherLocal p (rows, me) all k st ws).1.1, RowP p r) :=
  mGatherLocal_facts_aux p who hn hown (if all then me.running.length else k) st ws hok hrp

end DH.Evaluator
