import Model.Files

/-!
# Lemmas about `Model/Files.lean` (C15)

Core Lean only.  Structure:

1. association-list file system (`get`/`set`/`del`), one system call (`step`);
2. the backup name chosen by `Search.__init__` is free (`backupName_free`);
3. `chunk` loses nothing; content lemmas (`wellFormed`, `jobsOf`, `extendAll`);
4. the invariant `Inv s pend` ("state `s`, events `pend` of the current action still to run"),
   preserved by executing the next pending event (`Inv.step`), established by every action
   (`Inv.of_expand`, `Inv.of_create`), implying the visible property `Vis` and that the step is
   harmless for every result file (`Inv.grows`);
5. lifting to `trace` and `searchFiles` (all crash points, all sequences of processes).
-/

namespace DH.Files

/-! ## 1. file system -/

@[simp] theorem get_nil (n : Name) : get [] n = none := rfl

theorem get_del_self (fs : FS) (n : Name) : get (del fs n) n = none := by
  induction fs with
  | nil => rfl
  | cons p fs ih =>
    obtain ⟨m, c⟩ := p
    by_cases h : m = n
    · simp [del, h, ih]
    · simp [del, h, get, ih]

theorem get_del_ne (fs : FS) {n m : Name} (h : n ≠ m) : get (del fs n) m = get fs m := by
  induction fs with
  | nil => rfl
  | cons p fs ih =>
    obtain ⟨k, c⟩ := p
    by_cases h1 : k = n
    · have : k ≠ m := by rw [h1]; exact h
      simp [del, h1, get, ih]; simp [h]
    · by_cases h2 : k = m
      · subst h2; simp [del, h1, get]
      · simp [del, h1, get, h2, ih]

@[simp] theorem get_set_self (fs : FS) (n : Name) (c : Content) : get (set fs n c) n = some c := by
  simp [set, get]

theorem get_set_ne (fs : FS) {n m : Name} (c : Content) (h : n ≠ m) :
    get (set fs n c) m = get fs m := by
  simp [set, get, h, get_del_ne fs h]

theorem length_del_le (fs : FS) (n : Name) : (del fs n).length ≤ fs.length := by
  induction fs with
  | nil => simp [del]
  | cons p fs ih =>
    obtain ⟨k, c⟩ := p
    by_cases h : k = n <;> simp [del, h] <;> omega

theorem length_del_lt (fs : FS) (n : Name) (h : (get fs n).isSome = true) :
    (del fs n).length < fs.length := by
  induction fs with
  | nil => simp at h
  | cons p fs ih =>
    obtain ⟨k, c⟩ := p
    by_cases h1 : k = n
    · have := length_del_le fs n
      simp [del, h1]; omega
    · simp [get, h1] at h
      have := ih h
      simp [del, h1]; omega

/-! ## 2. the backup name is free -/

theorem freeIdx_ge (fs : FS) (stamp : String) (fuel k : Nat) : k ≤ freeIdx fs stamp k fuel := by
  induction fuel generalizing k with
  | zero => simp [freeIdx]
  | succ f ih =>
    simp only [freeIdx]
    split
    · have := ih (k + 1); omega
    · exact Nat.le_refl _

theorem freeIdx_congr (fs fs' : FS) (stamp : String) (fuel k : Nat)
    (h : ∀ k', k ≤ k' → get fs (.backup stamp k') = get fs' (.backup stamp k')) :
    freeIdx fs stamp k fuel = freeIdx fs' stamp k fuel := by
  induction fuel generalizing k with
  | zero => rfl
  | succ f ih =>
    simp only [freeIdx]
    rw [h k (Nat.le_refl _), ih (k + 1) (fun k' hk => h k' (by omega))]

theorem freeIdx_free (stamp : String) (fuel : Nat) : ∀ (fs : FS) (k : Nat), fs.length ≤ fuel →
    get fs (.backup stamp (freeIdx fs stamp k fuel)) = none := by
  induction fuel with
  | zero =>
    intro fs k h
    have : fs = [] := List.eq_nil_of_length_eq_zero (by omega)
    simp [this]
  | succ f ih =>
    intro fs k h
    simp only [freeIdx]
    split
    next hs =>
      have hlt := length_del_lt fs _ hs
      have hc := freeIdx_congr fs (del fs (.backup stamp k)) stamp f (k + 1) (fun k' hk => by
        rw [get_del_ne]; intro he; injection he with _ he; omega)
      have hfree := ih (del fs (.backup stamp k)) (k + 1) (by omega)
      have hge := freeIdx_ge fs stamp f (k + 1)
      rw [← hc] at hfree
      rw [get_del_ne] at hfree
      · exact hfree
      · intro he; injection he with _ he; omega
    next hs =>
      cases hg : get fs (.backup stamp k) with
      | none => rfl
      | some c => simp [hg] at hs

theorem backupName_free (fs : FS) (stamp : String) : get fs (backupName fs stamp) = none :=
  freeIdx_free stamp fs.length fs 0 (Nat.le_refl _)

/-! ## 3. payloads and contents -/

theorem chunk_flatten (ss : List Nat) (l : List Line) : (chunk ss l).flatten = l := by
  induction ss generalizing l with
  | nil => cases l <;> simp [chunk]
  | cons s ss ih =>
    cases s with
    | zero => cases l <;> simp [chunk, ih]
    | succ s =>
      cases l with
      | nil => simp [chunk]
      | cons a t => simp only [chunk, List.flatten_cons, ih, List.take_append_drop]

theorem jobsOf_append (a b : Content) : jobsOf (a ++ b) = jobsOf a ++ jobsOf b := by
  induction a with
  | nil => rfl
  | cons x a ih => cases x <;> simp [jobsOf, ih]

theorem jobsOf_extendAll (c : Content) : jobsOf (extendAll c) = jobsOf c := by
  induction c with
  | nil => rfl
  | cons x c ih =>
    cases x <;> simp_all [extendAll, jobsOf, Line.extend]

theorem jobsOf_rowsFor (js : List Job) : jobsOf (rowsFor js) = js := by
  induction js with
  | nil => rfl
  | cons j js ih => simp_all [rowsFor, jobsOf]

/-- complete rows without the extra cell: what a dump appends -/
def IsRows (ls : List Line) : Prop := ∀ l ∈ ls, ∃ j, l = Line.row j false

theorem isRows_rowsFor (js : List Job) : IsRows (rowsFor js) := by
  intro l hl
  simp [rowsFor] at hl
  obtain ⟨j, _, rfl⟩ := hl
  exact ⟨j, rfl⟩

theorem IsRows.append_left {a b : List Line} (h : IsRows (a ++ b)) : IsRows a :=
  fun l hl => h l (List.mem_append_left _ hl)

theorem IsRows.append_right {a b : List Line} (h : IsRows (a ++ b)) : IsRows b :=
  fun l hl => h l (List.mem_append_right _ hl)

theorem wellFormed_header_rows (js : List Job) (hne : js ≠ []) :
    wellFormed (Line.header false :: rowsFor js) = true := by
  cases js with
  | nil => exact absurd rfl hne
  | cons j js => simp [wellFormed, rowsFor, rowOk]

theorem wellFormed_append {c ls : List Line} (h : wellFormed c = true) (hr : IsRows ls) :
    wellFormed (c ++ ls) = true := by
  cases c with
  | nil => simp [wellFormed] at h
  | cons x c =>
    cases x with
    | header e =>
      simp only [wellFormed, List.cons_append, List.all_append, Bool.and_eq_true] at h ⊢
      refine ⟨?_, h.2, ?_⟩
      · cases c <;> simp_all
      · rw [List.all_eq_true]
        intro l hl
        obtain ⟨j, rfl⟩ := hr l hl
        simp [rowOk]
    | row j e => simp [wellFormed] at h
    | torn j => simp [wellFormed] at h

theorem wellFormed_extendAll {c : Content} (h : wellFormed c = true) :
    wellFormed (extendAll c) = true := by
  cases c with
  | nil => simp [wellFormed] at h
  | cons x c =>
    cases x with
    | header e =>
      simp only [wellFormed, extendAll, List.map_cons, Line.extend, List.all_map,
        Bool.and_eq_true] at h ⊢
      refine ⟨by cases c <;> simp_all, ?_⟩
      have h2 := h.2
      rw [List.all_eq_true] at h2 ⊢
      intro l hl
      have := h2 l hl
      cases l <;> simp_all [rowOk, Line.extend]
    | row j e => simp [wellFormed] at h
    | torn j => simp [wellFormed] at h

theorem wellFormed_ne_nil {c : Content} (h : wellFormed c = true) : c ≠ [] := by
  intro hc; subst hc; simp [wellFormed] at h


/-! ## 4. the invariant -/

/-- the property visible at EVERY crash point: `results.csv` is absent (and then this search has
not reported any dump as done), or it is a header plus complete rows of jobs whose run-function
returned, among them every job whose dump returned -/
def Vis (s : St) : Prop :=
  match get s.fs .results with
  | none => s.dumped = []
  | some c => wellFormed c = true ∧ (∀ j ∈ jobsOf c, j ∈ s.done) ∧ (∀ j ∈ s.dumped, j ∈ jobsOf c)

/-- between two actions of one search.  Before its first dump a search has reported nothing and
`results.csv`, if there is one (written by another search), is a good table; afterwards
`results.csv` holds exactly the rows this search dumped -/
structure Full (s : St) : Prop where
  off : s.started = false → s.dumped = [] ∧
    ∀ c, get s.fs .results = some c → wellFormed c = true ∧ ∀ j ∈ jobsOf c, j ∈ s.done
  on : s.started = true →
    ∃ c, get s.fs .results = some c ∧ wellFormed c = true ∧ jobsOf c = s.dumped
  sub : ∀ j ∈ s.dumped, j ∈ s.done

/-- events that change neither a result file nor the dump bookkeeping -/
def Harmless : Ev → Prop
  | .done _ => True
  | .sys (.openR _) => True
  | .sys (.close _) => True
  | _ => False

/-- `s'` shows the same result files and bookkeeping as `s` (and knows at least the same
finished jobs) -/
structure Same (s s' : St) : Prop where
  res : get s'.fs .results = get s.fs .results
  bk : ∀ st k, get s'.fs (.backup st k) = get s.fs (.backup st k)
  started : s'.started = s.started
  dumped : s'.dumped = s.dumped
  done : ∀ j ∈ s.done, j ∈ s'.done

theorem Full.same {s s' : St} (h : Full s) (e : Same s s') : Full s' := by
  refine ⟨?_, ?_, ?_⟩
  · intro h1
    obtain ⟨h2, h3⟩ := h.off (e.started ▸ h1)
    refine ⟨e.dumped ▸ h2, fun c hc => ?_⟩
    obtain ⟨h4, h5⟩ := h3 c (e.res ▸ hc)
    exact ⟨h4, fun j hj => e.done j (h5 j hj)⟩
  · intro h1; rw [e.res, e.dumped]; exact h.on (e.started ▸ h1)
  · intro j hj; rw [e.dumped] at hj; exact e.done j (h.sub j hj)

theorem Vis.same {s s' : St} (h : Vis s) (e : Same s s') : Vis s' := by
  unfold Vis at h ⊢
  rw [e.res, e.dumped]
  split at h
  · exact h
  · exact ⟨h.1, fun j hj => e.done j (h.2.1 j hj), h.2.2⟩

theorem Full.vis {s : St} (h : Full s) : Vis s := by
  unfold Vis
  cases hs : s.started with
  | false =>
    obtain ⟨h1, h2⟩ := h.off hs
    cases hr : get s.fs .results with
    | none => exact h1
    | some c =>
      obtain ⟨h3, h4⟩ := h2 c hr
      exact ⟨h3, h4, by simp [h1]⟩
  | true =>
    obtain ⟨c, h1, h2, h3⟩ := h.on hs
    simp only [h1]
    exact ⟨h2, fun j hj => h.sub j (h3 ▸ hj), fun j hj => h3 ▸ hj⟩

theorem same_harmless (s : St) {e : Ev} (h : Harmless e) : Same s (exec s e) := by
  cases e with
  | sys op => cases op <;> simp [Harmless] at h <;> exact ⟨rfl, fun _ _ => rfl, rfl, rfl, fun _ hj => hj⟩
  | created => simp [Harmless] at h
  | reused => simp [Harmless] at h
  | done j => exact ⟨rfl, fun _ _ => rfl, rfl, rfl, fun _ hj => List.mem_append_left _ hj⟩
  | dumped js => simp [Harmless] at h

theorem fs_harmless (s : St) {e : Ev} (h : Harmless e) : (exec s e).fs = s.fs := by
  cases e with
  | sys op => cases op <;> simp [Harmless] at h <;> rfl
  | created => simp [Harmless] at h
  | reused => simp [Harmless] at h
  | done j => rfl
  | dumped js => simp [Harmless] at h

/-- a system call that touches `results.csv.tmp` only -/
theorem same_of_tmp (s : St) (op : Op)
    (h : ∀ n, n ≠ Name.tmp → get (step s.fs op) n = get s.fs n) : Same s (exec s (.sys op)) :=
  ⟨h _ (by simp), fun _ _ => h _ (by simp), rfl, rfl, fun _ hj => hj⟩

theorem step_openW_tmp (fs : FS) : ∀ n, n ≠ Name.tmp → get (step fs (.openW .tmp)) n = get fs n :=
  fun _ hn => get_set_ne fs [] (Ne.symm hn)

theorem step_write_tmp (fs : FS) (ls : List Line) :
    ∀ n, n ≠ Name.tmp → get (step fs (.write .tmp ls)) n = get fs n := by
  intro n hn
  simp only [step]
  split
  · rfl
  · exact get_set_ne fs _ (Ne.symm hn)

/-- what the pending `[rename results.csv <backup>,] rename results.csv.tmp results.csv` commits
(`tc` = the complete content of the temporary file, `mid` = the optional backup rename, `post` =
what follows), and why that is fine -/
inductive Commit (s : St) (tc : Content) (mid post : List Ev) : Prop
  | first (js : List Job) (hp : post = [.dumped js]) (htc : tc = .header false :: rowsFor js)
      (hs : s.started = false) (hd : s.dumped = [])
      (hj : ∀ j ∈ js, j ∈ s.done) (hne : js ≠ [])
      (hm : (mid = [] ∧ get s.fs .results = none) ∨
        ∃ st k c, mid = [.sys (.rename .results (.backup st k))] ∧
          get s.fs (.backup st k) = none ∧ get s.fs .results = some c ∧
          wellFormed c = true ∧ ∀ j ∈ jobsOf c, j ∈ s.done)
  | rewrite (c : Content) (hm : mid = []) (hp : ∀ e ∈ post, Harmless e) (hf : Full s)
      (hr : get s.fs .results = some c) (htc : tc = extendAll c)

theorem Commit.same {s s' : St} {tc mid post} (h : Commit s tc mid post) (e : Same s s') :
    Commit s' tc mid post := by
  cases h with
  | first js hp htc hs hd hj hne hm =>
    refine .first js hp htc (e.started ▸ hs) (e.dumped ▸ hd) (fun j h => e.done j (hj j h)) hne ?_
    rcases hm with ⟨h1, h2⟩ | ⟨st, k, c, h1, h2, h3, h4, h5⟩
    · exact .inl ⟨h1, e.res ▸ h2⟩
    · exact .inr ⟨st, k, c, h1, (e.bk st k) ▸ h2, e.res ▸ h3, h4, fun j h => e.done j (h5 j h)⟩
  | rewrite c hm hp hf hr htc => exact .rewrite c hm hp (hf.same e) (e.res ▸ hr) htc

theorem Commit.vis {s : St} {tc mid post} (h : Commit s tc mid post) : Vis s := by
  cases h with
  | first js hp htc hs hd hj hne hm =>
    unfold Vis
    rcases hm with ⟨_, h2⟩ | ⟨st, k, c, _, _, h3, h4, h5⟩
    · simp [h2, hd]
    · simp only [h3]; exact ⟨h4, h5, by simp [hd]⟩
  | rewrite c hm hp hf hr htc => exact hf.vis

/-- state `s`, and `pend` = the events of the current action that have not run yet -/
inductive Inv (s : St) (pend : List Ev) : Prop
  | idle (hf : Full s) (hp : ∀ e ∈ pend, Harmless e)
  | created (tl : List Ev) (hp : pend = .created :: tl) (hv : Vis s)
      (htl : tl = [] ∨
        ∃ st k c, tl = [.sys (.rename .results (.backup st k))] ∧
          get s.fs (.backup st k) = none ∧ get s.fs .results = some c)
  | toBackup (st : String) (k : Nat) (c : Content)
      (hp : pend = [.sys (.rename .results (.backup st k))]) (hv : Vis s)
      (hs : s.started = false) (hd : s.dumped = [])
      (hb : get s.fs (.backup st k) = none) (hr : get s.fs .results = some c)
  | appOpen (js : List Job) (cs : List (List Line))
      (hp : pend = .sys (.openA .results) :: writes .results cs
        ++ [.sys (.close .results), .dumped js])
      (hf : Full s) (hs : s.started = true) (hj : ∀ j ∈ js, j ∈ s.done)
      (hcs : cs.flatten = rowsFor js)
  | appWrite (js js1 : List Job) (cs : List (List Line)) (c : Content)
      (hp : pend = writes .results cs ++ [.sys (.close .results), .dumped js])
      (hr : get s.fs .results = some c) (hw : wellFormed c = true)
      (hc : jobsOf c = s.dumped ++ js1) (hjs : js1 ++ jobsOf cs.flatten = js)
      (hrows : IsRows cs.flatten) (hj : ∀ j ∈ js, j ∈ s.done) (hd : ∀ j ∈ s.dumped, j ∈ s.done)
      (hs : s.started = true)
  | appDone (js : List Job) (c : Content) (hp : pend = [.dumped js])
      (hr : get s.fs .results = some c) (hw : wellFormed c = true)
      (hc : jobsOf c = s.dumped ++ js) (hj : ∀ j ∈ js, j ∈ s.done)
      (hd : ∀ j ∈ s.dumped, j ∈ s.done) (hs : s.started = true)
  | tmpOpen (pre : List Ev) (cs : List (List Line)) (tc : Content) (mid post : List Ev)
      (hp : pend = pre ++ .sys (.openW .tmp) :: writes .tmp cs
        ++ .sys (.close .tmp) :: (mid ++ .sys (.rename .tmp .results) :: post))
      (hpre : ∀ e ∈ pre, Harmless e) (hcs : cs.flatten = tc) (hc : Commit s tc mid post)
  | tmpWrite (t : Content) (cs : List (List Line)) (tc : Content) (mid post : List Ev)
      (hp : pend = writes .tmp cs ++ .sys (.close .tmp) :: (mid ++ .sys (.rename .tmp .results) :: post))
      (ht : get s.fs .tmp = some t) (hcs : t ++ cs.flatten = tc) (hc : Commit s tc mid post)
  | tmpMid (tc : Content) (mid post : List Ev)
      (hp : pend = mid ++ .sys (.rename .tmp .results) :: post)
      (ht : get s.fs .tmp = some tc) (hc : Commit s tc mid post)
  | firstDone (js : List Job) (hp : pend = [.dumped js])
      (hr : get s.fs .results = some (.header false :: rowsFor js))
      (hs : s.started = false) (hd : s.dumped = []) (hj : ∀ j ∈ js, j ∈ s.done) (hne : js ≠ [])

theorem sublist_done {js1 rest js : List Job} {d : List Job} (h : js1 ++ rest = js)
    (hj : ∀ j ∈ js, j ∈ d) : ∀ j ∈ js1, j ∈ d :=
  fun j hj1 => hj j (h ▸ List.mem_append_left _ hj1)

theorem Inv.vis {s : St} {pend : List Ev} (h : Inv s pend) : Vis s := by
  cases h with
  | idle hf _ => exact hf.vis
  | created _ _ hv _ => exact hv
  | toBackup _ _ _ _ hv => exact hv
  | appOpen _ _ _ hf => exact hf.vis
  | appWrite js js1 cs c hp hr hw hc hjs hrows hj hd hs =>
    unfold Vis; simp only [hr]
    refine ⟨hw, ?_, ?_⟩
    · intro j hjc; rw [hc] at hjc
      rcases List.mem_append.1 hjc with h | h
      · exact hd j h
      · exact sublist_done hjs hj j h
    · intro j hjd; rw [hc]; exact List.mem_append_left _ hjd
  | appDone js c hp hr hw hc hj hd hs =>
    unfold Vis; simp only [hr]
    refine ⟨hw, ?_, ?_⟩
    · intro j hjc; rw [hc] at hjc
      rcases List.mem_append.1 hjc with h | h
      · exact hd j h
      · exact hj j h
    · intro j hjd; rw [hc]; exact List.mem_append_left _ hjd
  | tmpOpen _ _ _ _ _ _ _ _ hc => exact hc.vis
  | tmpWrite _ _ _ _ _ _ _ _ hc => exact hc.vis
  | tmpMid _ _ _ _ _ hc => exact hc.vis
  | firstDone js hp hr hs hd hj hne =>
    unfold Vis; simp only [hr, hd]
    refine ⟨wellFormed_header_rows js hne, ?_, by simp⟩
    intro j hjc
    simp only [jobsOf, jobsOf_rowsFor] at hjc
    exact hj j hjc

theorem Inv.nil {s : St} (h : Inv s []) : Full s := by
  cases h with
  | idle hf _ => exact hf
  | created _ hp => simp at hp
  | toBackup _ _ _ hp => simp at hp
  | appOpen _ _ hp => simp at hp
  | appWrite _ _ _ _ hp => simp at hp
  | appDone _ _ hp => simp at hp
  | tmpOpen _ _ _ _ _ hp => simp at hp
  | tmpWrite _ _ _ _ _ hp => simp at hp
  | tmpMid _ _ _ hp => simp at hp
  | firstDone _ hp => simp at hp

/-- the state right after `rename results.csv <free backup name>` -/
theorem get_after_backup (fs : FS) (b : Name) (c : Content) (hb : b ≠ .results) :
    get (set (del fs .results) b c) .results = none := by
  rw [get_set_ne _ _ hb, get_del_self]

/-- executing the next pending event re-establishes the invariant for the rest -/
theorem Inv.next {s : St} {e : Ev} {rest : List Ev} (h : Inv s (e :: rest)) :
    Inv (exec s e) rest := by
  cases h with
  | idle hf hp =>
    have he : Harmless e := hp e (by simp)
    exact .idle (hf.same (same_harmless s he)) (fun x hx => hp x (List.mem_cons_of_mem _ hx))
  | created tl hp hv htl =>
    injection hp with he hr; subst he; subst hr
    rcases htl with h1 | ⟨st, k, c, h1, h2, h3⟩
    · subst h1
      refine .idle ⟨fun _ => ⟨rfl, ?_⟩, fun h => by simp [exec] at h, fun j hj => by simp [exec] at hj⟩ (by simp)
      intro c hc
      unfold Vis at hv
      simp only [exec] at hc
      rw [hc] at hv
      exact ⟨hv.1, hv.2.1⟩
    · subst h1
      refine .toBackup st k c rfl ?_ rfl rfl h2 h3
      unfold Vis at hv ⊢
      simp only [exec, h3] at hv ⊢
      exact ⟨hv.1, hv.2.1, by simp⟩
  | toBackup st k c hp hv hs hd hb hr =>
    injection hp with he hr'; subst he; subst hr'
    have hnone : get (exec s (.sys (.rename .results (.backup st k)))).fs .results = none := by
      simp only [exec, Files.step, hr]
      exact get_after_backup _ _ _ (by simp)
    refine .idle ⟨fun _ => ⟨hd, fun c hc => ?_⟩, fun h => by simp [exec, hs] at h,
      fun j hj => by simp [exec, hd] at hj⟩ (by simp)
    rw [hnone] at hc; cases hc
  | appOpen js cs hp hf hs hj hcs =>
    injection hp with he hr'; subst he; subst hr'
    obtain ⟨c, h1, h2, h3⟩ := hf.on hs
    have hfs : (exec s (.sys (.openA .results))).fs = s.fs := by simp [exec, Files.step, h1]
    refine .appWrite js [] cs c rfl (by rw [hfs]; exact h1) h2 (by simpa [exec] using h3) ?_ ?_ hj hf.sub hs
    · simp [hcs, jobsOf_rowsFor]
    · rw [hcs]; exact isRows_rowsFor js
  | appWrite js js1 cs c hp hr hw hc hjs hrows hj hd hs =>
    cases cs with
    | nil =>
      simp only [writes, List.map_nil, List.nil_append] at hp
      injection hp with he hr'; subst he; subst hr'
      refine .appDone js c rfl hr hw ?_ hj hd hs
      simp [jobsOf] at hjs
      simpa [exec, hjs] using hc
    | cons c1 cs' =>
      simp only [writes, List.map_cons, List.cons_append] at hp
      injection hp with he hr'; subst he; subst hr'
      simp only [List.flatten_cons] at hjs hrows
      refine .appWrite js (js1 ++ jobsOf c1) cs' (c ++ c1) rfl ?_ (wellFormed_append hw hrows.append_left) ?_ ?_ hrows.append_right hj hd hs
      · simp [exec, Files.step, hr]
      · simp [exec, jobsOf_append, hc]
      · rw [← hjs, jobsOf_append]; simp
  | appDone js c hp hr hw hc hj hd hs =>
    injection hp with he hr'; subst he; subst hr'
    refine .idle ⟨fun h => by simp [exec] at h, fun _ => ⟨c, hr, hw, hc⟩, ?_⟩ (by simp)
    intro j hjj
    simp only [exec] at hjj ⊢
    rcases List.mem_append.1 hjj with h | h
    · exact hd j h
    · exact hj j h
  | tmpOpen pre cs tc mid post hp hpre hcs hc =>
    cases pre with
    | nil =>
      simp only [List.nil_append, List.cons_append] at hp
      injection hp with he hr'; subst he; subst hr'
      refine .tmpWrite [] cs tc mid post rfl (by simp [exec, Files.step]) (by simpa using hcs)
        (hc.same (same_of_tmp s _ (step_openW_tmp s.fs)))
    | cons e' pre' =>
      simp only [List.cons_append] at hp
      injection hp with he hr'; subst he; subst hr'
      have he : Harmless e := hpre e (by simp)
      exact .tmpOpen pre' cs tc mid post (by simp) (fun x hx => hpre x (List.mem_cons_of_mem _ hx)) hcs
        (hc.same (same_harmless s he))
  | tmpWrite t cs tc mid post hp ht hcs hc =>
    cases cs with
    | nil =>
      simp only [writes, List.map_nil, List.nil_append] at hp
      injection hp with he hr'; subst he; subst hr'
      refine .tmpMid tc mid post rfl ?_ (hc.same (same_harmless s (by simp [Harmless])))
      simp at hcs
      simpa [exec, Files.step, hcs] using ht
    | cons c1 cs' =>
      simp only [writes, List.map_cons, List.cons_append] at hp
      injection hp with he hr'; subst he; subst hr'
      refine .tmpWrite (t ++ c1) cs' tc mid post rfl ?_ ?_ (hc.same (same_of_tmp s _ (step_write_tmp s.fs c1)))
      · simp [exec, Files.step, ht]
      · simpa using hcs
  | tmpMid tc mid post hp ht hc =>
    cases hc with
    | first js hpo htc hs hd hj hne hm =>
      rcases hm with ⟨h1, h2⟩ | ⟨st, k, c, h1, h2, h3, h4, h5⟩
      · subst h1
        simp only [List.nil_append] at hp
        injection hp with he hr'; subst he; subst hr'; subst hpo
        have hres : get (exec s (.sys (.rename .tmp .results))).fs .results = some tc := by
          simp [exec, Files.step, ht]
        exact .firstDone js rfl (htc ▸ hres) hs hd hj hne
      · subst h1
        simp only [List.cons_append, List.nil_append] at hp
        injection hp with he hr'; subst he; subst hr'
        have hfs : (exec s (.sys (.rename .results (.backup st k)))).fs
            = set (del s.fs .results) (.backup st k) c := by simp [exec, Files.step, h3]
        refine .tmpMid tc [] post rfl ?_ (.first js hpo htc hs hd hj hne (.inl ⟨rfl, ?_⟩))
        · rw [hfs, get_set_ne _ _ (by simp), get_del_ne _ (by simp)]; exact ht
        · rw [hfs]; exact get_after_backup _ _ _ (by simp)
    | rewrite c hm hpo hf hr htc =>
      subst hm
      simp only [List.nil_append] at hp
      injection hp with he hr'; subst he; subst hr'
      have hres : get (exec s (.sys (.rename .tmp .results))).fs .results = some tc := by
        simp [exec, Files.step, ht]
      refine .idle ⟨?_, ?_, hf.sub⟩ hpo
      · intro h
        cases hst : s.started with
        | false =>
          refine ⟨(hf.off hst).1, fun c' hc' => ?_⟩
          rw [hres] at hc'; cases hc'
          obtain ⟨h1, h2⟩ := (hf.off hst).2 c hr
          exact ⟨htc ▸ wellFormed_extendAll h1, by rw [htc, jobsOf_extendAll]; exact h2⟩
        | true => simp [exec, hst] at h
      · intro h
        obtain ⟨c0, h1, h2, h3⟩ := hf.on h
        rw [hr] at h1; cases h1
        exact ⟨tc, hres, htc ▸ wellFormed_extendAll h2, by rw [htc, jobsOf_extendAll]; exact h3⟩
  | firstDone js hp hr hs hd hj hne =>
    injection hp with he hr'; subst he; subst hr'
    refine .idle ⟨fun h => by simp [exec] at h, fun _ => ⟨_, hr, wellFormed_header_rows js hne, ?_⟩, ?_⟩ (by simp)
    · simp [exec, hd, jobsOf, jobsOf_rowsFor]
    · intro j hjj
      simp only [exec, hd, List.nil_append] at hjj
      exact hj j hjj

/-! ### no result file is destroyed -/

/-- the later content still has every job of the earlier one, in the same order, and is still a
well-formed table if the earlier one was -/
def Keeps (c c' : Content) : Prop :=
  jobsOf c <+: jobsOf c' ∧ (wellFormed c = true → wellFormed c' = true)

theorem Keeps.refl (c : Content) : Keeps c c := ⟨List.prefix_refl _, id⟩

theorem Keeps.trans {a b c : Content} (h1 : Keeps a b) (h2 : Keeps b c) : Keeps a c :=
  ⟨List.IsPrefix.trans h1.1 h2.1, fun h => h2.2 (h1.2 h)⟩

/-- no result file is destroyed between two states of the directory: backups and foreign files
stay byte for byte, `results.csv` keeps its rows under its own name or under a backup name that
was free before -/
structure Grows (fs fs' : FS) : Prop where
  backups : ∀ st k c, get fs (.backup st k) = some c → get fs' (.backup st k) = some c
  others : ∀ x c, get fs (.other x) = some c → get fs' (.other x) = some c
  results : ∀ c, get fs .results = some c →
    (∃ c', get fs' .results = some c' ∧ Keeps c c') ∨
    (∃ st k c', get fs (.backup st k) = none ∧ get fs' (.backup st k) = some c' ∧ Keeps c c')

theorem Grows.refl (fs : FS) : Grows fs fs :=
  ⟨fun _ _ _ h => h, fun _ _ h => h, fun c h => .inl ⟨c, h, Keeps.refl c⟩⟩

theorem Grows.trans {a b c : FS} (h1 : Grows a b) (h2 : Grows b c) : Grows a c := by
  refine ⟨fun st k x h => h2.backups st k x (h1.backups st k x h),
    fun x y h => h2.others x y (h1.others x y h), ?_⟩
  intro x hx
  rcases h1.results x hx with ⟨x', hx', hk⟩ | ⟨st, k, x', hn, hx', hk⟩
  · rcases h2.results x' hx' with ⟨x'', hx'', hk'⟩ | ⟨st, k, x'', hn, hx'', hk'⟩
    · exact .inl ⟨x'', hx'', hk.trans hk'⟩
    · refine .inr ⟨st, k, x'', ?_, hx'', hk.trans hk'⟩
      cases hg : get a (.backup st k) with
      | none => rfl
      | some y => rw [h1.backups st k y hg] at hn; cases hn
  · exact .inr ⟨st, k, x', hn, h2.backups st k x' hx', hk⟩

theorem Grows.of_agree {fs fs' : FS} (h : ∀ n, n ≠ Name.tmp → get fs' n = get fs n) : Grows fs fs' :=
  ⟨fun st k c hc => by rw [h _ (by simp)]; exact hc,
   fun x c hc => by rw [h _ (by simp)]; exact hc,
   fun c hc => .inl ⟨c, by rw [h _ (by simp)]; exact hc, Keeps.refl c⟩⟩

theorem Grows.of_eq {fs fs' : FS} (h : fs' = fs) : Grows fs fs' := h ▸ Grows.refl fs

/-- renaming `results.csv` to a backup name that is free destroys nothing -/
theorem grows_backup (fs : FS) (st : String) (k : Nat) (c : Content)
    (hb : get fs (.backup st k) = none) (hr : get fs .results = some c) :
    Grows fs (set (del fs .results) (.backup st k) c) := by
  refine ⟨?_, ?_, ?_⟩
  · intro st' k' c' hc'
    by_cases hn : Name.backup st k = Name.backup st' k'
    · rw [← hn, hb] at hc'; cases hc'
    · rw [get_set_ne _ _ hn, get_del_ne _ (by simp)]; exact hc'
  · intro x c' hc'
    rw [get_set_ne _ _ (by simp), get_del_ne _ (by simp)]; exact hc'
  · intro c' hc'
    rw [hr] at hc'; cases hc'
    exact .inr ⟨st, k, c, hb, get_set_self _ _ _, Keeps.refl c⟩

/-- executing the next pending event never destroys a result file -/
theorem Inv.grows {s : St} {e : Ev} {rest : List Ev} (h : Inv s (e :: rest)) :
    Grows s.fs (exec s e).fs := by
  cases h with
  | idle hf hp => exact .of_eq (fs_harmless s (hp e (by simp)))
  | created tl hp hv htl =>
    injection hp with he hr; subst he; exact .of_eq rfl
  | toBackup st k c hp hv hs hd hb hr =>
    injection hp with he hr'; subst he
    have hfs : (exec s (.sys (.rename .results (.backup st k)))).fs
        = set (del s.fs .results) (.backup st k) c := by simp [exec, Files.step, hr]
    rw [hfs]
    exact grows_backup s.fs st k c hb hr
  | appOpen js cs hp hf hs hj hcs =>
    injection hp with he hr'; subst he
    obtain ⟨c, h1, _, _⟩ := hf.on hs
    exact .of_eq (by simp [exec, Files.step, h1])
  | appWrite js js1 cs c hp hr hw hc hjs hrows hj hd hs =>
    cases cs with
    | nil =>
      simp only [writes, List.map_nil, List.nil_append] at hp
      injection hp with he hr'; subst he; exact .of_eq rfl
    | cons c1 cs' =>
      simp only [writes, List.map_cons, List.cons_append] at hp
      injection hp with he hr'; subst he
      have hfs : (exec s (.sys (.write .results c1))).fs = set s.fs .results (c ++ c1) := by
        simp [exec, Files.step, hr]
      rw [hfs]
      simp only [List.flatten_cons] at hrows
      refine ⟨?_, ?_, ?_⟩
      · intro st' k' c' hc'; rw [get_set_ne _ _ (by simp)]; exact hc'
      · intro x c' hc'; rw [get_set_ne _ _ (by simp)]; exact hc'
      · intro c' hc'
        rw [hr] at hc'; cases hc'
        refine .inl ⟨c ++ c1, get_set_self _ _ _, ?_, fun h => wellFormed_append h hrows.append_left⟩
        rw [jobsOf_append]; exact List.prefix_append _ _
  | appDone js c hp hr hw hc hj hd hs =>
    injection hp with he hr'; subst he; exact .of_eq rfl
  | tmpOpen pre cs tc mid post hp hpre hcs hc =>
    cases pre with
    | nil =>
      simp only [List.nil_append, List.cons_append] at hp
      injection hp with he hr'; subst he
      exact .of_agree (step_openW_tmp s.fs)
    | cons e' pre' =>
      simp only [List.cons_append] at hp
      injection hp with he hr'; subst he
      exact .of_eq (fs_harmless s (hpre e (by simp)))
  | tmpWrite t cs tc mid post hp ht hcs hc =>
    cases cs with
    | nil =>
      simp only [writes, List.map_nil, List.nil_append] at hp
      injection hp with he hr'; subst he; exact .of_eq rfl
    | cons c1 cs' =>
      simp only [writes, List.map_cons, List.cons_append] at hp
      injection hp with he hr'; subst he
      exact .of_agree (step_write_tmp s.fs c1)
  | tmpMid tc mid post hp ht hc =>
    have hcommit : ∀ (c0 : Content), (get s.fs .results = none ∨ (get s.fs .results = some c0 ∧ Keeps c0 tc)) →
        Grows s.fs (set (del s.fs .tmp) .results tc) := by
      intro c0 hcase
      refine ⟨?_, ?_, ?_⟩
      · intro st' k' c' hc'; rw [get_set_ne _ _ (by simp), get_del_ne _ (by simp)]; exact hc'
      · intro x c' hc'; rw [get_set_ne _ _ (by simp), get_del_ne _ (by simp)]; exact hc'
      · intro c' hc'
        rcases hcase with h | ⟨h, hk⟩
        · rw [h] at hc'; cases hc'
        · rw [h] at hc'; cases hc'
          exact .inl ⟨tc, get_set_self _ _ _, hk⟩
    cases hc with
    | first js hpo htc hs hd hj hne hm =>
      rcases hm with ⟨h1, h2⟩ | ⟨st, k, c, h1, h2, h3, h4, h5⟩
      · subst h1
        simp only [List.nil_append] at hp
        injection hp with he hr'; subst he
        have hfs : (exec s (.sys (.rename .tmp .results))).fs = set (del s.fs .tmp) .results tc := by
          simp [exec, Files.step, ht]
        rw [hfs]; exact hcommit [] (.inl h2)
      · subst h1
        simp only [List.cons_append, List.nil_append] at hp
        injection hp with he hr'; subst he
        have hfs : (exec s (.sys (.rename .results (.backup st k)))).fs
            = set (del s.fs .results) (.backup st k) c := by simp [exec, Files.step, h3]
        rw [hfs]; exact grows_backup s.fs st k c h2 h3
    | rewrite c hm hpo hf hr htc =>
      subst hm
      simp only [List.nil_append] at hp
      injection hp with he hr'; subst he
      have hfs : (exec s (.sys (.rename .tmp .results))).fs = set (del s.fs .tmp) .results tc := by
        simp [exec, Files.step, ht]
      rw [hfs]
      refine hcommit c (.inr ⟨hr, ?_, fun h => htc ▸ wellFormed_extendAll h⟩)
      rw [htc, jobsOf_extendAll]; exact List.prefix_refl _
  | firstDone js hp hr hs hd hj hne =>
    injection hp with he hr'; subst he; exact .of_eq rfl

/-! ## 5. every action establishes the invariant; lifting to traces and histories -/

/-- contract of the evaluator (C01): rows are dumped only for jobs whose run-function has
returned (`d` = jobs finished so far) -/
def Causal : List Job → List Act → Prop
  | _, [] => True
  | d, .finish j :: as => Causal (d ++ [j]) as
  | d, .dump js _ _ :: as => (∀ j ∈ js, j ∈ d) ∧ Causal d as
  | d, .create _ :: as => Causal d as
  | d, .recreate _ :: as => Causal d as
  | d, .resume :: as => Causal d as
  | d, .endCall _ _ :: as => Causal d as

theorem execAll_append (s : St) (a b : List Ev) :
    execAll s (a ++ b) = execAll (execAll s a) b := by simp [execAll, List.foldl_append]

@[simp] theorem execAll_nil (s : St) : execAll s [] = s := rfl

@[simp] theorem execAll_cons (s : St) (e : Ev) (es : List Ev) :
    execAll s (e :: es) = execAll (exec s e) es := rfl

/-- the `done` events of an event list -/
def doneOf : List Ev → List Job
  | [] => []
  | .done j :: es => j :: doneOf es
  | _ :: es => doneOf es

theorem done_execAll (s : St) (es : List Ev) : (execAll s es).done = s.done ++ doneOf es := by
  induction es generalizing s with
  | nil => simp [doneOf]
  | cons e es ih =>
    rw [execAll_cons, ih]
    cases e <;> simp [exec, doneOf]

theorem doneOf_append (a b : List Ev) : doneOf (a ++ b) = doneOf a ++ doneOf b := by
  induction a with
  | nil => rfl
  | cons e a ih => cases e <;> simp [doneOf, ih]

@[simp] theorem doneOf_writes (n : Name) (cs : List (List Line)) : doneOf (writes n cs) = [] := by
  induction cs with
  | nil => rfl
  | cons c cs ih => simpa [writes, doneOf] using ih

theorem doneOf_expand (s : St) (a : Act) :
    doneOf (expand fixed s a) = match a with | .finish j => [j] | _ => [] := by
  cases a with
  | create st =>
    simp only [expand]
    split <;> simp [doneOf]
  | recreate st =>
    simp only [expand, fixed, Bool.true_or, if_true]
    split <;> simp [doneOf]
  | resume => rfl
  | finish j => rfl
  | dump js sizes stamp =>
    simp only [expand, fixed]
    split
    · rfl
    · split
      · simp [doneOf, doneOf_append]
      · split
        · simp only [doneOf, doneOf_writes, doneOf_append, List.nil_append]
          split <;> simp [doneOf]
        · simp [doneOf, doneOf_append]
  | endCall multi sizes =>
    simp only [expand, fixed]
    split
    · rfl
    · cases multi <;> simp [doneOf, doneOf_append]

theorem Inv.of_create {s : St} (hv : Vis s) (stamp : String) :
    Inv s (expand fixed s (.create stamp)) := by
  simp only [expand, fixed, backupFor]
  cases hr : get s.fs .results with
  | none => exact .created [] rfl hv (.inl rfl)
  | some c =>
    refine .created _ rfl hv (.inr ⟨stamp, _, c, rfl, ?_, hr⟩)
    exact backupName_free s.fs stamp

theorem Inv.of_expand {s : St} (hf : Full s) (a : Act)
    (hd : ∀ js sz st, a = .dump js sz st → ∀ j ∈ js, j ∈ s.done) : Inv s (expand fixed s a) := by
  cases a with
  | create st => exact .of_create hf.vis st
  | recreate st =>
    have h := Inv.of_create hf.vis st
    simpa [expand, fixed] using h
  | resume => exact .created [] rfl hf.vis (.inl rfl)
  | finish j => exact .idle hf (by simp [expand, Harmless])
  | dump js sizes stamp =>
    have hj := hd js sizes stamp rfl
    simp only [expand, fixed, backupFor]
    split
    · exact .idle hf (by simp)
    · rename_i hne
      cases hs : s.started with
      | true =>
        simp only [if_true]
        exact .appOpen js _ rfl hf hs hj (chunk_flatten _ _)
      | false =>
        obtain ⟨h1, h2⟩ := hf.off hs
        cases hr : get s.fs .results with
        | none =>
          refine .tmpOpen [] (chunk sizes (.header false :: rowsFor js)) _ [] [.dumped js] (by simp)
            (by simp) (chunk_flatten _ _) ?_
          exact .first js rfl rfl hs h1 hj hne (.inl ⟨rfl, hr⟩)
        | some c =>
          obtain ⟨h3, h4⟩ := h2 c hr
          refine .tmpOpen [] (chunk sizes (.header false :: rowsFor js)) _
            [.sys (.rename .results (backupName s.fs stamp))] [.dumped js] (by simp)
            (by simp) (chunk_flatten _ _) ?_
          exact .first js rfl rfl hs h1 hj hne
            (.inr ⟨stamp, _, c, rfl, backupName_free s.fs stamp, hr, h3, h4⟩)
  | endCall multi sizes =>
    simp only [expand, fixed]
    cases hr : get s.fs .results with
    | none => exact .idle hf (by simp)
    | some c =>
      cases multi with
      | false => exact .idle hf (by simp [Harmless])
      | true =>
        refine .tmpOpen [.sys (.openR .results), .sys (.close .results)]
          (chunk sizes (extendAll c)) _ []
          [.sys (.openR .results), .sys (.close .results)] (by simp) (by simp [Harmless])
          (chunk_flatten _ _) ?_
        exact .rewrite c rfl (by simp [Harmless]) hf hr rfl

theorem Inv.prefix {s : St} (p q : List Ev) (h : Inv s (p ++ q)) : Inv (execAll s p) q := by
  induction p generalizing s with
  | nil => exact h
  | cons e p ih => exact ih h.next

theorem Causal.head {d : List Job} {a : Act} {as : List Act} (h : Causal d (a :: as)) :
    ∀ js sz st, a = .dump js sz st → ∀ j ∈ js, j ∈ d := by
  intro js sz st ha; subst ha; exact h.1

theorem Causal.tail {s : St} {a : Act} {as : List Act} (h : Causal s.done (a :: as)) :
    Causal (execAll s (expand fixed s a)).done as := by
  rw [done_execAll, doneOf_expand]
  cases a with
  | create st => simpa [Causal] using h
  | recreate st => simpa [Causal] using h
  | resume => simpa [Causal] using h
  | finish j => simpa [Causal] using h
  | dump js sz st => simpa [Causal] using h.2
  | endCall m sz => simpa [Causal] using h

theorem trace_full (acts : List Act) : ∀ s : St, Full s → Causal s.done acts →
    Full (execAll s (trace fixed s acts)) := by
  induction acts with
  | nil => intro s hf _; exact hf
  | cons a as ih =>
    intro s hf hc
    simp only [trace, execAll_append]
    refine ih _ ?_ hc.tail
    have := Inv.prefix (expand fixed s a) [] (by simpa using Inv.of_expand hf a hc.head)
    exact this.nil

theorem trace_inv (acts : List Act) : ∀ s : St, Full s → Causal s.done acts →
    ∀ p e q, trace fixed s acts = p ++ e :: q → ∃ pend, Inv (execAll s p) (e :: pend) := by
  induction acts with
  | nil => intro s _ _ p e q h; simp [trace] at h
  | cons a as ih =>
    intro s hf hc p e q h
    simp only [trace] at h
    have hinv := Inv.of_expand hf a hc.head
    have hfull : Full (execAll s (expand fixed s a)) :=
      (Inv.prefix (expand fixed s a) [] (by simpa using hinv)).nil
    rcases List.append_eq_append_iff.1 h with ⟨a', h1, h2⟩ | ⟨c', h1, h2⟩
    · -- p = expand ++ a'
      subst h1
      rw [execAll_append]
      exact ih _ hfull hc.tail a' e q h2
    · cases c' with
      | nil =>
        simp at h1 h2; subst h1
        have := ih _ hfull hc.tail [] e q h2.symm
        simpa using this
      | cons x c'' =>
        injection h2 with hx hq; subst hx
        rw [h1] at hinv
        exact ⟨c'', Inv.prefix p _ hinv⟩

/-- one process: `Search.__init__` from ANY visible state (e.g. the one a killed process left),
then the actions of the search -/
theorem run_inv {s : St} (hv : Vis s) (stamp : String) (acts : List Act) (hc : Causal s.done acts) :
    ∀ p e q, trace fixed s (.create stamp :: acts) = p ++ e :: q →
      ∃ pend, Inv (execAll s p) (e :: pend) := by
  intro p e q h
  simp only [trace] at h
  have hinv := Inv.of_create hv stamp
  have hfull : Full (execAll s (expand fixed s (.create stamp))) :=
    (Inv.prefix _ [] (by simpa using hinv)).nil
  have hc' : Causal (execAll s (expand fixed s (.create stamp))).done acts := by
    rw [done_execAll, doneOf_expand]; simpa using hc
  rcases List.append_eq_append_iff.1 h with ⟨a', h1, h2⟩ | ⟨c', h1, h2⟩
  · subst h1
    rw [execAll_append]
    exact trace_inv acts _ hfull hc' a' e q h2
  · cases c' with
    | nil =>
      simp at h1 h2; subst h1
      have := trace_inv acts _ hfull hc' [] e q h2.symm
      simpa using this
    | cons x c'' =>
      injection h2 with hx hq; subst hx
      rw [h1] at hinv
      exact ⟨c'', Inv.prefix p _ hinv⟩

theorem run_vis {s : St} (hv : Vis s) (stamp : String) (acts : List Act) (hc : Causal s.done acts) :
    ∀ p q, trace fixed s (.create stamp :: acts) = p ++ q → Vis (execAll s p) := by
  intro p q h
  cases q with
  | nil =>
    simp at h; subst h
    simp only [trace, execAll_append]
    have hfull : Full (execAll s (expand fixed s (.create stamp))) :=
      (Inv.prefix _ [] (by simpa using Inv.of_create hv stamp)).nil
    have hc' : Causal (execAll s (expand fixed s (.create stamp))).done acts := by
      rw [done_execAll, doneOf_expand]; simpa using hc
    exact (trace_full acts _ hfull hc').vis
  | cons e q =>
    obtain ⟨pend, hi⟩ := run_inv hv stamp acts hc p e q h
    exact hi.vis

/-- in every process rows are dumped only for finished jobs -/
def RunsOK : St → List Run → Prop
  | _, [] => True
  | s, r :: rs => Causal s.done r.acts ∧ RunsOK (execAll s (runTrace fixed s r)) rs

theorem runTrace_split (s : St) (r : Run) :
    trace fixed s (.create r.stamp :: r.acts)
      = runTrace fixed s r ++ (trace fixed s (.create r.stamp :: r.acts)).drop r.cut := by
  simp [runTrace]

theorem hist_inv (runs : List Run) : ∀ s : St, Vis s → RunsOK s runs →
    ∀ p e q, searchFiles fixed s runs = p ++ e :: q → ∃ pend, Inv (execAll s p) (e :: pend) := by
  induction runs with
  | nil => intro s _ _ p e q h; simp [searchFiles] at h
  | cons r rs ih =>
    intro s hv hok p e q h
    simp only [searchFiles] at h
    have hv' : Vis (execAll s (runTrace fixed s r)) :=
      run_vis hv r.stamp r.acts hok.1 _ _ (runTrace_split s r)
    rcases List.append_eq_append_iff.1 h with ⟨a', h1, h2⟩ | ⟨c', h1, h2⟩
    · subst h1
      rw [execAll_append]
      exact ih _ hv' hok.2 a' e q h2
    · cases c' with
      | nil =>
        simp at h1 h2; subst h1
        have := ih _ hv' hok.2 [] e q h2.symm
        simpa using this
      | cons x c'' =>
        injection h2 with hx hq; subst hx
        refine run_inv hv r.stamp r.acts hok.1 p e
          (c'' ++ (trace fixed s (.create r.stamp :: r.acts)).drop r.cut) ?_
        have hsplit := runTrace_split s r
        rw [h1] at hsplit
        exact hsplit.trans (by simp)

theorem hist_vis (runs : List Run) : ∀ s : St, Vis s → RunsOK s runs →
    ∀ p q, searchFiles fixed s runs = p ++ q → Vis (execAll s p) := by
  induction runs with
  | nil =>
    intro s hv _ p q h
    simp [searchFiles] at h
    rw [h.1]; exact hv
  | cons r rs ih =>
    intro s hv hok p q h
    simp only [searchFiles] at h
    have hv' : Vis (execAll s (runTrace fixed s r)) :=
      run_vis hv r.stamp r.acts hok.1 _ _ (runTrace_split s r)
    rcases List.append_eq_append_iff.1 h with ⟨a', h1, h2⟩ | ⟨c', h1, h2⟩
    · subst h1
      rw [execAll_append]
      exact ih _ hv' hok.2 a' q h2
    · refine run_vis hv r.stamp r.acts hok.1 p
        (c' ++ (trace fixed s (.create r.stamp :: r.acts)).drop r.cut) ?_
      have hsplit := runTrace_split s r
      rw [h1] at hsplit
      exact hsplit.trans (by simp)

/-- between any two crash points of a history no result file is destroyed -/
theorem hist_grows (runs : List Run) (s : St) (hv : Vis s) (hok : RunsOK s runs) :
    ∀ r p q, searchFiles fixed s runs = p ++ r ++ q →
      Grows (execAll s p).fs (execAll s (p ++ r)).fs := by
  intro r
  induction r with
  | nil => intro p q _; simp; exact Grows.refl _
  | cons e r ih =>
    intro p q h
    obtain ⟨pend, hi⟩ := hist_inv runs s hv hok p e (r ++ q) (by simp [h])
    have h1 := hi.grows
    have h2 := ih (p ++ [e]) q (by simp [h])
    rw [execAll_append] at h2
    have h3 : p ++ e :: r = p ++ [e] ++ r := by simp
    rw [h3]
    exact h1.trans (by simpa using h2)

/-! ## 6. a write cut short by the kernel -/

/-- the next pending event is a `write`: it goes to the temporary file, or it appends complete rows
of finished jobs to a good `results.csv` -/
theorem Inv.write_cases {s : St} {n : Name} {c : List Line} {rest : List Ev}
    (h : Inv s (.sys (.write n c) :: rest)) :
    n = .tmp ∨ (n = .results ∧ ∃ c0, get s.fs .results = some c0 ∧ wellFormed c0 = true ∧
      (∀ j ∈ jobsOf c0, j ∈ s.done) ∧ (∀ j ∈ s.dumped, j ∈ jobsOf c0) ∧ IsRows c ∧
      ∀ j ∈ jobsOf c, j ∈ s.done) := by
  cases h with
  | idle hf hp =>
    have := hp _ (List.mem_cons_self ..)
    simp [Harmless] at this
  | created tl hp => simp at hp
  | toBackup st k c' hp => simp at hp
  | appOpen js cs hp => simp at hp
  | appWrite js js1 cs c0 hp hr hw hc hjs hrows hj hd hs =>
    cases cs with
    | nil => simp [writes] at hp
    | cons c1 cs' =>
      simp only [writes, List.map_cons, List.cons_append] at hp
      injection hp with he _
      injection he with he
      injection he with hn hcc
      subst hn; subst hcc
      simp only [List.flatten_cons] at hjs hrows
      refine .inr ⟨rfl, c0, hr, hw, ?_, ?_, hrows.append_left, ?_⟩
      · intro j hjc; rw [hc] at hjc
        rcases List.mem_append.1 hjc with h | h
        · exact hd j h
        · exact sublist_done hjs hj j h
      · intro j hjd; rw [hc]; exact List.mem_append_left _ hjd
      · intro j hjc
        apply hj j
        rw [← hjs, jobsOf_append]
        exact List.mem_append_right _ (List.mem_append_left _ hjc)
  | appDone js c' hp => simp at hp
  | tmpOpen pre cs tc mid post hp hpre =>
    cases pre with
    | nil => simp at hp
    | cons e' pre' =>
      simp only [List.cons_append] at hp
      injection hp with he _
      have := hpre e' (List.mem_cons_self ..)
      rw [← he] at this
      simp [Harmless] at this
  | tmpWrite t cs tc mid post hp =>
    cases cs with
    | nil => simp [writes] at hp
    | cons c1 cs' =>
      simp only [writes, List.map_cons, List.cons_append] at hp
      injection hp with he _
      injection he with he
      injection he with hn _
      exact .inl hn
  | tmpMid tc mid post hp ht hc =>
    cases hc with
    | first js hpo htc hs hd hj hne hm =>
      rcases hm with ⟨h1, _⟩ | ⟨st, k, c', h1, _⟩ <;> subst h1 <;> simp at hp
    | rewrite c' hm => subst hm; simp at hp
  | firstDone js hp => simp at hp

/-- a `write` to `results.csv` that the kernel cuts short inside a line leaves the earlier content, the
complete lines before the cut and ONE incomplete last line of a finished job; a torn `write` to the
temporary file leaves `results.csv` untouched -/
theorem torn_write {s : St} {n : Name} {c : List Line} {rest : List Ev}
    (h : Inv s (.sys (.write n c) :: rest)) (a : List Line) (l : Line) (b : List Line)
    (hc : c = a ++ l :: b) :
    let s' := exec s (.sys (.write n (tornPayload a l)))
    (n = .tmp ∧ get s'.fs .results = get s.fs .results) ∨
    (n = .results ∧ ∃ c0 j, l = .row j false ∧ j ∈ s.done ∧
      get s'.fs .results = some ((c0 ++ a) ++ [.torn j]) ∧ wellFormed (c0 ++ a) = true ∧
      (∀ j ∈ jobsOf (c0 ++ a), j ∈ s.done) ∧ (∀ j ∈ s.dumped, j ∈ jobsOf (c0 ++ a))) := by
  intro s'
  rcases h.write_cases with hn | ⟨hn, c0, h1, h2, h3, h4, h5, h6⟩
  · subst hn
    exact .inl ⟨rfl, step_write_tmp s.fs _ _ (by simp)⟩
  · subst hn; subst hc
    obtain ⟨j, rfl⟩ := h5 l (by simp)
    refine .inr ⟨rfl, c0, j, rfl, h6 j (by simp [jobsOf_append, jobsOf]), ?_,
      wellFormed_append h2 h5.append_left, ?_, ?_⟩
    · simp [s', exec, Files.step, h1, tornPayload, Line.tear]
    · intro j' hj'
      rw [jobsOf_append] at hj'
      rcases List.mem_append.1 hj' with h | h
      · exact h3 j' h
      · exact h6 j' (by rw [jobsOf_append]; exact List.mem_append_left _ h)
    · intro j' hj'; rw [jobsOf_append]; exact List.mem_append_left _ (h4 j' hj')

end DH.Files
