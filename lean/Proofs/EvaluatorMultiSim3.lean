import Proofs.EvaluatorMultiSim2

/-!
Simulation, continued: the environment contract of the system's evaluator is the single-evaluator
contract under the numbering; one call of an evaluator of the system = one call of the single-evaluator
model (`stepOwn_sim`).  Core Lean only.
-/

namespace DH.Evaluator

variable {C O : Type}

/-! ### statuses and the contract -/

theorem Rel.status_eq {rows : List (Row C O)} {me : MEv C O} {s : Ev C O} (hr : Rel rows me s) (hw : Wf s)
    (i : Nat) : statusAt rows (rho me.jobs rows.length i) = statusOf s.jobs i := by
  unfold statusAt statusOf
  cases hf : findJob s.jobs i with
  | some j =>
    obtain ⟨r, hrow, hrec⟩ := hr.rowOf hf
    rw [hrow]
    have := congrArg JobRec.status hrec
    simpa [recOf, renRec] using this
  | none =>
    have hge : me.jobs.length ≤ i := by
      rw [← hr.n]
      apply Nat.le_of_not_lt
      intro hlt
      have : i ∈ s.jobs.map (·.id) := by rw [hw.ids]; exact List.mem_range.2 hlt
      obtain ⟨j, hj⟩ := findJob_of_mem_ids this
      rw [hj] at hf; simp at hf
    cases hrow : DH.Evaluator.rowOf rows (rho me.jobs rows.length i) with
    | none => rfl
    | some r =>
      obtain ⟨hm, hid⟩ := rowOf_some hrow
      have := row_id_lt hr.ids hm
      rw [hid, rho_ge hge] at this
      omega

theorem Rel.runIds {rows : List (Row C O)} {me : MEv C O} {s : Ev C O} (hr : Rel rows me s) :
    mRunningIds me = (runningIds s).map (rho me.jobs rows.length) := by
  unfold mRunningIds DH.Evaluator.runningIds
  rw [← hr.running, List.map_map, List.map_map]
  rfl

theorem nodup_map_iff_inj {f : Nat → Nat} (hf : ∀ a b, f a = f b → a = b) (l : List Nat) :
    decide (l.map f).Nodup = decide l.Nodup := by
  rw [decide_eq_decide]
  exact ⟨nodup_of_map f, nodup_map_inj hf⟩

theorem all_map_ren (f : Nat → Nat) (l : List Nat) (P : Nat → Bool) (Q : Nat → Bool) (h : ∀ i, P (f i) = Q i) :
    (l.map f).all P = l.all Q := by
  rw [List.all_map]
  congr 1
  funext i
  exact h i

theorem Rel.waitOk_eq {rows : List (Row C O)} {me : MEv C O} {s : Ev C O} (hr : Rel rows me s) (hw : Wf s)
    (lw : List Nat) : mWaitOk rows me (lw.map (rho me.jobs rows.length)) = waitOk s lw := by
  unfold mWaitOk DH.Evaluator.waitOk
  rw [nodup_map_iff_inj hr.inj, hr.runIds]
  congr 1
  apply all_map_ren
  intro i
  rw [contains_map_inj hr.inj, hr.status_eq hw]

theorem Rel.startedOk_eq {rows : List (Row C O)} {me : MEv C O} {s : Ev C O} (hr : Rel rows me s) (hw : Wf s)
    (lst : List Nat) : mStartedOk rows me (lst.map (rho me.jobs rows.length)) = startedOk s lst := by
  unfold mStartedOk DH.Evaluator.startedOk
  rw [nodup_map_iff_inj hr.inj, hr.runIds]
  congr 1
  apply all_map_ren
  intro i
  rw [contains_map_inj hr.inj, hr.status_eq hw]

/-- the ids of an evaluator's running tasks are ids of its own jobs -/
theorem Rel.running_own {rows : List (Row C O)} {me : MEv C O} {s : Ev C O} (hr : Rel rows me s)
    (hi : Inv s) {g : Nat} (hg : g ∈ mRunningIds me) : g ∈ me.jobs := by
  rw [hr.runIds] at hg
  obtain ⟨i, hi', rfl⟩ := List.mem_map.1 hg
  have : i ∈ s.submitted := by rw [← hi.runSub]; exact hi'
  exact hr.mem_jobs_of_sub hi.wf (hi.sub_lt this)

theorem mWaitOk_own {rows : List (Row C O)} {me : MEv C O} {w : List Nat} (h : mWaitOk rows me w = true) :
    ∀ g ∈ w, g ∈ mRunningIds me := by
  unfold mWaitOk at h
  simp only [Bool.and_eq_true, List.all_eq_true, List.contains_eq_mem, decide_eq_true_eq] at h
  intro g hg
  exact (h.2 g hg).1

theorem mStartedOk_own {rows : List (Row C O)} {me : MEv C O} {w : List Nat} (h : mStartedOk rows me w = true) :
    ∀ g ∈ w, g ∈ mRunningIds me := by
  unfold mStartedOk at h
  simp only [Bool.and_eq_true, List.all_eq_true, List.contains_eq_mem, decide_eq_true_eq] at h
  intro g hg
  exact (h.2 g hg).1

theorem mMarkStarted_length (rows : List (Row C O)) (st : List Nat) :
    (mMarkStarted rows st).length = rows.length := by simp [mMarkStarted]

/-- the contract of a gather of the system's evaluator = the single-evaluator contract of the renumbered call -/
theorem gather_ok_eq {rows : List (Row C O)} {me : MEv C O} {s : Ev C O} (hr : Rel rows me s) (hw : Wf s)
    (all : Bool) (k : Nat) (lst : List Nat) (lws : List (List Nat)) :
    mOpOkLocal rows me (.gather all k (lst.map (rho me.jobs rows.length)) (lws.map (·.map (rho me.jobs rows.length)))) = true →
      opOk s (.gather all k lst lws) = true := by
  unfold mOpOkLocal opOk
  simp only [hr.runLen, ← hr.lopen, List.isEmpty_map]
  by_cases h0 : ((if all = true then s.running.length else k) = 0 || !s.loopOpen) = true
  · rw [if_pos h0, if_pos h0]; exact id
  · rw [if_neg h0, if_neg h0, awaitN_sim hr]
    cases hd : awaitN s (if all = true then s.running.length else k) lws with
    | error e =>
      simp only [renDone, Bool.and_eq_true]
      exact fun h => h.1
    | ok done =>
      simp only [renDone]
      have hr1 := hr.markSt lst
      have hw1 := hw.markSt lst
      have h1 : (lws.map (·.map (rho me.jobs rows.length))).all
          (mWaitOk (mMarkStarted rows (lst.map (rho me.jobs rows.length))) me) =
          lws.all (waitOk { s with jobs := markStarted s.jobs lst }) := by
        rw [List.all_map]
        congr 1
        funext lw
        have := hr1.waitOk_eq hw1 lw
        rw [mMarkStarted_length] at this
        exact this
      have h2 : (mRunningIds me).all (done.map (rho me.jobs rows.length)).contains =
          (runningIds s).all done.contains := by
        rw [hr.runIds]
        apply all_map_ren
        intro i
        exact contains_map_inj hr.inj _ _
      rw [hr.startedOk_eq hw, h1, h2]
      exact id

theorem gather_own_aux {rows : List (Row C O)} {me : MEv C O} {s : Ev C O} (hr : Rel rows me s) (hi : Inv s)
    (size : Nat) {st : List Nat} {ws : List (List Nat)}
    (hok : (if (size = 0 || !me.loopOpen) = true then st.isEmpty && ws.isEmpty
      else match mAwaitN me size ws with
        | .error e => e != .envStuck && st.isEmpty && ws.isEmpty
        | .ok done =>
          mStartedOk rows me st && ws.all (mWaitOk (mMarkStarted rows st) me) &&
          (if size ≥ me.running.length then (mRunningIds me).all done.contains else true)) = true) :
    (∀ g ∈ st, g ∈ me.jobs) ∧ (∀ w ∈ ws, ∀ g ∈ w, g ∈ me.jobs) := by
  split at hok
  · simp only [Bool.and_eq_true, List.isEmpty_iff] at hok
    rw [hok.1, hok.2]; simp
  · split at hok
    · simp only [Bool.and_eq_true, List.isEmpty_iff] at hok
      rw [hok.1.2, hok.2]; simp
    · simp only [Bool.and_eq_true, List.all_eq_true] at hok
      refine ⟨fun g hg => hr.running_own hi (mStartedOk_own hok.1.1 g hg), fun w hw g hg => ?_⟩
      exact hr.running_own hi (mWaitOk_own (hok.1.2 w hw) g hg)

theorem gather_own {rows : List (Row C O)} {me : MEv C O} {s : Ev C O} (hr : Rel rows me s) (hi : Inv s)
    {all : Bool} {k : Nat} {st : List Nat} {ws : List (List Nat)}
    (hok : mOpOkLocal rows me (.gather all k st ws) = true) :
    (∀ g ∈ st, g ∈ me.jobs) ∧ (∀ w ∈ ws, ∀ g ∈ w, g ∈ me.jobs) :=
  gather_own_aux hr hi (if all then me.running.length else k) hok

/-- **one gather of an evaluator of the system, up to `process_local_tasks_done`, is one gather of the
single-evaluator model** on the renumbered environment -/
theorem gather_step_sim (p : MParams C O) {rows : List (Row C O)} {me : MEv C O} {s : Ev C O}
    (hi : Inv s) (hr : Rel rows me s) (all : Bool) (k : Nat) (st : List Nat) (ws : List (List Nat))
    (hok : mOpOkLocal rows me (.gather all k st ws) = true) :
    ∃ lst lws, lst.map (rho me.jobs rows.length) = st ∧ lws.map (·.map (rho me.jobs rows.length)) = ws ∧
      opOk s (.gather all k lst lws) = true ∧
      ∃ rows' me', mGatherLocal p (rows, me) all k st ws =
          ((rows', me'), renRes (rho me.jobs rows.length) (outRes (gather p.toParams s all k lst lws).2)) ∧
        Rel rows' me' (gather p.toParams s all k lst lws).1 ∧ me'.jobs = me.jobs ∧ rows'.length = rows.length := by
  obtain ⟨h1, h2⟩ := gather_own hr hi hok
  obtain ⟨e1, _⟩ := exists_local rows.length h1
  have e2 : (ws.map (fun w => w.map (fun g => me.jobs.idxOf g))).map (·.map (rho me.jobs rows.length)) = ws := by
    rw [List.map_map]
    conv => rhs; rw [← List.map_id ws]
    apply List.map_congr_left
    intro w hw
    exact (exists_local rows.length (h2 w hw)).1
  refine ⟨_, _, e1, e2, ?_, ?_⟩
  · apply gather_ok_eq hr hi.wf
    rw [e1, e2]; exact hok
  · obtain ⟨rows', me', hm, hr', _, hj, hl⟩ := gatherLocal_sim p hr hi.wf all k
      (st.map (fun g => me.jobs.idxOf g)) (ws.map (fun w => w.map (fun g => me.jobs.idxOf g)))
    rw [e1, e2] at hm
    exact ⟨rows', me', hm, hr', hj, hl⟩

/-- the contract of a close -/
theorem close_step_sim (p : MParams C O) {rows : List (Row C O)} {me : MEv C O} {s : Ev C O}
    (hi : Inv s) (hr : Rel rows me s) (fin : List Nat) (hok : mOpOkLocal rows me (.close fin) = true) :
    ∃ lfin, lfin.map (rho me.jobs rows.length) = fin ∧ opOk s (.close lfin) = true ∧
      ∃ rows' me', mClose p (rows, me) fin = ((rows', me'), outM (close p.toParams s lfin).2) ∧
        Rel rows' me' (close p.toParams s lfin).1 ∧ me'.jobs = me.jobs ∧ rows'.length = rows.length := by
  have hok' : mWaitOk rows me fin = true := hok
  have h1 : ∀ g ∈ fin, g ∈ me.jobs := fun g hg => hr.running_own hi (mWaitOk_own hok' g hg)
  obtain ⟨e1, _⟩ := exists_local rows.length h1
  refine ⟨_, e1, ?_, ?_⟩
  · show waitOk s _ = true
    rw [← hr.waitOk_eq hi.wf, e1]; exact hok'
  · obtain ⟨rows', me', hm, hr', _, hj, hl⟩ := close_sim p hr hi.wf (fin.map (fun g => me.jobs.idxOf g))
    rw [e1] at hm
    exact ⟨rows', me', hm, hr', hj, hl⟩

end DH.Evaluator
