import Proofs.Refine

/-!
Jobs created by a `search()` call acquire their worker under that call's deadline
(`armed = the deadline set at the start of the call`): invariant `ArmedFrom`, carried through every
operation of the call.  Used for the "all DONE" part of `C14_budget_transfer`.  Core Lean only.
-/

namespace DH.Timeout

/-- the job acquired its worker under deadline `dl`, or has not acquired one yet -/
def Qa (dl : Option Nat) (j : Job) : Prop := j.armed = dl ∨ j.pc = .created ∨ j.pc = .queued

theorem qa_jQueue (dl : Option Nat) (g : Nat) {j : Job} (h : Qa dl j) : Qa dl (jQueue g j) := by
  unfold jQueue; split
  · right; right; rfl
  · exact h

theorem qa_jAcquire (dl : Option Nat) (g now : Nat) {j : Job} (h : Qa dl j) : Qa dl (jAcquire g now dl j) := by
  unfold jAcquire; split
  · left; rfl
  · exact h

theorem qa_jFire (dl : Option Nat) {j : Job} (h : Qa dl j) : Qa dl (jFire j) := by
  unfold jFire; split
  · next hp =>
    rcases h with h | h | h
    · left; simpa [Job.write] using h
    · rw [hp.1] at h; simp at h
    · rw [hp.1] at h; simp at h
  · exact h

theorem qa_jReturn (dl : Option Nat) {j : Job} (h : Qa dl j) : Qa dl (jReturn j) := by
  have h1 := qa_jFire dl h
  unfold jReturn
  simp only
  generalize jFire j = j1 at h1 ⊢
  split
  · next hp =>
    rcases h1 with h | h | h
    · left; exact h
    · rw [hp] at h; simp at h
    · rw [hp] at h; simp at h
  · split
    · next hp =>
      rcases h1 with h | h | h
      · left; simpa [Job.write] using h
      · rw [hp] at h; simp at h
      · rw [hp] at h; simp at h
    · exact h1

theorem qa_jOnDone (dl : Option Nat) {j : Job} (h : Qa dl j) : Qa dl (jOnDone j) := by
  unfold jOnDone; split
  · next hp =>
    have ha : j.armed = dl := by
      rcases h with h | h | h
      · exact h
      · rw [hp] at h; simp at h
      · rw [hp] at h; simp at h
    split
    · left; simpa [Job.write] using ha
    · left; exact ha
  · exact h

theorem qa_fireDue (dl : Option Nat) (now : Nat) {j : Job} (h : Qa dl j) : Qa dl (fireDue now j) := by
  unfold fireDue; split
  · split
    · exact qa_jFire dl h
    · exact h
  · exact h


/-- never reported by `close()` -/
def Nc (j : Job) : Prop := j.pc ≠ .closedOut

theorem nc_jQueue (g : Nat) {j : Job} (h : Nc j) : Nc (jQueue g j) := by
  unfold jQueue; split
  · simp [Nc]
  · exact h

theorem nc_jAcquire (g now : Nat) (dl : Option Nat) {j : Job} (h : Nc j) : Nc (jAcquire g now dl j) := by
  unfold jAcquire; split
  · simp [Nc, Job.write]
  · exact h

theorem nc_jFire {j : Job} (h : Nc j) : Nc (jFire j) := by
  unfold jFire; split
  · simp [Nc, Job.write]
  · exact h

theorem nc_jReturn {j : Job} (h : Nc j) : Nc (jReturn j) := by
  have h1 := nc_jFire h
  unfold jReturn
  simp only
  split
  · simp [Nc]
  · split
    · simp [Nc, Job.write]
    · exact h1

theorem nc_jOnDone {j : Job} (h : Nc j) : Nc (jOnDone j) := by
  unfold jOnDone; split
  · split <;> simp [Nc, Job.write]
  · exact h

theorem nc_fireDue (now : Nat) {j : Job} (h : Nc j) : Nc (fireDue now j) := by
  unfold fireDue; split
  · split
    · exact nc_jFire h
    · exact h
  · exact h

/-- the job acquired its worker under deadline `dl` (or has not acquired one yet) and was never
closed out -/
def Q (dl : Option Nat) (j : Job) : Prop := Qa dl j ∧ Nc j

theorem q_jQueue (dl : Option Nat) (g : Nat) {j : Job} (h : Q dl j) : Q dl (jQueue g j) :=
  ⟨qa_jQueue dl g h.1, nc_jQueue g h.2⟩
theorem q_jAcquire (dl : Option Nat) (g now : Nat) {j : Job} (h : Q dl j) : Q dl (jAcquire g now dl j) :=
  ⟨qa_jAcquire dl g now h.1, nc_jAcquire g now dl h.2⟩
theorem q_jFire (dl : Option Nat) {j : Job} (h : Q dl j) : Q dl (jFire j) := ⟨qa_jFire dl h.1, nc_jFire h.2⟩
theorem q_jReturn (dl : Option Nat) {j : Job} (h : Q dl j) : Q dl (jReturn j) :=
  ⟨qa_jReturn dl h.1, nc_jReturn h.2⟩
theorem q_jOnDone (dl : Option Nat) {j : Job} (h : Q dl j) : Q dl (jOnDone j) :=
  ⟨qa_jOnDone dl h.1, nc_jOnDone h.2⟩
theorem q_fireDue (dl : Option Nat) (now : Nat) {j : Job} (h : Q dl j) : Q dl (fireDue now j) :=
  ⟨qa_fireDue dl now h.1, nc_fireDue now h.2⟩

/-- every job with index `≥ n0` satisfies `Q dl` -/
def ArmedFrom (n0 : Nat) (dl : Option Nat) (l : List Job) : Prop :=
  ∀ (i : Nat) (j : Job), l[i]? = some j → n0 ≤ i → Q dl j

theorem armedFrom_upd {n0 : Nat} {dl : Option Nat} {f : Job → Job} (hf : ∀ j, Q dl j → Q dl (f j))
    (k : Nat) {l : List Job} (h : ArmedFrom n0 dl l) : ArmedFrom n0 dl (upd f k l) := by
  intro i j hj hi
  by_cases hk : k = i
  · subst hk
    rw [getElem?_upd_self] at hj
    cases hx : l[k]? with
    | none => rw [hx] at hj; simp at hj
    | some x =>
      rw [hx] at hj
      simp only [Option.map_some, Option.some.injEq] at hj
      subst hj
      exact hf x (h k x hx hi)
  · rw [getElem?_upd_ne f k i l hk] at hj
    exact h i j hj hi

theorem armedFrom_map {n0 : Nat} {dl : Option Nat} {f : Job → Job} (hf : ∀ j, Q dl j → Q dl (f j))
    {l : List Job} (h : ArmedFrom n0 dl l) : ArmedFrom n0 dl (l.map f) := by
  intro i j hj hi
  rw [List.getElem?_map] at hj
  cases hx : l[i]? with
  | none => rw [hx] at hj; simp at hj
  | some x =>
    rw [hx] at hj
    simp only [Option.map_some, Option.some.injEq] at hj
    subst hj
    exact hf x (h i x hx hi)

/-- `startCreated` changes the list pointwise: position `i` holds the old job, or the old job after
`jAcquire` / `jQueue` -/
theorem startCreated_getElem (W g now : Nat) (dl : Option Nat) :
    ∀ (js acc : List Job) (i : Nat) (j' : Job), (startCreated W g now dl acc js)[i]? = some j' →
      (i < acc.length ∧ acc[i]? = some j') ∨
      (acc.length ≤ i ∧ ∃ j, js[i - acc.length]? = some j ∧
        (j' = j ∨ j' = jAcquire g now dl j ∨ j' = jQueue g j))
  | [], acc, i, j', h => by
    simp only [startCreated] at h
    left
    exact ⟨(List.getElem?_eq_some_iff.mp h).1, h⟩
  | j0 :: js, acc, i, j', h => by
    simp only [startCreated] at h
    have step : ∀ x : Job, (x = j0 ∨ x = jAcquire g now dl j0 ∨ x = jQueue g j0) →
        (startCreated W g now dl (acc ++ [x]) js)[i]? = some j' →
        (i < acc.length ∧ acc[i]? = some j') ∨
        (acc.length ≤ i ∧ ∃ j, (j0 :: js)[i - acc.length]? = some j ∧
          (j' = j ∨ j' = jAcquire g now dl j ∨ j' = jQueue g j)) := by
      intro x hx hh
      rcases startCreated_getElem W g now dl js (acc ++ [x]) i j' hh with ⟨h1, h2⟩ | ⟨h1, j, h2, h3⟩
      · simp only [List.length_append, List.length_singleton] at h1
        by_cases hlt : i < acc.length
        · left
          rw [List.getElem?_append_left hlt] at h2
          exact ⟨hlt, h2⟩
        · right
          have hi : i = acc.length := by omega
          subst hi
          rw [List.getElem?_append_right (Nat.le_refl _)] at h2
          simp only [Nat.sub_self, List.getElem?_cons_zero, Option.some.injEq] at h2
          refine ⟨Nat.le_refl _, j0, by simp, ?_⟩
          subst h2
          rcases hx with e | e | e
          · exact Or.inl e
          · exact Or.inr (Or.inl e)
          · exact Or.inr (Or.inr e)
      · simp only [List.length_append, List.length_singleton] at h1 h2
        right
        refine ⟨by omega, j, ?_, h3⟩
        have : i - acc.length = (i - (acc.length + 1)) + 1 := by omega
        rw [this, List.getElem?_cons_succ]; exact h2
    split at h
    · split at h
      · exact step _ (Or.inr (Or.inl rfl)) h
      · exact step _ (Or.inr (Or.inr rfl)) h
    · exact step _ (Or.inl rfl) h

theorem armedFrom_startCreated {n0 : Nat} {dl : Option Nat} (W g now : Nat) {l : List Job}
    (h : ArmedFrom n0 dl l) : ArmedFrom n0 dl (startCreated W g now dl [] l) := by
  intro i j' hj hi
  rcases startCreated_getElem W g now dl l [] i j' hj with ⟨h1, _⟩ | ⟨_, j, h2, h3⟩
  · simp at h1
  · simp only [List.length_nil, Nat.sub_zero] at h2
    have hq := h i j h2 hi
    rcases h3 with e | e | e
    · rw [e]; exact hq
    · rw [e]; exact q_jAcquire dl g now hq
    · rw [e]; exact q_jQueue dl g hq

/-! ### through the operations of one call (the deadline does not change during a call) -/

theorem armedFrom_stepReturn {n0 : Nat} {dl : Option Nat} {s s' : Ev} (h : ArmedFrom n0 dl s.jobs)
    (hd : s.deadline = dl) (hs : stepReturn s = some s') :
    ArmedFrom n0 dl s'.jobs ∧ s'.deadline = dl := by
  unfold stepReturn at hs
  split at hs
  · simp at hs
  · next i r _ =>
    simp only [Option.some.injEq] at hs
    subst hs
    refine ⟨?_, hd⟩
    simp only
    have h1 : ArmedFrom n0 dl (upd jReturn i s.jobs) := armedFrom_upd (fun j hj => q_jReturn dl hj) i h
    split
    · rw [hd]
      exact armedFrom_upd (fun j hj => q_jAcquire dl _ _ hj) _ h1
    · exact h1

theorem armedFrom_advance {n0 : Nat} {dl : Option Nat} (need : Nat) : ∀ (fuel : Nat) (s : Ev),
    ArmedFrom n0 dl s.jobs → s.deadline = dl →
    ArmedFrom n0 dl (advance need fuel s).1.jobs ∧ (advance need fuel s).1.deadline = dl
  | 0, s, h, hd => by simpa [advance] using ⟨h, hd⟩
  | fuel + 1, s, h, hd => by
    simp only [advance]
    split
    · exact ⟨h, hd⟩
    · split
      · exact ⟨h, hd⟩
      · next s' hs =>
        obtain ⟨a, b⟩ := armedFrom_stepReturn h hd hs
        exact armedFrom_advance need fuel s' a b

theorem armedFrom_flush {n0 : Nat} {dl : Option Nat} : ∀ (fuel : Nat) (s : Ev),
    ArmedFrom n0 dl s.jobs → s.deadline = dl →
    ArmedFrom n0 dl (flush fuel s).jobs ∧ (flush fuel s).deadline = dl
  | 0, s, h, hd => by simpa [flush] using ⟨h, hd⟩
  | fuel + 1, s, h, hd => by
    simp only [flush]
    split
    · exact ⟨h, hd⟩
    · split
      · split
        · next s' hs =>
          obtain ⟨a, b⟩ := armedFrom_stepReturn h hd hs
          exact armedFrom_flush fuel s' a b
        · exact ⟨h, hd⟩
      · exact ⟨h, hd⟩

theorem armedFrom_waitFor {n0 : Nat} {dl : Option Nat} (s : Ev) (need : Nat)
    (h : ArmedFrom n0 dl s.jobs) (hd : s.deadline = dl) :
    ArmedFrom n0 dl (waitFor s need).1.jobs ∧ (waitFor s need).1.deadline = dl := by
  unfold waitFor
  simp only
  have h1 : ArmedFrom n0 dl (startCreated s.W s.semGen s.now s.deadline [] s.jobs) := by
    rw [hd]; exact armedFrom_startCreated _ _ _ h
  generalize (startCreated s.W s.semGen s.now s.deadline [] s.jobs).length = fuel
  generalize hs1 : ({ s with jobs := startCreated s.W s.semGen s.now s.deadline [] s.jobs } : Ev) = s1
  have h1' : ArmedFrom n0 dl s1.jobs := by rw [← hs1]; exact h1
  have hd1 : s1.deadline = dl := by rw [← hs1]; exact hd
  obtain ⟨a2, b2⟩ := armedFrom_advance need fuel s1 h1' hd1
  generalize advance need fuel s1 = adv at a2 b2 ⊢
  split
  · exact ⟨a2, b2⟩
  · obtain ⟨a3, b3⟩ := armedFrom_flush adv.1.jobs.length adv.1 a2 b2
    exact ⟨armedFrom_map (fun j hj => q_fireDue dl _ hj) a3, b3⟩

theorem armedFrom_report {n0 : Nat} {dl : Option Nat} : ∀ (rep : List Nat) (s s' : Ev),
    ArmedFrom n0 dl s.jobs → s.deadline = dl → report s rep = some s' →
    ArmedFrom n0 dl s'.jobs ∧ s'.deadline = dl
  | [], s, s', h, hd, hr => by simp [report] at hr; subst hr; exact ⟨h, hd⟩
  | i :: rest, s, s', h, hd, hr => by
    simp only [report] at hr
    split at hr
    · exact armedFrom_report rest
        { s with jobs := upd jOnDone i s.jobs, running := s.running.erase i, results := s.results ++ [i] }
        s' (armedFrom_upd (fun j hj => q_jOnDone dl hj) i h) hd hr
    · simp at hr

theorem armedFrom_gatherN {n0 : Nat} {dl : Option Nat} (s : Ev) (size : Nat) (rep : List Nat)
    (h : ArmedFrom n0 dl s.jobs) (hd : s.deadline = dl) :
    ArmedFrom n0 dl (gatherN s size rep).1.jobs ∧ (gatherN s size rep).1.deadline = dl := by
  unfold gatherN
  simp only
  obtain ⟨w1, w2⟩ := armedFrom_waitFor (n0 := n0) s (min size s.running.length) h hd
  generalize waitFor s (min size s.running.length) = w at w1 w2 ⊢
  split
  · exact ⟨h, hd⟩
  · split
    · exact ⟨w1, w2⟩
    · split
      · exact ⟨w1, w2⟩
      · split
        · next s3 hr => exact armedFrom_report rep w.1 s3 w1 w2 hr
        · exact ⟨w1, w2⟩

theorem armedFrom_gather {n0 : Nat} {dl : Option Nat} (s : Ev) (all : Bool) (size : Nat) (rep : List Nat)
    (h : ArmedFrom n0 dl s.jobs) (hd : s.deadline = dl) :
    ArmedFrom n0 dl (gather s all size rep).1.jobs ∧ (gather s all size rep).1.deadline = dl := by
  unfold gather
  simp only
  generalize (if all = true then s.running.length else size) = sz
  split
  · split <;> exact ⟨h, hd⟩
  · exact armedFrom_gatherN s sz rep h hd

theorem armedFrom_submitCap {n0 : Nat} {dl : Option Nat} : ∀ (k : Nat) (s : Ev),
    ArmedFrom n0 dl s.jobs → s.deadline = dl →
    ArmedFrom n0 dl (submitCap s k).1.jobs ∧ (submitCap s k).1.deadline = dl
  | 0, s, h, hd => by simpa [submitCap] using ⟨h, hd⟩
  | k + 1, s, h, hd => by
    simp only [submitCap]
    split
    · exact ⟨h, hd⟩
    · apply armedFrom_submitCap k
      · intro i j hj hi
        simp only at hj
        by_cases hlt : i < s.jobs.length
        · rw [List.getElem?_append_left hlt] at hj
          exact h i j hj hi
        · rw [List.getElem?_append_right (by omega)] at hj
          have : i - s.jobs.length = 0 := by
            have := (List.getElem?_eq_some_iff.mp hj).1
            simp at this; omega
          rw [this] at hj
          simp only [List.getElem?_cons_zero, Option.some.injEq] at hj
          subst hj
          exact ⟨Or.inr (Or.inl rfl), by simp [Nc]⟩
      · exact hd

theorem armedFrom_loop {n0 : Nat} {dl : Option Nat} (strict : Bool) (target : Int) :
    ∀ (reps : List (List Nat)) (s : Ev) (nAsk : Nat), ArmedFrom n0 dl s.jobs → s.deadline = dl →
      ArmedFrom n0 dl (loop strict target s nAsk reps).1.jobs ∧ (loop strict target s nAsk reps).1.deadline = dl := by
  intro reps
  induction reps with
  | nil =>
    intro s nAsk h hd
    unfold loop
    dsimp only
    split
    · have := armedFrom_submitCap (n0 := n0) nAsk (askStep s) h hd
      split <;> exact this
    · exact ⟨h, hd⟩
  | cons rep rest ih =>
    intro s nAsk h hd
    unfold loop
    dsimp only
    split
    · have hsub := armedFrom_submitCap (n0 := n0) nAsk (askStep s) h hd
      generalize submitCap (askStep s) nAsk = sub at hsub ⊢
      split
      · exact hsub
      · have hg := armedFrom_gather (n0 := n0) sub.1 false 1 rep hsub.1 hsub.2
        generalize gather sub.1 false 1 rep = ga at hg ⊢
        split
        · exact hg
        · exact hg
        · exact hg
        · split
          · exact hg
          · exact ih _ _ hg.1 hg.2
    · exact ⟨h, hd⟩

/-- a gathered job that acquired its worker with no timeout in effect is DONE -/
theorem done_of_armed_none {j : Job} (hi : Inv j) (hp : j.pc = .gathered) (ha : j.armed = none) :
    j.status = .done ∧ j.log = [.ready, .running, .done] ∧ j.saw = false ∧ j.output = .val j.spec.val := by
  obtain ⟨h1, h2⟩ := hi
  unfold JInv at h1
  simp only [hp] at h1
  obtain ⟨ht, hf⟩ := h2 (Or.inr (Or.inr (Or.inr hp)))
  rw [ha] at ht hf
  have hfired : j.fired = false := by rw [hf]; rfl
  have hsaw : j.saw = false := by
    cases hs : j.saw with
    | false => rfl
    | true =>
      have e : (runFn none j.spec j.start).2 = true := by rw [← ht]; exact hs
      have := (runFn_spec none j.spec j.start).2.2.1 e
      simp [sees] at this
  rcases h1 with ⟨a, b, _, d⟩ | ⟨_, _, x, _⟩
  · exact ⟨b, a, hsaw, d⟩
  · rw [hfired] at x; simp at x

end DH.Timeout

namespace DH.Refine
open DH Timeout

/-- every job created by a `search()` call that returned and has acquired a worker did so under the
deadline the call set (`none` when the call has no timeout) -/
theorem search_armed (t : TEv) (c : Timeout.Call) (reps : List (List Nat)) (drainRep : List Nat)
    (hrep : Timeout.Rep t) (hs : Timeout.SettledStop (Timeout.search t c reps drainRep).2) :
    ArmedFrom t.jobs.length (prepT t c).deadline (Timeout.search t c reps drainRep).1.jobs := by
  rw [search_def] at hs ⊢
  have h0 : ArmedFrom t.jobs.length (prepT t c).deadline (prepT t c).jobs := by
    intro i j hj hi
    have hlen : (prepT t c).jobs.length = t.jobs.length := by
      unfold prepT Timeout.setTimeout; split <;> rfl
    have := (List.getElem?_eq_some_iff.mp hj).1
    omega
  have hrep2 : Timeout.Rep (prepT t c) := by
    unfold prepT Timeout.setTimeout
    split <;> exact Timeout.rep_cfg (s := t) rfl rfl rfl hrep
  have hlset : Timeout.SettledStop
      (Timeout.loop c.strict (targetT c (prepT t c)) (prepT t c) (prepT t c).W reps).2 := by
    false_or_by_contra
    rename_i hn
    rw [tail_unsettled _ _ hn] at hs
    exact hn hs
  have hlrep := Timeout.rep_loop c.strict (targetT c (prepT t c)) reps (prepT t c) (prepT t c).W hrep2 hlset
  obtain ⟨l1, l2⟩ := armedFrom_loop c.strict (targetT c (prepT t c)) reps (prepT t c) (prepT t c).W h0 rfl
  generalize Timeout.loop c.strict (targetT c (prepT t c)) (prepT t c) (prepT t c).W reps = lp
    at l1 l2 hs hlset hlrep ⊢
  obtain ⟨p1, p2⟩ := lp
  have hg := armedFrom_gather (n0 := t.jobs.length) p1 true 0 drainRep l1 l2
  have hgr := Timeout.rep_gather p1 true 0 drainRep hlrep
  simp only at hlset hlrep
  unfold tailT at hs ⊢
  have body : ∀ st : Timeout.Stop,
      Timeout.SettledStop (if Timeout.numSubmitted p1 > Timeout.numGathered p1 then
          match (Timeout.gather p1 true 0 drainRep).2 with
          | some .noJobs => ((Timeout.gather p1 true 0 drainRep).1, Timeout.Stop.noJobs)
          | some .hang => ((Timeout.gather p1 true 0 drainRep).1, Timeout.Stop.hang)
          | some .badEnv => ((Timeout.gather p1 true 0 drainRep).1, Timeout.Stop.badEnv)
          | none =>
            if Timeout.numSubmitted (Timeout.gather p1 true 0 drainRep).1 >
                Timeout.numGathered (Timeout.gather p1 true 0 drainRep).1 then
              ((Timeout.gather p1 true 0 drainRep).1, Timeout.Stop.hang)
            else ((Timeout.close (Timeout.gather p1 true 0 drainRep).1 []).1, st)
        else ((Timeout.close p1 []).1, st)).2 →
      ArmedFrom t.jobs.length (prepT t c).deadline (if Timeout.numSubmitted p1 > Timeout.numGathered p1 then
          match (Timeout.gather p1 true 0 drainRep).2 with
          | some .noJobs => ((Timeout.gather p1 true 0 drainRep).1, Timeout.Stop.noJobs)
          | some .hang => ((Timeout.gather p1 true 0 drainRep).1, Timeout.Stop.hang)
          | some .badEnv => ((Timeout.gather p1 true 0 drainRep).1, Timeout.Stop.badEnv)
          | none =>
            if Timeout.numSubmitted (Timeout.gather p1 true 0 drainRep).1 >
                Timeout.numGathered (Timeout.gather p1 true 0 drainRep).1 then
              ((Timeout.gather p1 true 0 drainRep).1, Timeout.Stop.hang)
            else ((Timeout.close (Timeout.gather p1 true 0 drainRep).1 []).1, st)
        else ((Timeout.close p1 []).1, st)).1.jobs := by
    intro st hr
    split
    · next hd =>
      rw [if_pos hd] at hr
      generalize Timeout.gather p1 true 0 drainRep = ga at hg hgr hr ⊢
      obtain ⟨g1, g2⟩ := ga
      cases g2 with
      | some e => cases e <;> simp [Timeout.SettledStop] at hr
      | none =>
        simp only at hg hgr hr ⊢
        have rb' := (hgr trivial).2 trivial
        split
        · next hh => rw [if_pos hh] at hr; simp [Timeout.SettledStop] at hr
        · rw [close_nil g1 rb']; exact hg.1
    · next hd =>
      simp only [Timeout.numSubmitted, Timeout.numGathered] at hd
      have hrun : p1.running = [] := List.eq_nil_of_length_eq_zero (by have := hlrep.count; omega)
      rw [close_nil p1 hrun]; exact l1
  rcases hlset with h | h | h <;> subst h <;> simp only at hs ⊢
  · exact body .budget hs
  · exact body .cap hs
  · exact body .timeout hs

end DH.Refine
