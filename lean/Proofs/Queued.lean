import Model.Queued

/-! Helper lemmas for C17 (core Lean only). -/

namespace DH.Queued

variable {R : Type}

/-! ### list facts -/

theorem flatMap_set_perm {α β : Type} (f : α → List β) :
    ∀ (l : List α) (j : Nat) (x y : α), l[j]? = some x →
      ((l.set j y).flatMap f ++ f x).Perm (l.flatMap f ++ f y)
  | [], j, x, y, h => by simp at h
  | a :: l, 0, x, y, h => by
    simp only [List.getElem?_cons_zero, Option.some.injEq] at h
    subst h
    simp only [List.set_cons_zero, List.flatMap_cons]
    -- f y ++ F ++ f a ~ f a ++ F ++ f y
    have h1 : (f y ++ l.flatMap f ++ f a).Perm (f a ++ (f y ++ l.flatMap f)) := List.perm_append_comm
    have h2 : (f a ++ (f y ++ l.flatMap f)).Perm (f a ++ (l.flatMap f ++ f y)) :=
      List.Perm.append_left _ List.perm_append_comm
    rw [List.append_assoc (f a)]
    exact h1.trans h2
  | a :: l, j + 1, x, y, h => by
    simp only [List.getElem?_cons_succ] at h
    simp only [List.set_cons_succ, List.flatMap_cons, List.append_assoc]
    exact List.Perm.append_left _ (flatMap_set_perm f l j x y h)

theorem sum_map_set {α : Type} (r : α → Nat) :
    ∀ (l : List α) (j : Nat) (x y : α), l[j]? = some x →
      ((l.set j y).map r).sum + r x = (l.map r).sum + r y
  | [], j, x, y, h => by simp at h
  | a :: l, 0, x, y, h => by
    simp only [List.getElem?_cons_zero, Option.some.injEq] at h
    subst h
    simp only [List.set_cons_zero, List.map_cons, List.sum_cons]; omega
  | a :: l, j + 1, x, y, h => by
    simp only [List.getElem?_cons_succ] at h
    have := sum_map_set r l j x y h
    simp only [List.set_cons_succ, List.map_cons, List.sum_cons]; omega

/-- in a duplicate-free concatenation the pieces of two different positions are disjoint -/
theorem disjoint_of_nodup_flatMap {α β : Type} (f : α → List β) :
    ∀ (l : List α), (l.flatMap f).Nodup → ∀ (i j : Nat) (a b : α), i < j → l[i]? = some a →
      l[j]? = some b → ∀ r, r ∈ f a → r ∉ f b
  | [], _, i, j, a, b, _, h, _ => by simp at h
  | c :: l, hn, 0, j + 1, a, b, _, ha, hb => by
    simp only [List.getElem?_cons_zero, Option.some.injEq] at ha
    subst ha
    simp only [List.getElem?_cons_succ] at hb
    simp only [List.flatMap_cons, List.nodup_append] at hn
    intro r hr hrb
    have hmem : r ∈ l.flatMap f := List.mem_flatMap.2 ⟨b, List.mem_of_getElem? hb, hrb⟩
    exact hn.2.2 r hr r hmem rfl
  | c :: l, hn, i + 1, j + 1, a, b, hij, ha, hb => by
    simp only [List.getElem?_cons_succ] at ha hb
    simp only [List.flatMap_cons, List.nodup_append] at hn
    exact disjoint_of_nodup_flatMap f l hn.2.1 i j a b (by omega) ha hb

/-! ### the invariant -/

/-- what a job's phase must look like: it holds exactly `pop` resources, its context variable is
bound to them, the run-function received them, the metadata names them -/
def PhaseOk (pop : Nat) (x : QJob R) : Prop :=
  match x.phase with
  | .created => True
  | .holding ds => ds.length = pop ∧ x.ctx = some ds
  | .running ds recv => ds.length = pop ∧ recv = some ds
  | .returning ds recv => ds.length = pop ∧ recv = some ds
  | .finished recv md => md.length = pop ∧ recv = some md
  | .cancelled => True

structure QInv (q0 : List R) (pop workers : Nat) (s : QState R) : Prop where
  cons : (s.queue ++ heldAll s).Perm q0
  ph : ∀ x ∈ s.jobs, PhaseOk pop x
  hpop : s.pop = pop
  hw : s.workers = workers

theorem QInv.init (q0 : List R) (pop workers : Nat) : QInv q0 pop workers (init q0 pop workers) :=
  ⟨by simp [DH.Queued.init, heldAll], by simp [DH.Queued.init], rfl, rfl⟩

theorem heldAll_setJob (s : QState R) (j : Nat) (x y : QJob R) (h : s.jobs[j]? = some x) :
    (heldAll (setJob s j y) ++ held x.phase).Perm (heldAll s ++ held y.phase) :=
  flatMap_set_perm (fun q : QJob R => held q.phase) s.jobs j x y h

theorem ph_set {pop : Nat} {l : List (QJob R)} {j : Nat} {y : QJob R}
    (h : ∀ x ∈ l, PhaseOk pop x) (hy : PhaseOk pop y) : ∀ x ∈ l.set j y, PhaseOk pop x := by
  intro x hx
  rcases List.mem_or_eq_of_mem_set hx with hx | rfl
  · exact h x hx
  · exact hy

/-- what an enabled step is, spelled out -/
inductive StepSpec : QState R → QStep → QState R → Prop
  | submit (s : QState R) (n : Nat) :
      StepSpec s (.submit n)
        { s with jobs := s.jobs ++ List.replicate n { sem := 0, ctx := none, phase := .created },
                 waves := s.waves + 1 }
  | take (s : QState R) (j : Nat) (x : QJob R) : s.jobs[j]? = some x → x.phase = .created →
      s.pop ≤ s.queue.length →
      StepSpec s (.take j)
        (setJob { s with queue := s.queue.drop s.pop } j
          { x with sem := s.waves, ctx := some (s.queue.take s.pop), phase := .holding (s.queue.take s.pop) })
  | start (s : QState R) (j : Nat) (x : QJob R) (ds : List R) : s.jobs[j]? = some x →
      x.phase = .holding ds → runningOn s x.sem < s.workers →
      StepSpec s (.start j) (setJob s j { x with phase := .running ds x.ctx })
  | endRun (s : QState R) (j : Nat) (x : QJob R) (ds : List R) (recv : Option (List R)) :
      s.jobs[j]? = some x → x.phase = .running ds recv →
      StepSpec s (.endRun j) (setJob s j { x with phase := .returning ds recv })
  | release (s : QState R) (j : Nat) (x : QJob R) (ds : List R) (recv : Option (List R)) :
      s.jobs[j]? = some x → x.phase = .returning ds recv →
      StepSpec s (.release j)
        (setJob { s with queue := s.queue ++ ds } j { x with phase := .finished recv ds })
  | cancel (s : QState R) (j : Nat) (x : QJob R) : s.jobs[j]? = some x → isEnded x.phase = false →
      StepSpec s (.cancel j)
        (setJob { s with queue := s.queue ++ held x.phase } j { x with phase := .cancelled })

theorem not_ended_cases {ph : Phase R} (h : isEnded ph = false) :
    ph = .created ∨ (∃ ds, ph = .holding ds) ∨ (∃ ds recv, ph = .running ds recv) ∨
      (∃ ds recv, ph = .returning ds recv) := by
  cases ph with
  | created => exact Or.inl rfl
  | holding ds => exact Or.inr (Or.inl ⟨ds, rfl⟩)
  | running ds recv => exact Or.inr (Or.inr (Or.inl ⟨ds, recv, rfl⟩))
  | returning ds recv => exact Or.inr (Or.inr (Or.inr ⟨ds, recv, rfl⟩))
  | finished recv md => simp [isEnded] at h
  | cancelled => simp [isEnded] at h

theorem rank_pos_of_not_ended {ph : Phase R} (h : isEnded ph = false) : 0 < rank ph := by
  rcases not_ended_cases h with rfl | ⟨_, rfl⟩ | ⟨_, _, rfl⟩ | ⟨_, _, rfl⟩ <;> simp [rank]

theorem step_spec {s s' : QState R} {t : QStep} (h : step s t = some s') : StepSpec s t s' := by
  cases t with
  | submit n =>
    simp only [step, Option.some.injEq] at h
    subst h; exact .submit s n
  | take j =>
    simp only [step] at h
    cases hx : s.jobs[j]? with
    | none => simp [hx] at h
    | some x =>
      simp only [hx] at h
      cases hp : x.phase with
      | created =>
        simp only [hp] at h
        split at h
        · rename_i hle
          simp only [Option.some.injEq] at h
          subst h; exact .take s j x hx hp hle
        · simp at h
      | holding ds => simp [hp] at h
      | running ds recv => simp [hp] at h
      | returning ds recv => simp [hp] at h
      | finished recv md => simp [hp] at h
      | cancelled => simp [hp] at h
  | start j =>
    simp only [step] at h
    cases hx : s.jobs[j]? with
    | none => simp [hx] at h
    | some x =>
      simp only [hx] at h
      cases hp : x.phase with
      | holding ds =>
        simp only [hp] at h
        split at h
        · rename_i hlt
          simp only [Option.some.injEq] at h
          subst h; exact .start s j x ds hx hp hlt
        · simp at h
      | created => simp [hp] at h
      | running ds recv => simp [hp] at h
      | returning ds recv => simp [hp] at h
      | finished recv md => simp [hp] at h
      | cancelled => simp [hp] at h
  | endRun j =>
    simp only [step] at h
    cases hx : s.jobs[j]? with
    | none => simp [hx] at h
    | some x =>
      simp only [hx] at h
      cases hp : x.phase with
      | running ds recv =>
        simp only [hp, Option.some.injEq] at h
        subst h; exact .endRun s j x ds recv hx hp
      | created => simp [hp] at h
      | holding ds => simp [hp] at h
      | returning ds recv => simp [hp] at h
      | finished recv md => simp [hp] at h
      | cancelled => simp [hp] at h
  | release j =>
    simp only [step] at h
    cases hx : s.jobs[j]? with
    | none => simp [hx] at h
    | some x =>
      simp only [hx] at h
      cases hp : x.phase with
      | returning ds recv =>
        simp only [hp, Option.some.injEq] at h
        subst h; exact .release s j x ds recv hx hp
      | created => simp [hp] at h
      | holding ds => simp [hp] at h
      | running ds recv => simp [hp] at h
      | finished recv md => simp [hp] at h
      | cancelled => simp [hp] at h
  | cancel j =>
    simp only [step] at h
    cases hx : s.jobs[j]? with
    | none => simp [hx] at h
    | some x =>
      simp only [hx] at h
      split at h
      · simp at h
      · rename_i hne
        simp only [Option.some.injEq] at h
        subst h
        exact .cancel s j x hx (by simpa using hne)

theorem QInv.step {q0 : List R} {pop workers : Nat} {s s' : QState R} {t : QStep}
    (hi : QInv q0 pop workers s) (h : DH.Queued.step s t = some s') : QInv q0 pop workers s' := by
  cases step_spec h with
  | submit n =>
    refine ⟨?_, ?_, hi.hpop, hi.hw⟩
    · have : ∀ s1 : QState R,
          s1.jobs = s.jobs ++ List.replicate n { sem := 0, ctx := none, phase := Phase.created } →
          heldAll s1 = heldAll s := by
        intro s1 h1
        simp only [heldAll, h1, List.flatMap_append]
        have : (List.replicate n ({ sem := 0, ctx := none, phase := Phase.created } : QJob R)).flatMap
            (fun j => held j.phase) = [] := by
          rw [List.flatMap_eq_nil_iff]
          intro x hx
          rw [(List.mem_replicate.1 hx).2]; rfl
        rw [this, List.append_nil]
      show (s.queue ++ heldAll _).Perm q0
      rw [this _ rfl]; exact hi.cons
    · intro x hx
      rcases List.mem_append.1 hx with hx | hx
      · exact hi.ph x hx
      · rw [(List.mem_replicate.1 hx).2]; trivial
  | take j x hx hp hle =>
    refine ⟨?_, ?_, hi.hpop, hi.hw⟩
    · have hperm := heldAll_setJob { s with queue := s.queue.drop s.pop } j x
        { x with sem := s.waves, ctx := some (s.queue.take s.pop), phase := .holding (s.queue.take s.pop) } hx
      simp only [hp, held, List.append_nil] at hperm
      show (s.queue.drop s.pop ++ _).Perm q0
      have h1 := List.Perm.append_left (s.queue.drop s.pop) hperm
      have h2 : (s.queue.drop s.pop ++ (heldAll s ++ s.queue.take s.pop)).Perm (s.queue ++ heldAll s) := by
        have : (s.queue.drop s.pop ++ (heldAll s ++ s.queue.take s.pop)).Perm
            (s.queue.take s.pop ++ (s.queue.drop s.pop ++ heldAll s)) := by
          rw [← List.append_assoc]; exact List.perm_append_comm
        have h3 : s.queue.take s.pop ++ (s.queue.drop s.pop ++ heldAll s) = s.queue ++ heldAll s := by
          rw [← List.append_assoc, List.take_append_drop]
        rw [h3] at this
        exact this
      exact (h1.trans h2).trans hi.cons
    · apply ph_set hi.ph
      simp only [PhaseOk]
      exact ⟨by rw [List.length_take, ← hi.hpop]; omega, trivial⟩
  | start j x ds hx hp hlt =>
    have hxo := hi.ph x (List.mem_of_getElem? hx)
    simp only [PhaseOk, hp] at hxo
    refine ⟨?_, ?_, hi.hpop, hi.hw⟩
    · have hperm := heldAll_setJob s j x { x with phase := .running ds x.ctx } hx
      simp only [hp, held] at hperm
      exact (List.Perm.append_left _ ((List.perm_append_right_iff ds).1 hperm)).trans hi.cons
    · apply ph_set hi.ph
      simp only [PhaseOk]; exact hxo
  | endRun j x ds recv hx hp =>
    have hxo := hi.ph x (List.mem_of_getElem? hx)
    simp only [PhaseOk, hp] at hxo
    refine ⟨?_, ?_, hi.hpop, hi.hw⟩
    · have hperm := heldAll_setJob s j x { x with phase := .returning ds recv } hx
      simp only [hp, held] at hperm
      exact (List.Perm.append_left _ ((List.perm_append_right_iff ds).1 hperm)).trans hi.cons
    · apply ph_set hi.ph
      simp only [PhaseOk]; exact hxo
  | release j x ds recv hx hp =>
    have hxo := hi.ph x (List.mem_of_getElem? hx)
    simp only [PhaseOk, hp] at hxo
    refine ⟨?_, ?_, hi.hpop, hi.hw⟩
    · have hperm := heldAll_setJob { s with queue := s.queue ++ ds } j x { x with phase := .finished recv ds } hx
      simp only [hp, held, List.append_nil] at hperm
      show (s.queue ++ ds ++ _).Perm q0
      have : (s.queue ++ ds ++ heldAll (setJob { s with queue := s.queue ++ ds } j { x with phase := .finished recv ds })).Perm
          (s.queue ++ heldAll s) := by
        rw [List.append_assoc]
        exact List.Perm.append_left _ (List.perm_append_comm.trans hperm)
      exact this.trans hi.cons
    · apply ph_set hi.ph
      simp only [PhaseOk]; exact hxo

  | cancel j x hx hne =>
    refine ⟨?_, ?_, hi.hpop, hi.hw⟩
    · have hperm := heldAll_setJob { s with queue := s.queue ++ held x.phase } j x { x with phase := .cancelled } hx
      simp only [held, List.append_nil] at hperm
      show (s.queue ++ held x.phase ++ _).Perm q0
      have : (s.queue ++ held x.phase ++
          heldAll (setJob { s with queue := s.queue ++ held x.phase } j { x with phase := .cancelled })).Perm
          (s.queue ++ heldAll s) := by
        rw [List.append_assoc]
        exact List.Perm.append_left _ (List.perm_append_comm.trans hperm)
      exact this.trans hi.cons
    · apply ph_set hi.ph
      simp only [PhaseOk]

theorem reach_inv {q0 : List R} {pop workers : Nat} {s : QState R} (h : Reach q0 pop workers s) :
    QInv q0 pop workers s := by
  induction h with
  | init => exact QInv.init q0 pop workers
  | step t _ hs ih => exact ih.step hs

/-! ### progress measure -/

theorem measure_setJob (s s0 : QState R) (h0 : s0.jobs = s.jobs) (j : Nat) (x y : QJob R)
    (h : s.jobs[j]? = some x) :
    measure (setJob s0 j y) + rank x.phase = measure s + rank y.phase := by
  have := sum_map_set (fun q : QJob R => rank q.phase) s.jobs j x y h
  simpa [measure, setJob, h0] using this

/-- an ordinary transition (not a submission, not a cancellation) lowers the measure by one -/
theorem measure_step {s s' : QState R} {t : QStep} (h : step s t = some s') (ht : ∀ n, t ≠ .submit n)
    (hc : ∀ j, t ≠ .cancel j) : measure s' + 1 = measure s := by
  cases step_spec h with
  | submit n => exact absurd rfl (ht n)
  | cancel j x hx hne => exact absurd rfl (hc j)
  | take j x hx hp hle =>
    have := measure_setJob s { s with queue := s.queue.drop s.pop } rfl j x
      { x with sem := s.waves, ctx := some (s.queue.take s.pop), phase := .holding (s.queue.take s.pop) } hx
    simp only [hp, rank] at this; omega
  | start j x ds hx hp hlt =>
    have := measure_setJob s s rfl j x { x with phase := .running ds x.ctx } hx
    simp only [hp, rank] at this; omega
  | endRun j x ds recv hx hp =>
    have := measure_setJob s s rfl j x { x with phase := .returning ds recv } hx
    simp only [hp, rank] at this; omega
  | release j x ds recv hx hp =>
    have := measure_setJob s { s with queue := s.queue ++ ds } rfl j x { x with phase := .finished recv ds } hx
    simp only [hp, rank] at this; omega

/-- a cancellation lowers it by what the job still had to do (at least one) -/
theorem measure_cancel {s s' : QState R} {j : Nat} (h : step s (.cancel j) = some s') :
    measure s' + 1 ≤ measure s := by
  cases step_spec h with
  | cancel _ x hx hne =>
    have := measure_setJob s { s with queue := s.queue ++ held x.phase } rfl j x { x with phase := .cancelled } hx
    have hp := rank_pos_of_not_ended hne
    have e : rank ({ x with phase := Phase.cancelled } : QJob R).phase = 0 := rfl
    rw [e] at this; omega

theorem measure_step_le {s s' : QState R} {t : QStep} (h : step s t = some s') (ht : ∀ n, t ≠ .submit n) :
    measure s' + 1 ≤ measure s := by
  cases t with
  | cancel j => exact measure_cancel h
  | submit n => exact absurd rfl (ht n)
  | take j => exact Nat.le_of_eq (measure_step h ht (by simp))
  | start j => exact Nat.le_of_eq (measure_step h ht (by simp))
  | endRun j => exact Nat.le_of_eq (measure_step h ht (by simp))
  | release j => exact Nat.le_of_eq (measure_step h ht (by simp))

/-! ### facts used by the property theorems and by the log checker's soundness -/

variable {q0 : List R} {pop workers : Nat}

theorem heldAll_nodup {s : QState R} (h : Reach q0 pop workers s) (hq : q0.Nodup) :
    (heldAll s).Nodup :=
  (List.nodup_append.1 ((reach_inv h).cons.nodup_iff.2 hq)).2.1


/-- a job is in every phase through an index -/
theorem exists_index {l : List (QJob R)} {x : QJob R} (h : x ∈ l) : ∃ j : Nat, l[j]? = some x := by
  obtain ⟨j, hj, hjx⟩ := List.mem_iff_getElem.1 h
  exact ⟨j, by simp [hj, hjx]⟩


theorem reach_steps {s : QState R} (h : Reach q0 pop workers s) :
    ∀ (ts : List QStep) {s' : QState R}, steps s ts = some s' → Reach q0 pop workers s' := by
  intro ts
  induction ts generalizing s with
  | nil => intro s' hs; simp only [steps, Option.some.injEq] at hs; exact hs ▸ h
  | cons t ts ih =>
    intro s' hs
    simp only [steps] at hs
    cases ht : step s t with
    | none => simp [ht] at hs
    | some s1 =>
      simp only [ht] at hs
      exact ih (.step t h ht) hs


/-- job `j` exists and its task is done -/
def EndedAt (s : QState R) (j : Nat) : Prop := ∃ x, s.jobs[j]? = some x ∧ isEnded x.phase = true

theorem cancel_effect {s s' : QState R} {k : Nat} (h : step s (.cancel k) = some s') :
    s'.jobs.length = s.jobs.length ∧ EndedAt s' k ∧ ∀ j, j ≠ k → s'.jobs[j]? = s.jobs[j]? := by
  cases step_spec h with
  | cancel _ x hx hne =>
    have hlt : k < s.jobs.length := (List.getElem?_eq_some_iff.1 hx).1
    refine ⟨by simp [setJob], ⟨{ x with phase := .cancelled }, by simp [setJob, hlt], rfl⟩, ?_⟩
    intro j hj
    simp [setJob, List.getElem?_set, Ne.symm hj]

theorem cancel_none {s : QState R} {k : Nat} (h : step s (.cancel k) = none) (hk : k < s.jobs.length) :
    EndedAt s k := by
  simp only [step] at h
  have hx : s.jobs[k]? = some s.jobs[k] := by simp [hk]
  rw [hx] at h
  simp only at h
  split at h
  · rename_i he; exact ⟨_, hx, he⟩
  · simp at h

theorem cancelAll_spec : ∀ (order : List Nat) (s : QState R),
    (cancelAll s order).jobs.length = s.jobs.length ∧
    (∀ j, j < s.jobs.length → (j ∈ order ∨ EndedAt s j) → EndedAt (cancelAll s order) j) ∧
    (∀ j, EndedAt s j → (cancelAll s order).jobs[j]? = s.jobs[j]?)
  | [], s => ⟨rfl, fun j _ hj => by simpa [cancelAll] using hj, fun _ _ => rfl⟩
  | k :: ks, s => by
    simp only [cancelAll]
    cases hk : step s (.cancel k) with
    | none =>
      obtain ⟨ih1, ih2, ih3⟩ := cancelAll_spec ks s
      refine ⟨ih1, ?_, ih3⟩
      intro j hj hor
      apply ih2 j hj
      rcases hor with hmem | he
      · rcases List.mem_cons.1 hmem with rfl | hmem
        · exact Or.inr (cancel_none hk hj)
        · exact Or.inl hmem
      · exact Or.inr he
    | some s1 =>
      obtain ⟨hl, hek, hother⟩ := cancel_effect hk
      obtain ⟨ih1, ih2, ih3⟩ := cancelAll_spec ks s1
      have hkeep : ∀ j, EndedAt s j → EndedAt s1 j ∧ s1.jobs[j]? = s.jobs[j]? := by
        intro j ⟨x, hx, he⟩
        have hjk : j ≠ k := by
          rintro rfl
          cases step_spec hk with
          | cancel _ y hy hne => rw [hx] at hy; cases hy; rw [he] at hne; cases hne
        exact ⟨⟨x, (hother j hjk) ▸ hx, he⟩, hother j hjk⟩
      refine ⟨ih1.trans hl, ?_, ?_⟩
      · intro j hj hor
        apply ih2 j (hl ▸ hj)
        rcases hor with hmem | he
        · rcases List.mem_cons.1 hmem with rfl | hmem
          · exact Or.inr hek
          · exact Or.inl hmem
        · exact Or.inr (hkeep j he).1
      · intro j he
        rw [ih3 j (hkeep j he).1, (hkeep j he).2]

theorem reach_cancelAll {s : QState R} (h : Reach q0 pop workers s) :
    ∀ order, Reach q0 pop workers (cancelAll s order) := by
  intro order
  induction order generalizing s with
  | nil => exact h
  | cons k ks ih =>
    simp only [cancelAll]
    cases hk : step s (.cancel k) with
    | none => exact ih h
    | some s1 => exact ih (.step _ h hk)


/-- two different jobs hold disjoint resources (the core of `C17_exclusive`) -/
theorem held_disjoint {s : QState R} (h : Reach q0 pop workers s) (hq : q0.Nodup) {i j : Nat}
    (hij : i ≠ j) {xi xj : QJob R} (hi : s.jobs[i]? = some xi) (hj : s.jobs[j]? = some xj) :
    ∀ r, r ∈ held xi.phase → r ∉ held xj.phase := by
  have hnd := heldAll_nodup h hq
  intro r hr hr'
  rcases Nat.lt_or_gt_of_ne hij with hlt | hlt
  · exact disjoint_of_nodup_flatMap (fun q : QJob R => held q.phase) s.jobs hnd i j xi xj hlt hi hj r hr hr'
  · exact disjoint_of_nodup_flatMap (fun q : QJob R => held q.phase) s.jobs hnd j i xj xi hlt hj hi r hr' hr

/-- once every job has ended the queue holds exactly the initial resources -/
theorem queue_perm_of_all_ended {s : QState R} (h : Reach q0 pop workers s)
    (hall : ∀ x ∈ s.jobs, isEnded x.phase = true) : s.queue.Perm q0 := by
  have hcons := (reach_inv h).cons
  have : heldAll s = [] := by
    simp only [heldAll, List.flatMap_eq_nil_iff]
    intro x hx
    have := hall x hx
    cases hp : x.phase <;> simp [hp, isEnded] at this ⊢ <;> rfl
  rw [this, List.append_nil] at hcons
  exact hcons

end DH.Queued
