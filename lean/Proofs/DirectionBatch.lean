import Proofs.DirectionHist

/-! Helper lemmas for C05, part 10: one-shot batch strategies (`topk`, first member of `boltzmann`) and the
selection rule of `update_prior=True` (`np.quantile`, `y <= quantile`). -/

namespace DH.Direction

/-! ### the `n` smallest entries -/

/-- `idx` is a selection of the `n` smallest entries of `values`: `min n len` distinct in-range positions, and no
position left out has a strictly smaller value than a selected one -/
def IsNSmallest (values : Vec) (idx : List Nat) (n : Nat) : Prop :=
  idx.length = min n values.length ∧ idx.Nodup ∧ (∀ i ∈ idx, i < values.length) ∧
  ∀ i ∈ idx, ∀ j, j < values.length → j ∉ idx → ∀ a b, values[i]? = some a → values[j]? = some b → a ≤ b

/-- contract of `np.argsort(values)`: a permutation of the positions along which the values are non-decreasing
(which of several equal values comes first is the sorting algorithm's choice) -/
def ArgsortOK (values : Vec) (order : List Nat) : Prop :=
  order.Perm (List.range values.length) ∧
  order.Pairwise (fun i j => ∀ a b, values[i]? = some a → values[j]? = some b → a ≤ b)

theorem isNSmallestB_iff (values : Vec) (idx : List Nat) (n : Nat) :
    isNSmallestB values idx n = true ↔ IsNSmallest values idx n := by
  unfold isNSmallestB IsNSmallest
  simp only [Bool.and_eq_true, beq_iff_eq, decide_eq_true_eq, List.all_eq_true, List.mem_range,
    Bool.or_eq_true, List.contains_iff_mem]
  constructor
  · rintro ⟨⟨⟨h1, h2⟩, h3⟩, h4⟩
    refine ⟨h1, h2, h3, ?_⟩
    intro i hi j hj hnot a b ha hb
    rcases h4 i hi j hj with h | h
    · exact absurd h hnot
    · rw [ha, hb] at h
      simpa using h
  · rintro ⟨h1, h2, h3, h4⟩
    refine ⟨⟨⟨h1, h2⟩, h3⟩, ?_⟩
    intro i hi j hj
    by_cases hmem : j ∈ idx
    · exact Or.inl hmem
    · right
      have hil := h3 i hi
      rw [List.getElem?_eq_getElem hil, List.getElem?_eq_getElem hj]
      simpa using h4 i hi j hj hmem _ _ (List.getElem?_eq_getElem hil) (List.getElem?_eq_getElem hj)

/-- `np.argsort(values)[:n]` is a selection of the `n` smallest entries -/
theorem topkIdx_isNSmallest {values : Vec} {order : List Nat} (h : ArgsortOK values order) (n : Nat) :
    IsNSmallest values (topkIdx order n) n := by
  obtain ⟨hperm, hpw⟩ := h
  unfold topkIdx
  refine ⟨?_, ?_, ?_, ?_⟩
  · rw [List.length_take, hperm.length_eq, List.length_range]
  · exact ((hperm.nodup_iff).mpr List.nodup_range).sublist (List.take_sublist n order)
  · intro i hi
    have := (hperm.mem_iff).mp (List.mem_of_mem_take hi)
    simpa using this
  · intro i hi j hj hnot a b ha hb
    have hjo : j ∈ order := (hperm.mem_iff).mpr (by simpa using hj)
    rw [← List.take_append_drop n order, List.mem_append] at hjo
    have hjd : j ∈ order.drop n := hjo.resolve_left hnot
    rw [← List.take_append_drop n order, List.pairwise_append] at hpw
    exact hpw.2.2 i hi j hjd a b ha hb

/-- Direction of a selection of the `n` smallest acquisition values: when the acquisition is the surrogate mean
(`kappa = 0`), the surrogate returns the fitted target at every (observed) candidate and the fitted targets are
strictly decreasing in a score, the selected candidates are `n` candidates of largest score. -/
theorem nsmallest_by_score (score T : Vec) (xs : List Nat) (values sc : Vec) (idx : List Nat) (n : Nat)
    (hanti : ∀ (i j : Nat) (a b ta tb : Rat), score[i]? = some a → score[j]? = some b → T[i]? = some ta →
      T[j]? = some tb → a < b → tb < ta)
    (hint : interpolate T xs = some values) (hsc : interpolate score xs = some sc)
    (h : IsNSmallest values idx n) : IsNSmallest (sc.map (fun s => -s)) idx n := by
  obtain ⟨h1, h2, h3, h4⟩ := h
  have hlv : values.length = xs.length := mapOpt_length hint
  have hls : sc.length = xs.length := mapOpt_length hsc
  refine ⟨by simpa [hls, ← hlv] using h1, h2, fun i hi => by simpa [hls, ← hlv] using h3 i hi, ?_⟩
  intro i hi j hj hnot a b ha hb
  have hil : i < values.length := h3 i hi
  have hjl : j < values.length := by simpa [hls, ← hlv] using hj
  simp only [List.getElem?_map, Option.map_eq_some_iff] at ha hb
  obtain ⟨si, hsi, rfl⟩ := ha
  obtain ⟨sj, hsj, rfl⟩ := hb
  have hvi := List.getElem?_eq_getElem hil
  have hvj := List.getElem?_eq_getElem hjl
  have hle := h4 i hi j hjl hnot _ _ hvi hvj
  obtain ⟨ci, hci, hTi⟩ := interpolate_getElem? hint i _ hvi
  obtain ⟨cj, hcj, hTj⟩ := interpolate_getElem? hint j _ hvj
  obtain ⟨ci', hci', hSi⟩ := interpolate_getElem? hsc i _ hsi
  obtain ⟨cj', hcj', hSj⟩ := interpolate_getElem? hsc j _ hsj
  rw [hci] at hci'; rw [hcj] at hcj'
  cases hci'; cases hcj'
  by_cases hlt : si < sj
  · have := hanti ci cj si sj _ _ hSi hSj hTi hTj hlt
    linarith
  · linarith

theorem batchOf_isSome {α : Type} (xs : List α) (idx : List Nat) (h : ∀ i ∈ idx, i < xs.length) :
    (batchOf xs idx).isSome = true := by
  induction idx with
  | nil => simp [batchOf, mapOpt]
  | cons i l ih =>
    have hi := h i (List.mem_cons_self ..)
    have hl := ih (fun j hj => h j (List.mem_cons_of_mem _ hj))
    unfold batchOf at *
    simp only [mapOpt, List.getElem?_eq_getElem hi]
    cases hm : mapOpt (fun i => xs[i]?) l with
    | none => rw [hm] at hl; simp at hl
    | some bs => simp

/-! ### first member of a `boltzmann` batch -/

theorem argmaxNegFrom_eq (l : Vec) (best : Rat) (bi i : Nat) :
    argmaxNegFrom (-best) bi i l = argminFrom best bi i l := by
  induction l generalizing best bi i with
  | nil => rfl
  | cons a as ih =>
    simp only [argmaxNegFrom, argminFrom]
    by_cases h : a < best
    · have h' : -best < -a := by linarith
      simp only [h, h', if_true]; exact ih _ _ _
    · have h' : ¬ -best < -a := by intro h''; apply h; linarith
      simp only [h, h', if_false]; exact ih _ _ _

/-- `np.argmax(-values)` is `np.argmin(values)` -/
theorem boltzmannFirst_eq (values : Vec) : boltzmannFirst values = chooseNext values := by
  cases values with
  | nil => rfl
  | cons a l => simp only [boltzmannFirst, chooseNext, argmaxNegFrom_eq]

theorem boltzmannFirst_isNSmallest {values : Vec} {k : Nat} (h : boltzmannFirst values = some k) :
    IsNSmallest values [k] 1 := by
  rw [boltzmannFirst_eq] at h
  obtain ⟨m, hm, hmin⟩ := chooseNext_spec h
  have hk : k < values.length := by
    rcases Nat.lt_or_ge k values.length with h' | h'
    · exact h'
    · rw [List.getElem?_eq_none h'] at hm; cases hm
  refine ⟨?_, by simp, ?_, ?_⟩
  · simp only [List.length_singleton]; omega
  · intro i hi; simp only [List.mem_singleton] at hi; subst hi; exact hk
  · intro i hi j hj _ a b ha hb
    simp only [List.mem_singleton] at hi; subst hi
    rw [hm] at ha; cases ha
    exact hmin b (List.mem_of_getElem? hb)

end DH.Direction
