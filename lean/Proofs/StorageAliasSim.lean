import Proofs.StorageAlias

/-!
The world of objects (`Model/StorageAlias.lean`) refines the table of values, as long as the caller keeps the
discipline `AOp.ok` — and what `load_job` / `load_search` return satisfies that discipline by itself.
-/

namespace DH.Storage

theorem Atom.toVal_not_dict (x : Atom) (r : List (String × Val)) : x.toVal ≠ .dict r := by
  cases x <;> simp [Atom.toVal]

theorem newJobR_addrs (n : Nat) : (newJobR n).addrs = [n, n + 1, n + 2, n + 3, n + 4] := by
  simp [newJobR, RVal.addrs, RVal.addrsKV, RVal.addrsL]

theorem newJobR_erase (n : Nat) : (newJobR n).erase = .dict newJob := by
  simp [newJobR, newJob, RVal.erase, RVal.eraseKV, RVal.eraseL, Atom.toVal]

/-- `job[key] = w` on a job dict of the table in which no object occurs twice -/
theorem storeJob_table {W : World} (hW : Inv W) {jid key : String} {w : RVal} {a : Nat} {r : List (String × RVal)}
    (hj : aget jid W.jobs = some (.dict a r)) :
    RVal.editKV a (.setKey key w) W.jobs = aset jid (.dict a (aset key w r)) W.jobs := by
  have hn := aget_addrs_nodup hj hW.nodup
  simp only [RVal.addrs, List.nodup_cons] at hn
  rw [editKV_eq_aset a _ hj (by simp [RVal.addrs]) hW.nodup]
  simp [RVal.edit, Edit.apply, RVal.editKV_of_not_mem a _ r hn.1]

/-- `job["metadata"][key] = w` -/
theorem storeMeta_table {W : World} (hW : Inv W) {jid key : String} {w : RVal} {a am : Nat}
    {r m : List (String × RVal)} (hj : aget jid W.jobs = some (.dict a r)) (hm : aget "metadata" r = some (.dict am m)) :
    RVal.editKV am (.setKey key w) W.jobs =
      aset jid (.dict a (aset "metadata" (.dict am (aset key w m)) r)) W.jobs := by
  have hn := aget_addrs_nodup hj hW.nodup
  simp only [RVal.addrs, List.nodup_cons] at hn
  have hmr : am ∈ RVal.addrsKV r := aget_addrs_sub hm am (by simp [RVal.addrs])
  have hne : ¬ a = am := fun h => hn.1 (h ▸ hmr)
  have hnm := aget_addrs_nodup hm hn.2
  simp only [RVal.addrs, List.nodup_cons] at hnm
  rw [editKV_eq_aset am _ hj (by simp [RVal.addrs, hmr]) hW.nodup]
  simp only [RVal.edit, hne, if_false]
  rw [editKV_eq_aset am _ hm (by simp [RVal.addrs]) hn.2]
  simp [RVal.edit, Edit.apply, RVal.editKV_of_not_mem am _ m hnm.1]

/-- the invariant after an in-place `d[key] = w` that turned the table into `aset jid v' jobs` -/
theorem Inv_after_store {W : World} (hW : Inv W) (a : Nat) (key : String) (w : RVal) (jid : String) (v' : RVal)
    (hjobs : RVal.editKV a (.setKey key w) W.jobs = aset jid v' W.jobs)
    (hv' : v'.addrs.Nodup)
    (hsh : ∀ x ∈ v'.addrs, x ∈ RVal.addrsKV W.jobs → ∃ old, aget jid W.jobs = some old ∧ x ∈ old.addrs) :
    Inv (W.editAll a (.setKey key w)) := by
  refine ⟨?_, ?_, ?_⟩
  · intro x hx
    simp only [World.editAll] at hx ⊢
    rcases RVal.editKV_addrs_sub a _ _ x hx with hx | hx
    · have := hW.bound x hx; omega
    · have := Edit.lt_sup _ x hx; omega
  · intro x hx
    simp only [World.editAll] at hx ⊢
    rcases RVal.editL_addrs_sub a _ _ x hx with hx | hx
    · have := hW.hbound x hx; omega
    · have := Edit.lt_sup _ x hx; omega
  · simp only [World.editAll, hjobs]
    exact nodupKV_aset jid v' hv' _ hW.nodup hsh

/-- `d[key] = w` keeps a dict free of repetitions when `w` has none and is disjoint from the dict -/
theorem nodup_aset_fresh {key : String} {w : RVal} {r : List (String × RVal)} (hr : (RVal.addrsKV r).Nodup)
    (hw : w.addrs.Nodup) (hd : ∀ x ∈ w.addrs, x ∉ RVal.addrsKV r) : (RVal.addrsKV (aset key w r)).Nodup :=
  nodupKV_aset key w hw r hr (fun x hx hxr => absurd hxr (hd x hx))

/-- **one call**: under the invariant and the discipline, a call acts on the values of the table exactly as it does
in the model over values, answers the same value, and keeps the invariant. -/
theorem alias_step (W : World) (hW : Inv W) (op : AOp) (hok : op.ok W) :
    Inv (astep W op).1 ∧
    RVal.eraseKV (astep W op).1.jobs = (pstep (RVal.eraseKV W.jobs) op).1 ∧
    (astep W op).2.erase = (pstep (RVal.eraseKV W.jobs) op).2 := by
  cases op with
  | newJob jid =>
    refine ⟨⟨?_, ?_, ?_⟩, ?_, rfl⟩
    · intro x hx
      simp only [astep] at hx ⊢
      rcases addrsKV_aset_sub _ _ _ x hx with hx | hx
      · rw [newJobR_addrs] at hx; simp at hx; omega
      · have := hW.bound x hx; omega
    · intro x hx
      simp only [astep] at hx ⊢
      have := hW.hbound x hx; omega
    · simp only [astep]
      refine nodupKV_aset jid _ ?_ _ hW.nodup ?_
      · rw [newJobR_addrs]; simp [List.nodup_cons]
      · intro x hx hxj
        rw [newJobR_addrs] at hx
        have := hW.bound x hxj
        simp at hx; omega
    · simp [astep, pstep, eraseKV_aset, newJobR_erase]
  | storeJob jid key w =>
    simp only [AOp.ok] at hok
    simp only [astep, pstep, aget_eraseKV]
    rcases hj : aget jid W.jobs with _ | v
    · exact ⟨hW, rfl, rfl⟩
    · cases v with
      | atom x => cases x <;> exact ⟨hW, by simp [RVal.erase, Atom.toVal], by simp [RVal.erase, Atom.toVal, AOut.erase]⟩
      | list b l => exact ⟨hW, by simp [RVal.erase], by simp [RVal.erase, AOut.erase]⟩
      | tuple l => exact ⟨hW, by simp [RVal.erase], by simp [RVal.erase, AOut.erase]⟩
      | dict a r =>
        have ht := storeJob_table (key := key) (w := w) hW hj
        have hn := aget_addrs_nodup hj hW.nodup
        simp only [RVal.addrs, List.nodup_cons] at hn
        have hrsub : ∀ x ∈ RVal.addrsKV r, x ∈ RVal.addrsKV W.jobs :=
          fun x hx => aget_addrs_sub hj x (by simp [RVal.addrs, hx])
        have haj : a ∈ RVal.addrsKV W.jobs := aget_addrs_sub hj a (by simp [RVal.addrs])
        refine ⟨?_, ?_, rfl⟩
        · refine Inv_after_store hW a key w jid _ ht ?_ ?_
          · simp only [RVal.addrs, List.nodup_cons]
            refine ⟨fun h => ?_, nodup_aset_fresh hn.2 hok.1 (fun x hx hxr => hok.2 x hx (hrsub x hxr))⟩
            rcases addrsKV_aset_sub key w r a h with h | h
            · exact hok.2 a h haj
            · exact hn.1 h
          · intro x hx hxj
            refine ⟨_, hj, ?_⟩
            simp only [RVal.addrs, List.mem_cons] at hx ⊢
            rcases hx with hx | hx
            · exact Or.inl hx
            · rcases addrsKV_aset_sub key w r x hx with hx | hx
              · exact absurd hxj (hok.2 x hx)
              · exact Or.inr hx
        · simp only [World.editAll, ht, eraseKV_aset, RVal.erase, Option.map_some]
  | storeMeta jid key w =>
    simp only [AOp.ok] at hok
    simp only [astep, pstep, aget_eraseKV]
    rcases hj : aget jid W.jobs with _ | v
    · exact ⟨hW, rfl, rfl⟩
    · cases v with
      | atom x => cases x <;> exact ⟨hW, by simp [RVal.erase, Atom.toVal], by simp [RVal.erase, Atom.toVal, AOut.erase]⟩
      | list b l => exact ⟨hW, by simp [RVal.erase], by simp [RVal.erase, AOut.erase]⟩
      | tuple l => exact ⟨hW, by simp [RVal.erase], by simp [RVal.erase, AOut.erase]⟩
      | dict a r =>
        simp only [Option.map_some, RVal.erase, aget_eraseKV]
        rcases hm : aget "metadata" r with _ | mv
        · exact ⟨hW, rfl, rfl⟩
        · cases mv with
          | atom x => cases x <;> exact ⟨hW, by simp [RVal.erase, Atom.toVal], by simp [RVal.erase, Atom.toVal, AOut.erase]⟩
          | list b l => exact ⟨hW, by simp [RVal.erase], by simp [RVal.erase, AOut.erase]⟩
          | tuple l => exact ⟨hW, by simp [RVal.erase], by simp [RVal.erase, AOut.erase]⟩
          | dict am m =>
            have ht := storeMeta_table (key := key) (w := w) hW hj hm
            have hn := aget_addrs_nodup hj hW.nodup
            simp only [RVal.addrs, List.nodup_cons] at hn
            have hnm := aget_addrs_nodup hm hn.2
            simp only [RVal.addrs, List.nodup_cons] at hnm
            have hrsub : ∀ x ∈ RVal.addrsKV r, x ∈ RVal.addrsKV W.jobs :=
              fun x hx => aget_addrs_sub hj x (by simp [RVal.addrs, hx])
            have hmsub : ∀ x ∈ RVal.addrsKV m, x ∈ RVal.addrsKV r :=
              fun x hx => aget_addrs_sub hm x (by simp [RVal.addrs, hx])
            have hamr : am ∈ RVal.addrsKV r := aget_addrs_sub hm am (by simp [RVal.addrs])
            have haj : a ∈ RVal.addrsKV W.jobs := aget_addrs_sub hj a (by simp [RVal.addrs])
            -- the new metadata dict
            have hmd : (RVal.dict am (aset key w m)).addrs.Nodup := by
              simp only [RVal.addrs, List.nodup_cons]
              refine ⟨fun h => ?_, nodup_aset_fresh hnm.2 hok.1 (fun x hx hxm => hok.2 x hx (hrsub x (hmsub x hxm)))⟩
              rcases addrsKV_aset_sub key w m am h with h | h
              · exact hok.2 am h (hrsub am hamr)
              · exact hnm.1 h
            have hmd_sub : ∀ x ∈ (RVal.dict am (aset key w m)).addrs, x ∈ w.addrs ∨ x ∈ (RVal.dict am m).addrs := by
              intro x hx
              simp only [RVal.addrs, List.mem_cons] at hx ⊢
              rcases hx with hx | hx
              · exact Or.inr (Or.inl hx)
              · rcases addrsKV_aset_sub key w m x hx with hx | hx
                · exact Or.inl hx
                · exact Or.inr (Or.inr hx)
            refine ⟨?_, ?_, rfl⟩
            · refine Inv_after_store hW am key w jid _ ht ?_ ?_
              · simp only [RVal.addrs, List.nodup_cons]
                refine ⟨fun h => ?_, ?_⟩
                · rcases addrsKV_aset_sub "metadata" _ r a h with h | h
                  · rcases hmd_sub a h with h | h
                    · exact hok.2 a h haj
                    · exact hn.1 (aget_addrs_sub hm a h)
                  · exact hn.1 h
                · refine nodupKV_aset "metadata" _ hmd r hn.2 ?_
                  intro x hx hxr
                  refine ⟨_, hm, ?_⟩
                  rcases hmd_sub x hx with hx | hx
                  · exact absurd (hrsub x hxr) (hok.2 x hx)
                  · exact hx
              · intro x hx hxj
                refine ⟨_, hj, ?_⟩
                simp only [RVal.addrs, List.mem_cons] at hx ⊢
                rcases hx with hx | hx
                · exact Or.inl hx
                · rcases addrsKV_aset_sub "metadata" _ r x hx with hx | hx
                  · rcases hmd_sub x hx with hx | hx
                    · exact absurd hxj (hok.2 x hx)
                    · exact Or.inr (aget_addrs_sub hm x hx)
                  · exact Or.inr hx
            · simp only [World.editAll, ht, eraseKV_aset, RVal.erase, Option.map_some]
  | loadJob jid =>
    simp only [astep, pstep, aget_eraseKV]
    rcases hj : aget jid W.jobs with _ | j
    · exact ⟨hW, rfl, rfl⟩
    · have hm := RVal.copy_mono j W.next
      refine ⟨⟨?_, ?_, hW.nodup⟩, by first | rfl | trivial, by simp [AOut.erase, RVal.copy_erase]⟩
      · intro x hx
        have := hW.bound x hx
        simp only; omega
      · intro x hx
        simp only [RVal.addrsL, List.mem_append] at hx ⊢
        rcases hx with hx | hx
        · exact (RVal.copy_addrs j W.next x hx).2
        · have := hW.hbound x hx; omega
  | loadAll =>
    simp only [astep, pstep]
    have hm := RVal.copyKV_mono W.jobs (W.next + 1)
    refine ⟨⟨?_, ?_, hW.nodup⟩, by first | rfl | trivial, by simp [AOut.erase, RVal.erase, RVal.copyKV_erase]⟩
    · intro x hx
      have := hW.bound x hx
      simp only; omega
    · intro x hx
      simp only [RVal.addrsL, RVal.addrs, List.mem_append, List.mem_cons] at hx ⊢
      rcases hx with (hx | hx) | hx
      · omega
      · exact (RVal.copyKV_addrs W.jobs (W.next + 1) x hx).2
      · have := hW.hbound x hx; omega
  | loadJobs jids =>
    simp only [astep, pstep]
    have he := collectLive_erase W.jobs jids []
    simp only [RVal.eraseKV] at he
    rcases hc : collectLive W.jobs jids [] with _ | d
    · simp only [hc, Option.map_none] at he
      simp only [he]
      exact ⟨hW, by first | rfl | trivial, by first | rfl | trivial⟩
    · simp only [hc, Option.map_some] at he
      simp only [he]
      refine ⟨⟨?_, ?_, hW.nodup⟩, by first | rfl | trivial, by simp [AOut.erase, RVal.erase]⟩
      · intro x hx
        have := hW.bound x hx
        simp only; omega
      · intro x hx
        simp only [RVal.addrsL, RVal.addrs, List.mem_append, List.mem_cons] at hx ⊢
        rcases hx with (hx | hx) | hx
        · omega
        · rcases collectLive_addrs W.jobs jids [] d hc x hx with hx | hx
          · have := hW.bound x hx; omega
          · simp [RVal.addrsKV] at hx
        · have := hW.hbound x hx; omega
  | callerEdit a e =>
    simp only [AOp.ok] at hok
    obtain ⟨h1, h2⟩ := Inv_editAll_outside hW a e hok
    exact ⟨h1, by simp [astep, pstep, h2], rfl⟩

/-! ### runs -/

/-- the discipline along a run -/
def OkRun : World → List AOp → Prop
  | _, [] => True
  | W, op :: ops => op.ok W ∧ OkRun (astep W op).1 ops

theorem alias_run : ∀ (ops : List AOp) (W : World), Inv W → OkRun W ops →
    Inv (arun W ops).1 ∧
    RVal.eraseKV (arun W ops).1.jobs = (prun (RVal.eraseKV W.jobs) ops).1 ∧
    (arun W ops).2.map AOut.erase = (prun (RVal.eraseKV W.jobs) ops).2
  | [], W, hW, _ => ⟨hW, rfl, rfl⟩
  | op :: ops, W, hW, hok => by
    obtain ⟨h1, h2, h3⟩ := alias_step W hW op hok.1
    obtain ⟨i1, i2, i3⟩ := alias_run ops (astep W op).1 h1 hok.2
    simp only [arun, prun]
    rw [← h2]
    exact ⟨i1, i2, by simp [List.map, h3, i3]⟩

/-- the model over values does not see what the caller does to the objects it holds -/
theorem prun_ignores_edits : ∀ (ops : List AOp) (T : Table),
    (prun T ops).1 = (prun T (ops.filter AOp.isCall)).1 ∧
    callOuts ops (prun T ops).2 = (prun T (ops.filter AOp.isCall)).2
  | [], T => ⟨rfl, rfl⟩
  | op :: ops, T => by
    obtain ⟨h1, h2⟩ := prun_ignores_edits ops (pstep T op).1
    cases op with
    | callerEdit a e =>
      simp only [prun, pstep, List.filter, AOp.isCall, callOuts] at h1 h2 ⊢
      exact ⟨h1, by simpa using h2⟩
    | newJob jid => simp only [prun, List.filter, AOp.isCall, callOuts, if_true]; exact ⟨h1, by rw [h2]⟩
    | storeJob jid key w => simp only [prun, List.filter, AOp.isCall, callOuts, if_true]; exact ⟨h1, by rw [h2]⟩
    | storeMeta jid key w => simp only [prun, List.filter, AOp.isCall, callOuts, if_true]; exact ⟨h1, by rw [h2]⟩
    | loadJob jid => simp only [prun, List.filter, AOp.isCall, callOuts, if_true]; exact ⟨h1, by rw [h2]⟩
    | loadAll => simp only [prun, List.filter, AOp.isCall, callOuts, if_true]; exact ⟨h1, by rw [h2]⟩
    | loadJobs jids => simp only [prun, List.filter, AOp.isCall, callOuts, if_true]; exact ⟨h1, by rw [h2]⟩

/-! ### what a load returns is the caller's alone -/

theorem aget_addrs_sublist {k : String} {v : RVal} :
    ∀ {kv : List (String × RVal)}, aget k kv = some v → v.addrs.Sublist (RVal.addrsKV kv)
  | [], h => by simp [aget] at h
  | (a, w) :: r, h => by
    by_cases hk : a = k
    · simp only [aget, hk, if_true, Option.some.injEq] at h
      subst h
      exact List.sublist_append_left _ _
    · simp only [aget, hk, if_false] at h
      exact (aget_addrs_sublist h).trans (List.sublist_append_right _ _)

/-- a part of an object consists of objects of that object -/
theorem RVal.sub_addrs_sublist : ∀ (p : List String) (v x : RVal), v.sub p = some x → x.addrs.Sublist v.addrs
  | [], v, x, h => by
    simp only [RVal.sub, Option.some.injEq] at h
    subst h
    exact List.Sublist.refl _
  | k :: ps, v, x, h => by
    cases v with
    | dict a kv =>
      simp only [RVal.sub] at h
      rcases hk : aget k kv with _ | y
      · simp [hk] at h
      · simp only [hk] at h
        exact ((RVal.sub_addrs_sublist ps y x h).trans (aget_addrs_sublist hk)).trans (List.sublist_cons_self _ _)
    | atom _ => simp [RVal.sub] at h
    | list _ _ => simp [RVal.sub] at h
    | tuple _ => simp [RVal.sub] at h

/-- an object that is not in the job table and is not passed to the storage (nor put into a container by an edit)
does not get into the job table -/
theorem private_step (W : World) (op : AOp) (a : Nat) (ha : a ∉ RVal.addrsKV W.jobs) (hp : a ∉ op.passes)
    (hb : a < W.next) : a ∉ RVal.addrsKV (astep W op).1.jobs ∧ a < (astep W op).1.next := by
  have hedit : ∀ (b : Nat) (e : Edit), a ∉ e.addrs →
      a ∉ RVal.addrsKV (W.editAll b e).jobs ∧ a < (W.editAll b e).next := by
    intro b e he
    refine ⟨fun h => ?_, by simp only [World.editAll]; omega⟩
    rcases RVal.editKV_addrs_sub b e _ a h with h | h
    · exact ha h
    · exact he h
  cases op with
  | newJob jid =>
    refine ⟨fun h => ?_, by simp only [astep]; omega⟩
    simp only [astep] at h
    rcases addrsKV_aset_sub _ _ _ a h with h | h
    · rw [newJobR_addrs] at h; simp at h; omega
    · exact ha h
  | storeJob jid key w =>
    simp only [AOp.passes] at hp
    simp only [astep]
    split
    · exact hedit _ _ hp
    · exact ⟨ha, hb⟩
  | storeMeta jid key w =>
    simp only [AOp.passes] at hp
    simp only [astep]
    split
    · split
      · exact ⟨ha, hb⟩
      · exact hedit _ _ hp
      · exact ⟨ha, hb⟩
    · exact ⟨ha, hb⟩
  | loadJob jid =>
    simp only [astep]
    split
    · exact ⟨ha, hb⟩
    · rename_i j _
      have := RVal.copy_mono j W.next
      exact ⟨ha, by simp only; omega⟩
  | loadAll =>
    have := RVal.copyKV_mono W.jobs (W.next + 1)
    exact ⟨ha, by simp only [astep]; omega⟩
  | loadJobs jids =>
    simp only [astep]
    split
    · exact ⟨ha, hb⟩
    · exact ⟨ha, by simp only; omega⟩
  | callerEdit b e => exact hedit b e hp

theorem private_run : ∀ (ops : List AOp) (W : World) (a : Nat), a ∉ RVal.addrsKV W.jobs → a < W.next →
    (∀ op ∈ ops, a ∉ op.passes) → a ∉ RVal.addrsKV (arun W ops).1.jobs
  | [], W, a, ha, _, _ => ha
  | op :: ops, W, a, ha, hb, hp => by
    obtain ⟨h1, h2⟩ := private_step W op a ha (hp op List.mem_cons_self) hb
    simp only [arun]
    exact private_run ops _ a h1 h2 (fun o ho => hp o (List.mem_cons_of_mem _ ho))

/-- `load_job`: every object of the returned tree is new — not in the job table, not in anything the caller held
before — and occurs once -/
theorem loadJob_fresh (W : World) (hW : Inv W) (jid : String) (c : RVal) (h : (astep W (.loadJob jid)).2 = .val c) :
    c.addrs.Nodup ∧ ∀ a ∈ c.addrs, a ∉ RVal.addrsKV (astep W (.loadJob jid)).1.jobs ∧ a ∉ RVal.addrsL W.held ∧
      a < (astep W (.loadJob jid)).1.next := by
  simp only [astep] at h ⊢
  rcases hj : aget jid W.jobs with _ | j
  · simp [hj] at h
  · simp only [hj, AOut.val.injEq] at h ⊢
    subst h
    refine ⟨RVal.copy_nodup j W.next, fun a ha => ?_⟩
    have hr := RVal.copy_addrs j W.next a ha
    exact ⟨fun hh => by have := hW.bound a hh; omega, fun hh => by have := hW.hbound a hh; omega, hr.2⟩

/-- `load_search` (the whole table): the same -/
theorem loadAll_fresh (W : World) (hW : Inv W) (c : RVal) (h : (astep W .loadAll).2 = .val c) :
    c.addrs.Nodup ∧ ∀ a ∈ c.addrs, a ∉ RVal.addrsKV (astep W .loadAll).1.jobs ∧ a ∉ RVal.addrsL W.held ∧
      a < (astep W .loadAll).1.next := by
  simp only [astep, AOut.val.injEq] at h ⊢
  subst h
  have hm := RVal.copyKV_mono W.jobs (W.next + 1)
  refine ⟨?_, fun a ha => ?_⟩
  · simp only [RVal.addrs, List.nodup_cons]
    refine ⟨fun hh => ?_, RVal.copyKV_nodup W.jobs (W.next + 1)⟩
    have := RVal.copyKV_addrs W.jobs (W.next + 1) _ hh; omega
  · simp only [RVal.addrs, List.mem_cons] at ha
    have hr : W.next ≤ a ∧ a < (RVal.copyKV (W.next + 1) W.jobs).2 := by
      rcases ha with ha | ha
      · omega
      · have := RVal.copyKV_addrs W.jobs (W.next + 1) a ha; omega
    exact ⟨fun hh => by have := hW.bound a hh; omega, fun hh => by have := hW.hbound a hh; omega, hr.2⟩

/-- everything the discipline asks of the caller holds for a tree of new objects, now and as long as none of them is passed on -/
theorem fresh_private (W1 : World) (c : RVal) (hn : c.addrs.Nodup)
    (hf : ∀ a ∈ c.addrs, a ∉ RVal.addrsKV W1.jobs ∧ a < W1.next) :
    (∀ (p : List String) (x : RVal) (j k : String), c.sub p = some x →
      (AOp.storeJob j k x).ok W1 ∧ (AOp.storeMeta j k x).ok W1) ∧
    (∀ a ∈ c.addrs, ∀ e, (AOp.callerEdit a e).ok W1) ∧
    (∀ a ∈ c.addrs, ∀ more : List AOp, (∀ op ∈ more, a ∉ op.passes) → ∀ e, (AOp.callerEdit a e).ok (arun W1 more).1) := by
  refine ⟨fun p x j k hs => ?_, fun a ha e => (hf a ha).1, fun a ha more hm e => ?_⟩
  · have hsub := RVal.sub_addrs_sublist p c x hs
    have h1 : x.addrs.Nodup := hsub.nodup hn
    have h2 : ∀ a ∈ x.addrs, a ∉ RVal.addrsKV W1.jobs := fun a ha => (hf a (hsub.subset ha)).1
    exact ⟨⟨h1, h2⟩, ⟨h1, h2⟩⟩
  · exact private_run more W1 a (hf a ha).1 (hf a ha).2 hm

instance (W : World) (op : AOp) : Decidable (op.ok W) := by
  cases op <;> simp only [AOp.ok] <;> exact inferInstance

instance decOkRun : (W : World) → (ops : List AOp) → Decidable (OkRun W ops)
  | _, [] => isTrue trivial
  | W, op :: ops => by
    unfold OkRun
    exact @instDecidableAnd _ _ inferInstance (decOkRun _ ops)

end DH.Storage
