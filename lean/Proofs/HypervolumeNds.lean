import Proofs.Pareto
import Proofs.Hypervolume3d
import Proofs.HypervolumeNd4
import Proofs.HypervolumeNd5c

/-! The NDS pre-filter of `hypervolume` (`pointset[nds]`, model and proof of C11) composed with
the hypervolume specification. -/

namespace DH.Hypervolume
open DH.Pareto (Vec wdVec ndsMask ndsIdx NdsSpec)

theorem mem_selectMask {pts : List Vec} {mask : List Bool} {y : Vec} :
    y ∈ selectMask pts mask ↔ ∃ i : Nat, pts[i]? = some y ∧ mask[i]? = some true := by
  unfold selectMask
  rw [List.mem_filterMap]
  constructor
  · rintro ⟨⟨p, b⟩, hmem, hf⟩
    obtain ⟨i, hi⟩ := List.mem_iff_getElem?.mp hmem
    have := List.getElem?_zip_eq_some.mp hi
    cases b with
    | false => simp at hf
    | true =>
      simp only [if_true, Option.some.injEq] at hf
      subst hf
      exact ⟨i, this.1, this.2⟩
  · rintro ⟨i, h1, h2⟩
    refine ⟨(y, true), List.mem_iff_getElem?.mpr ⟨i, List.getElem?_zip_eq_some.mpr ⟨h1, h2⟩⟩, by simp⟩

/-- `pointset[nds]` is a sub-collection of the points that weakly dominates every point -/
theorem front_sub_cover (pts : List Vec) (order : List Nat)
    (h1 : ∀ i, i < pts.length → i ∈ order) (h2 : ∀ i ∈ order, i < pts.length) :
    (∀ y ∈ selectMask pts (ndsMask pts order), y ∈ pts) ∧
    (∀ x ∈ pts, ∃ y ∈ selectMask pts (ndsMask pts order), wdVec y x = true) := by
  have spec := DH.Pareto.ndsIdx_spec pts order h1 h2
  constructor
  · intro y hy
    obtain ⟨i, hi, _⟩ := mem_selectMask.mp hy
    exact List.mem_iff_getElem?.mpr ⟨i, hi⟩
  · intro x hx
    obtain ⟨j, hj, r, hr, hw⟩ := spec.cover x hx
    refine ⟨r, mem_selectMask.mpr ⟨j, hr, ?_⟩, hw⟩
    have hjlt : j < pts.length := spec.valid j hj
    have hget := (DH.Pareto.ndsMask_getD pts order j hjlt).mpr hj
    have hlen := DH.Pareto.ndsMask_length pts order
    have : j < (ndsMask pts order).length := by rw [hlen]; exact hjlt
    rw [List.getD_eq_getElem?_getD, List.getElem?_eq_getElem this] at hget
    rw [List.getElem?_eq_getElem this]
    simpa using hget

/-- the hypervolume of `pointset[nds]` is the hypervolume of `pointset` -/
theorem hv_front (ref : List Rat) (pts : List Vec) (order : List Nat)
    (h1 : ∀ i, i < pts.length → i ∈ order) (h2 : ∀ i ∈ order, i < pts.length) :
    hv ref (selectMask pts (ndsMask pts order)) = hv ref pts :=
  let h := front_sub_cover pts order h1 h2
  hv_cover ref h.1 h.2

/-- **`hypervolume(pointset, ref)` end to end, one objective** (NDS pre-filter, shift,
`preProcess`, branch `dimIndex == 0`), for whatever order `argsort` produced -/
theorem hypervolumeCode_1d (r : Rat) (pts : List Vec) (order : List Nat)
    (h1 : ∀ i, i < pts.length → i ∈ order) (h2 : ∀ i ∈ order, i < pts.length)
    (hrect : Rect 1 pts) (hle : ∀ p ∈ pts, wdVec p [r] = true) :
    hypervolumeCode pts [r] order = some (hv [r] pts) := by
  have hf := front_sub_cover pts order h1 h2
  show compute [r] (selectMask pts (ndsMask pts order)) = _
  rw [compute_1d r _ (fun p hp => hrect p (hf.1 p hp)) (fun p hp => hle p (hf.1 p hp)),
    hv_front [r] pts order h1 h2]

/-- **`hypervolume(pointset, ref)` end to end, two objectives** (NDS pre-filter, shift,
`preProcess`, the 2-D sweep `dimIndex == 1`) -/
theorem hypervolumeCode_2d (r0 r1 : Rat) (pts : List Vec) (order : List Nat)
    (h1 : ∀ i, i < pts.length → i ∈ order) (h2 : ∀ i ∈ order, i < pts.length)
    (hrect : Rect 2 pts) (hle : ∀ p ∈ pts, wdVec p [r0, r1] = true) :
    hypervolumeCode pts [r0, r1] order = some (hv [r0, r1] pts) := by
  have hf := front_sub_cover pts order h1 h2
  show compute [r0, r1] (selectMask pts (ndsMask pts order)) = _
  rw [compute_2d r0 r1 _ (fun p hp => hrect p (hf.1 p hp)) (fun p hp => hle p (hf.1 p hp)),
    hv_front [r0, r1] pts order h1 h2]

/-- **`hypervolume(pointset, ref)` end to end, three objectives** (NDS pre-filter, shift,
`preProcess`, the general dimension-sweep branch at `dimIndex = 2` calling the 2-D sweep).
`hbig`: no shifted last coordinate reaches the code's sentinel `-1.0e308`. -/
theorem hypervolumeCode_3d (r0 r1 r2 : Rat) (pts : List Vec) (order : List Nat)
    (h1 : ∀ i, i < pts.length → i ∈ order) (h2 : ∀ i ∈ order, i < pts.length)
    (hrect : Rect 3 pts) (hle : ∀ p ∈ pts, wdVec p [r0, r1, r2] = true)
    (hbig : ∀ p ∈ pts, negInf < co p 2 - r2) :
    hypervolumeCode pts [r0, r1, r2] order = some (hv [r0, r1, r2] pts) := by
  have hf := front_sub_cover pts order h1 h2
  show compute [r0, r1, r2] (selectMask pts (ndsMask pts order)) = _
  rw [compute_3d r0 r1 r2 _ (fun p hp => hrect p (hf.1 p hp)) (fun p hp => hle p (hf.1 p hp))
      (fun p hp => hbig p (hf.1 p hp)),
    hv_front [r0, r1, r2] pts order h1 h2]

/-- **`hypervolume(pointset, ref)` end to end for any number `m ≥ 2` of objectives**: NDS pre-filter,
shift, `preProcess`, the nested dimension sweep (`levelN` calling itself down to the 2-D sweep).
Points weakly below the reference; a coordinate may equal the reference's only in the objectives
`0, 1, 2` and the last one (`hcls`). -/
theorem hypervolumeCode_nd (ref : Vec) (pts : List Vec) (order : List Nat)
    (h1 : ∀ i, i < pts.length → i ∈ order) (h2 : ∀ i ∈ order, i < pts.length)
    (hm : 2 ≤ ref.length) (hrect : Rect ref.length pts) (hle : ∀ p ∈ pts, wdVec p ref = true)
    (hbig : ∀ p ∈ pts, ∀ k, k < ref.length → negInf < co p k - co ref k)
    (hcls : ∀ p ∈ pts, ∀ k, k < ref.length → co p k = co ref k → k ≤ 2 ∨ k + 1 = ref.length) :
    hypervolumeCode pts ref order = some (hv ref pts) := by
  have hf := front_sub_cover pts order h1 h2
  show compute ref (selectMask pts (ndsMask pts order)) = _
  rw [compute_nd ref _ hm (fun p hp => hrect p (hf.1 p hp)) (fun p hp => hle p (hf.1 p hp))
      (fun p hp => hbig p (hf.1 p hp)) (fun p hp => hcls p (hf.1 p hp)),
    hv_front ref pts order h1 h2]

/-- **`hypervolume(pointset, ref)` end to end for any number `m ≥ 2` of objectives, larger class**: a
coordinate may equal the reference's only in the objectives `0, 1, 2, 3` and the last one (`hcls`) — no
restriction for `m ≤ 5`. -/
theorem hypervolumeCode_nd5 (ref : Vec) (pts : List Vec) (order : List Nat)
    (h1 : ∀ i, i < pts.length → i ∈ order) (h2 : ∀ i ∈ order, i < pts.length)
    (hm : 2 ≤ ref.length) (hrect : Rect ref.length pts) (hle : ∀ p ∈ pts, wdVec p ref = true)
    (hbig : ∀ p ∈ pts, ∀ k, k < ref.length → negInf < co p k - co ref k)
    (hcls : ∀ p ∈ pts, ∀ k, k < ref.length → co p k = co ref k → k ≤ 3 ∨ k + 1 = ref.length) :
    hypervolumeCode pts ref order = some (hv ref pts) := by
  have hf := front_sub_cover pts order h1 h2
  show compute ref (selectMask pts (ndsMask pts order)) = _
  rw [compute_nd5 ref _ hm (fun p hp => hrect p (hf.1 p hp)) (fun p hp => hle p (hf.1 p hp))
      (fun p hp => hbig p (hf.1 p hp)) (fun p hp => hcls p (hf.1 p hp)),
    hv_front ref pts order h1 h2]

end DH.Hypervolume
