import Model.TableSpec
import Proofs.Pareto

/-! Helper lemmas for C04 (and the shared part of C06).  Core Lean only. -/

namespace DH.Dump

/-! ### vocabulary of the statements -/

/-- the arity a fresh evaluator infers from a list of finished jobs -/
def arity (J : List JobRec) : Option Nat := inferNumObjective none J

/-- header written when `j`'s result dict is chosen -/
def headerOf (n : Option Nat) (j : JobRec) : List Col := (resultOf n j).map (·.1)

/-- the line written for `j` under header `cols` -/
def renderRow (cols : List Col) (n : Option Nat) (j : JobRec) : List (Option Val) :=
  cols.map (rget (resultOf n j))

/-- objectives of the supported return forms, as `_on_done` leaves them: a failure string,
a number, or a non-empty tuple/list of numbers -/
def SupportedObj : Val → Prop
  | .str _ => True
  | .num _ => True
  | .list l => l ≠ [] ∧ ∀ v ∈ l, ∃ q, v = Val.num q
  | _ => False

def AllSupported (J : List JobRec) : Prop := ∀ j ∈ J, SupportedObj j.objective

/-! ### `rget` -/

theorem rget_append (a b : RowDict) (c : Col) :
    rget (a ++ b) c = match rget a c with | some v => some v | none => rget b c := by
  induction a with
  | nil => simp [rget]
  | cons p a ih =>
    obtain ⟨c', v⟩ := p
    simp only [List.cons_append, rget]
    split <;> simp_all

theorem rget_none_of_forall_ne (a : RowDict) (c : Col) (h : ∀ p ∈ a, p.1 ≠ c) : rget a c = none := by
  induction a with
  | nil => rfl
  | cons p a ih =>
    obtain ⟨c', v⟩ := p
    have h1 : c' ≠ c := h (c', v) (by simp)
    simp only [rget, h1, if_false]
    exact ih (fun p hp => h p (by simp [hp]))

theorem rget_params (args : Dict) (c : Col) (hc : ∀ k, c ≠ Col.param k) :
    rget (args.map (fun kv => (Col.param kv.1, kv.2))) c = none := by
  apply rget_none_of_forall_ne
  intro p hp
  simp only [List.mem_map] at hp
  obtain ⟨kv, _, rfl⟩ := hp
  exact fun h => hc kv.1 h.symm

theorem rget_mdata (md : Dict) (c : Col) (hc : ∀ k, c ≠ Col.mdata k) :
    rget (md.map (fun kv => (Col.mdata kv.1, kv.2))) c = none := by
  apply rget_none_of_forall_ne
  intro p hp
  simp only [List.mem_map] at hp
  obtain ⟨kv, _, rfl⟩ := hp
  exact fun h => hc kv.1 h.symm

/-- looking up an objective column in a job's result dict only sees the objective cells -/
theorem rget_resultOf_obj (n : Option Nat) (j : JobRec) (c : Col) (hc : isObjCol c = true) :
    rget (resultOf n j) c = rget (objectiveCells n j.objective) c := by
  unfold resultOf
  rw [rget_append, rget_append, rget_append, rget_params]
  · cases hr : rget (objectiveCells n j.objective) c with
    | some v => simp
    | none =>
      have h2 : rget [(Col.jobId, Val.num j.id), (Col.jobStatus, Val.str j.status.name)] c = none := by
        cases c <;> simp_all [rget, isObjCol]
      rw [h2, rget_mdata]
      intro k; cases c <;> simp_all [isObjCol]
  · intro k; cases c <;> simp_all [isObjCol]

/-! ### objective cells -/

theorem rget_range_map (n : Nat) (o : Val) (i : Nat) :
    rget ((List.range n).map (fun i => (Col.objectiveI i, o))) (Col.objectiveI i)
      = if i < n then some o else none := by
  induction n with
  | zero => simp [rget]
  | succ n ih =>
    rw [List.range_succ, List.map_append, rget_append, ih]
    by_cases h : i < n
    · simp [h, Nat.lt_succ_of_lt h]
    · simp only [h, if_false, List.map_cons, List.map_nil, rget]
      by_cases h2 : n = i
      · subst h2; simp
      · have : ¬ i < n + 1 := by omega
        simp [this, h2]

theorem rget_range_map_objective (n : Nat) (o : Val) :
    rget ((List.range n).map (fun i => (Col.objectiveI i, o))) Col.objective = none := by
  apply rget_none_of_forall_ne
  intro p hp
  simp only [List.mem_map] at hp
  obtain ⟨i, _, rfl⟩ := hp
  simp

/-- cells of a tuple/list objective -/
def listCells (l : List Val) : RowDict :=
  ((List.range l.length).zip l).map (fun iv => (Col.objectiveI iv.1, iv.2))

theorem listCells_objective (l : List Val) : rget (listCells l) Col.objective = none := by
  apply rget_none_of_forall_ne
  intro p hp
  simp only [listCells, List.mem_map] at hp
  obtain ⟨iv, _, rfl⟩ := hp
  simp

theorem rget_zipIdx_aux (l : List Val) (k i : Nat) :
    rget (((List.range' k l.length).zip l).map (fun iv => (Col.objectiveI iv.1, iv.2))) (Col.objectiveI (k + i))
      = l[i]? := by
  induction l generalizing k i with
  | nil => simp [rget]
  | cons v l ih =>
    simp only [List.length_cons, List.range'_succ, List.zip_cons_cons, List.map_cons, rget]
    cases i with
    | zero => simp
    | succ i =>
      have : ¬ (k = k + (i + 1)) := by omega
      simp only [Col.objectiveI.injEq, this, if_false]
      have := ih (k + 1) i
      rw [show k + 1 + i = k + (i + 1) by omega] at this
      simpa using this

theorem rget_listCells (l : List Val) (i : Nat) : rget (listCells l) (Col.objectiveI i) = l[i]? := by
  have := rget_zipIdx_aux l 0 i
  simpa [listCells, List.range_eq_range'] using this

theorem isStr_false_of_num {v : Val} (h : ∃ q, v = Val.num q) : isStr v = false := by
  obtain ⟨q, rfl⟩ := h; rfl

/-- the `is_*_has_success` test of the writer recognises exactly the non-failed jobs -/
theorem isSuccessRow_resultOf (n : Option Nat) (j : JobRec) (h : SupportedObj j.objective) :
    isSuccessRow (resultOf n j) = !isStr j.objective := by
  unfold isSuccessRow notStrAt
  rw [rget_resultOf_obj n j _ rfl, rget_resultOf_obj n j _ rfl]
  cases ho : j.objective with
  | str s =>
    simp only [objectiveCells, isStr]
    cases n with
    | none => simp [rget, isStr]
    | some m =>
      by_cases hm : m > 1
      · simp only [hm, if_true, rget_range_map_objective, rget_range_map]
        have : 0 < m := by omega
        simp [this, isStr]
      · simp [hm, rget, isStr]
  | num q =>
    simp only [objectiveCells, isStr]
    cases n with
    | none => simp [rget, isStr]
    | some m =>
      by_cases hm : m > 1
      · simp only [hm, if_true, rget_range_map_objective, rget_range_map]
        have : 0 < m := by omega
        simp [this, isStr]
      · simp [hm, rget, isStr]
  | list l =>
    rw [ho] at h
    obtain ⟨hne, hall⟩ := h
    have hc : objectiveCells n (Val.list l) = listCells l := rfl
    rw [hc, listCells_objective, rget_listCells]
    cases l with
    | nil => exact absurd rfl hne
    | cons v l =>
      obtain ⟨q, rfl⟩ := hall v (by simp)
      simp [isStr]
  | nonfin k => rw [ho] at h; exact absurd h (by simp [SupportedObj])
  | none => rw [ho] at h; exact absurd h (by simp [SupportedObj])
  | dict d => rw [ho] at h; exact absurd h (by simp [SupportedObj])

/-- a failure is written the same way while `num_objective` is undecided or 1 -/
theorem objectiveCells_fail_le1 (n : Option Nat) (o : Val) (ho : isStr o = true) (hn : le1 n = true) :
    objectiveCells n o = objectiveCells none o := by
  cases o <;> simp [isStr] at ho
  cases n with
  | none => rfl
  | some m =>
    simp only [le1, decide_eq_true_eq] at hn
    have : ¬ m > 1 := by omega
    simp [objectiveCells, this]

theorem resultOf_fail_le1 (n : Option Nat) (j : JobRec) (ho : isStr j.objective = true)
    (hn : le1 n = true) : resultOf n j = resultOf none j := by
  unfold resultOf
  rw [objectiveCells_fail_le1 n _ ho hn]

/-! ### arity inference -/

theorem firstSuccess_append (J b : List JobRec) :
    firstSuccess (J ++ b) = match firstSuccess J with | some j => some j | none => firstSuccess b := by
  unfold firstSuccess
  rw [List.find?_append]
  cases List.find? (fun j => !isStr j.objective) J <;> rfl

theorem arity_eq (J : List JobRec) : arity J = (firstSuccess J).map (fun j => arityOfObj j.objective) := rfl

theorem infer_arity_append (J b : List JobRec) :
    inferNumObjective (arity J) b = arity (J ++ b) := by
  rw [arity_eq, arity_eq, firstSuccess_append]
  cases h : firstSuccess J with
  | some j => simp [inferNumObjective]
  | none => simp [inferNumObjective]

theorem arity_none_iff (J : List JobRec) : arity J = none ↔ firstSuccess J = none := by
  rw [arity_eq]; cases firstSuccess J <;> simp

theorem firstSuccess_none_iff (J : List JobRec) :
    firstSuccess J = none ↔ ∀ j ∈ J, isStr j.objective = true := by
  unfold firstSuccess
  rw [List.find?_eq_none]
  constructor
  · intro h j hj; have := h j hj; simpa using this
  · intro h j hj; simp [h j hj]

theorem firstSuccess_mem {J : List JobRec} {j : JobRec} (h : firstSuccess J = some j) :
    j ∈ J ∧ isStr j.objective = false := by
  unfold firstSuccess at h
  exact ⟨List.mem_of_find?_eq_some h, by simpa using List.find?_some h⟩

/-! ### choosing the header -/

theorem find?_congr' {α : Type} {p q : α → Bool} :
    ∀ {l : List α}, (∀ x ∈ l, p x = q x) → l.find? p = l.find? q
  | [], _ => rfl
  | a :: l, h => by
    have ha : p a = q a := h a (by simp)
    have ih := find?_congr' (l := l) (fun x hx => h x (by simp [hx]))
    simp [List.find?, ha, ih]

theorem chooseColumns_noflush (old : Option (List Col)) (n : Option Nat) (P : List JobRec)
    (hs : AllSupported P) :
    chooseColumns false old (P.map (resultOf n))
      = match firstSuccess P with
        | some j => some (headerOf n j)
        | none => old := by
  unfold chooseColumns
  rw [List.find?_map]
  have : List.find? ((fun r => isSuccessRow r || false) ∘ resultOf n) P = firstSuccess P := by
    unfold firstSuccess
    apply find?_congr'
    intro j hj
    simp [isSuccessRow_resultOf n j (hs j hj)]
  rw [this]
  cases firstSuccess P <;> rfl

theorem chooseColumns_flush (old : Option (List Col)) (n : Option Nat) (P : List JobRec) :
    chooseColumns true old (P.map (resultOf n))
      = match P.head? with
        | some j => some (headerOf n j)
        | none => old := by
  unfold chooseColumns
  cases P with
  | nil => rfl
  | cons j P => simp [headerOf]

theorem writeRows_map (cols : List Col) (n : Option Nat) (P : List JobRec) :
    writeRows cols (P.map (resultOf n)) = P.map (renderRow cols n) := by
  simp [writeRows, renderRow, List.map_map, Function.comp_def]

/-! ### one call of the writer, case by case -/

theorem infer_nil (cur : Option Nat) : inferNumObjective cur [] = cur := by
  cases cur <;> rfl

theorem dumpStep_nil (fl : Bool) (st : DumpState) (h : st.pending = []) :
    dumpStep fl st = (st, ⟨none, []⟩) := by
  obtain ⟨a, b, c, d⟩ := st
  simp only at h; subst h
  simp [dumpStep, dumpStepWith, infer_nil]

theorem dumpStep_started (fl : Bool) (st : DumpState) (cols : List Col) (hs : st.started = true)
    (hc : st.columns = some cols) (hp : st.pending ≠ []) :
    dumpStep fl st =
      (⟨true, some cols, inferNumObjective st.numObjective st.pending, []⟩,
       ⟨none, st.pending.map (renderRow cols (inferNumObjective st.numObjective st.pending))⟩) := by
  obtain ⟨a, b, c, d⟩ := st
  simp only at hs hc hp; subst hs; subst hc
  have : d.isEmpty = false := by cases d <;> simp_all
  simp [dumpStep, dumpStepWith, this, writeRows_map]

theorem dumpStep_fresh (fl : Bool) (st : DumpState) (hs : st.started = false) (hp : st.pending ≠ []) :
    dumpStep fl st =
      (match chooseColumns fl st.columns
          (st.pending.map (resultOf (inferNumObjective st.numObjective st.pending))) with
       | none => ({ st with numObjective := inferNumObjective st.numObjective st.pending }, ⟨none, []⟩)
       | some cols =>
         (⟨true, some cols, inferNumObjective st.numObjective st.pending, []⟩,
          ⟨some cols, st.pending.map (renderRow cols (inferNumObjective st.numObjective st.pending))⟩)) := by
  obtain ⟨a, b, c, d⟩ := st
  simp only at hs hp; subst hs
  have : d.isEmpty = false := by cases d <;> simp_all
  simp only [dumpStep, dumpStepWith, this]
  cases chooseColumns fl b (d.map (resultOf (inferNumObjective c d))) <;> simp [writeRows_map]

/-! ### the invariant of a run -/

/-- after the header was written -/
structure Started (nfin : Option Nat) (J : List JobRec) (st : DumpState) (t : Table) : Prop where
  started : st.started = true
  pend : st.pending = []
  num : st.numObjective = arity J
  numOK : arity J = nfin ∨ (arity J = none ∧ le1 nfin = true)
  hdr : ∃ hj ∈ J, (firstSuccess J = some hj ∨ isStr hj.objective = true) ∧
        st.columns = some (headerOf nfin hj) ∧
        t = ⟨some (headerOf nfin hj), J.map (renderRow (headerOf nfin hj) nfin)⟩

/-- `J` = all jobs finished so far; `nfin` = the arity the whole run will infer -/
def Inv (nfin : Option Nat) (J : List JobRec) (st : DumpState) (t : Table) : Prop :=
  (st = ⟨false, none, none, J⟩ ∧ t = Table.empty ∧ firstSuccess J = none) ∨ Started nfin J st t

theorem renderRow_fail_le1 (cols : List Col) (n : Option Nat) (j : JobRec)
    (ho : isStr j.objective = true) (hn : le1 n = true) : renderRow cols n j = renderRow cols none j := by
  unfold renderRow; rw [resultOf_fail_le1 n j ho hn]

theorem Table.add_nothing (t : Table) : t.add ⟨none, []⟩ = t := by
  obtain ⟨h, r⟩ := t
  cases h <;> simp [Table.add]

theorem step_inv (nfin : Option Nat) (J b : List JobRec) (fl : Bool) (st : DumpState) (t : Table)
    (hinv : Inv nfin J st t) (hsup : AllSupported (J ++ b))
    (hpre : arity (J ++ b) = nfin ∨ arity (J ++ b) = none)
    (hfl : fl = true → arity (J ++ b) = none → J ++ b = [] ∨ le1 nfin = true) :
    Inv nfin (J ++ b) (dumpStep fl { st with pending := st.pending ++ b }).1
      (t.add (dumpStep fl { st with pending := st.pending ++ b }).2) := by
  rcases hinv with ⟨rfl, rfl, hns⟩ | hst
  · -- nothing written yet, no success so far
    show Inv nfin (J ++ b) (dumpStep fl ⟨false, none, none, J ++ b⟩).1
      (Table.empty.add (dumpStep fl ⟨false, none, none, J ++ b⟩).2)
    by_cases hP : J ++ b = []
    · rw [hP, dumpStep_nil fl _ rfl, Table.add_nothing]
      exact Or.inl ⟨rfl, rfl, rfl⟩
    · rw [dumpStep_fresh fl _ rfl hP]
      simp only []
      have hn : inferNumObjective none (J ++ b) = arity (J ++ b) := rfl
      rw [hn]
      cases fl with
      | false =>
        rw [chooseColumns_noflush none _ _ hsup]
        cases hfs : firstSuccess (J ++ b) with
        | none =>
          have : arity (J ++ b) = none := (arity_none_iff _).2 hfs
          simp only [this]
          exact Or.inl ⟨rfl, by simp [Table.add_nothing], hfs⟩
        | some hj =>
          have hne : arity (J ++ b) ≠ none := by rw [Ne, arity_none_iff, hfs]; simp
          have hfin : arity (J ++ b) = nfin := by rcases hpre with h | h; exact h; exact absurd h hne
          simp only [hfin]
          refine Or.inr ⟨rfl, rfl, hfin.symm, Or.inl hfin, hj, (firstSuccess_mem hfs).1, Or.inl hfs, rfl, ?_⟩
          simp [Table.add, Table.empty]
      | true =>
        rw [chooseColumns_flush]
        cases hP2 : J ++ b with
        | nil => exact absurd hP2 hP
        | cons hd tl =>
          simp only [List.head?_cons]
          rw [← hP2]
          have hmem : hd ∈ J ++ b := by rw [hP2]; simp
          cases hfs : firstSuccess (J ++ b) with
          | none =>
            have har : arity (J ++ b) = none := (arity_none_iff _).2 hfs
            have hall := (firstSuccess_none_iff _).1 hfs
            have hle : le1 nfin = true := by
              rcases hfl rfl har with h | h
              · exact absurd h hP
              · exact h
            have hhdr : headerOf none hd = headerOf nfin hd := by
              unfold headerOf; rw [resultOf_fail_le1 nfin hd (hall hd hmem) hle]
            have hrows : (J ++ b).map (renderRow (headerOf none hd) none)
                = (J ++ b).map (renderRow (headerOf nfin hd) nfin) := by
              rw [hhdr]
              apply List.map_congr_left
              intro j hj
              exact (renderRow_fail_le1 _ nfin j (hall j hj) hle).symm
            simp only [har]
            refine Or.inr ⟨rfl, rfl, har.symm, Or.inr ⟨har, hle⟩, hd, hmem, Or.inr (hall hd hmem), ?_, ?_⟩
            · simp [hhdr]
            · simp only [Table.add, Table.empty, List.nil_append]
              rw [hrows, hhdr]
          | some hj =>
            have hne : arity (J ++ b) ≠ none := by rw [Ne, arity_none_iff, hfs]; simp
            have hfin : arity (J ++ b) = nfin := by rcases hpre with h | h; exact h; exact absurd h hne
            simp only [hfin]
            have hdisj : firstSuccess (J ++ b) = some hd ∨ isStr hd.objective = true := by
              cases hstr : isStr hd.objective with
              | true => exact Or.inr rfl
              | false =>
                left
                rw [hP2]; simp [firstSuccess, List.find?, hstr]
            refine Or.inr ⟨rfl, rfl, hfin.symm, Or.inl hfin, hd, hmem, hdisj, rfl, ?_⟩
            simp [Table.add, Table.empty]
  · -- header already written: every call appends exactly the new batch
    obtain ⟨hs, hp, hnum, hnumOK, hj, hjmem, hjdisj, hcols, ht⟩ := hst
    obtain ⟨s1, s2, s3, s4⟩ := st
    simp only at hs hp hnum hcols
    subst hs; subst hp; subst hnum; subst hcols
    simp only [List.nil_append]
    by_cases hb : b = []
    · subst hb
      rw [dumpStep_nil fl _ rfl, Table.add_nothing]
      simp only [List.append_nil]
      exact Or.inr ⟨rfl, rfl, rfl, hnumOK, hj, hjmem, hjdisj, rfl, ht⟩
    · rw [dumpStep_started fl _ (headerOf nfin hj) rfl rfl hb]
      simp only [infer_arity_append]
      have hrows : b.map (renderRow (headerOf nfin hj) (arity (J ++ b)))
          = b.map (renderRow (headerOf nfin hj) nfin) := by
        rcases hpre with h | h
        · rw [h]
        · -- still no success: the header was written by a flush, so `le1 nfin`
          have hall := (firstSuccess_none_iff _).1 ((arity_none_iff _).1 h)
          have hJ : arity J = none := by
            rw [arity_none_iff, firstSuccess_none_iff]
            exact fun j hj => hall j (by simp [hj])
          rcases hnumOK with h2 | ⟨_, hle⟩
          · rw [h, ← h2, hJ]
          · rw [h]
            apply List.map_congr_left
            intro j hjb
            exact (renderRow_fail_le1 _ nfin j (hall j (by simp [hjb])) hle).symm
      have hnumOK' : arity (J ++ b) = nfin ∨ (arity (J ++ b) = none ∧ le1 nfin = true) := by
        rcases hpre with h | h
        · exact Or.inl h
        · have hall := (firstSuccess_none_iff _).1 ((arity_none_iff _).1 h)
          have hJ : arity J = none := by
            rw [arity_none_iff, firstSuccess_none_iff]
            exact fun j hj => hall j (by simp [hj])
          rcases hnumOK with h2 | ⟨_, hle⟩
          · left; rw [h, ← h2, hJ]
          · exact Or.inr ⟨h, hle⟩
      have hjdisj' : firstSuccess (J ++ b) = some hj ∨ isStr hj.objective = true := by
        rcases hjdisj with h | h
        · left; rw [firstSuccess_append, h]
        · exact Or.inr h
      refine Or.inr ⟨rfl, rfl, rfl, hnumOK', hj, by simp [hjmem], hjdisj', rfl, ?_⟩
      rw [ht]
      simp [Table.add, hrows]

/-! ### whole runs -/

/-- Mid-run flushes.  A `flush=True` dump made while only failures have finished (the end of an
earlier `search()` call whose evaluations all failed) writes the header with the single
`objective` column; that is compatible with the rest of the run only when the arity the run
finally infers is undecided or 1. -/
def FlushOK (nfin : Option Nat) : List JobRec → List (List JobRec × Bool) → Prop
  | _, [] => True
  | J, (b, fl) :: rest =>
    (fl = true → arity (J ++ b) = none → J ++ b = [] ∨ le1 nfin = true) ∧ FlushOK nfin (J ++ b) rest

theorem arity_prefix (P R : List JobRec) (n : Option Nat) (h : arity (P ++ R) = n) :
    arity P = n ∨ arity P = none := by
  rw [arity_eq, firstSuccess_append] at h
  rw [arity_eq]
  cases hP : firstSuccess P with
  | none => right; rfl
  | some j => left; rw [hP] at h; exact h

theorem runOps_cons (st : DumpState) (t : Table) (b : List JobRec) (fl : Bool)
    (rest : List (List JobRec × Bool)) :
    runOps st t ((b, fl) :: rest) =
      runOps (dumpStep fl { st with pending := st.pending ++ b }).1
        (t.add (dumpStep fl { st with pending := st.pending ++ b }).2) rest := rfl

theorem allJobs_cons (b : List JobRec) (fl : Bool) (rest : List (List JobRec × Bool)) :
    allJobs ((b, fl) :: rest) = b ++ allJobs rest := by
  simp [allJobs]

theorem run_inv (nfin : Option Nat) :
    ∀ (ops : List (List JobRec × Bool)) (J : List JobRec) (st : DumpState) (t : Table),
      Inv nfin J st t → AllSupported (J ++ allJobs ops) → arity (J ++ allJobs ops) = nfin →
      FlushOK nfin J ops →
      Inv nfin (J ++ allJobs ops) (runOps st t ops).1 (runOps st t ops).2
  | [], J, st, t, hinv, _, _, _ => by simpa [allJobs, runOps, runOpsWith] using hinv
  | (b, fl) :: rest, J, st, t, hinv, hsup, har, hfl => by
    rw [runOps_cons, allJobs_cons, ← List.append_assoc]
    rw [allJobs_cons, ← List.append_assoc] at hsup har
    obtain ⟨hfl1, hfl2⟩ := hfl
    apply run_inv nfin rest (J ++ b) _ _ _ hsup har hfl2
    apply step_inv nfin J b fl st t hinv
    · intro j hj; exact hsup j (by simp only [List.mem_append] at hj ⊢; exact Or.inl hj)
    · exact arity_prefix _ _ _ har
    · exact hfl1

theorem runOps_append (st : DumpState) (t : Table) (a c : List (List JobRec × Bool)) :
    runOps st t (a ++ c) = runOps (runOps st t a).1 (runOps st t a).2 c := by
  induction a generalizing st t with
  | nil => rfl
  | cons x a ih => obtain ⟨b, fl⟩ := x; simp only [List.cons_append, runOps_cons, ih]

theorem Inv_fresh (nfin : Option Nat) : Inv nfin [] DumpState.fresh Table.empty :=
  Or.inl ⟨rfl, rfl, rfl⟩

/-- the state after a run that ends with the final `flush=True` dump of `search()` -/
theorem final_flush (ops : List (List JobRec × Bool)) (hsup : AllSupported (allJobs ops))
    (hfl : FlushOK (arity (allJobs ops)) [] ops) :
    (runOps DumpState.fresh Table.empty (ops ++ [([], true)])).1.pending = [] ∧
    ((allJobs ops = [] ∧ (runOps DumpState.fresh Table.empty (ops ++ [([], true)])).2 = Table.empty) ∨
     ∃ hj ∈ allJobs ops,
       (firstSuccess (allJobs ops) = some hj ∨ isStr hj.objective = true) ∧
       (runOps DumpState.fresh Table.empty (ops ++ [([], true)])).2 =
         ⟨some (headerOf (arity (allJobs ops)) hj),
          (allJobs ops).map (renderRow (headerOf (arity (allJobs ops)) hj) (arity (allJobs ops)))⟩) := by
  have h1 := run_inv (arity (allJobs ops)) ops [] DumpState.fresh Table.empty (Inv_fresh _)
    (by simpa using hsup) (by simp) hfl
  simp only [List.nil_append] at h1
  rw [runOps_append, runOps_cons]
  generalize (runOps DumpState.fresh Table.empty ops).1 = st at h1 ⊢
  generalize (runOps DumpState.fresh Table.empty ops).2 = t at h1 ⊢
  simp only [runOps, runOpsWith]
  have h2 := step_inv (arity (allJobs ops)) (allJobs ops) [] true st t h1 (by simpa using hsup)
    (by simp) (by intro _ h; right; rw [List.append_nil] at h; rw [h]; rfl)
  simp only [List.append_nil] at h2 ⊢
  by_cases hJ : allJobs ops = []
  · rcases h1 with ⟨rfl, rfl, _⟩ | hst
    · rw [hJ, dumpStep_nil true _ rfl, Table.add_nothing]
      exact ⟨rfl, Or.inl ⟨rfl, rfl⟩⟩
    · obtain ⟨hj, hjm, _⟩ := hst.hdr
      rw [hJ] at hjm; simp at hjm
  · rcases h2 with ⟨heq, _, _⟩ | hst
    · -- impossible: a flush with a job pending always writes
      exfalso
      rcases h1 with ⟨rfl, rfl, _⟩ | hst1
      · simp only [List.append_nil] at heq
        rw [dumpStep_fresh true _ rfl hJ, chooseColumns_flush] at heq
        cases hh : allJobs ops with
        | nil => exact hJ hh
        | cons a l => rw [hh] at heq; simp at heq
      · have := hst1.started
        obtain ⟨s1, s2, s3, s4⟩ := st
        simp only at this; subst this
        have hp := hst1.pend
        simp only at hp; subst hp
        obtain ⟨hj, _, _, hc, _⟩ := hst1.hdr
        simp only at hc; subst hc
        rw [dumpStep_nil true _ rfl] at heq
        simp at heq
    · obtain ⟨hj, hjm, hd, _, ht⟩ := hst.hdr
      exact ⟨hst.pend, Or.inr ⟨hj, hjm, hd, ht⟩⟩

/-! ### what a cell contains -/

theorem rget_params_eq (args : Dict) (k : String) :
    rget (args.map (fun kv => (Col.param kv.1, kv.2))) (Col.param k) = dget args k := by
  induction args with
  | nil => rfl
  | cons kv args ih =>
    obtain ⟨k', v⟩ := kv
    simp only [List.map_cons, rget, dget, Col.param.injEq, ih]

theorem rget_mdata_eq (md : Dict) (k : String) :
    rget (md.map (fun kv => (Col.mdata kv.1, kv.2))) (Col.mdata k) = dget md k := by
  induction md with
  | nil => rfl
  | cons kv md ih =>
    obtain ⟨k', v⟩ := kv
    simp only [List.map_cons, rget, dget, Col.mdata.injEq, ih]

theorem objectiveCells_keys (n : Option Nat) (o : Val) :
    ∀ p ∈ objectiveCells n o, isObjCol p.1 = true := by
  intro p hp
  unfold objectiveCells at hp
  split at hp
  · simp only [List.mem_map] at hp
    obtain ⟨iv, _, rfl⟩ := hp; rfl
  · split at hp
    · split at hp
      · simp only [List.mem_map] at hp
        obtain ⟨i, _, rfl⟩ := hp; rfl
      · simp only [List.mem_singleton] at hp; subst hp; rfl
    · simp only [List.mem_singleton] at hp; subst hp; rfl

theorem rget_objectiveCells_other (n : Option Nat) (o : Val) (c : Col) (hc : isObjCol c = false) :
    rget (objectiveCells n o) c = none := by
  apply rget_none_of_forall_ne
  intro p hp h
  have := objectiveCells_keys n o p hp
  rw [h, hc] at this; exact absurd this (by simp)

theorem rget_objectiveCells_spec (n : Option Nat) (j : JobRec) (c : Col) (hc : isObjCol c = true) :
    rget (objectiveCells n j.objective) c = specCell n j c := by
  cases c with
  | objective =>
    simp only [specCell]
    cases ho : j.objective with
    | list l => exact listCells_objective l
    | str s =>
      cases n with
      | none => simp [objectiveCells, rget, le1]
      | some m =>
        by_cases hm : m > 1
        · have : ¬ m ≤ 1 := by omega
          simp [objectiveCells, hm, rget_range_map_objective, le1, this]
        · have : m ≤ 1 := by omega
          simp [objectiveCells, hm, rget, le1, this]
    | num q =>
      cases n with
      | none => simp [objectiveCells, rget, le1]
      | some m =>
        by_cases hm : m > 1
        · have : ¬ m ≤ 1 := by omega
          simp [objectiveCells, hm, rget_range_map_objective, le1, this]
        · have : m ≤ 1 := by omega
          simp [objectiveCells, hm, rget, le1, this]
    | nonfin k =>
      cases n with
      | none => simp [objectiveCells, rget, le1]
      | some m =>
        by_cases hm : m > 1
        · have : ¬ m ≤ 1 := by omega
          simp [objectiveCells, hm, rget_range_map_objective, le1, this]
        · have : m ≤ 1 := by omega
          simp [objectiveCells, hm, rget, le1, this]
    | none =>
      cases n with
      | none => simp [objectiveCells, rget, le1]
      | some m =>
        by_cases hm : m > 1
        · have : ¬ m ≤ 1 := by omega
          simp [objectiveCells, hm, rget_range_map_objective, le1, this]
        · have : m ≤ 1 := by omega
          simp [objectiveCells, hm, rget, le1, this]
    | dict d =>
      cases n with
      | none => simp [objectiveCells, rget, le1]
      | some m =>
        by_cases hm : m > 1
        · have : ¬ m ≤ 1 := by omega
          simp [objectiveCells, hm, rget_range_map_objective, le1, this]
        · have : m ≤ 1 := by omega
          simp [objectiveCells, hm, rget, le1, this]
  | objectiveI i =>
    simp only [specCell]
    cases ho : j.objective with
    | list l => exact rget_listCells l i
    | str s =>
      cases n with
      | none => simp [objectiveCells, rget]
      | some m =>
        by_cases hm : m > 1
        · simp [objectiveCells, hm, rget_range_map]
        · simp [objectiveCells, hm, rget]
    | num q =>
      cases n with
      | none => simp [objectiveCells, rget]
      | some m =>
        by_cases hm : m > 1
        · simp [objectiveCells, hm, rget_range_map]
        · simp [objectiveCells, hm, rget]
    | nonfin k =>
      cases n with
      | none => simp [objectiveCells, rget]
      | some m =>
        by_cases hm : m > 1
        · simp [objectiveCells, hm, rget_range_map]
        · simp [objectiveCells, hm, rget]
    | none =>
      cases n with
      | none => simp [objectiveCells, rget]
      | some m =>
        by_cases hm : m > 1
        · simp [objectiveCells, hm, rget_range_map]
        · simp [objectiveCells, hm, rget]
    | dict d =>
      cases n with
      | none => simp [objectiveCells, rget]
      | some m =>
        by_cases hm : m > 1
        · simp [objectiveCells, hm, rget_range_map]
        · simp [objectiveCells, hm, rget]
  | param k => simp [isObjCol] at hc
  | jobId => simp [isObjCol] at hc
  | jobStatus => simp [isObjCol] at hc
  | mdata k => simp [isObjCol] at hc

/-- every cell of the result dict of a job is what the property says it should be -/
theorem rget_resultOf_spec (n : Option Nat) (j : JobRec) (c : Col) :
    rget (resultOf n j) c = specCell n j c := by
  by_cases hc : isObjCol c = true
  · rw [rget_resultOf_obj n j c hc, rget_objectiveCells_spec n j c hc]
  · have hc' : isObjCol c = false := by simpa using hc
    unfold resultOf
    rw [rget_append, rget_append, rget_append, rget_objectiveCells_other n _ c hc']
    cases c with
    | param k =>
      rw [rget_params_eq]
      cases h : dget j.args k with
      | some v => simp [specCell, h]
      | none => simp [specCell, h, rget, rget_mdata]
    | jobId => rw [rget_params _ _ (by simp)]; simp [rget, specCell]
    | jobStatus => rw [rget_params _ _ (by simp)]; simp [rget, specCell]
    | mdata k => rw [rget_params _ _ (by simp)]; simp [rget, specCell, rget_mdata_eq]
    | objective => simp [isObjCol] at hc'
    | objectiveI i => simp [isObjCol] at hc'

/-! ### the header -/

theorem headerOf_eq (n : Option Nat) (j : JobRec) :
    headerOf n j = j.args.map (fun kv => Col.param kv.1)
      ++ (objectiveCells n j.objective).map (·.1)
      ++ [Col.jobId, Col.jobStatus]
      ++ (visibleMeta j.md).map (fun kv => Col.mdata kv.1) := by
  simp [headerOf, resultOf, List.map_append, List.map_map, Function.comp_def]

theorem listCells_cols (l : List Val) :
    (listCells l).map (·.1) = (List.range l.length).map Col.objectiveI := by
  unfold listCells
  rw [List.map_map]
  have : ((fun x : Col × Val => x.1) ∘ fun iv : Nat × Val => (Col.objectiveI iv.1, iv.2))
      = Col.objectiveI ∘ Prod.fst := rfl
  rw [this, ← List.map_map, List.map_fst_zip]
  simp

theorem objectiveCells_cols_fail (n : Option Nat) (o : Val) (ho : isStr o = true) :
    (objectiveCells n o).map (·.1) = objColsOf n := by
  cases o <;> simp [isStr] at ho
  cases n with
  | none => rfl
  | some m =>
    by_cases hm : m > 1
    · simp [objectiveCells, objColsOf, hm, List.map_map, Function.comp_def]
    · simp [objectiveCells, objColsOf, hm]

/-- tuples/lists have at least two components (the property: "one objective_i column per
objective for tuples") -/
def TupleOK (o : Val) : Prop := ∀ l, o = Val.list l → 2 ≤ l.length

theorem objectiveCells_cols_success (J : List JobRec) (hj : JobRec) (hfs : firstSuccess J = some hj)
    (hsup : SupportedObj hj.objective) (h2 : TupleOK hj.objective) :
    (objectiveCells (arity J) hj.objective).map (·.1) = objColsOf (arity J) := by
  have har : arity J = some (arityOfObj hj.objective) := by rw [arity_eq, hfs]; rfl
  rw [har]
  cases ho : hj.objective with
  | list l =>
    have : 2 ≤ l.length := h2 l ho
    have hgt : l.length > 1 := by omega
    show (listCells l).map (·.1) = _
    simp [listCells_cols, objColsOf, arityOfObj, hgt]
  | num q => simp [objectiveCells, objColsOf, arityOfObj]
  | str s => have := (firstSuccess_mem hfs).2; rw [ho] at this; simp [isStr] at this
  | nonfin k => rw [ho] at hsup; exact absurd hsup (by simp [SupportedObj])
  | none => rw [ho] at hsup; exact absurd hsup (by simp [SupportedObj])
  | dict d => rw [ho] at hsup; exact absurd hsup (by simp [SupportedObj])

/-! ### spreading the Pareto mask over the lines -/

theorem spread_length : ∀ (f m : List Bool), (spread f m).length = f.length
  | [], _ => rfl
  | true :: fs, m => by simp [spread, spread_length fs m]
  | false :: fs, b :: m => by simp [spread, spread_length fs m]
  | false :: fs, [] => by simp [spread, spread_length fs []]

/-- a failed line is never flagged -/
theorem spread_failed : ∀ (f m : List Bool) (i : Nat), f[i]? = some true → (spread f m)[i]? = some false
  | [], _, i, h => by simp at h
  | true :: fs, m, 0, _ => by simp [spread]
  | true :: fs, m, i + 1, h => by
    simp only [spread, List.getElem?_cons_succ] at h ⊢; exact spread_failed fs m i h
  | false :: fs, b :: m, 0, h => by simp at h
  | false :: fs, b :: m, i + 1, h => by
    simp only [spread, List.getElem?_cons_succ] at h ⊢; exact spread_failed fs m i h
  | false :: fs, [], 0, h => by simp at h
  | false :: fs, [], i + 1, h => by
    simp only [spread, List.getElem?_cons_succ] at h ⊢; exact spread_failed fs [] i h

/-- number of successful lines before line `i` -/
def rankOf (f : List Bool) (i : Nat) : Nat := ((f.take i).filter (fun b => !b)).length

/-- the `k`-th successful line carries the `k`-th entry of the mask -/
theorem spread_success : ∀ (f m : List Bool) (i : Nat), f[i]? = some false →
    (spread f m)[i]? = some (m.getD (rankOf f i) false)
  | [], _, i, h => by simp at h
  | true :: fs, m, 0, h => by simp at h
  | true :: fs, m, i + 1, h => by
    simp only [spread, List.getElem?_cons_succ] at h ⊢
    rw [spread_success fs m i h]; simp [rankOf]
  | false :: fs, b :: m, 0, _ => by simp [spread, rankOf]
  | false :: fs, b :: m, i + 1, h => by
    simp only [spread, List.getElem?_cons_succ] at h ⊢
    rw [spread_success fs m i h]; simp [rankOf]
  | false :: fs, [], 0, _ => by simp [spread, rankOf]
  | false :: fs, [], i + 1, h => by
    simp only [spread, List.getElem?_cons_succ] at h ⊢
    rw [spread_success fs [] i h]; simp [rankOf]

/-! ### the Pareto step does not raise on a table the writer produced -/

theorem objCellsOf_map (hdr : List Col) (f : Col → Option Val) :
    objCellsOf hdr (hdr.map f) = (hdr.filter isObjCol).map f := by
  induction hdr with
  | nil => rfl
  | cons c h ih =>
    unfold objCellsOf at ih ⊢
    simp only [List.map_cons, List.zip_cons_cons, List.filterMap_cons, List.filter_cons]
    cases hc : isObjCol c <;> simp [ih]

theorem objColsOf_isObj (n : Option Nat) : ∀ c ∈ objColsOf n, isObjCol c = true := by
  intro c hc
  cases n with
  | none => simp [objColsOf] at hc; subst hc; rfl
  | some m =>
    by_cases hm : m > 1
    · simp only [objColsOf, hm, if_true, List.mem_map] at hc
      obtain ⟨i, _, rfl⟩ := hc; rfl
    · simp [objColsOf, hm] at hc; subst hc; rfl

theorem header_objcols (n : Option Nat) (hj : JobRec)
    (h : (objectiveCells n hj.objective).map (·.1) = objColsOf n) :
    (headerOf n hj).filter isObjCol = objColsOf n := by
  rw [headerOf_eq, h]
  simp only [List.filter_append]
  have h1 : (hj.args.map (fun kv => Col.param kv.1)).filter isObjCol = [] := by
    rw [List.filter_eq_nil_iff]; intro a ha
    simp only [List.mem_map] at ha; obtain ⟨_, _, rfl⟩ := ha; simp [isObjCol]
  have h2 : (objColsOf n).filter isObjCol = objColsOf n := by
    rw [List.filter_eq_self]; exact objColsOf_isObj n
  have h3 : ([Col.jobId, Col.jobStatus]).filter isObjCol = [] := by simp [isObjCol]
  have h4 : ((visibleMeta hj.md).map (fun kv => Col.mdata kv.1)).filter isObjCol = [] := by
    rw [List.filter_eq_nil_iff]; intro a ha
    simp only [List.mem_map] at ha; obtain ⟨_, _, rfl⟩ := ha; simp [isObjCol]
  rw [h1, h2, h3, h4]; simp

theorem range_map_getElem? (l : List Val) :
    (List.range l.length).map (fun i => l[i]?) = l.map some := by
  apply List.ext_getElem
  · simp
  · intro i h1 h2
    simp only [List.length_map, List.length_range] at h1
    simp [h1]

theorem negVec_nums : ∀ (l : List Val), (∀ v ∈ l, ∃ q, v = Val.num q) → ∃ v, negVec (l.map some) = some v
  | [], _ => ⟨[], rfl⟩
  | x :: l, h => by
    obtain ⟨q, rfl⟩ := h x (by simp)
    obtain ⟨v, hv⟩ := negVec_nums l (fun y hy => h y (by simp [hy]))
    unfold negVec at hv ⊢
    exact ⟨-q :: v, by simp [optMap, negCell, hv]⟩

theorem optMap_negVec_filter :
    ∀ (cs : List (List (Option Val))), (∀ c ∈ cs, rowFailed c = true ∨ ∃ v, negVec c = some v) →
      ∃ vecs, optMap negVec (cs.filter (fun c => !rowFailed c)) = some vecs
  | [], _ => ⟨[], rfl⟩
  | c :: cs, h => by
    obtain ⟨vecs, hv⟩ := optMap_negVec_filter cs (fun c' hc' => h c' (by simp [hc']))
    by_cases hf : rowFailed c = true
    · exact ⟨vecs, by simp [List.filter_cons, hf, hv]⟩
    · rcases h c (by simp) with h1 | ⟨v, hv1⟩
      · exact absurd h1 hf
      · exact ⟨v :: vecs, by simp [List.filter_cons, hf, optMap, hv1, hv]⟩

/-- a job of a consistent multi-objective run: failed with a label starting with `F`, or a tuple
of `m` numbers -/
def ConsistentObj (m : Nat) (o : Val) : Prop :=
  (∃ s, o = Val.str s ∧ startsWithF s = true) ∨
  (∃ l, o = Val.list l ∧ l.length = m ∧ ∀ v ∈ l, ∃ q, v = Val.num q)

theorem cells_of_job (m : Nat) (hm : 2 ≤ m) (j : JobRec) (h : ConsistentObj m j.objective) :
    rowFailed ((objColsOf (some m)).map (specCell (some m) j)) = true ∨
    ∃ v, negVec ((objColsOf (some m)).map (specCell (some m) j)) = some v := by
  have hgt : m > 1 := by omega
  have hcols : objColsOf (some m) = (List.range m).map Col.objectiveI := by simp [objColsOf, hgt]
  rw [hcols, List.map_map]
  rcases h with ⟨s, hs, hF⟩ | ⟨l, hl, hlen, hnum⟩
  · left
    have : (List.range m).map (specCell (some m) j ∘ Col.objectiveI)
        = (List.range m).map (fun _ => some (Val.str s)) := by
      apply List.map_congr_left
      intro i hi
      simp only [List.mem_range] at hi
      simp [specCell, hs, hgt, hi]
    rw [this]
    obtain ⟨k, rfl⟩ : ∃ k, m = k + 1 := ⟨m - 1, by omega⟩
    simp [List.range_succ_eq_map, rowFailed, hF]
  · right
    have : (List.range m).map (specCell (some m) j ∘ Col.objectiveI) = l.map some := by
      rw [← hlen, ← range_map_getElem? l]
      apply List.map_congr_left
      intro i _
      simp [specCell, hl]
    rw [this]
    exact negVec_nums l hnum

/-- on the table the writer produced for a consistent multi-objective run the Pareto step does
not raise and flags one Boolean per line -/
theorem paretoFlags_total (J : List JobRec) (hj : JobRec) (m : Nat) (hm : 2 ≤ m)
    (hcols : (objectiveCells (some m) hj.objective).map (·.1) = objColsOf (some m))
    (hcons : ∀ j ∈ J, ConsistentObj m j.objective) (order : List Nat) :
    ∃ flags, paretoFlags (headerOf (some m) hj)
        (J.map (renderRow (headerOf (some m) hj) (some m))) order = .flags flags ∧
      flags.length = J.length := by
  have hgt : m > 1 := by omega
  have hobj := header_objcols (some m) hj hcols
  have hlen : ¬ ((headerOf (some m) hj).filter isObjCol).length ≤ 1 := by
    rw [hobj]; simp only [objColsOf, hgt, if_true, List.length_map, List.length_range]; omega
  have hcells : (J.map (renderRow (headerOf (some m) hj) (some m))).map (objCellsOf (headerOf (some m) hj))
      = J.map (fun j => (objColsOf (some m)).map (specCell (some m) j)) := by
    rw [List.map_map]
    apply List.map_congr_left
    intro j _
    have : renderRow (headerOf (some m) hj) (some m) j = (headerOf (some m) hj).map (specCell (some m) j) := by
      unfold renderRow
      apply List.map_congr_left
      intro c _; exact rget_resultOf_spec (some m) j c
    simp only [Function.comp_apply, this, objCellsOf_map, hobj]
  obtain ⟨vecs, hv⟩ := optMap_negVec_filter
    (J.map (fun j => (objColsOf (some m)).map (specCell (some m) j)))
    (by
      intro c hc
      simp only [List.mem_map] at hc
      obtain ⟨j, hjm, rfl⟩ := hc
      exact cells_of_job m hm j (hcons j hjm))
  refine ⟨spread ((J.map (fun j => (objColsOf (some m)).map (specCell (some m) j))).map rowFailed)
    (Pareto.ndsMask vecs order), ?_, ?_⟩
  · simp only [paretoFlags, hlen, if_false, hcells, hv]
  · simp [spread_length]

/-! ### a re-used evaluator: the arity is inherited (`num_objective = some m` from the start) -/

structure StartedM (m : Nat) (J : List JobRec) (st : DumpState) (t : Table) : Prop where
  started : st.started = true
  pend : st.pending = []
  num : st.numObjective = some m
  hdr : ∃ hj ∈ J, (firstSuccess J = some hj ∨ isStr hj.objective = true) ∧
        st.columns = some (headerOf (some m) hj) ∧
        t = ⟨some (headerOf (some m) hj), J.map (renderRow (headerOf (some m) hj) (some m))⟩

def InvM (m : Nat) (J : List JobRec) (st : DumpState) (t : Table) : Prop :=
  (st = ⟨false, none, some m, J⟩ ∧ t = Table.empty ∧ firstSuccess J = none) ∨ StartedM m J st t

theorem step_invM (m : Nat) (J b : List JobRec) (fl : Bool) (st : DumpState) (t : Table)
    (hinv : InvM m J st t) (hsup : AllSupported (J ++ b)) :
    InvM m (J ++ b) (dumpStep fl { st with pending := st.pending ++ b }).1
      (t.add (dumpStep fl { st with pending := st.pending ++ b }).2) := by
  rcases hinv with ⟨rfl, rfl, hns⟩ | hst
  · show InvM m (J ++ b) (dumpStep fl ⟨false, none, some m, J ++ b⟩).1
      (Table.empty.add (dumpStep fl ⟨false, none, some m, J ++ b⟩).2)
    by_cases hP : J ++ b = []
    · rw [hP, dumpStep_nil fl _ rfl, Table.add_nothing]
      exact Or.inl ⟨rfl, rfl, rfl⟩
    · rw [dumpStep_fresh fl _ rfl hP]
      simp only []
      have hn : inferNumObjective (some m) (J ++ b) = some m := rfl
      rw [hn]
      cases fl with
      | false =>
        rw [chooseColumns_noflush none _ _ hsup]
        cases hfs : firstSuccess (J ++ b) with
        | none => exact Or.inl ⟨rfl, by simp [Table.add_nothing], hfs⟩
        | some hj =>
          refine Or.inr ⟨rfl, rfl, rfl, hj, (firstSuccess_mem hfs).1, Or.inl hfs, rfl, ?_⟩
          simp [Table.add, Table.empty]
      | true =>
        rw [chooseColumns_flush]
        cases hP2 : J ++ b with
        | nil => exact absurd hP2 hP
        | cons hd tl =>
          simp only [List.head?_cons]
          rw [← hP2]
          have hmem : hd ∈ J ++ b := by rw [hP2]; simp
          have hdisj : firstSuccess (J ++ b) = some hd ∨ isStr hd.objective = true := by
            cases hstr : isStr hd.objective with
            | true => exact Or.inr rfl
            | false => left; rw [hP2]; simp [firstSuccess, List.find?, hstr]
          refine Or.inr ⟨rfl, rfl, rfl, hd, hmem, hdisj, rfl, ?_⟩
          simp [Table.add, Table.empty]
  · obtain ⟨hs, hp, hnum, hj, hjmem, hjdisj, hcols, ht⟩ := hst
    obtain ⟨s1, s2, s3, s4⟩ := st
    simp only at hs hp hnum hcols
    subst hs; subst hp; subst hnum; subst hcols
    simp only [List.nil_append]
    by_cases hb : b = []
    · subst hb
      rw [dumpStep_nil fl _ rfl, Table.add_nothing]
      simp only [List.append_nil]
      exact Or.inr ⟨rfl, rfl, rfl, hj, hjmem, hjdisj, rfl, ht⟩
    · rw [dumpStep_started fl _ (headerOf (some m) hj) rfl rfl hb]
      have hn : inferNumObjective (some m) b = some m := rfl
      simp only [hn]
      have hjdisj' : firstSuccess (J ++ b) = some hj ∨ isStr hj.objective = true := by
        rcases hjdisj with h | h
        · left; rw [firstSuccess_append, h]
        · exact Or.inr h
      refine Or.inr ⟨rfl, rfl, rfl, hj, by simp [hjmem], hjdisj', rfl, ?_⟩
      rw [ht]
      simp [Table.add]

theorem run_invM (m : Nat) :
    ∀ (ops : List (List JobRec × Bool)) (J : List JobRec) (st : DumpState) (t : Table),
      InvM m J st t → AllSupported (J ++ allJobs ops) →
      InvM m (J ++ allJobs ops) (runOps st t ops).1 (runOps st t ops).2
  | [], J, st, t, hinv, _ => by simpa [allJobs, runOps, runOpsWith] using hinv
  | (b, fl) :: rest, J, st, t, hinv, hsup => by
    rw [runOps_cons, allJobs_cons, ← List.append_assoc]
    rw [allJobs_cons, ← List.append_assoc] at hsup
    apply run_invM m rest (J ++ b) _ _ _ hsup
    apply step_invM m J b fl st t hinv
    intro j hj; exact hsup j (by simp only [List.mem_append] at hj ⊢; exact Or.inl hj)

/-- final flush of a `Search` whose evaluator inherited `num_objective = m` -/
theorem final_flushM (m : Nat) (ops : List (List JobRec × Bool)) (hsup : AllSupported (allJobs ops)) :
    (runOps ⟨false, none, some m, []⟩ Table.empty (ops ++ [([], true)])).1.pending = [] ∧
    ((allJobs ops = [] ∧
        (runOps ⟨false, none, some m, []⟩ Table.empty (ops ++ [([], true)])).2 = Table.empty) ∨
     ∃ hj ∈ allJobs ops,
       (firstSuccess (allJobs ops) = some hj ∨ isStr hj.objective = true) ∧
       (runOps ⟨false, none, some m, []⟩ Table.empty (ops ++ [([], true)])).2 =
         ⟨some (headerOf (some m) hj), (allJobs ops).map (renderRow (headerOf (some m) hj) (some m))⟩) := by
  have h0 : InvM m [] ⟨false, none, some m, []⟩ Table.empty := Or.inl ⟨rfl, rfl, rfl⟩
  have h1 := run_invM m ops [] _ _ h0 (by simpa using hsup)
  simp only [List.nil_append] at h1
  rw [runOps_append, runOps_cons]
  generalize (runOps ⟨false, none, some m, []⟩ Table.empty ops).1 = st at h1 ⊢
  generalize (runOps ⟨false, none, some m, []⟩ Table.empty ops).2 = t at h1 ⊢
  simp only [runOps, runOpsWith]
  have h2 := step_invM m (allJobs ops) [] true st t h1 (by simpa using hsup)
  simp only [List.append_nil] at h2 ⊢
  by_cases hJ : allJobs ops = []
  · rcases h1 with ⟨rfl, rfl, _⟩ | hst
    · rw [hJ, dumpStep_nil true _ rfl, Table.add_nothing]
      exact ⟨rfl, Or.inl ⟨rfl, rfl⟩⟩
    · obtain ⟨hj, hjm, _⟩ := hst.hdr
      rw [hJ] at hjm; simp at hjm
  · rcases h2 with ⟨heq, _, _⟩ | hst
    · exfalso
      rcases h1 with ⟨rfl, rfl, _⟩ | hst1
      · rw [dumpStep_fresh true _ rfl hJ, chooseColumns_flush] at heq
        cases hh : allJobs ops with
        | nil => exact hJ hh
        | cons a l => rw [hh] at heq; simp at heq
      · have := hst1.started
        obtain ⟨s1, s2, s3, s4⟩ := st
        simp only at this; subst this
        have hp := hst1.pend
        simp only at hp; subst hp
        obtain ⟨hj, _, _, hc, _⟩ := hst1.hdr
        simp only at hc; subst hc
        rw [dumpStep_nil true _ rfl] at heq
        simp at heq
    · obtain ⟨hj, hjm, hd, _, ht⟩ := hst.hdr
      exact ⟨hst.pend, Or.inr ⟨hj, hjm, hd, ht⟩⟩

end DH.Dump
