import Proofs.DirectionMinMax2

/-! Helper lemmas for C05, part 9: fits on a growing history, the choice checker, the bounds penalty. -/

namespace DH.Direction

open List (Forall₂)

theorem fitsFrom_getElem? {α : Type} (fit : List (Option Vec) → α) :
    ∀ (bs : List (List (Option Vec))) (told : List (Option Vec)) (k : Nat), k < bs.length →
      (fitsFrom fit told bs)[k]? = some (fit (told ++ (bs.take (k + 1)).flatten))
  | [], _, _, h => by simp at h
  | b :: bs, told, 0, _ => by simp [fitsFrom]
  | b :: bs, told, k + 1, h => by
    have := fitsFrom_getElem? fit bs (told ++ b) k (by simpa using h)
    simp only [fitsFrom, List.getElem?_cons_succ, this, List.take_succ_cons, List.flatten_cons,
      List.append_assoc]

theorem fitsFrom_length {α : Type} (fit : List (Option Vec) → α) :
    ∀ (bs : List (List (Option Vec))) (told : List (Option Vec)), (fitsFrom fit told bs).length = bs.length
  | [], _ => rfl
  | b :: bs, told => by simp [fitsFrom, fitsFrom_length fit bs]

/-! ### `checkChoice` decides its specification -/

/-- the proposal `chosen` is a candidate, was evaluated successfully, and no successfully
evaluated candidate has a larger score -/
def ChoiceSpec (score : Vec) (succ : List Bool) (cands : List Nat) (chosen : Nat) : Prop :=
  chosen ∈ cands ∧ succ[chosen]? = some true ∧
  ∃ s, score[chosen]? = some s ∧
    ∀ c ∈ cands, succ[c]? = some true → ∃ s', score[c]? = some s' ∧ s' ≤ s

theorem isSucc_iff (succ : List Bool) (c : Nat) : isSucc succ c = true ↔ succ[c]? = some true := by
  unfold isSucc
  cases h : succ[c]? with
  | none => simp
  | some b => cases b <;> simp

theorem checkChoice_iff (score : Vec) (succ : List Bool) (cands : List Nat) (chosen : Nat) :
    checkChoice score succ cands chosen = true ↔ ChoiceSpec score succ cands chosen := by
  unfold checkChoice ChoiceSpec
  cases hs : score[chosen]? with
  | none => simp
  | some s =>
    simp only [Bool.and_eq_true, List.contains_iff_mem, isSucc_iff, List.all_eq_true, Bool.or_eq_true,
      Bool.not_eq_true', Option.some.injEq, exists_eq_left']
    constructor
    · rintro ⟨⟨h1, h2⟩, h3⟩
      refine ⟨h1, h2, ?_⟩
      intro c hc hsc
      have := h3 c hc
      rcases this with h | h
      · have := (isSucc_iff succ c).2 hsc
        rw [this] at h; simp at h
      · cases hsc' : score[c]? with
        | none => simp [hsc'] at h
        | some s' => simp only [hsc', decide_eq_true_eq] at h; exact ⟨s', rfl, h⟩
    · rintro ⟨h1, h2, h3⟩
      refine ⟨⟨h1, h2⟩, ?_⟩
      intro c hc
      by_cases hsc : succ[c]? = some true
      · right
        obtain ⟨s', hs', hle⟩ := h3 c hc hsc
        simp [hs', hle]
      · left
        cases hb : isSucc succ c with
        | false => rfl
        | true => exact absurd ((isSucc_iff succ c).1 hb) hsc

/-! ### the bounds penalty keeps rows ordered -/

theorem rmax0_mono {a b : Rat} (h : a ≤ b) : rmax a 0 ≤ rmax b 0 := by
  unfold rmax; split <;> split <;> linarith

theorem penaltySum_mono {r r' : Vec} (h : Forall₂ (· ≤ ·) r r') (ub : Vec) :
    sumL (List.zipWith (fun y b => 2 * rmax (y - b) 0) r ub)
      ≤ sumL (List.zipWith (fun y b => 2 * rmax (y - b) 0) r' ub) := by
  induction h generalizing ub with
  | nil => simp [sumL]
  | cons hab _ ih =>
    cases ub with
    | nil => simp [sumL]
    | cons u us =>
      simp only [List.zipWith_cons_cons, sumL]
      have := ih us
      have h1 : rmax (_ - u) 0 ≤ rmax (_ - u) 0 := rmax0_mono (sub_le_sub_right hab u)
      linarith

theorem map_add_mono {r r' : Vec} (h : Forall₂ (· ≤ ·) r r') {p p' : Rat} (hp : p ≤ p') :
    Forall₂ (· ≤ ·) (r.map (· + p)) (r'.map (· + p')) := by
  induction h with
  | nil => exact Forall₂.nil
  | cons hab _ ih => exact Forall₂.cons (by simp only; linarith) ih

/-- a row that is at least as good in every (scaled) objective stays so after the penalty -/
theorem penalise_mono (ub : Vec) {r r' : Vec} (h : Forall₂ (· ≤ ·) r r') :
    Forall₂ (· ≤ ·) (penalise ub r) (penalise ub r') := by
  unfold penalise
  exact map_add_mono h (penaltySum_mono h ub)

end DH.Direction
