import Model.Evaluator

/-! Helper lemmas for C01 (core Lean only). -/

namespace DH.Evaluator

variable {C O : Type}

/-! ### generic facts about runs -/

theorem runWith_invariant (st : Ev C O → Op C → Ev C O × Out C O) (P : Ev C O → Prop)
    (hstep : ∀ s op, P s → P (st s op).1) :
    ∀ (ops : List (Op C)) (s : Ev C O), P s → P (runWith st s ops).1
  | [], s, h => h
  | op :: ops, s, h => by
    simp only [runWith]
    exact runWith_invariant st P hstep ops _ (hstep s op h)

/-! ### small list facts -/

theorem map_id_updJob (jobs : List (JobRec C O)) (id : Nat) (g : JobRec C O → JobRec C O)
    (hg : ∀ j, (g j).id = j.id) : (updJob jobs id g).map (·.id) = jobs.map (·.id) := by
  simp only [updJob, List.map_map]
  apply List.map_congr_left
  intro j _
  simp only [Function.comp]
  split <;> simp [hg]

theorem map_cfg_updJob (jobs : List (JobRec C O)) (id : Nat) (g : JobRec C O → JobRec C O)
    (hg : ∀ j, (g j).cfg = j.cfg) : (updJob jobs id g).map (·.cfg) = jobs.map (·.cfg) := by
  simp only [updJob, List.map_map]
  apply List.map_congr_left
  intro j _
  simp only [Function.comp]
  split <;> simp [hg]

theorem map_id_markStarted (jobs : List (JobRec C O)) (st : List Nat) :
    (markStarted jobs st).map (·.id) = jobs.map (·.id) := by
  simp only [markStarted, List.map_map]
  apply List.map_congr_left
  intro j _
  simp only [Function.comp]
  split <;> rfl

theorem map_cfg_markStarted (jobs : List (JobRec C O)) (st : List Nat) :
    (markStarted jobs st).map (·.cfg) = jobs.map (·.cfg) := by
  simp only [markStarted, List.map_map]
  apply List.map_congr_left
  intro j _
  simp only [Function.comp]
  split <;> rfl

theorem findJob_some {jobs : List (JobRec C O)} {id : Nat} {j : JobRec C O}
    (h : findJob jobs id = some j) : j ∈ jobs ∧ j.id = id := by
  unfold findJob at h
  refine ⟨List.mem_of_find?_eq_some h, ?_⟩
  have := List.find?_some h
  simpa using this

theorem findJob_of_mem_ids {jobs : List (JobRec C O)} {id : Nat} (h : id ∈ jobs.map (·.id)) :
    ∃ j, findJob jobs id = some j := by
  unfold findJob
  rcases List.mem_map.1 h with ⟨j, hj, rfl⟩
  cases hf : jobs.find? (fun x => x.id == j.id) with
  | some x => exact ⟨x, rfl⟩
  | none =>
    have := List.find?_eq_none.1 hf j hj
    simp at this

/-! ### what one processed task does -/

theorem processOne_ok {p : Params C O} {via : Via} {s s' : Ev C O} {id : Nat} {j' : JobRec C O}
    (h : processOne p via s id = .ok (s', j')) :
    ∃ j, findJob s.jobs id = some j ∧ s.running.any (fun t => t.id == id) = true ∧
      s.submitted.contains id = true ∧
      j' = { j with out := some (p.f j.cfg), status := if j.status = .running then .done else j.status } ∧
      s' = { s with
              jobs := updJob s.jobs id (fun _ => j')
              jobsDone := s.jobsDone ++ [id]
              running := s.running.eraseP (fun t => t.id == id)
              gathered := s.gathered ++ [id]
              submitted := s.submitted.erase id
              delivered := s.delivered ++ [(id, via)] } := by
  unfold processOne at h
  split at h
  · simp at h
  · rename_i hc
    simp only [Bool.or_eq_true, Bool.not_eq_true', not_or, Bool.not_eq_false] at hc
    split at h
    · simp at h
    · rename_i j hj
      simp only [Except.ok.injEq, Prod.mk.injEq] at h
      exact ⟨j, hj, hc.1, hc.2, h.2.symm, by rw [← h.1, h.2]⟩

/-- `processAll` as a relation: the list of tasks was processed one after the other -/
inductive Processed (p : Params C O) (via : Via) : Ev C O → List Nat → Ev C O → List (JobRec C O) → Prop
  | nil (s : Ev C O) : Processed p via s [] s []
  | cons {s s1 s2 : Ev C O} {id : Nat} {rest : List Nat} {j : JobRec C O} {js : List (JobRec C O)} :
      processOne p via s id = .ok (s1, j) → Processed p via s1 rest s2 js →
      Processed p via s (id :: rest) s2 (j :: js)

theorem processAll_ok {p : Params C O} {via : Via} :
    ∀ {l : List Nat} {s s' : Ev C O} {js : List (JobRec C O)},
      processAll p via s l = (s', .ok js) → Processed p via s l s' js
  | [], s, s', js, h => by
    simp only [processAll, Prod.mk.injEq, Except.ok.injEq] at h
    obtain ⟨rfl, rfl⟩ := h
    exact .nil s
  | id :: rest, s, s', js, h => by
    simp only [processAll] at h
    split at h
    · simp at h
    · rename_i s1 j h1
      split at h
      · rename_i s2 js2 h2
        simp only [Prod.mk.injEq, Except.ok.injEq] at h
        obtain ⟨rfl, rfl⟩ := h
        exact .cons h1 (processAll_ok h2)
      · simp at h

theorem processAll_invariant {p : Params C O} {via : Via} (P : Ev C O → Prop)
    (h1 : ∀ s id s' j, processOne p via s id = .ok (s', j) → P s → P s') :
    ∀ (l : List Nat) (s : Ev C O), P s → P (processAll p via s l).1
  | [], s, h => h
  | id :: rest, s, h => by
    simp only [processAll]
    split
    · exact h
    · rename_i s1 j hj
      have := processAll_invariant P h1 rest s1 (h1 s id s1 j hj h)
      split <;> rename_i heq <;> rw [heq] at this <;> exact this

theorem foldl_createTask_invariant (P : Ev C O → Prop) (h1 : ∀ s c, P s → P (createTask s c)) :
    ∀ (cfgs : List C) (s : Ev C O), P s → P (cfgs.foldl createTask s)
  | [], s, h => h
  | c :: cs, s, h => foldl_createTask_invariant P h1 cs _ (h1 s c h)

/-! ### facts that hold after ANY sequence of calls, whatever the environment reports -/

/-- the code's own `job_id_gathered` is the delivery history; every delivered job is either still
in `jobs_done` or was written by a dump — once -/
structure Hist (s : Ev C O) : Prop where
  gath : s.gathered = s.delivered.map (·.1)
  dumpOnce : (s.dumped ++ s.jobsDone).Perm (s.delivered.map (·.1))

theorem Hist.init : Hist (init : Ev C O) := ⟨rfl, by simp [DH.Evaluator.init]⟩

theorem Hist.processOne {p : Params C O} {via : Via} {s s' : Ev C O} {id : Nat} {j : JobRec C O}
    (h : processOne p via s id = .ok (s', j)) (hs : Hist s) : Hist s' := by
  obtain ⟨j0, _, _, _, _, rfl⟩ := processOne_ok h
  refine ⟨by simp [hs.gath], ?_⟩
  simp only [List.map_append, List.map_cons, List.map_nil, ← List.append_assoc]
  exact List.Perm.append_right _ hs.dumpOnce

theorem Hist.cancelActive (p : Params C O) {s : Ev C O} (hs : Hist s) : Hist (cancelActive p s) := by
  refine ⟨by simp [DH.Evaluator.cancelActive, hs.gath, Function.comp_def], ?_⟩
  simp only [DH.Evaluator.cancelActive, List.map_append, List.map_map, Function.comp_def,
    ← List.append_assoc]
  exact List.Perm.append_right _ hs.dumpOnce

theorem Hist.congr {s s' : Ev C O} (hs : Hist s) (h1 : s'.gathered = s.gathered)
    (h2 : s'.delivered = s.delivered) (h3 : s'.dumped = s.dumped) (h4 : s'.jobsDone = s.jobsDone) :
    Hist s' := ⟨by rw [h1, h2]; exact hs.gath, by rw [h2, h3, h4]; exact hs.dumpOnce⟩

/-- `gather` either leaves the state alone or is `processAll` on the awaited tasks -/
theorem gather_shape (p : Params C O) (s : Ev C O) (all : Bool) (k : Nat) (st : List Nat)
    (ws : List (List Nat)) :
    (∃ o, gather p s all k st ws = (s, o)) ∨
    (∃ done, (if all then s.running.length else k) ≠ 0 ∧ s.loopOpen = true ∧
      awaitN s (if all then s.running.length else k) ws = .ok done ∧
      ((∃ js, processAll p .gather { s with jobs := markStarted s.jobs st } done =
            ((gather p s all k st ws).1, .ok js) ∧ (gather p s all k st ws).2 = .jobs js) ∨
       (∃ e, processAll p .gather { s with jobs := markStarted s.jobs st } done =
            ((gather p s all k st ws).1, .error e) ∧ (gather p s all k st ws).2 = .error e))) := by
  unfold gather
  generalize ({ s with jobs := markStarted s.jobs st } : Ev C O) = s1
  by_cases h0 : (if all then s.running.length else k) = 0
  · left; exact ⟨.jobs [], by simp only [h0, if_true]⟩
  · by_cases hl : s.loopOpen = true
    · cases ha : awaitN s (if all then s.running.length else k) ws with
      | error e => left; exact ⟨.error e, by simp only [h0, hl, ha, if_false, Bool.not_true, Bool.false_eq_true]⟩
      | ok done =>
        right
        refine ⟨done, h0, hl, rfl, ?_⟩
        simp only [h0, hl, ha, if_false, Bool.not_true, Bool.false_eq_true]
        cases hp : processAll p .gather s1 done with
        | mk s' r =>
          cases r with
          | ok js => left; exact ⟨js, rfl, rfl⟩
          | error e => right; exact ⟨e, rfl, rfl⟩
    · left
      have : s.loopOpen = false := by simpa using hl
      exact ⟨.error .noLoop, by simp only [h0, this, if_false, Bool.not_false, if_true]⟩

/-- `close` either leaves the state alone, only closes the loop, or processes the finished tasks
and cancels the rest -/
theorem close_shape (fixed : Bool) (p : Params C O) (s : Ev C O) (fin : List Nat) :
    (∃ o, closeWith fixed p s fin = (s, o)) ∨
    (s.loopOpen = true ∧ s.running = [] ∧ closeWith fixed p s fin = ({ s with loopOpen := false }, .unit)) ∨
    (s.loopOpen = true ∧ s.running ≠ [] ∧ staleTask s = false ∧
      ((∃ s1 e, processAll p .close s fin = (s1, .error e) ∧ closeWith fixed p s fin = (s1, .error e)) ∨
       (∃ s1 js, processAll p .close s fin = (s1, .ok js) ∧
          closeWith fixed p s fin =
            ({ (if fixed then { cancelActive p s1 with running := [], submitted := [] } else cancelActive p s1)
                with loopOpen := false }, .unit)))) := by
  unfold closeWith
  by_cases hl : s.loopOpen = true
  · by_cases hr : s.running = []
    · right; left
      exact ⟨hl, hr, by simp [hl, hr]⟩
    · have hr' : s.running.isEmpty = false := by simpa using hr
      by_cases hst : staleTask s = true
      · left; exact ⟨.error .loopClosed, by simp only [hl, hr', hst, Bool.not_true, Bool.false_eq_true, if_false, if_true]⟩
      · have hst' : staleTask s = false := by simpa using hst
        right; right
        refine ⟨hl, hr, hst', ?_⟩
        simp only [hl, hr', hst', Bool.not_true, Bool.false_eq_true, if_false]
        cases hp : processAll p .close s fin with
        | mk s1 r =>
          cases r with
          | ok js => right; exact ⟨s1, js, rfl, rfl⟩
          | error e => left; exact ⟨s1, e, rfl, rfl⟩
  · left
    have : s.loopOpen = false := by simpa using hl
    exact ⟨.unit, by simp only [this, Bool.not_false, if_true]⟩

/-- `dump` writes nothing and keeps `jobs_done`, or writes all of `jobs_done` and empties it -/
theorem dump_shape (p : Params C O) (s : Ev C O) (fl : Bool) :
    dump p s fl = (s, .rows []) ∨
    (s.jobsDone ≠ [] ∧
      dump p s fl =
        ({ s with startDumping := true, columns := true, jobsDone := [], dumped := s.dumped ++ s.jobsDone },
          .rows (lookupAll s.jobs s.jobsDone))) := by
  unfold dump
  by_cases he : s.jobsDone = []
  · left; simp [he]
  · have he' : s.jobsDone.isEmpty = false := by simpa using he
    simp only [he', Bool.false_eq_true, if_false]
    split
    · right; exact ⟨he, rfl⟩
    · left; rfl

theorem hist_step (fixed : Bool) (p : Params C O) (s : Ev C O) (op : Op C) (hs : Hist s) :
    Hist (if fixed then step p s op else stepPre p s op).1 := by
  have hsub : ∀ cfgs, Hist (submit s cfgs) := by
    intro cfgs
    have hse : Hist (setEventLoop s) := by
      unfold setEventLoop; split
      · exact hs
      · exact hs.congr rfl rfl rfl rfl
    exact foldl_createTask_invariant Hist (fun s c h => h.congr rfl rfl rfl rfl) cfgs _ hse
  have hgat : ∀ all k st ws, Hist (gather p s all k st ws).1 := by
    intro all k st ws
    rcases gather_shape p s all k st ws with ⟨o, h⟩ | ⟨done, _, _, _, h⟩
    · rw [h]; exact hs
    · have := processAll_invariant (p := p) (via := .gather) Hist (fun _ _ _ _ h => Hist.processOne h) done
        { s with jobs := markStarted s.jobs st } (hs.congr rfl rfl rfl rfl)
      rcases h with ⟨js, h, _⟩ | ⟨e, h, _⟩ <;> rw [h] at this <;> exact this
  have hclo : ∀ fx fin, Hist (closeWith fx p s fin).1 := by
    intro fx fin
    rcases close_shape fx p s fin with ⟨o, h⟩ | ⟨_, _, h⟩ | ⟨_, _, _, h⟩
    · rw [h]; exact hs
    · rw [h]; exact hs.congr rfl rfl rfl rfl
    · have := processAll_invariant (p := p) (via := .close) Hist (fun _ _ _ _ h => Hist.processOne h) fin s hs
      rcases h with ⟨s1, e, h1, h2⟩ | ⟨s1, js, h1, h2⟩ <;> rw [h1] at this <;> rw [h2]
      · exact this
      · have hc := Hist.cancelActive p this
        cases fx <;> exact hc.congr rfl rfl rfl rfl
  have hdump : ∀ fl, Hist (DH.Evaluator.dump p s fl).1 := by
    intro fl
    rcases dump_shape p s fl with h | ⟨_, h⟩ <;> rw [h]
    · exact hs
    · refine ⟨hs.gath, ?_⟩
      simpa using hs.dumpOnce
  cases fixed <;> cases op <;> simp only [DH.Evaluator.step, stepPre, close, if_true, if_false, Bool.false_eq_true] <;>
    first | exact hsub _ | exact hgat _ _ _ _ | exact hclo _ _ | exact hdump _

end DH.Evaluator
