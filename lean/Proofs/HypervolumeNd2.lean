import Proofs.HypervolumeNd

/-! The nested dimension sweep: invariants of the mutable state (cached `area`/`volume`,
`bounds`, `ignore` flags) and the specification every recursion level satisfies. -/

namespace DH.Hypervolume
open DH.Pareto (Vec wdVec)

/-- the fixed data of one run of `compute`: shifted points, number of objectives, sweep lists -/
structure Run where
  rel : List Vec
  m : Nat
  orders : List (List Nat)

/-- rectangular, weakly inside the reference box (and above the sentinel), lists as built by
`preProcess`; `cls`: a coordinate may EQUAL the reference's only in the objectives `0, 1, 2` and in
the last one (no restriction at all for `m ≤ 4` objectives) -/
structure Run.Base (R : Run) : Prop where
  rect : Rect R.m R.rel
  inter : ∀ i k, i < R.rel.length → k < R.m → negInf < zc R.rel k i ∧ zc R.rel k i ≤ 0
  ord : OrdersOK R.rel R.m R.orders

/-- `Run.Base` (rectangular, weakly inside the box, sweep lists as built by `preProcess`) plus the class
restriction `cls` of the first version of the level invariant (see `Run.OK5` in `HypervolumeNd5a.lean`
for the larger class) -/
structure Run.OK (R : Run) : Prop extends Run.Base R where
  cls : ∀ i k, i < R.rel.length → k < R.m → zc R.rel k i = 0 → k ≤ 2 ∨ k + 1 = R.m

/-- list `k` of the multi-list restricted to the linked ids `S` -/
def Run.lk (R : Run) (k : Nat) (S : List Nat) : List Nat := linked R.orders k S

structure WF (R : Run) (st : St) : Prop where
  len : st.nodes.length = R.rel.length
  blen : st.bounds.length = R.m
  cargo : ∀ i, (st.node i).cargo = R.rel.getD i []
  alen : ∀ i, i < R.rel.length → (st.node i).area.length = R.m ∧ (st.node i).volume.length = R.m
  bnd : ∀ k, st.bounds.getD k 0 ≤ 0

/-- **cache invariant of level `k`**: every node of list `k` strictly below `bounds[k]` holds the
exact cross-section volume of its prefix and the exact accumulated `hvol` -/
def Cache (R : Run) (k : Nat) (S : List Nat) (st : St) : Prop :=
  ∀ P x post, R.lk k S = P ++ x :: post → zc R.rel k x < st.bounds.getD k 0 →
    (st.node x).area.getD k 0 = Vk R.rel (k - 1) (P ++ [x]) ∧
    (st.node x).volume.getD k 0 = volSum R.rel k (P ++ [x])

/-- `r` weakly dominates `x` in the coordinates `< e` -/
def Dom (R : Run) (e r x : Nat) : Prop := wdVec (rvec R.rel (e - 1) r) (rvec R.rel (e - 1) x) = true

/-- `x` has a coordinate `< e` on the reference boundary (it spans no volume in those coordinates) -/
def ZeroB (R : Run) (e x : Nat) : Prop := ∃ i, i < e ∧ zc R.rel i x = 0

/-- **flag invariant**: a set `ignore` flag `e` is justified by a linked node in front of `x` in list
`e` that dominates `x` in the coordinates `< e`, or by a coordinate `< e` on the reference boundary -/
def Just (R : Run) (S : List Nat) (st : St) (x : Nat) : Prop :=
  (st.node x).ignore = 0 ∨
  ((st.node x).ignore < R.m ∧ ((∃ r ∈ S, r ≠ x ∧
    Before (R.orders.getD (st.node x).ignore []) r x ∧ Dom R (st.node x).ignore r x) ∨
    ZeroB R (st.node x).ignore x))

def FIge (R : Run) (lo : Nat) (S : List Nat) (st : St) : Prop :=
  ∀ x ∈ S, lo ≤ (st.node x).ignore → Just R S st x

def AllFI (R : Run) (S : List Nat) (st : St) : Prop := ∀ x ∈ S, Just R S st x

/-- what a call of level `d` may change in a node -/
structure NodeFrame (d : Nat) (n n' : Node) : Prop where
  cargo : n'.cargo = n.cargo
  alen : n'.area.length = n.area.length
  vlen : n'.volume.length = n.volume.length
  hi : ∀ j, d < j → n'.area.getD j 0 = n.area.getD j 0 ∧ n'.volume.getD j 0 = n.volume.getD j 0
  ign_hi : d < n.ignore → n'.ignore = n.ignore
  ign_lo : n.ignore ≤ d → n'.ignore ≤ d

theorem NodeFrame.refl (d : Nat) (n : Node) : NodeFrame d n n :=
  ⟨rfl, rfl, rfl, fun _ _ => ⟨rfl, rfl⟩, fun _ => rfl, fun h => h⟩

theorem NodeFrame.trans {d : Nat} {a b c : Node} (h1 : NodeFrame d a b) (h2 : NodeFrame d b c) :
    NodeFrame d a c := by
  refine ⟨h2.cargo.trans h1.cargo, h2.alen.trans h1.alen, h2.vlen.trans h1.vlen,
    fun j hj => ⟨(h2.hi j hj).1.trans (h1.hi j hj).1, (h2.hi j hj).2.trans (h1.hi j hj).2⟩, ?_, ?_⟩
  · intro h
    have hb := h1.ign_hi h
    rw [h2.ign_hi (by rw [hb]; exact h), hb]
  · intro h
    exact h2.ign_lo (h1.ign_lo h)

theorem NodeFrame.mono {d d' : Nat} (hdd : d ≤ d') {a b : Node} (h : NodeFrame d a b) : NodeFrame d' a b := by
  refine ⟨h.cargo, h.alen, h.vlen, fun j hj => h.hi j (by omega), fun hi => h.ign_hi (by omega), ?_⟩
  intro hlo
  by_cases hc : a.ignore ≤ d
  · exact le_trans (h.ign_lo hc) hdd
  · rw [h.ign_hi (by omega)]; exact hlo

/-- what a call of level `d` on the linked ids `S` may change in the state -/
structure Frame (d : Nat) (S : List Nat) (st st' : St) : Prop where
  len : st'.nodes.length = st.nodes.length
  blen : st'.bounds.length = st.bounds.length
  out : ∀ x, x ∉ S → st'.node x = st.node x
  node : ∀ x, NodeFrame d (st.node x) (st'.node x)
  bhi : ∀ j, d < j → st'.bounds.getD j 0 = st.bounds.getD j 0

theorem Frame.refl (d : Nat) (S : List Nat) (st : St) : Frame d S st st :=
  ⟨rfl, rfl, fun _ _ => rfl, fun _ => NodeFrame.refl _ _, fun _ _ => rfl⟩

theorem Frame.trans {d : Nat} {S : List Nat} {a b c : St} (h1 : Frame d S a b) (h2 : Frame d S b c) :
    Frame d S a c :=
  ⟨h2.len.trans h1.len, h2.blen.trans h1.blen, fun x hx => (h2.out x hx).trans (h1.out x hx),
   fun x => (h1.node x).trans (h2.node x), fun j hj => (h2.bhi j hj).trans (h1.bhi j hj)⟩

theorem Frame.mono {d d' : Nat} {S S' : List Nat} {a b : St} (hdd : d ≤ d') (hS : ∀ x ∈ S, x ∈ S')
    (h : Frame d S a b) : Frame d' S' a b :=
  ⟨h.len, h.blen, fun x hx => h.out x (fun hxS => hx (hS x hxS)), fun x => (h.node x).mono hdd,
   fun j hj => h.bhi j (by omega)⟩

/-! ### the restricted sweep lists -/

section lk
variable {R : Run} (hR : R.Base)
include hR

theorem mem_lk {k : Nat} (hk : k < R.m) {S : List Nat} (hS : ∀ i ∈ S, i < R.rel.length) {x : Nat} :
    x ∈ R.lk k S ↔ x ∈ S := by
  simp only [Run.lk, linked, List.mem_filter, List.contains_iff_mem]
  constructor
  · exact fun h => h.2
  · intro h
    exact ⟨(hR.ord.perm k hk).mem_iff.mpr (List.mem_range.mpr (hS x h)), h⟩

theorem nodup_lk {k : Nat} (hk : k < R.m) (S : List Nat) : (R.lk k S).Nodup :=
  List.Nodup.sublist List.filter_sublist ((hR.ord.perm k hk).nodup_iff.mpr List.nodup_range)

theorem sorted_lk {k : Nat} (hk : k < R.m) (S : List Nat) :
    (R.lk k S).Pairwise (fun i j => zc R.rel k i ≤ zc R.rel k j) :=
  List.Pairwise.sublist List.filter_sublist (hR.ord.sorted k hk)

omit hR in
theorem lk_congr {k : Nat} {S S' : List Nat} (h : ∀ x, x ∈ S ↔ x ∈ S') : R.lk k S = R.lk k S' := by
  simp only [Run.lk, linked]
  apply List.filter_congr
  intro x _
  have : S.contains x = S'.contains x := by
    rw [Bool.eq_iff_iff, List.contains_iff_mem, List.contains_iff_mem]; exact h x
  exact this

theorem lk_perm {k : Nat} (hk : k < R.m) {S : List Nat} (hS : ∀ i ∈ S, i < R.rel.length) (hnd : S.Nodup) :
    (R.lk k S).Perm S :=
  (List.perm_ext_iff_of_nodup (nodup_lk hR hk S) hnd).mpr (fun _ => mem_lk hR hk hS)

end lk

/-! ### transfer lemmas for the invariants -/

theorem Just.mono {R : Run} {S S' : List Nat} {st : St} {x : Nat} (hS : ∀ y ∈ S, y ∈ S')
    (h : Just R S st x) : Just R S' st x := by
  rcases h with h | ⟨h1, ⟨r, hr, h2⟩ | hz⟩
  · exact Or.inl h
  · exact Or.inr ⟨h1, Or.inl ⟨r, hS r hr, h2⟩⟩
  · exact Or.inr ⟨h1, Or.inr hz⟩

theorem Just.congr {R : Run} {S : List Nat} {st st' : St} {x : Nat}
    (hi : (st'.node x).ignore = (st.node x).ignore) (h : Just R S st x) : Just R S st' x := by
  unfold Just at *
  rw [hi]; exact h

theorem Cache.congr {R : Run} {k : Nat} {S : List Nat} {st st' : St} (h : Cache R k S st)
    (hn : ∀ x, (st'.node x).area.getD k 0 = (st.node x).area.getD k 0 ∧
      (st'.node x).volume.getD k 0 = (st.node x).volume.getD k 0)
    (hb : st'.bounds.getD k 0 ≤ st.bounds.getD k 0) : Cache R k S st' := by
  intro P x post hl hz
  rw [(hn x).1, (hn x).2]
  exact h P x post hl (lt_of_lt_of_le hz hb)

/-- **cache monotonicity**: if the linked set changes only at nodes whose coordinate `k` is not
below the new `bounds[k]`, the cache of level `k` stays valid -/
theorem Cache.restrict {R : Run} (hR : R.Base) {k : Nat} (hk : k < R.m) {S S' : List Nat} {st st' : St}
    (h : Cache R k S st)
    (hagree : ∀ y, zc R.rel k y < st'.bounds.getD k 0 → (y ∈ S ↔ y ∈ S'))
    (hn : ∀ x, (st'.node x).area.getD k 0 = (st.node x).area.getD k 0 ∧
      (st'.node x).volume.getD k 0 = (st.node x).volume.getD k 0)
    (hb : st'.bounds.getD k 0 ≤ st.bounds.getD k 0) : Cache R k S' st' := by
  intro P x post hl hz
  rw [(hn x).1, (hn x).2]
  have hxl : x ∈ R.lk k S' := by rw [hl]; simp
  have hxO : x ∈ R.orders.getD k [] := (List.mem_filter.mp hxl).1
  have hxS' : S'.contains x = true := (List.mem_filter.mp hxl).2
  obtain ⟨O1, O2, hO⟩ := List.append_of_mem hxO
  have hndO : (R.orders.getD k []).Nodup := (hR.ord.perm k hk).nodup_iff.mpr List.nodup_range
  -- the prefix of list k in front of x
  have hsplit' : R.lk k S' = O1.filter (fun y => S'.contains y) ++ x :: O2.filter (fun y => S'.contains y) := by
    simp only [Run.lk, linked, hO, List.filter_append, List.filter_cons, hxS', if_true]
  have hP := (nodup_split_unique (nodup_lk hR hk S') hl hsplit').1
  have hsorted := hR.ord.sorted k hk
  rw [hO, List.pairwise_append] at hsorted
  have hO1 : ∀ y ∈ O1, zc R.rel k y < st'.bounds.getD k 0 := by
    intro y hy
    exact lt_of_le_of_lt (hsorted.2.2 y hy x (by simp)) hz
  have hfilt : O1.filter (fun y => S.contains y) = O1.filter (fun y => S'.contains y) := by
    apply List.filter_congr
    intro y hy
    rw [Bool.eq_iff_iff, List.contains_iff_mem, List.contains_iff_mem]
    exact hagree y (hO1 y hy)
  have hxS : S.contains x = true := by
    rw [List.contains_iff_mem]
    exact (hagree x hz).mpr (List.contains_iff_mem.mp hxS')
  have hsplit : R.lk k S = P ++ x :: O2.filter (fun y => S.contains y) := by
    simp only [Run.lk, linked, hO, List.filter_append, List.filter_cons, hxS, if_true]
    rw [hfilt, ← hP]
  exact h P x _ hsplit (lt_of_lt_of_le hz hb)

/-! ### `resetIgnore` -/

/-- only `ignore` flags below `d` are cleared, nothing else changes -/
structure ResetRel (d : Nat) (st st' : St) : Prop where
  len : st'.nodes.length = st.nodes.length
  bounds : st'.bounds = st.bounds
  node : ∀ x, (st'.node x).cargo = (st.node x).cargo ∧ (st'.node x).area = (st.node x).area ∧
    (st'.node x).volume = (st.node x).volume ∧
    ((st'.node x).ignore = (st.node x).ignore ∨ ((st'.node x).ignore = 0 ∧ (st.node x).ignore < d))

theorem ResetRel.refl (d : Nat) (st : St) : ResetRel d st st :=
  ⟨rfl, rfl, fun _ => ⟨rfl, rfl, rfl, Or.inl rfl⟩⟩

theorem ResetRel.trans {d : Nat} {a b c : St} (h1 : ResetRel d a b) (h2 : ResetRel d b c) : ResetRel d a c := by
  refine ⟨h2.len.trans h1.len, h2.bounds.trans h1.bounds, fun x => ?_⟩
  obtain ⟨c1, a1, v1, i1⟩ := h1.node x
  obtain ⟨c2, a2, v2, i2⟩ := h2.node x
  refine ⟨c2.trans c1, a2.trans a1, v2.trans v1, ?_⟩
  rcases i2 with i2 | ⟨i2, i2'⟩ <;> rcases i1 with i1 | ⟨i1, i1'⟩
  · exact Or.inl (i2.trans i1)
  · exact Or.inr ⟨i2.trans i1, i1'⟩
  · exact Or.inr ⟨i2, by rw [← i1]; exact i2'⟩
  · exact Or.inr ⟨i2, i1'⟩

def resetStep (d : Nat) (st : St) (i : Nat) : St :=
  if (st.node i).ignore < d then st.setNode i { st.node i with ignore := 0 } else st

theorem resetStep_rel (d : Nat) (st : St) (i : Nat) :
    ResetRel d st (resetStep d st i) ∧
    (((resetStep d st i).node i).ignore = 0 ∨ d ≤ ((resetStep d st i).node i).ignore) := by
  unfold resetStep
  split
  · rename_i hlt
    by_cases hi : i < st.nodes.length
    · refine ⟨⟨setNode_length _ _ _, rfl, fun x => ?_⟩, Or.inl (by rw [node_setNode_self st i _ hi])⟩
      by_cases hx : i = x
      · subst hx
        rw [node_setNode_self st i _ hi]
        exact ⟨rfl, rfl, rfl, Or.inr ⟨rfl, hlt⟩⟩
      · rw [node_setNode_ne st i x _ hx]
        exact ⟨rfl, rfl, rfl, Or.inl rfl⟩
    · have : st.setNode i { st.node i with ignore := 0 } = st := by
        simp [St.setNode, List.set_eq_of_length_le (Nat.le_of_not_lt hi)]
      rw [this]
      refine ⟨ResetRel.refl d st, Or.inl ?_⟩
      simp [St.node, List.getD_eq_getElem?_getD, List.getElem?_eq_none (Nat.le_of_not_lt hi), sentinelNode]
  · rename_i hge
    exact ⟨ResetRel.refl d st, Or.inr (Nat.le_of_not_lt hge)⟩

theorem resetIgnore_cons (d : Nat) (st : St) (i : Nat) (l : List Nat) :
    resetIgnore d st (i :: l) = resetIgnore d (resetStep d st i) l := rfl

theorem resetIgnore_rel (d : Nat) : ∀ (l : List Nat) (st : St),
    ResetRel d st (resetIgnore d st l) ∧
    ∀ x ∈ l, ((resetIgnore d st l).node x).ignore = 0 ∨ d ≤ ((resetIgnore d st l).node x).ignore
  | [], st => ⟨ResetRel.refl d st, fun x hx => by simp at hx⟩
  | i :: l, st => by
    rw [resetIgnore_cons]
    obtain ⟨h1, h1'⟩ := resetStep_rel d st i
    obtain ⟨h2, h2'⟩ := resetIgnore_rel d l (resetStep d st i)
    refine ⟨h1.trans h2, ?_⟩
    intro x hx
    rcases List.mem_cons.mp hx with rfl | hx
    · rcases (h2.node x).2.2.2 with he | ⟨he, _⟩
      · rw [he]; exact h1'
      · exact Or.inl he
    · exact h2' x hx

/-! ### the unlink loop in general -/

theorem updBounds_getD_lt (d : Nat) (b : List Rat) (c : Vec) (j : Nat) (hj : j < d) (hjb : j < b.length) :
    (updBounds d b c).getD j 0 = if co c j < b.getD j 0 then co c j else b.getD j 0 := by
  simp only [updBounds, List.getD_eq_getElem?_getD, List.getElem?_map, List.getElem?_zipIdx,
    List.getElem?_eq_getElem hjb]
  simp [hj]

theorem updBounds_le (d : Nat) (b : List Rat) (c : Vec) (j : Nat) (hj : j < d) (hjb : j < b.length) :
    (updBounds d b c).getD j 0 ≤ b.getD j 0 ∧ (updBounds d b c).getD j 0 ≤ co c j := by
  rw [updBounds_getD_lt d b c j hj hjb]
  split
  · rename_i h; exact ⟨le_of_lt h, le_refl _⟩
  · rename_i h; exact ⟨le_refl _, not_lt.mp h⟩

/-- result of the unlink loop: the list splits into a kept prefix and the removed suffix; only
`bounds[j]`, `j < d`, changed (lowered to the removed coordinates); the loop stopped because the
last kept node is not above `bounds[d]` and its predecessor is strictly below -/
theorem removeLoop_spec (d : Nat) : ∀ (rev removed : List Nat) (st : St),
    ∃ keptRev Rm st', removeLoop d rev removed st = (keptRev, Rm ++ removed, st') ∧
      rev = Rm.reverse ++ keptRev ∧ (rev ≠ [] → keptRev ≠ []) ∧
      st'.nodes = st.nodes ∧ st'.bounds.length = st.bounds.length ∧
      (∀ j, d ≤ j → st'.bounds.getD j 0 = st.bounds.getD j 0) ∧
      (∀ j, j < d → j < st.bounds.length → st'.bounds.getD j 0 ≤ st.bounds.getD j 0 ∧
        ∀ y ∈ Rm, st'.bounds.getD j 0 ≤ co (st.node y).cargo j) ∧
      (∀ q q' rest, keptRev = q :: q' :: rest →
        ¬ (st.bounds.getD d 0 < co (st.node q).cargo d) ∧ ¬ (st.bounds.getD d 0 ≤ co (st.node q').cargo d))
  | [], removed, st => ⟨[], [], st, by simp [removeLoop], rfl, fun h => absurd rfl h, rfl, rfl,
      fun _ _ => rfl, fun _ _ _ => ⟨le_refl _, fun y hy => by simp at hy⟩, fun q q' rest h => by simp at h⟩
  | [q], removed, st => ⟨[q], [], st, by simp [removeLoop], rfl, fun _ => by simp, rfl, rfl,
      fun _ _ => rfl, fun _ _ _ => ⟨le_refl _, fun y hy => by simp at hy⟩, fun q q' rest h => by simp at h⟩
  | q :: q' :: rest, removed, st => by
    by_cases hcond : (decide (st.bounds.getD d 0 < co (st.node q).cargo d) ||
        decide (st.bounds.getD d 0 ≤ co (st.node q').cargo d)) = true
    · let st1 : St := { st with bounds := updBounds d st.bounds (st.node q).cargo }
      have hnode : ∀ i, st1.node i = st.node i := fun i => node_bounds_irrel st _ (updBounds_length _ _ _) i
      obtain ⟨keptRev, Rm, st', h1, h2, h3, h4, h5, h6, h7, h8⟩ := removeLoop_spec d (q' :: rest) (q :: removed) st1
      refine ⟨keptRev, Rm ++ [q], st', ?_, ?_, fun _ => h3 (by simp), h4, ?_, ?_, ?_, ?_⟩
      · rw [removeLoop, if_pos hcond]
        show removeLoop d (q' :: rest) (q :: removed) st1 = _
        rw [h1]; simp
      · rw [List.reverse_append, List.reverse_singleton, List.singleton_append, List.cons_append, ← h2]
      · rw [h5]; exact updBounds_length _ _ _
      · intro j hj
        rw [h6 j hj]
        exact updBounds_getD_ge d _ _ j hj
      · intro j hj hjb
        have hjb1 : j < st1.bounds.length := by
          show j < (updBounds d st.bounds (st.node q).cargo).length
          rw [updBounds_length]; exact hjb
        obtain ⟨g1, g2⟩ := h7 j hj hjb1
        have hu := updBounds_le d st.bounds (st.node q).cargo j hj hjb
        refine ⟨le_trans g1 hu.1, ?_⟩
        intro y hy
        rcases List.mem_append.mp hy with hy | hy
        · rw [← hnode y]; exact g2 y hy
        · simp only [List.mem_singleton] at hy; subst hy
          exact le_trans g1 hu.2
      · intro a a' r hk
        have := h8 a a' r hk
        rw [hnode a, hnode a'] at this
        have hbd : st1.bounds.getD d 0 = st.bounds.getD d 0 := updBounds_getD_ge d _ _ d (Nat.le_refl _)
        rw [hbd] at this
        exact this
    · refine ⟨q :: q' :: rest, [], st, ?_, rfl, fun _ => by simp, rfl, rfl, fun _ _ => rfl,
        fun _ _ _ => ⟨le_refl _, fun y hy => by simp at hy⟩, ?_⟩
      · rw [removeLoop, if_neg hcond]; rfl
      · intro a a' r hk
        simp only [List.cons.injEq] at hk
        obtain ⟨rfl, rfl, _⟩ := hk
        simp only [Bool.or_eq_true, decide_eq_true_eq, not_or] at hcond
        exact hcond

/-! ### dominance in fewer coordinates; single boxes; interior points -/

section dom
variable {R : Run} (hR : R.Base)
include hR

theorem dom_step {j r x : Nat} (hr : r < R.rel.length) (hx : x < R.rel.length) (hj : j + 1 < R.m)
    (h : wdVec (rvec R.rel (j + 1) r) (rvec R.rel (j + 1) x) = true) :
    zc R.rel (j + 1) r ≤ zc R.rel (j + 1) x ∧ wdVec (rvec R.rel j r) (rvec R.rel j x) = true := by
  rw [rvec_succ hR.rect hr hj, rvec_succ hR.rect hx hj] at h
  simpa [wdVec] using h

/-- dominance in the coordinates `≤ j+t` gives dominance in the coordinates `≤ j` and the
coordinate inequalities in between -/
theorem dom_lower {r x : Nat} (hr : r < R.rel.length) (hx : x < R.rel.length) :
    ∀ (t j : Nat), j + t < R.m → wdVec (rvec R.rel (j + t) r) (rvec R.rel (j + t) x) = true →
      wdVec (rvec R.rel j r) (rvec R.rel j x) = true ∧
      ∀ k, j < k → k ≤ j + t → zc R.rel k r ≤ zc R.rel k x
  | 0, j, _, h => ⟨h, fun k h1 h2 => by omega⟩
  | t + 1, j, hjt, h => by
    have hs := dom_step hR hr hx (j := j + t) (by omega) (by simpa [Nat.add_assoc] using h)
    obtain ⟨h1, h2⟩ := dom_lower hr hx t j (by omega) hs.2
    refine ⟨h1, fun k hk1 hk2 => ?_⟩
    by_cases hk : k = j + t + 1
    · subst hk; exact hs.1
    · exact h2 k hk1 (by omega)

theorem ltVec_rvec {x : Nat} (hx : x < R.rel.length) : ∀ (j : Nat), j < R.m →
    (∀ i, i ≤ j → zc R.rel i x < 0) → ltVec (rvec R.rel j x) (List.replicate (j + 1) 0) = true
  | 0, hj, hlt => by
    rw [rvec_zero hR.rect hx hj]
    simp [ltVec, hlt 0 (Nat.le_refl _)]
  | j + 1, hj, hlt => by
    rw [rvec_succ hR.rect hx hj, List.replicate_succ]
    simp only [ltVec, Bool.and_eq_true, decide_eq_true_eq]
    exact ⟨hlt (j + 1) (Nat.le_refl _), ltVec_rvec hx j (by omega) (fun i hi => hlt i (by omega))⟩

theorem wdVec_rvec {x : Nat} (hx : x < R.rel.length) : ∀ (j : Nat), j < R.m →
    wdVec (rvec R.rel j x) (List.replicate (j + 1) 0) = true
  | 0, hj => by
    rw [rvec_zero hR.rect hx hj]
    simp [wdVec, (hR.inter x 0 hx hj).2]
  | j + 1, hj => by
    rw [rvec_succ hR.rect hx hj, List.replicate_succ]
    simp only [wdVec, Bool.and_eq_true, decide_eq_true_eq]
    exact ⟨(hR.inter x (j + 1) hx hj).2, wdVec_rvec hx j (by omega)⟩

/-- a node that is not strictly inside in the coordinates `≤ j` has one of them on the boundary -/
theorem zero_of_not_interior {x : Nat} (hx : x < R.rel.length) {j : Nat} (hj : j < R.m)
    (h : ¬ ∀ i, i ≤ j → zc R.rel i x < 0) : ∃ i, i ≤ j ∧ zc R.rel i x = 0 := by
  by_contra hcon
  apply h
  intro i hi
  have hle := (hR.inter x i hx (by omega)).2
  rcases lt_or_eq_of_le hle with h' | h'
  · exact h'
  · exact absurd ⟨i, hi, h'⟩ hcon

theorem rvec_get {x : Nat} (hx : x < R.rel.length) : ∀ (j i : Nat), j < R.m → i ≤ j →
    (rvec R.rel j x)[j - i]? = some (zc R.rel i x)
  | 0, i, hj, hi => by
    have : i = 0 := by omega
    subst this
    rw [rvec_zero hR.rect hx hj]; rfl
  | j + 1, i, hj, hi => by
    rw [rvec_succ hR.rect hx hj]
    by_cases hij : i = j + 1
    · subst hij; simp
    · have : j + 1 - i = (j - i) + 1 := by omega
      rw [this, List.getElem?_cons_succ]
      exact rvec_get hx j i (by omega) (by omega)

omit hR in
theorem wdVec_of_ltVec : ∀ {p ref : Vec}, ltVec p ref = true → wdVec p ref = true
  | [], [], _ => rfl
  | [], _ :: _, h => by simp [ltVec] at h
  | _ :: _, [], h => by simp [ltVec] at h
  | a :: as, b :: bs, h => by
    simp only [ltVec, Bool.and_eq_true, decide_eq_true_eq] at h
    simp only [wdVec, Bool.and_eq_true, decide_eq_true_eq]
    exact ⟨le_of_lt h.1, wdVec_of_ltVec h.2⟩

/-- a node strictly inside in the coordinates `≤ j` spans positive volume there -/
theorem Vk_single_pos {x : Nat} (hx : x < R.rel.length) {j : Nat} (hj : j < R.m)
    (hlt : ∀ i, i ≤ j → zc R.rel i x < 0) : 0 < Vk R.rel j [x] := by
  have := hv_lt_cons (List.replicate (j + 1) 0) (rvec R.rel j x) [] (by intro p hp; simp at hp)
    (ltVec_rvec hR hx j hj hlt) (by intro p hp; simp at hp)
  rw [hv_nil_pts] at this
  exact this

/-- a node with a coordinate `≤ j` on the boundary adds nothing in the coordinates `≤ j` -/
theorem Vk_snoc_zero {j : Nat} (hj : j < R.m) {K0 : List Nat} {q i : Nat} (hq : q < R.rel.length)
    (hi : i ≤ j) (hz : zc R.rel i q = 0) : Vk R.rel j (K0 ++ [q]) = Vk R.rel j K0 := by
  unfold Vk
  have : hv (List.replicate (j + 1) 0) ((K0 ++ [q]).map (rvec R.rel j))
      = hv (List.replicate (j + 1) 0) (rvec R.rel j q :: K0.map (rvec R.rel j)) := by
    apply hv_set_ext
    intro p
    simp only [List.map_append, List.map_cons, List.map_nil, List.mem_append, List.mem_cons,
      List.not_mem_nil, or_false]
    tauto
  rw [this]
  apply hv_cons_outside _ _ _ (j - i) 0 0
  · rw [List.getElem?_replicate]; simp; omega
  · rw [rvec_get hR hq j i hj hi, hz]
  · exact le_refl _

omit hR in
theorem Vk_le_snoc (j : Nat) (K0 : List Nat) (q : Nat) : Vk R.rel j K0 ≤ Vk R.rel j (K0 ++ [q]) := by
  unfold Vk
  apply hv_mono
  intro p hp
  obtain ⟨i, hi, rfl⟩ := List.mem_map.mp hp
  exact List.mem_map.mpr ⟨i, by simp [hi], rfl⟩

omit hR in
theorem Vk_nil (j : Nat) : Vk R.rel j [] = 0 := by
  unfold Vk; exact hv_nil_pts _

omit hR in
/-- a node dominated (in the projected coordinates) by a node of the set adds nothing -/
theorem Vk_snoc_dominated {j : Nat} {K0 : List Nat} {q r : Nat} (hr : r ∈ K0)
    (hdom : wdVec (rvec R.rel j r) (rvec R.rel j q) = true) :
    Vk R.rel j (K0 ++ [q]) = Vk R.rel j K0 := by
  unfold Vk
  have : hv (List.replicate (j + 1) 0) ((K0 ++ [q]).map (rvec R.rel j))
      = hv (List.replicate (j + 1) 0) (rvec R.rel j q :: K0.map (rvec R.rel j)) := by
    apply hv_set_ext
    intro p
    simp only [List.map_append, List.map_cons, List.map_nil, List.mem_append, List.mem_cons,
      List.not_mem_nil, or_false]
    tauto
  rw [this]
  exact hv_cons_dominated _ _ (rvec R.rel j r) _ (List.mem_map.mpr ⟨r, hr, rfl⟩) hdom

/-- **soundness of the `ignore` test on node ids**: if the cross-section volume does not grow when
`q` is linked, a node linked before dominates `q` in the projected coordinates, or `q` has one of
those coordinates on the reference boundary -/
theorem exists_dom_of_Vk_le {j : Nat} (hj : j < R.m) {K0 : List Nat} {q : Nat}
    (hK : ∀ i ∈ K0, i < R.rel.length) (hq : q < R.rel.length)
    (h : Vk R.rel j (K0 ++ [q]) ≤ Vk R.rel j K0) :
    (∃ r ∈ K0, wdVec (rvec R.rel j r) (rvec R.rel j q) = true) ∨ (∃ i, i ≤ j ∧ zc R.rel i q = 0) := by
  by_cases hint : ∀ i, i ≤ j → zc R.rel i q < 0
  · left
    unfold Vk at h
    have e : hv (List.replicate (j + 1) 0) ((K0 ++ [q]).map (rvec R.rel j))
        = hv (List.replicate (j + 1) 0) (rvec R.rel j q :: K0.map (rvec R.rel j)) := by
      apply hv_set_ext
      intro p
      simp only [List.map_append, List.map_cons, List.map_nil, List.mem_append, List.mem_cons,
        List.not_mem_nil, or_false]
      tauto
    rw [e] at h
    obtain ⟨p, hp, hw⟩ := hv_eq_imp_dominated _ _ _ (by
        rw [List.length_replicate]; exact rect_rvec hR.rect hj hK) (ltVec_rvec hR hq j hj hint) h
    obtain ⟨r, hr, rfl⟩ := List.mem_map.mp hp
    exact ⟨r, hr, hw⟩
  · right
    exact zero_of_not_interior hR hq hj hint

end dom

/-! ### the specification of one recursion level -/

/-- what `hvRecursive(e, ·, bounds)` guarantees on the linked ids `S` -/
def Spec (R : Run) (e : Nat) (rec : List Nat → St → Rat × St) : Prop :=
  ∀ (S : List Nat) (st : St), S ≠ [] → S.Nodup → (∀ i ∈ S, i < R.rel.length) → WF R st →
    (∀ k, 2 ≤ k → k ≤ e → Cache R k S st) → FIge R e S st →
    (rec S st).1 = Vk R.rel e S ∧ WF R (rec S st).2 ∧
    (∀ k, 2 ≤ k → k ≤ e → Cache R k S (rec S st).2) ∧ AllFI R S (rec S st).2 ∧
    Frame e S st (rec S st).2

/-! ### updating one field of one node -/

theorem getD_set_ne (l : List Rat) (i j : Nat) (v : Rat) (h : i ≠ j) : (l.set i v).getD j 0 = l.getD j 0 := by
  simp [List.getD_eq_getElem?_getD, List.getElem?_set_ne h]

theorem getD_set_self (l : List Rat) (i : Nat) (v : Rat) (h : i < l.length) : (l.set i v).getD i 0 = v := by
  simp [List.getD_eq_getElem?_getD, List.getElem?_set_self h]

/-- replacing node `q` by a node with the same cargo and the same lengths keeps `WF` -/
theorem WF.setNode {R : Run} {st : St} (h : WF R st) (q : Nat) (n' : Node)
    (hc : n'.cargo = (st.node q).cargo) (ha : n'.area.length = (st.node q).area.length)
    (hv : n'.volume.length = (st.node q).volume.length) : WF R (st.setNode q n') := by
  refine ⟨by rw [setNode_length]; exact h.len, h.blen,
    fun i => by rw [node_cargo_setNode st q i n' hc]; exact h.cargo i, ?_, h.bnd⟩
  intro i hi
  by_cases hqi : q = i
  · subst hqi
    rw [node_setNode_self st q n' (by rw [h.len]; exact hi), ha, hv]; exact h.alen q hi
  · rw [node_setNode_ne st q i n' hqi]; exact h.alen i hi

section setters
variable {R : Run} {st : St} (hW : WF R st) {q : Nat} (hq : q < R.rel.length)
include hW hq

theorem setVolume_facts (d : Nat) (hd : d < R.m) (v : Rat) :
    WF R (setVolume d q v st) ∧ (setVolume d q v st).bounds = st.bounds ∧
    (∀ x, x ≠ q → (setVolume d q v st).node x = st.node x) ∧
    ((setVolume d q v st).node q).area = (st.node q).area ∧
    ((setVolume d q v st).node q).ignore = (st.node q).ignore ∧
    ((setVolume d q v st).node q).volume.getD d 0 = v ∧
    (∀ j, j ≠ d → ((setVolume d q v st).node q).volume.getD j 0 = (st.node q).volume.getD j 0) := by
  have hqn : q < st.nodes.length := by rw [hW.len]; exact hq
  have hself : (setVolume d q v st).node q = { st.node q with volume := (st.node q).volume.set d v } :=
    node_setNode_self st q _ hqn
  refine ⟨WF.setNode hW q _ rfl rfl (by simp), rfl, fun x hx => node_setNode_ne st q x _ (Ne.symm hx),
    by rw [hself], by rw [hself], ?_, ?_⟩
  · rw [hself]; exact getD_set_self _ _ _ (by rw [(hW.alen q hq).2]; exact hd)
  · intro j hj; rw [hself]; exact getD_set_ne _ _ _ _ (Ne.symm hj)

theorem setArea_facts (d : Nat) (hd : d < R.m) (a : Rat) :
    WF R (setArea d q a st) ∧ (setArea d q a st).bounds = st.bounds ∧
    (∀ x, x ≠ q → (setArea d q a st).node x = st.node x) ∧
    ((setArea d q a st).node q).volume = (st.node q).volume ∧
    ((setArea d q a st).node q).ignore = (st.node q).ignore ∧
    ((setArea d q a st).node q).area.getD d 0 = a ∧
    (∀ j, j ≠ d → ((setArea d q a st).node q).area.getD j 0 = (st.node q).area.getD j 0) := by
  have hqn : q < st.nodes.length := by rw [hW.len]; exact hq
  have hself : (setArea d q a st).node q = { st.node q with area := (st.node q).area.set d a } :=
    node_setNode_self st q _ hqn
  refine ⟨WF.setNode hW q _ rfl (by simp) rfl, rfl, fun x hx => node_setNode_ne st q x _ (Ne.symm hx),
    by rw [hself], by rw [hself], ?_, ?_⟩
  · rw [hself]; exact getD_set_self _ _ _ (by rw [(hW.alen q hq).1]; exact hd)
  · intro j hj; rw [hself]; exact getD_set_ne _ _ _ _ (Ne.symm hj)

theorem setIgnore_facts (d : Nat) :
    WF R (setIgnore d q st) ∧ (setIgnore d q st).bounds = st.bounds ∧
    (∀ x, x ≠ q → (setIgnore d q st).node x = st.node x) ∧
    ((setIgnore d q st).node q).volume = (st.node q).volume ∧
    ((setIgnore d q st).node q).area = (st.node q).area ∧
    ((setIgnore d q st).node q).ignore = d := by
  have hqn : q < st.nodes.length := by rw [hW.len]; exact hq
  have hself : (setIgnore d q st).node q = { st.node q with ignore := d } :=
    node_setNode_self st q _ hqn
  exact ⟨WF.setNode hW q _ rfl rfl rfl, rfl, fun x hx => node_setNode_ne st q x _ (Ne.symm hx),
    by rw [hself], by rw [hself], by rw [hself]⟩

end setters

end DH.Hypervolume
