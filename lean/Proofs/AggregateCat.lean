import Proofs.Aggregate

/-! Helper lemmas for C19, categorical part (`catLoc`, `catAgg`, `modeAgg`). -/

namespace DH.Aggregate

theorem sum_map_div (l : List Rat) (W : Rat) : (l.map (· / W)).sum = l.sum / W := by
  induction l with
  | nil => simp
  | cons a l ih => simp only [List.map_cons, List.sum_cons, ih, add_div]

theorem catLoc_of_ne {c : Nat} {ws : List Rat} {rows : List Row} (h : rsum ws rows ≠ 0) :
    catLoc c ws rows = some ((rdot c ws rows).map (· / rsum ws rows)) := by
  simp [catLoc, h]

theorem catLoc_some {c : Nat} {ws : List Rat} {rows : List Row} {loc : List Rat}
    (h : catLoc c ws rows = some loc) :
    rsum ws rows ≠ 0 ∧ loc = (rdot c ws rows).map (· / rsum ws rows) := by
  unfold catLoc at h
  by_cases h0 : rsum ws rows = 0
  · simp [h0] at h
  · simp [h0] at h; exact ⟨h0, h.symm⟩

/-- aggregated class probabilities form a distribution -/
theorem catLoc_simplex {c : Nat} {ws : List Rat} (hw : ∀ w ∈ ws, 0 ≤ w) {rows : List Row}
    (hr : RowsSimplex c rows) {loc : List Rat} (h : catLoc c ws rows = some loc) :
    loc.length = c ∧ (∀ x ∈ loc, 0 ≤ x) ∧ loc.sum = 1 := by
  obtain ⟨h0, rfl⟩ := catLoc_some h
  have hpos : 0 < rsum ws rows := lt_of_le_of_ne (rsum_nonneg hw rows) (Ne.symm h0)
  refine ⟨by simp [rdot_length ws hr.len], ?_, ?_⟩
  · intro x hx
    simp only [List.mem_map] at hx
    obtain ⟨y, hy, rfl⟩ := hx
    exact div_nonneg (rdot_nonneg hw (fun p hp => (hr p hp).2.1) y hy) (le_of_lt hpos)
  · rw [sum_map_div, rdot_sum ws hr, div_self h0]

/-! ### per-row statistics -/

theorem wsum_rowStat_some (f : List Rat → Rat) (ws : List Rat) (rows : List Row) :
    wsum ws (rowStat (fun p => some (f p)) rows) = rsum ws rows := by
  induction ws generalizing rows with
  | nil => simp [wsum, rsum]
  | cons w ws ih => cases rows with
    | nil => simp [wsum, rsum, rowStat]
    | cons r rows =>
      have := ih rows
      cases r <;> simp [wsum, rsum, rowStat] at * <;> rw [this]

theorem wsum_rowStat_vmax {c : Nat} (hc : 0 < c) (ws : List Rat) {rows : List Row} (hr : RowsLen c rows) :
    wsum ws (rowStat vmax rows) = rsum ws rows := by
  induction ws generalizing rows with
  | nil => simp [wsum, rsum]
  | cons w ws ih => cases rows with
    | nil => simp [wsum, rsum, rowStat]
    | cons r rows =>
      have := ih hr.tail
      cases r with
      | none => simpa [wsum, rsum, rowStat] using this
      | some p =>
        have hp : p ≠ [] := by
          intro h; have := hr p (by simp); subst h; simp at this; omega
        obtain ⟨m, hm⟩ := vmax_isSome hp
        simp only [rowStat, List.map_cons, Option.bind_some, hm, wsum, rsum] at this ⊢
        rw [this]

theorem rowStat_conf (rows : List Row) :
    rowStat conf rows = cellMap (fun m => 1 - m) (rowStat vmax rows) := by
  induction rows with
  | nil => simp [rowStat, cellMap]
  | cons r rows ih =>
    simp only [rowStat, cellMap, List.map_cons, List.map_map, List.cons.injEq] at ih ⊢
    refine ⟨?_, ih⟩
    cases r <;> simp [conf]

theorem wdot_one_sub (ws : List Rat) (ys : List Cell) :
    wdot ws (cellMap (fun m => 1 - m) ys) = wsum ws ys - wdot ws ys := by
  induction ws generalizing ys with
  | nil => simp [wsum, wdot]
  | cons w ws ih => cases ys with
    | nil => simp [wsum, wdot, cellMap]
    | cons y ys =>
      have := ih ys
      cases y <;> simp [wsum, wdot, cellMap] at * <;> rw [this] <;> ring

theorem present_rowStat_mem {f : List Rat → Option Rat} {ws : List Rat} {rows : List Row} {q : Rat × Rat}
    (h : q ∈ present ws (rowStat f rows)) : ∃ p, some p ∈ rows ∧ f p = some q.2 := by
  induction ws generalizing rows with
  | nil => simp [present] at h
  | cons w ws ih => cases rows with
    | nil => simp [present, rowStat] at h
    | cons r rows =>
      have ih' : q ∈ present ws (rowStat f rows) → ∃ p, some p ∈ rows ∧ f p = some q.2 := ih
      cases r with
      | none =>
        simp only [rowStat, List.map_cons, Option.bind_none, present] at h
        obtain ⟨p, hp, hf⟩ := ih' (by simpa [rowStat] using h)
        exact ⟨p, by simp [hp], hf⟩
      | some p =>
        simp only [rowStat, List.map_cons, Option.bind_some] at h
        cases hfp : f p with
        | none =>
          rw [hfp] at h
          simp only [present] at h
          obtain ⟨p', hp', hf⟩ := ih' (by simpa [rowStat] using h)
          exact ⟨p', by simp [hp'], hf⟩
        | some v =>
          rw [hfp] at h
          simp only [present, List.mem_cons] at h
          rcases h with rfl | h
          · exact ⟨p, by simp, hfp⟩
          · obtain ⟨p', hp', hf⟩ := ih' (by simpa [rowStat] using h)
            exact ⟨p', by simp [hp'], hf⟩

/-- `max_j Σ_i w_i p_ij ≤ Σ_i w_i max_j p_ij` entry by entry -/
theorem rdot_le_wdot_vmax {c : Nat} (hc : 0 < c) {ws : List Rat} (hw : ∀ w ∈ ws, 0 ≤ w) {rows : List Row}
    (hr : RowsLen c rows) : ∀ x ∈ rdot c ws rows, x ≤ wdot ws (rowStat vmax rows) := by
  induction ws generalizing rows with
  | nil => simp [rdot, vzero, wdot]
  | cons w ws ih =>
    have h1 : 0 ≤ w := hw w (by simp)
    have hw' : ∀ v ∈ ws, 0 ≤ v := fun v hv => hw v (by simp [hv])
    cases rows with
    | nil => simp [rdot, vzero, wdot, rowStat]
    | cons r rows =>
      cases r with
      | none => simpa [rdot, wdot, rowStat] using ih hw' hr.tail
      | some p =>
        have hp : p ≠ [] := by
          intro h; have := hr p (by simp); subst h; simp at this; omega
        obtain ⟨m, hm⟩ := vmax_isSome hp
        obtain ⟨_, hle⟩ := vmax_spec hm
        intro x hx
        simp only [rdot] at hx
        obtain ⟨u, hu, v, hv, rfl⟩ := mem_vadd hx
        simp only [vscale, List.mem_map] at hu
        obtain ⟨y, hy, rfl⟩ := hu
        have h2 := ih hw' hr.tail v hv
        have h3 := mul_le_mul_of_nonneg_left (hle y hy) h1
        simp only [rowStat, List.map_cons, Option.bind_some, hm, wdot] at h2 ⊢
        linarith

theorem rmax_zero_of_nonneg {x : Rat} (h : 0 ≤ x) : rmax 0 x = x := by
  unfold rmax; simp [h]

theorem rmax_zero_nonneg (x : Rat) : 0 ≤ rmax 0 x := rmax_ge_left 0 x

/-- confidence form: everything the property says about `MixedCategoricalAggregator` -/
theorem conf_out {c : Nat} (hc : 0 < c) {ws : List Rat} (hw : ∀ w ∈ ws, 0 ≤ w) {rows : List Row}
    (hr : RowsSimplex c rows) (hW : rsum ws rows ≠ 0) :
    ∃ loc u a e, mixedCategoricalConf c ws rows = ⟨some loc, some u, some a, some e⟩ ∧
      (loc.length = c ∧ (∀ x ∈ loc, 0 ≤ x) ∧ loc.sum = 1) ∧
      0 ≤ u ∧ u ≤ 1 - 1 / (c : Rat) ∧ 0 ≤ a ∧ a ≤ 1 - 1 / (c : Rat) ∧ 0 ≤ e ∧ u = a + e := by
  have hloc := catLoc_of_ne (c := c) hW
  have hsim := catLoc_simplex hw hr hloc
  obtain ⟨u, hu, hu0, hu1⟩ := conf_range hc hsim.1 hsim.2.1 hsim.2.2
  have hpos : 0 < rsum ws rows := lt_of_le_of_ne (rsum_nonneg hw rows) (Ne.symm hW)
  -- aleatoric part
  have hws : wsum ws (rowStat conf rows) = rsum ws rows := by
    rw [rowStat_conf, wsum_cellMap, wsum_rowStat_vmax hc ws hr.len]
  have hwd : wdot ws (rowStat conf rows) = rsum ws rows - wdot ws (rowStat vmax rows) := by
    rw [rowStat_conf, wdot_one_sub, wsum_rowStat_vmax hc ws hr.len]
  have hav : average ws (rowStat conf rows) = some (wdot ws (rowStat conf rows) / rsum ws rows) := by
    simp [average, hws, hW]
  have hbet := average_between hw hav 0 (1 - 1 / (c : Rat))
    (fun q hq => by
      obtain ⟨p, hp, hf⟩ := present_rowStat_mem hq
      obtain ⟨hl, hnn, hs⟩ := hr p hp
      obtain ⟨v, hv, hv0, _⟩ := conf_range hc hl hnn hs
      rw [hf] at hv; cases hv; exact hv0)
    (fun q hq => by
      obtain ⟨p, hp, hf⟩ := present_rowStat_mem hq
      obtain ⟨hl, hnn, hs⟩ := hr p hp
      obtain ⟨v, hv, _, hv1⟩ := conf_range hc hl hnn hs
      rw [hf] at hv; cases hv; exact hv1)
  -- total ≥ aleatoric
  have hdiff : 0 ≤ u - wdot ws (rowStat conf rows) / rsum ws rows := by
    unfold conf at hu
    cases hm : vmax ((rdot c ws rows).map (· / rsum ws rows)) with
    | none => rw [hm] at hu; simp at hu
    | some M =>
      rw [hm] at hu
      simp only [Option.map_some, Option.some.injEq] at hu
      obtain ⟨hmem, _⟩ := vmax_spec hm
      simp only [List.mem_map] at hmem
      obtain ⟨x, hx, rfl⟩ := hmem
      have hx' := rdot_le_wdot_vmax hc hw hr.len x hx
      have h1 : x / rsum ws rows ≤ wdot ws (rowStat vmax rows) / rsum ws rows :=
        div_le_div_of_nonneg_right hx' (le_of_lt hpos)
      rw [hwd, ← hu, sub_div, div_self hW]
      linarith
  refine ⟨_, u, _, rmax 0 (u - wdot ws (rowStat conf rows) / rsum ws rows), ?_, hsim, hu0, hu1,
    hbet.1, hbet.2, rmax_zero_nonneg _, ?_⟩
  · simp [mixedCategoricalConf, catAgg, hloc, hu, hav]
  · rw [rmax_zero_of_nonneg hdiff]; ring

/-- the n-ary form of concavity of `H` on the probability simplex (Jensen's inequality for the
mixtures the model forms): the entropy of the mixture is at least the mixture of the entropies -/
def JensenConcave (c : Nat) (H : List Rat → Rat) : Prop :=
  ∀ (ws : List Rat) (rows : List Row) (loc : List Rat), (∀ w ∈ ws, 0 ≤ w) → RowsSimplex c rows →
    catLoc c ws rows = some loc →
    wdot ws (rowStat (fun p => some (H p)) rows) / rsum ws rows ≤ H loc

/-- entropy form (entropy `H` is a parameter): non-negativity from `H ≥ 0`, the exact split from concavity -/
theorem entropy_out {c : Nat} (H : List Rat → Rat) (hH : ∀ p, 0 ≤ H p) {ws : List Rat}
    (hw : ∀ w ∈ ws, 0 ≤ w) {rows : List Row} (hr : RowsSimplex c rows) (hW : rsum ws rows ≠ 0) :
    ∃ loc u a e, mixedCategoricalEntropy H c ws rows = ⟨some loc, some u, some a, some e⟩ ∧
      (loc.length = c ∧ (∀ x ∈ loc, 0 ≤ x) ∧ loc.sum = 1) ∧
      0 ≤ u ∧ 0 ≤ a ∧ 0 ≤ e ∧ (JensenConcave c H → u = a + e) := by
  have hloc := catLoc_of_ne (c := c) hW
  have hsim := catLoc_simplex hw hr hloc
  have hws := wsum_rowStat_some H ws rows
  have hav : average ws (rowStat (fun p => some (H p)) rows) =
      some (wdot ws (rowStat (fun p => some (H p)) rows) / rsum ws rows) := by
    simp [average, hws, hW]
  have ha0 : 0 ≤ wdot ws (rowStat (fun p => some (H p)) rows) / rsum ws rows :=
    average_ge hw hav 0 (fun q hq => by
      obtain ⟨p, _, hf⟩ := present_rowStat_mem hq
      simp only [Option.some.injEq] at hf
      rw [← hf]; exact hH p)
  refine ⟨_, H ((rdot c ws rows).map (· / rsum ws rows)), _,
    rmax 0 (H ((rdot c ws rows).map (· / rsum ws rows)) -
      wdot ws (rowStat (fun p => some (H p)) rows) / rsum ws rows), ?_, hsim, hH _, ha0,
    rmax_zero_nonneg _, ?_⟩
  · simp [mixedCategoricalEntropy, catAgg, hloc, hav]
  · intro hJ
    have := hJ ws rows _ hw hr hloc
    rw [rmax_zero_of_nonneg (by linarith)]; ring

end DH.Aggregate
