import Proofs.DirectionStrict

/-! Helper lemmas for C05, part 7: `_filter_failures` never gives a failed configuration a
value better (smaller) than every successful one. -/

namespace DH.Direction

theorem sumL_gt_of_forall_gt (m : Rat) : ∀ (l : Vec), l ≠ [] → (∀ r ∈ l, m < r) → (l.length : Rat) * m < sumL l
  | [], h, _ => absurd rfl h
  | [a], _, hr => by
    have := hr a (by simp)
    simp only [List.length_singleton, sumL]; push_cast; linarith
  | a :: b :: l, _, hr => by
    have ih := sumL_gt_of_forall_gt m (b :: l) (by simp) (fun r hr' => hr r (by simp [hr']))
    have ha := hr a (by simp)
    simp only [List.length_cons, sumL] at ih ⊢
    push_cast at ih ⊢
    linarith

/-- some element is at most the mean -/
theorem exists_le_mean (a : Rat) (l : Vec) : ∃ r ∈ a :: l, r ≤ meanL (a :: l) := by
  by_contra hcon
  have hall : ∀ r ∈ a :: l, meanL (a :: l) < r := by
    intro r hr
    by_contra h
    exact hcon ⟨r, hr, not_lt.mp h⟩
  have h1 := sumL_gt_of_forall_gt (meanL (a :: l)) (a :: l) (by simp) hall
  have hpos : (0 : Rat) < ((a :: l).length : Rat) := by
    have : 0 < (a :: l).length := by simp
    exact_mod_cast this
  have h2 : ((a :: l).length : Rat) * meanL (a :: l) = sumL (a :: l) := by
    unfold meanL; field_simp
  linarith

theorem mem_filterMap_id {yi : List (Option Rat)} {r : Rat} : r ∈ yi.filterMap id ↔ some r ∈ yi := by
  simp [List.mem_filterMap]

/-- With the optimizer-side modes `"max"` (what CBO's default `"min"` is mapped to) and `"mean"`:
successes keep their value, every failure gets a value `v` for which some successful
observation has a value `≤ v` — a failed configuration is never ranked strictly first. -/
theorem filterFailures_imputed (mode : String) (hm : mode = "max" ∨ mode = "mean") (mf : Nat)
    (yi out : List (Option Rat)) (hsucc : ∃ r, some r ∈ yi)
    (h : filterFailures mode mf yi = .ok out) :
    out.length = yi.length ∧
    ∀ i : Nat, (∀ r, yi[i]? = some (some r) → out[i]? = some (some r)) ∧
      (yi[i]? = some none → ∃ v r, out[i]? = some (some v) ∧ some r ∈ yi ∧ r ≤ v) := by
  unfold filterFailures at h
  have hmode : (mode = "mean" ∨ mode = "max") := hm.symm
  simp only [hmode, if_true] at h
  obtain ⟨r0, hr0⟩ := hsucc
  have hne : yi.filterMap id ≠ [] := by
    intro hnil
    have : r0 ∈ yi.filterMap id := mem_filterMap_id.2 hr0
    rw [hnil] at this; simp at this
  cases hok : yi.filterMap id with
  | nil => exact absurd hok hne
  | cons a l =>
    simp only [hok] at h
    injection h with h
    subst h
    -- the imputed value and a success below it
    have hv : ∃ r, some r ∈ yi ∧ r ≤ (if mode = "mean" then meanL (a :: l) else l.foldl rmax a) := by
      by_cases hmean : mode = "mean"
      · simp only [hmean, if_true]
        obtain ⟨r, hr, hle⟩ := exists_le_mean a l
        exact ⟨r, mem_filterMap_id.1 (by rw [hok]; exact hr), hle⟩
      · simp only [hmean, if_false]
        exact ⟨a, mem_filterMap_id.1 (by rw [hok]; simp), foldl_rmax_ge_init l a⟩
    refine ⟨by simp, ?_⟩
    intro i
    constructor
    · intro r hr
      simp [List.getElem?_map, hr]
    · intro hnone
      obtain ⟨r, hr, hle⟩ := hv
      exact ⟨_, r, by simp [List.getElem?_map, hnone], hr, hle⟩

end DH.Direction
