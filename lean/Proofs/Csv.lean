import Model.Csv

/-! Round trip of the CSV text layer: `csv.reader` applied to what `csv.writer` wrote gives back
the cells.  Core Lean only. -/

namespace DH.Csv

theorem parse_inQuoted_escape (row : List Text) (rest : Text) :
    ∀ (s f : Text), parse .inQuoted f row (escape s ++ '"' :: rest) = parse .quoteInQuoted (f ++ s) row rest
  | [], f => by simp [escape, parse]
  | c :: s, f => by
    by_cases hc : c = '"'
    · subst hc
      have ih := parse_inQuoted_escape row rest s (f ++ ['"'])
      simp only [escape, if_true, List.cons_append, parse]
      rw [ih]; simp
    · have ih := parse_inQuoted_escape row rest s (f ++ [c])
      simp only [escape, hc, if_false, List.cons_append, parse]
      rw [ih]; simp

theorem isSpecial_false {c : Char} (h : isSpecial c = false) : c ≠ ',' ∧ c ≠ '"' ∧ c ≠ '\r' ∧ c ≠ '\n' := by
  simp only [isSpecial, Bool.or_eq_false_iff, beq_eq_false_iff_ne] at h
  exact ⟨h.1.1.1, h.1.1.2, h.1.2, h.2⟩

theorem parse_inField_plain (row : List Text) (rest : Text) :
    ∀ (s f : Text), (∀ c ∈ s, isSpecial c = false) →
      parse .inField f row (s ++ rest) = parse .inField (f ++ s) row rest
  | [], f, _ => by simp
  | c :: s, f, h => by
    obtain ⟨h1, _, h3, h4⟩ := isSpecial_false (h c (by simp))
    have ih := parse_inField_plain row rest s (f ++ [c]) (fun d hd => h d (by simp [hd]))
    simp only [List.cons_append, parse, h1, h3, h4, if_false]
    rw [ih]; simp

theorem needsQuote_false {s : Text} (h : needsQuote s = false) : ∀ c ∈ s, isSpecial c = false := by
  simpa [needsQuote, List.any_eq_false] using h

/-- a cell followed by the delimiter, in the middle of a record -/
theorem cell_comma (row : List Text) (s r' : Text) :
    parse .startField [] row (quoteCell s ++ ',' :: r') = parse .startField [] (row ++ [s]) r' := by
  unfold quoteCell
  by_cases hq : needsQuote s = true
  · have hch : ('"' : Char) ≠ '' ∧ ('"' : Char) ≠ '
' := by decide
    simp only [hq, if_true, List.cons_append, List.append_assoc, parse, hch.1, hch.2, if_false,
      List.nil_append]
    rw [parse_inQuoted_escape]
    simp [parse]
  · have hq' : needsQuote s = false := by simpa using hq
    simp only [hq', Bool.false_eq_true, if_false]
    cases s with
    | nil => simp [parse]
    | cons c s =>
      have hall := needsQuote_false hq'
      obtain ⟨h1, h2, h3, h4⟩ := isSpecial_false (hall c (by simp))
      simp only [List.cons_append, parse, h1, h2, h3, h4, if_false]
      rw [parse_inField_plain row (',' :: r') s [c] (fun d hd => hall d (by simp [hd]))]
      simp [parse]

/-- the last cell of a record, in the middle of a record -/
theorem cell_eol (row : List Text) (s r' : Text) :
    parse .startField [] row (quoteCell s ++ '\r' :: '\n' :: r')
      = (row ++ [s]) :: parse .startRecord [] [] r' := by
  unfold quoteCell
  by_cases hq : needsQuote s = true
  · have hch : ('"' : Char) ≠ '' ∧ ('"' : Char) ≠ '
' := by decide
    simp only [hq, if_true, List.cons_append, List.append_assoc, parse, hch.1, hch.2, if_false,
      List.nil_append]
    rw [parse_inQuoted_escape]
    simp [parse]
  · have hq' : needsQuote s = false := by simpa using hq
    simp only [hq', Bool.false_eq_true, if_false]
    cases s with
    | nil => simp [parse]
    | cons c s =>
      have hall := needsQuote_false hq'
      obtain ⟨h1, h2, h3, h4⟩ := isSpecial_false (hall c (by simp))
      simp only [List.cons_append, parse, h1, h2, h3, h4, if_false]
      rw [parse_inField_plain row ('\r' :: '\n' :: r') s [c] (fun d hd => hall d (by simp [hd]))]
      simp [parse]

/-- the first cell of a record followed by the delimiter -/
theorem first_cell_comma (s r' : Text) :
    parse .startRecord [] [] (quoteCell s ++ ',' :: r') = parse .startField [] [s] r' := by
  unfold quoteCell
  by_cases hq : needsQuote s = true
  · have hch : ('"' : Char) ≠ '' ∧ ('"' : Char) ≠ '
' := by decide
    simp only [hq, if_true, List.cons_append, List.append_assoc, parse, hch.1, hch.2, if_false,
      List.nil_append]
    rw [parse_inQuoted_escape]
    simp [parse]
  · have hq' : needsQuote s = false := by simpa using hq
    simp only [hq', Bool.false_eq_true, if_false]
    cases s with
    | nil =>
      have : (',' : Char) ≠ '\r' ∧ (',' : Char) ≠ '\n' ∧ (',' : Char) ≠ '"' := by decide
      simp [parse, this.1, this.2.1, this.2.2]
    | cons c s =>
      have hall := needsQuote_false hq'
      obtain ⟨h1, h2, h3, h4⟩ := isSpecial_false (hall c (by simp))
      simp only [List.cons_append, parse, h1, h2, h3, h4, if_false]
      rw [parse_inField_plain [] (',' :: r') s [c] (fun d hd => hall d (by simp [hd]))]
      simp [parse]

/-- a record made of one non-empty cell -/
theorem single_cell_eol (s r' : Text) (hs : s ≠ []) :
    parse .startRecord [] [] (quoteCell s ++ '\r' :: '\n' :: r') = [s] :: parse .startRecord [] [] r' := by
  unfold quoteCell
  by_cases hq : needsQuote s = true
  · have hch : ('"' : Char) ≠ '' ∧ ('"' : Char) ≠ '
' := by decide
    simp only [hq, if_true, List.cons_append, List.append_assoc, parse, hch.1, hch.2, if_false,
      List.nil_append]
    rw [parse_inQuoted_escape]
    simp [parse]
  · have hq' : needsQuote s = false := by simpa using hq
    simp only [hq', Bool.false_eq_true, if_false]
    cases s with
    | nil => exact absurd rfl hs
    | cons c s =>
      have hall := needsQuote_false hq'
      obtain ⟨h1, h2, h3, h4⟩ := isSpecial_false (hall c (by simp))
      simp only [List.cons_append, parse, h1, h2, h3, h4, if_false]
      rw [parse_inField_plain [] ('\r' :: '\n' :: r') s [c] (fun d hd => hall d (by simp [hd]))]
      simp [parse]

theorem fields_eol (r' : Text) :
    ∀ (cells : List Text) (g : Text) (row : List Text),
      parse .startField [] row (renderFields (g :: cells) ++ '\r' :: '\n' :: r')
        = (row ++ g :: cells) :: parse .startRecord [] [] r'
  | [], g, row => by simp [renderFields, cell_eol]
  | g2 :: cells, g, row => by
    have ih := fields_eol r' cells g2 (row ++ [g])
    simp only [renderFields, List.append_assoc, List.cons_append]
    rw [cell_comma, ih]; simp

/-- one record: the reader gives back exactly the cells the writer was given -/
theorem parse_renderLine (cells : List Text) (hne : cells ≠ []) (r' : Text) :
    parse .startRecord [] [] (renderLine cells ++ r') = cells :: parse .startRecord [] [] r' := by
  match cells, hne with
  | [[]], _ =>
    have : ('"' : Char) ≠ '\r' ∧ ('"' : Char) ≠ '\n' ∧ ('\r' : Char) ≠ '"' ∧ ('\r' : Char) ≠ ',' := by decide
    simp [renderLine, parse, this.1, this.2.1, this.2.2.1, this.2.2.2]
  | [c :: s], _ =>
    have : renderLine [c :: s] = quoteCell (c :: s) ++ ['\r', '\n'] := by simp [renderLine, renderFields]
    rw [this, List.append_assoc]
    exact single_cell_eol (c :: s) r' (by simp)
  | s :: g :: rest, _ =>
    have : renderLine (s :: g :: rest) = quoteCell s ++ ',' :: (renderFields (g :: rest) ++ ['\r', '\n']) := by
      cases s <;> simp [renderLine, renderFields]
    rw [this]
    simp only [List.append_assoc, List.cons_append]
    rw [first_cell_comma]
    have := fields_eol r' rest g [s]
    simpa using this

/-- the whole file -/
theorem parse_renderFile :
    ∀ (rows : List (List Text)), (∀ r ∈ rows, r ≠ []) → parseFile (renderFile rows) = rows
  | [], _ => rfl
  | r :: rows, h => by
    have ih := parse_renderFile rows (fun x hx => h x (by simp [hx]))
    unfold parseFile renderFile at ih ⊢
    simp only [List.flatMap_cons]
    rw [parse_renderLine r (h r (by simp)), ih]

/-- reading a cell back by its column name -/
theorem lookupByName_map {α : Type} (name : α → Text) (hinj : ∀ a b, name a = name b → a = b)
    (f : α → Text) :
    ∀ (cols : List α) (c : α), c ∈ cols → lookupByName (cols.map name) (cols.map f) (name c) = some (f c)
  | [], c, h => by simp at h
  | d :: cols, c, h => by
    simp only [List.map_cons, lookupByName]
    by_cases hd : name d = name c
    · simp [hinj d c hd]
    · simp only [hd, if_false]
      rcases List.mem_cons.1 h with rfl | h'
      · exact absurd rfl hd
      · exact lookupByName_map name hinj f cols c h'

end DH.Csv
