import Proofs.EvaluatorInv

/-! Payload invariant of the evaluator model; all invariants on reachable states (core Lean only). -/

namespace DH.Evaluator

variable {C O : Type}

/-- what a delivered job looks like; a job in flight has no output yet -/
structure Pay (p : Params C O) (s : Ev C O) : Prop where
  actOut : ∀ j ∈ s.jobs, active j = true → j.out = none
  pay : ∀ j ∈ s.jobs, ∀ v, (j.id, v) ∈ s.delivered →
    (j.status = .done ∧ j.out = some (p.f j.cfg)) ∨
    (v = .close ∧ j.status = .cancelled ∧ j.out = if p.hpo then some p.cancelOut else none)

theorem Pay.init (p : Params C O) : Pay p (init : Ev C O) := by
  constructor <;> simp [DH.Evaluator.init]

theorem Pay.createTask {p : Params C O} {s : Ev C O} (h : Inv s) (hp : Pay p s) (c : C) :
    Pay p (createTask s c) := by
  constructor
  · intro j hj hact
    simp only [DH.Evaluator.createTask, List.mem_append, List.mem_singleton] at hj
    rcases hj with hj | rfl
    · exact hp.actOut j hj hact
    · rfl
  · intro j hj v hv
    simp only [DH.Evaluator.createTask, List.mem_append, List.mem_singleton] at hj hv
    rcases hj with hj | rfl
    · exact hp.pay j hj v hv
    · have : s.nextId ∈ s.delivered.map (·.1) := List.mem_map.2 ⟨_, hv, rfl⟩
      exact absurd (h.del_lt this) (Nat.lt_irrefl _)

theorem Pay.submit {p : Params C O} {s : Ev C O} (h : Inv s) (hp : Pay p s) (cfgs : List C) :
    Pay p (submit s cfgs) := by
  unfold DH.Evaluator.submit
  have h0 : (Inv (setEventLoop s) ∧ (setEventLoop s).loopOpen = true) ∧ Pay p (setEventLoop s) := by
    refine ⟨h.setEventLoop, ?_⟩
    unfold DH.Evaluator.setEventLoop
    split
    · exact hp
    · exact ⟨hp.actOut, hp.pay⟩
  exact (foldl_createTask_invariant (fun s => (Inv s ∧ s.loopOpen = true) ∧ Pay p s)
    (fun s c hs => ⟨hs.1.1.createTask hs.1.2 c, Pay.createTask hs.1.1 hs.2 c⟩) cfgs _ h0).2

theorem Pay.markStarted {p : Params C O} {s : Ev C O} (h : Inv s) (hp : Pay p s) {st : List Nat}
    (hst : startedOk s st = true) : Pay p { s with jobs := markStarted s.jobs st } := by
  simp only [startedOk, Bool.and_eq_true, decide_eq_true_eq, List.all_eq_true, beq_iff_eq] at hst
  have key : ∀ y ∈ s.jobs, st.contains y.id = true → y.id ∈ s.submitted := by
    intro y _ hc
    rw [← h.runSub]
    have := (hst.2 y.id (by simpa using hc)).1
    simpa [runningIds] using this
  constructor
  · intro x hx hact
    obtain ⟨y, hy, rfl⟩ := mem_markStarted.1 hx
    by_cases hc : st.contains y.id = true
    · simp only [hc, if_true]
      exact hp.actOut y hy ((h.act y hy).2 (key y hy hc))
    · simp only [hc] at hact ⊢
      exact hp.actOut y hy hact
  · intro x hx v hv
    obtain ⟨y, hy, rfl⟩ := mem_markStarted.1 hx
    by_cases hc : st.contains y.id = true
    · simp only [hc, if_true] at hv
      have : y.id ∈ s.delivered.map (·.1) := List.mem_map.2 ⟨_, hv, rfl⟩
      exact absurd this (h.sub_not_del (key y hy hc))
    · simp only [hc] at hv ⊢
      exact hp.pay y hy v hv

/-- a job of the state after `process_local_tasks_done` is one of the processed ones or an old one -/
theorem ManyStep.cases {p : Params C O} {via : Via} {s s' : Ev C O} {l : List Nat}
    {js : List (JobRec C O)} (m : ManyStep p via s s' l js) {x : JobRec C O} (hx : x ∈ s'.jobs) :
    (x ∈ js) ∨ (x.id ∉ l ∧ x ∈ s.jobs) := by
  by_cases hl : x.id ∈ l
  · left
    rw [← m.ids] at hl
    obtain ⟨j, hj, hji⟩ := List.mem_map.1 hl
    have := m.inv.job_unique hx (m.res j hj).2.2 hji.symm
    rw [this]; exact hj
  · right; exact ⟨hl, (m.frame x hl).1 hx⟩

theorem Pay.manyStep {p : Params C O} {via : Via} {s s' : Ev C O} {l : List Nat}
    {js : List (JobRec C O)} (hp : Pay p s) (m : ManyStep p via s s' l js) : Pay p s' := by
  constructor
  · intro x hx hact
    rcases m.cases hx with hj | ⟨_, hxs⟩
    · have := (m.res x hj).1
      simp [active, this] at hact
    · exact hp.actOut x hxs hact
  · intro x hx v hv
    rcases m.cases hx with hj | ⟨hl, hxs⟩
    · exact Or.inl ⟨(m.res x hj).1, (m.res x hj).2.1⟩
    · rw [m.del, List.mem_append] at hv
      rcases hv with hv | hv
      · exact hp.pay x hxs v hv
      · obtain ⟨i, hi, heq⟩ := List.mem_map.1 hv
        simp only [Prod.mk.injEq] at heq
        exact absurd (heq.1 ▸ hi) hl

theorem Pay.cancelClear {p : Params C O} {s : Ev C O} (h : Inv s) (hp : Pay p s) :
    Pay p { cancelActive p s with running := [], submitted := [], loopOpen := false } := by
  constructor
  · intro x hx hact
    simp only [DH.Evaluator.cancelActive, List.mem_map] at hx
    obtain ⟨y, _, rfl⟩ := hx
    by_cases hy : active y = true
    · rw [if_pos hy] at hact; simp [active] at hact
    · rw [if_neg hy] at hact; exact absurd hact hy
  · intro x hx v hv
    simp only [DH.Evaluator.cancelActive, List.mem_map] at hx
    obtain ⟨y, hy, rfl⟩ := hx
    have hv' : (y.id, v) ∈ s.delivered ++ (activeIds s).map (fun i => (i, Via.close)) := by
      by_cases hya : active y = true
      · rw [if_pos hya] at hv; exact hv
      · rw [if_neg hya] at hv; exact hv
    by_cases hya : active y = true
    · rw [if_pos hya]
      right
      have hsub := (h.act y hy).1 hya
      rcases List.mem_append.1 hv' with hd | hd
      · exact absurd (List.mem_map.2 ⟨_, hd, rfl⟩) (h.sub_not_del hsub)
      · obtain ⟨i, _, heq⟩ := List.mem_map.1 hd
        simp only [Prod.mk.injEq] at heq
        refine ⟨heq.2.symm, rfl, ?_⟩
        simp [hp.actOut y hy hya]
    · rw [if_neg hya]
      rcases List.mem_append.1 hv' with hd | hd
      · exact hp.pay y hy v hd
      · obtain ⟨i, hi, heq⟩ := List.mem_map.1 hd
        simp only [Prod.mk.injEq] at heq
        simp only [activeIds, List.mem_map, List.mem_filter] at hi
        obtain ⟨z, ⟨hz, hza⟩, hzi⟩ := hi
        have : z = y := h.job_unique hz hy (hzi.trans heq.1)
        exact absurd (this ▸ hza) hya

/-! ### every reachable state satisfies all three invariants -/

theorem step_good {p : Params C O} {s : Ev C O} (op : Op C) (h : Inv s) (hp : Pay p s)
    (hok : opOk s op = true) : Inv (step p s op).1 ∧ Pay p (step p s op).1 := by
  cases op with
  | submit cfgs => exact ⟨h.submit cfgs, Pay.submit h hp cfgs⟩
  | dump fl =>
    simp only [step]
    rcases dump_shape p s fl with hd | ⟨_, hd⟩ <;> rw [hd]
    · exact ⟨h, hp⟩
    · exact ⟨⟨h.ids, h.runSub, h.part, h.gen, h.loop, h.act⟩, ⟨hp.actOut, hp.pay⟩⟩
  | gather all k st ws =>
    simp only [step]
    rcases gather_spec (p := p) h all k st ws hok with ⟨hg, _⟩ | ⟨hg, _⟩ | ⟨hg, _⟩ |
      ⟨done, s', js, hg, h0, _, hst, _, _, _, hs1, many, _⟩ <;> rw [hg]
    · exact ⟨h, hp⟩
    · exact ⟨h, hp⟩
    · exact ⟨h, hp⟩
    · exact ⟨many.inv, Pay.manyStep (Pay.markStarted h hp hst) many⟩
  | close fin =>
    simp only [step]
    rcases close_spec (p := p) h fin hok with ⟨hc, _⟩ | ⟨hc, _, hre⟩ | ⟨s1, js, _, _, _, many, hc⟩ <;> rw [hc]
    · exact ⟨h, hp⟩
    · exact ⟨⟨h.ids, h.runSub, h.part, h.gen, fun hr => absurd hre hr, h.act⟩,
        ⟨hp.actOut, hp.pay⟩⟩
    · exact ⟨many.inv.cancelClear p, Pay.cancelClear many.inv (Pay.manyStep hp many)⟩

theorem reach_good {p : Params C O} {s : Ev C O} (h : Reach p s) : Inv s ∧ Pay p s ∧ Hist s := by
  induction h with
  | init => exact ⟨Inv.init, Pay.init p, Hist.init⟩
  | step op _ hok ih =>
    obtain ⟨h1, h2⟩ := step_good op ih.1 ih.2.1 hok
    exact ⟨h1, h2, hist_step true p _ op ih.2.2⟩

theorem Trace.reach {p : Params C O} {s : Ev C O} {cs : List C} (h : Trace p s cs) : Reach p s := by
  induction h with
  | init => exact .init
  | step op _ hok ih => exact .step op ih hok

/-! ### configurations are never touched -/

theorem submit_cfgs (s : Ev C O) (cfgs : List C) :
    (submit s cfgs).jobs.map (·.cfg) = s.jobs.map (·.cfg) ++ cfgs := by
  unfold submit
  have hse : (setEventLoop s).jobs = s.jobs := by unfold setEventLoop; split <;> rfl
  rw [← hse]
  generalize setEventLoop s = s0
  induction cfgs generalizing s0 with
  | nil => simp
  | cons c cs ih =>
    simp only [List.foldl_cons]
    rw [ih]
    simp [createTask]

theorem map_cfg_of_idCfg {a b : List (JobRec C O)} (h : a.map idCfg = b.map idCfg) :
    a.map (·.cfg) = b.map (·.cfg) := by
  have := congrArg (List.map Prod.snd) h
  simpa [List.map_map, Function.comp_def, idCfg] using this

theorem step_cfgs {p : Params C O} {s : Ev C O} (op : Op C) (h : Inv s) (hok : opOk s op = true) :
    (step p s op).1.jobs.map (·.cfg) = s.jobs.map (·.cfg) ++ submittedBy op := by
  cases op with
  | submit cfgs => exact submit_cfgs s cfgs
  | dump fl =>
    simp only [step, submittedBy, List.append_nil]
    rcases dump_shape p s fl with hd | ⟨_, hd⟩ <;> rw [hd]
  | gather all k st ws =>
    simp only [step, submittedBy, List.append_nil]
    rcases gather_spec (p := p) h all k st ws hok with ⟨hg, _⟩ | ⟨hg, _⟩ | ⟨hg, _⟩ |
      ⟨done, s', js, hg, _, _, _, _, _, _, _, many, _⟩ <;> rw [hg]
    rw [map_cfg_of_idCfg many.cfgs]
    exact map_cfg_markStarted s.jobs st
  | close fin =>
    simp only [step, submittedBy, List.append_nil]
    rcases close_spec (p := p) h fin hok with ⟨hc, _⟩ | ⟨hc, _⟩ | ⟨s1, js, _, _, _, many, hc⟩ <;> rw [hc]
    rw [← map_cfg_of_idCfg many.cfgs]
    simp only [cancelActive, List.map_map]
    apply List.map_congr_left
    intro j _
    simp only [Function.comp]
    split <;> rfl

theorem Trace.cfgs {p : Params C O} {s : Ev C O} {cs : List C} (h : Trace p s cs) :
    s.jobs.map (·.cfg) = cs := by
  induction h with
  | init => rfl
  | step op ht hok ih => rw [step_cfgs op (reach_good ht.reach).1 hok, ih]

/-- job `k` carries the `k`-th configuration ever submitted -/
theorem Trace.cfg_at {p : Params C O} {s : Ev C O} {cs : List C} (h : Trace p s cs)
    {j : JobRec C O} (hj : j ∈ s.jobs) : cs[j.id]? = some j.cfg := by
  have hinv := (reach_good h.reach).1
  obtain ⟨k, hk, hjk⟩ := List.mem_iff_getElem.1 hj
  have hid : j.id = k := by
    have h1 : (s.jobs.map (·.id))[k]? = some j.id := by simp [hk, hjk]
    rw [hinv.ids] at h1
    have hk' : k < s.nextId := by
      have := congrArg List.length hinv.ids
      simp at this; omega
    simp [hk'] at h1
    omega
  rw [← h.cfgs, hid]
  simp [hk, hjk]

end DH.Evaluator
