import Proofs.EvaluatorMultiOther

/-!
The invariant of the reachable systems (`SInv`): every evaluator is simulated by a reachable state of the
single-evaluator model (`Rel`), the rows are owned by exactly the evaluator that has them in `self.jobs`,
the stored output mirrors the owner's output, and the histories (`job_id_gathered`, `jobs_done`, dumped rows,
reports of other evaluators' jobs) are consistent.  `SInv.replace` is the frame argument: a call of one
evaluator that satisfies `RowsStep` preserves everything about the other evaluators.  Core Lean only.
-/

namespace DH.Evaluator

variable {C O : Type}

/-- the stored output mirrors the owner's output (`HPOJob`s only) -/
def RowP (p : MParams C O) (r : Row C O) : Prop := r.sout = if p.hpo then r.out else none

structure RowsOk (p : MParams C O) (n : Nat) (rows : List (Row C O)) : Prop where
  ids : rows.map (·.id) = List.range rows.length
  owner : ∀ r ∈ rows, r.owner < n
  sout : ∀ r ∈ rows, RowP p r

/-- consistency of an evaluator's histories -/
structure HistOk (p : MParams C O) (rows : List (Row C O)) (me : MEv C O) : Prop where
  gath : me.gathered.Perm (me.delivered.map (·.1) ++ me.reported)
  dumpOnce : (me.dumped ++ me.jobsDone).Perm (me.delivered.map (·.1) ++ me.reported)
  repNodup : me.reported.Nodup
  repForeign : ∀ g ∈ me.reported, g ∉ me.jobs ∧ g < rows.length
  foreign : me.foreign.map (·.id) = me.reported
  fobj : ∀ o ∈ me.foreign, ∃ r ∈ rows, r.id = o.id ∧ activeRow r = false ∧ o.cfg = r.cfg ∧ o.out = r.out ∧
    truthyOut p r.sout = true

structure EvOk (p : MParams C O) (rows : List (Row C O)) (who : Nat) (me : MEv C O) : Prop where
  sim : ∃ s, Reach p.toParams s ∧ Rel rows me s
  own : ∀ r ∈ rows, (r.owner = who ↔ r.id ∈ me.jobs)
  hist : HistOk p rows me

structure SInv (p : MParams C O) (n : Nat) (sys : Sys C O) : Prop where
  len : sys.evs.length = n
  rows : RowsOk p n sys.rows
  ev : ∀ who me, sys.evs[who]? = some me → EvOk p sys.rows who me

theorem SInv.init (p : MParams C O) (n : Nat) : SInv p n (Sys.init n) := by
  refine ⟨by simp [Sys.init], ⟨rfl, by simp [Sys.init], by simp [Sys.init]⟩, ?_⟩
  intro who me h
  have hme : me = MEv.init := by
    simp only [Sys.init] at h
    rw [List.getElem?_replicate] at h
    split at h
    · simpa using h.symm
    · simp at h
  subst hme
  refine ⟨⟨DH.Evaluator.init, Reach.init, ?_⟩, by simp [Sys.init], ?_⟩
  · refine ⟨by simp [MEv.init], by simp [MEv.init], rfl, rfl, rfl, rfl, rfl, rfl, rfl, rfl, rfl⟩
  · refine ⟨?_, ?_, ?_, ?_, rfl, ?_⟩ <;> simp [MEv.init]

/-! ### the numbering does not depend on what the other evaluators create -/

theorem Rel.rebase {rows rows' : List (Row C O)} {me : MEv C O} {s : Ev C O} (hr : Rel rows me s)
    (hi : Inv s) (hlen : rows.length ≤ rows'.length) (hids : rows'.map (·.id) = List.range rows'.length)
    (hown : ownRows rows' me.jobs = ownRows rows me.jobs) : Rel rows' me s := by
  have hsub : ∀ i ∈ s.submitted, i < me.jobs.length := fun i h => hr.n ▸ hi.sub_lt h
  have h1 : s.submitted.map (rho me.jobs rows'.length) = s.submitted.map (rho me.jobs rows.length) :=
    map_rho_congr hsub
  refine ⟨hr.sorted, fun g hg => Nat.lt_of_lt_of_le (hr.lt g hg) hlen, hids, hr.n, ?_, ?_, ?_, ?_, ?_,
    hr.gen, hr.lopen⟩
  · rw [hown]; exact hr.ownIds
  · rw [hown, ← hr.jobs]
    apply List.map_congr_left
    intro j hj
    have : j.id < me.jobs.length := hr.n ▸ hi.job_lt hj
    simp only [renRec, rho_lt this]
  · rw [← hr.running]
    apply List.map_congr_left
    intro t ht
    have : t.id ∈ s.submitted := by rw [← hi.runSub]; exact List.mem_map_of_mem ht
    simp only [renTask, rho_lt (hsub _ this)]
  · rw [h1]; exact hr.submitted
  · rw [← hr.delivered]
    apply List.map_congr_left
    intro x hx
    have : x.1 < me.jobs.length := hr.n ▸ hi.del_lt (List.mem_map_of_mem hx)
    simp only [renDel, rho_lt this]

theorem HistOk.frame {p : MParams C O} {rows rows' : List (Row C O)} {me : MEv C O} (h : HistOk p rows me)
    (hlen : rows.length ≤ rows'.length) (hfrozen : ∀ r ∈ rows, activeRow r = false → r ∈ rows') :
    HistOk p rows' me :=
  ⟨h.gath, h.dumpOnce, h.repNodup, fun g hg => ⟨(h.repForeign g hg).1, Nat.lt_of_lt_of_le (h.repForeign g hg).2 hlen⟩,
    h.foreign, fun o ho => by
      obtain ⟨r, hr, a, b, c⟩ := h.fobj o ho
      exact ⟨r, hfrozen r hr b, a, b, c⟩⟩

/-- **frame**: a call of evaluator `who` that changes the rows as `RowsStep` allows preserves the invariant;
nothing about the other evaluators changes -/
theorem SInv.replace {p : MParams C O} {n : Nat} {sys : Sys C O} (h : SInv p n sys) {who : Nat} {me : MEv C O}
    (hme : sys.evs[who]? = some me) {rows' : List (Row C O)} {me' : MEv C O}
    (hstep : RowsStep who me'.jobs sys.rows rows')
    (hsim : ∃ s', Reach p.toParams s' ∧ Rel rows' me' s')
    (hsub : ∀ g ∈ me.jobs, g ∈ me'.jobs)
    (hnew : ∀ g ∈ me'.jobs, g ∈ me.jobs ∨ sys.rows.length ≤ g)
    (hrowp : ∀ r ∈ rows', RowP p r)
    (hhist : HistOk p rows' me') :
    SInv p n { rows := rows', evs := sys.evs.set who me' } := by
  have hwho : who < n := by
    rw [← h.len]
    exact (List.getElem?_eq_some_iff.1 hme).1
  obtain ⟨s', hs', hr'⟩ := hsim
  have hold := h.ev who me hme
  refine ⟨by simp [h.len], ⟨hr'.ids, ?_, hrowp⟩, ?_⟩
  · intro r' hr'm
    rcases hstep.keys r' hr'm with ⟨r, hr, _, e⟩ | ⟨e, _, _⟩
    · rw [← e]; exact h.rows.owner r hr
    · rw [e]; exact hwho
  · intro j mj hj
    by_cases hjw : j = who
    · subst hjw
      have : mj = me' := by
        rw [List.getElem?_set_self (by rw [h.len]; exact hwho)] at hj
        exact (Option.some.inj hj).symm
      subst this
      refine ⟨⟨s', hs', hr'⟩, ?_, hhist⟩
      intro r' hr'm
      rcases hstep.keys r' hr'm with ⟨r, hr, e1, e2⟩ | ⟨e, hj', _⟩
      · rw [← e1, ← e2, hold.own r hr]
        refine ⟨hsub _, fun hin => ?_⟩
        rcases hnew _ hin with h1 | h1
        · exact h1
        · have := row_id_lt h.rows.ids hr; omega
      · exact ⟨fun _ => hj', fun _ => e⟩
    · rw [List.getElem?_set_ne (fun e => hjw e.symm)] at hj
      have hj0 := h.ev j mj hj
      obtain ⟨s, hs, hr⟩ := hj0.sim
      obtain ⟨hi, _, _⟩ := reach_good hs
      -- the jobs of `j` are not jobs of `who`
      have hdisj : ∀ g ∈ mj.jobs, g ∉ me'.jobs := by
        intro g hg hg'
        have hlt := hr.lt g hg
        obtain ⟨r, hrow⟩ := rowOf_lt h.rows.ids hlt
        obtain ⟨hrm, hrid⟩ := rowOf_some hrow
        have h1 : r.owner = j := (hj0.own r hrm).2 (hrid ▸ hg)
        rcases hnew g hg' with h2 | h2
        · have h3 : r.owner = who := (hold.own r hrm).2 (hrid ▸ h2)
          exact hjw (h1.symm.trans h3)
        · omega
      refine ⟨⟨s, hs, hr.rebase hi hstep.len hr'.ids (hstep.frame _ hdisj)⟩, ?_,
        hj0.hist.frame hstep.len hstep.frozen⟩
      intro r' hr'm
      rcases hstep.keys r' hr'm with ⟨r, hr0, e1, e2⟩ | ⟨e, hj', hge⟩
      · rw [← e1, ← e2]; exact hj0.own r hr0
      · constructor
        · intro e'; exact absurd (e.symm.trans e') (fun e'' => hjw e''.symm)
        · intro hin; have := hr.lt _ hin; omega

end DH.Evaluator
