import Proofs.EvaluatorMultiThm
import Model.Search

/-!
Bridge to the budget model of C03 (`Model/Search.lean`): the counters `Search.submit` works on are the
counters of the evaluator of `Model/EvaluatorMulti.lean` — `_create_tasks` under the cap creates the same
number of jobs and raises `MaximumJobsSpawnReached` in the same cases.  Core Lean only.
-/

namespace DH.Evaluator

variable {C O : Type}

/-- the budget counters of `Model/Search.lean` read off an evaluator of the system -/
def budgetView (base : DH.Search.Ev) (rows : List (Row C O)) (me : MEv C O) : DH.Search.Ev :=
  { base with stored := rows.length, running := me.running.length, offset := me.offset, maxSub := me.maxSub }

theorem createTasks_search (who : Nat) (base : DH.Search.Ev) : ∀ (cfgs : List C) (k : Nat)
    (st : List (Row C O) × MEv C O),
    DH.Search.submit (budgetView base st.1 st.2) cfgs.length =
      (budgetView base (mCreateTasks who st k cfgs).1.1 (mCreateTasks who st k cfgs).1.2,
       (mCreateTasks who st k cfgs).2.isSome)
  | [], k, st => rfl
  | c :: cs, k, st => by
    simp only [List.length_cons, DH.Search.submit, mCreateTasks]
    have hcap : (0 < (budgetView base st.1 st.2).maxSub ∧
        (budgetView base st.1 st.2).maxSub ≤ DH.Search.numSubmitted (budgetView base st.1 st.2)) ↔
        capReached st.1 st.2 = true := by
      unfold capReached mNumSubmitted DH.Search.numSubmitted budgetView
      simp
    by_cases h : capReached st.1 st.2 = true
    · rw [if_pos (hcap.2 h), if_pos h]; rfl
    · rw [if_neg (fun hh => h (hcap.1 hh)), if_neg h]
      have ih := createTasks_search who base cs (k + 1) (mCreateTask who st c)
      have e : budgetView base (mCreateTask who st c).1 (mCreateTask who st c).2 =
          { budgetView base st.1 st.2 with stored := (budgetView base st.1 st.2).stored + 1,
                                           running := (budgetView base st.1 st.2).running + 1 } := by
        unfold budgetView
        rw [mCreateTask_eq]
        simp
      rw [← e]
      exact ih

end DH.Evaluator
