import Proofs.SharedComplete
import Model.StopFlag

/-! The `stopped` flag of `Search._search` (`Model/StopFlag.lean`): the flag is only ever raised; once it is up the loop
returns without another submit; callbacks that do not fire change nothing (`searchF` = `searchO`); every predicate on the
storage that the primitives preserve is preserved by `searchF` for every sequence of callback views; completeness of a
returned `searchF` call; worlds between calls stay `Quiet`.  Core Lean only. -/

namespace DH.Timeout

/-! ### the flag -/

theorem raiseFlag_of_stopped (e : Bool) (v : CbView) : raiseFlag true e v = true := by
  unfold raiseFlag; cases e <;> cases fires v <;> rfl

theorem raiseFlag_of_expired (st : Bool) (v : CbView) : raiseFlag st true v = true := by
  unfold raiseFlag; cases fires v <;> rfl

theorem raiseFlag_of_fires (st e : Bool) {v : CbView} (h : fires v = true) : raiseFlag st e v = true := by
  unfold raiseFlag; rw [h]; rfl

theorem raiseFlag_eq (st e : Bool) (v : CbView) : raiseFlag st e v = (st || e || fires v) := by
  unfold raiseFlag; cases st <;> cases e <;> cases fires v <;> rfl

theorem raiseFlag_silent (e : Bool) {v : CbView} (h : fires v = false) : raiseFlag false e v = e := by
  rw [raiseFlag_eq, h]; cases e <;> rfl

/-- with the flag up the `while` condition fails: nothing is asked, submitted or gathered any more -/
theorem loopF_stopped (strict : Bool) (target : Int) (s : Ev) (nAsk : Nat) (reps : List (List Nat × List Nat))
    (views : List CbView) : loopF strict target s true nAsk reps views = (s, .timeout) := by
  unfold loopF
  simp

theorem flagsF_stopped (strict : Bool) (target : Int) (s : Ev) (nAsk : Nat) (reps : List (List Nat × List Nat))
    (views : List CbView) : flagsF strict target s true nAsk reps views = [] := by
  unfold flagsF
  simp

/-- every step of the flag history: the iteration started with the flag down, the flag afterwards is
`before ∨ expired ∨ fired` (never lowered), and a further step exists only if it was left down -/
theorem flagsF_spec (strict : Bool) (target : Int) :
    ∀ (reps : List (List Nat × List Nat)) (s : Ev) (stopped : Bool) (nAsk : Nat) (views : List CbView),
      (∀ st ∈ flagsF strict target s stopped nAsk reps views,
        st.before = false ∧ st.after = (st.before || st.expired || st.fired)) ∧
      (∀ (i : Nat) (a b : FlagStep), (flagsF strict target s stopped nAsk reps views)[i]? = some a →
        (flagsF strict target s stopped nAsk reps views)[i + 1]? = some b → a.after = false ∧ b.before = a.after) ∧
      (∀ a, (flagsF strict target s stopped nAsk reps views).head? = some a → a.before = stopped) := by
  intro reps
  induction reps with
  | nil =>
    intro s stopped nAsk views
    have : flagsF strict target s stopped nAsk [] views = [] := by
      unfold flagsF; split
      · dsimp only; split <;> rfl
      · rfl
    rw [this]
    simp
  | cons rep rest ih =>
    intro s stopped nAsk views
    cases stopped with
    | true => rw [flagsF_stopped]; simp
    | false =>
      unfold flagsF
      dsimp only
      split
      · split
        · simp
        · generalize gatherO (submitCap (askStep s) nAsk).1 false 1 rep.1 rep.2 = ga
          obtain ⟨g1, g2⟩ := ga
          cases g2 with
          | some e => simp
          | none =>
            simp only
            obtain ⟨h1, h2, h3⟩ := ih g1 (raiseFlag false (expired g1) (views.headD [])) rep.1.length views.tail
            refine ⟨?_, ?_, ?_⟩
            · intro st hst
              rcases List.mem_cons.mp hst with e | e
              · subst e
                exact ⟨rfl, raiseFlag_eq _ _ _⟩
              · exact h1 st e
            · intro i a b ha hb
              cases i with
              | zero =>
                simp only [List.getElem?_cons_zero, Option.some.injEq] at ha
                simp only [Nat.zero_add, List.getElem?_cons_succ] at hb
                subst ha
                have hb' : (flagsF strict target g1 (raiseFlag false (expired g1) (views.headD [])) rep.1.length rest
                    views.tail).head? = some b := by
                  rw [List.head?_eq_getElem?]; exact hb
                have hbb := h3 b hb'
                simp only
                cases hr : raiseFlag false (expired g1) (views.headD []) with
                | false => rw [hr] at hbb; exact ⟨rfl, hbb⟩
                | true =>
                  rw [hr, flagsF_stopped] at hb
                  simp at hb
              | succ k =>
                simp only [List.getElem?_cons_succ] at ha hb
                exact h2 k a b ha hb
            · intro a ha
              simp only [List.head?_cons, Option.some.injEq] at ha
              subst ha
              rfl
      · simp

/-! ### callbacks that do not fire -/

theorem loopF_silent (strict : Bool) (target : Int) :
    ∀ (reps : List (List Nat × List Nat)) (s : Ev) (nAsk : Nat) (views : List CbView),
      (∀ v ∈ views, fires v = false) →
      loopF strict target s false nAsk reps views = loopO strict target s nAsk reps := by
  intro reps
  induction reps with
  | nil =>
    intro s nAsk views _
    unfold loopF loopO
    simp
  | cons rep rest ih =>
    intro s nAsk views hv
    unfold loopF loopO
    dsimp only
    by_cases hc : target < 0 ∨ numEvals strict s < target
    · rw [if_pos ⟨rfl, hc⟩, if_pos hc]
      generalize submitCap (askStep s) nAsk = sub
      by_cases hb : sub.2 = true
      · rw [if_pos hb, if_pos hb]
      · rw [if_neg hb, if_neg hb]
        generalize gatherO sub.1 false 1 rep.1 rep.2 = ga
        obtain ⟨g1, g2⟩ := ga
        cases g2 with
        | some e => cases e <;> rfl
        | none =>
          simp only
          have hf : fires (views.headD []) = false := by
            cases views with
            | nil => rfl
            | cons v vs => exact hv v (List.mem_cons_self ..)
          rw [raiseFlag_silent _ hf]
          cases he : expired g1 with
          | true => rw [loopF_stopped]; simp
          | false =>
            simp only [Bool.false_eq_true, if_false]
            exact ih g1 _ views.tail (fun v hm => hv v (List.mem_of_mem_tail hm))
    · rw [if_neg hc, if_neg (fun h => hc h.2)]
      rfl

/-- **callbacks that never ask for the stop change nothing**: `searchF` is `searchO` -/
theorem searchF_silent (s : Ev) (c : Call) (reps : List (List Nat × List Nat)) (drainRep : List Nat × List Nat)
    (views : List CbView) (hv : ∀ v ∈ views, fires v = false) :
    searchF s c reps drainRep views = searchO s c reps drainRep := by
  unfold searchF searchO prepF targetF
  dsimp only
  rw [loopF_silent _ _ reps _ _ views hv]
  rfl

/-! ### every preserved predicate on the storage is preserved, whatever the callbacks say -/

theorem pres_loopF {P : List Job → Prop} (hP : Pres P) (strict : Bool) (target : Int) :
    ∀ (reps : List (List Nat × List Nat)) (s : Ev) (stopped : Bool) (nAsk : Nat) (views : List CbView), P s.jobs →
      P (loopF strict target s stopped nAsk reps views).1.jobs := by
  intro reps
  induction reps with
  | nil =>
    intro s stopped nAsk views h
    unfold loopF
    dsimp only
    split
    · have := hP.submitCap (askStep s) nAsk h
      split
      · exact this
      · exact this
    · exact h
  | cons rep rest ih =>
    intro s stopped nAsk views h
    unfold loopF
    dsimp only
    split
    · have hsub := hP.submitCap (askStep s) nAsk h
      generalize submitCap (askStep s) nAsk = sub at hsub ⊢
      split
      · exact hsub
      · have hg := pres_gatherO hP sub.1 false 1 rep.1 rep.2 hsub
        generalize gatherO sub.1 false 1 rep.1 rep.2 = ga at hg ⊢
        split
        · exact hg
        · exact hg
        · exact hg
        · exact ih _ _ _ _ hg
    · exact h

theorem pres_prepF {P : List Job → Prop} (s : Ev) (c : Call) (h : P s.jobs) : P (prepF s c).jobs := by
  unfold prepF setTimeout; split <;> exact h

theorem pres_searchF {P : List Job → Prop} (hP : Pres P) (s : Ev) (c : Call)
    (reps : List (List Nat × List Nat)) (drainRep : List Nat × List Nat) (views : List CbView) (h : P s.jobs) :
    P (searchF s c reps drainRep views).1.jobs := by
  unfold searchF
  dsimp only
  have h2 := pres_prepF (P := P) s c h
  generalize prepF s c = s2 at h2 ⊢
  have hl := pres_loopF hP c.strict (targetF s2 c) reps s2 false s2.W views h2
  generalize loopF c.strict (targetF s2 c) s2 false s2.W reps views = lp at hl ⊢
  split
  · exact hl
  · exact hl
  · exact hl
  · exact hl
  · split
    · have hg := pres_gatherO hP lp.1 true 0 drainRep.1 drainRep.2 hl
      generalize gatherO lp.1 true 0 drainRep.1 drainRep.2 = ga at hg ⊢
      split
      · exact hg
      · exact hg
      · exact hg
      · split
        · exact hg
        · exact hP.close _ _ hg
    · exact hP.close _ _ hl

/-- the per-job invariant is a preserved predicate -/
theorem pres_allInv : Pres (fun l => AllInv l) where
  submitN s k h := allInv_submitN s k h
  submitCap s k h := allInv_submitCap k s h
  gather s all size rep h := allInv_gather s all size rep h
  settle s h := allInv_settle s h
  close s rep h := allInv_close s rep h
  other _ _ _ hg h := allInv_gatherOther h hg

/-! ### completeness of a returned call -/

theorem wrep_loopF (strict : Bool) (target : Int) :
    ∀ (reps : List (List Nat × List Nat)) (s : Ev) (stopped : Bool) (nAsk : Nat) (views : List CbView), WRep s →
      SettledStop (loopF strict target s stopped nAsk reps views).2 →
      WRep (loopF strict target s stopped nAsk reps views).1 := by
  intro reps
  induction reps with
  | nil =>
    intro s stopped nAsk views h hs
    unfold loopF at hs ⊢
    dsimp only at hs ⊢
    split
    · next hc =>
      rw [if_pos hc] at hs
      have hsub := wrep_submitCap nAsk (askStep s) (wrep_cfg (s := s) rfl rfl rfl rfl h)
      generalize submitCap (askStep s) nAsk = sub at hsub hs ⊢
      split
      · exact hsub
      · next hr => rw [if_neg hr] at hs; simp [SettledStop] at hs
    · exact h
  | cons rep rest ih =>
    intro s stopped nAsk views h hs
    unfold loopF at hs ⊢
    dsimp only at hs ⊢
    split
    · next hc =>
      rw [if_pos hc] at hs
      have hsub := wrep_submitCap nAsk (askStep s) (wrep_cfg (s := s) rfl rfl rfl rfl h)
      generalize submitCap (askStep s) nAsk = sub at hsub hs ⊢
      split
      · exact hsub
      · next hr =>
        rw [if_neg hr] at hs
        have hg := wrep_gatherO sub.1 false 1 rep.1 rep.2 hsub
        generalize gatherO sub.1 false 1 rep.1 rep.2 = ga at hg hs ⊢
        obtain ⟨g1, g2⟩ := ga
        cases g2 with
        | some e => cases e <;> simp [SettledStop] at hs
        | none =>
          simp only at hs ⊢
          exact ih _ _ _ _ (hg rfl).1 hs
    · exact h

/-- **completeness of one `search()` call with callbacks on a (possibly shared) storage**: if it returns, nothing is
left running, `jobs_done` has no duplicate and holds every job of the storage -/
theorem wrep_searchF (s : Ev) (c : Call) (reps : List (List Nat × List Nat)) (drainRep : List Nat × List Nat)
    (views : List CbView) (h : WRep s) (hs : SettledStop (searchF s c reps drainRep views).2) :
    WRep (searchF s c reps drainRep views).1 ∧ (searchF s c reps drainRep views).1.running = [] ∧
    ∀ i, i < (searchF s c reps drainRep views).1.jobs.length → i ∈ (searchF s c reps drainRep views).1.results := by
  unfold searchF at hs ⊢
  dsimp only at hs ⊢
  have h2 : WRep (prepF s c) := by
    unfold prepF setTimeout
    split <;> exact wrep_cfg (s := s) rfl rfl rfl rfl h
  generalize prepF s c = s2 at h2 hs ⊢
  have hl := wrep_loopF c.strict (targetF s2 c) reps s2 false s2.W views h2
  generalize loopF c.strict (targetF s2 c) s2 false s2.W reps views = lp at hl hs ⊢
  obtain ⟨l1, l2⟩ := lp
  have close_nil : ∀ (t : Ev), t.running = [] → (close t []).1 = t := by
    intro t ht; unfold close; simp [ht]
  have fin : ∀ (st : Stop), SettledStop st → WRep l1 →
      SettledStop (if numSubmitted l1 > numGathered l1 then
        match (gatherO l1 true 0 drainRep.1 drainRep.2).2 with
        | some .noJobs => ((gatherO l1 true 0 drainRep.1 drainRep.2).1, Stop.noJobs)
        | some .hang => ((gatherO l1 true 0 drainRep.1 drainRep.2).1, Stop.hang)
        | some .badEnv => ((gatherO l1 true 0 drainRep.1 drainRep.2).1, Stop.badEnv)
        | none =>
          if numSubmitted (gatherO l1 true 0 drainRep.1 drainRep.2).1 >
              numGathered (gatherO l1 true 0 drainRep.1 drainRep.2).1 then
            ((gatherO l1 true 0 drainRep.1 drainRep.2).1, Stop.hang)
          else ((close (gatherO l1 true 0 drainRep.1 drainRep.2).1 []).1, st)
      else ((close l1 []).1, st)).2 →
      let r := (if numSubmitted l1 > numGathered l1 then
        match (gatherO l1 true 0 drainRep.1 drainRep.2).2 with
        | some .noJobs => ((gatherO l1 true 0 drainRep.1 drainRep.2).1, Stop.noJobs)
        | some .hang => ((gatherO l1 true 0 drainRep.1 drainRep.2).1, Stop.hang)
        | some .badEnv => ((gatherO l1 true 0 drainRep.1 drainRep.2).1, Stop.badEnv)
        | none =>
          if numSubmitted (gatherO l1 true 0 drainRep.1 drainRep.2).1 >
              numGathered (gatherO l1 true 0 drainRep.1 drainRep.2).1 then
            ((gatherO l1 true 0 drainRep.1 drainRep.2).1, Stop.hang)
          else ((close (gatherO l1 true 0 drainRep.1 drainRep.2).1 []).1, st)
      else ((close l1 []).1, st))
      WRep r.1 ∧ r.1.running = [] ∧ ∀ i, i < r.1.jobs.length → i ∈ r.1.results := by
    intro st _ hr hs'
    intro r
    show WRep r.1 ∧ r.1.running = [] ∧ ∀ i, i < r.1.jobs.length → i ∈ r.1.results
    simp only [r]
    split
    · next hd =>
      rw [if_pos hd] at hs'
      have hg := wrep_gatherO l1 true 0 drainRep.1 drainRep.2 hr
      generalize gatherO l1 true 0 drainRep.1 drainRep.2 = ga at hg hs' ⊢
      obtain ⟨g1, g2⟩ := ga
      cases g2 with
      | some e => cases e <;> simp [SettledStop] at hs'
      | none =>
        simp only at hs' ⊢
        obtain ⟨a, b, cc⟩ := hg rfl
        have b' := cc rfl
        simp only at a b b'
        split
        · next hd2 => rw [if_pos hd2] at hs'; simp [SettledStop] at hs'
        · rw [close_nil g1 b']
          exact ⟨a, b', cover_of_full a b b'⟩
    · next hd =>
      have hcnt : l1.jobs.length ≤ l1.results.length := by
        unfold numSubmitted numGathered at hd
        omega
      obtain ⟨c1, c2⟩ := cover_of_count hr hcnt
      rw [close_nil l1 c2]
      exact ⟨hr, c2, c1⟩
  cases l2 with
  | noJobs => simp [SettledStop] at hs
  | hang => simp [SettledStop] at hs
  | badEnv => simp [SettledStop] at hs
  | envExhausted => simp [SettledStop] at hs
  | budget => exact fin .budget (Or.inl rfl) (hl (Or.inl rfl)) hs
  | cap => exact fin .cap (Or.inr (Or.inl rfl)) (hl (Or.inr (Or.inl rfl))) hs
  | timeout => exact fin .timeout (Or.inr (Or.inr rfl)) (hl (Or.inr (Or.inr rfl))) hs

/-- one returned `search()` call (with callbacks) of evaluator `k` in a quiet world: its table is complete, the world
is quiet again -/
theorem quiet_searchF {w : World} (hq : Quiet w) {k : Nat} {l : Local} (hk : w.evs[k]? = some l)
    (c : Call) (reps : List (List Nat × List Nat)) (drainRep : List Nat × List Nat) (views : List CbView)
    (hs : SettledStop (searchF (view w l) c reps drainRep views).2) :
    Quiet (put w k (searchF (view w l) c reps drainRep views).1) ∧
    (searchF (view w l) c reps drainRep views).1.running = [] ∧
    (searchF (view w l) c reps drainRep views).1.results.Nodup ∧
    (∀ i, i < (searchF (view w l) c reps drainRep views).1.jobs.length ↔
      i ∈ (searchF (view w l) c reps drainRep views).1.results) ∧
    ∀ (i : Nat) (j : Job), (searchF (view w l) c reps drainRep views).1.jobs[i]? = some j →
      (j.pc = .gathered ∨ j.pc = .closedOut) ∧ (j.status = .done ∨ j.status = .cancelled) := by
  have hl : l ∈ w.evs := List.mem_of_getElem? hk
  have hw := wrep_view hq hl
  obtain ⟨a, b, cc⟩ := wrep_searchF (view w l) c reps drainRep views hw hs
  have hboth := pres_searchF (pres_inv_keeps w.jobs) (view w l) c reps drainRep views ⟨hq.inv, Keeps.refl _⟩
  have hinv : AllInv (searchF (view w l) c reps drainRep views).1.jobs := hboth.1
  have hkeep : Keeps w.jobs (searchF (view w l) c reps drainRep views).1.jobs := hboth.2
  generalize (searchF (view w l) c reps drainRep views).1 = s' at a b cc hinv hkeep ⊢
  have hlt_of_res : ∀ i ∈ s'.results, i < s'.jobs.length := by
    intro i hi
    have := (List.getElem?_eq_some_iff.mp (a.res i hi)).1
    rwa [clsList_length] at this
  have hrep : ∀ (i : Nat) (j : Job), s'.jobs[i]? = some j → j.pc = .gathered ∨ j.pc = .closedOut := by
    intro i j hj
    have hi : i < s'.jobs.length := (List.getElem?_eq_some_iff.mp hj).1
    have h1 := a.res i (cc i hi)
    rw [clsList_getElem?, hj] at h1
    simp only [Option.map_some, Option.some.injEq] at h1
    exact cls_one h1
  have hmono : ∀ i, i < w.jobs.length → i < s'.jobs.length := by
    intro i hi
    have hj : w.jobs[i]? = some w.jobs[i] := List.getElem?_eq_getElem hi
    have hf : Final w.jobs[i] := by
      rcases hq.reported _ (List.getElem_mem hi) with e | e
      · exact Or.inl e
      · exact Or.inr (Or.inl e)
    exact (List.getElem?_eq_some_iff.mp (hkeep i _ hj hf)).1
  refine ⟨⟨hq.hpo, hinv, ?_, ?_⟩, b, a.nodupR, fun i => ⟨cc i, hlt_of_res i⟩, ?_⟩
  · intro j hj
    obtain ⟨i, hi, rfl⟩ := List.getElem_of_mem hj
    exact hrep i _ (List.getElem?_eq_getElem hi)
  · intro l' hl'
    show l'.running = [] ∧ l'.results.Nodup ∧ ∀ i ∈ l'.results, i < s'.jobs.length
    have hl'' : l' ∈ w.evs.set k (localOf s') := hl'
    rcases List.mem_or_eq_of_mem_set hl'' with h | h
    · obtain ⟨x, y, z⟩ := hq.evs l' h
      exact ⟨x, y, fun i hi => hmono i (z i hi)⟩
    · subst h
      exact ⟨b, a.nodupR, hlt_of_res⟩
  · intro i j hj
    have hp := hrep i j hj
    exact ⟨hp, terminal_of_reported (hinv j (List.mem_of_getElem? hj)) hp⟩

theorem wsearchesF_quiet : ∀ (hist : List WCallF) (w : World), Quiet w →
    (∀ st ∈ (wsearchesF w hist).2, SettledStop st) → Quiet (wsearchesF w hist).1
  | [], w, hq, _ => by simpa [wsearchesF] using hq
  | c :: rest, w, hq, hs => by
    unfold wsearchesF at hs ⊢
    cases hk : w.evs[c.k]? with
    | none =>
      simp only [hk] at hs ⊢
      exact wsearchesF_quiet rest w hq hs
    | some l =>
      simp only [hk] at hs ⊢
      have h1 := quiet_searchF hq hk c.call c.reps c.drainRep c.views (hs _ (List.mem_cons_self ..))
      exact wsearchesF_quiet rest _ h1.1 (fun st hst => hs st (List.mem_cons_of_mem _ hst))

/-- the per-job invariant through any history of `search()` calls with callbacks -/
theorem wsearchesF_allInv : ∀ (hist : List WCallF) (w : World), AllInv w.jobs → AllInv (wsearchesF w hist).1.jobs
  | [], w, h => by simpa [wsearchesF] using h
  | c :: rest, w, h => by
    unfold wsearchesF
    cases hk : w.evs[c.k]? with
    | none => simp only; exact wsearchesF_allInv rest w h
    | some l =>
      simp only
      exact wsearchesF_allInv rest _ (pres_searchF pres_allInv (view w l) c.call c.reps c.drainRep c.views h)

end DH.Timeout
