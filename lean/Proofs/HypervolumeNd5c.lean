import Proofs.HypervolumeNd5b

/-! `levelN` under the relativised invariant; induction over the levels; `compute` for the larger class
(boundary coordinates in the objectives `0, 1, 2, 3` and the last one — everything for `m ≤ 5`). -/

namespace DH.Hypervolume
open DH.Pareto (Vec wdVec)

/-- **the general branch of `hvRecursive` satisfies the relativised level specification** -/
theorem levelN_L {R : Run} (hR : R.OK5) {d : Nat} (hd2 : 2 ≤ d) (hdm : d < R.m)
    (rec : List Nat → St → Rat × St) (hrec : SpecL R (d - 1) rec) :
    SpecL R d (fun S st => levelN true d rec (R.lk d S) st) := by
  intro S st hSne hSnd hSlt hW hC hF
  have hB := hR.toBase
  -- list d
  have hl := listD_lk hB hdm hSlt
  have hmem : ∀ x, x ∈ R.lk d S ↔ x ∈ S := fun x => mem_lk hB hdm hSlt
  generalize hldef : R.lk d S = l at hl hmem
  have hlne : l ≠ [] := by
    obtain ⟨x, hx⟩ := List.exists_mem_of_ne_nil S hSne
    exact List.ne_nil_of_mem ((hmem x).mpr hx)
  have hzc : ∀ (st' : St), WF R st' → ∀ x k, co (st'.node x).cargo k = zc R.rel k x := by
    intro st' hW' x k; rw [hW'.cargo x]; rfl
  -- step 1: reset
  obtain ⟨hrr, hrl⟩ := resetIgnore_rel d l st
  have hrout := resetIgnore_out d l st
  generalize hst1 : resetIgnore d st l = st1 at hrr hrl hrout
  have hW1 : WF R st1 := ⟨by rw [hrr.len]; exact hW.len, by rw [hrr.bounds]; exact hW.blen,
    fun i => by rw [(hrr.node i).1]; exact hW.cargo i,
    fun i hi => by rw [(hrr.node i).2.1, (hrr.node i).2.2.1]; exact hW.alen i hi,
    by rw [hrr.bounds]; exact hW.bnd⟩
  have hC1 : ∀ k, 2 ≤ k → k ≤ d → CacheL R k S st1 := fun k hk2 hkd =>
    (hC k hk2 hkd).congr (fun x => by rw [(hrr.node x).2.1, (hrr.node x).2.2.1]; exact ⟨rfl, rfl⟩)
      (by rw [hrr.bounds])
  have hflag1 : ∀ x ∈ l, (st1.node x).ignore = 0 ∨ d ≤ (st1.node x).ignore := hrl
  have hF1 : AllFIG R S st1 := by
    intro x hx
    rcases hflag1 x ((hmem x).mpr hx) with h0 | hge
    · exact Or.inl h0
    · rcases (hrr.node x).2.2.2 with he | ⟨he, _⟩
      · exact (hF x hx (by rw [← he]; exact hge)).congr he
      · exact Or.inl he
  have hFr1 : Frame d S st st1 := by
    refine ⟨hrr.len, by rw [hrr.bounds], fun x hx => hrout x (fun h => hx ((hmem x).mp h)), fun x => ?_,
      fun j _ => by rw [hrr.bounds]⟩
    obtain ⟨c1, a1, v1, i1⟩ := hrr.node x
    refine ⟨c1, by rw [a1], by rw [v1], fun j _ => by rw [a1, v1]; exact ⟨rfl, rfl⟩, ?_, ?_⟩
    · intro h; rcases i1 with i1 | ⟨_, i1⟩
      · exact i1
      · omega
    · intro h; rcases i1 with i1 | ⟨i1, _⟩
      · rw [i1]; exact h
      · rw [i1]; omega
  -- step 2: unlink
  obtain ⟨keptRev, Rm, st2, hrm, hrev, hkne, hn2, hbl2, hbge2, hblt2, hstop⟩ := removeLoop_spec d l.reverse [] st1
  rw [List.append_nil] at hrm
  have hkne' : keptRev ≠ [] := hkne (by simpa using hlne)
  obtain ⟨q, kr, rfl⟩ : ∃ q kr, keptRev = q :: kr := by
    cases keptRev with
    | nil => exact absurd rfl hkne'
    | cons q kr => exact ⟨q, kr, rfl⟩
  have hlsplit : l = kr.reverse ++ [q] ++ Rm := by
    have := congrArg List.reverse hrev
    simpa using this
  have hnode2 : ∀ x, st2.node x = st1.node x := node_eq_of_nodes_eq st1 st2 hn2 hbl2
  have hW2 : WF R st2 := ⟨by rw [hn2]; exact hW1.len, by rw [hbl2]; exact hW1.blen,
    fun i => by rw [hnode2 i]; exact hW1.cargo i, fun i hi => by rw [hnode2 i]; exact hW1.alen i hi,
    fun k => by
      by_cases hk : d ≤ k
      · rw [hbge2 k hk]; exact hW1.bnd k
      · by_cases hkb : k < st1.bounds.length
        · exact le_trans (hblt2 k (by omega) hkb).1 (hW1.bnd k)
        · rw [List.getD_eq_getElem?_getD, List.getElem?_eq_none (by rw [hbl2]; omega)]; exact le_refl _⟩
  have hKsub : ∀ x ∈ kr.reverse ++ [q], x ∈ l := fun x hx => by rw [hlsplit]; exact List.mem_append.mpr (Or.inl hx)
  have hKlt : ∀ i ∈ kr.reverse ++ [q], i < R.rel.length := fun i hi => hl.lt i (hKsub i hi)
  have hKnd : (kr.reverse ++ [q]).Nodup := by
    have := hl.nodup; rw [hlsplit] at this; exact (List.nodup_append.mp this).1
  have hRm_l : ∀ x ∈ Rm, x ∈ l := fun x hx => by rw [hlsplit]; exact List.mem_append.mpr (Or.inr hx)
  have hC2 : ∀ k, 2 ≤ k → k < d → CacheL R k (kr.reverse ++ [q]) st2 := by
    intro k hk2 hkd
    have hkb : k < st1.bounds.length := by rw [hW1.blen]; omega
    refine CacheL.restrict hB (by omega) (hC1 k hk2 (by omega)) ?_ (fun x => by rw [hnode2 x]; exact ⟨rfl, rfl⟩)
      (hblt2 k hkd hkb).1
    intro y hy
    constructor
    · intro hyS
      have hyl : y ∈ l := (hmem y).mpr hyS
      rw [hlsplit] at hyl
      rcases List.mem_append.mp hyl with h | h
      · exact h
      · exfalso
        have := (hblt2 k hkd hkb).2 y h
        rw [hzc st1 hW1] at this
        exact absurd hy (not_lt.mpr this)
    · intro hyK; exact (hmem y).mp (hKsub y hyK)
  -- flags after the unlink loop
  have hjust_l : ∀ x ∈ l, JustLG R d l st2 x := by
    intro x hx
    unfold JustLG
    rw [hnode2 x]
    rcases hflag1 x hx with h0 | hge
    · exact Or.inl h0
    · rcases hF1 x ((hmem x).mp hx) with h0 | ⟨hem, hj⟩
      · exact Or.inl h0
      · refine Or.inr ⟨hge, hem, ?_⟩
        rcases hj with ⟨r, hrS, hrx, hbef, hdom⟩ | hz | ⟨z, hzS, hzr⟩
        · exact Or.inl ⟨r, (hmem r).mpr hrS, hrx, hbef, hdom⟩
        · exact Or.inr (Or.inl hz)
        · exact Or.inr (Or.inr ⟨z, (hmem z).mpr hzS, hzr⟩)
  have hF2 : AllFIG R (kr.reverse ++ [q]) st2 := fun x hx =>
    justG_prefix hR hd2 hl hlsplit hx (hjust_l x (hKsub x hx))
  -- nodes of list d strictly below bounds[d]: a live set is live one level down
  have hpred : ∀ P x, (∀ y ∈ P ++ [x], zc R.rel d y ≤ zc R.rel d x) → zc R.rel d x < st1.bounds.getD d 0 →
      Live R d (P ++ [x]) → Live R (d - 1) (P ++ [x]) := by
    intro P x hle hz hlive
    exact hlive.pred (fun y hy => lt_of_le_of_lt (hle y hy) (lt_of_lt_of_le hz (hW1.bnd d)))
  have hsorted_pre : ∀ P x post, l = P ++ x :: post → ∀ y ∈ P ++ [x], zc R.rel d y ≤ zc R.rel d x := by
    intro P x post hsplit y hy
    rcases List.mem_append.mp hy with hy | hy
    · have hs := hl.sorted
      rw [hsplit] at hs
      exact (List.pairwise_append.mp hs).2.2 y hy x (by simp)
    · simp only [List.mem_singleton] at hy; subst hy; exact le_refl _
  -- the kept nodes in front of q hold valid level-d values
  have hLv2 : LvlValsL R d l kr.reverse st2 := by
    intro P x post hsplit hx
    rw [hnode2 x]
    have hcache := hC1 d hd2 (Nat.le_refl _)
    unfold CacheL at hcache
    rw [hldef] at hcache
    suffices hz : zc R.rel d x < st1.bounds.getD d 0 by
      exact ⟨fun hlive => (hcache P x post hsplit hz hlive).1,
        fun hlive => (hcache P x post hsplit hz (hpred P x (hsorted_pre P x post hsplit) hz hlive)).2⟩
    -- x is strictly below bounds[d]
    cases kr with
    | nil => simp at hx
    | cons q' kr' =>
      have hs := hstop q q' kr' rfl
      have hq'b : zc R.rel d q' < st1.bounds.getD d 0 := by
        have := hs.2; rw [hzc st1 hW1] at this; exact not_le.mp this
      have hxle : zc R.rel d x ≤ zc R.rel d q' := by
        simp only [List.reverse_cons, List.mem_append, List.mem_singleton] at hx
        rcases hx with hx | rfl
        · have hsrt := hl.sorted
          rw [hlsplit] at hsrt
          simp only [List.reverse_cons, List.append_assoc] at hsrt
          exact (List.pairwise_append.mp hsrt).2.2 x (by simpa using hx) q' (by simp)
        · exact le_refl _
      exact lt_of_le_of_lt hxle hq'b
  -- step 3: the start node
  have hstart : ∃ v st3, startNode true d q kr.head? st2 = (v, st3) ∧
      (Live R d (kr.reverse ++ [q]) → v = volSum R.rel d (kr.reverse ++ [q])) ∧
      WF R st3 ∧ (∀ k, 2 ≤ k → k < d → CacheL R k (kr.reverse ++ [q]) st3) ∧
      AllFIG R (kr.reverse ++ [q]) st3 ∧ LvlValsL R d l kr.reverse st3 ∧ Frame d (kr.reverse ++ [q]) st2 st3 ∧
      (∀ x, x ≠ q → st3.node x = st2.node x) ∧
      ((kr.head? = none ∧ kr.reverse = []) ∨ (∃ q', kr.head? = some q' ∧ q' ∈ kr.reverse ∧
        (Live R (d - 1) kr.reverse → (st3.node q').area.getD d 0 = Vk R.rel (d - 1) kr.reverse))) := by
    cases kr with
    | nil =>
      have hq : q < R.rel.length := hKlt q (by simp)
      have hqn : q < st2.nodes.length := by rw [hW2.len]; exact hq
      have hdl : d < (st2.node q).area.length := by rw [(hW2.alen q hq).1]; exact hdm
      refine ⟨0, st2.setNode q { st2.node q with area := areaInit true d (st2.node q).area (st2.node q).cargo },
        rfl, fun _ => rfl, ?_, ?_, ?_, ?_, ?_, fun x hx => node_setNode_ne st2 q x _ (Ne.symm hx), Or.inl ⟨rfl, rfl⟩⟩
      · exact WF.setNode hW2 q _ rfl (areaInit_len d _ _ hdl) rfl
      · intro k hk2 hkd P x post hsplit hz hlive
        have hlk1 : R.lk k ([].reverse ++ [q]) = [q] := by
          have hp := lk_perm hB (show k < R.m by omega) (S := [q]) (by simpa using hq) (by simp)
          exact List.perm_singleton.mp hp
        rw [hlk1] at hsplit
        have hP : P = [] ∧ x = q := by
          cases P with
          | nil => simp at hsplit; exact ⟨rfl, hsplit.1.symm⟩
          | cons a P => simp at hsplit
        obtain ⟨rfl, rfl⟩ := hP
        rw [node_setNode_self st2 x _ hqn]
        constructor
        · show (areaInit true d (st2.node x).area (st2.node x).cargo).getD k 0 = _
          show _ = Vk R.rel (k - 1) [x]
          rw [areaInit_mid d _ _ hdl k (by omega) (by omega), hW2.cargo x,
            Vk_single hB hq (show k - 1 < R.m by omega)]
          have : k - 1 + 1 = k := by omega
          rw [this]
        · have hold := hC2 k hk2 hkd [] x [] (by rw [hlk1]; rfl) hz hlive
          exact hold.2
      · intro x hx
        refine (hF2 x hx).congr ?_
        by_cases hxq : x = q
        · subst hxq; rw [node_setNode_self st2 x _ hqn]
        · rw [node_setNode_ne st2 q x _ (Ne.symm hxq)]
      · intro P x post _ hx; simp at hx
      · refine frame_single (by simp) (setNode_length _ _ _) rfl
          (fun x hx => node_setNode_ne st2 q x _ (Ne.symm hx)) ?_
        rw [node_setNode_self st2 q _ hqn]
        exact ⟨rfl, areaInit_len d _ _ hdl, rfl, fun j hj => ⟨areaInit_hi d _ _ hdl j hj, rfl⟩,
          fun _ => rfl, fun h => h⟩
    | cons q' kr' =>
      have hq'mem : q' ∈ (q' :: kr').reverse := by simp
      have hsplitq' : l = kr'.reverse ++ q' :: (q :: Rm) := by rw [hlsplit]; simp
      have hvals := hLv2 kr'.reverse q' (q :: Rm) hsplitq' hq'mem
      have hrevq' : (q' :: kr').reverse = kr'.reverse ++ [q'] := by simp
      -- q' is strictly below bounds[d]
      have hq'b : zc R.rel d q' < st1.bounds.getD d 0 := by
        have := (hstop q q' kr' rfl).2; rw [hzc st1 hW1] at this; exact not_le.mp this
      refine ⟨(st2.node q').volume.getD d 0 + (st2.node q').area.getD d 0 *
          (co (st2.node q).cargo d - co (st2.node q').cargo d), st2, rfl, ?_, hW2, hC2, hF2, hLv2,
        Frame.refl _ _ _, fun _ _ => rfl,
        Or.inr ⟨q', rfl, hq'mem, fun hlive => by rw [hrevq'] at hlive ⊢; exact hvals.1 hlive⟩⟩
      intro hlive
      have hliveK : Live R d (kr'.reverse ++ [q']) :=
        hlive.subset (fun x hx => by rw [hrevq']; exact List.mem_append.mpr (Or.inl hx))
      have hlive1 := hpred kr'.reverse q' (hsorted_pre _ _ _ hsplitq') hq'b hliveK
      rw [hvals.1 hlive1, hvals.2 hliveK, hzc st2 hW2, hzc st2 hW2]
      have := volSum_snoc R.rel d kr'.reverse q' q
      simp only [List.reverse_cons]
      rw [this]
  obtain ⟨v3, st3, hs3, hv3, hW3, hC3, hF3, hLv3, hFr3, hoth3, hprev3⟩ := hstart
  -- step 4: settle the start node
  have hbefore_q : ∀ r ∈ kr.reverse, Before (R.orders.getD d []) r q := by
    rw [← hldef] at hlsplit
    have := (listD_lk hB hdm hSlt).before_of kr.reverse q Rm (by rw [hlsplit]; simp)
    exact this
  obtain ⟨hW4, hC4, hF4, hA4, hV4, hFr4, hoth4, hbd4⟩ :=
    settle_L hB hd2 hdm rec hrec kr.reverse q kr.head? v3 st3
      hKnd hKlt hW3 hC3 hF3 hbefore_q hprev3
  generalize hst4 : settle d rec q kr.head? (kr.reverse ++ [q]) v3 st3 = st4
    at hW4 hC4 hF4 hA4 hV4 hFr4 hoth4 hbd4
  have hq_notK0 : q ∉ kr.reverse := by
    have := List.nodup_append.mp hKnd
    intro h; exact this.2.2 q h q (by simp) rfl
  -- step 5: the re-insertion loop
  have hLv4 : LvlValsL R d l (kr.reverse ++ [q]) st4 := by
    intro P x post hsplit hx
    rcases List.mem_append.mp hx with hx | hx
    · have hxq : x ≠ q := fun h => hq_notK0 (h ▸ hx)
      have hnf := hoth4 x hxq
      rw [(hnf.hi d (by omega)).1, (hnf.hi d (by omega)).2]
      exact hLv3 P x post hsplit hx
    · simp only [List.mem_singleton] at hx; subst hx
      have := (nodup_split_unique hl.nodup hsplit (show l = kr.reverse ++ x :: Rm by rw [hlsplit]; simp)).1
      subst this
      exact ⟨hA4, fun hlive => by rw [hV4]; exact hv3 hlive⟩
  have hJ4 : ∀ x ∈ Rm, JustLG R d l st4 x := by
    intro x hx
    have hxnot : x ∉ kr.reverse ++ [q] := by
      have := hl.nodup; rw [hlsplit] at this
      intro h; exact (List.nodup_append.mp this).2.2 x h x hx rfl
    have hxq : x ≠ q := fun h => hxnot (by simp [h])
    have hsame : st4.node x = st2.node x := by rw [hFr4.out x hxnot, hoth3 x hxq]
    have := hjust_l x (hRm_l x hx)
    unfold JustLG at this ⊢
    rw [hsame]; exact this
  obtain ⟨K0', q', e1, e2, e3, e4, e5, e6, e7, e8, e9⟩ :=
    reinsertLoop_L hR hd2 hdm rec hrec l hl Rm kr.reverse q (kr.reverse ++ [q])
      v3 st4 hlsplit (fun x hx => hx) hW4 hC4 hF4 hA4 hv3 hLv4 hJ4
  generalize hout : reinsertLoop d rec Rm q (kr.reverse ++ [q]) v3 st4 = out
    at e2 e3 e4 e5 e6 e7 e8 e9
  -- assemble
  have hval : levelN true d rec l st = finish d out := by
    unfold levelN
    rw [hst1]
    dsimp only
    rw [hrm]
    dsimp only
    rw [hs3]
    dsimp only
    rw [show (q :: kr).reverse = kr.reverse ++ [q] by simp, hst4, hout]
  show (Live R d S → (levelN true d rec (R.lk d S) st).1 = Vk R.rel d S) ∧ WF R (levelN true d rec (R.lk d S) st).2 ∧
    (∀ k, 2 ≤ k → k ≤ d → CacheL R k S (levelN true d rec (R.lk d S) st).2) ∧
    AllFIG R S (levelN true d rec (R.lk d S) st).2 ∧ Frame d S st (levelN true d rec (R.lk d S) st).2
  rw [hldef, hval]
  have hfin2 : (finish d out).2 = out.2.2 := rfl
  have hfin1 : (finish d out).1 = out.2.1 - (out.2.2.node out.1).area.getD d 0 * co (out.2.2.node out.1).cargo d := rfl
  rw [hfin2, hfin1, e2, hzc out.2.2 e5]
  have hlS : ∀ x, x ∈ l ↔ x ∈ S := hmem
  have hq'l : q' ∈ l := by rw [e1]; simp
  have hq'lt : q' < R.rel.length := hl.lt q' hq'l
  refine ⟨?_, e5, ?_, ?_, ?_⟩
  · -- the value
    intro hliveS
    have hlivel : Live R d l := hliveS.subset (fun x hx => (hlS x).mp hx)
    rw [e3 hlivel]
    obtain ⟨dd, rfl⟩ : ∃ dd, d = dd + 1 := ⟨d - 1, by omega⟩
    have hlast := Vk_last hR.rect hdm K0' q' (by rw [← e1]; exact hl.lt) (by rw [← e1]; exact hl.sorted)
      (by rw [← e1]; intro i hi; exact (hR.inter i (dd + 1) (hl.lt i hi) hdm).2)
    rw [← e1] at hlast
    simp only [Nat.add_sub_cancel] at hlast e4 ⊢
    rw [← Vk_congr R.rel (dd + 1) hlS, hlast]
    by_cases hz : zc R.rel (dd + 1) q' < 0
    · have hlive1 : Live R dd l := by
        have := hlivel.pred (fun y hy => by
          have hs := hl.sorted
          rw [e1] at hs hy
          rcases List.mem_append.mp hy with hy | hy
          · exact lt_of_le_of_lt ((List.pairwise_append.mp hs).2.2 y hy q' (by simp)) hz
          · simp only [List.mem_singleton] at hy; subst hy; exact hz)
        simpa using this
      rw [e4 hlive1]; ring
    · have h0 : zc R.rel (dd + 1) q' = 0 := le_antisymm (hR.inter q' (dd + 1) hq'lt hdm).2 (not_lt.mp hz)
      rw [h0]; ring
  · intro k hk2 hkd
    by_cases hkd' : k < d
    · have := e6 k hk2 hkd'
      unfold CacheL at this ⊢
      rw [lk_congr (k := k) hlS] at this
      exact this
    · have hkd'' : k = d := by omega
      subst hkd''
      intro P x post hsplit hz hlive
      rw [hldef] at hsplit
      obtain ⟨h1, h2⟩ := e9 P x post hsplit (by
        have : x ∈ l := by rw [hsplit]; simp
        rw [hlsplit] at this
        simpa [List.mem_append] using this)
      exact ⟨h1 hlive, h2 (hlive.mono (by omega))⟩
  · intro x hx
    exact (e7 x ((hlS x).mpr hx)).mono (fun y hy => (hlS y).mp hy)
  · have hFr2 : Frame d S st1 st2 :=
      ⟨by rw [hn2], hbl2, fun x _ => hnode2 x, fun x => by rw [hnode2 x]; exact NodeFrame.refl _ _,
       fun j hj => hbge2 j (by omega)⟩
    have hsubK : ∀ x ∈ kr.reverse ++ [q], x ∈ S := fun x hx => (hlS x).mp (hKsub x hx)
    exact (((hFr1.trans hFr2).trans (hFr3.mono (Nat.le_refl _) hsubK)).trans
      (hFr4.mono (Nat.le_refl _) hsubK)).trans (e8.mono (Nat.le_refl _) (fun x hx => (hlS x).mp hx))

/-! ### induction over the recursion levels -/

/-- level 1 (the 2-D sweep) satisfies the relativised level specification; it does not touch the state
and its value is exact for every linked set -/
theorem spec_one_L {R : Run} (hR : R.Base) (hm : 1 < R.m) : SpecL R 1 (hvRecursive true R.orders 1) := by
  intro S st hSne hSnd hSlt hW _ hF
  -- value, `WF` and `Frame` from the unrelativised statement on a state without flags
  have hemp : S.isEmpty = false := by cases S <;> simp_all
  have hval : hvRecursive true R.orders 1 S st
      = (sweep2 ((R.lk 1 S).map (fun i => R.rel.getD i [])), st) := by
    simp only [hvRecursive, hemp, Bool.false_eq_true, if_false, Run.lk]
    congr 2
    exact List.map_congr_left (fun i _ => hW.cargo i)
  rw [hval]
  refine ⟨fun _ => ?_, hW, fun k hk2 hk1 => by omega, ?_, Frame.refl _ _ _⟩
  · have hlklt : ∀ i ∈ R.lk 1 S, i < R.rel.length := fun i hi => hSlt i ((mem_lk hR hm hSlt).mp hi)
    set L1 := (R.lk 1 S).map (fun i => R.rel.getD i []) with hL1
    have hrectL : Rect 2 (L1.map pi2) := by
      intro p hp; obtain ⟨q, _, rfl⟩ := List.mem_map.mp hp; rfl
    have hsortedL : (L1.map pi2).Pairwise (fun p q => co p 1 ≤ co q 1) := by
      rw [hL1, List.map_map, List.pairwise_map]
      refine (sorted_lk hR hm S).imp ?_
      intro i j hij
      simpa [Function.comp, pi2, co, zc] using hij
    have hnegL : ∀ p ∈ L1.map pi2, wdVec p [0, 0] = true := by
      intro p hp
      rw [hL1, List.map_map] at hp
      obtain ⟨i, hi, rfl⟩ := List.mem_map.mp hp
      have h0 := (hR.inter i 0 (hlklt i hi) (by omega)).2
      have h1 := (hR.inter i 1 (hlklt i hi) hm).2
      simp only [Function.comp, pi2, wdVec, Bool.and_true, Bool.and_eq_true, decide_eq_true_eq]
      exact ⟨h0, h1⟩
    rw [← sweep2_pi2 L1, sweep2_eq _ hrectL hsortedL hnegL]
    have hmap : (L1.map pi2).map List.reverse = (R.lk 1 S).map (rvec R.rel 1) := by
      rw [hL1, List.map_map, List.map_map]
      apply List.map_congr_left
      intro i hi
      have := rvec_succ hR.rect (hlklt i hi) (k := 0) hm
      rw [rvec_zero hR.rect (hlklt i hi) (by omega)] at this
      simp only [Function.comp, pi2, List.reverse_cons, List.reverse_nil, List.nil_append, List.cons_append]
      rw [this]; rfl
    rw [hmap]
    exact Vk_congr R.rel 1 (fun x => mem_lk hR hm hSlt)
  · intro x hx
    by_cases h0 : (st.node x).ignore = 0
    · exact Or.inl h0
    · exact hF x hx (by omega)

/-- **every level of the nested sweep satisfies the relativised specification** -/
theorem spec_all_L {R : Run} (hR : R.OK5) : ∀ (j : Nat), j + 1 < R.m →
    SpecL R (j + 1) (hvRecursive true R.orders (j + 1))
  | 0, hm => spec_one_L hR.toBase hm
  | j + 1, hm => by
    have ih := spec_all_L hR j (by omega)
    have hlev := levelN_L hR (d := j + 2) (by omega) hm (hvRecursive true R.orders (j + 1)) ih
    intro S st hSne hSnd hSlt hW hC hF
    have hemp : S.isEmpty = false := by cases S <;> simp_all
    have := hlev S st hSne hSnd hSlt hW hC hF
    simp only at this
    rw [hvRecursive_succ_succ true R.orders j S st hemp]
    exact this

/-! ### `compute` for the larger class -/

/-- **`_HyperVolume(ref).compute(front)` for any number `m ≥ 2` of objectives**, front weakly below the
reference (and above the sentinel `-1.0e308`); `hcls`: a coordinate may EQUAL the reference's only in the
objectives `0, 1, 2, 3` and in the last one — no restriction for `m ≤ 5`. -/
theorem compute_nd5 (ref : Vec) (front : List Vec) (hm : 2 ≤ ref.length) (hrect : Rect ref.length front)
    (hle : ∀ p ∈ front, wdVec p ref = true)
    (hbig : ∀ p ∈ front, ∀ k, k < ref.length → negInf < co p k - co ref k)
    (hcls : ∀ p ∈ front, ∀ k, k < ref.length → co p k = co ref k → k ≤ 3 ∨ k + 1 = ref.length) :
    compute ref front = some (hv ref front) := by
  have hsh := shift_eq ref front
  have htr : hv (subVec ref ref) (front.map (fun p => subVec p ref)) = hv ref front :=
    hv_translate ref ref front rfl hrect
  have hm0 : ¬ ref.length = 0 := by omega
  simp only [compute, computeV, hm0, if_false, hsh, Option.some.injEq]
  have hrectrel0 : Rect ref.length (front.map (fun p => subVec p ref)) := rect_shift rfl hrect
  have hinter0 : ∀ p ∈ front.map (fun p => subVec p ref), ∀ k, k < ref.length →
      (negInf < co p k ∧ co p k ≤ 0) ∧ (co p k = 0 → k ≤ 3 ∨ k + 1 = ref.length) := by
    intro p hp k hk
    obtain ⟨q, hq, rfl⟩ := List.mem_map.mp hp
    rw [co_subVec q ref k (hrect q hq) hk]
    refine ⟨⟨hbig q hq k hk, by have := co_of_wdVec q ref k (hle q hq) hk; linarith⟩, ?_⟩
    intro h0
    exact hcls q hq k hk (by linarith)
  rw [← htr, subVec_self]
  generalize front.map (fun p => subVec p ref) = rel at *
  generalize hmdef : ref.length = m at *
  by_cases hne : rel = []
  · subst hne
    simp only [List.length_nil, List.range_zero, hv_nil_pts]
    exact hvRecursive_nil _ _ _ _
  -- the run
  let R : Run := ⟨rel, m, preOrders true rel m⟩
  have hR : R.OK5 := ⟨⟨hrectrel0, fun i k hi hk => (hinter0 _ (getD_mem hi) k hk).1, preOrders_ok rel m⟩,
    fun i k hi hk h0 => (hinter0 _ (getD_mem hi) k hk).2 h0⟩
  obtain ⟨j, rfl⟩ : ∃ j, m = j + 2 := ⟨m - 2, by omega⟩
  have hspec := spec_all_L hR j (by show j + 1 < j + 2; omega)
  have hpos : 0 < rel.length := List.length_pos_iff.mpr hne
  have hneg0 : negInf ≤ 0 := by
    have := (hR.inter 0 0 hpos (by show 0 < j + 2; omega))
    exact le_of_lt (lt_of_lt_of_le this.1 this.2)
  let st0 : St := ⟨rel.map (fun p => ⟨p, 0, List.replicate (j + 2) 0, List.replicate (j + 2) 0⟩),
    List.replicate (j + 2) negInf⟩
  have hW0 : WF R st0 := ⟨by simp [st0, R], by simp [st0, R], fun i => initNode_cargo rel (j + 2) _ i,
    fun i hi => initNode_alen rel (j + 2) _ i hi, fun k => by
      simp only [st0, List.getD_eq_getElem?_getD, List.getElem?_replicate]
      split
      · exact hneg0
      · exact le_refl _⟩
  have hSne : List.range rel.length ≠ [] := by
    intro h
    have hlen := congrArg List.length h
    rw [List.length_range, List.length_nil] at hlen; omega
  have hC0 : ∀ k, 2 ≤ k → k ≤ j + 1 → CacheL R k (List.range rel.length) st0 := by
    intro k _ hk P x post hsplit hz _
    exfalso
    have hxl : x ∈ R.lk k (List.range rel.length) := by rw [hsplit]; simp
    have hx : x < rel.length := by
      have := (mem_lk hR.toBase (show k < R.m by show k < j + 2; omega) (fun i hi => List.mem_range.mp hi)).mp hxl
      exact List.mem_range.mp this
    have hb : st0.bounds.getD k 0 = negInf := by
      simp only [st0, List.getD_eq_getElem?_getD]
      rw [List.getElem?_replicate]
      simp [show k < j + 2 by omega]
    rw [hb] at hz
    exact absurd (hR.inter x k hx (by show k < j + 2; omega)).1 (not_lt.mpr (le_of_lt hz))
  have hF0 : FIgeG R (j + 1) (List.range rel.length) st0 :=
    fun x _ _ => Or.inl (initNode_ignore rel (j + 2) _ x)
  obtain ⟨hres, _⟩ := hspec (List.range rel.length) st0 hSne List.nodup_range
    (fun i hi => List.mem_range.mp hi) hW0 hC0 hF0
  -- the whole set is live at the top level: there is no objective between `m-1` and the last one
  have hlive : Live R (j + 1) (List.range rel.length) := by
    intro x _ i hi him
    exfalso
    have : i + 1 < j + 2 := him
    omega
  show (hvRecursive true (preOrders true rel (j + 2)) (j + 2 - 1) (List.range rel.length) st0).1 = _
  rw [show j + 2 - 1 = j + 1 from rfl]
  rw [hres hlive]
  -- V_{m-1} of all nodes is the hypervolume of the shifted front
  unfold Vk
  have hmap : (List.range rel.length).map (rvec R.rel (j + 1)) = rel.map List.reverse := by
    conv_rhs => rw [← range_map_getD rel]
    rw [List.map_map]
    apply List.map_congr_left
    intro i hi
    have hl : (rel.getD i []).length = j + 2 := hrectrel0 _ (getD_mem (List.mem_range.mp hi))
    simp only [rvec, Function.comp, R]
    rw [List.take_of_length_le (by omega)]
  rw [hmap]
  have hrev := hv_reverse (List.replicate (j + 2) 0) rel (by simpa using hrectrel0)
  rw [List.reverse_replicate] at hrev
  exact hrev

end DH.Hypervolume
