import Model.EvaluatorTrace
import Proofs.EvaluatorPay

/-! The checker decides `TraceSpec`; every trace of the model satisfies it (core Lean only). -/

namespace DH.Evaluator

variable {C O : Type}

/-! ### checker = specification -/

theorem checkTraceFrom_iff [DecidableEq C] [DecidableEq O] (p : Params C O) :
    ∀ (t : List (TStep C O)) (a : Acc C), checkTraceFrom p a t = true ↔ TraceSpecFrom p a t
  | [], a => by simp [checkTraceFrom, TraceSpecFrom]
  | st :: rest, a => by
    simp only [checkTraceFrom, TraceSpecFrom, Bool.and_eq_true, decide_eq_true_eq,
      checkTraceFrom_iff p rest (nextAcc a st)]

/-! ### facts about reachable states used below -/

theorem lookupAll_ids {s : Ev C O} (hi : Inv s) :
    ∀ (ids : List Nat), (∀ i ∈ ids, i < s.nextId) → (lookupAll s.jobs ids).map (·.id) = ids
  | [], _ => rfl
  | i :: ids, hlt => by
    obtain ⟨j, hj, _, hji⟩ := hi.find (hlt i (by simp))
    have ih := lookupAll_ids hi ids (fun x hx => hlt x (by simp [hx]))
    simp only [lookupAll] at ih ⊢
    simp [List.filterMap_cons, hj, hji, ih]

theorem mem_lookupAll {jobs : List (JobRec C O)} {ids : List Nat} {j : JobRec C O}
    (h : j ∈ lookupAll jobs ids) : j ∈ jobs ∧ j.id ∈ ids := by
  simp only [lookupAll, List.mem_filterMap] at h
  obtain ⟨i, hi, hf⟩ := h
  obtain ⟨hm, hid⟩ := findJob_some hf
  exact ⟨hm, hid ▸ hi⟩

theorem jobsDone_ids {p : Params C O} {s : Ev C O} (h : Reach p s) :
    (lookupAll s.jobs s.jobsDone).map (·.id) = s.jobsDone := by
  obtain ⟨hi, _, hh⟩ := reach_good h
  apply lookupAll_ids hi
  intro i hi'
  exact hi.del_lt (hh.dumpOnce.subset (List.mem_append_right _ hi'))

theorem trace_counts {p : Params C O} {s : Ev C O} {cs : List C} (h : Trace p s cs) :
    numSubmitted s = cs.length ∧ numGathered s = s.delivered.length ∧
    cs.length = s.running.length + s.delivered.length := by
  obtain ⟨hi, _, hh⟩ := reach_good h.reach
  have h1 : s.jobs.length = cs.length := by rw [← h.cfgs]; simp
  have h2 : s.jobs.length = s.nextId := by
    have := congrArg List.length hi.ids; simpa using this
  have h3 : s.gathered.length = s.delivered.length := by rw [hh.gath]; simp
  have h4 : s.submitted.length + s.delivered.length = s.nextId := by
    have := hi.part.length_eq; simpa using this
  have h5 : s.running.length = s.submitted.length := by rw [← hi.runSub]; simp
  simp only [numSubmitted, numGathered]
  omega

/-- the observer's accumulator agrees with the model's history -/
structure AccRel (a : Acc C) (s : Ev C O) (cs : List C) : Prop where
  cfgs : a.cfgs = cs
  del : a.delivered = s.delivered
  pend : a.pending = s.jobsDone

theorem AccRel.inflight {p : Params C O} {a : Acc C} {s : Ev C O} {cs : List C} (r : AccRel a s cs)
    (h : Trace p s cs) : a.inflight = s.running.length := by
  have := (trace_counts h).2.2
  simp only [Acc.inflight, r.cfgs, r.del]; omega

theorem submit_hist (s : Ev C O) (cfgs : List C) :
    (submit s cfgs).jobsDone = s.jobsDone ∧ (submit s cfgs).delivered = s.delivered := by
  unfold submit
  have h0 : (setEventLoop s).jobsDone = s.jobsDone ∧ (setEventLoop s).delivered = s.delivered := by
    unfold setEventLoop; split <;> exact ⟨rfl, rfl⟩
  exact foldl_createTask_invariant (fun s' => s'.jobsDone = s.jobsDone ∧ s'.delivered = s.delivered)
    (fun _ _ h => h) cfgs _ h0

/-! ### one observed call of the model satisfies the property -/

theorem obs_submit {p : Params C O} {s : Ev C O} {cs : List C} {a : Acc C} (h : Trace p s cs)
    (r : AccRel a s cs) (cfgs : List C) :
    StepOk p a (obsStep p s (.submit cfgs)) ∧
    AccRel (nextAcc a (obsStep p s (.submit cfgs))) (step p s (.submit cfgs)).1 (cs ++ cfgs) := by
  have hn : Trace p (step p s (.submit cfgs)).1 (cs ++ submittedBy (.submit cfgs)) := .step _ h rfl
  simp only [submittedBy, step] at hn
  obtain ⟨hjd, hdel⟩ := submit_hist s cfgs
  have hc := trace_counts hn
  have hacc : AccRel (nextAcc a (obsStep p s (.submit cfgs))) (submit s cfgs) (cs ++ cfgs) :=
    ⟨by simp [nextAcc, obsStep, eraseOp, r.cfgs], by simp [nextAcc, obsStep, eraseOp, r.del, hdel],
      by simp [nextAcc, obsStep, eraseOp, r.pend, hjd]⟩
  refine ⟨⟨?_, ?_, ?_⟩, hacc⟩
  · show CallOk p a _
    simp only [CallOk, obsStep, eraseOp, step, toRes]
    rw [jobsDone_ids hn.reach, hjd, r.pend]
  · show (obsStep p s (.submit cfgs)).numSubmitted = _
    rw [hacc.cfgs]; exact hc.1
  · show (obsStep p s (.submit cfgs)).numGathered = _
    rw [hacc.del]; exact hc.2.1

theorem obs_dump {p : Params C O} {s : Ev C O} {cs : List C} {a : Acc C} (h : Trace p s cs)
    (r : AccRel a s cs) (fl : Bool) :
    StepOk p a (obsStep p s (.dump fl)) ∧
    AccRel (nextAcc a (obsStep p s (.dump fl))) (step p s (.dump fl)).1 cs := by
  have hn : Trace p (step p s (.dump fl)).1 (cs ++ submittedBy (.dump fl)) := .step _ h rfl
  simp only [submittedBy, List.append_nil] at hn
  have hc := trace_counts hn
  have hjd := jobsDone_ids h.reach
  rcases dump_shape p s fl with hd | ⟨hne, hd⟩
  · -- nothing written, `jobs_done` kept
    have hs : (step p s (.dump fl)) = (s, .rows []) := by simp only [step, hd]
    have hacc : AccRel (nextAcc a (obsStep p s (.dump fl))) (step p s (.dump fl)).1 cs := by
      simp only [obsStep, hs, nextAcc, eraseOp, toRes, List.map_nil, if_true]; exact r
    refine ⟨⟨?_, ?_, ?_⟩, hacc⟩
    · show CallOk p a _
      simp only [CallOk, obsStep, hs, eraseOp, toRes, List.map_nil]
      exact Or.inl ⟨trivial, by rw [hjd, r.pend]⟩
    · show (obsStep p s (.dump fl)).numSubmitted = _
      rw [hacc.cfgs]; exact hc.1
    · show (obsStep p s (.dump fl)).numGathered = _
      rw [hacc.del]; exact hc.2.1
  · have hs : (step p s (.dump fl)) =
        ({ s with startDumping := true, columns := true, jobsDone := [], dumped := s.dumped ++ s.jobsDone },
          .rows (lookupAll s.jobs s.jobsDone)) := by simp only [step, hd]
    have hids : (lookupAll s.jobs s.jobsDone).map (·.id) ≠ [] := by rw [hjd]; exact hne
    have hacc : AccRel (nextAcc a (obsStep p s (.dump fl))) (step p s (.dump fl)).1 cs := by
      simp only [obsStep, hs, nextAcc, eraseOp, toRes, hids, if_false]
      exact ⟨r.cfgs, r.del, rfl⟩
    refine ⟨⟨?_, ?_, ?_⟩, hacc⟩
    · show CallOk p a _
      simp only [CallOk, obsStep, hs, eraseOp, toRes]
      exact Or.inr ⟨by rw [hjd, r.pend], by simp [lookupAll]⟩
    · show (obsStep p s (.dump fl)).numSubmitted = _
      rw [hacc.cfgs]; exact hc.1
    · show (obsStep p s (.dump fl)).numGathered = _
      rw [hacc.del]; exact hc.2.1

theorem obs_gather {p : Params C O} {s : Ev C O} {cs : List C} {a : Acc C} (h : Trace p s cs)
    (r : AccRel a s cs) (all : Bool) (k : Nat) (st : List Nat) (ws : List (List Nat))
    (hok : opOk s (.gather all k st ws) = true) :
    StepOk p a (obsStep p s (.gather all k st ws)) ∧
    AccRel (nextAcc a (obsStep p s (.gather all k st ws))) (step p s (.gather all k st ws)).1 cs := by
  have hn : Trace p (step p s (.gather all k st ws)).1 (cs ++ submittedBy (.gather all k st ws)) :=
    .step _ h hok
  simp only [submittedBy, List.append_nil] at hn
  have hc := trace_counts hn
  obtain ⟨hi, _, _⟩ := reach_good h.reach
  have hinf := r.inflight h
  have hjd := jobsDone_ids h.reach
  -- the cases in which the state does not change
  have same : ∀ o : Out C O, step p s (.gather all k st ws) = (s, o) →
      (toRes o = .jobs [] ∨ ∃ e, toRes o = .error e) →
      CallOk p a { op := .gather all k, res := toRes o, numSubmitted := numSubmitted s,
                   numGathered := numGathered s, jobsDone := lookupAll s.jobs s.jobsDone } →
      StepOk p a (obsStep p s (.gather all k st ws)) ∧
      AccRel (nextAcc a (obsStep p s (.gather all k st ws))) (step p s (.gather all k st ws)).1 cs := by
    intro o hs hres hcall
    have hobs : obsStep p s (.gather all k st ws) =
        { op := .gather all k, res := toRes o, numSubmitted := numSubmitted s,
          numGathered := numGathered s, jobsDone := lookupAll s.jobs s.jobsDone } := by
      simp only [obsStep, hs, eraseOp]
    have hnext : nextAcc a (obsStep p s (.gather all k st ws)) = a := by
      rw [hobs]
      rcases hres with hr | ⟨e, hr⟩ <;> simp [nextAcc, hr]
    rw [hs] at hn hc ⊢
    have hacc : AccRel (nextAcc a (obsStep p s (.gather all k st ws))) s cs := by rw [hnext]; exact r
    refine ⟨⟨by rw [hobs]; exact hcall, ?_, ?_⟩, hacc⟩
    · rw [hacc.cfgs, hobs]; exact hc.1
    · rw [hacc.del, hobs]; exact hc.2.1
  rcases gather_spec (p := p) hi all k st ws hok with ⟨hg, h0⟩ | ⟨hg, h0, hl⟩ | ⟨hg, h0, hr⟩ |
    ⟨done, s', js, hg, h0, hnd, _, _, hrun, hsubm, _, many, hlen, hall⟩
  · apply same (.jobs []) (by simp only [step, hg]) (Or.inl rfl)
    simp only [CallOk, toRes, List.map_nil, List.append_nil, List.nodup_nil, List.not_mem_nil,
      false_imp_iff, implies_true, true_and, List.length_nil]
    refine ⟨⟨?_, ?_⟩, by rw [hjd, r.pend]⟩
    · cases all <;> simp_all
    · intro ha; subst ha; simp_all
  · have hr : s.running = [] := by
      by_cases hr : s.running = []
      · exact hr
      · rw [hi.loop hr] at hl; simp at hl
    apply same (.error .noLoop) (by simp only [step, hg]) (Or.inr ⟨_, rfl⟩)
    simp only [CallOk, toRes]
    cases all with
    | true => simp [hr] at h0
    | false =>
      simp only [Bool.false_eq_true, if_false] at h0
      exact ⟨by simp, rfl, h0, by rw [hinf, hr]; rfl, by rw [hjd, r.pend]⟩
  · apply same (.error .noJobs) (by simp only [step, hg]) (Or.inr ⟨_, rfl⟩)
    simp only [CallOk, toRes]
    cases all with
    | true => simp [hr] at h0
    | false =>
      simp only [Bool.false_eq_true, if_false] at h0
      exact ⟨by simp, rfl, h0, by rw [hinf, hr]; rfl, by rw [hjd, r.pend]⟩
  · have hs : step p s (.gather all k st ws) = (s', .jobs js) := by simp only [step, hg]
    rw [hs] at hn hc
    have hdone : done = js.map (·.id) := many.ids.symm
    have hdel : s'.delivered = s.delivered ++ js.map (fun j => (j.id, Via.gather)) := by
      rw [many.del, hdone, List.map_map]; rfl
    have hjd' : s'.jobsDone = s.jobsDone ++ js.map (·.id) := by rw [many.jd, hdone]
    have hobs : obsStep p s (.gather all k st ws) =
        { op := .gather all k, res := .jobs js, numSubmitted := numSubmitted s',
          numGathered := numGathered s', jobsDone := lookupAll s'.jobs s'.jobsDone } := by
      simp only [obsStep, hs, eraseOp, toRes]
    have hacc : AccRel (nextAcc a (obsStep p s (.gather all k st ws))) s' cs := by
      rw [hobs]
      exact ⟨r.cfgs, by simp only [nextAcc, r.del, hdel], by simp only [nextAcc, r.pend, hjd']⟩
    rw [hs]
    refine ⟨⟨?_, ?_, ?_⟩, hacc⟩
    · rw [hobs]
      simp only [CallOk]
      refine ⟨hdone ▸ hnd, ?_, ⟨?_, ?_⟩, ?_⟩
      · intro j hj
        have hjd0 : j.id ∈ done := hdone ▸ List.mem_map_of_mem hj
        obtain ⟨hst, hout, hmem⟩ := many.res j hj
        refine ⟨⟨?_, ?_⟩, hst, hout⟩
        · rw [r.del]; exact hi.sub_not_del (hsubm _ hjd0)
        · rw [r.cfgs]; exact hn.cfg_at hmem
      · have : js.length = done.length := by rw [hdone]; simp
        rw [this, hinf]
        cases all <;> simpa using hlen
      · intro ha
        have h1 : done.length ≤ s.submitted.length :=
          List.Nodup.length_le_of_subset hnd (fun i hi' => hsubm i hi')
        have h2 : s.submitted.length ≤ done.length :=
          List.Nodup.length_le_of_subset hi.sub_nodup (fun i hi' => hall ha i hi')
        have h3 : s.running.length = s.submitted.length := by rw [← hi.runSub]; simp
        have : js.length = done.length := by rw [hdone]; simp
        rw [hinf]; omega
      · rw [jobsDone_ids hn.reach, hjd', r.pend]
    · rw [hacc.cfgs, hobs]; exact hc.1
    · rw [hacc.del, hobs]; exact hc.2.1

/-- what `close` does to the histories -/
theorem close_hist {p : Params C O} {s : Ev C O} (h : Reach p s) (fin : List Nat)
    (hok : opOk s (.close fin) = true) :
    ∃ newIds, (step p s (.close fin)).2 = .unit ∧
      (step p s (.close fin)).1.delivered = s.delivered ++ newIds.map (fun i => (i, Via.close)) ∧
      (step p s (.close fin)).1.jobsDone = s.jobsDone ++ newIds ∧
      (step p s (.close fin)).1.running = [] := by
  obtain ⟨hi, _, _⟩ := reach_good h
  simp only [step]
  rcases close_spec (p := p) hi fin hok with ⟨hc, hl⟩ | ⟨hc, _, hr⟩ | ⟨s1, js, _, _, _, many, hc⟩ <;> rw [hc]
  · have hr : s.running = [] := by
      by_cases hr : s.running = []
      · exact hr
      · rw [hi.loop hr] at hl; simp at hl
    exact ⟨[], rfl, by simp, by simp, hr⟩
  · exact ⟨[], rfl, by simp, by simp, hr⟩
  · refine ⟨fin ++ activeIds s1, rfl, ?_, ?_, rfl⟩
    · show s1.delivered ++ _ = _
      rw [many.del]; simp [activeIds]
    · show s1.jobsDone ++ _ = _
      rw [many.jd]; simp [activeIds]

theorem obs_close {p : Params C O} {s : Ev C O} {cs : List C} {a : Acc C} (h : Trace p s cs)
    (r : AccRel a s cs) (fin : List Nat) (hok : opOk s (.close fin) = true) :
    StepOk p a (obsStep p s (.close fin)) ∧
    AccRel (nextAcc a (obsStep p s (.close fin))) (step p s (.close fin)).1 cs := by
  have hn : Trace p (step p s (.close fin)).1 (cs ++ submittedBy (.close fin)) := .step _ h hok
  simp only [submittedBy, List.append_nil] at hn
  have hc := trace_counts hn
  have hc0 := trace_counts h
  obtain ⟨hi', hp', _⟩ := reach_good hn.reach
  obtain ⟨newIds, hres, hdel, hjd, hrun⟩ := close_hist h.reach fin hok
  have hL := jobsDone_ids hn.reach
  generalize hs' : (step p s (.close fin)).1 = s' at *
  rw [hjd] at hL
  -- the records of `jobs_done` after the call
  have hlen : a.pending.length = s.jobsDone.length := by rw [r.pend]
  have htake : ((lookupAll s'.jobs (s.jobsDone ++ newIds)).take a.pending.length).map (·.id) = a.pending := by
    rw [List.map_take, hL, hlen, List.take_left', r.pend]; rfl
  have hdrop : ((lookupAll s'.jobs (s.jobsDone ++ newIds)).drop a.pending.length).map (·.id) = newIds := by
    rw [List.map_drop, hL, hlen, List.drop_left']; rfl
  have hobs : obsStep p s (.close fin) =
      { op := .close, res := .unit, numSubmitted := numSubmitted s', numGathered := numGathered s',
        jobsDone := lookupAll s'.jobs (s.jobsDone ++ newIds) } := by
    simp only [obsStep, hs', hres, eraseOp, toRes, hjd]
  have hnewdel : ((lookupAll s'.jobs (s.jobsDone ++ newIds)).drop a.pending.length).map
      (fun j => (j.id, Via.close)) = newIds.map (fun i => (i, Via.close)) := by
    have := congrArg (List.map (fun i => (i, Via.close))) hdrop
    simpa [List.map_map, Function.comp_def] using this
  have hacc : AccRel (nextAcc a (obsStep p s (.close fin))) s' cs := by
    rw [hobs]
    refine ⟨r.cfgs, ?_, ?_⟩
    · show a.delivered ++ _ = s'.delivered
      rw [hnewdel, r.del, hdel]
    · show a.pending ++ _ = s'.jobsDone
      rw [hdrop, r.pend, hjd]
  have hnd : (s.delivered.map (·.1) ++ newIds).Nodup := by
    have := (List.nodup_append.1 hi'.nodup).2.1
    rw [hdel] at this
    simpa [List.map_append, List.map_map, Function.comp_def] using this
  refine ⟨⟨?_, ?_, ?_⟩, hacc⟩
  · rw [hobs]
    simp only [CallOk]
    refine ⟨htake, by rw [hdrop]; exact (List.nodup_append.1 hnd).2.1, ?_, ?_⟩
    · intro j hj
      have hjL := List.mem_of_mem_drop hj
      obtain ⟨hjm, _⟩ := mem_lookupAll hjL
      have hjn : j.id ∈ newIds := hdrop ▸ List.mem_map_of_mem hj
      refine ⟨⟨?_, ?_⟩, ?_⟩
      · rw [r.del]
        intro hd
        exact (List.nodup_append.1 hnd).2.2 j.id hd j.id hjn rfl
      · rw [r.cfgs]; exact hn.cfg_at hjm
      · have hmem : (j.id, Via.close) ∈ s'.delivered := by
          rw [hdel]; exact List.mem_append_right _ (List.mem_map.2 ⟨j.id, hjn, rfl⟩)
        rcases hp'.pay j hjm Via.close hmem with h1 | ⟨_, h2, h3⟩
        · exact Or.inl h1
        · exact Or.inr ⟨h2, h3⟩
    · have h1 : ((lookupAll s'.jobs (s.jobsDone ++ newIds)).drop a.pending.length).length = newIds.length := by
        have := congrArg List.length hdrop
        simpa using this
      have h2 : s'.delivered.length = s.delivered.length + newIds.length := by rw [hdel]; simp
      have h3 := hc.2.2
      rw [hrun] at h3
      simp only [Acc.inflight, r.cfgs, r.del, h1]
      simp at h3; omega
  · rw [hacc.cfgs, hobs]; exact hc.1
  · rw [hacc.del, hobs]; exact hc.2.1

/-- every trace the model produces under the environment contract satisfies the property -/
theorem traceOf_ok {p : Params C O} : ∀ (ops : List (Op C)) {s : Ev C O} {cs : List C} {a : Acc C},
    Trace p s cs → AccRel a s cs → opsOk p s ops = true → TraceSpecFrom p a (traceOf p s ops)
  | [], _, _, _, _, _, _ => trivial
  | op :: ops, s, cs, a, h, r, hok => by
    simp only [opsOk, Bool.and_eq_true] at hok
    have hn : Trace p (step p s op).1 (cs ++ submittedBy op) := .step _ h hok.1
    have key : StepOk p a (obsStep p s op) ∧
        AccRel (nextAcc a (obsStep p s op)) (step p s op).1 (cs ++ submittedBy op) := by
      cases op with
      | submit cfgs => exact obs_submit h r cfgs
      | gather all k st ws => simpa [submittedBy] using obs_gather h r all k st ws hok.1
      | close fin => simpa [submittedBy] using obs_close h r fin hok.1
      | dump fl => simpa [submittedBy] using obs_dump h r fl
    exact ⟨key.1, traceOf_ok ops hn key.2 hok.2⟩

end DH.Evaluator
