import Mathlib.Tactic.Ring
import Mathlib.Tactic.Linarith
import Mathlib.Tactic.Positivity
import Mathlib.Tactic.FieldSimp
import Mathlib.Tactic.NormNum
import Model.Aggregate

/-! Helper lemmas for C19 (`Model/Aggregate.lean`). -/

namespace DH.Aggregate

/-! ### weights scaled by a common factor -/

theorem wsum_scale (c : Rat) (ws : List Rat) (ys : List Cell) :
    wsum (ws.map (c * ·)) ys = c * wsum ws ys := by
  induction ws generalizing ys with
  | nil => simp [wsum]
  | cons w ws ih => cases ys with
    | nil => simp [wsum]
    | cons y ys => cases y <;> simp [wsum, ih] ; ring

theorem wdot_scale (c : Rat) (ws : List Rat) (ys : List Cell) :
    wdot (ws.map (c * ·)) ys = c * wdot ws ys := by
  induction ws generalizing ys with
  | nil => simp [wdot]
  | cons w ws ih => cases ys with
    | nil => simp [wdot]
    | cons y ys => cases y <;> simp [wdot, ih] ; ring

theorem average_scale (c : Rat) (hc : c ≠ 0) (ws : List Rat) (ys : List Cell) :
    average (ws.map (c * ·)) ys = average ws ys := by
  unfold average
  rw [wsum_scale, wdot_scale]
  by_cases h : wsum ws ys = 0
  · simp [h]
  · simp [h, hc, mul_div_mul_left]

theorem replicate_eq_map_one (n : Nat) (c : Rat) :
    List.replicate n c = (List.replicate n (1 : Rat)).map (c * ·) := by
  simp

/-! ### permutations: everything is a sum over the zipped (weight, cell) pairs -/

def wpart (p : Rat × Cell) : Rat := match p.2 with | some _ => p.1 | none => 0
def dpart (p : Rat × Cell) : Rat := match p.2 with | some y => p.1 * y | none => 0

theorem wsum_zip (ws : List Rat) (ys : List Cell) : wsum ws ys = ((ws.zip ys).map wpart).sum := by
  induction ws generalizing ys with
  | nil => simp [wsum]
  | cons w ws ih => cases ys with
    | nil => simp [wsum]
    | cons y ys => cases y <;> simp [wsum, ih, wpart]

theorem wdot_zip (ws : List Rat) (ys : List Cell) : wdot ws ys = ((ws.zip ys).map dpart).sum := by
  induction ws generalizing ys with
  | nil => simp [wdot]
  | cons w ws ih => cases ys with
    | nil => simp [wdot]
    | cons y ys => cases y <;> simp [wdot, ih, dpart]

theorem average_perm {ws ws' : List Rat} {ys ys' : List Cell}
    (h : (ws.zip ys).Perm (ws'.zip ys')) : average ws ys = average ws' ys' := by
  unfold average
  rw [wsum_zip ws ys, wdot_zip ws ys, wsum_zip ws' ys', wdot_zip ws' ys',
    (h.map wpart).sum_eq, (h.map dpart).sum_eq]

theorem zip_cellMap (f : Rat → Rat) (ws : List Rat) (ys : List Cell) :
    ws.zip (cellMap f ys) = (ws.zip ys).map (fun p => (p.1, p.2.map f)) := by
  induction ws generalizing ys with
  | nil => simp [cellMap]
  | cons w ws ih => cases ys with
    | nil => simp [cellMap]
    | cons y ys => simpa [cellMap] using ih ys

theorem perm_cellMap (f : Rat → Rat) {ws ws' : List Rat} {ys ys' : List Cell}
    (h : (ws.zip ys).Perm (ws'.zip ys')) :
    (ws.zip (cellMap f ys)).Perm (ws'.zip (cellMap f ys')) := by
  rw [zip_cellMap, zip_cellMap]; exact h.map _

/-! ### masked members are ignored -/

theorem wsum_present (ws : List Rat) (ys : List Cell) :
    wsum ((present ws ys).map (·.1)) ((present ws ys).map (fun p => some p.2)) = wsum ws ys := by
  induction ws generalizing ys with
  | nil => simp [wsum, present]
  | cons w ws ih => cases ys with
    | nil => simp [wsum, present]
    | cons y ys => cases y <;> simp [wsum, present, ih]

theorem wdot_present (ws : List Rat) (ys : List Cell) :
    wdot ((present ws ys).map (·.1)) ((present ws ys).map (fun p => some p.2)) = wdot ws ys := by
  induction ws generalizing ys with
  | nil => simp [wdot, present]
  | cons w ws ih => cases ys with
    | nil => simp [wdot, present]
    | cons y ys => cases y <;> simp [wdot, present, ih]

theorem average_present (ws : List Rat) (ys : List Cell) :
    average ((present ws ys).map (·.1)) ((present ws ys).map (fun p => some p.2)) = average ws ys := by
  unfold average; rw [wsum_present, wdot_present]

theorem present_cellMap (f : Rat → Rat) (ws : List Rat) (ys : List Cell) :
    present ws (cellMap f ys) = (present ws ys).map (fun p => (p.1, f p.2)) := by
  induction ws generalizing ys with
  | nil => simp [present]
  | cons w ws ih => cases ys with
    | nil => simp [present, cellMap]
    | cons y ys => cases y <;> simpa [present, cellMap] using ih ys

/-- inserting a masked member (with any weight) changes nothing -/
theorem average_cons_none (w : Rat) (ws : List Rat) (ys : List Cell) :
    average (w :: ws) (none :: ys) = average ws ys := by
  unfold average
  rw [show wsum (w :: ws) (none :: ys) = wsum ws ys from rfl,
    show wdot (w :: ws) (none :: ys) = wdot ws ys from rfl]

/-! ### bounds -/

theorem wsum_nonneg {ws : List Rat} (hw : ∀ w ∈ ws, 0 ≤ w) (ys : List Cell) : 0 ≤ wsum ws ys := by
  induction ws generalizing ys with
  | nil => simp [wsum]
  | cons w ws ih =>
    have h1 : 0 ≤ w := hw w (by simp)
    have h2 := fun ys => ih (fun v hv => hw v (by simp [hv])) ys
    cases ys with
    | nil => simp [wsum]
    | cons y ys => cases y <;> simp [wsum] <;> [exact h2 ys; exact add_nonneg h1 (h2 ys)]

theorem wdot_ge {ws : List Rat} (hw : ∀ w ∈ ws, 0 ≤ w) (ys : List Cell) (lo : Rat)
    (h : ∀ p ∈ present ws ys, lo ≤ p.2) : lo * wsum ws ys ≤ wdot ws ys := by
  induction ws generalizing ys with
  | nil => simp [wsum, wdot]
  | cons w ws ih =>
    have h1 : 0 ≤ w := hw w (by simp)
    have hw' : ∀ v ∈ ws, 0 ≤ v := fun v hv => hw v (by simp [hv])
    cases ys with
    | nil => simp [wsum, wdot]
    | cons y ys =>
      cases y with
      | none => simpa [wsum, wdot] using ih hw' ys (by simpa [present] using h)
      | some y =>
        simp only [present, List.mem_cons, forall_eq_or_imp] at h
        have := ih hw' ys h.2
        have hy : lo ≤ y := h.1
        simp only [wsum, wdot]
        nlinarith [mul_le_mul_of_nonneg_left hy h1]

theorem wdot_le {ws : List Rat} (hw : ∀ w ∈ ws, 0 ≤ w) (ys : List Cell) (hi : Rat)
    (h : ∀ p ∈ present ws ys, p.2 ≤ hi) : wdot ws ys ≤ hi * wsum ws ys := by
  induction ws generalizing ys with
  | nil => simp [wsum, wdot]
  | cons w ws ih =>
    have h1 : 0 ≤ w := hw w (by simp)
    have hw' : ∀ v ∈ ws, 0 ≤ v := fun v hv => hw v (by simp [hv])
    cases ys with
    | nil => simp [wsum, wdot]
    | cons y ys =>
      cases y with
      | none => simpa [wsum, wdot] using ih hw' ys (by simpa [present] using h)
      | some y =>
        simp only [present, List.mem_cons, forall_eq_or_imp] at h
        have := ih hw' ys h.2
        have hy : y ≤ hi := h.1
        simp only [wsum, wdot]
        nlinarith [mul_le_mul_of_nonneg_left hy h1]

theorem average_some {ws : List Rat} {ys : List Cell} {a : Rat} (h : average ws ys = some a) :
    wsum ws ys ≠ 0 ∧ a = wdot ws ys / wsum ws ys := by
  unfold average at h
  by_cases h0 : wsum ws ys = 0
  · simp [h0] at h
  · simp [h0] at h; exact ⟨h0, h.symm⟩

theorem average_ge {ws : List Rat} (hw : ∀ w ∈ ws, 0 ≤ w) {ys : List Cell} {a : Rat}
    (h : average ws ys = some a) (lo : Rat) (hlo : ∀ p ∈ present ws ys, lo ≤ p.2) : lo ≤ a := by
  obtain ⟨h0, rfl⟩ := average_some h
  have hpos : 0 < wsum ws ys := lt_of_le_of_ne (wsum_nonneg hw ys) (Ne.symm h0)
  exact (le_div_iff₀ hpos).2 (wdot_ge hw ys lo hlo)

theorem average_le {ws : List Rat} (hw : ∀ w ∈ ws, 0 ≤ w) {ys : List Cell} {a : Rat}
    (h : average ws ys = some a) (hi : Rat) (hhi : ∀ p ∈ present ws ys, p.2 ≤ hi) : a ≤ hi := by
  obtain ⟨h0, rfl⟩ := average_some h
  have hpos : 0 < wsum ws ys := lt_of_le_of_ne (wsum_nonneg hw ys) (Ne.symm h0)
  exact (div_le_iff₀ hpos).2 (wdot_le hw ys hi hhi)

theorem average_between {ws : List Rat} (hw : ∀ w ∈ ws, 0 ≤ w) {ys : List Cell} {a : Rat}
    (h : average ws ys = some a) (lo hi : Rat)
    (hlo : ∀ p ∈ present ws ys, lo ≤ p.2) (hhi : ∀ p ∈ present ws ys, p.2 ≤ hi) :
    lo ≤ a ∧ a ≤ hi :=
  ⟨average_ge hw h lo hlo, average_le hw h hi hhi⟩

theorem present_ne_nil_of_wsum {ws : List Rat} {ys : List Cell} (h : wsum ws ys ≠ 0) :
    present ws ys ≠ [] := by
  induction ws generalizing ys with
  | nil => simp [wsum] at h
  | cons w ws ih => cases ys with
    | nil => simp [wsum] at h
    | cons y ys => cases y with
      | none => simpa [present] using ih (by simpa [wsum] using h)
      | some y => simp [present]

theorem exists_min_max (l : List Rat) (h : l ≠ []) :
    (∃ m ∈ l, ∀ x ∈ l, m ≤ x) ∧ (∃ M ∈ l, ∀ x ∈ l, x ≤ M) := by
  induction l with
  | nil => exact absurd rfl h
  | cons a l ih =>
    by_cases hl : l = []
    · subst hl; exact ⟨⟨a, by simp, by simp⟩, ⟨a, by simp, by simp⟩⟩
    · obtain ⟨⟨m, hm, hm'⟩, ⟨M, hM, hM'⟩⟩ := ih hl
      constructor
      · rcases le_total a m with h1 | h1
        · exact ⟨a, by simp, fun x hx => by
            rcases List.mem_cons.1 hx with rfl | hx
            · exact le_refl _
            · exact le_trans h1 (hm' x hx)⟩
        · exact ⟨m, by simp [hm], fun x hx => by
            rcases List.mem_cons.1 hx with rfl | hx
            · exact h1
            · exact hm' x hx⟩
      · rcases le_total a M with h1 | h1
        · exact ⟨M, by simp [hM], fun x hx => by
            rcases List.mem_cons.1 hx with rfl | hx
            · exact h1
            · exact hM' x hx⟩
        · exact ⟨a, by simp, fun x hx => by
            rcases List.mem_cons.1 hx with rfl | hx
            · exact le_refl _
            · exact le_trans (hM' x hx) h1⟩


/-- `loc` and `scale` of every member carry the same mask -/
def SamePresence (locs scales : List Cell) : Prop :=
  locs.map Option.isSome = scales.map Option.isSome

theorem wsum_cellMap (f : Rat → Rat) (ws : List Rat) (ys : List Cell) :
    wsum ws (cellMap f ys) = wsum ws ys := by
  induction ws generalizing ys with
  | nil => simp [wsum]
  | cons w ws ih => cases ys with
    | nil => simp [wsum, cellMap]
    | cons y ys => cases y <;> simpa [wsum, cellMap] using ih ys

theorem wsum_secondMoment (ws : List Rat) {locs scales : List Cell} (h : SamePresence locs scales) :
    wsum ws (secondMoment locs scales) = wsum ws locs ∧ wsum ws scales = wsum ws locs ∧
    wdot ws (secondMoment locs scales) =
      wdot ws (cellMap (fun l => l * l) locs) + wdot ws (cellMap (fun s => s * s) scales) := by
  unfold SamePresence at h
  induction ws generalizing locs scales with
  | nil => simp [wsum, wdot]
  | cons w ws ih =>
    cases locs with
    | nil => cases scales with
      | nil => simp [wsum, wdot, secondMoment, cellMap]
      | cons s ss => simp at h
    | cons l ls => cases scales with
      | nil => simp at h
      | cons s ss =>
        simp only [List.map_cons, List.cons.injEq] at h
        obtain ⟨h1, h2, h3⟩ := ih (locs := ls) (scales := ss) h.2
        cases l <;> cases s <;> simp at h <;> simp [wsum, wdot, secondMoment, cellMap] at * <;>
          simp [h1, h2, h3] <;> ring

theorem wdot_centered (m : Rat) (ws : List Rat) (ys : List Cell) :
    wdot ws (cellMap (fun l => (l - m) * (l - m)) ys) =
      wdot ws (cellMap (fun l => l * l) ys) - 2 * m * wdot ws ys + m * m * wsum ws ys := by
  induction ws generalizing ys with
  | nil => simp [wsum, wdot]
  | cons w ws ih => cases ys with
    | nil => simp [wsum, wdot, cellMap]
    | cons y ys =>
      have := ih ys
      cases y <;> simp [wsum, wdot, cellMap] at * <;> rw [this] <;> ring

/-- law of total variance for the weighted mixture, any weights with `Σ w ≠ 0` -/
theorem mixedNormal_total_variance (ws : List Rat) {locs scales : List Cell}
    (h : SamePresence locs scales) (hW : wsum ws locs ≠ 0) :
    ∃ m v a e, mixedNormal ws locs scales = ⟨some m, some v, some a, some e⟩ ∧ v = a + e := by
  obtain ⟨h1, h2, h3⟩ := wsum_secondMoment ws h
  refine ⟨wdot ws locs / wsum ws locs,
    wdot ws (secondMoment locs scales) / wsum ws locs - wdot ws locs / wsum ws locs * (wdot ws locs / wsum ws locs),
    wdot ws (cellMap (fun s => s * s) scales) / wsum ws locs,
    wdot ws (cellMap (fun l => (l - wdot ws locs / wsum ws locs) * (l - wdot ws locs / wsum ws locs)) locs) / wsum ws locs,
    ?_, ?_⟩
  · simp [mixedNormal, average, hW, wsum_cellMap, h1, h2]
  · rw [h3, wdot_centered]
    field_simp
    ring



/-! ### vectors -/

theorem vadd_length (a b : List Rat) (h : a.length = b.length) : (vadd a b).length = a.length := by
  simp [vadd, h]

theorem vadd_sum : ∀ (a b : List Rat), a.length = b.length → (vadd a b).sum = a.sum + b.sum
  | [], [], _ => by simp [vadd]
  | [], _ :: _, h => by simp at h
  | _ :: _, [], h => by simp at h
  | x :: a, y :: b, h => by
    have := vadd_sum a b (by simpa using h)
    simp [vadd] at this ⊢
    rw [this]; ring

theorem vscale_sum (c : Rat) (a : List Rat) : (vscale c a).sum = c * a.sum := by
  induction a with
  | nil => simp [vscale]
  | cons x a ih => simp [vscale] at ih ⊢; rw [ih]; ring

theorem mem_vadd {a b : List Rat} {x : Rat} (h : x ∈ vadd a b) : ∃ u ∈ a, ∃ v ∈ b, x = u + v := by
  induction a generalizing b with
  | nil => simp [vadd] at h
  | cons u a ih => cases b with
    | nil => simp [vadd] at h
    | cons v b =>
      simp only [vadd, List.zipWith_cons_cons, List.mem_cons] at h
      rcases h with rfl | h
      · exact ⟨u, by simp, v, by simp, rfl⟩
      · obtain ⟨u', hu, v', hv, rfl⟩ := ih (b := b) h
        exact ⟨u', by simp [hu], v', by simp [hv], rfl⟩

theorem vadd_left_comm (x y acc : List Rat) : vadd x (vadd y acc) = vadd y (vadd x acc) := by
  induction x generalizing y acc with
  | nil => cases y <;> simp [vadd]
  | cons a x ih => cases y with
    | nil => simp [vadd]
    | cons b y => cases acc with
      | nil => simp [vadd]
      | cons c acc =>
        have := ih y acc
        simp only [vadd, List.zipWith_cons_cons, List.cons.injEq] at this ⊢
        exact ⟨by ring, this⟩

theorem vscale_vadd (c : Rat) (a b : List Rat) : vscale c (vadd a b) = vadd (vscale c a) (vscale c b) := by
  induction a generalizing b with
  | nil => simp [vadd, vscale]
  | cons x a ih => cases b with
    | nil => simp [vadd, vscale]
    | cons y b =>
      have := ih b
      simp only [vadd, vscale, List.zipWith_cons_cons, List.map_cons, List.cons.injEq] at this ⊢
      exact ⟨by ring, this⟩

theorem vscale_vscale (c w : Rat) (a : List Rat) : vscale (c * w) a = vscale c (vscale w a) := by
  simp [vscale, mul_assoc]

theorem vscale_vzero (c : Rat) (n : Nat) : vscale c (vzero n) = vzero n := by
  simp [vscale, vzero]

/-! ### rows -/

/-- every present row has exactly `c` entries -/
def RowsLen (c : Nat) (rows : List Row) : Prop := ∀ p, some p ∈ rows → p.length = c

/-- every present row is a probability vector over `c` classes -/
def RowsSimplex (c : Nat) (rows : List Row) : Prop :=
  ∀ p, some p ∈ rows → p.length = c ∧ (∀ x ∈ p, 0 ≤ x) ∧ p.sum = 1

theorem RowsSimplex.len {c rows} (h : RowsSimplex c rows) : RowsLen c rows := fun p hp => (h p hp).1

theorem RowsLen.tail {c r rows} (h : RowsLen c (r :: rows)) : RowsLen c rows :=
  fun p hp => h p (by simp [hp])

theorem RowsSimplex.tail {c r rows} (h : RowsSimplex c (r :: rows)) : RowsSimplex c rows :=
  fun p hp => h p (by simp [hp])

theorem rdot_length {c : Nat} (ws : List Rat) {rows : List Row} (h : RowsLen c rows) :
    (rdot c ws rows).length = c := by
  induction ws generalizing rows with
  | nil => simp [rdot, vzero]
  | cons w ws ih => cases rows with
    | nil => simp [rdot, vzero]
    | cons r rows => cases r with
      | none => simpa [rdot] using ih h.tail
      | some p =>
        have hp : p.length = c := h p (by simp)
        simp [rdot, vadd, vscale, ih h.tail, hp]

theorem rdot_sum {c : Nat} (ws : List Rat) {rows : List Row} (h : RowsSimplex c rows) :
    (rdot c ws rows).sum = rsum ws rows := by
  induction ws generalizing rows with
  | nil => simp [rdot, rsum, vzero]
  | cons w ws ih => cases rows with
    | nil => simp [rdot, rsum, vzero]
    | cons r rows => cases r with
      | none => simpa [rdot, rsum] using ih h.tail
      | some p =>
        obtain ⟨hp, _, hs⟩ := h p (by simp)
        have hl : (vscale w p).length = (rdot c ws rows).length := by
          rw [rdot_length ws h.tail.len]; simp [vscale, hp]
        simp only [rdot, rsum]
        rw [vadd_sum _ _ hl, vscale_sum, hs, ih h.tail]; ring

theorem rsum_nonneg {ws : List Rat} (hw : ∀ w ∈ ws, 0 ≤ w) (rows : List Row) : 0 ≤ rsum ws rows := by
  induction ws generalizing rows with
  | nil => simp [rsum]
  | cons w ws ih =>
    have h1 : 0 ≤ w := hw w (by simp)
    have h2 := fun rows => ih (fun v hv => hw v (by simp [hv])) rows
    cases rows with
    | nil => simp [rsum]
    | cons r rows => cases r <;> simp [rsum] <;> [exact h2 rows; exact add_nonneg h1 (h2 rows)]

theorem rdot_nonneg {c : Nat} {ws : List Rat} (hw : ∀ w ∈ ws, 0 ≤ w) {rows : List Row}
    (h : ∀ p, some p ∈ rows → ∀ x ∈ p, 0 ≤ x) : ∀ x ∈ rdot c ws rows, 0 ≤ x := by
  induction ws generalizing rows with
  | nil => simp [rdot, vzero]
  | cons w ws ih =>
    have h1 : 0 ≤ w := hw w (by simp)
    have hw' : ∀ v ∈ ws, 0 ≤ v := fun v hv => hw v (by simp [hv])
    cases rows with
    | nil => simp [rdot, vzero]
    | cons r rows =>
      have ht : ∀ p, some p ∈ rows → ∀ x ∈ p, 0 ≤ x := fun p hp => h p (by simp [hp])
      cases r with
      | none => simpa [rdot] using ih hw' ht
      | some p =>
        intro x hx
        simp only [rdot] at hx
        obtain ⟨u, hu, v, hv, rfl⟩ := mem_vadd hx
        simp only [vscale, List.mem_map] at hu
        obtain ⟨y, hy, rfl⟩ := hu
        exact add_nonneg (mul_nonneg h1 (h p (by simp) y hy)) (ih hw' ht v hv)

/-! ### weights scaled by a common factor -/

theorem rsum_scale (k : Rat) (ws : List Rat) (rows : List Row) :
    rsum (ws.map (k * ·)) rows = k * rsum ws rows := by
  induction ws generalizing rows with
  | nil => simp [rsum]
  | cons w ws ih => cases rows with
    | nil => simp [rsum]
    | cons r rows => cases r <;> simp [rsum, ih] ; ring

theorem rdot_scale (c : Nat) (k : Rat) (ws : List Rat) (rows : List Row) :
    rdot c (ws.map (k * ·)) rows = vscale k (rdot c ws rows) := by
  induction ws generalizing rows with
  | nil => simp [rdot, vscale_vzero]
  | cons w ws ih => cases rows with
    | nil => simp [rdot, vscale_vzero]
    | cons r rows => cases r with
      | none => simpa [rdot] using ih rows
      | some p => simp [rdot, ih, vscale_vadd, vscale_vscale]

theorem catLoc_scale (c : Nat) (k : Rat) (hk : k ≠ 0) (ws : List Rat) (rows : List Row) :
    catLoc c (ws.map (k * ·)) rows = catLoc c ws rows := by
  unfold catLoc
  rw [rsum_scale, rdot_scale]
  by_cases h : rsum ws rows = 0
  · simp [h]
  · simp [h, hk, vscale, mul_div_mul_left]

/-! ### permutations -/

def rwpart (p : Rat × Row) : Rat := match p.2 with | some _ => p.1 | none => 0
def rdpart (p : Rat × Row) (acc : List Rat) : List Rat :=
  match p.2 with | some q => vadd (vscale p.1 q) acc | none => acc

instance : LeftCommutative rdpart where
  left_comm a b acc := by
    unfold rdpart
    cases a.2 <;> cases b.2 <;> simp [vadd_left_comm]

theorem rsum_zip (ws : List Rat) (rows : List Row) : rsum ws rows = ((ws.zip rows).map rwpart).sum := by
  induction ws generalizing rows with
  | nil => simp [rsum]
  | cons w ws ih => cases rows with
    | nil => simp [rsum]
    | cons r rows => cases r <;> simp [rsum, ih, rwpart]

theorem rdot_zip (c : Nat) (ws : List Rat) (rows : List Row) :
    rdot c ws rows = (ws.zip rows).foldr rdpart (vzero c) := by
  induction ws generalizing rows with
  | nil => simp [rdot]
  | cons w ws ih => cases rows with
    | nil => simp [rdot]
    | cons r rows => cases r <;> simp [rdot, ih, rdpart]

theorem catLoc_perm (c : Nat) {ws ws' : List Rat} {rows rows' : List Row}
    (h : (ws.zip rows).Perm (ws'.zip rows')) : catLoc c ws rows = catLoc c ws' rows' := by
  unfold catLoc
  rw [rsum_zip ws rows, rsum_zip ws' rows', rdot_zip c ws rows, rdot_zip c ws' rows',
    (h.map rwpart).sum_eq, h.foldr_eq]



/-! ### maximum -/

theorem rmax_ge_left (a b : Rat) : a ≤ rmax a b := by
  unfold rmax; split <;> [assumption; exact le_refl _]

theorem rmax_ge_right (a b : Rat) : b ≤ rmax a b := by
  unfold rmax; split
  · exact le_refl _
  · exact le_of_lt (lt_of_not_ge ‹_›)

theorem rmax_cases (a b : Rat) : rmax a b = a ∨ rmax a b = b := by
  unfold rmax; split <;> simp

theorem foldl_rmax (xs : List Rat) (x : Rat) :
    (xs.foldl rmax x = x ∨ xs.foldl rmax x ∈ xs) ∧ x ≤ xs.foldl rmax x ∧ ∀ y ∈ xs, y ≤ xs.foldl rmax x := by
  induction xs generalizing x with
  | nil => simp
  | cons a xs ih =>
    obtain ⟨h1, h2, h3⟩ := ih (rmax x a)
    simp only [List.foldl_cons, List.mem_cons]
    refine ⟨?_, le_trans (rmax_ge_left x a) h2, ?_⟩
    · rcases h1 with h1 | h1
      · rcases rmax_cases x a with h | h
        · left; rw [h1, h]
        · right; left; rw [h1, h]
      · right; right; exact h1
    · intro y hy
      rcases hy with rfl | hy
      · exact le_trans (rmax_ge_right x y) h2
      · exact h3 y hy

theorem vmax_spec {l : List Rat} {m : Rat} (h : vmax l = some m) : m ∈ l ∧ ∀ x ∈ l, x ≤ m := by
  cases l with
  | nil => simp [vmax] at h
  | cons x xs =>
    simp only [vmax, Option.some.injEq] at h
    obtain ⟨h1, h2, h3⟩ := foldl_rmax xs x
    rw [h] at h1 h2 h3
    refine ⟨?_, ?_⟩
    · rcases h1 with rfl | h1 <;> simp [*]
    · intro y hy
      rcases List.mem_cons.1 hy with rfl | hy
      · exact h2
      · exact h3 y hy

theorem vmax_isSome {l : List Rat} (h : l ≠ []) : ∃ m, vmax l = some m := by
  cases l with
  | nil => exact absurd rfl h
  | cons x xs => exact ⟨_, rfl⟩

theorem le_sum_of_mem {l : List Rat} (hnn : ∀ x ∈ l, 0 ≤ x) {x : Rat} (hx : x ∈ l) : x ≤ l.sum := by
  induction l with
  | nil => simp at hx
  | cons a l ih =>
    have ha : 0 ≤ a := hnn a (by simp)
    have hl : ∀ y ∈ l, 0 ≤ y := fun y hy => hnn y (by simp [hy])
    have hs : 0 ≤ l.sum := List.sum_nonneg hl
    simp only [List.sum_cons]
    rcases List.mem_cons.1 hx with rfl | hx
    · linarith
    · have := ih hl hx; linarith

theorem sum_le_length_mul {l : List Rat} {m : Rat} (h : ∀ x ∈ l, x ≤ m) : l.sum ≤ l.length * m := by
  induction l with
  | nil => simp
  | cons a l ih =>
    have := ih (fun x hx => h x (by simp [hx]))
    have ha := h a (by simp)
    simp only [List.sum_cons, List.length_cons]
    push_cast
    linarith

/-- a probability vector over `c ≥ 1` classes: `1 - max` lies in `[0, 1 - 1/c]` -/
theorem conf_range {c : Nat} (hc : 0 < c) {p : List Rat} (hl : p.length = c) (hnn : ∀ x ∈ p, 0 ≤ x)
    (hs : p.sum = 1) : ∃ u, conf p = some u ∧ 0 ≤ u ∧ u ≤ 1 - 1 / (c : Rat) := by
  have hne : p ≠ [] := by intro h; subst h; simp at hl; omega
  obtain ⟨m, hm⟩ := vmax_isSome hne
  obtain ⟨hmem, hle⟩ := vmax_spec hm
  refine ⟨1 - m, by simp [conf, hm], ?_, ?_⟩
  · have := le_sum_of_mem hnn hmem; linarith
  · have h1 := sum_le_length_mul hle
    rw [hs, hl] at h1
    have hcpos : (0 : Rat) < c := by exact_mod_cast hc
    have : 1 / (c : Rat) ≤ m := by rw [div_le_iff₀ hcpos]; linarith
    linarith


end DH.Aggregate
