import Model.ParetoColumn
import Proofs.Pareto

/-! Helper lemmas for the `pareto_efficient` column part of C11 (core Lean only). -/

namespace DH.Pareto

/-! ### which column names are selected -/

theorem isObjectiveName_prefix (rest : Name) : isObjectiveName (objPrefix ++ rest) = true := by
  simp [isObjectiveName, objPrefix, List.isPrefixOf]

theorem isObjectiveName_render (k : ColKind) : isObjectiveName k.render = k.isObjective := by
  cases k with
  | param s => simp [ColKind.render, ColKind.isObjective, isObjectiveName, objPrefix, List.isPrefixOf]
  | metadata s => simp [ColKind.render, ColKind.isObjective, isObjectiveName, objPrefix, List.isPrefixOf]
  | objective => simpa [ColKind.render, ColKind.isObjective] using isObjectiveName_prefix []
  | objectiveI i => simpa [ColKind.render, ColKind.isObjective] using isObjectiveName_prefix _
  | jobId => simp [ColKind.render, ColKind.isObjective, isObjectiveName, objPrefix, List.isPrefixOf]
  | jobStatus => simp [ColKind.render, ColKind.isObjective, isObjectiveName, objPrefix, List.isPrefixOf]
  | paretoEfficient => simp [ColKind.render, ColKind.isObjective, isObjectiveName, objPrefix, List.isPrefixOf]

/-- the cells of a row under the objective kinds -/
def projectKinds : List ColKind → List Cell → List Cell
  | k :: ks, c :: cs => if k.isObjective then c :: projectKinds ks cs else projectKinds ks cs
  | _, _ => []

theorem project_render : ∀ (kinds : List ColKind) (row : List Cell),
    project (kinds.map ColKind.render) row = projectKinds kinds row
  | [], _ => by simp [project, projectKinds]
  | _ :: _, [] => by simp [project, projectKinds]
  | k :: ks, c :: cs => by
    simp only [List.map_cons, project, projectKinds, isObjectiveName_render, project_render ks cs]

theorem filter_render (kinds : List ColKind) :
    ((kinds.map ColKind.render).filter isObjectiveName).length = (kinds.filter ColKind.isObjective).length := by
  induction kinds with
  | nil => rfl
  | cons k ks ih =>
    simp only [List.map_cons, List.filter_cons, isObjectiveName_render]
    cases k.isObjective <;> simp [ih]

/-! ### `negVecs` keeps one vector per row -/

theorem negVecs_length : ∀ (rows : List (List Cell)) (vecs : List Vec), negVecs rows = some vecs →
    vecs.length = rows.length
  | [], vecs, h => by simp [negVecs] at h; subst h; rfl
  | r :: rs, vecs, h => by
    simp only [negVecs] at h
    cases hr : negVec r with
    | none => simp [hr] at h
    | some v =>
      cases hrs : negVecs rs with
      | none => simp [hr, hrs] at h
      | some vs =>
        simp [hr, hrs] at h; subst h
        simp [negVecs_length rs vs hrs]

/-! ### `scatter` -/

/-- the flags at the successful positions, in order -/
def gather : List Bool → List Bool → List Bool
  | ok :: oks, f :: fs => if ok then f :: gather oks fs else gather oks fs
  | _, _ => []

theorem scatter_length : ∀ (oks mask : List Bool), (scatter oks mask).length = oks.length
  | [], _ => by simp [scatter]
  | true :: r, m :: ms => by simp [scatter, scatter_length r ms]
  | true :: r, [] => by simp [scatter, scatter_length r []]
  | false :: r, ms => by simp [scatter, scatter_length r ms]

theorem gather_scatter : ∀ (oks mask : List Bool), mask.length = oks.count true →
    gather oks (scatter oks mask) = mask
  | [], mask, h => by
    have : mask = [] := List.length_eq_zero_iff.1 (by simpa using h)
    simp [gather, this]
  | true :: r, m :: ms, h => by
    have h' : ms.length = r.count true := by simpa using h
    simp [scatter, gather, gather_scatter r ms h']
  | true :: r, [], h => by simp at h
  | false :: r, ms, h => by
    have h' : ms.length = r.count true := by simpa using h
    simp [scatter, gather, gather_scatter r ms h']

theorem scatter_failed : ∀ (oks mask : List Bool) (i : Nat), oks[i]? = some false →
    (scatter oks mask)[i]? = some false
  | [], _, _, h => by simp at h
  | true :: r, m :: ms, 0, h => by simp at h
  | true :: r, [], 0, h => by simp at h
  | false :: r, ms, 0, _ => by simp [scatter]
  | true :: r, m :: ms, i + 1, h => by
    simp only [List.getElem?_cons_succ] at h
    simp [scatter, scatter_failed r ms i h]
  | true :: r, [], i + 1, h => by
    simp only [List.getElem?_cons_succ] at h
    simp [scatter, scatter_failed r [] i h]
  | false :: r, ms, i + 1, h => by
    simp only [List.getElem?_cons_succ] at h
    simp [scatter, scatter_failed r ms i h]

theorem count_map_rowOk (objs : List (List Cell)) :
    (objs.map rowOk).count true = (objs.filter rowOk).length := by
  induction objs with
  | nil => rfl
  | cons o os ih =>
    simp only [List.map_cons, List.filter_cons, List.count_cons]
    cases rowOk o <;> simp [ih]

/-- what `paretoColumn` returns when it returns a column -/
theorem paretoColumn_spec (header : List Name) (rows : List (List Cell)) (order : List Nat)
    (flags : List Bool) (h : paretoColumn header rows order = .column flags) :
    let objs := rows.map (project header)
    ∃ vecs, negVecs (objs.filter rowOk) = some vecs ∧
      flags.length = rows.length ∧
      (∀ i : Nat, (objs.map rowOk)[i]? = some false → flags[i]? = some false) ∧
      gather (objs.map rowOk) flags = ndsMask vecs order := by
  intro objs
  unfold paretoColumn at h
  split at h
  · cases h
  · cases hv : negVecs ((rows.map (project header)).filter rowOk) with
    | none => simp [hv] at h
    | some vecs =>
      simp only [hv] at h
      injection h with h
      subst h
      refine ⟨vecs, rfl, by simp [scatter_length], fun i hi => scatter_failed _ _ i hi, ?_⟩
      apply gather_scatter
      rw [ndsMask_length, negVecs_length _ _ hv, count_map_rowOk]

end DH.Pareto
