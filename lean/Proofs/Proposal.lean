import Model.Proposal
import Mathlib.Tactic.Ring

/-!
Lemmas for the C10 theorems about the stage between the sampler and the user
(`Model/Proposal.lean`): the duplicate filter as one pass in drawing order, and the mass of the
candidate sequences on which a configuration is the first one handed out.
-/

namespace DH.Proposal

section
variable {α : Type} [DecidableEq α]

/-! ## 1. the filter in drawing order -/

theorem mem_dedup (x : α) (l : List α) : x ∈ dedup l ↔ x ∈ l := by
  induction l with
  | nil => simp [dedup]
  | cons a t ih =>
    simp only [dedup, List.mem_cons, List.mem_filter, decide_eq_true_eq, ih]
    by_cases h : x = a <;> simp [h]

/-- the pandas-shaped pipeline (drop repeated rows, then anti-join with the history) is the one-pass
filter in drawing order -/
theorem filter_dedup_eq_fresh (S cs : List α) :
    (dedup cs).filter (fun s => decide (s ∉ S)) = fresh S cs := by
  induction cs generalizing S with
  | nil => simp [dedup, fresh]
  | cons c cs ih =>
    simp only [dedup, fresh]
    by_cases hc : c ∈ S
    · simp only [hc, List.filter_cons, not_true_eq_false, decide_false, if_true, Bool.false_eq_true, if_false]
      rw [List.filter_filter, ← ih S]
      apply List.filter_congr
      intro x _
      by_cases hx : x ∈ S
      · simp [hx]
      · have : x ≠ c := fun e => hx (e ▸ hc)
        simp [hx, this]
    · simp only [hc, List.filter_cons, not_false_eq_true, decide_true, if_true, if_false]
      rw [List.filter_filter, ← ih (c :: S)]
      congr 1
      apply List.filter_congr
      intro x _
      by_cases hx : x ∈ S <;> by_cases hxc : x = c <;> simp [hx, hxc]

theorem fresh_sublist (S cs : List α) : (fresh S cs).Sublist cs := by
  induction cs generalizing S with
  | nil => simp [fresh]
  | cons c cs ih =>
    simp only [fresh]
    split
    · exact (ih S).cons c
    · exact (ih (c :: S)).cons_cons c

theorem fresh_congr {S S' : List α} (h : ∀ x, x ∈ S ↔ x ∈ S') (cs : List α) : fresh S cs = fresh S' cs := by
  induction cs generalizing S S' with
  | nil => simp [fresh]
  | cons c cs ih =>
    simp only [fresh]
    by_cases hc : c ∈ S
    · have hc' : c ∈ S' := (h c).1 hc
      simp only [hc, hc', if_true]
      exact ih h
    · have hc' : c ∉ S' := fun e => hc ((h c).2 e)
      simp only [hc, hc', if_false]
      congr 1
      exact ih (fun x => by simp [h x])

theorem firstFresh_congr {S S' : List α} (h : ∀ x, x ∈ S ↔ x ∈ S') (cs : List α) :
    firstFresh S cs = firstFresh S' cs := by
  unfold firstFresh
  congr 1
  funext c
  simp [h c]

/-- the list handed out, unfolded once: its head is the first candidate (in drawing order) that is not
in the history, its tail is the same filter with that candidate added to the history -/
theorem fresh_chain (S cs : List α) :
    fresh S cs = match firstFresh S cs with
      | none => []
      | some c => c :: fresh (c :: S) cs := by
  induction cs with
  | nil => simp [fresh, firstFresh]
  | cons a cs ih =>
    by_cases ha : a ∈ S
    · have h1 : firstFresh S (a :: cs) = firstFresh S cs := by simp [firstFresh, ha]
      rw [h1]
      simp only [fresh, ha, if_true]
      rw [ih]
      cases hf : firstFresh S cs with
      | none => rfl
      | some c =>
        have : a ∈ c :: S := List.mem_cons_of_mem _ ha
        simp [this]
    · have h1 : firstFresh S (a :: cs) = some a := by simp [firstFresh, ha]
      rw [h1]
      simp [fresh, ha]

theorem fresh_head (S cs : List α) : (fresh S cs).head? = firstFresh S cs := by
  rw [fresh_chain]
  cases firstFresh S cs <;> rfl

/-- position `k` of the list handed out is the first candidate that is neither in the history nor among
the `k` configurations handed out before it (`none` on both sides when fewer than `k+1` survive) -/
theorem fresh_getElem (S cs : List α) (k : Nat) :
    (fresh S cs)[k]? = firstFresh (S ++ (fresh S cs).take k) cs := by
  induction k generalizing S with
  | zero =>
    have := fresh_head S cs
    simp only [List.take_zero, List.append_nil]
    rw [← this]
    cases fresh S cs <;> rfl
  | succ k ih =>
    rw [fresh_chain S cs]
    cases hf : firstFresh S cs with
    | none => simp [hf]
    | some c =>
      simp only [List.getElem?_cons_succ, List.take_succ_cons]
      rw [ih (c :: S)]
      apply firstFresh_congr
      intro x
      simp only [List.mem_append, List.mem_cons]
      constructor
      · rintro ((h | h) | h)
        · exact Or.inr (Or.inl h)
        · exact Or.inl h
        · exact Or.inr (Or.inr h)
      · rintro (h | h | h)
        · exact Or.inl (Or.inr h)
        · exact Or.inl (Or.inl h)
        · exact Or.inr h

end

/-! ## 2. sums -/

theorem rsum_append (a b : List Rat) : rsum (a ++ b) = rsum a + rsum b := by
  induction a with
  | nil => simp [rsum]
  | cons x xs ih => simp only [List.cons_append, rsum, ih]; ring

theorem rsum_map_mul {β : Type} (a : Rat) (f : β → Rat) (l : List β) :
    rsum (l.map (fun x => a * f x)) = a * rsum (l.map f) := by
  induction l with
  | nil => simp [rsum]
  | cons x xs ih => simp only [List.map_cons, rsum, ih]; ring

theorem rsum_map_zero {β : Type} (l : List β) : rsum (l.map (fun _ => (0 : Rat))) = 0 := by
  induction l with
  | nil => simp [rsum]
  | cons x xs ih => simp only [List.map_cons, rsum, ih]; ring

theorem rsum_flatMap {β γ : Type} (l : List β) (g : β → List γ) (F : γ → Rat) :
    rsum ((l.flatMap g).map F) = rsum (l.map (fun c => rsum ((g c).map F))) := by
  induction l with
  | nil => simp [rsum]
  | cons x xs ih => simp only [List.flatMap_cons, List.map_append, rsum_append, ih, List.map_cons, rsum]

/-! ## 3. the mass of "v is handed out first" -/

section
variable {α : Type} [DecidableEq α]

omit [DecidableEq α] in
theorem massAll_eq (p : α → Rat) (support : List α) (n : Nat) :
    massAll p support n = pw (total p support) n := by
  induction n with
  | zero => simp [massAll, seqs, rsum, weight, pw]
  | succ n ih =>
    unfold massAll at ih ⊢
    simp only [seqs]
    rw [rsum_flatMap]
    have : ∀ c, rsum (((seqs support n).map (fun cs => c :: cs)).map (weight p)) = p c * pw (total p support) n := by
      intro c
      rw [List.map_map]
      have : (weight p ∘ fun cs => c :: cs) = fun cs => p c * weight p cs := by funext cs; simp [weight]
      rw [this, rsum_map_mul, ih]
    simp only [this]
    have h2 : rsum (support.map (fun c => p c * pw (total p support) n)) = pw (total p support) n * rsum (support.map p) := by
      have : (fun c => p c * pw (total p support) n) = fun c => pw (total p support) n * p c := by funext c; ring
      rw [this, rsum_map_mul]
    rw [h2]
    simp only [pw, total]
    ring

/-- the inner sum over the tails for one first candidate `c` -/
theorem inner_first (p : α → Rat) (support S : List α) (n : Nat) (v c : α) (hv : v ∉ S) :
    rsum (((seqs support n).map (fun cs => c :: cs)).map
        (fun cs => if firstFresh S cs = some v then weight p cs else 0)) =
      if c ∈ S then p c * massFirst p support S n v
      else if c = v then p v * massAll p support n else 0 := by
  rw [List.map_map]
  by_cases hc : c ∈ S
  · simp only [hc, if_true]
    have : ((fun cs => if firstFresh S cs = some v then weight p cs else 0) ∘ fun cs => c :: cs) =
        fun cs => p c * (if firstFresh S cs = some v then weight p cs else 0) := by
      funext cs
      have h1 : firstFresh S (c :: cs) = firstFresh S cs := by simp [firstFresh, hc]
      simp only [Function.comp, h1, weight]
      split <;> ring
    rw [this, rsum_map_mul]
    rfl
  · simp only [hc, if_false]
    by_cases hcv : c = v
    · subst hcv
      simp only [if_true]
      have : ((fun cs => if firstFresh S cs = some c then weight p cs else 0) ∘ fun cs => c :: cs) =
          fun cs => p c * weight p cs := by
        funext cs
        have h1 : firstFresh S (c :: cs) = some c := by simp [firstFresh, hc]
        simp [Function.comp, h1, weight]
      rw [this, rsum_map_mul]
      rfl
    · simp only [hcv, if_false]
      have : ((fun cs => if firstFresh S cs = some v then weight p cs else 0) ∘ fun cs => c :: cs) =
          fun _ => (0 : Rat) := by
        funext cs
        have h1 : firstFresh S (c :: cs) = some c := by simp [firstFresh, hc]
        simp [Function.comp, h1, hcv]
      rw [this, rsum_map_zero]

theorem outer_first (p : α → Rat) (S l : List α) (v : α) (hv : v ∉ S) (M A : Rat) :
    rsum (l.map (fun c => if c ∈ S then p c * M else if c = v then p v * A else 0)) =
      totalIn p l S * M + (l.count v : Rat) * (p v * A) := by
  induction l with
  | nil => simp [rsum, totalIn]
  | cons c l ih =>
    simp only [List.map_cons, rsum, ih]
    by_cases hc : c ∈ S
    · have hcv : c ≠ v := fun e => hv (e ▸ hc)
      have h1 : totalIn p (c :: l) S = p c + totalIn p l S := by simp [totalIn, hc, rsum]
      have h2 : (c :: l).count v = l.count v := by simp [hcv]
      simp only [hc, if_true, h1, h2]
      ring
    · have h1 : totalIn p (c :: l) S = totalIn p l S := by simp [totalIn, hc]
      simp only [hc, if_false, h1]
      by_cases hcv : c = v
      · subst hcv
        have h2 : ((c :: l).count c : Rat) = (l.count c : Rat) + 1 := by simp
        simp only [if_true, h2]
        ring
      · have h2 : (c :: l).count v = l.count v := by simp [hcv]
        simp only [hcv, if_false, h2]
        ring

/-- one more candidate: either it is in the history and the rest decides, or it is `v` itself -/
theorem massFirst_succ (p : α → Rat) (support S : List α) (n : Nat) (v : α) (hv : v ∉ S) :
    massFirst p support S (n + 1) v =
      totalIn p support S * massFirst p support S n v +
        (support.count v : Rat) * (p v * pw (total p support) n) := by
  have h : massFirst p support S (n + 1) v =
      rsum (support.map (fun c => if c ∈ S then p c * massFirst p support S n v
        else if c = v then p v * massAll p support n else 0)) := by
    unfold massFirst
    simp only [seqs]
    rw [rsum_flatMap]
    congr 1
    apply List.map_congr_left
    intro c _
    exact inner_first p support S n v c hv
  rw [h, outer_first p S support v hv, massAll_eq]

theorem massFirst_eq (p : α → Rat) (support S : List α) (n : Nat) (v : α) (hv : v ∉ S)
    (h1 : support.count v = 1) :
    massFirst p support S n v = p v * geom (totalIn p support S) (total p support) n := by
  induction n with
  | zero => simp [massFirst, seqs, firstFresh, rsum, geom]
  | succ n ih =>
    rw [massFirst_succ p support S n v hv, ih, h1]
    simp only [geom, Nat.cast_one]
    ring

end

end DH.Proposal
