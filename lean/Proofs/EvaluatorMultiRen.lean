import Model.EvaluatorMulti
import Proofs.EvaluatorPay

/-!
Renaming of job ids: the numbering `rho` from an evaluator's *own* numbering of its jobs (`0, 1, 2, …`:
what `Model/Evaluator.lean` uses) to the ids of the shared storage search, and the relation `Rel` between
the private state of an evaluator of the system (`Model/EvaluatorMulti.lean`) and a state of the
single-evaluator model.  Core Lean only.
-/

namespace DH.Evaluator

variable {C O : Type}

/-! ### lists under an injective map -/

theorem map_erase_inj {α β : Type} [DecidableEq α] [DecidableEq β] {f : α → β}
    (hf : ∀ x y, f x = f y → x = y) (a : α) : ∀ l : List α, (l.erase a).map f = (l.map f).erase (f a)
  | [] => rfl
  | b :: l => by
    by_cases h : b = a
    · subst h; simp
    · have h' : f b ≠ f a := fun e => h (hf _ _ e)
      simp [List.erase_cons_tail, h, h', map_erase_inj hf a l]

theorem contains_map_inj {α β : Type} [DecidableEq α] [DecidableEq β] {f : α → β}
    (hf : ∀ x y, f x = f y → x = y) (a : α) (l : List α) : (l.map f).contains (f a) = l.contains a := by
  rw [Bool.eq_iff_iff]
  simp only [List.contains_eq_mem, decide_eq_true_eq, List.mem_map]
  constructor
  · rintro ⟨x, hx, hfx⟩; exact hf _ _ hfx ▸ hx
  · intro h; exact ⟨a, h, rfl⟩

theorem nodup_map_inj {α β : Type} {f : α → β} (hf : ∀ x y, f x = f y → x = y) :
    ∀ {l : List α}, l.Nodup → (l.map f).Nodup
  | [], _ => by simp
  | a :: l, h => by
    simp only [List.nodup_cons] at h
    simp only [List.map_cons, List.nodup_cons, List.mem_map, not_exists, not_and]
    exact ⟨fun x hx hfx => h.1 (hf _ _ hfx ▸ hx), nodup_map_inj hf h.2⟩

theorem nodup_of_map {α β : Type} (f : α → β) : ∀ {l : List α}, (l.map f).Nodup → l.Nodup
  | [], _ => by simp
  | a :: l, h => by
    simp only [List.map_cons, List.nodup_cons, List.mem_map, not_exists, not_and] at h
    simp only [List.nodup_cons]
    exact ⟨fun ha => h.1 a ha rfl, nodup_of_map f h.2⟩

/-! ### the numbering -/

/-- storage id of an evaluator's `k`-th job: `jobs[k]`; the not yet created ones get the ids the search
would hand out next (`G` = the search's job counter) -/
def rho (jobs : List Nat) (G : Nat) (k : Nat) : Nat :=
  if h : k < jobs.length then jobs[k] else G + (k - jobs.length)

theorem rho_lt {jobs : List Nat} {G k : Nat} (h : k < jobs.length) : rho jobs G k = jobs[k] := by
  simp [rho, h]

theorem rho_ge {jobs : List Nat} {G k : Nat} (h : jobs.length ≤ k) : rho jobs G k = G + (k - jobs.length) := by
  simp [rho, Nat.not_lt.2 h]

/-- creating the next job does not change the numbering -/
theorem rho_append (jobs : List Nat) (G : Nat) : rho (jobs ++ [G]) (G + 1) = rho jobs G := by
  funext k
  have hlen : (jobs ++ [G]).length = jobs.length + 1 := by simp
  by_cases h1 : k < jobs.length
  · rw [rho_lt (jobs := jobs) h1, rho_lt (jobs := jobs ++ [G]) (by omega), List.getElem_append_left h1]
  · by_cases h2 : k = jobs.length
    · subst h2
      rw [rho_ge (jobs := jobs) (Nat.le_refl _), rho_lt (jobs := jobs ++ [G]) (by omega)]
      simp
    · rw [rho_ge (jobs := jobs) (by omega), rho_ge (jobs := jobs ++ [G]) (by omega)]
      omega

theorem rho_mono {jobs : List Nat} {G : Nat} (hs : jobs.Pairwise (· < ·)) (hl : ∀ g ∈ jobs, g < G)
    {a b : Nat} (hab : a < b) : rho jobs G a < rho jobs G b := by
  by_cases hb : b < jobs.length
  · rw [rho_lt hb, rho_lt (by omega)]
    exact List.pairwise_iff_getElem.1 hs a b (by omega) hb hab
  · by_cases ha : a < jobs.length
    · rw [rho_lt ha, rho_ge (by omega)]
      have := hl jobs[a] (List.getElem_mem ha)
      omega
    · rw [rho_ge (by omega), rho_ge (by omega)]; omega

theorem rho_inj {jobs : List Nat} {G : Nat} (hs : jobs.Pairwise (· < ·)) (hl : ∀ g ∈ jobs, g < G) :
    ∀ a b, rho jobs G a = rho jobs G b → a = b := by
  intro a b h
  rcases Nat.lt_trichotomy a b with hab | hab | hab
  · have := rho_mono hs hl hab; omega
  · exact hab
  · have := rho_mono hs hl hab; omega

/-- on an evaluator's existing jobs the numbering does not depend on the search's counter -/
theorem map_rho_congr {jobs : List Nat} {G G' : Nat} {l : List Nat} (h : ∀ i ∈ l, i < jobs.length) :
    l.map (rho jobs G) = l.map (rho jobs G') := by
  apply List.map_congr_left
  intro i hi
  rw [rho_lt (h i hi), rho_lt (h i hi)]

theorem map_rho_range (jobs : List Nat) (G : Nat) : (List.range jobs.length).map (rho jobs G) = jobs := by
  apply List.ext_getElem
  · simp
  · intro i h1 h2
    simp only [List.length_map, List.length_range] at h1
    simp [rho_lt h1]

theorem rho_idxOf {jobs : List Nat} {G g : Nat} (h : g ∈ jobs) : rho jobs G (jobs.idxOf g) = g := by
  have hlt := List.idxOf_lt_length_of_mem h
  rw [rho_lt hlt]
  exact List.getElem_idxOf hlt

/-- a list of an evaluator's own job ids is the image of a list of local indices -/
theorem exists_local {jobs : List Nat} (G : Nat) {l : List Nat} (h : ∀ g ∈ l, g ∈ jobs) :
    (l.map (fun g => jobs.idxOf g)).map (rho jobs G) = l ∧ ∀ i ∈ l.map (fun g => jobs.idxOf g), i < jobs.length := by
  constructor
  · rw [List.map_map]
    conv => rhs; rw [← List.map_id l]
    apply List.map_congr_left
    intro g hg
    exact rho_idxOf (h g hg)
  · intro i hi
    obtain ⟨g, hg, rfl⟩ := List.mem_map.1 hi
    exact List.idxOf_lt_length_of_mem (h g hg)

def renRec (f : Nat → Nat) (j : JobRec C O) : JobRec C O := { j with id := f j.id }
def renTask (f : Nat → Nat) (t : Task) : Task := { t with id := f t.id }
def renDel (f : Nat → Nat) (x : Nat × Via) : Nat × Via := (f x.1, x.2)

end DH.Evaluator
