import Proofs.Search
import Proofs.TimeoutLive

/-!
The counters-level model of `search()` (`Model/Search.lean`, C03) is an abstraction of the per-job
timeline model (`Model/Timeout.lean`, C14): projection `absEv`, simulation relation `Sim`, induced
environment, lock-step simulation of `submit`, `gather`, the loop, one `search()` call and
sequences of calls.  Core Lean only.
-/

namespace DH.Refine
open DH

abbrev TEv := Timeout.Ev
abbrev CEv := Search.Ev

/-- projection of a timeline state onto the counters of the budget model (`asks` is a history
variable of the counters model only) -/
def absEv (t : TEv) : CEv :=
  { W := t.W, stored := t.jobs.length, gathered := t.results.length, running := t.running.length,
    offset := t.offset, maxSub := t.maxSub, timeoutSet := t.deadline.isSome, pending := 0,
    rows := t.results.length, asks := [] }

/-- `c` is the projection of `t` up to the history variable `asks` -/
structure Sim (t : TEv) (c : CEv) : Prop where
  W : c.W = t.W
  stored : c.stored = t.jobs.length
  gathered : c.gathered = t.results.length
  running : c.running = t.running.length
  offset : c.offset = t.offset
  maxSub : c.maxSub = t.maxSub
  timeoutSet : c.timeoutSet = t.deadline.isSome
  pending : c.pending = 0
  rows : c.rows = t.results.length

theorem sim_abs (t : TEv) : Sim t (absEv t) := ⟨rfl, rfl, rfl, rfl, rfl, rfl, rfl, rfl, rfl⟩

theorem sim_numEvals {t : TEv} {c : CEv} (h : Sim t c) (strict : Bool) :
    Search.numEvals strict c = Timeout.numEvals strict t := by
  unfold Search.numEvals Timeout.numEvals Search.numSubmitted Search.numGathered
    Timeout.numSubmitted Timeout.numGathered
  rw [h.stored, h.gathered, h.offset]

/-- stop reasons of the timeline model that exist in the counters model -/
def convStop : Timeout.Stop → Search.Stop
  | .budget => .budget | .cap => .cap | .timeout => .timeout | .noJobs => .noJobs
  | .hang => .hang | .badEnv => .badEnv | .envExhausted => .envExhausted

/-! ### `submit` -/

theorem sim_submit : ∀ (k : Nat) (t : TEv) (c : CEv), Sim t c →
    (Search.submit c k).2 = (Timeout.submitCap t k).2 ∧
    Sim (Timeout.submitCap t k).1 (Search.submit c k).1
  | 0, t, c, h => by simp [Search.submit, Timeout.submitCap, h]
  | k + 1, t, c, h => by
    simp only [Search.submit, Timeout.submitCap]
    have hc : (0 < c.maxSub ∧ c.maxSub ≤ Search.numSubmitted c) ↔
        (0 < t.maxSub ∧ t.maxSub ≤ Timeout.numSubmitted t) := by
      unfold Search.numSubmitted Timeout.numSubmitted
      rw [h.maxSub, h.stored, h.offset]
    by_cases hcap : 0 < t.maxSub ∧ t.maxSub ≤ Timeout.numSubmitted t
    · rw [if_pos hcap, if_pos (hc.mpr hcap)]
      exact ⟨rfl, h⟩
    · rw [if_neg hcap, if_neg (fun x => hcap (hc.mp x))]
      apply sim_submit k
      obtain ⟨h1, h2, h3, h4, h5, h6, h7, h8, h9⟩ := h
      exact ⟨h1, by simp [h2], h3, by simp [h4], h5, h6, h7, h8, h9⟩

theorem sim_asks {t : TEv} {c : CEv} (h : Sim t c) (a : List Nat) : Sim t { c with asks := a } :=
  ⟨h.W, h.stored, h.gathered, h.running, h.offset, h.maxSub, h.timeoutSet, h.pending, h.rows⟩

theorem sim_askStep {t : TEv} {c : CEv} (h : Sim t c) : Sim (Timeout.askStep t) c :=
  ⟨h.W, h.stored, h.gathered, h.running, h.offset, h.maxSub, h.timeoutSet, h.pending, h.rows⟩

/-! ### `gather` -/

theorem report_cfg : ∀ (rep : List Nat) (s s' : TEv), Timeout.report s rep = some s' →
    s'.offset = s.offset ∧ s'.maxSub = s.maxSub
  | [], s, s', hr => by simp [Timeout.report] at hr; subst hr; exact ⟨rfl, rfl⟩
  | i :: rest, s, s', hr => by
    simp only [Timeout.report] at hr
    split at hr
    · have := report_cfg rest
        { s with jobs := Timeout.upd Timeout.jOnDone i s.jobs, running := s.running.erase i,
                 results := s.results ++ [i] } s' hr
      exact this
    · simp at hr

/-- what a successful `gather` of the timeline model does to the counters -/
theorem gatherN_counts (s : TEv) (size : Nat) (rep : List Nat) (h : Timeout.Rep s)
    (hok : (Timeout.gatherN s size rep).2 = none) :
    s.running ≠ [] ∧
    (Timeout.gatherN s size rep).1.results.length = s.results.length + rep.length ∧
    (Timeout.gatherN s size rep).1.running.length + rep.length = s.running.length ∧
    (Timeout.gatherN s size rep).1.jobs.length = s.jobs.length ∧
    (Timeout.gatherN s size rep).1.offset = s.offset ∧ (Timeout.gatherN s size rep).1.maxSub = s.maxSub ∧
    (Timeout.gatherN s size rep).1.W = s.W ∧ (Timeout.gatherN s size rep).1.deadline = s.deadline ∧
    min size s.running.length ≤ rep.length := by
  have hlen := Timeout.gatherN_rep_len s size rep hok
  unfold Timeout.gatherN at hok ⊢
  simp only at hok ⊢
  have fw := Timeout.frame_waitFor s (min size s.running.length)
  generalize Timeout.waitFor s (min size s.running.length) = w at fw hok ⊢
  split at hok
  · simp at hok
  · next hne =>
    rw [if_neg hne]
    split at hok
    · simp at hok
    · next hw =>
      rw [if_neg hw]
      split at hok
      · simp at hok
      · next hchk =>
        rw [if_neg hchk]
        split at hok
        · next s3 hr =>
          simp only [hr]
          obtain ⟨_, r2, r3, r4, _, r6, r7⟩ := Timeout.rep_report rep w.1 s3 (Timeout.rep_frame fw h) hr
          obtain ⟨c1, c2⟩ := report_cfg rep w.1 s3 hr
          have hj : w.1.jobs.length = s.jobs.length := by
            rw [← Timeout.clsList_length, ← Timeout.clsList_length, fw.cl]
          refine ⟨hne, ?_, ?_, ?_, ?_, ?_, ?_, ?_, hlen⟩
          · rw [r3, fw.results]; simp
          · rw [fw.running] at r2; exact r2
          · rw [r7, hj]
          · rw [c1, fw.offset]
          · rw [c2, fw.maxSub]
          · rw [r6, fw.W]
          · rw [r4, fw.deadline]
        · simp at hok

/-- one successful `gather("BATCH", 1)` + dump, in lock-step -/
theorem sim_gather1 {t : TEv} {c : CEv} (h : Sim t c) (hrep : Timeout.Rep t) (rep : List Nat)
    (hok : (Timeout.gather t false 1 rep).2 = none) :
    Search.gatherBatch1 c rep.length = (Search.afterGather c rep.length, .ok) ∧
    Sim (Timeout.gather t false 1 rep).1 (Search.dump (Search.afterGather c rep.length)) := by
  rw [Timeout.gather_batch1] at hok ⊢
  obtain ⟨g1, g2, g3, g4, g5, g6, g7, g8, g9⟩ := gatherN_counts t 1 rep hrep hok
  have hpos : 0 < t.running.length := List.length_pos_iff.mpr g1
  have hg : 1 ≤ rep.length := by
    have : min 1 t.running.length = 1 := by omega
    omega
  constructor
  · unfold Search.gatherBatch1
    rw [if_neg (by rw [h.running]; omega), if_neg (by rw [h.running]; omega)]
    rfl
  · obtain ⟨h1, h2, h3, h4, h5, h6, h7, h8, h9⟩ := h
    refine ⟨?_, ?_, ?_, ?_, ?_, ?_, ?_, ?_, ?_⟩ <;>
      simp only [Search.dump, Search.afterGather]
    · rw [g7]; exact h1
    · rw [g4]; exact h2
    · rw [g2, h3]
    · rw [h4]; omega
    · rw [g5]; exact h5
    · rw [g6]; exact h6
    · rw [g8]; exact h7
    · rw [g2, h9, h8]; omega

/-- the environment of the counters model induced by a run of the timeline model: per gather the
number of reported jobs and whether the clock had passed the deadline afterwards -/
def induced (strict : Bool) (target : Int) : TEv → Nat → List (List Nat) → List Search.Step
  | t, nAsk, reps =>
    if target < 0 ∨ Timeout.numEvals strict t < target then
      if (Timeout.submitCap (Timeout.askStep t) nAsk).2 then []
      else
        match reps with
        | [] => []
        | rep :: rest =>
          { g := rep.length,
            expired := Timeout.expired (Timeout.gather (Timeout.submitCap (Timeout.askStep t) nAsk).1 false 1 rep).1 } ::
            (if (Timeout.gather (Timeout.submitCap (Timeout.askStep t) nAsk).1 false 1 rep).2 = none ∧
                Timeout.expired (Timeout.gather (Timeout.submitCap (Timeout.askStep t) nAsk).1 false 1 rep).1 = false
             then induced strict target
                (Timeout.gather (Timeout.submitCap (Timeout.askStep t) nAsk).1 false 1 rep).1 rep.length rest
             else [])
    else []

theorem expired_timeoutSet {t : TEv} (h : Timeout.expired t = true) : t.deadline.isSome = true := by
  unfold Timeout.expired at h
  cases hd : t.deadline with
  | none => rw [hd] at h; simp at h
  | some d => rfl

/-- **the loop of the timeline model projects to the loop of the counters model** (for runs that end
by budget, cap or timeout) -/
theorem loop_sim (strict : Bool) (target : Int) :
    ∀ (reps : List (List Nat)) (t : TEv) (nAsk : Nat) (c : CEv), Sim t c → Timeout.Rep t →
      Timeout.SettledStop (Timeout.loop strict target t nAsk reps).2 →
      (Search.loop strict target c nAsk (induced strict target t nAsk reps)).2 =
        convStop (Timeout.loop strict target t nAsk reps).2 ∧
      Sim (Timeout.loop strict target t nAsk reps).1
        (Search.loop strict target c nAsk (induced strict target t nAsk reps)).1 := by
  intro reps
  induction reps with
  | nil =>
    intro t nAsk c h hrep hs
    unfold Timeout.loop at hs ⊢
    unfold induced
    dsimp only at hs ⊢
    have hne := sim_numEvals h strict
    by_cases hc : target < 0 ∨ Timeout.numEvals strict t < target
    · simp only [if_pos hc] at hs ⊢
      obtain ⟨e1, e2⟩ := sim_submit nAsk (Timeout.askStep t) { c with asks := c.asks ++ [nAsk] }
        (sim_asks (sim_askStep h) _)
      cases hr : (Timeout.submitCap (Timeout.askStep t) nAsk).2 with
      | true =>
        rw [hr] at e1
        simp only [if_true]
        unfold Search.loop
        rw [if_pos (by rw [hne]; exact hc)]
        simp only [e1, if_true]
        exact ⟨rfl, e2⟩
      | false =>
        rw [hr] at hs
        simp [Timeout.SettledStop] at hs
    · simp only [if_neg hc]
      unfold Search.loop
      rw [if_neg (by rw [hne]; exact hc)]
      exact ⟨rfl, h⟩
  | cons rep rest ih =>
    intro t nAsk c h hrep hs
    unfold Timeout.loop at hs ⊢
    unfold induced
    dsimp only at hs ⊢
    have hne := sim_numEvals h strict
    by_cases hc : target < 0 ∨ Timeout.numEvals strict t < target
    · simp only [if_pos hc] at hs ⊢
      obtain ⟨e1, e2⟩ := sim_submit nAsk (Timeout.askStep t) { c with asks := c.asks ++ [nAsk] }
        (sim_asks (sim_askStep h) _)
      have hrsub := Timeout.rep_submitCap nAsk (Timeout.askStep t) (Timeout.rep_cfg (s := t) rfl rfl rfl hrep)
      generalize Timeout.submitCap (Timeout.askStep t) nAsk = sub at e1 e2 hrsub hs ⊢
      cases hr : sub.2 with
      | true =>
        rw [hr] at e1
        simp only [if_true]
        unfold Search.loop
        rw [if_pos (by rw [hne]; exact hc)]
        simp only [e1, if_true]
        exact ⟨rfl, e2⟩
      | false =>
        rw [hr] at hs e1
        simp only [Bool.false_eq_true, if_false] at hs ⊢
        have hgrep := Timeout.rep_gather sub.1 false 1 rep hrsub
        have hsg := sim_gather1 e2 hrsub rep
        generalize hga : Timeout.gather sub.1 false 1 rep = ga at hs hgrep hsg ⊢
        obtain ⟨g1, g2⟩ := ga
        cases g2 with
        | some e => cases e <;> simp [Timeout.SettledStop] at hs
        | none =>
          simp only at hs hgrep hsg ⊢
          obtain ⟨sg1, sg2⟩ := hsg trivial
          have hrg := (hgrep trivial).1
          unfold Search.loop
          rw [if_pos (by rw [hne]; exact hc)]
          simp only [e1, Bool.false_eq_true, if_false, sg1]
          cases hexp : Timeout.expired g1 with
          | true =>
            have hts : (Search.dump (Search.afterGather (Search.submit { c with asks := c.asks ++ [nAsk] } nAsk).1
                rep.length)).timeoutSet = true := by
              rw [sg2.timeoutSet]; exact expired_timeoutSet hexp
            simp only [if_true, hts, and_self]
            exact ⟨rfl, sg2⟩
          | false =>
            rw [hexp] at hs
            simp only [Bool.false_eq_true, if_false, and_false, and_self, if_true] at hs ⊢
            exact ih g1 rep.length _ sg2 hrg hs
    · simp only [if_neg hc]
      unfold Search.loop
      rw [if_neg (by rw [hne]; exact hc)]
      exact ⟨rfl, h⟩

/-! ### one `search()` call -/

/-- the timeline evaluator after the cap / timeout have been (re)set for this call -/
def prepT (t : TEv) (c : Timeout.Call) : TEv :=
  Timeout.setTimeout
    (if c.strict then { t with maxSub := c.maxEvals, offset := (t.results.length : Int) }
     else { t with maxSub := -1 }) c.timeout

def targetT (c : Timeout.Call) (t2 : TEv) : Int :=
  if c.maxEvals < 0 then c.maxEvals else c.maxEvals + Timeout.numEvals c.strict t2

/-- everything `Timeout.search` does after the loop -/
def tailT (lp : TEv × Timeout.Stop) (drainRep : List Nat) : TEv × Timeout.Stop :=
  match lp.2 with
  | .noJobs => lp
  | .hang => lp
  | .badEnv => lp
  | .envExhausted => lp
  | stop =>
    if Timeout.numSubmitted lp.1 > Timeout.numGathered lp.1 then
      let ga := Timeout.gather lp.1 true 0 drainRep
      match ga.2 with
      | some .noJobs => (ga.1, .noJobs)
      | some .hang => (ga.1, .hang)
      | some .badEnv => (ga.1, .badEnv)
      | none =>
        if Timeout.numSubmitted ga.1 > Timeout.numGathered ga.1 then (ga.1, .hang)
        else ((Timeout.close ga.1 []).1, stop)
    else ((Timeout.close lp.1 []).1, stop)

theorem search_def (t : TEv) (c : Timeout.Call) (reps : List (List Nat)) (drainRep : List Nat) :
    Timeout.search t c reps drainRep =
      tailT (Timeout.loop c.strict (targetT c (prepT t c)) (prepT t c) (prepT t c).W reps) drainRep := rfl

theorem close_nil (t : TEv) (ht : t.running = []) : (Timeout.close t []).1 = t := by
  unfold Timeout.close; simp [ht]

/-- the drain of a settled loop: same stop reason, no new job, everything reported -/
theorem tail_settled (lp : TEv × Timeout.Stop) (drainRep : List Nat) (hrep : Timeout.Rep lp.1)
    (hl : Timeout.SettledStop lp.2) (hs : Timeout.SettledStop (tailT lp drainRep).2) :
    (tailT lp drainRep).2 = lp.2 ∧ (tailT lp drainRep).1.jobs.length = lp.1.jobs.length ∧
    (tailT lp drainRep).1.results.length = lp.1.jobs.length ∧ (tailT lp drainRep).1.running = [] ∧
    (tailT lp drainRep).1.offset = lp.1.offset ∧ (tailT lp drainRep).1.maxSub = lp.1.maxSub ∧
    (tailT lp drainRep).1.W = lp.1.W ∧ (tailT lp drainRep).1.deadline = lp.1.deadline := by
  obtain ⟨l1, l2⟩ := lp
  simp only at hrep hl
  have body : ∀ st : Timeout.Stop, Timeout.SettledStop st →
      let r := (if Timeout.numSubmitted l1 > Timeout.numGathered l1 then
          match (Timeout.gather l1 true 0 drainRep).2 with
          | some .noJobs => ((Timeout.gather l1 true 0 drainRep).1, Timeout.Stop.noJobs)
          | some .hang => ((Timeout.gather l1 true 0 drainRep).1, Timeout.Stop.hang)
          | some .badEnv => ((Timeout.gather l1 true 0 drainRep).1, Timeout.Stop.badEnv)
          | none =>
            if Timeout.numSubmitted (Timeout.gather l1 true 0 drainRep).1 >
                Timeout.numGathered (Timeout.gather l1 true 0 drainRep).1 then
              ((Timeout.gather l1 true 0 drainRep).1, Timeout.Stop.hang)
            else ((Timeout.close (Timeout.gather l1 true 0 drainRep).1 []).1, st)
        else ((Timeout.close l1 []).1, st))
      Timeout.SettledStop r.2 →
      r.2 = st ∧ r.1.jobs.length = l1.jobs.length ∧ r.1.results.length = l1.jobs.length ∧
      r.1.running = [] ∧ r.1.offset = l1.offset ∧ r.1.maxSub = l1.maxSub ∧ r.1.W = l1.W ∧
      r.1.deadline = l1.deadline := by
    intro st _ r hr
    simp only [r] at hr ⊢
    split
    · next hd =>
      rw [if_pos hd] at hr
      have hg := Timeout.rep_gather l1 true 0 drainRep hrep
      have hcnt : (Timeout.gather l1 true 0 drainRep).2 = none →
          (Timeout.gather l1 true 0 drainRep).1.jobs.length = l1.jobs.length ∧
          (Timeout.gather l1 true 0 drainRep).1.offset = l1.offset ∧
          (Timeout.gather l1 true 0 drainRep).1.maxSub = l1.maxSub ∧
          (Timeout.gather l1 true 0 drainRep).1.W = l1.W ∧
          (Timeout.gather l1 true 0 drainRep).1.deadline = l1.deadline := by
        intro hok
        unfold Timeout.gather at hok ⊢
        simp only [if_true] at hok ⊢
        split
        · next h0 =>
          rw [if_pos h0] at hok
          split <;> simp
        · next h0 =>
          rw [if_neg h0] at hok
          obtain ⟨_, _, _, g4, g5, g6, g7, g8, _⟩ := gatherN_counts l1 l1.running.length drainRep hrep hok
          exact ⟨g4, g5, g6, g7, g8⟩
      generalize Timeout.gather l1 true 0 drainRep = ga at hg hcnt hr ⊢
      obtain ⟨g1, g2⟩ := ga
      cases g2 with
      | some e => cases e <;> simp [Timeout.SettledStop] at hr
      | none =>
        simp only at hg hcnt hr ⊢
        obtain ⟨ra, rb⟩ := hg trivial
        have rb' := rb trivial
        obtain ⟨c1, c2, c3, c4, c5⟩ := hcnt trivial
        have hno : ¬ (Timeout.numSubmitted g1 > Timeout.numGathered g1) := by
          simp only [Timeout.numSubmitted, Timeout.numGathered]
          have := ra.count
          rw [rb'] at this
          simp only [List.length_nil, Nat.add_zero] at this
          omega
        rw [if_neg hno, close_nil g1 rb']
        have := ra.count
        rw [rb'] at this
        simp only [List.length_nil, Nat.add_zero] at this
        exact ⟨rfl, c1, by omega, rb', c2, c3, c4, c5⟩
    · next hd =>
      simp only [Timeout.numSubmitted, Timeout.numGathered] at hd
      have hcount := hrep.count
      have hrun : l1.running = [] := List.eq_nil_of_length_eq_zero (by omega)
      rw [close_nil l1 hrun]
      rw [hrun] at hcount
      simp only [List.length_nil, Nat.add_zero] at hcount
      exact ⟨rfl, rfl, by omega, hrun, rfl, rfl, rfl, rfl⟩
  unfold tailT at hs ⊢
  rcases hl with h | h | h <;> subst h <;> simp only at hs ⊢
  · exact body .budget (Or.inl rfl) hs
  · exact body .cap (Or.inr (Or.inl rfl)) hs
  · exact body .timeout (Or.inr (Or.inr rfl)) hs

theorem tail_unsettled (lp : TEv × Timeout.Stop) (drainRep : List Nat)
    (hl : ¬ Timeout.SettledStop lp.2) : tailT lp drainRep = lp := by
  obtain ⟨l1, l2⟩ := lp
  unfold tailT
  cases l2 <;> simp_all [Timeout.SettledStop]

/-- the call of the counters model that corresponds to a call of the timeline model -/
def callOf (c : Timeout.Call) : Search.Call :=
  { maxEvals := c.maxEvals, strict := c.strict, timeout := c.timeout.map (fun t => (t : Int)) }

/-- the schedule of the counters model induced by one `search()` call of the timeline model -/
def inducedCall (t : TEv) (c : Timeout.Call) (reps : List (List Nat)) : List Search.Step :=
  induced c.strict (targetT c (prepT t c)) (prepT t c) (prepT t c).W reps

theorem sim_prep {t : TEv} {cs : CEv} (h : Sim t cs) (c : Timeout.Call) :
    Sim (prepT t c) (Search.prep cs (callOf c)) := by
  obtain ⟨h1, h2, h3, h4, h5, h6, h7, h8, h9⟩ := h
  obtain ⟨n, strict, to⟩ := c
  cases to <;> cases strict <;>
    (refine ⟨?_, ?_, ?_, ?_, ?_, ?_, ?_, ?_, ?_⟩ <;>
      simp [prepT, Search.prep, callOf, Timeout.setTimeout, Search.setMax, *])

theorem badTimeout_callOf (c : Timeout.Call) (hpos : ∀ tt, c.timeout = some tt → 0 < tt) :
    Search.badTimeout (callOf c) = false := by
  unfold Search.badTimeout callOf
  cases h : c.timeout with
  | none => rfl
  | some tt => have := hpos tt h; simp; omega

/-- **one `search()` call of the timeline model projects to `searchCall` of the counters model**
on the projected state with the induced schedule: same stop reason, projected final state, same
number of new evaluations -/
theorem search_sim (t : TEv) (cs : CEv) (c : Timeout.Call) (reps : List (List Nat)) (drainRep : List Nat)
    (h : Sim t cs) (hrep : Timeout.Rep t) (hpos : ∀ tt, c.timeout = some tt → 0 < tt)
    (hs : Timeout.SettledStop (Timeout.search t c reps drainRep).2) :
    (Search.searchCall {} cs (callOf c) (inducedCall t c reps)).2.stop =
      convStop (Timeout.search t c reps drainRep).2 ∧
    Sim (Timeout.search t c reps drainRep).1 (Search.searchCall {} cs (callOf c) (inducedCall t c reps)).1 ∧
    (Search.searchCall {} cs (callOf c) (inducedCall t c reps)).2.evals =
      (Timeout.search t c reps drainRep).1.jobs.length - t.jobs.length := by
  rw [search_def] at hs ⊢
  rw [Search.searchCall_def, badTimeout_callOf c hpos]
  simp only [Bool.false_eq_true, if_false]
  have hp := sim_prep h c
  have hrep2 : Timeout.Rep (prepT t c) := by
    unfold prepT Timeout.setTimeout
    split <;> exact Timeout.rep_cfg (s := t) rfl rfl rfl hrep
  have htgt : Search.target (callOf c) (Search.prep cs (callOf c)) = targetT c (prepT t c) := by
    unfold Search.target targetT
    rw [sim_numEvals hp]; rfl
  have hW : (Search.prep cs (callOf c)).W = (prepT t c).W := hp.W
  have hst0 : cs.stored = t.jobs.length := h.stored
  have hj2 : (prepT t c).jobs.length = t.jobs.length := by
    unfold prepT Timeout.setTimeout; split <;> rfl
  rw [htgt, hW]
  unfold inducedCall
  rw [show (callOf c).strict = c.strict from rfl]
  -- the loop
  have hlset : Timeout.SettledStop
      (Timeout.loop c.strict (targetT c (prepT t c)) (prepT t c) (prepT t c).W reps).2 := by
    false_or_by_contra
    rename_i hn
    rw [tail_unsettled _ _ hn] at hs
    exact hn hs
  obtain ⟨ls1, ls2⟩ := loop_sim c.strict (targetT c (prepT t c)) reps (prepT t c) (prepT t c).W
    (Search.prep cs (callOf c)) hp hrep2 hlset
  have hlrep := Timeout.rep_loop c.strict (targetT c (prepT t c)) reps (prepT t c) (prepT t c).W hrep2 hlset
  generalize Timeout.loop c.strict (targetT c (prepT t c)) (prepT t c) (prepT t c).W reps = lpT
    at hs hlset ls1 ls2 hlrep
  generalize Search.loop c.strict (targetT c (prepT t c)) (Search.prep cs (callOf c)) (prepT t c).W
    (induced c.strict (targetT c (prepT t c)) (prepT t c) (prepT t c).W reps) = lpS at ls1 ls2
  obtain ⟨t1, t2, t3, t4, t5, t6, t7, t8⟩ := tail_settled lpT drainRep hlrep hlset hs
  -- the counters side after the loop
  have hbooks : Search.Books lpS.1 := by
    constructor
    · rw [ls2.stored, ls2.gathered, ls2.running]; exact hlrep.count
    · rw [ls2.rows, ls2.pending, ls2.gathered]; rfl
  have hstopS : lpS.2 = .budget ∨ lpS.2 = .cap ∨ lpS.2 = .timeout := by
    rw [ls1]
    rcases hlset with e | e | e <;> rw [e] <;> simp [convStop]
  rw [Search.finish_settled hbooks ls2.pending hstopS]
  obtain ⟨_, ⟨d1, d2, d3, d4⟩, ⟨db1, db2⟩, dr, dp, dst, _⟩ := Search.drain_spec hbooks ls2.pending
  refine ⟨?_, ?_, ?_⟩
  · simp only [Search.mkOut]; rw [ls1, t1]
  · refine ⟨?_, ?_, ?_, ?_, ?_, ?_, ?_, ?_, ?_⟩
    · rw [d1, ls2.W, t7]
    · rw [dst, ls2.stored, t2]
    · have : (Search.drain lpS.1).1.gathered = (Search.drain lpS.1).1.stored := by omega
      rw [this, dst, ls2.stored, t3]
    · rw [dr, t4]; rfl
    · rw [d2, ls2.offset, t5]
    · rw [d3, ls2.maxSub, t6]
    · rw [d4, ls2.timeoutSet, t8]
    · exact dp
    · have : (Search.drain lpS.1).1.rows = (Search.drain lpS.1).1.stored := by omega
      rw [this, dst, ls2.stored, t3]
  · simp only [Search.mkOut]
    rw [dst, ls2.stored, t2, hst0]

/-! ### sequences of calls -/

/-- the history of the counters model induced by a history of the timeline model -/
def inducedHist : TEv → List Timeout.SCall → List (Search.Call × List Search.Step)
  | _, [] => []
  | t, sc :: rest =>
    (callOf sc.call, inducedCall t sc.call sc.reps) ::
      inducedHist (Timeout.search t sc.call sc.reps sc.drainRep).1 rest

/-- every timeout passed to `search()` is a positive number of seconds (`_check_timeout`) -/
def TimeoutsPos (hist : List Timeout.SCall) : Prop :=
  ∀ sc ∈ hist, ∀ tt, sc.call.timeout = some tt → 0 < tt

theorem runSearches_sim : ∀ (hist : List Timeout.SCall) (t : TEv) (cs : CEv), Sim t cs → Timeout.Rep t →
    TimeoutsPos hist → (∀ st ∈ (Timeout.runSearches t hist).2, Timeout.SettledStop st) →
    Sim (Timeout.runSearches t hist).1 (Search.runCalls {} cs (inducedHist t hist)).1 ∧
    Timeout.Rep (Timeout.runSearches t hist).1 ∧
    (Search.runCalls {} cs (inducedHist t hist)).2.map (·.stop) =
      (Timeout.runSearches t hist).2.map convStop
  | [], t, cs, h, hr, _, _ => by simp [Timeout.runSearches, Search.runCalls, inducedHist, h, hr]
  | sc :: rest, t, cs, h, hr, hp, hs => by
    simp only [Timeout.runSearches, Search.runCalls, inducedHist] at hs ⊢
    have hs0 := hs _ (List.mem_cons_self ..)
    obtain ⟨a1, a2, _⟩ := search_sim t cs sc.call sc.reps sc.drainRep h hr
      (fun tt htt => hp sc (List.mem_cons_self ..) tt htt) hs0
    have hr' := (Timeout.rep_search t sc.call sc.reps sc.drainRep hr hs0).1
    obtain ⟨b1, b2, b3⟩ := runSearches_sim rest _ _ a2 hr'
      (fun x hx => hp x (List.mem_cons_of_mem _ hx)) (fun st hst => hs st (List.mem_cons_of_mem _ hst))
    refine ⟨b1, b2, ?_⟩
    simp only [List.map_cons, a1, b3]

theorem sim_init (W : Nat) (specs : List Timeout.Spec) : Sim (Timeout.init W true specs) (Search.init W) :=
  ⟨rfl, rfl, rfl, rfl, rfl, rfl, rfl, rfl, rfl⟩

theorem settled_conv {st : Timeout.Stop} (h : Timeout.SettledStop st) :
    convStop st = .budget ∨ convStop st = .cap ∨ convStop st = .timeout := by
  rcases h with e | e | e <;> rw [e] <;> simp [convStop]

theorem sim_iff_abs {t : TEv} {c : CEv} : Sim t c ↔ { c with asks := [] } = absEv t := by
  constructor
  · intro h
    obtain ⟨h1, h2, h3, h4, h5, h6, h7, h8, h9⟩ := h
    cases c
    simp only [absEv] at *
    simp [*]
  · intro h
    cases c
    simp only [absEv, Search.Ev.mk.injEq] at h
    obtain ⟨h1, h2, h3, h4, h5, h6, h7, h8, h9, _⟩ := h
    exact ⟨h1, h2, h3, h4, h5, h6, h7, h8, h9⟩

/-- the counters state reached by the induced history is quiescent (C03's inter-call invariant) -/
theorem induced_quiet (W : Nat) (hW : 1 ≤ W) (specs : List Timeout.Spec) (hist : List Timeout.SCall)
    (hp : TimeoutsPos hist)
    (hh : ∀ st ∈ (Timeout.runSearches (Timeout.init W true specs) hist).2, Timeout.SettledStop st) :
    Search.Quiet (Search.runCalls {} (Search.init W) (inducedHist (Timeout.init W true specs) hist)).1 ∧
    (Search.runCalls {} (Search.init W) (inducedHist (Timeout.init W true specs) hist)).1.W = W := by
  obtain ⟨_, _, b3⟩ := runSearches_sim hist _ _ (sim_init W specs) (Timeout.rep_init W true specs) hp hh
  have hset : ∀ o ∈ (Search.runCalls {} (Search.init W) (inducedHist (Timeout.init W true specs) hist)).2,
      Search.Settled o := by
    intro o ho
    have : o.stop ∈ (Search.runCalls {} (Search.init W)
        (inducedHist (Timeout.init W true specs) hist)).2.map (·.stop) := List.mem_map_of_mem ho
    rw [b3, List.mem_map] at this
    obtain ⟨st, hst, e⟩ := this
    rcases settled_conv (hh st hst) with x | x | x
    · exact Or.inl (by rw [← e, x])
    · exact Or.inr (Or.inl (by rw [← e, x]))
    · exact Or.inr (Or.inr (Or.inl (by rw [← e, x])))
  obtain ⟨q, w, _⟩ := Search.runCalls_settled _ (Search.init W) hW (Search.init_quiet W) hset
  exact ⟨q, w⟩

end DH.Refine
