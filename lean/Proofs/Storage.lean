import Model.Storage
import Std.Data.String.ToNat

/-! Helper lemmas for C13: association lists, identifiers as strings, the reachable-state invariant. -/

namespace DH.Storage

/-! ### association lists (Python dicts) -/

theorem aget_aset_self {α : Type} (k : String) (v : α) : ∀ l : List (String × α), aget k (aset k v l) = some v
  | [] => by simp [aset, aget]
  | (a, w) :: r => by
    by_cases h : a = k
    · simp [aset, aget, h]
    · simp [aset, aget, h, aget_aset_self k v r]

theorem aget_aset_ne {α : Type} {k k' : String} (v : α) (h : k' ≠ k) :
    ∀ l : List (String × α), aget k' (aset k v l) = aget k' l
  | [] => by simp [aset, aget, Ne.symm h]
  | (a, w) :: r => by
    by_cases h1 : a = k
    · subst h1
      simp [aset, aget, Ne.symm h]
    · by_cases h2 : a = k'
      · subst h2
        simp [aset, aget, h1]
      · simp [aset, aget, h1, h2, aget_aset_ne v h r]

theorem aget_aset {α : Type} (k k' : String) (v : α) (l : List (String × α)) :
    aget k' (aset k v l) = if k' = k then some v else aget k' l := by
  by_cases h : k' = k
  · subst h; simp [aget_aset_self]
  · simp [h, aget_aset_ne v h]

theorem mem_keys_iff {α : Type} (k : String) : ∀ l : List (String × α), k ∈ keys l ↔ (aget k l).isSome
  | [] => by simp [keys, aget]
  | (a, w) :: r => by
    have ih := mem_keys_iff k r
    by_cases h : a = k
    · simp [keys, aget, h]
    · simp only [keys, List.map_cons, List.mem_cons, aget, h, if_false] at ih ⊢
      constructor
      · rintro (h' | h')
        · exact absurd h'.symm h
        · exact ih.1 h'
      · intro h'; exact Or.inr (ih.2 h')

theorem keys_aset_of_mem {α : Type} (k : String) (v : α) :
    ∀ l : List (String × α), (aget k l).isSome → keys (aset k v l) = keys l
  | [], h => by simp [aget] at h
  | (a, w) :: r, h => by
    by_cases h1 : a = k
    · simp [aset, keys, h1]
    · have : (aget k r).isSome := by simpa [aget, h1] using h
      have ih := keys_aset_of_mem k v r this
      simp only [keys] at ih
      simp [aset, keys, h1, ih]

theorem keys_aset_of_not_mem {α : Type} (k : String) (v : α) :
    ∀ l : List (String × α), aget k l = none → keys (aset k v l) = keys l ++ [k]
  | [], _ => by simp [aset, keys]
  | (a, w) :: r, h => by
    by_cases h1 : a = k
    · simp [aget, h1] at h
    · have : aget k r = none := by simpa [aget, h1] using h
      have ih := keys_aset_of_not_mem k v r this
      simp only [keys] at ih
      simp [aset, keys, h1, ih]

/-! ### identifiers -/

theorem repr_inj {a b : Nat} (h : Nat.repr a = Nat.repr b) : a = b := Nat.repr_injective h

theorem repr_nodot (n : Nat) : '.' ∉ (Nat.repr n).toList := by
  intro h
  rw [Nat.toList_repr] at h
  have := Nat.isDigit_of_mem_toDigits (by decide) (by decide) h
  revert this; decide

theorem jobId_toList (sid pid : String) : (jobId sid pid).toList = sid.toList ++ '.' :: pid.toList := by
  simp [jobId, String.toList_append]

theorem jobId_has_dot (sid pid : String) : '.' ∈ (jobId sid pid).toList := by
  rw [jobId_toList]; simp

theorem jobId_ne_repr (sid pid : String) (n : Nat) : jobId sid pid ≠ Nat.repr n := by
  intro h
  exact repr_nodot n (h ▸ jobId_has_dot sid pid)

/-- the text after the last separator determines the split -/
theorem append_sep_inj {α : Type} {a : α} : ∀ {l1 l2 r1 r2 : List α}, a ∉ r1 → a ∉ r2 →
    l1 ++ a :: r1 = l2 ++ a :: r2 → l1 = l2 ∧ r1 = r2 := by
  intro l1 l2 r1 r2 h1 h2 h
  have hr : (l1 ++ a :: r1).reverse = (l2 ++ a :: r2).reverse := by rw [h]
  simp only [List.reverse_append, List.reverse_cons, List.append_assoc, List.singleton_append] at hr
  -- r1.reverse ++ a :: l1.reverse = r2.reverse ++ a :: l2.reverse, with `a` in neither prefix
  have key : ∀ (p1 p2 q1 q2 : List α), a ∉ p1 → a ∉ p2 → p1 ++ a :: q1 = p2 ++ a :: q2 → p1 = p2 ∧ q1 = q2 := by
    intro p1
    induction p1 with
    | nil =>
      intro p2 q1 q2 _ hp2 e
      cases p2 with
      | nil => simp at e; exact ⟨rfl, e⟩
      | cons x xs =>
        simp at e
        exact absurd (e.1 ▸ List.mem_cons_self) hp2
    | cons y ys ih =>
      intro p2 q1 q2 hp1 hp2 e
      cases p2 with
      | nil =>
        simp at e
        exact absurd (e.1 ▸ List.mem_cons_self) hp1
      | cons x xs =>
        simp only [List.cons_append, List.cons.injEq] at e
        obtain ⟨e1, e2⟩ := e
        have := ih xs q1 q2 (fun m => hp1 (List.mem_cons_of_mem _ m)) (fun m => hp2 (List.mem_cons_of_mem _ m)) e2
        exact ⟨by rw [e1, this.1], this.2⟩
  have := key r1.reverse r2.reverse l1.reverse l2.reverse (by simpa using h1) (by simpa using h2) hr
  exact ⟨List.reverse_inj.1 this.2, List.reverse_inj.1 this.1⟩

theorem jobId_inj {sid pid sid' pid' : String} (h1 : '.' ∉ pid.toList) (h2 : '.' ∉ pid'.toList)
    (h : jobId sid pid = jobId sid' pid') : sid = sid' ∧ pid = pid' := by
  have := congrArg String.toList h
  rw [jobId_toList, jobId_toList] at this
  obtain ⟨e1, e2⟩ := append_sep_inj h1 h2 this
  exact ⟨String.toList_inj.1 e1, String.toList_inj.1 e2⟩

theorem splitDot_nodot : ∀ l : List Char, '.' ∉ l → splitDot l = [l]
  | [], _ => rfl
  | c :: cs, h => by
    have hc : c ≠ '.' := fun e => h (e ▸ List.mem_cons_self)
    have ih := splitDot_nodot cs (fun m => h (List.mem_cons_of_mem _ m))
    simp [splitDot, ih, hc]

theorem splitDot_two : ∀ a b : List Char, '.' ∉ a → '.' ∉ b → splitDot (a ++ '.' :: b) = [a, b]
  | [], b, _, hb => by simp [splitDot, splitDot_nodot b hb]
  | c :: cs, b, ha, hb => by
    have hc : c ≠ '.' := fun e => ha (e ▸ List.mem_cons_self)
    have ih := splitDot_two cs b (fun m => ha (List.mem_cons_of_mem _ m)) hb
    simp [splitDot, ih, hc]

/-- `job_id.split(".")` recovers what `create_new_job` put together -/
theorem parseJobId_jobId {sid pid : String} (h1 : '.' ∉ sid.toList) (h2 : '.' ∉ pid.toList) :
    parseJobId (jobId sid pid) = some (sid, pid) := by
  unfold parseJobId
  rw [jobId_toList, splitDot_two _ _ h1 h2]
  simp [String.ofList_toList]


theorem splitDot_ne_nil : ∀ l : List Char, splitDot l ≠ []
  | [] => by simp [splitDot]
  | c :: cs => by
    unfold splitDot
    split
    · simp
    · split <;> simp

theorem splitDot_eq_one : ∀ (l q : List Char), splitDot l = [q] → l = q
  | [], q, h => by simp [splitDot] at h; exact h.symm
  | c :: cs, q, h => by
    unfold splitDot at h
    split at h
    · rename_i hnil; exact absurd hnil (splitDot_ne_nil cs)
    · rename_i hd tl hs
      split at h
      · simp at h
      · simp only [List.cons.injEq] at h
        obtain ⟨e1, e2⟩ := h
        subst e2
        have := splitDot_eq_one cs hd hs
        rw [← e1, this]

theorem splitDot_eq_two : ∀ (l p q : List Char), splitDot l = [p, q] → l = p ++ '.' :: q
  | [], p, q, h => by simp [splitDot] at h
  | c :: cs, p, q, h => by
    unfold splitDot at h
    split at h
    · rename_i hnil; exact absurd hnil (splitDot_ne_nil cs)
    · rename_i hd tl hs
      split at h
      · rename_i hc
        simp only [List.cons.injEq] at h
        obtain ⟨e1, e2, e3⟩ := h
        subst e1 e2 e3
        have := splitDot_eq_one cs hd hs
        rw [hc, this]; rfl
      · simp only [List.cons.injEq] at h
        obtain ⟨e1, e2⟩ := h
        subst e2
        have := splitDot_eq_two cs hd q hs
        rw [← e1, this]; rfl

/-- an identifier is determined by what `split(".")` makes of it -/
theorem parseJobId_eq {jid sid pid : String} (h : parseJobId jid = some (sid, pid)) : jid = jobId sid pid := by
  unfold parseJobId at h
  split at h
  · rename_i a b hs
    cases h
    apply String.toList_inj.1
    rw [jobId_toList, String.toList_ofList, String.toList_ofList]
    exact splitDot_eq_two _ a b hs
  · cases h

theorem parseJobId_inj {a b : String} {x : String × String} (ha : parseJobId a = some x) (hb : parseJobId b = some x) :
    a = b := by
  obtain ⟨sid, pid⟩ := x
  rw [parseJobId_eq ha, parseJobId_eq hb]

/-! ### what a method call can do to the store -/

inductive Effect (s : Store) : Store → Prop
  | same : Effect s s
  | newSearch : Effect s { searchCounter := s.searchCounter + 1, data := aset (Nat.repr s.searchCounter) ⟨0, [], []⟩ s.data }
  | newJob (sid : String) (S : Search) : aget sid s.data = some S →
      Effect s { s with data := aset sid { S with counter := S.counter + 1,
                                                  jobs := aset (Nat.repr S.counter) newJob S.jobs } s.data }
  | setJob (sid pid : String) (S : Search) (j j' : Job) : aget sid s.data = some S → aget pid S.jobs = some j →
      Effect s (putJob s sid pid S j')
  | setFree (sid : String) (S : Search) (f' : List (String × Val)) : aget sid s.data = some S →
      Effect s { s with data := aset sid { S with free := f' } s.data }

theorem findJob_ok {s : Store} {jid sid pid : String} {S : Search} {j : Job}
    (h : findJob s jid = .ok (sid, pid, S, j)) :
    parseJobId jid = some (sid, pid) ∧ aget sid s.data = some S ∧ aget pid S.jobs = some j := by
  unfold findJob at h
  split at h
  · cases h
  · rename_i sid' pid' hp
    split at h
    · cases h
    · rename_i S' hS
      split at h
      · cases h
      · rename_i j' hj
        cases h
        exact ⟨hp, hS, hj⟩

theorem storeJob_effect (s : Store) (jid key : String) (v : Val) : Effect s (storeJob s jid key v).1 := by
  unfold storeJob
  split
  · exact Effect.same
  · rename_i sid pid S j h
    obtain ⟨_, hS, hj⟩ := findJob_ok h
    exact Effect.setJob sid pid S j _ hS hj

theorem storeJobMetadata_effect (s : Store) (jid key : String) (v : Val) :
    Effect s (storeJobMetadata s jid key v).1 := by
  unfold storeJobMetadata
  split
  · exact Effect.same
  · rename_i sid pid S j h
    obtain ⟨_, hS, hj⟩ := findJob_ok h
    split
    · exact Effect.same
    · exact Effect.setJob sid pid S j _ hS hj
    · exact Effect.same

theorem step_effect (s : Store) (op : Op) : Effect s (step s op).1 := by
  cases op with
  | createSearch => exact Effect.newSearch
  | createJob sid =>
    simp only [step, createJob]
    split
    · exact Effect.same
    · rename_i S hS; exact Effect.newJob sid S hS
  | storeJob jid key v => exact storeJob_effect s jid key v
  | storeJobIn jid a k => exact storeJob_effect s jid _ _
  | storeJobOut jid v => exact storeJob_effect s jid _ _
  | storeJobStatus jid v => exact storeJob_effect s jid _ _
  | storeJobMetadata jid key v => exact storeJobMetadata_effect s jid key v
  | storeSearchValue sid key v =>
    simp only [step]
    split
    · exact Effect.same
    · rename_i S hS
      split
      · exact Effect.same
      · exact Effect.setFree sid S _ hS
  | loadAllSearchIds => exact Effect.same
  | loadAllJobIds sid => simp only [step]; split <;> exact Effect.same
  | loadSearch sid => simp only [step]; split <;> exact Effect.same
  | loadJob jid => exact Effect.same
  | loadSearchValue sid key => simp only [step]; split <;> (try split) <;> exact Effect.same
  | loadMetadataFromAllJobs sid key => simp only [step]; split <;> exact Effect.same
  | loadOutFromAllJobs sid => simp only [step]; split <;> exact Effect.same
  | loadJobs jids => exact Effect.same
  | loadJobStatus jid => simp only [step]; split <;> (try split) <;> exact Effect.same

/-! ### the reachable-state invariant: every key is the decimal text of a number below its counter -/

structure WF (s : Store) : Prop where
  sids : ∀ sid S, aget sid s.data = some S → ∃ k, k < s.searchCounter ∧ sid = Nat.repr k
  pids : ∀ sid S, aget sid s.data = some S → ∀ pid j, aget pid S.jobs = some j →
    ∃ k, k < S.counter ∧ pid = Nat.repr k
  nodup : ∀ sid S, aget sid s.data = some S → (keys S.jobs).Nodup

theorem WF_init : WF Store.init :=
  ⟨by intro sid S h; simp [Store.init, aget] at h, by intro sid S h; simp [Store.init, aget] at h,
   by intro sid S h; simp [Store.init, aget] at h⟩

theorem WF_effect {s s' : Store} (e : Effect s s') (w : WF s) : WF s' := by
  cases e with
  | same => exact w
  | newSearch =>
    constructor
    · intro sid S h
      simp only [aget_aset] at h
      split at h
      · rename_i e; exact ⟨s.searchCounter, Nat.lt_succ_self _, e⟩
      · obtain ⟨k, hk, e⟩ := w.sids sid S h
        exact ⟨k, Nat.lt_succ_of_lt hk, e⟩
    · intro sid S h pid j hj
      simp only [aget_aset] at h
      split at h
      · cases h; simp [aget] at hj
      · exact w.pids sid S h pid j hj
    · intro sid S h
      simp only [aget_aset] at h
      split at h
      · cases h; simp [keys]
      · exact w.nodup sid S h
  | newJob sid0 S0 h0 =>
    constructor
    · intro sid S h
      simp only [aget_aset] at h
      split at h
      · rename_i e; subst e; exact w.sids _ S0 h0
      · exact w.sids sid S h
    · intro sid S h pid j hj
      simp only [aget_aset] at h
      split at h
      · cases h
        simp only [aget_aset] at hj
        split at hj
        · rename_i e; exact ⟨S0.counter, Nat.lt_succ_self _, e⟩
        · obtain ⟨k, hk, e⟩ := w.pids _ S0 h0 pid j hj
          exact ⟨k, Nat.lt_succ_of_lt hk, e⟩
      · exact w.pids sid S h pid j hj
    · intro sid S h
      simp only [aget_aset] at h
      split at h
      · cases h
        have hfresh : aget (Nat.repr S0.counter) S0.jobs = none := by
          rcases hx : aget (Nat.repr S0.counter) S0.jobs with _ | j
          · rfl
          · obtain ⟨k, hk, e⟩ := w.pids _ S0 h0 _ j hx
            have := repr_inj e; omega
        simp only
        rw [keys_aset_of_not_mem _ _ _ hfresh]
        refine List.nodup_append.2 ⟨w.nodup _ S0 h0, by simp, ?_⟩
        intro a ha b hb
        simp only [List.mem_singleton] at hb
        subst hb
        intro e; subst e
        have := (mem_keys_iff _ _).1 ha
        rw [hfresh] at this; simp at this
      · exact w.nodup sid S h
  | setJob sid0 pid0 S0 j0 j' h0 hj0 =>
    constructor
    · intro sid S h
      simp only [putJob, aget_aset] at h
      split at h
      · rename_i e; subst e; exact w.sids _ S0 h0
      · exact w.sids sid S h
    · intro sid S h pid j hj
      simp only [putJob, aget_aset] at h
      split at h
      · cases h
        simp only [aget_aset] at hj
        split at hj
        · rename_i e; subst e; exact w.pids _ S0 h0 _ j0 hj0
        · exact w.pids _ S0 h0 pid j hj
      · exact w.pids sid S h pid j hj
    · intro sid S h
      simp only [putJob, aget_aset] at h
      split at h
      · cases h
        simp only
        rw [keys_aset_of_mem _ _ _ (by simp [hj0])]
        exact w.nodup _ S0 h0
      · exact w.nodup sid S h
  | setFree sid0 S0 f' h0 =>
    constructor
    · intro sid S h
      simp only [aget_aset] at h
      split at h
      · rename_i e; subst e; exact w.sids _ S0 h0
      · exact w.sids sid S h
    · intro sid S h pid j hj
      simp only [aget_aset] at h
      split at h
      · cases h; exact w.pids _ S0 h0 pid j hj
      · exact w.pids sid S h pid j hj
    · intro sid S h
      simp only [aget_aset] at h
      split at h
      · cases h; exact w.nodup _ S0 h0
      · exact w.nodup sid S h

theorem WF_step {s : Store} (w : WF s) (op : Op) : WF (step s op).1 := WF_effect (step_effect s op) w

theorem run_cons (s : Store) (op : Op) (ops : List Op) :
    run s (op :: ops) = ((run (step s op).1 ops).1, (step s op).2 :: (run (step s op).1 ops).2) := rfl

theorem WF_run {s : Store} (w : WF s) : ∀ ops : List Op, WF (run s ops).1 := by
  intro ops
  induction ops generalizing s with
  | nil => exact w
  | cons op ops ih => rw [run_cons]; exact ih (WF_step w op)

/-! ### identifiers handed out so far -/

/-- `x` is the text of an identifier the counters have already passed -/
def Known (s : Store) (x : String) : Prop :=
  (∃ k, k < s.searchCounter ∧ x = Nat.repr k) ∨
  (∃ sid S k, aget sid s.data = some S ∧ k < S.counter ∧ x = jobId sid (Nat.repr k))

theorem Known_effect {s s' : Store} (e : Effect s s') (w : WF s) {x : String} (h : Known s x) : Known s' x := by
  cases e with
  | same => exact h
  | newSearch =>
    rcases h with ⟨k, hk, e⟩ | ⟨sid, S, k, hS, hk, e⟩
    · exact Or.inl ⟨k, Nat.lt_succ_of_lt hk, e⟩
    · refine Or.inr ⟨sid, S, k, ?_, hk, e⟩
      obtain ⟨k', hk', e'⟩ := w.sids sid S hS
      have hne : sid ≠ Nat.repr s.searchCounter := by
        rw [e']; intro e''; have := repr_inj e''; omega
      simp [aget_aset, hne, hS]
  | newJob sid0 S0 h0 =>
    rcases h with ⟨k, hk, e⟩ | ⟨sid, S, k, hS, hk, e⟩
    · exact Or.inl ⟨k, hk, e⟩
    · by_cases hs : sid = sid0
      · subst hs
        rw [h0] at hS; cases hS
        exact Or.inr ⟨sid, { S0 with counter := S0.counter + 1, jobs := aset (Nat.repr S0.counter) newJob S0.jobs },
          k, by simp [aget_aset], Nat.lt_succ_of_lt hk, e⟩
      · exact Or.inr ⟨sid, S, k, by simp [aget_aset, hs, hS], hk, e⟩
  | setJob sid0 pid0 S0 j0 j' h0 hj0 =>
    rcases h with ⟨k, hk, e⟩ | ⟨sid, S, k, hS, hk, e⟩
    · exact Or.inl ⟨k, hk, e⟩
    · by_cases hs : sid = sid0
      · subst hs
        rw [h0] at hS; cases hS
        exact Or.inr ⟨sid, { S0 with jobs := aset pid0 j' S0.jobs }, k, by simp [putJob, aget_aset], hk, e⟩
      · exact Or.inr ⟨sid, S, k, by simp [putJob, aget_aset, hs, hS], hk, e⟩
  | setFree sid0 S0 f' h0 =>
    rcases h with ⟨k, hk, e⟩ | ⟨sid, S, k, hS, hk, e⟩
    · exact Or.inl ⟨k, hk, e⟩
    · by_cases hs : sid = sid0
      · subst hs
        rw [h0] at hS; cases hS
        exact Or.inr ⟨sid, { S0 with free := f' }, k, by simp [aget_aset], hk, e⟩
      · exact Or.inr ⟨sid, S, k, by simp [aget_aset, hs, hS], hk, e⟩

/-- an identifier returned by a call is new, and known afterwards -/
theorem step_id_fresh {s : Store} (w : WF s) (op : Op) {x : String} (h : (step s op).2 = .id x) :
    ¬ Known s x ∧ Known (step s op).1 x := by
  cases op with
  | createSearch =>
    simp only [step, createSearch] at h ⊢
    cases h
    constructor
    · rintro (⟨k, hk, e⟩ | ⟨sid, S, k, _, _, e⟩)
      · have := repr_inj e; omega
      · exact jobId_ne_repr _ _ _ e.symm
    · exact Or.inl ⟨s.searchCounter, Nat.lt_succ_self _, rfl⟩
  | createJob sid =>
    simp only [step, createJob] at h ⊢
    split at h
    · cases h
    · rename_i S hS
      cases h
      simp only [hS]
      constructor
      · rintro (⟨k, hk, e⟩ | ⟨sid', S', k, hS', hk, e⟩)
        · exact jobId_ne_repr _ _ _ e
        · obtain ⟨e1, e2⟩ := jobId_inj (repr_nodot _) (repr_nodot _) e
          subst e1
          rw [hS] at hS'; cases hS'
          have := repr_inj e2; omega
      · exact Or.inr ⟨sid, { S with counter := S.counter + 1, jobs := aset (Nat.repr S.counter) newJob S.jobs },
          S.counter, by simp [aget_aset], Nat.lt_succ_self _, rfl⟩
  | storeJob jid key v => simp only [step, storeJob] at h; split at h <;> cases h
  | storeJobIn jid a k => simp only [step, storeJob] at h; split at h <;> cases h
  | storeJobOut jid v => simp only [step, storeJob] at h; split at h <;> cases h
  | storeJobStatus jid v => simp only [step, storeJob] at h; split at h <;> cases h
  | storeJobMetadata jid key v =>
    simp only [step, storeJobMetadata] at h
    split at h
    · cases h
    · split at h <;> cases h
  | storeSearchValue sid key v =>
    simp only [step] at h
    split at h
    · cases h
    · split at h <;> cases h
  | loadAllSearchIds => simp [step] at h
  | loadAllJobIds sid => simp only [step] at h; split at h <;> cases h
  | loadSearch sid => simp only [step] at h; split at h <;> cases h
  | loadJob jid => simp only [step, outOfExcept] at h; split at h <;> cases h
  | loadSearchValue sid key => simp only [step] at h; split at h <;> (try split at h) <;> cases h
  | loadMetadataFromAllJobs sid key => simp only [step, outOfExcept] at h; split at h <;> (try split at h) <;> cases h
  | loadOutFromAllJobs sid => simp only [step, outOfExcept] at h; split at h <;> (try split at h) <;> cases h
  | loadJobs jids => simp only [step, outOfExcept] at h; split at h <;> cases h
  | loadJobStatus jid => simp only [step] at h; split at h <;> (try split at h) <;> cases h

/-- the identifiers among a list of outputs -/
def idsOf : List Out → List String
  | [] => []
  | .id x :: os => x :: idsOf os
  | _ :: os => idsOf os

theorem ids_fresh_nodup : ∀ (ops : List Op) (s : Store), WF s →
    (idsOf (run s ops).2).Nodup ∧ ∀ x ∈ idsOf (run s ops).2, ¬ Known s x := by
  intro ops
  induction ops with
  | nil => intro s _; simp [run, idsOf]
  | cons op ops ih =>
    intro s w
    rw [run_cons]
    obtain ⟨hnd, hfresh⟩ := ih (step s op).1 (WF_step w op)
    have mono : ∀ x, ¬ Known (step s op).1 x → ¬ Known s x :=
      fun x hx hk => hx (Known_effect (step_effect s op) w hk)
    cases ho : (step s op).2 with
    | id x =>
      obtain ⟨hnew, hknown⟩ := step_id_fresh w op ho
      simp only [idsOf]
      constructor
      · exact List.nodup_cons.2 ⟨fun hm => hfresh x hm hknown, hnd⟩
      · intro y hy
        rcases List.mem_cons.1 hy with rfl | hy
        · exact hnew
        · exact mono y (hfresh y hy)
    | none => exact ⟨hnd, fun y hy => mono y (hfresh y hy)⟩
    | ids l => exact ⟨hnd, fun y hy => mono y (hfresh y hy)⟩
    | val v => exact ⟨hnd, fun y hy => mono y (hfresh y hy)⟩
    | vals l => exact ⟨hnd, fun y hy => mono y (hfresh y hy)⟩
    | error e => exact ⟨hnd, fun y hy => mono y (hfresh y hy)⟩
    | outOfModel => exact ⟨hnd, fun y hy => mono y (hfresh y hy)⟩

end DH.Storage
