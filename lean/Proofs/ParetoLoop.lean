import Proofs.Pareto

/-! The literal index loop (`loopIdx`) computes the same list as `sweep`. -/

namespace DH.Pareto

/-- filtering an index-tagged list by a predicate that ignores the tag where the tag ≠ `idx` -/
theorem filter_zipIdx_ne (pivot : Row) (idx : Nat) :
    ∀ (l : List Row) (n : Nat), (∀ k, n ≤ k → k < n + l.length → k ≠ idx) →
      ((l.zipIdx n).filter (fun (q, k) => k == idx || !wdRow pivot q)).map (·.1)
        = l.filter (fun q => !wdRow pivot q) := by
  intro l
  induction l with
  | nil => intro n _; simp
  | cons a t ih =>
    intro n h
    have hn : n ≠ idx := h n (Nat.le_refl _) (by simp)
    have hn' : (n == idx) = false := by simpa using hn
    have ht := ih (n + 1) (fun k h1 h2 => h k (by omega) (by simp only [List.length_cons]; omega))
    simp only [List.zipIdx_cons, List.filter_cons, hn', Bool.false_or]
    cases hw : wdRow pivot a <;> simp [ht]

theorem filter_lt_zipIdx (pivot : Row) (idx : Nat) :
    ∀ (l : List Row) (n : Nat), n + l.length ≤ idx →
      (((l.zipIdx n).filter (fun (q, k) => k == idx || !wdRow pivot q)).filter
        (fun (_, k) => k < idx)).length = (l.filter (fun q => !wdRow pivot q)).length := by
  intro l
  induction l with
  | nil => intro n _; simp
  | cons a t ih =>
    intro n h
    simp only [List.length_cons] at h
    have hn' : (n == idx) = false := by
      have : n ≠ idx := by omega
      simpa using this
    have ht := ih (n + 1) (by omega)
    simp only [List.zipIdx_cons, List.filter_cons, hn', Bool.false_or]
    cases hw : wdRow pivot a
    · have : n < idx := by omega
      simpa [this] using ht
    · simpa using ht

theorem filter_ge_zipIdx (pivot : Row) (idx : Nat) :
    ∀ (l : List Row) (n : Nat), idx ≤ n →
      (((l.zipIdx n).filter (fun (q, k) => k == idx || !wdRow pivot q)).filter
        (fun (_, k) => k < idx)) = [] := by
  intro l
  induction l with
  | nil => intro n _; simp
  | cons a t ih =>
    intro n h
    have ht := ih (n + 1) (by omega)
    have hlt : ¬ n < idx := by omega
    simp only [List.zipIdx_cons, List.filter_cons]
    split <;> simp [hlt, ht]

/-- one literal iteration = one unfolding of `sweep` -/
theorem loopStep_eq (pre rest : List Row) (pivot : Row) :
    loopStep (pre ++ pivot :: rest) pre.length =
      some ((pre.filter (fun q => !wdRow pivot q) ++ [pivot]) ++ rest.filter (fun q => !wdRow pivot q),
        (pre.filter (fun q => !wdRow pivot q) ++ [pivot]).length) := by
  unfold loopStep
  have hget : (pre ++ pivot :: rest)[pre.length]? = some pivot := by simp
  rw [hget]
  simp only [Option.some.injEq, Prod.mk.injEq]
  have hz : (pre ++ pivot :: rest).zipIdx
      = pre.zipIdx 0 ++ ((pivot, pre.length) :: rest.zipIdx (pre.length + 1)) := by
    rw [List.zipIdx_append]; simp [List.zipIdx_cons]
  rw [hz]
  simp only [List.filter_append, List.filter_cons, beq_self_eq_true, Bool.true_or, if_true,
    List.map_append, List.map_cons, List.length_append, List.length_cons]
  have h1 := filter_zipIdx_ne pivot pre.length pre 0 (by intro k _ h2; simp at h2; omega)
  have h2 := filter_zipIdx_ne pivot pre.length rest (pre.length + 1) (by intro k h1 _; omega)
  have h3 := filter_lt_zipIdx pivot pre.length pre 0 (by simp)
  have h4 := filter_ge_zipIdx pivot pre.length rest (pre.length + 1) (by omega)
  refine ⟨?_, ?_⟩
  · rw [h1, h2]; simp
  · rw [h3, h4]; simp

/-- **refinement of the literal loop**: with enough fuel, `loopIdx` from the split
`(pre, post)` equals `sweep pre post` -/
theorem loopIdx_eq_sweep :
    ∀ (fuel : Nat) (pre post : List Row), post.length ≤ fuel →
      loopIdx fuel (pre ++ post) pre.length = sweep wdRow pre post := by
  intro fuel
  induction fuel with
  | zero =>
    intro pre post h
    have : post = [] := List.eq_nil_of_length_eq_zero (by omega)
    subst this
    simp [loopIdx, sweep]
  | succ n ih =>
    intro pre post h
    cases post with
    | nil =>
      simp only [List.append_nil, sweep]
      unfold loopIdx loopStep
      simp
    | cons pivot rest =>
      unfold loopIdx
      rw [loopStep_eq pre rest pivot, sweep]
      simp only
      apply ih
      simp only [List.length_cons] at h
      exact Nat.le_trans (List.length_filter_le _ _) (by omega)

end DH.Pareto
