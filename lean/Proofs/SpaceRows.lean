import Proofs.SpaceSpec

/-! C09: `inverse_transform` returns one row per input row, for arbitrary inner functions and
arbitrary input (the property that `Identity(type_func).inverse_transform` broke before the fix). -/

namespace DH.Space

/-- number of samples in a column block -/
def Col.len : Col → Nat
  | .vals l => l.length
  | .mat rows => rows.length

theorem nums_length (e : Err) (l : List Val) (xs : List Rat) (h : nums e l = .ok xs) :
    xs.length = l.length := (mapE_ok_inv _ l xs h).1

theorem stage_inverse_len (E : Rat → Rat) (s : Stage) (c c' : Col) (h : s.inverse E c = .ok c') :
    c'.len = c.len := by
  cases s with
  | identity =>
    rw [identity_inverse] at h; simp at h; rw [h]
  | identityTyped =>
    cases c with
    | mat rows => simp [Stage.inverse] at h
    | vals l =>
      simp only [Stage.inverse] at h
      cases hm : mapE identityTypedCell l with
      | error e => simp [hm] at h
      | ok r => simp [hm] at h; subst h; simp [Col.len, (mapE_ok_inv _ l r hm).1]
  | logN =>
    cases c with
    | mat rows => simp [Stage.inverse] at h
    | vals l =>
      simp only [Stage.inverse] at h
      cases hn : nums .valueError l with
      | error e => simp [hn] at h
      | ok xs => simp [hn] at h; subst h; simp [Col.len, nums_length _ l xs hn]
  | normalize lo hi b =>
    cases c with
    | mat rows => simp [Stage.inverse] at h
    | vals l =>
      simp only [Stage.inverse] at h
      cases hn : nums .typeError l with
      | error e => simp [hn] at h
      | ok xs =>
        simp only [hn] at h
        split at h
        · simp at h
        · split at h
          · simp at h
          · split at h <;> (simp at h; subst h; simp [Col.len, nums_length _ l xs hn])
  | labelEncoder cats =>
    cases c with
    | mat rows => simp [Stage.inverse] at h
    | vals l =>
      simp only [Stage.inverse] at h
      cases hn : nums .typeError l with
      | error e => simp [hn] at h
      | ok xs =>
        cases hm : mapE (labelInvCell (sortU cats)) xs with
        | error e => simp [hn, hm] at h
        | ok r =>
          simp [hn, hm] at h; subst h
          simp [Col.len, (mapE_ok_inv _ xs r hm).1, nums_length _ l xs hn]
  | oneHot cats =>
    cases c with
    | mat rows =>
      simp only [Stage.inverse] at h
      cases hm : mapE (oneHotInv cats) rows with
      | error e => simp [hm] at h
      | ok r => simp [hm] at h; subst h; simp [Col.len, (mapE_ok_inv _ rows r hm).1]
    | vals l =>
      simp only [Stage.inverse] at h
      cases hn : nums .typeError l with
      | error e => simp [hn] at h
      | ok xs =>
        simp only [hn] at h
        split at h
        · simp at h
        · cases hm : mapE (fun x => oneHotInv cats [x]) xs with
          | error e => simp [hm] at h
          | ok r =>
            simp [hm] at h; subst h
            simp [Col.len, (mapE_ok_inv _ xs r hm).1, nums_length _ l xs hn]

theorem runInverse_len (E : Rat → Rat) : ∀ (ss : List Stage) (c c' : Col),
    runInverse E ss c = .ok c' → c'.len = c.len
  | [], c, c', h => by simp [runInverse] at h; rw [h]
  | s :: ss, c, c', h => by
    simp only [runInverse] at h
    cases h1 : s.inverse E c with
    | error e => simp [h1] at h
    | ok c1 =>
      simp only [h1] at h
      rw [runInverse_len E ss c1 c' h, stage_inverse_len E s c c1 h1]

theorem dim_inverse_len (L E : Rat → Rat) (d : Dim) (c : Col) (col : List Val)
    (h : d.inverseTransform L E c = .ok col) : col.length = c.len := by
  unfold Dim.inverseTransform at h
  cases ht : (d.transformer L).inverse E c with
  | error e => simp [ht] at h
  | ok c' =>
    have hl := runInverse_len E _ c c' ht
    cases c' with
    | mat rows => simp [ht] at h
    | vals l =>
      simp only [ht] at h
      cases d with
      | real lo hi p t =>
        simp only at h
        cases hn : nums .typeError l with
        | error e => simp [hn] at h
        | ok xs =>
          simp [hn] at h; subst h
          rw [List.length_map, nums_length _ l xs hn, ← hl]
          rfl
      | int lo hi p t =>
        simp only at h
        cases hn : nums .typeError l with
        | error e => simp [hn] at h
        | ok xs =>
          simp [hn] at h; subst h
          rw [List.length_map, nums_length _ l xs hn, ← hl]
          rfl
      | cat cs t =>
        simp at h; subst h
        simpa [Col.len] using hl

theorem sliceCol_len (off : Nat) (Xt : List (List Rat)) (c : Col) (h : sliceCol off Xt = .ok c) :
    c.len = Xt.length := by
  unfold sliceCol at h
  split at h
  · cases hm : mapE headNumE Xt with
    | error e => simp [hm] at h
    | ok l => simp [hm] at h; subst h; simp [Col.len, (mapE_ok_inv _ Xt l hm).1]
  · simp at h; subst h; simp [Col.len]

theorem transposeAux_length : ∀ (m : Nat) (cols X : List (List Val)), transposeAux m cols = .ok X →
    X.length = m
  | 0, _, X, h => by simp [transposeAux] at h; subst h; rfl
  | m + 1, cols, X, h => by
    simp only [transposeAux] at h
    cases hh : heads cols with
    | error e => simp [hh] at h
    | ok row =>
      cases hr : transposeAux m (cols.map List.tail) with
      | error e => simp [hh, hr] at h
      | ok rest =>
        simp [hh, hr] at h; subst h
        simp [transposeAux_length m _ rest hr]

theorem inverseTransform_rows (L E : Rat → Rat) (dims : List Dim) (hd : dims ≠ [])
    (Xt : List (List Rat)) (X : List (List Val)) (h : inverseTransform L E dims Xt = .ok X) :
    X.length = Xt.length := by
  unfold inverseTransform at h
  cases hc : inverseCols L E dims Xt with
  | error e => simp [hc] at h
  | ok cols =>
    simp only [hc] at h
    cases dims with
    | nil => exact absurd rfl hd
    | cons d ds =>
      simp only [inverseCols] at hc
      cases hs : sliceCol d.transformedSize Xt with
      | error e => simp [hs] at hc
      | ok c =>
        cases hi : d.inverseTransform L E c with
        | error e => simp [hs, hi] at hc
        | ok col =>
          cases hr : inverseCols L E ds (Xt.map (List.drop d.transformedSize)) with
          | error e => simp [hs, hi, hr] at hc
          | ok rest =>
            simp [hs, hi, hr] at hc
            subst hc
            simp only [transposeCols] at h
            rw [transposeAux_length _ _ X h, dim_inverse_len L E d c col hi, sliceCol_len _ Xt c hs]

end DH.Space
