import Proofs.EvaluatorMultiRen

/-!
Simulation of one evaluator of the system by the single-evaluator model: the relation `Rel` and its
preservation by every function of the evaluator's own bookkeeping (`process_local_tasks_done`, the await
loop, `markStarted`, `_create_tasks`, `close`).  Core Lean only.
-/

namespace DH.Evaluator

variable {C O : Type}

/-- the rows of the evaluator's own jobs (`self.jobs`) -/
def ownRows (rows : List (Row C O)) (jobs : List Nat) : List (Row C O) :=
  rows.filter (fun r => jobs.contains r.id)

/-- the evaluator `(rows, me)` of the system looks, through the numbering `rho`, like the state `s` of
the single-evaluator model (the dump state and `job_id_gathered` are not related: they also hold other
evaluators' jobs) -/
structure Rel (rows : List (Row C O)) (me : MEv C O) (s : Ev C O) : Prop where
  sorted : me.jobs.Pairwise (· < ·)
  lt : ∀ g ∈ me.jobs, g < rows.length
  ids : rows.map (·.id) = List.range rows.length
  n : s.nextId = me.jobs.length
  ownIds : (ownRows rows me.jobs).map (·.id) = me.jobs
  jobs : s.jobs.map (renRec (rho me.jobs rows.length)) = (ownRows rows me.jobs).map recOf
  running : s.running.map (renTask (rho me.jobs rows.length)) = me.running
  submitted : s.submitted.map (rho me.jobs rows.length) = me.submitted
  delivered : s.delivered.map (renDel (rho me.jobs rows.length)) = me.delivered
  gen : s.loopGen = me.loopGen
  lopen : s.loopOpen = me.loopOpen

/-- the part of the single-evaluator invariant the simulation needs -/
structure Wf (s : Ev C O) : Prop where
  ids : s.jobs.map (·.id) = List.range s.nextId
  sub : ∀ i ∈ s.submitted, i < s.nextId

theorem Inv.wf {s : Ev C O} (h : Inv s) : Wf s := ⟨h.ids, fun _ hi => h.sub_lt hi⟩

theorem Rel.inj {rows : List (Row C O)} {me : MEv C O} {s : Ev C O} (hr : Rel rows me s) :
    ∀ a b, rho me.jobs rows.length a = rho me.jobs rows.length b → a = b :=
  rho_inj hr.sorted hr.lt

/-! ### rows -/

theorem rows_nodup {rows : List (Row C O)} (h : rows.map (·.id) = List.range rows.length) :
    (rows.map (·.id)).Nodup := h ▸ List.nodup_range

theorem rowOf_some {rows : List (Row C O)} {id : Nat} {r : Row C O} (h : rowOf rows id = some r) :
    r ∈ rows ∧ r.id = id := by
  unfold rowOf at h
  refine ⟨List.mem_of_find?_eq_some h, ?_⟩
  have := List.find?_some h
  simpa using this

theorem rowOf_of_mem : ∀ {rows : List (Row C O)}, (rows.map (·.id)).Nodup → ∀ {r : Row C O}, r ∈ rows →
    rowOf rows r.id = some r
  | [], _, _, h => by simp at h
  | x :: rows, hn, r, h => by
    simp only [List.map_cons, List.nodup_cons, List.mem_map, not_exists, not_and] at hn
    simp only [List.mem_cons] at h
    unfold rowOf
    rcases h with rfl | h
    · simp
    · have hx : x.id ≠ r.id := fun e => hn.1 r h e.symm
      rw [List.find?_cons_of_neg (by simpa using hx)]
      exact rowOf_of_mem hn.2 h

theorem rowOf_lt {rows : List (Row C O)} (h : rows.map (·.id) = List.range rows.length) {g : Nat}
    (hg : g < rows.length) : ∃ r, rowOf rows g = some r := by
  have : g ∈ rows.map (·.id) := by rw [h]; exact List.mem_range.2 hg
  obtain ⟨r, hr, rfl⟩ := List.mem_map.1 this
  exact ⟨r, rowOf_of_mem (rows_nodup h) hr⟩

theorem row_id_lt {rows : List (Row C O)} (h : rows.map (·.id) = List.range rows.length) {r : Row C O}
    (hr : r ∈ rows) : r.id < rows.length := by
  have : r.id ∈ rows.map (·.id) := List.mem_map_of_mem hr
  rw [h] at this
  exact List.mem_range.1 this

/-- an id-preserving update of the rows commutes with the selection of an evaluator's own rows -/
theorem ownRows_map (rows : List (Row C O)) (jobs : List Nat) (f : Row C O → Row C O)
    (hf : ∀ r, (f r).id = r.id) : ownRows (rows.map f) jobs = (ownRows rows jobs).map f := by
  unfold ownRows
  rw [List.filter_map]
  congr 1
  apply List.filter_congr
  intro r _
  simp [Function.comp, hf]

theorem map_id_map (rows : List (Row C O)) (f : Row C O → Row C O) (hf : ∀ r, (f r).id = r.id) :
    (rows.map f).map (·.id) = rows.map (·.id) := by
  rw [List.map_map]
  apply List.map_congr_left
  intro r _
  simp [Function.comp, hf]

theorem updRow_id (g : Nat) (r' : Row C O) (h : r'.id = g) (r : Row C O) :
    (if r.id = g then r' else r).id = r.id := by
  split
  · rename_i e; rw [h, e]
  · rfl

/-! ### `Rel`: looking up a job -/

theorem Rel.rowOf {rows : List (Row C O)} {me : MEv C O} {s : Ev C O} (hr : Rel rows me s) {lid : Nat}
    {j : JobRec C O} (hj : findJob s.jobs lid = some j) :
    ∃ r, rowOf rows (rho me.jobs rows.length lid) = some r ∧ recOf r = renRec (rho me.jobs rows.length) j := by
  obtain ⟨hm, hid⟩ := findJob_some hj
  have : renRec (rho me.jobs rows.length) j ∈ (ownRows rows me.jobs).map recOf := by
    rw [← hr.jobs]; exact List.mem_map_of_mem hm
  obtain ⟨r, hro, hrec⟩ := List.mem_map.1 this
  have hrm : r ∈ rows := (List.mem_filter.1 hro).1
  have hrid : r.id = rho me.jobs rows.length lid := by
    have := congrArg JobRec.id hrec
    simpa [recOf, renRec, hid] using this
  exact ⟨r, hrid ▸ rowOf_of_mem (rows_nodup hr.ids) hrm, hrec⟩

theorem Rel.mem_jobs_of_sub {rows : List (Row C O)} {me : MEv C O} {s : Ev C O} (hr : Rel rows me s)
    (hw : Wf s) {i : Nat} (hi : i < s.nextId) : rho me.jobs rows.length i ∈ me.jobs := by
  have h : i < me.jobs.length := hr.n ▸ hi
  rw [rho_lt h]; exact List.getElem_mem h

/-! ### one processed task -/

theorem any_id_map (f : Nat → Nat) (hf : ∀ a b, f a = f b → a = b) (l : List Task) (lid : Nat) :
    (l.map (renTask f)).any (fun t => t.id == f lid) = l.any (fun t => t.id == lid) := by
  rw [List.any_map]
  congr 1
  funext t
  simp only [Function.comp, renTask]
  rw [Bool.eq_iff_iff]
  simp only [beq_iff_eq]
  exact ⟨hf _ _, fun e => by rw [e]⟩

theorem eraseP_id_map (f : Nat → Nat) (hf : ∀ a b, f a = f b → a = b) (l : List Task) (lid : Nat) :
    (l.map (renTask f)).eraseP (fun t => t.id == f lid) = (l.eraseP (fun t => t.id == lid)).map (renTask f) := by
  rw [List.eraseP_map]
  congr 2
  funext t
  simp only [Function.comp, renTask]
  rw [Bool.eq_iff_iff]
  simp only [beq_iff_eq]
  exact ⟨hf _ _, fun e => by rw [e]⟩

theorem updJob_ren (f : Nat → Nat) (hf : ∀ a b, f a = f b → a = b) (jobs : List (JobRec C O)) (lid : Nat)
    (j' : JobRec C O) :
    (updJob jobs lid (fun _ => j')).map (renRec f) = updJob (jobs.map (renRec f)) (f lid) (fun _ => renRec f j') := by
  simp only [updJob, List.map_map]
  apply List.map_congr_left
  intro j _
  simp only [Function.comp, renRec]
  by_cases h : j.id = lid
  · simp [h]
  · have : f j.id ≠ f lid := fun e => h (hf _ _ e)
    simp [h, this]

theorem map_id_updJob_const (jobs : List (JobRec C O)) (lid : Nat) (j' : JobRec C O) (h : j'.id = lid) :
    (updJob jobs lid (fun _ => j')).map (·.id) = jobs.map (·.id) := by
  simp only [updJob, List.map_map]
  apply List.map_congr_left
  intro j _
  simp only [Function.comp]
  split
  · rename_i e; rw [h, e]
  · rfl

theorem updRow_recOf (rows : List (Row C O)) (g : Nat) (r' : Row C O) :
    (updRow rows g (fun _ => r')).map recOf = updJob (rows.map recOf) g (fun _ => recOf r') := by
  simp only [updRow, updJob, List.map_map]
  apply List.map_congr_left
  intro r _
  simp only [Function.comp, recOf]
  by_cases h : r.id = g <;> simp [h]

theorem updRow_length (rows : List (Row C O)) (g : Nat) (f : Row C O → Row C O) :
    (updRow rows g f).length = rows.length := by simp [updRow]

/-- what `mProcessOne` does to the private state -/
def procMe (me : MEv C O) (g : Nat) (via : Via) : MEv C O :=
  { me with
    jobsDone := me.jobsDone ++ [g]
    running := me.running.eraseP (fun t => t.id == g)
    gathered := me.gathered ++ [g]
    submitted := me.submitted.erase g
    delivered := me.delivered ++ [(g, via)] }

/-- what `mProcessOne` does to the job's row -/
def procRow (p : MParams C O) (r : Row C O) : Row C O :=
  { r with out := some (p.f r.cfg), status := if r.status = .running then .done else r.status,
           sout := if p.hpo then some (p.f r.cfg) else r.sout }

theorem mProcessOne_ok {p : MParams C O} {via : Via} {st st' : List (Row C O) × MEv C O} {g : Nat}
    {j : JobRec C O} (h : mProcessOne p via st g = .ok (st', j)) :
    ∃ r, rowOf st.1 g = some r ∧ st.2.running.any (fun t => t.id == g) = true ∧
      st.2.submitted.contains g = true ∧ j = recOf (procRow p r) ∧
      st' = (updRow st.1 g (fun _ => procRow p r), procMe st.2 g via) := by
  unfold mProcessOne at h
  split at h
  · simp at h
  · rename_i hc
    simp only [Bool.or_eq_true, Bool.not_eq_true', not_or, Bool.not_eq_false] at hc
    split at h
    · simp at h
    · rename_i r hrow
      simp only [Except.ok.injEq, Prod.mk.injEq] at h
      exact ⟨r, hrow, hc.1, hc.2, h.2.symm, h.1.symm⟩

theorem mProcessOne_eq {p : MParams C O} {via : Via} {st : List (Row C O) × MEv C O} {g : Nat} {r : Row C O}
    (hrow : rowOf st.1 g = some r) (h1 : st.2.running.any (fun t => t.id == g) = true)
    (h2 : st.2.submitted.contains g = true) :
    mProcessOne p via st g = .ok ((updRow st.1 g (fun _ => procRow p r), procMe st.2 g via), recOf (procRow p r)) := by
  unfold mProcessOne
  simp only [h1, h2, Bool.not_true, Bool.or_self, Bool.false_eq_true, if_false, hrow]
  rfl

/-- `process_local_tasks_done`, one task: the system's evaluator does what the single-evaluator model does -/
theorem processOne_sim (p : MParams C O) (via : Via) {rows : List (Row C O)} {me : MEv C O} {s : Ev C O}
    (hr : Rel rows me s) (hw : Wf s) (lid : Nat) :
    (∀ e, processOne p.toParams via s lid = .error e →
        mProcessOne p via (rows, me) (rho me.jobs rows.length lid) = .error e) ∧
    (∀ s' j, processOne p.toParams via s lid = .ok (s', j) →
      ∃ rows' me', mProcessOne p via (rows, me) (rho me.jobs rows.length lid) =
          .ok ((rows', me'), renRec (rho me.jobs rows.length) j) ∧
        Rel rows' me' s' ∧ Wf s' ∧ me'.jobs = me.jobs ∧ rows'.length = rows.length) := by
  have inj := hr.inj
  have hany : me.running.any (fun t => t.id == rho me.jobs rows.length lid) =
      s.running.any (fun t => t.id == lid) := by
    rw [← hr.running]; exact any_id_map _ inj _ _
  have hcon : me.submitted.contains (rho me.jobs rows.length lid) = s.submitted.contains lid := by
    rw [← hr.submitted]; exact contains_map_inj inj _ _
  constructor
  · intro e he
    unfold processOne at he
    split at he
    · rename_i hc
      simp only [Except.error.injEq] at he
      subst he
      unfold mProcessOne
      simp only [hany, hcon, hc, if_true]
    · rename_i hc
      simp only [Bool.or_eq_true, Bool.not_eq_true', not_or, Bool.not_eq_false] at hc
      split at he
      · rename_i hnone
        have hlt := hw.sub lid (by simpa using hc.2)
        have : lid ∈ s.jobs.map (·.id) := by rw [hw.ids]; exact List.mem_range.2 hlt
        obtain ⟨j, hj⟩ := findJob_of_mem_ids this
        rw [hj] at hnone; simp at hnone
      · simp at he
  · intro s' j hok
    obtain ⟨j0, hj0, h1, h2, hj, hs'⟩ := processOne_ok hok
    obtain ⟨r, hrow, hrec⟩ := hr.rowOf hj0
    obtain ⟨hrm, hrid⟩ := rowOf_some hrow
    have hpr : recOf (procRow p r) = renRec (rho me.jobs rows.length) j := by
      have e1 := congrArg JobRec.cfg hrec
      have e2 := congrArg JobRec.status hrec
      have e3 := congrArg JobRec.id hrec
      simp only [recOf, renRec] at e1 e2 e3
      rw [hj]
      simp only [recOf, procRow, renRec, e1, e2, e3]
    refine ⟨updRow rows (rho me.jobs rows.length lid) (fun _ => procRow p r),
      procMe me (rho me.jobs rows.length lid) via, ?_, ?_, ?_, rfl, updRow_length _ _ _⟩
    · rw [← hpr]
      exact mProcessOne_eq hrow (by rw [hany]; exact h1) (by rw [hcon]; exact h2)
    · have hidp : ∀ x : Row C O, (if x.id = rho me.jobs rows.length lid then procRow p r else x).id = x.id :=
        updRow_id _ _ (by simp [procRow, hrid])
      have hlen : (updRow rows (rho me.jobs rows.length lid) (fun _ => procRow p r)).length = rows.length :=
        updRow_length _ _ _
      subst hs'
      refine ⟨hr.sorted, ?_, ?_, hr.n, ?_, ?_, ?_, ?_, ?_, hr.gen, hr.lopen⟩
      · intro g hg; rw [hlen]; exact hr.lt g hg
      · rw [hlen]; unfold updRow; rw [map_id_map _ _ hidp]; exact hr.ids
      · show (ownRows (updRow rows _ _) me.jobs).map (·.id) = me.jobs
        unfold updRow; rw [ownRows_map _ _ _ hidp, map_id_map _ _ hidp]; exact hr.ownIds
      · show (updJob s.jobs lid (fun _ => j)).map (renRec (rho me.jobs (updRow rows _ _).length)) =
          (ownRows (updRow rows _ _) me.jobs).map recOf
        rw [hlen, updJob_ren _ inj, hr.jobs, ← hpr]
        have : ownRows (updRow rows (rho me.jobs rows.length lid) (fun _ => procRow p r)) me.jobs =
            updRow (ownRows rows me.jobs) (rho me.jobs rows.length lid) (fun _ => procRow p r) := by
          unfold updRow; exact ownRows_map _ _ _ hidp
        rw [this, updRow_recOf]
      · show (s.running.eraseP _).map (renTask (rho me.jobs (updRow rows _ _).length)) = _
        rw [hlen, ← eraseP_id_map _ inj, hr.running]; rfl
      · show (s.submitted.erase lid).map (rho me.jobs (updRow rows _ _).length) = _
        rw [hlen, map_erase_inj inj, hr.submitted]; rfl
      · show (s.delivered ++ [(lid, via)]).map (renDel (rho me.jobs (updRow rows _ _).length)) = _
        rw [hlen, List.map_append, hr.delivered]; rfl
    · subst hs'
      refine ⟨?_, ?_⟩
      · show (updJob s.jobs lid (fun _ => j)).map (·.id) = _
        have hjid : j.id = lid := by rw [hj]; exact (findJob_some hj0).2
        rw [map_id_updJob_const _ _ _ hjid]
        exact hw.ids
      · intro i hi
        exact hw.sub i (List.mem_of_mem_erase hi)

/-- result of `process_local_tasks_done` under the numbering -/
def renRes (f : Nat → Nat) : Except Err (List (JobRec C O)) → Except Err (List (JobRec C O))
  | .ok js => .ok (js.map (renRec f))
  | .error e => .error e

/-- `process_local_tasks_done` on a whole `done` set -/
theorem processAll_sim (p : MParams C O) (via : Via) :
    ∀ (l : List Nat) {rows : List (Row C O)} {me : MEv C O} {s : Ev C O}, Rel rows me s → Wf s →
      ∃ rows' me', mProcessAll p via (rows, me) (l.map (rho me.jobs rows.length)) =
          ((rows', me'), renRes (rho me.jobs rows.length) (processAll p.toParams via s l).2) ∧
        Rel rows' me' (processAll p.toParams via s l).1 ∧ Wf (processAll p.toParams via s l).1 ∧
        me'.jobs = me.jobs ∧ rows'.length = rows.length
  | [], rows, me, s, hr, hw => ⟨rows, me, rfl, hr, hw, rfl, rfl⟩
  | lid :: rest, rows, me, s, hr, hw => by
    obtain ⟨herr, hok⟩ := processOne_sim p via hr hw lid
    simp only [List.map_cons, processAll, mProcessAll]
    cases h1 : processOne p.toParams via s lid with
    | error e =>
      rw [herr e h1]
      exact ⟨rows, me, rfl, hr, hw, rfl, rfl⟩
    | ok x =>
      obtain ⟨s1, j⟩ := x
      obtain ⟨rows1, me1, hm, hr1, hw1, hj1, hl1⟩ := hok s1 j h1
      rw [hm]
      obtain ⟨rows2, me2, hm2, hr2, hw2, hj2, hl2⟩ := processAll_sim p via rest hr1 hw1
      rw [hj1, hl1] at hm2
      simp only
      rw [hm2]
      refine ⟨rows2, me2, ?_, ?_, ?_, hj2.trans hj1, hl2.trans hl1⟩
      · cases h2 : (processAll p.toParams via s1 rest) with
        | mk s2 res =>
          cases res with
          | ok js => simp [renRes]
          | error e => simp [renRes]
      · cases h2 : (processAll p.toParams via s1 rest) with
        | mk s2 res =>
          rw [h2] at hr2
          cases res <;> exact hr2
      · cases h2 : (processAll p.toParams via s1 rest) with
        | mk s2 res =>
          rw [h2] at hw2
          cases res <;> exact hw2

/-! ### `markStarted`, the await loop -/

theorem ite_status_recOf (c : Bool) (r : Row C O) :
    recOf (if c = true then { r with status := Status.running } else r) =
      if c = true then { recOf r with status := Status.running } else recOf r := by
  cases c <;> rfl

theorem ite_status_renRec (f : Nat → Nat) (c c' : Bool) (h : c' = c) (j : JobRec C O) :
    renRec f (if c = true then { j with status := Status.running } else j) =
      if c' = true then { renRec f j with status := Status.running } else renRec f j := by
  subst h; cases c' <;> rfl

theorem Rel.markSt {rows : List (Row C O)} {me : MEv C O} {s : Ev C O} (hr : Rel rows me s)
    (lst : List Nat) :
    Rel (mMarkStarted rows (lst.map (rho me.jobs rows.length))) me { s with jobs := markStarted s.jobs lst } := by
  have inj := hr.inj
  have hid : ∀ r : Row C O, (if (lst.map (rho me.jobs rows.length)).contains r.id then
      { r with status := Status.running } else r).id = r.id := by
    intro r; split <;> rfl
  have hlen : (mMarkStarted rows (lst.map (rho me.jobs rows.length))).length = rows.length := by
    simp [mMarkStarted]
  refine ⟨hr.sorted, ?_, ?_, hr.n, ?_, ?_, ?_, ?_, ?_, hr.gen, hr.lopen⟩
  · intro g hg; rw [hlen]; exact hr.lt g hg
  · rw [hlen]; unfold mMarkStarted; rw [map_id_map _ _ hid]; exact hr.ids
  · unfold mMarkStarted; rw [ownRows_map _ _ _ hid, map_id_map _ _ hid]; exact hr.ownIds
  · show (markStarted s.jobs lst).map _ = _
    rw [hlen]
    unfold mMarkStarted
    rw [ownRows_map _ _ _ hid, List.map_map]
    have : (ownRows rows me.jobs).map (recOf ∘ fun r => if (lst.map (rho me.jobs rows.length)).contains r.id then
          { r with status := Status.running } else r) =
        ((ownRows rows me.jobs).map recOf).map (fun j : JobRec C O =>
          if (lst.map (rho me.jobs rows.length)).contains j.id then { j with status := Status.running } else j) := by
      rw [List.map_map]
      apply List.map_congr_left
      intro r _
      exact ite_status_recOf _ r
    rw [this, ← hr.jobs]
    simp only [markStarted, List.map_map]
    apply List.map_congr_left
    intro j _
    exact ite_status_renRec _ _ _ (contains_map_inj inj j.id lst) j
  · rw [hlen]; exact hr.running
  · rw [hlen]; exact hr.submitted
  · rw [hlen]; exact hr.delivered

theorem Wf.markSt {s : Ev C O} (hw : Wf s) (lst : List Nat) :
    Wf { s with jobs := markStarted s.jobs lst } :=
  ⟨by show (markStarted s.jobs lst).map (·.id) = _; rw [map_id_markStarted]; exact hw.ids, hw.sub⟩

theorem waitLoop_ren (f : Nat → Nat) (m : Nat) : ∀ (ws : List (List Nat)) (d : List Nat),
    waitLoop m (d.map f) (ws.map (·.map f)) =
      match waitLoop m d ws with
      | .ok (d', rest) => .ok (d'.map f, rest.map (·.map f))
      | .error e => .error e
  | [], d => by
    simp only [List.map_nil, waitLoop, List.length_map]
    split <;> rfl
  | w :: ws, d => by
    simp only [List.map_cons, waitLoop, List.length_map]
    split
    · rfl
    · exact waitLoop_ren f m ws w

theorem Rel.stale {rows : List (Row C O)} {me : MEv C O} {s : Ev C O} (hr : Rel rows me s) :
    mStale me = staleTask s := by
  unfold mStale staleTask
  rw [← hr.running, List.any_map, hr.gen]
  rfl

theorem Rel.runLen {rows : List (Row C O)} {me : MEv C O} {s : Ev C O} (hr : Rel rows me s) :
    me.running.length = s.running.length := by
  rw [← hr.running]; simp

/-- the ids a wait reports, under the numbering -/
def renDone (f : Nat → Nat) : Except Err (List Nat) → Except Err (List Nat)
  | .ok d => .ok (d.map f)
  | .error e => .error e

theorem awaitM_sim {rows : List (Row C O)} {me : MEv C O} {s : Ev C O} (hr : Rel rows me s) (m : Nat)
    (lws : List (List Nat)) (f : Nat → Nat) :
    mAwaitM me m (lws.map (·.map f)) = renDone f (awaitM s m lws) := by
  have hl := hr.runLen
  have hst := hr.stale
  have hemp : me.running.isEmpty = s.running.isEmpty := by
    rw [← hr.running]; simp
  unfold mAwaitM awaitM
  rw [hl, hst, hemp]
  by_cases h1 : m = s.running.length
  · rw [if_pos h1, if_pos h1]
    by_cases h2 : s.running.isEmpty = true
    · rw [if_pos h2, if_pos h2]; rfl
    · rw [if_neg h2, if_neg h2]
      by_cases h3 : staleTask s = true
      · rw [if_pos h3, if_pos h3]; rfl
      · rw [if_neg h3, if_neg h3]
        cases lws with
        | nil => rfl
        | cons w rest =>
          cases rest with
          | nil => rfl
          | cons w2 rest2 => rfl
  · rw [if_neg h1, if_neg h1]
    by_cases h3 : staleTask s = true
    · rw [if_pos h3, if_pos h3]; rfl
    · rw [if_neg h3, if_neg h3]
      have := waitLoop_ren f m lws []
      simp only [List.map_nil] at this
      rw [this]
      cases hwl : waitLoop m [] lws with
      | error e => rfl
      | ok x =>
        obtain ⟨d, rest⟩ := x
        cases rest with
        | nil => rfl
        | cons a b => rfl

theorem awaitN_sim {rows : List (Row C O)} {me : MEv C O} {s : Ev C O} (hr : Rel rows me s) (n : Nat)
    (lws : List (List Nat)) (f : Nat → Nat) :
    mAwaitN me n (lws.map (·.map f)) = renDone f (awaitN s n lws) := by
  unfold mAwaitN awaitN
  have : mClampN me n = clampN s n := by unfold mClampN clampN; rw [hr.runLen]
  rw [this]
  exact awaitM_sim hr _ _ _

def outRes : Out C O → Except Err (List (JobRec C O))
  | .jobs js => .ok js
  | .error e => .error e
  | _ => .ok []

/-- `gather` up to and including `process_local_tasks_done` -/
theorem gatherLocal_sim (p : MParams C O) {rows : List (Row C O)} {me : MEv C O} {s : Ev C O}
    (hr : Rel rows me s) (hw : Wf s) (all : Bool) (k : Nat) (lst : List Nat) (lws : List (List Nat)) :
    ∃ rows' me', mGatherLocal p (rows, me) all k (lst.map (rho me.jobs rows.length))
          (lws.map (·.map (rho me.jobs rows.length))) =
        ((rows', me'), renRes (rho me.jobs rows.length) (outRes (gather p.toParams s all k lst lws).2)) ∧
      Rel rows' me' (gather p.toParams s all k lst lws).1 ∧ Wf (gather p.toParams s all k lst lws).1 ∧
      me'.jobs = me.jobs ∧ rows'.length = rows.length := by
  unfold mGatherLocal gather
  simp only [hr.runLen, ← hr.lopen]
  by_cases h0 : (if all = true then s.running.length else k) = 0
  · rw [if_pos h0, if_pos h0]
    exact ⟨rows, me, rfl, hr, hw, rfl, rfl⟩
  · rw [if_neg h0, if_neg h0]
    by_cases h1 : (!s.loopOpen) = true
    · rw [if_pos h1, if_pos h1]
      exact ⟨rows, me, rfl, hr, hw, rfl, rfl⟩
    · rw [if_neg h1, if_neg h1, awaitN_sim hr]
      cases hd : awaitN s (if all = true then s.running.length else k) lws with
      | error e => exact ⟨rows, me, rfl, hr, hw, rfl, rfl⟩
      | ok done =>
        simp only [renDone]
        have hr1 := hr.markSt lst
        have hw1 := hw.markSt lst
        have hlen : (mMarkStarted rows (lst.map (rho me.jobs rows.length))).length = rows.length := by
          simp [mMarkStarted]
        obtain ⟨rows2, me2, hm, hr2, hw2, hj2, hl2⟩ := processAll_sim p .gather done hr1 hw1
        rw [hlen] at hm
        rw [hm]
        refine ⟨rows2, me2, ?_, ?_, ?_, hj2, hl2.trans hlen⟩
        · cases h2 : processAll p.toParams Via.gather { s with jobs := markStarted s.jobs lst } done with
          | mk s2 res => cases res <;> rfl
        · cases h2 : processAll p.toParams Via.gather { s with jobs := markStarted s.jobs lst } done with
          | mk s2 res => rw [h2] at hr2; cases res <;> exact hr2
        · cases h2 : processAll p.toParams Via.gather { s with jobs := markStarted s.jobs lst } done with
          | mk s2 res => rw [h2] at hw2; cases res <;> exact hw2

end DH.Evaluator
