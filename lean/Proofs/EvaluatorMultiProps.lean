import Proofs.EvaluatorMultiReach

/-!
One call of an evaluator of a reachable system, related to the call of the single-evaluator model that
simulates it (`gather_bundle`, `close_bundle`), what a call does to the rows (`mStep_rowsStep`), and the
translation of the single-evaluator facts through the numbering.  Core Lean only.
-/

namespace DH.Evaluator

variable {C O : Type}

theorem reach_trace {p : Params C O} {s : Ev C O} (h : Reach p s) : ∃ cs, Trace p s cs := by
  induction h with
  | init => exact ⟨[], .init⟩
  | step op _ hok ih =>
    obtain ⟨cs, ht⟩ := ih
    exact ⟨_, .step op ht hok⟩

theorem set_getElem?_self {α : Type} {l : List α} {i : Nat} {a b : α} (h : l[i]? = some a) :
    (l.set i b)[i]? = some b :=
  List.getElem?_set_self (List.getElem?_eq_some_iff.1 h).1

/-- `Rel` does not look at the histories `gather_other_jobs_done` extends -/
theorem Rel.addObjs {rows : List (Row C O)} {me : MEv C O} {s : Ev C O} (hr : Rel rows me s)
    (objs : List (Obj C O)) : Rel rows (addObjs me objs) s :=
  ⟨hr.sorted, hr.lt, hr.ids, hr.n, hr.ownIds, hr.jobs, hr.running, hr.submitted, hr.delivered, hr.gen, hr.lopen⟩

/-- **a gather of an evaluator of a reachable system** = the gather of the single-evaluator model on the
renumbered environment, followed by the report of the other evaluators' finished jobs -/
theorem gather_bundle {p : MParams C O} {n : Nat} {sys : Sys C O} (h : SInv p n sys) {who : Nat} {me : MEv C O}
    (hme : sys.evs[who]? = some me) (all : Bool) (k : Nat) (st : List Nat) (ws : List (List Nat))
    (hok : mOpOkLocal sys.rows me (.gather all k st ws) = true) :
    ∃ s lst lws rows1 me1,
      Reach p.toParams s ∧ Rel sys.rows me s ∧ opOk s (.gather all k lst lws) = true ∧
      lst.map (rho me.jobs sys.rows.length) = st ∧
      mGatherLocal p (sys.rows, me) all k st ws =
        ((rows1, me1), renRes (rho me.jobs sys.rows.length) (outRes (gather p.toParams s all k lst lws).2)) ∧
      Rel rows1 me1 (gather p.toParams s all k lst lws).1 ∧ me1.jobs = me.jobs ∧ rows1.length = sys.rows.length ∧
      (∃ ids, Delta me me1 ids .gather) ∧
      SInv p n { rows := rows1, evs := sys.evs.set who me1 } ∧
      (mStep p sys who (.gather all k st ws) =
        match renRes (rho me.jobs sys.rows.length) (outRes (gather p.toParams s all k lst lws).2) with
        | .error e => ({ rows := rows1, evs := sys.evs.set who me1 }, .error e)
        | .ok js => ({ rows := rows1, evs := sys.evs.set who (DH.Evaluator.addObjs me1 (otherObjs p rows1 me1)) },
                      .jobs js ((otherObjs p rows1 me1).map (foreignRec rows1)))) := by
  have hold := h.ev who me hme
  obtain ⟨s, hs, hr⟩ := hold.sim
  obtain ⟨hi, _, _⟩ := reach_good hs
  obtain ⟨lst, lws, e1, _, hok', rows1, me1, hm, hr1, hj, hl⟩ := gather_step_sim p hi hr all k st ws hok
  have h1 := h.gatherLocal hme all k st ws hok
  obtain ⟨_, hd, _⟩ := mGatherLocal_facts p who (rows_nodup h.rows.ids)
    (fun g hg => hr.running_own hi hg) all k st ws hok h.rows.sout
  rw [hm] at h1 hd
  refine ⟨s, lst, lws, rows1, me1, hs, hr, hok', e1, hm, hr1, hj, hl, hd, h1, ?_⟩
  unfold mStep
  rw [hme]
  simp only [mStepLocal, mGather, hm]
  cases hres : renRes (rho me.jobs sys.rows.length) (outRes (gather p.toParams s all k lst lws).2) with
  | error e => rfl
  | ok js =>
    simp only
    have := gatherOther_eq p (rows_nodup h1.rows.ids) h1.noRunningStored me1
    simp only at this
    rw [this]

/-- **a close of an evaluator of a reachable system** = the close of the single-evaluator model -/
theorem close_bundle {p : MParams C O} {n : Nat} {sys : Sys C O} (h : SInv p n sys) {who : Nat} {me : MEv C O}
    (hme : sys.evs[who]? = some me) (fin : List Nat) (hok : mOpOkLocal sys.rows me (.close fin) = true) :
    ∃ s lfin rows' me',
      Reach p.toParams s ∧ Rel sys.rows me s ∧ opOk s (.close lfin) = true ∧
      lfin.map (rho me.jobs sys.rows.length) = fin ∧
      mStep p sys who (.close fin) =
        ({ rows := rows', evs := sys.evs.set who me' }, outM (close p.toParams s lfin).2) ∧
      Rel rows' me' (close p.toParams s lfin).1 ∧ me'.jobs = me.jobs ∧ rows'.length = sys.rows.length ∧
      (∃ ids, Delta me me' ids .close) := by
  have hold := h.ev who me hme
  obtain ⟨s, hs, hr⟩ := hold.sim
  obtain ⟨hi, _, _⟩ := reach_good hs
  obtain ⟨lfin, e1, hok', rows', me', hm, hr', hj, hl⟩ := close_step_sim p hi hr fin hok
  obtain ⟨_, hd, _⟩ := mClose_facts p who (rows_nodup h.rows.ids)
    (fun g hg => hr.running_own hi hg) fin hok h.rows.sout
  rw [hm] at hd
  refine ⟨s, lfin, rows', me', hs, hr, hok', e1, ?_, hr', hj, hl, hd⟩
  unfold mStep
  rw [hme]
  simp only [mStepLocal, hm]

theorem mreach_run {p : MParams C O} {n : Nat} : ∀ (ops : List (Nat × MOp C)) {s : Sys C O},
    MReach p n s → mOpsOk p s ops = true → MReach p n (mRun p s ops).1
  | [], _, h, _ => h
  | (who, op) :: ops, s, h, hok => by
    simp only [mOpsOk, Bool.and_eq_true] at hok
    exact mreach_run ops (.step who op h hok.1) hok.2

/-! ### the single-evaluator facts through the numbering -/

theorem Rel.del_ids {rows : List (Row C O)} {me : MEv C O} {s : Ev C O} (hr : Rel rows me s) :
    me.delivered.map (·.1) = (s.delivered.map (·.1)).map (rho me.jobs rows.length) := by
  rw [← hr.delivered, List.map_map, List.map_map]; rfl

theorem Rel.mem_del {rows : List (Row C O)} {me : MEv C O} {s : Ev C O} (hr : Rel rows me s) {g : Nat} {v : Via} :
    (g, v) ∈ me.delivered ↔ ∃ i, (i, v) ∈ s.delivered ∧ rho me.jobs rows.length i = g := by
  rw [← hr.delivered]
  simp only [List.mem_map, renDel, Prod.mk.injEq, Prod.exists]
  constructor
  · rintro ⟨i, v', hm, e1, e2⟩; subst e2; exact ⟨i, hm, e1⟩
  · rintro ⟨i, hm, e⟩; exact ⟨i, v, hm, e, rfl⟩

theorem Rel.jobs_eq {rows : List (Row C O)} {me : MEv C O} {s : Ev C O} (hr : Rel rows me s) :
    me.jobs = (List.range s.nextId).map (rho me.jobs rows.length) := by
  rw [hr.n, map_rho_range]

theorem mem_map_inj {f : Nat → Nat} (hf : ∀ a b, f a = f b → a = b) {l : List Nat} {i : Nat} :
    f i ∈ l.map f ↔ i ∈ l := by
  constructor
  · intro h
    obtain ⟨x, hx, e⟩ := List.mem_map.1 h
    exact hf _ _ e ▸ hx
  · exact List.mem_map_of_mem

/-- exactly-once, for one evaluator of a system satisfying the invariant -/
theorem multi_exactly_once {p : MParams C O} {n : Nat} {sys : Sys C O} (h : SInv p n sys) {who : Nat}
    {me : MEv C O} (hme : sys.evs[who]? = some me) :
    (me.delivered.map (·.1)).Nodup ∧ (mRunningIds me).Nodup ∧
    (∀ g, g ∈ me.jobs ↔ (g ∈ mRunningIds me ∨ g ∈ me.delivered.map (·.1))) ∧
    (∀ g ∈ mRunningIds me, g ∉ me.delivered.map (·.1)) ∧
    (∀ g, ¬ ((g, Via.gather) ∈ me.delivered ∧ (g, Via.close) ∈ me.delivered)) := by
  obtain ⟨s, hs, hr⟩ := (h.ev who me hme).sim
  obtain ⟨hi, _, _⟩ := reach_good hs
  have inj := hr.inj
  have hnd := List.nodup_append.1 hi.nodup
  have hrun : runningIds s = s.submitted := hi.runSub
  refine ⟨?_, ?_, ?_, ?_, ?_⟩
  · rw [hr.del_ids]; exact nodup_map_inj inj hnd.2.1
  · rw [hr.runIds, hrun]; exact nodup_map_inj inj hnd.1
  · intro g
    rw [hr.runIds, hr.del_ids, hrun]
    constructor
    · intro hg
      rw [hr.jobs_eq] at hg
      obtain ⟨i, hi', rfl⟩ := List.mem_map.1 hg
      have := hi.part.mem_iff.2 hi'
      rcases List.mem_append.1 this with h1 | h1
      · exact Or.inl (List.mem_map_of_mem h1)
      · exact Or.inr (List.mem_map_of_mem h1)
    · rintro (hg | hg)
      · obtain ⟨i, hi', rfl⟩ := List.mem_map.1 hg
        exact hr.mem_jobs_of_sub hi.wf (hi.sub_lt hi')
      · obtain ⟨i, hi', rfl⟩ := List.mem_map.1 hg
        exact hr.mem_jobs_of_sub hi.wf (hi.del_lt hi')
  · intro g hg
    rw [hr.runIds, hrun] at hg
    rw [hr.del_ids]
    obtain ⟨i, hi', rfl⟩ := List.mem_map.1 hg
    intro hd
    exact hi.sub_not_del hi' ((mem_map_inj inj).1 hd)
  · rintro g ⟨h1, h2⟩
    obtain ⟨i, hi1, e1⟩ := hr.mem_del.1 h1
    obtain ⟨i', hi2, e2⟩ := hr.mem_del.1 h2
    have : i = i' := inj _ _ (e1.trans e2.symm)
    subst this
    have := eq_of_nodup_map (·.1) hnd.2.1 hi1 hi2 rfl
    simp at this

/-- ids are the storage's counter; every job has exactly one owner, and only the owner has it in `self.jobs` -/
theorem multi_owner {p : MParams C O} {n : Nat} {sys : Sys C O} (h : SInv p n sys) :
    sys.rows.map (·.id) = List.range sys.rows.length ∧
    (∀ r ∈ sys.rows, r.owner < n ∧ ∀ (w : Nat) (mw : MEv C O), sys.evs[w]? = some mw → (r.id ∈ mw.jobs ↔ w = r.owner)) ∧
    (∀ (w : Nat) (mw : MEv C O), sys.evs[w]? = some mw → ∀ g ∈ mw.jobs, g < sys.rows.length) := by
  refine ⟨h.rows.ids, fun r hr => ⟨h.rows.owner r hr, fun w mw hw => ?_⟩, fun w mw hw g hg => ?_⟩
  · rw [← (h.ev w mw hw).own r hr]; exact eq_comm
  · obtain ⟨s, _, hr⟩ := (h.ev w mw hw).sim
    exact hr.lt g hg

/-- with ONE evaluator the numbering is the identity -/
theorem rho_range (L k : Nat) : rho (List.range L) L k = k := by
  by_cases h : k < L
  · rw [rho_lt (by simpa using h)]; simp
  · rw [rho_ge (by simpa using Nat.le_of_not_lt h)]; simp; omega

theorem multi_single_jobs {p : MParams C O} {sys : Sys C O} (h : SInv p 1 sys) {me : MEv C O}
    (hme : sys.evs[0]? = some me) : me.jobs = List.range sys.rows.length := by
  have hev := h.ev 0 me hme
  obtain ⟨s, _, hr⟩ := hev.sim
  have : ownRows sys.rows me.jobs = sys.rows := by
    unfold ownRows
    apply List.filter_eq_self.2
    intro r hr'
    have := h.rows.owner r hr'
    have h0 : r.owner = 0 := by omega
    simpa using (hev.own r hr').1 h0
  rw [← hr.ownIds, this, h.rows.ids]

end DH.Evaluator
