import Proofs.Ask

/-!
# Totality of the ask/tell model (used by `C02_total`)

`Model/Ask.lean` returns an `Err` where the code raises.  The error outputs and why none of them
is reachable under the environment contract:

| `Err` | raised by | unreachable because |
|---|---|---|
| `badN` | `ask(0)`: "n_points should be int > 0" | contract `AskTotal.npos`: `n ≥ 1` |
| `emptySample` | `Xsamples[0]` on an empty sample | `Space.rvs(n_points ≥ 1)` is non-empty (`cands ≠ []`), and `_filter_duplicated` of a non-empty list is non-empty (`filterDup_ne_nil`) |
| `badIndex` | an index out of range | `np.argmin / argsort / multinomial` return indices of the array they were computed on (`SelTotal`, `OrdTotal`) |
| `envShort` | — (no counterpart in the code) | the environment supplies one fit per constant-liar step, one argsort per kappa and enough multinomial draws (`AskTotal.steps`, `OrdTotal`) |
| `finRaises` | `inverse_transform` / `deactivate_inactive_dimensions` raise | contract `SpaceTotal.rt` (the round trip of a member does not raise) and `FitTotal.free` (the row lbfgs ends on can be inverted) |
| `notInSpace` | `check_x_in_space` rejects what is told | what is told is a member (contract) and members are accepted (`SpaceTotal.acc` = `C02_accepted_back`) |
| `noModel` | "Random evaluations exhausted and no model has been fit" / `update_next` on a copy without `_next_x` | invariant `TInv`: `_n_initial_points = n_initial_points − #non-failed told`, and (`_n_initial_points ≤ 0` and a surrogate is used) ⇔ `_next_x` is set; needs `n_initial_points ≥ 1` (with 0 the pinned code does raise) |
-/

namespace DH.Ask

variable {α τ : Type} [DecidableEq α]
set_option linter.unusedSectionVars false

theorem dedup_ne_nil : ∀ {l : List α}, l ≠ [] → dedup l ≠ []
  | [], h => absurd rfl h
  | a :: t, _ => by simp [dedup]

theorem filterDup_ne_nil {on : Bool} {smp l : List α} (h : l ≠ []) : filterDup on smp l ≠ [] := by
  unfold filterDup
  split
  · simp only
    split
    · exact h
    · rename_i hne
      intro hnil
      exact hne (by rw [hnil]; rfl)
  · exact h

/-- an argmin-like function returns an index of the array it is given -/
def SelTotal (sel : List α → Nat) : Prop := ∀ l, l ≠ [] → sel l < l.length

def PickTotal : Pick α τ → Prop
  | .idx sel => SelTotal sel
  | .free _ fb => SelTotal fb

/-- contract of the space needed for totality -/
structure SpaceTotal (P : α → Prop) (ops : Ops α τ) : Prop where
  rt : ∀ c, P c → ∃ x, ops.fin (ops.tr c) = some x
  acc : ∀ x, P x → ops.accept x = true

/-- contract of one fit's environment needed for totality -/
structure FitTotal (P : α → Prop) (ops : Ops α τ) (e : Fit α τ) : Prop where
  ne : e.cands ≠ []
  mem : ∀ c ∈ e.cands, P c
  pick : PickTotal e.pick
  free : ∀ t fb, e.pick = .free t fb → ∃ x, ops.fin t = some x

variable {P : α → Prop} {ops : Ops α τ}

theorem fit_total (hs : SpaceTotal P ops) (s : Opt α) {e : Fit α τ} (he : FitTotal P ops e) :
    ∃ x, fit ops s e = .ok { s with nextX := some x, nextFrom := e.cands,
                                    last := some (filterDup s.filterOn s.sampled e.cands) } := by
  have hf : filterDup s.filterOn s.sampled e.cands ≠ [] := filterDup_ne_nil he.ne
  have fromIdx : ∀ sel : List α → Nat, SelTotal sel → ∃ c x,
      (filterDup s.filterOn s.sampled e.cands)[sel (filterDup s.filterOn s.sampled e.cands)]? = some c ∧
      ops.fin (ops.tr c) = some x := by
    intro sel hsel
    have hlt := hsel _ hf
    refine ⟨(filterDup s.filterOn s.sampled e.cands)[sel _], ?_⟩
    have hmem : (filterDup s.filterOn s.sampled e.cands)[sel _] ∈ e.cands :=
      mem_filterDup (List.getElem_mem hlt)
    obtain ⟨x, hx⟩ := hs.rt _ (he.mem _ hmem)
    exact ⟨x, List.getElem?_eq_getElem hlt, hx⟩
  unfold fit
  cases hp : e.pick with
  | idx sel =>
    have hpt : SelTotal sel := by have := he.pick; rw [hp] at this; exact this
    obtain ⟨c, x, hc, hx⟩ := fromIdx sel hpt
    exact ⟨x, by simp [hc, hx]⟩
  | free t fb =>
    have hpt : SelTotal fb := by have := he.pick; rw [hp] at this; exact this
    obtain ⟨y, hy⟩ := he.free t fb hp
    by_cases hcond : (s.filterOn && decide (y ∈ s.sampled)) = true
    · obtain ⟨c, x, hc, hx⟩ := fromIdx fb hpt
      exact ⟨x, by simp [hy, hcond, hc, hx]⟩
    · exact ⟨y, by simp [hy, hcond]⟩

/-- the bookkeeping invariant behind "a model has been fit whenever the random phase is over" -/
structure TInv (s : Opt α) : Prop where
  pos : 1 ≤ s.nInit0
  arith : s.nInit = s.nInit0 - (nonFail s.told : Nat)
  fitted : (s.nInit ≤ 0 ∧ s.dummy = false) ↔ s.nextX.isSome = true
  lastNe : ∀ l, s.last = some l → l ≠ []

theorem tellCore_eq (ops : Ops α τ) (s : Opt α) (xs : List (α × Obj)) (e : Fit α τ) :
    tellCore ops s xs e =
      if (told1 s xs).nInit ≤ 0 ∧ (told1 s xs).dummy = false then fit ops (told1 s xs) e
      else .ok (told1 s xs) := rfl

theorem tellCore_total (hs : SpaceTotal P ops) {s : Opt α} (hi : TInv s) (xs : List (α × Obj))
    {e : Fit α τ} (he : FitTotal P ops e) :
    ∃ s', tellCore ops s xs e = .ok s' ∧ TInv s' ∧ s'.sampled = s.sampled ∧
      s'.filterOn = s.filterOn ∧ s'.initSamples = s.initSamples ∧ s'.dummy = s.dummy ∧
      s'.nInit0 = s.nInit0 ∧ s'.nInit ≤ s.nInit := by
  have harith : (told1 s xs).nInit = (told1 s xs).nInit0 - (nonFail (told1 s xs).told : Nat) := by
    simp only [told1, nonFail_append, hi.arith]
    omega
  rw [tellCore_eq]
  by_cases hc : (told1 s xs).nInit ≤ 0 ∧ (told1 s xs).dummy = false
  · obtain ⟨x, hx⟩ := fit_total hs (told1 s xs) he
    rw [if_pos hc, hx]
    refine ⟨_, rfl, ⟨hi.pos, harith, ?_, ?_⟩, rfl, rfl, rfl, rfl, rfl, ?_⟩
    · simp only [Option.isSome_some, iff_true]
      exact hc
    · intro l hl
      cases hl
      exact filterDup_ne_nil he.ne
    · simp only [told1]; omega
  · rw [if_neg hc]
    refine ⟨_, rfl, ⟨hi.pos, harith, ?_, hi.lastNe⟩, rfl, rfl, rfl, rfl, rfl, (by simp only [told1]; omega)⟩
    constructor
    · intro h; exact absurd h hc
    · intro h
      -- `_next_x` was set before: the random phase was already over, and it stays over
      have hbefore := hi.fitted.2 h
      exfalso
      apply hc
      refine ⟨?_, hbefore.2⟩
      simp only [told1]
      have := hbefore.1
      omega

theorem copy_total (hs : SpaceTotal P ops) {s : Opt α} (hi : TInv s) {e : Fit α τ}
    (he : FitTotal P ops e) :
    ∃ c, copy ops s e = .ok c ∧ TInv c ∧ c.sampled = s.sampled ∧ c.filterOn = s.filterOn ∧
      c.initSamples = s.initSamples ∧ c.dummy = s.dummy ∧ c.nInit = s.nInit := by
  have hi0 : TInv (copy0 s) := by
    refine ⟨hi.pos, ?_, ?_, ?_⟩
    · simp [copy0, nonFail]
    · simp only [copy0, Option.isSome_none, Bool.false_eq_true, iff_false, not_and]
      intro h
      have := hi.pos
      omega
    · intro l hl; cases hl
  unfold copy
  simp only
  by_cases ht : s.told.isEmpty = true
  · rw [if_pos ht]
    refine ⟨copy0 s, rfl, hi0, rfl, rfl, rfl, rfl, ?_⟩
    have : s.told = [] := List.isEmpty_iff.1 ht
    simp [copy0, hi.arith, this, nonFail]
  · rw [if_neg ht]
    obtain ⟨c, hc, hic, h1, h2, h3, h4, h5, _⟩ := tellCore_total hs hi0 s.told he
    refine ⟨c, hc, hic, h1, h2, h3, h4, ?_⟩
    rw [hic.arith, h5, hi.arith]
    -- the copy was told exactly what the original was told
    have : c.told = s.told := by
      rcases tellCore_ok hc with ⟨_, hf⟩ | ⟨_, rfl⟩
      · obtain ⟨x, rfl, _⟩ := fit_ok hf
        simp [told1, copy0]
      · simp [told1, copy0]
    rw [this]
    rfl

theorem updateNext_total (hs : SpaceTotal P ops) {s : Opt α} (hi : TInv s) {e : Fit α τ}
    (he : FitTotal P ops e) :
    ∃ s', updateNext ops s e = .ok s' ∧ TInv s' ∧ s'.sampled = s.sampled ∧
      s'.filterOn = s.filterOn ∧ s'.initSamples = s.initSamples ∧ s'.cache = none := by
  have hi1 : TInv ({ s with cache := none } : Opt α) := ⟨hi.pos, hi.arith, hi.fitted, hi.lastNe⟩
  obtain ⟨c, hc, hic, _, _, _, hd, hni⟩ := copy_total hs hi1 he
  unfold updateNext
  simp only
  split
  · exact ⟨_, rfl, hi1, rfl, rfl, rfl, rfl⟩
  · rename_i x hn
    have hfit : s.nInit ≤ 0 ∧ s.dummy = false := hi.fitted.2 (by simp [hn])
    have hcn : c.nextX.isSome = true :=
      hic.fitted.1 ⟨by rw [hni]; exact hfit.1, by rw [hd]; exact hfit.2⟩
    rw [hc]
    simp only
    split
    · rename_i hcx; simp [hcx] at hcn
    · refine ⟨_, rfl, ⟨hi.pos, hi.arith, ?_, hi.lastNe⟩, rfl, rfl, rfl, rfl⟩
      simp only [Option.isSome_some, iff_true]
      exact hfit


/-! ### the ask paths -/

/-- what `ask` leaves untouched: everything `TInv` talks about -/
def SameCore (s s' : Opt α) : Prop :=
  s'.nInit0 = s.nInit0 ∧ s'.nInit = s.nInit ∧ s'.told = s.told ∧ s'.dummy = s.dummy ∧
    s'.nextX = s.nextX ∧ s'.last = s.last

theorem SameCore.refl (s : Opt α) : SameCore s s := ⟨rfl, rfl, rfl, rfl, rfl, rfl⟩

theorem TInv.of_same {s s' : Opt α} (hi : TInv s) (h : SameCore s s') : TInv s' := by
  obtain ⟨h1, h2, h3, h4, h5, h6⟩ := h
  exact ⟨h1 ▸ hi.pos, by rw [h1, h2, h3]; exact hi.arith, by rw [h2, h4, h5]; exact hi.fitted,
    by rw [h6]; exact hi.lastNe⟩

theorem not_random {s : Opt α} (h : s.randomPhase = false) : s.nInit ≤ 0 ∧ s.dummy = false := by
  unfold Opt.randomPhase at h
  simp only [Bool.or_eq_false_iff, decide_eq_false_iff_not] at h
  exact ⟨by omega, h.2⟩

theorem askOne_total {s : Opt α} (hi : TInv s) {cands : List α} (hc : cands ≠ []) :
    ∃ s' z, askOne s cands = .ok (s', z) ∧ SameCore s s' := by
  unfold askOne
  split
  · split
    · have hf := filterDup_ne_nil (on := s.filterOn) (smp := s.sampled) hc
      split
      · rename_i hnil; exact absurd hnil hf
      · exact ⟨_, _, rfl, SameCore.refl s⟩
    · exact ⟨_, _, rfl, SameCore.refl s⟩
  · rename_i hr
    have hr' : s.randomPhase = false := by simpa using hr
    have hn := hi.fitted.1 (not_random hr')
    split
    · rename_i hx; simp [hx] at hn
    · exact ⟨_, _, rfl, SameCore.refl s⟩

/-- every index of the list is a position of `l` -/
def IdxIn (l : List α) (o : List Nat) : Prop := ∀ i ∈ o, i < l.length

theorem rows_total {l : List α} : ∀ {idx : List Nat}, IdxIn l idx → ∃ X, rows l idx = .ok X
  | [], _ => ⟨[], rfl⟩
  | i :: is, h => by
    have hi : i < l.length := h i List.mem_cons_self
    obtain ⟨X, hX⟩ := rows_total (idx := is) (fun j hj => h j (List.mem_cons_of_mem _ hj))
    exact ⟨l[i] :: X, by simp [rows, List.getElem?_eq_getElem hi, hX]⟩

theorem boltzLoop_total {on : Bool} {n : Nat} {l : List α} : ∀ (draws idx : List Nat) (trials : Nat)
    (smp : List α), IdxIn l draws → IdxIn l idx → (n - idx.length) + (100 - trials) ≤ draws.length →
    ∃ idx' smp', boltzLoop on n l draws idx trials smp = .ok (idx', smp') ∧ IdxIn l idx'
  | [], idx, trials, smp, _, hidx, hm => by
    unfold boltzLoop
    have : idx.length ≥ n := by simp at hm; omega
    rw [if_pos this]
    exact ⟨idx, smp, rfl, hidx⟩
  | d :: ds, idx, trials, smp, hd, hidx, hm => by
    unfold boltzLoop
    by_cases hlen : idx.length ≥ n
    · rw [if_pos hlen]; exact ⟨idx, smp, rfl, hidx⟩
    · rw [if_neg hlen]
      simp only
      have hds : IdxIn l ds := fun j hj => hd j (List.mem_cons_of_mem _ hj)
      simp only [List.length_cons] at hm
      by_cases hrej : (on && idx.contains d && decide (trials < 100)) = true
      · rw [if_pos hrej]
        have ht : trials < 100 := by
          simp only [Bool.and_eq_true, decide_eq_true_eq] at hrej; exact hrej.2
        exact boltzLoop_total ds idx (trials + 1) smp hds hidx (by omega)
      · rw [if_neg hrej]
        have hdl : d < l.length := hd d List.mem_cons_self
        rw [List.getElem?_eq_getElem hdl]
        simp only
        refine boltzLoop_total ds (idx ++ [d]) trials (smp ++ [l[d]]) hds ?_ (by simp; omega)
        intro j hj
        rcases List.mem_append.1 hj with h1 | h1
        · exact hidx j h1
        · simp at h1; subst h1; exact hdl

theorem pickQ_total {m : Nat} {o ch : List Nat} (hne : o ≠ []) (hin : ∀ i ∈ o, i < m) :
    ∃ i, pickQ m o ch = some i ∧ i < m := by
  unfold pickQ
  split
  · rename_i i hi
    have := List.find?_some hi
    simp only [Bool.and_eq_true, decide_eq_true_eq] at this
    exact ⟨i, rfl, this.1⟩
  · cases o with
    | nil => exact absurd rfl hne
    | cons a t => exact ⟨a, rfl, hin a List.mem_cons_self⟩

theorem qLoop_total {f : List α} : ∀ (os : List (List Nat)) (ch : List Nat) (acc : List α),
    (∀ o ∈ os, o ≠ [] ∧ IdxIn f o) →
    ∃ X, qLoop f os ch acc = .ok X ∧ X.length = acc.length + os.length
  | [], ch, acc, _ => ⟨acc, rfl, by simp⟩
  | o :: os, ch, acc, h => by
    have ho := h o List.mem_cons_self
    obtain ⟨i, hi, him⟩ := pickQ_total (ch := ch) ho.1 ho.2
    obtain ⟨X, hX, hlen⟩ := qLoop_total os (ch ++ [i]) (acc ++ [f[i]])
      (fun o' h' => h o' (List.mem_cons_of_mem _ h'))
    refine ⟨X, ?_, by simp at hlen ⊢; omega⟩
    unfold qLoop
    simp only [hi, List.getElem?_eq_getElem him]
    exact hX

/-- contract on the index lists of an `ask(n)` with strategy `strat` -/
structure OrdTotal (strat : Strategy) (n : Nat) (orders : List α → List (List Nat)) : Prop where
  topk : strat = .topk → ∀ l, IdxIn l ((orders l).headD [])
  boltz : strat = .boltzmann → ∀ l, l ≠ [] → ∃ i0 draws rest,
    orders l = [i0] :: draws :: rest ∧ i0 < l.length ∧ IdxIn l draws ∧ n + 100 ≤ draws.length
  q : strat.isQ = true → ∀ l, l ≠ [] →
    n - 1 ≤ (orders l).length ∧ ∀ o ∈ orders l, o ≠ [] ∧ IdxIn l o

/-- environment contract of one `ask(n)` needed for totality -/
structure AskTotal (P : α → Prop) (ops : Ops α τ) (strat : Strategy) (n : Nat) (env : AskEnv α τ) : Prop where
  npos : 1 ≤ n
  cands : env.cands ≠ []
  copyFit : FitTotal P ops env.copyFit
  refresh : FitTotal P ops env.refresh
  steps : n ≤ env.steps.length ∧ ∀ st ∈ env.steps, FitTotal P ops st.fit
  orders : OrdTotal strat n env.orders

theorem clLoop_total (hs : SpaceTotal P ops) : ∀ (k : Nat) (steps : List (ClStep α τ)) (opt : Opt α)
    (smp : List α) (X : List (Sel α)), TInv opt → opt.nInit ≤ 0 ∧ opt.dummy = false →
    k ≤ steps.length → (∀ st ∈ steps, FitTotal P ops st.fit) →
    ∃ smp' X', clLoop ops k steps opt smp X = .ok (smp', X')
  | 0, _, _, smp, X, _, _, _, _ => ⟨smp, X, rfl⟩
  | k + 1, [], _, _, _, _, _, hk, _ => by simp at hk
  | k + 1, st :: rest, opt, smp, X, hi, hfit, hk, hst => by
    have hr : opt.randomPhase = false := by
      unfold Opt.randomPhase
      simp only [Bool.or_eq_false_iff, decide_eq_false_iff_not]
      exact ⟨by omega, hfit.2⟩
    have hn := hi.fitted.1 hfit
    unfold clLoop
    simp only
    unfold askOne
    rw [if_neg (by simp [hr])]
    cases hx : opt.nextX with
    | none => simp [hx] at hn
    | some x =>
      simp only
      by_cases hk0 : k = 0
      · rw [if_pos hk0]; exact ⟨_, _, rfl⟩
      · rw [if_neg hk0]
        have hi1 : TInv ({ opt with sampled := opt.sampled ++ [x], nextX := some x } : Opt α) :=
          hi.of_same ⟨rfl, rfl, rfl, rfl, hx.symm, rfl⟩
        obtain ⟨opt2, h2, hi2, _, _, _, hd, _, hle⟩ :=
          tellCore_total hs hi1 [(x, Obj.val)] (hst st List.mem_cons_self)
        rw [h2]
        simp only
        exact clLoop_total hs k rest opt2 _ _ hi2
          ⟨by have := hfit.1; simp only at hle; omega, by rw [hd]; exact hfit.2⟩
          (by simp at hk; omega) (fun st' h' => hst st' (List.mem_cons_of_mem _ h'))


theorem ask_total (hs : SpaceTotal P ops) {s : Opt α} (hi : TInv s) {n : Nat} {strat : Strategy}
    {env : AskEnv α τ} (he : AskTotal P ops strat n env) :
    ∃ s' Z, ask ops s (some n) strat env = .ok (s', Z) ∧ SameCore s s' := by
  have single : ∃ s' Z, (match askOne s env.cands with
      | .error e => (.error e : Except Err (Opt α × List (Sel α)))
      | .ok (s', sel) => .ok (s', [sel])) = .ok (s', Z) ∧ SameCore s s' := by
    obtain ⟨s', z, h, hsame⟩ := askOne_total hi he.cands
    exact ⟨s', [z], by rw [h], hsame⟩
  unfold ask
  split
  · exact single
  · exact single
  · rename_i _ m hm1 hm2
    injection hm2 with hm2
    subst hm2
    by_cases hphase : n > 0 ∧ s.randomPhase = true
    · rw [if_pos hphase]
      exact ⟨_, _, rfl, ⟨rfl, rfl, rfl, rfl, rfl, rfl⟩⟩
    · rw [if_neg hphase]
      have hm0 : n ≠ 0 := by have := he.npos; omega
      rw [if_neg hm0]
      have hrand : s.randomPhase = false := by
        have : ¬ (s.randomPhase = true) := fun hr => hphase ⟨Nat.pos_of_ne_zero hm0, hr⟩
        simpa using this
      have hfit := not_random hrand
      split
      · -- one-shot strategies on the last candidate sample
        rename_i l hl
        have hos : strat.isOneShot = true := by
          by_cases h : strat.isOneShot = true
          · exact h
          · simp [h] at hl
        have hl' : s.last = some l := by simpa [hos] using hl
        have hlne := hi.lastNe l hl'
        by_cases htop : strat = .topk
        · rw [if_pos htop]
          have hidx : IdxIn l (((env.orders l).headD []).take n) :=
            fun i hi' => he.orders.topk htop l i (List.mem_of_mem_take hi')
          obtain ⟨X, hX⟩ := rows_total hidx
          unfold askTopk
          rw [hX]
          exact ⟨_, _, rfl, ⟨rfl, rfl, rfl, rfl, rfl, rfl⟩⟩
        · rw [if_neg htop]
          have hb : strat = .boltzmann := by
            cases strat <;> simp [Strategy.isOneShot] at hos htop ⊢
          obtain ⟨i0, draws, rest, ho, hi0, hdr, hlen⟩ := he.orders.boltz hb l hlne
          unfold askBoltzmann
          rw [ho]
          simp only [List.headD_cons]
          obtain ⟨idx', smp', hbl, hidx'⟩ := boltzLoop_total (on := s.filterOn) (n := n) (l := l)
            draws [i0] 0 s.sampled hdr (by intro j hj; simp at hj; subst hj; exact hi0)
            (by simp; omega)
          rw [hbl]
          simp only
          obtain ⟨X, hX⟩ := rows_total hidx'
          rw [hX]
          exact ⟨_, _, rfl, ⟨rfl, rfl, rfl, rfl, rfl, rfl⟩⟩
      · split
        · -- qLCB
          rename_i x0 hx0
          have hq : strat.isQ = true := by
            by_cases h : strat.isQ = true
            · exact h
            · simp [h] at hx0
          have hfne : filterDup s.filterOn (s.sampled ++ [x0]) env.cands ≠ [] := filterDup_ne_nil he.cands
          obtain ⟨hlen, hos⟩ := he.orders.q hq _ hfne
          obtain ⟨X, hX, hXlen⟩ := qLoop_total (f := filterDup s.filterOn (s.sampled ++ [x0]) env.cands)
            ((env.orders (filterDup s.filterOn (s.sampled ++ [x0]) env.cands)).take (n - 1)) [] []
            (fun o ho => hos o (List.mem_of_mem_take ho))
          unfold askQ
          simp only
          rw [hX]
          simp only
          have : X.length = n - 1 := by
            simp only [List.length_nil, List.length_take, Nat.zero_add] at hXlen
            omega
          rw [if_pos this]
          exact ⟨_, _, rfl, ⟨rfl, rfl, rfl, rfl, rfl, rfl⟩⟩
        · -- cache or constant liar
          have hcl : ∃ s' Z, askCL ops s n strat env = .ok (s', Z) ∧ SameCore s s' := by
            obtain ⟨c, hc, hic, _, _, _, hd, hni⟩ := copy_total hs hi he.copyFit
            obtain ⟨smp', X', hl⟩ := clLoop_total hs n env.steps c s.sampled [] hic
              ⟨by rw [hni]; exact hfit.1, by rw [hd]; exact hfit.2⟩ he.steps.1 he.steps.2
            unfold askCL
            rw [hc]
            simp only
            rw [hl]
            exact ⟨_, _, rfl, ⟨rfl, rfl, rfl, rfl, rfl, rfl⟩⟩
          split
          · split
            · exact ⟨_, _, rfl, SameCore.refl s⟩
            · exact hcl
          · exact hcl

/-- contract of one call of the ask/tell interface needed for totality -/
def OpTotal (P : α → Prop) (ops : Ops α τ) (strat : Strategy) : Op α τ → Prop
  | .ask n env => AskTotal P ops strat n env
  | .tell results e => FitTotal P ops e ∧ ∀ p ∈ results, P p.1

theorem cboAsk_total (hs : SpaceTotal P ops) {c : Cbo α} (hi : TInv c.opt) {n : Nat}
    {env : AskEnv α τ} (he : AskTotal P ops c.strat n env) :
    ∃ c' Z, cboAsk ops c n env = .ok (c', Z) ∧ TInv c'.opt ∧ c'.strat = c.strat := by
  unfold cboAsk
  simp only
  by_cases ha : c.asked = true
  · rw [if_pos ha]
    obtain ⟨o0, h0, hi0, _⟩ := updateNext_total hs hi he.refresh
    rw [h0]
    simp only
    obtain ⟨o, Z, hask, hsame⟩ := ask_total hs hi0 he
    rw [hask]
    exact ⟨_, _, rfl, hi0.of_same hsame, rfl⟩
  · rw [if_neg ha]
    simp only
    obtain ⟨o, Z, hask, hsame⟩ := ask_total hs hi he
    rw [hask]
    exact ⟨_, _, rfl, hi.of_same hsame, rfl⟩

theorem cboTold_mem {ignore : Bool} {results : List (α × Res)} (h : ∀ p ∈ results, P p.1) :
    ∀ p ∈ cboTold ignore results, P p.1 := by
  intro p hp
  unfold cboTold at hp
  obtain ⟨q, hq, hqp⟩ := List.mem_filterMap.1 hp
  have := h q hq
  cases hres : q.2 <;> simp only [hres] at hqp
  · cases hqp; exact this
  · split at hqp
    · cases hqp
    · cases hqp; exact this
  · cases hqp

theorem cboTell_total (hs : SpaceTotal P ops) {c : Cbo α} (hi : TInv c.opt)
    {results : List (α × Res)} {e : Fit α τ} (he : FitTotal P ops e) (hr : ∀ p ∈ results, P p.1) :
    ∃ c', cboTell ops c results e = .ok c' ∧ TInv c'.opt ∧ c'.strat = c.strat := by
  unfold cboTell
  simp only
  by_cases ht : (cboTold c.ignoreFailures results).isEmpty = true
  · rw [if_pos ht]
    obtain ⟨o, h0, hi0, _⟩ := updateNext_total hs hi he
    rw [h0]
    exact ⟨_, rfl, hi0, rfl⟩
  · rw [if_neg ht]
    obtain ⟨o, h0, hi0, _⟩ := tellCore_total hs hi (cboTold c.ignoreFailures results) he
    have hacc : (cboTold c.ignoreFailures results).all (fun p => ops.accept p.1) = true := by
      rw [List.all_eq_true]
      intro p hp
      exact hs.acc _ (cboTold_mem hr p hp)
    unfold tell
    rw [if_pos hacc, h0]
    exact ⟨_, rfl, hi0, rfl⟩

/-- **no call of the ask/tell interface ends in an error output** -/
theorem runOps_total (hs : SpaceTotal P ops) : ∀ (l : List (Op α τ)) (c : Cbo α), TInv c.opt →
    (∀ o ∈ l, OpTotal P ops c.strat o) → ∃ c' Z, runOps ops c l = .ok (c', Z)
  | [], c, _, _ => ⟨c, [], rfl⟩
  | .ask n env :: rest, c, hi, hl => by
    obtain ⟨c1, X, h1, hi1, hst⟩ := cboAsk_total hs hi (hl _ List.mem_cons_self)
    obtain ⟨c2, Y, h2⟩ := runOps_total hs rest c1 hi1
      (fun o h' => hst ▸ hl o (List.mem_cons_of_mem _ h'))
    exact ⟨c2, X ++ Y, by simp [runOps, h1, h2]⟩
  | .tell results e :: rest, c, hi, hl => by
    have h0 := hl _ List.mem_cons_self
    obtain ⟨c1, h1, hi1, hst⟩ := cboTell_total hs hi h0.1 h0.2
    obtain ⟨c2, Y, h2⟩ := runOps_total hs rest c1 hi1
      (fun o h' => hst ▸ hl o (List.mem_cons_of_mem _ h'))
    exact ⟨c2, Y, by simp [runOps, h1, h2]⟩

theorem start_TInv (filterOn dummy : Bool) (nInit : Int) (init : List α) (h : 1 ≤ nInit) :
    TInv (Opt.init filterOn dummy nInit init) := by
  refine ⟨h, by simp [Opt.init, nonFail], ?_, by intro l hl; cases hl⟩
  simp only [Opt.init, Option.isSome_none, Bool.false_eq_true, iff_false, not_and]
  intro h'; omega

end DH.Ask
