import Model.AggregateObject

/-! C19: an aggregator object under arbitrary schedules of overlapping `aggregate()` calls
(`Model/AggregateObject.lean`).  Core Lean only. -/

namespace DH.Aggregate

/-- what is true of every call in progress on the **fixed** code, whatever else runs on the object:
after pc 0 the local `xp` is `np`, from pc 2 on it is the call's own namespace, and every use so
far has consulted the call's own namespace -/
structure Frame.Ok {α : Type} (f : Frame α) : Prop where
  pc_le : f.pc ≤ 2 + f.call.reads
  xp_np : f.pc = 1 → f.xp = .np
  xp_own : 2 ≤ f.pc → f.xp = f.call.own
  seen_own : f.seen = List.replicate (f.pc - 2) f.call.own

theorem Frame.start_ok {α : Type} (c : Call α) : (Frame.start c).Ok :=
  ⟨by simp [Frame.start], by simp [Frame.start], by simp [Frame.start], by simp [Frame.start]⟩

theorem stepLocal_call {α : Type} (f : Frame α) : (stepLocal f).call = f.call := by
  unfold stepLocal
  split
  · rfl
  · split
    · rfl
    · split <;> rfl

theorem stepLocal_ok {α : Type} {f : Frame α} (h : f.Ok) : (stepLocal f).Ok := by
  unfold stepLocal
  split
  · next h0 =>
    have hs := h.seen_own
    rw [h0] at hs
    exact ⟨by simp; omega, by simp, by simp, by simpa using hs⟩
  · split
    · next h0 h1 =>
      have hs := h.seen_own
      rw [h1] at hs
      refine ⟨by simp, by simp, ?_, by simpa using hs⟩
      intro _
      simp only [Call.own]
      cases hm : f.call.masked
      · simpa using h.xp_np h1
      · simp
    · split
      · next h0 h1 h2 =>
        have hpc : 2 ≤ f.pc := by omega
        refine ⟨by simp; omega, by simp; omega, fun _ => by simpa using h.xp_own hpc, ?_⟩
        simp only
        rw [h.seen_own, h.xp_own hpc]
        have : f.pc + 1 - 2 = (f.pc - 2) + 1 := by omega
        rw [this, List.replicate_succ']
      · exact h

/-- membership in the frames after one `step id` -/
theorem mem_updFrame {α : Type} {id : Nat} {h : Frame α → Frame α} {fs : Frames α} {p : Nat × Frame α}
    (hp : p ∈ updFrame id h fs) : p ∈ fs ∨ ∃ f, (p.1, f) ∈ fs ∧ p.2 = h f := by
  induction fs with
  | nil => simp [updFrame] at hp
  | cons q fs ih =>
    obtain ⟨i, f⟩ := q
    unfold updFrame at hp
    split at hp
    · rcases List.mem_cons.1 hp with rfl | hp
      · exact .inr ⟨f, by simp, rfl⟩
      · exact .inl (List.mem_cons_of_mem _ hp)
    · rcases List.mem_cons.1 hp with rfl | hp
      · exact .inl (by simp)
      · rcases ih hp with h1 | ⟨g, hg, e⟩
        · exact .inl (List.mem_cons_of_mem _ h1)
        · exact .inr ⟨g, List.mem_cons_of_mem _ hg, e⟩

/-- invariant of the fixed code under any schedule: every frame is `Ok` and belongs to a call that
was entered (in the frames at the start, or by an `enter` event of the schedule) -/
theorem runLocal_inv {α : Type} (evs : List (Ev α)) (fs : Frames α)
    (P : Nat → Call α → Prop) (hP : ∀ p ∈ fs, p.2.Ok ∧ P p.1 p.2.call)
    (hE : ∀ id c, Ev.enter id c ∈ evs → P id c) :
    ∀ p ∈ runLocal fs evs, p.2.Ok ∧ P p.1 p.2.call := by
  induction evs generalizing fs with
  | nil => simpa [runLocal] using hP
  | cons e es ih =>
    cases e with
    | enter id c =>
      simp only [runLocal]
      refine ih _ ?_ (fun i c' h => hE i c' (List.mem_cons_of_mem _ h))
      intro p hp
      rcases List.mem_cons.1 hp with rfl | hp
      · exact ⟨Frame.start_ok c, hE id c (by simp)⟩
      · exact hP p hp
    | step id =>
      simp only [runLocal]
      refine ih _ ?_ (fun i c' h => hE i c' (List.mem_cons_of_mem _ h))
      intro p hp
      rcases mem_updFrame hp with h1 | ⟨f, hf, e⟩
      · exact hP p h1
      · have := hP _ hf
        rw [e]
        exact ⟨stepLocal_ok this.1, by simpa [stepLocal_call] using this.2⟩

theorem Frame.Ok.seen_of_done {α : Type} {f : Frame α} (h : f.Ok) (hd : f.done = true) :
    f.seen = List.replicate f.call.reads f.call.own := by
  have h1 := h.pc_le
  have h2 : 2 + f.call.reads ≤ f.pc := by simpa [Frame.done] using hd
  have : f.pc - 2 = f.call.reads := by omega
  rw [h.seen_own, this]

/-- `n` statements of one call -/
def stepsLocal {α : Type} : Nat → Frame α → Frame α
  | 0, f => f
  | n + 1, f => stepsLocal n (stepLocal f)

theorem runLocal_alone {α : Type} (id : Nat) (f : Frame α) (n : Nat) :
    runLocal [(id, f)] (List.replicate n (.step id)) = [(id, stepsLocal n f)] := by
  induction n generalizing f with
  | zero => simp [runLocal, stepsLocal]
  | succ n ih => simp [List.replicate_succ, runLocal, updFrame, stepsLocal, ih]

theorem stepsLocal_pc {α : Type} (n : Nat) (f : Frame α) (h : f.pc + n ≤ 2 + f.call.reads) :
    (stepsLocal n f).pc = f.pc + n ∧ (stepsLocal n f).call = f.call := by
  induction n generalizing f with
  | zero => simp [stepsLocal]
  | succ n ih =>
    have hc := stepLocal_call f
    have hpc : (stepLocal f).pc = f.pc + 1 := by
      unfold stepLocal
      split
      · next h0 => simp [h0]
      · split
        · next h0 h1 => simp [h1]
        · split
          · rfl
          · omega
    have := ih (stepLocal f) (by rw [hpc, hc]; omega)
    simp only [stepsLocal]
    rw [this.1, this.2, hpc, hc]
    exact ⟨by omega, rfl⟩

end DH.Aggregate
