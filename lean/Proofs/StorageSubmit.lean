import Proofs.StorageAliasSim

/-! C13, object level: the parameters a running job works on are not the object the storage was given at submission. -/

namespace DH.Storage

theorem submitObjs_facts (n : Nat) (cfg : RVal) :
    let p := (submitObjs n cfg).1
    let inn := (submitObjs n cfg).2.1
    let nx := (submitObjs n cfg).2.2
    p.addrs.Nodup ∧ inn.addrs.Nodup ∧
    (∀ a ∈ p.addrs, n ≤ a ∧ a < nx ∧ a ∉ inn.addrs) ∧
    (∀ a ∈ inn.addrs, n ≤ a ∧ a < nx) ∧ n ≤ nx ∧
    p.erase = cfg.erase ∧
    inn.erase = .dict [("args", .tuple [cfg.erase]), ("kwargs", .none)] := by
  simp only [submitObjs]
  have m1 := RVal.copy_mono cfg n
  have m2 := RVal.copy_mono cfg (cfg.copy n).2
  have a1 := RVal.copy_addrs cfg n
  have a2 := RVal.copy_addrs cfg (cfg.copy n).2
  have n1 := RVal.copy_nodup cfg n
  have n2 := RVal.copy_nodup cfg (cfg.copy n).2
  have e1 := RVal.copy_erase cfg n
  have e2 := RVal.copy_erase cfg (cfg.copy n).2
  refine ⟨n1, ?_, ?_, ?_, by omega, e1, ?_⟩
  · simp only [RVal.addrs, RVal.addrsKV, RVal.addrsL, List.append_nil, List.nodup_cons]
    refine ⟨fun h => ?_, n2⟩
    have := a2 _ h; omega
  · intro a ha
    have h1 := a1 a ha
    refine ⟨h1.1, by omega, fun h => ?_⟩
    simp only [RVal.addrs, RVal.addrsKV, RVal.addrsL, List.append_nil, List.mem_cons] at h
    rcases h with h | h
    · omega
    · have := a2 a h; omega
  · intro a ha
    simp only [RVal.addrs, RVal.addrsKV, RVal.addrsL, List.append_nil, List.mem_cons] at ha
    rcases ha with h | h
    · omega
    · have := a2 a h; omega
  · simp [RVal.erase, RVal.eraseKV, RVal.eraseL, Atom.toVal, e2]

theorem Inv_withParams {W : World} (hW : Inv W) (cfg : RVal) : Inv (W.withParams cfg) := by
  obtain ⟨_, _, hp, _, hle, _, _⟩ := submitObjs_facts W.next cfg
  refine ⟨fun a ha => ?_, fun a ha => ?_, hW.nodup⟩
  · have := hW.bound a ha
    simp only [World.withParams]; omega
  · simp only [World.withParams, RVal.addrsL, List.mem_append] at ha ⊢
    rcases ha with ha | ha
    · exact (hp a ha).2.1
    · have := hW.hbound a ha; omega

/-- the store made at submission keeps the discipline -/
theorem submit_store_ok {W : World} (hW : Inv W) (jid : String) (cfg : RVal) :
    (AOp.storeJob jid "in" (submitObjs W.next cfg).2.1).ok (W.withParams cfg) := by
  obtain ⟨_, hn, _, hi, _, _, _⟩ := submitObjs_facts W.next cfg
  refine ⟨hn, fun a ha hj => ?_⟩
  have h1 := (hi a ha).1
  have h2 := hW.bound a (by simpa [World.withParams] using hj)
  omega

/-- after submission every object of the job's parameters is outside the job table (and allocated) -/
theorem submit_params_outside {W : World} (hW : Inv W) (jid : String) (cfg : RVal) :
    ∀ a ∈ (submitObjs W.next cfg).1.addrs,
      a ∉ RVal.addrsKV (W.submit jid cfg).1.jobs ∧ a < (W.submit jid cfg).1.next := by
  intro a ha
  obtain ⟨_, _, hp, _, _, _, _⟩ := submitObjs_facts W.next cfg
  obtain ⟨h1, h2, h3⟩ := hp a ha
  have hout : a ∉ RVal.addrsKV (W.withParams cfg).jobs := fun hj => by
    have := hW.bound a (by simpa [World.withParams] using hj); omega
  have hb : a < (W.withParams cfg).next := by simp only [World.withParams]; exact h2
  exact private_step (W.withParams cfg) (.storeJob jid "in" (submitObjs W.next cfg).2.1) a hout (by simpa [AOp.passes] using h3) hb

end DH.Storage
