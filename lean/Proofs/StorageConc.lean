import Proofs.StorageFrame

/-! C13: any number of clients whose method calls are atomic behave like one sequential history. -/

namespace DH.Storage

/-- what client `i` received in a tagged sequential run -/
def outsFor (i : Nat) : List (Nat × Op) → List Out → List Out
  | (k, _) :: t, o :: os => if k = i then o :: outsFor i t os else outsFor i t os
  | _, _ => []

/-- the calls of client `i` in a tagged history, in order -/
def callsOf (i : Nat) (t : List (Nat × Op)) : List Op := (t.filter (fun p => p.1 = i)).map (·.2)

theorem getD_set_self {α : Type} {l : List α} {i : Nat} (h : i < l.length) (a d : α) : (l.set i a).getD i d = a := by
  simp [List.getD, List.getElem?_set_self h]

theorem getD_set_ne {α : Type} {l : List α} {i k : Nat} (h : i ≠ k) (a d : α) : (l.set i a).getD k d = l.getD k d := by
  simp [List.getD, List.getElem?_set_ne h]

theorem getD_of_getElem? {α : Type} {l : List α} {i : Nat} {a : α} (h : l[i]? = some a) (d : α) : l.getD i d = a := by
  simp [List.getD, h]

theorem conc_run : ∀ (sched : List Nat) (c : Conc), c.outs.length = c.progs.length →
    (c.run sched).store = (run c.store ((linearize c.progs sched).map (·.2))).1 ∧
    (∀ i, (c.run sched).outs.getD i [] =
      c.outs.getD i [] ++ outsFor i (linearize c.progs sched) (run c.store ((linearize c.progs sched).map (·.2))).2) ∧
    (∀ i, callsOf i (linearize c.progs sched) ++ (c.run sched).progs.getD i [] = c.progs.getD i []) ∧
    (c.run sched).outs.length = (c.run sched).progs.length := by
  intro sched
  induction sched with
  | nil =>
    intro c hlen
    simp [Conc.run, linearize, run, outsFor, callsOf, hlen]
  | cons i sched ih =>
    intro c hlen
    rcases hp : c.progs[i]? with _ | prog
    · have h1 : c.step i = c := by simp [Conc.step, hp]
      have h2 : linearize c.progs (i :: sched) = linearize c.progs sched := by simp [linearize, hp]
      simp only [Conc.run, h1, h2]
      exact ih c hlen
    · cases prog with
      | nil =>
        have h1 : c.step i = c := by simp [Conc.step, hp]
        have h2 : linearize c.progs (i :: sched) = linearize c.progs sched := by simp [linearize, hp]
        simp only [Conc.run, h1, h2]
        exact ih c hlen
      | cons op rest =>
        have hi : i < c.progs.length := getElem?_lt hp
        have hi' : i < c.outs.length := hlen ▸ hi
        have h2 : linearize c.progs (i :: sched) = (i, op) :: linearize (c.progs.set i rest) sched := by
          simp [linearize, hp]
        have h1 : c.step i = { store := (step c.store op).1, progs := c.progs.set i rest,
                                outs := c.outs.set i (c.outs.getD i [] ++ [(step c.store op).2]) } := by
          simp [Conc.step, hp]
        obtain ⟨a1, a2, a3, a4⟩ := ih (c.step i) (by rw [h1]; simp [hlen])
        simp only [Conc.run, h2, List.map_cons, run_cons]
        rw [h1] at a1 a2 a3 a4
        simp only at a1 a2 a3 a4
        refine ⟨by rw [h1]; exact a1, ?_, ?_, by rw [h1]; exact a4⟩
        · intro k
          rw [h1, a2 k]
          by_cases hk : i = k
          · subst hk
            rw [getD_set_self hi']
            simp [outsFor, List.append_assoc]
          · rw [getD_set_ne hk]
            simp [outsFor, hk]
        · intro k
          rw [h1]
          have := a3 k
          by_cases hk : i = k
          · subst hk
            rw [getD_set_self hi] at this
            simp only [callsOf, List.filter_cons, if_true, List.map_cons, List.cons_append, decide_true]
            simp only [callsOf] at this
            rw [this, getD_of_getElem? hp]
          · rw [getD_set_ne hk] at this
            simp only [callsOf, List.filter_cons, hk, decide_false, Bool.false_eq_true, if_false]
            simpa [callsOf] using this

where
  getElem?_lt {α : Type} {l : List α} {i : Nat} {a : α} (h : l[i]? = some a) : i < l.length := by
    rcases List.getElem?_eq_some_iff.1 h with ⟨hi, _⟩
    exact hi

/-- every identifier a client received occurs in the sequential run's outputs -/
theorem idsOf_outsFor_sub (i : Nat) : ∀ (t : List (Nat × Op)) (os : List Out), ∀ x ∈ idsOf (outsFor i t os), x ∈ idsOf os
  | [], _, x, h => by simp [outsFor, idsOf] at h
  | _ :: _, [], x, h => by simp [outsFor, idsOf] at h
  | (k, op) :: t, o :: os, x, h => by
    have ih := idsOf_outsFor_sub i t os x
    by_cases hk : k = i
    · simp only [outsFor, hk, if_true] at h
      cases o with
      | id y =>
        simp only [idsOf, List.mem_cons] at h ⊢
        rcases h with e | h
        · exact Or.inl e
        · exact Or.inr (ih h)
      | none => simp only [idsOf] at h ⊢; exact ih h
      | ids l => simp only [idsOf] at h ⊢; exact ih h
      | val v => simp only [idsOf] at h ⊢; exact ih h
      | vals l => simp only [idsOf] at h ⊢; exact ih h
      | error e => simp only [idsOf] at h ⊢; exact ih h
      | outOfModel => simp only [idsOf] at h ⊢; exact ih h
    · simp only [outsFor, hk, if_false] at h
      have := ih h
      cases o <;> simp only [idsOf, List.mem_cons] <;> first | exact Or.inr this | exact this

end DH.Storage
