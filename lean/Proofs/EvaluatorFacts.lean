import Proofs.EvaluatorPay
import Proofs.EvaluatorSim
import Proofs.EvaluatorTrace

/-!
The statements of the single-evaluator property theorems `C01_no_spurious_error`, `C01_payload`,
`C01_close_record`, `C01_batch_size`, `C01_counts` as lemmas (`fact_*`), so that the proofs about several
evaluators (`Proofs/EvaluatorMulti*.lean`) can use them; `Props/C01.lean` restates them.  Core Lean only.
-/

namespace DH.Evaluator

variable {C O : Type}

theorem via_unique {l : List (Nat × Via)} (h : (l.map (·.1)).Nodup) {i : Nat} {a b : Via}
    (ha : (i, a) ∈ l) (hb : (i, b) ∈ l) : a = b := by
  have := eq_of_nodup_map (·.1) h ha hb rfl
  exact (Prod.mk.injEq _ _ _ _ ▸ this).2


theorem fact_no_spurious_error (p : Params C O) {s : Ev C O} (h : Reach p s) (op : Op C)
    (hok : opOk s op = true) (e : Err) (he : (step p s op).2 = .error e) :
    ∃ k st ws, op = .gather false k st ws ∧ k ≠ 0 ∧ s.running = [] ∧
      ((e = .noLoop ∧ s.loopOpen = false) ∨ (e = .noJobs ∧ s.loopOpen = true)) := by
  obtain ⟨hi, _, _⟩ := reach_good h
  cases op with
  | submit cfgs => simp [step] at he
  | dump fl =>
    simp only [step] at he
    rcases dump_shape p s fl with hd | ⟨_, hd⟩ <;> rw [hd] at he <;> simp at he
  | close fin =>
    simp only [step] at he
    rcases close_spec (p := p) hi fin hok with ⟨hc, _⟩ | ⟨hc, _⟩ | ⟨s1, js, _, _, _, _, hc⟩ <;>
      rw [hc] at he <;> simp at he
  | gather all k st ws =>
    simp only [step] at he
    rcases gather_spec (p := p) hi all k st ws hok with ⟨hg, _⟩ | ⟨hg, h0, hl⟩ | ⟨hg, h0, hr⟩ |
      ⟨done, s', js, hg, _⟩ <;> rw [hg] at he
    · simp at he
    · have hr : s.running = [] := by
        by_cases hr : s.running = []
        · exact hr
        · rw [hi.loop hr] at hl; simp at hl
      cases all with
      | true => simp [hr] at h0
      | false =>
        simp only [Bool.false_eq_true, if_false] at h0
        simp only [Out.error.injEq] at he
        exact ⟨k, st, ws, rfl, h0, hr, Or.inl ⟨he.symm, hl⟩⟩
    · cases all with
      | true => simp [hr] at h0
      | false =>
        simp only [Bool.false_eq_true, if_false] at h0
        simp only [Out.error.injEq] at he
        have hl : s.loopOpen = true := by
          by_cases hl : s.loopOpen = true
          · exact hl
          · exfalso
            have hl' : s.loopOpen = false := by simpa using hl
            simp [gather, h0, hl'] at hg
        exact ⟨k, st, ws, rfl, h0, hr, Or.inr ⟨he.symm, hl⟩⟩
    · simp at he


theorem fact_payload (p : Params C O) {s : Ev C O} {cs : List C} (h : Trace p s cs) (all : Bool)
    (k : Nat) (st : List Nat) (ws : List (List Nat)) (hok : opOk s (.gather all k st ws) = true)
    (js : List (JobRec C O)) (hjs : (step p s (.gather all k st ws)).2 = .jobs js) :
    (js.map (·.id)).Nodup ∧
    ∀ j ∈ js, j.id ∈ runningIds s ∧ (j.id, Via.gather) ∈ (step p s (.gather all k st ws)).1.delivered ∧
      j.status = .done ∧ j.out = some (p.f j.cfg) ∧ cs[j.id]? = some j.cfg := by
  obtain ⟨hi, _, _⟩ := reach_good h.reach
  have hnext : Trace p (step p s (.gather all k st ws)).1 (cs ++ submittedBy (.gather all k st ws)) :=
    .step _ h hok
  simp only [submittedBy, List.append_nil] at hnext
  simp only [step] at hjs hnext ⊢
  rcases gather_spec (p := p) hi all k st ws hok with ⟨hg, _⟩ | ⟨hg, _⟩ | ⟨hg, _⟩ |
    ⟨done, s', js', hg, _, hnd, _, _, _, hsubm, _, many, _⟩ <;> rw [hg] at hjs hnext ⊢
  · simp only [Out.jobs.injEq] at hjs; subst hjs; simp
  · simp at hjs
  · simp at hjs
  · simp only [Out.jobs.injEq] at hjs; subst hjs
    refine ⟨many.ids ▸ hnd, fun j hj => ?_⟩
    have hjd : j.id ∈ done := many.ids ▸ List.mem_map_of_mem hj
    obtain ⟨hst', hout, hmem⟩ := many.res j hj
    refine ⟨?_, ?_, hst', hout, hnext.cfg_at hmem⟩
    · rw [show runningIds s = s.submitted from hi.runSub]; exact hsubm j.id hjd
    · rw [many.del]; simp [hjd]


theorem fact_close_record (p : Params C O) {s : Ev C O} {cs : List C} (h : Trace p s cs)
    (fin : List Nat) (hok : opOk s (.close fin) = true) :
    (step p s (.close fin)).2 = .unit ∧
    (step p s (.close fin)).1.running = [] ∧ (step p s (.close fin)).1.submitted = [] ∧
    (step p s (.close fin)).1.loopOpen = false ∧
    ∀ i ∈ runningIds s, (i, Via.close) ∈ (step p s (.close fin)).1.delivered ∧
      ∃ j ∈ (step p s (.close fin)).1.jobs, j.id = i ∧ cs[i]? = some j.cfg ∧
        (if i ∈ fin then j.status = .done ∧ j.out = some (p.f j.cfg)
         else j.status = .cancelled ∧ j.out = if p.hpo then some p.cancelOut else none) := by
  obtain ⟨hi, hp, _⟩ := reach_good h.reach
  have hnext : Trace p (step p s (.close fin)).1 (cs ++ submittedBy (.close fin)) := .step _ h hok
  simp only [submittedBy, List.append_nil] at hnext
  have hrun : runningIds s = s.submitted := hi.runSub
  simp only [step] at hnext ⊢
  rcases close_spec (p := p) hi fin hok with ⟨hc, hl⟩ | ⟨hc, _, hr⟩ | ⟨s1, js, _, _, _, many, hc⟩ <;>
    rw [hc] at hnext ⊢
  · have hr : s.running = [] := by
      by_cases hr : s.running = []
      · exact hr
      · rw [hi.loop hr] at hl; simp at hl
    have hs : s.submitted = [] := by rw [← hi.runSub, hr]; rfl
    refine ⟨rfl, hr, hs, hl, ?_⟩
    intro i hi'; rw [hrun, hs] at hi'; simp at hi'
  · have hs : s.submitted = [] := by rw [← hi.runSub, hr]; rfl
    refine ⟨rfl, hr, hs, rfl, ?_⟩
    intro i hi'; rw [hrun, hs] at hi'; simp at hi'
  · refine ⟨rfl, rfl, rfl, rfl, ?_⟩
    intro i hi'
    rw [hrun] at hi'
    have hp1 : Pay p s1 := Pay.manyStep hp many
    by_cases hif : i ∈ fin
    · simp only [hif, if_true]
      constructor
      · show (i, Via.close) ∈ s1.delivered ++ _
        rw [many.del]; simp [hif]
      · rw [← many.ids] at hif
        obtain ⟨j, hj, hji⟩ := List.mem_map.1 hif
        obtain ⟨hst, hout, hmem⟩ := many.res j hj
        have hmem' : j ∈ (cancelActive p s1).jobs := by
          simp only [cancelActive, List.mem_map]
          exact ⟨j, hmem, by simp [active, hst]⟩
        exact ⟨j, hmem', hji, hji ▸ hnext.cfg_at hmem', hst, hout⟩
    · simp only [hif, if_false]
      have hs1 : i ∈ s1.submitted := (many.sub i).2 ⟨hi', hif⟩
      have hact : i ∈ activeIds s1 := many.inv.activeIds_perm.mem_iff.2 hs1
      constructor
      · show (i, Via.close) ∈ s1.delivered ++ _
        exact List.mem_append_right _ (List.mem_map.2 ⟨i, hact, rfl⟩)
      · simp only [activeIds, List.mem_map, List.mem_filter] at hact
        obtain ⟨y, ⟨hy, hya⟩, hyi⟩ := hact
        have hmem' : ({ y with status := .cancelled, out := if p.hpo then some p.cancelOut else y.out } :
            JobRec C O) ∈ (cancelActive p s1).jobs := by
          simp only [cancelActive, List.mem_map]
          exact ⟨y, hy, by simp [hya]⟩
        refine ⟨_, hmem', hyi, ?_, rfl, ?_⟩
        · have := hnext.cfg_at hmem'
          simpa [hyi] using this
        · simp [hp1.actOut y hy hya]


theorem fact_batch_size (p : Params C O) {s : Ev C O} (h : Reach p s) (all : Bool) (k : Nat)
    (st : List Nat) (ws : List (List Nat)) (hok : opOk s (.gather all k st ws) = true)
    (js : List (JobRec C O)) (hjs : (step p s (.gather all k st ws)).2 = .jobs js) :
    min (if all then s.running.length else k) s.running.length ≤ js.length ∧
    (all = true → (step p s (.gather all k st ws)).1.running = []) := by
  obtain ⟨hi, _, _⟩ := reach_good h
  simp only [step] at hjs ⊢
  rcases gather_spec (p := p) hi all k st ws hok with ⟨hg, h0⟩ | ⟨hg, _⟩ | ⟨hg, _⟩ |
    ⟨done, s', js', hg, _, _, _, _, _, _, _, many, hlen, hall⟩ <;> rw [hg] at hjs ⊢
  · simp only [Out.jobs.injEq] at hjs; subst hjs
    refine ⟨by simp [h0], fun ha => ?_⟩
    subst ha
    simp only [if_true] at h0
    exact List.length_eq_zero_iff.1 h0
  · simp at hjs
  · simp at hjs
  · simp only [Out.jobs.injEq] at hjs; subst hjs
    have hl : js'.length = done.length := by rw [← many.ids]; simp
    refine ⟨hl ▸ hlen, fun ha => ?_⟩
    have hsub : s'.submitted = [] := by
      apply List.eq_nil_iff_forall_not_mem.2
      intro i hi'
      have := (many.sub i).1 hi'
      exact this.2 (hall ha i this.1)
    have := many.inv.runSub
    rw [hsub] at this
    exact List.map_eq_nil_iff.1 this


theorem fact_counts (p : Params C O) {s : Ev C O} {cs : List C} (h : Trace p s cs) :
    numSubmitted s = cs.length ∧ numGathered s = s.delivered.length ∧
    numSubmitted s = s.running.length + numGathered s := by
  obtain ⟨hi, _, hh⟩ := reach_good h.reach
  have h1 : s.jobs.length = cs.length := by rw [← h.cfgs]; simp
  have h2 : s.jobs.length = s.nextId := by
    have := congrArg List.length hi.ids; simpa using this
  have h3 : s.gathered.length = s.delivered.length := by rw [hh.gath]; simp
  have h4 : s.submitted.length + s.delivered.length = s.nextId := by
    have := hi.part.length_eq; simpa using this
  have h5 : s.running.length = s.submitted.length := by rw [← hi.runSub]; simp
  simp only [numSubmitted, numGathered]
  omega


end DH.Evaluator
