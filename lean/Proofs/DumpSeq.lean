import Model.DumpSeq
import Model.SearchReturn
import Proofs.Dump

/-!
Lemmas for the two C04 extensions:
* `Model/DumpSeq.lean` - the writer with the class tests on `job.objective` explicit,
* `Model/SearchReturn.lean` - what `search()` hands back.
-/

namespace DH.Dump

/-! ### container classes -/

theorem arityOfObjK_true (o : Val) : arityOfObjK true o = arityOfObj o := by
  cases o <;> simp [arityOfObjK, arityOfObj]

theorem onDoneObjectiveK_true (o : Val) : onDoneObjectiveK true o = onDoneObjective o := by
  cases o <;> simp [onDoneObjectiveK, onDoneObjective]

theorem objectiveCellsK_true (n : Option Nat) (o : Val) : objectiveCellsK true n o = objectiveCells n o := by
  simp [objectiveCellsK]

theorem inferNumObjectiveK_eq (T : ClassTests) (kindOf : Nat → SeqKind) (cur : Option Nat)
    (jobs : List JobRec) (h : ∀ j ∈ jobs, T.infer (kindOf j.id) = true) :
    inferNumObjectiveK T kindOf cur jobs = inferNumObjective cur jobs := by
  cases cur with
  | some n => rfl
  | none =>
    simp only [inferNumObjectiveK, inferNumObjective]
    cases hf : firstSuccess jobs with
    | none => rfl
    | some j =>
      have hj := h j (firstSuccess_mem hf).1
      simp [hj, arityOfObjK_true]

theorem resultOfK_eq (T : ClassTests) (kindOf : Nat → SeqKind) (n : Option Nat) (j : JobRec)
    (h : T.row (kindOf j.id) = true) : resultOfK T kindOf n j = resultOf n j := by
  simp [resultOfK, resultOf, h, objectiveCellsK_true]

theorem map_resultOfK_eq (T : ClassTests) (kindOf : Nat → SeqKind) (n : Option Nat) (P : List JobRec)
    (h : ∀ j ∈ P, T.row (kindOf j.id) = true) :
    P.map (resultOfK T kindOf n) = P.map (resultOf n) := by
  apply List.map_congr_left
  intro j hj
  exact resultOfK_eq T kindOf n j (h j hj)

/-- one call: with tests that accept the classes of the pending jobs the kinded writer is `dumpStep` -/
theorem dumpStepK_eq (T : ClassTests) (kindOf : Nat → SeqKind) (fl : Bool) (st : DumpState)
    (h : ∀ j ∈ st.pending, T.infer (kindOf j.id) = true ∧ T.row (kindOf j.id) = true) :
    dumpStepK T kindOf fl st = dumpStep fl st := by
  have h1 := inferNumObjectiveK_eq T kindOf st.numObjective st.pending (fun j hj => (h j hj).1)
  have h2 := fun n => map_resultOfK_eq T kindOf n st.pending (fun j hj => (h j hj).2)
  simp only [dumpStepK, dumpStep, dumpStepWith, h1, h2]
  rfl

/-- the jobs still pending after a call were pending before it -/
theorem dumpStep_pending_sub (fl : Bool) (st : DumpState) :
    (dumpStep fl st).1.pending = [] ∨ (dumpStep fl st).1.pending = st.pending := by
  simp only [dumpStep, dumpStepWith]
  split
  · right; rfl
  · split
    · right; rfl
    · left; rfl

theorem runOpsK_eq (T : ClassTests) (kindOf : Nat → SeqKind) :
    ∀ (ops : List (List JobRec × Bool)) (st : DumpState) (t : Table),
      (∀ j ∈ st.pending ++ allJobs ops, T.infer (kindOf j.id) = true ∧ T.row (kindOf j.id) = true) →
      runOpsK T kindOf st t ops = runOps st t ops
  | [], _, _, _ => rfl
  | (b, fl) :: rest, st, t, h => by
    have hstep : dumpStepK T kindOf fl { st with pending := st.pending ++ b } =
        dumpStep fl { st with pending := st.pending ++ b } := by
      apply dumpStepK_eq
      intro j hj
      apply h j
      simp only [allJobs_cons, List.mem_append] at hj ⊢
      rcases hj with hj | hj
      · exact Or.inl hj
      · exact Or.inr (Or.inl hj)
    show runOpsK T kindOf (dumpStepK T kindOf fl { st with pending := st.pending ++ b }).1
        (t.add (dumpStepK T kindOf fl { st with pending := st.pending ++ b }).2) rest = _
    rw [hstep, runOps_cons]
    apply runOpsK_eq T kindOf rest
    intro j hj
    apply h j
    simp only [allJobs_cons, List.mem_append] at hj ⊢
    rcases hj with hj | hj
    · rcases dumpStep_pending_sub fl { st with pending := st.pending ++ b } with hp | hp
      · rw [hp] at hj; cases hj
      · rw [hp] at hj
        simp only [List.mem_append] at hj
        rcases hj with hj | hj
        · exact Or.inl hj
        · exact Or.inr (Or.inl hj)
    · exact Or.inr (Or.inr hj)

/-! ### what `search()` hands back -/

/-- a call of an evaluator that has not written yet: it still has not (nothing appended, no header),
or it writes the header now -/
theorem dumpStep_unstarted (fl : Bool) (st : DumpState) (hs : st.started = false) :
    ((dumpStep fl st).1.started = false ∧ (dumpStep fl st).2 = ⟨none, []⟩) ∨
    ((dumpStep fl st).1.started = true ∧ ∃ h, (dumpStep fl st).2.header = some h) := by
  simp only [dumpStep, dumpStepWith, hs]
  split
  · left; exact ⟨rfl, rfl⟩
  · split
    · left; exact ⟨rfl, rfl⟩
    · right; exact ⟨rfl, _, rfl⟩

/-- a call of an evaluator that has written: no header any more -/
theorem dumpStep_started_keeps (fl : Bool) (st : DumpState) (hs : st.started = true) :
    (dumpStep fl st).1.started = true ∧ (dumpStep fl st).2.header = none := by
  simp only [dumpStep, dumpStepWith, hs]
  split
  · exact ⟨rfl, rfl⟩
  · split
    · exact ⟨rfl, rfl⟩
    · exact ⟨rfl, rfl⟩

theorem Table.add_header (t t' : Table) (o : DumpOut) (h : List Col) (ho : o.header = some h) :
    t.add o = t'.add o := by
  simp [Table.add, ho]

/-- the evaluator's state does not depend on the file -/
theorem runOps_state_indep : ∀ (ops : List (List JobRec × Bool)) (st : DumpState) (t t' : Table),
    (runOps st t ops).1 = (runOps st t' ops).1
  | [], _, _, _ => rfl
  | (b, fl) :: rest, st, t, t' => by
    rw [runOps_cons, runOps_cons]
    exact runOps_state_indep rest _ _ _

/-- once this evaluator has written, the file holds nothing of what was there before -/
theorem runOps_table_indep : ∀ (ops : List (List JobRec × Bool)) (st : DumpState) (t t' : Table),
    st.started = false → (runOps st t ops).1.started = true →
    (runOps st t ops).2 = (runOps st t' ops).2
  | [], st, _, _, hs, h => by
    simp only [runOps, runOpsWith] at h
    rw [hs] at h; cases h
  | (b, fl) :: rest, st, t, t', hs, h => by
    rw [runOps_cons] at h ⊢
    rw [runOps_cons]
    rcases dumpStep_unstarted fl { st with pending := st.pending ++ b } hs with ⟨h1, h2⟩ | ⟨_, hh, h2⟩
    · rw [h2, Table.add_nothing, Table.add_nothing]
      rw [h2, Table.add_nothing] at h
      exact runOps_table_indep rest _ t t' h1 h
    · rw [Table.add_header t t' _ hh h2]

/-- a search that finishes no evaluation leaves evaluator and file as they were -/
theorem runOps_idle : ∀ (ops : List (List JobRec × Bool)) (st : DumpState) (t : Table),
    st.pending = [] → allJobs ops = [] → runOps st t ops = (st, t)
  | [], _, _, _, _ => rfl
  | (b, fl) :: rest, st, t, hp, hj => by
    rw [allJobs_cons] at hj
    have hb : b = [] := (List.append_eq_nil_iff.mp hj).1
    have hr : allJobs rest = [] := (List.append_eq_nil_iff.mp hj).2
    subst hb
    have hst : ({ st with pending := st.pending ++ [] } : DumpState) = st := by
      obtain ⟨a, c, n, p⟩ := st; simp
    rw [runOps_cons, hst, dumpStep_nil fl st hp, Table.add_nothing]
    exact runOps_idle rest st t hp hr

/-- "a results file is there" and "this evaluator has written" stay equivalent along a run -/
theorem runOps_file_iff_started : ∀ (ops : List (List JobRec × Bool)) (st : DumpState) (t : Table),
    t.header.isSome = st.started →
    (runOps st t ops).2.header.isSome = (runOps st t ops).1.started
  | [], _, _, h => h
  | (b, fl) :: rest, st, t, h => by
    rw [runOps_cons]
    apply runOps_file_iff_started rest
    rcases Bool.eq_false_or_eq_true st.started with hs | hs
    · obtain ⟨h1, h2⟩ := dumpStep_started_keeps fl { st with pending := st.pending ++ b } hs
      rw [h1]
      rw [hs] at h
      simp only [Table.add, h2]
      exact h
    · rcases dumpStep_unstarted fl { st with pending := st.pending ++ b } hs with ⟨h1, h2⟩ | ⟨h1, hh, h2⟩
      · rw [h1, h2, Table.add_nothing, h, hs]
      · rw [h1]
        simp [Table.add, h2]

end DH.Dump
