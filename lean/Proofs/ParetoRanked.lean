import Proofs.Pareto

/-! Ranked peeling (`non_dominated_set_ranked`): the loop refines the `fronts` specification. -/

namespace DH.Pareto

/-- contract of `argsort` on the remaining rows: it neither loses nor invents a row
(every permutation qualifies) -/
def OrdOK (ord : List Row → List Row) : Prop := ∀ l r, r ∈ ord l ↔ r ∈ l

section generic
variable {P : Type} (wd : P → P → Bool)

/-- a swept (selected) row is not strictly dominated by any input row -/
theorem sweep_no_dominated (h : Pre wd) (l : List P) (r : P) (hr : r ∈ sweep wd [] l)
    (q : P) (hq : q ∈ l) (hqr : wd q r = true) : wd r q = true := by
  obtain ⟨hA, hC, _⟩ := sweep_nil_spec wd h l
  obtain ⟨s, hs, hsq⟩ := hC q hq
  have hsr : wd s r = true := h.trans _ _ _ hsq hqr
  by_cases hEq : s = r
  · subst hEq; exact hsq
  · have := (pairwise_mem_ne (fun _ _ h => ⟨h.2, h.1⟩) hA hs hr hEq).1
    rw [this] at hsr; exact absurd hsr (by simp)

end generic

variable {ord : List Row → List Row}

theorem ord_nil (hord : OrdOK ord) : ord [] = [] := by
  cases h : ord [] with
  | nil => rfl
  | cons a t =>
    have : a ∈ ord [] := by rw [h]; simp
    exact absurd ((hord [] a).1 this) (by simp)

theorem ndsRows_nil (hord : OrdOK ord) : ndsRows ord [] = [] := by
  simp [ndsRows, ord_nil hord, sweep]

/-- members of one front: exactly the rows of `rem` whose index was swept -/
theorem mem_ndsRows (hord : OrdOK ord) (rem : List Row) (i : Nat) :
    i ∈ ndsRows ord rem → ∃ v, (i, v) ∈ rem ∧ (i, v) ∈ sweep wdRow [] (ord rem) := by
  intro hi
  obtain ⟨r, hr, rfl⟩ := List.mem_map.1 hi
  have := (sweep_nil_spec wdRow wdRow_pre (ord rem)).2.2 r hr
  exact ⟨r.2, (hord rem r).1 this, hr⟩

/-- each round selects at least one of the remaining rows -/
theorem front_nonempty (hord : OrdOK ord) (rem : List Row) (hne : rem ≠ []) :
    ∃ r ∈ rem, (ndsRows ord rem).contains r.1 = true := by
  have hne' : ord rem ≠ [] := by
    obtain ⟨x, hx⟩ := List.exists_mem_of_ne_nil rem hne
    exact List.ne_nil_of_mem ((hord rem x).2 hx)
  obtain ⟨r, hr⟩ := List.exists_mem_of_ne_nil _ (sweep_ne_nil wdRow wdRow_pre (ord rem) hne')
  have hmem := (sweep_nil_spec wdRow wdRow_pre (ord rem)).2.2 r hr
  refine ⟨r, (hord rem r).1 hmem, ?_⟩
  simp only [List.contains_iff_mem, ndsRows]
  exact List.mem_map.2 ⟨r, hr, rfl⟩

theorem rest_shorter (hord : OrdOK ord) (rem : List Row) (hne : rem ≠ []) :
    (rem.filter (fun r => !(ndsRows ord rem).contains r.1)).length < rem.length := by
  obtain ⟨r, hr, hc⟩ := front_nonempty hord rem hne
  exact List.length_filter_lt_length_iff_exists.2 ⟨r, hr, by simpa using hc⟩

theorem fronts_nil (fuel : Nat) : fronts ord fuel [] = [] := by
  cases fuel <;> simp [fronts]

theorem peel_nil (req fuel : Nat) (chosen : List Nat) (hord : OrdOK ord) :
    peel ord req fuel chosen [] = chosen := by
  induction fuel with
  | zero => simp [peel]
  | succ n ih =>
    simp only [peel, ndsRows_nil hord]
    split
    · simp only [List.filter_nil, List.map_nil, List.append_nil]
      split
      · omega
      · exact ih
    · rfl

/-- **refinement**: the loop returns the first `req` indices of the concatenated fronts -/
theorem peel_eq_fronts (hord : OrdOK ord) (req : Nat) :
    ∀ (fuel : Nat) (chosen : List Nat) (rem : List Row),
      chosen.length ≤ req → rem.length ≤ fuel →
      peel ord req fuel chosen rem = (chosen ++ (fronts ord fuel rem).flatten).take req := by
  intro fuel
  induction fuel with
  | zero =>
    intro chosen rem hc hr
    have : rem = [] := List.eq_nil_of_length_eq_zero (by omega)
    subst this
    simp [peel, fronts, List.take_of_length_le hc]
  | succ n ih =>
    intro chosen rem hc hr
    by_cases hne : rem = []
    · subst hne
      rw [peel_nil req (n + 1) chosen hord, fronts_nil]
      simp [List.take_of_length_le hc]
    · have hfr : fronts ord (n + 1) rem =
          (rem.filter (fun r => (ndsRows ord rem).contains r.1)).map (·.1) ::
            fronts ord n (rem.filter (fun r => !(ndsRows ord rem).contains r.1)) := by
        simp [fronts, hne]
      rw [hfr, List.flatten_cons, ← List.append_assoc]
      unfold peel
      by_cases hlt : chosen.length < req
      · simp only [hlt, if_true]
        split
        · rename_i hgt
          symm
          apply List.take_append_of_le_length
          omega
        · rename_i hle
          apply ih
          · omega
          · have := rest_shorter hord rem hne; omega
      · simp only [hlt, if_false]
        have : chosen.length = req := by omega
        rw [List.append_assoc, List.take_append_of_le_length (by omega), List.take_of_length_le (by omega)]

/-- the concatenated fronts list every remaining row exactly once -/
theorem fronts_perm (hord : OrdOK ord) :
    ∀ (fuel : Nat) (rem : List Row), rem.length ≤ fuel →
      (fronts ord fuel rem).flatten.Perm (rem.map (·.1)) := by
  intro fuel
  induction fuel with
  | zero =>
    intro rem hr
    have : rem = [] := List.eq_nil_of_length_eq_zero (by omega)
    subst this; simp [fronts]
  | succ n ih =>
    intro rem hr
    by_cases hne : rem = []
    · subst hne; simp [fronts]
    · have hfr : fronts ord (n + 1) rem =
          (rem.filter (fun r => (ndsRows ord rem).contains r.1)).map (·.1) ::
            fronts ord n (rem.filter (fun r => !(ndsRows ord rem).contains r.1)) := by
        simp [fronts, hne]
      rw [hfr, List.flatten_cons]
      have h1 := ih (rem.filter (fun r => !(ndsRows ord rem).contains r.1))
        (by have := rest_shorter hord rem hne; omega)
      have h2 : ((rem.filter (fun r => (ndsRows ord rem).contains r.1)).map (·.1) ++
          (rem.filter (fun r => !(ndsRows ord rem).contains r.1)).map (·.1)).Perm (rem.map (·.1)) := by
        rw [← List.map_append]
        exact (List.filter_append_perm _ rem).map _
      exact (List.Perm.append_left _ h1).trans h2

/-- indices of `rem` are pairwise distinct -/
def IdxNodup (rem : List Row) : Prop := (rem.map (·.1)).Nodup

theorem row_unique {rem : List Row} (hn : IdxNodup rem) {i : Nat} {v w : Vec}
    (h1 : (i, v) ∈ rem) (h2 : (i, w) ∈ rem) : v = w := by
  unfold IdxNodup at hn
  induction rem with
  | nil => simp at h1
  | cons a t ih =>
    rw [List.map_cons, List.nodup_cons] at hn
    rcases List.mem_cons.1 h1 with rfl | h1' <;> rcases List.mem_cons.1 h2 with h2' | h2'
    · exact (Prod.mk.inj h2').2.symm
    · exact absurd (List.mem_map.2 ⟨(i, w), h2', rfl⟩) hn.1
    · subst h2'; exact absurd (List.mem_map.2 ⟨(i, v), h1', rfl⟩) hn.1
    · exact ih hn.2 h1' h2'

/-- **dominance-closed prefixes**: in the concatenated fronts, every prefix that contains a
row also contains every remaining row that strictly dominates it -/
theorem fronts_closed (hord : OrdOK ord) :
    ∀ (fuel : Nat) (rem : List Row), rem.length ≤ fuel → IdxNodup rem →
      ∀ (m i : Nat), i ∈ ((fronts ord fuel rem).flatten).take m →
      ∀ (j : Nat) (v w : Vec), (i, v) ∈ rem → (j, w) ∈ rem → dominates w v = true →
        j ∈ ((fronts ord fuel rem).flatten).take m := by
  intro fuel
  induction fuel with
  | zero =>
    intro rem hr _ m i hi
    simp [fronts] at hi
  | succ n ih =>
    intro rem hr hn m i hi j v w hiv hjw hdom
    by_cases hne : rem = []
    · subst hne; simp at hiv
    · have hfr : fronts ord (n + 1) rem =
          (rem.filter (fun r => (ndsRows ord rem).contains r.1)).map (·.1) ::
            fronts ord n (rem.filter (fun r => !(ndsRows ord rem).contains r.1)) := by
        simp [fronts, hne]
      rw [hfr, List.flatten_cons] at hi ⊢
      rw [List.take_append] at hi ⊢
      rw [List.mem_append] at hi ⊢
      have hrest_len : (rem.filter (fun r => !(ndsRows ord rem).contains r.1)).length ≤ n := by
        have := rest_shorter hord rem hne; omega
      have hrest_nd : IdxNodup (rem.filter (fun r => !(ndsRows ord rem).contains r.1)) := by
        unfold IdxNodup at hn ⊢
        exact List.Nodup.sublist (List.Sublist.map _ List.filter_sublist) hn
      rcases hi with hi | hi
      · -- `i` is in the current front: nothing remaining strictly dominates it
        exfalso
        have hiF := List.mem_of_mem_take hi
        obtain ⟨r, hr', hri⟩ := List.mem_map.1 hiF
        simp only [List.mem_filter, List.contains_iff_mem] at hr'
        obtain ⟨v', hv', hsw⟩ := mem_ndsRows hord rem r.1 hr'.2
        rw [hri] at hv' hsw
        have hvv : v' = v := row_unique hn hv' hiv
        subst hvv
        have hmem : (j, w) ∈ ord rem := (hord rem _).2 hjw
        unfold dominates at hdom
        simp only [Bool.and_eq_true, Bool.not_eq_true'] at hdom
        have := sweep_no_dominated wdRow wdRow_pre (ord rem) (i, v') hsw (j, w) hmem hdom.1
        unfold wdRow at this
        simp only at this
        rw [hdom.2] at this; exact absurd this (by simp)
      · -- `i` is in a later front
        have hi' := List.mem_of_mem_take hi
        have hpos : 0 < m - ((rem.filter (fun r => (ndsRows ord rem).contains r.1)).map (·.1)).length := by
          cases hm : m - ((rem.filter (fun r => (ndsRows ord rem).contains r.1)).map (·.1)).length with
          | zero => rw [hm] at hi; simp at hi
          | succ k => omega
        -- (i, v) is among the rest
        have hperm := fronts_perm hord n _ hrest_len
        have hiRest : i ∈ (rem.filter (fun r => !(ndsRows ord rem).contains r.1)).map (·.1) :=
          hperm.mem_iff.1 hi'
        obtain ⟨r, hr', hri⟩ := List.mem_map.1 hiRest
        have hrmem : r ∈ rem := (List.mem_filter.1 hr').1
        have hrv : r = (i, v) := by
          cases r with
          | mk a b =>
            simp only at hri; subst hri
            rw [row_unique hn hrmem hiv]
        subst hrv
        by_cases hjc : (ndsRows ord rem).contains j = true
        · left
          rw [List.take_of_length_le (by omega)]
          exact List.mem_map.2 ⟨(j, w), List.mem_filter.2 ⟨hjw, hjc⟩, rfl⟩
        · right
          apply ih _ hrest_len hrest_nd _ i hi j v w hr'
          · exact List.mem_filter.2 ⟨hjw, by simpa using hjc⟩
          · exact hdom

/-! ### rows of the caller's array -/

theorem rowsOf_length (pts : List Vec) : (rowsOf pts).length = pts.length := by
  simp [rowsOf]

theorem rowsOf_idx (pts : List Vec) : (rowsOf pts).map (·.1) = List.range pts.length := by
  simp only [rowsOf, List.map_map]
  apply List.ext_getElem
  · simp
  · intro i h1 h2
    simp

theorem mem_rowsOf {pts : List Vec} {i : Nat} {v : Vec} :
    (i, v) ∈ rowsOf pts ↔ pts[i]? = some v := by
  simp only [rowsOf, List.mem_map, Prod.mk.injEq, Prod.exists]
  constructor
  · rintro ⟨a, b, hab, rfl, rfl⟩
    have := List.mem_zipIdx hab
    simp only [Nat.zero_add, Nat.sub_zero, Nat.zero_le, true_and] at this
    obtain ⟨h1, h2⟩ := this
    rw [List.getElem?_eq_getElem h1]; simp [h2]
  · intro h
    refine ⟨v, i, ?_, rfl, rfl⟩
    obtain ⟨hi, hv⟩ := List.getElem?_eq_some_iff.1 h
    exact List.mem_zipIdx_iff_getElem?.2 (by simpa using h)

theorem rowsOf_nodup (pts : List Vec) : IdxNodup (rowsOf pts) := by
  unfold IdxNodup; rw [rowsOf_idx]; exact List.nodup_range

end DH.Pareto
