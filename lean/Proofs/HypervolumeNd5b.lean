import Proofs.HypervolumeNd5a

/-! `settle` and the re-insertion loop under the relativised invariant. -/

namespace DH.Hypervolume
open DH.Pareto (Vec wdVec)

/-- **`settle`, relativised**: the node `q` that has just been linked (the linked ids are `K0 ++ [q]`, in
the order of list `d`) gets the exact cross-section volume as `area[d]` *when the linked ids are live*;
a flag that is set is justified (by a dominating node or a zero coordinate when the values compared were
exact, by `GarbZ` otherwise); the caches of the lower levels stay valid. -/
theorem settle_L {R : Run} (hR : R.Base) {d : Nat} (hd2 : 2 ≤ d) (hdm : d < R.m)
    (rec : List Nat → St → Rat × St) (hrec : SpecL R (d - 1) rec)
    (K0 : List Nat) (q : Nat) (prev : Option Nat) (hvol : Rat) (st : St)
    (hKnd : (K0 ++ [q]).Nodup) (hKlt : ∀ i ∈ K0 ++ [q], i < R.rel.length)
    (hW : WF R st) (hC : ∀ k, 2 ≤ k → k < d → CacheL R k (K0 ++ [q]) st) (hF : AllFIG R (K0 ++ [q]) st)
    (hbefore : ∀ r ∈ K0, Before (R.orders.getD d []) r q)
    (hprev : (prev = none ∧ K0 = []) ∨
      (∃ q', prev = some q' ∧ q' ∈ K0 ∧
        (Live R (d - 1) K0 → (st.node q').area.getD d 0 = Vk R.rel (d - 1) K0))) :
    WF R (settle d rec q prev (K0 ++ [q]) hvol st) ∧
    (∀ k, 2 ≤ k → k < d → CacheL R k (K0 ++ [q]) (settle d rec q prev (K0 ++ [q]) hvol st)) ∧
    AllFIG R (K0 ++ [q]) (settle d rec q prev (K0 ++ [q]) hvol st) ∧
    (Live R (d - 1) (K0 ++ [q]) →
      ((settle d rec q prev (K0 ++ [q]) hvol st).node q).area.getD d 0 = Vk R.rel (d - 1) (K0 ++ [q])) ∧
    ((settle d rec q prev (K0 ++ [q]) hvol st).node q).volume.getD d 0 = hvol ∧
    Frame d (K0 ++ [q]) st (settle d rec q prev (K0 ++ [q]) hvol st) ∧
    (∀ x, x ≠ q → NodeFrame (d - 1) (st.node x) ((settle d rec q prev (K0 ++ [q]) hvol st).node x)) ∧
    (settle d rec q prev (K0 ++ [q]) hvol st).bounds.getD d 0 = st.bounds.getD d 0 := by
  have hq : q < R.rel.length := hKlt q (by simp)
  have hqK : q ∈ K0 ++ [q] := by simp
  have hqK0 : q ∉ K0 := by
    have := List.nodup_append.mp hKnd
    intro h; exact this.2.2 q h q (by simp) rfl
  have hd1m : d - 1 < R.m := by omega
  have hK0sub : ∀ x ∈ K0, x ∈ K0 ++ [q] := fun x hx => List.mem_append.mpr (Or.inl hx)
  -- the value the code reads from the predecessor (0 from the sentinel), in any state that agrees
  -- with `st` on the other nodes' `area[d]`
  have hprevval : ∀ st' : St, (∀ x, x ≠ q → (st'.node x).area.getD d 0 = (st.node x).area.getD d 0) →
      Live R (d - 1) K0 → (st'.nodeOpt prev).area.getD d 0 = Vk R.rel (d - 1) K0 := by
    intro st' hsame hlive0
    rcases hprev with ⟨hp, hK0⟩ | ⟨q', hp, hq'K0, hq'eq⟩
    · subst hp; subst hK0
      show (sentinelNode _).area.getD d 0 = _
      rw [sentinel_area, Vk_nil]
    · subst hp
      have hq'q : q' ≠ q := fun h => hqK0 (h ▸ hq'K0)
      show (st'.node q').area.getD d 0 = _
      rw [hsame q' hq'q]
      exact hq'eq hlive0
  -- step 1: volume
  obtain ⟨hW1, hb1, ho1, ha1, hi1, hv1, hvo1⟩ := setVolume_facts hW hq d hdm hvol
  have hnode1 : ∀ x, (setVolume d q hvol st).node x = st.node x ∨ x = q := by
    intro x; by_cases hx : x = q
    · exact Or.inr hx
    · exact Or.inl (ho1 x hx)
  have harea1 : ∀ x, ((setVolume d q hvol st).node x).area = (st.node x).area := by
    intro x; rcases hnode1 x with h | rfl
    · rw [h]
    · exact ha1
  have hign1 : ∀ x, ((setVolume d q hvol st).node x).ignore = (st.node x).ignore := by
    intro x; rcases hnode1 x with h | rfl
    · rw [h]
    · exact hi1
  have hvolne1 : ∀ x j, j ≠ d → ((setVolume d q hvol st).node x).volume.getD j 0 = (st.node x).volume.getD j 0 := by
    intro x j hj; rcases hnode1 x with h | rfl
    · rw [h]
    · exact hvo1 j hj
  have hC1 : ∀ k, 2 ≤ k → k < d → CacheL R k (K0 ++ [q]) (setVolume d q hvol st) := by
    intro k hk2 hkd
    exact (hC k hk2 hkd).congr (fun x => ⟨by rw [harea1 x], hvolne1 x k (by omega)⟩) (by rw [hb1])
  have hF1 : AllFIG R (K0 ++ [q]) (setVolume d q hvol st) := fun x hx => (hF x hx).congr (hign1 x)
  have hnf1 : NodeFrame d (st.node q) ((setVolume d q hvol st).node q) :=
    nodeFrame_of_WF hW hW1 hq (fun j hj => ⟨by rw [ha1], hvo1 j (by omega)⟩) (Or.inl hi1)
  have hFr1 : Frame d (K0 ++ [q]) st (setVolume d q hvol st) :=
    frame_single hqK (by rw [hW1.len, hW.len]) hb1 ho1 hnf1
  unfold settle
  by_cases hsc : d ≤ ((setVolume d q hvol st).node q).ignore
  · -- the ignore shortcut
    simp only [if_pos hsc]
    rw [hi1] at hsc
    have hJ := hF q hqK
    -- on a live set `q` adds nothing in the coordinates < d
    have hcase : Live R (d - 1) (K0 ++ [q]) → Vk R.rel (d - 1) (K0 ++ [q]) = Vk R.rel (d - 1) K0 := by
      intro hlive
      rcases hJ with h0 | ⟨hem, hjust⟩
      · omega
      rcases hjust with ⟨r, hrK, hrq, hbef, hdom⟩ | ⟨i, him, hzi⟩ | ⟨z, hzK, hzq, hbef, i, hei, him, hzi⟩
      · have hrK0 : r ∈ K0 := by
          rcases List.mem_append.mp hrK with h | h
          · exact h
          · simp at h; exact absurd h hrq
        have hr : r < R.rel.length := hKlt r hrK
        have hdl := (dom_lower hR hr hq ((st.node q).ignore - d) (d - 1)
          (by omega) (by
            have : d - 1 + ((st.node q).ignore - d) = (st.node q).ignore - 1 := by omega
            rw [this]; exact hdom)).1
        exact Vk_snoc_dominated hrK0 hdl
      · by_cases hid : i < d
        · exact Vk_snoc_zero hR hd1m hq (by omega) hzi
        · have := hlive q hqK i (by omega) him
          rw [hzi] at this; exact absurd this (lt_irrefl _)
      · have := hlive z hzK i (by omega) him
        rw [hzi] at this; exact absurd this (lt_irrefl _)
    have hveq := hprevval (setVolume d q hvol st) (fun x _ => by rw [harea1 x])
    generalize hvdef : ((setVolume d q hvol st).nodeOpt prev).area.getD d 0 = v at hveq
    obtain ⟨hW2, hb2, ho2, hvs2, hi2, ha2, hao2⟩ := setArea_facts hW1 hq d hdm v
    have hnode2 : ∀ x, x ≠ q → (setArea d q v (setVolume d q hvol st)).node x = st.node x :=
      fun x hx => by rw [ho2 x hx, ho1 x hx]
    refine ⟨hW2, ?_, ?_, ?_, by rw [hvs2]; exact hv1, ?_, ?_, by rw [hb2, hb1]⟩
    · intro k hk2 hkd
      refine (hC1 k hk2 hkd).congr (fun x => ?_) (by rw [hb2])
      by_cases hx : x = q
      · subst hx; exact ⟨hao2 k (by omega), by rw [hvs2]⟩
      · rw [ho2 x hx]; exact ⟨rfl, rfl⟩
    · intro x hx
      refine (hF1 x hx).congr ?_
      by_cases hxq : x = q
      · subst hxq; exact hi2
      · rw [ho2 x hxq]
    · intro hlive
      rw [ha2, hveq (hlive.subset hK0sub)]
      exact (hcase hlive).symm
    · refine hFr1.trans (frame_single hqK (by rw [hW2.len, hW1.len]) hb2 ho2 ?_)
      exact nodeFrame_of_WF hW1 hW2 hq (fun j hj => ⟨hao2 j (by omega), by rw [hvs2]⟩) (Or.inl hi2)
    · intro x hx; rw [hnode2 x hx]; exact NodeFrame.refl _ _
  · -- the level below recomputes the cross-section
    simp only [if_neg hsc]
    have hne : K0 ++ [q] ≠ [] := by simp
    obtain ⟨hres, hW2, hC2, hF2, hFr2⟩ := hrec (K0 ++ [q]) (setVolume d q hvol st) hne hKnd hKlt hW1
      (fun k hk2 hk => hC1 k hk2 (by omega)) (fun x hx _ => hF1 x hx)
    generalize hrdef : rec (K0 ++ [q]) (setVolume d q hvol st) = r at hres hW2 hC2 hF2 hFr2
    obtain ⟨a, st2⟩ := r
    simp only at hres hW2 hC2 hF2 hFr2 ⊢
    have hd1 : d - 1 < d := by omega
    obtain ⟨hW3, hb3, ho3, hvs3, hi3, ha3, hao3⟩ := setArea_facts hW2 hq d hdm a
    have hq2v : (st2.node q).volume.getD d 0 = hvol := by
      rw [((hFr2.node q).hi d hd1).2]; exact hv1
    have hC3 : ∀ k, 2 ≤ k → k < d → CacheL R k (K0 ++ [q]) (setArea d q a st2) := by
      intro k hk2 hkd
      refine (hC2 k hk2 (by omega)).congr (fun x => ?_) (by rw [hb3])
      by_cases hx : x = q
      · subst hx; exact ⟨hao3 k (by omega), by rw [hvs3]⟩
      · rw [ho3 x hx]; exact ⟨rfl, rfl⟩
    have hF3 : AllFIG R (K0 ++ [q]) (setArea d q a st2) := by
      intro x hx
      refine (hF2 x hx).congr ?_
      by_cases hxq : x = q
      · subst hxq; exact hi3
      · rw [ho3 x hxq]
    have hnf3 : NodeFrame d (st2.node q) ((setArea d q a st2).node q) :=
      nodeFrame_of_WF hW2 hW3 hq (fun j hj => ⟨hao3 j (by omega), by rw [hvs3]⟩) (Or.inl hi3)
    have hFr3 : Frame d (K0 ++ [q]) st (setArea d q a st2) :=
      (hFr1.trans (hFr2.mono (by omega) (fun x hx => hx))).trans
        (frame_single hqK (by rw [hW3.len, hW2.len]) hb3 ho3 hnf3)
    have hoth3 : ∀ x, x ≠ q → NodeFrame (d - 1) (st.node x) ((setArea d q a st2).node x) := by
      intro x hx
      rw [ho3 x hx, ← ho1 x hx]; exact hFr2.node x
    have hbd3 : (setArea d q a st2).bounds.getD d 0 = st.bounds.getD d 0 := by
      rw [hb3, hFr2.bhi d hd1, hb1]
    have hsame3 : ∀ x, x ≠ q → ((setArea d q a st2).node x).area.getD d 0
        = (st.node x).area.getD d 0 := fun x hx => ((hoth3 x hx).hi d hd1).1
    have hA3 : Live R (d - 1) (K0 ++ [q]) → ((setArea d q a st2).node q).area.getD d 0 = Vk R.rel (d - 1) (K0 ++ [q]) :=
      fun hlive => by rw [ha3]; exact hres hlive
    split
    · -- the flag is set
      rename_i hle
      obtain ⟨hW4, hb4, ho4, hvs4, has4, hi4⟩ := setIgnore_facts hW3 hq d
      refine ⟨hW4, ?_, ?_, fun hlive => by rw [has4]; exact hA3 hlive,
        by rw [hvs4, hvs3]; exact hq2v, ?_, ?_, by rw [hb4]; exact hbd3⟩
      · intro k hk2 hkd
        refine (hC3 k hk2 hkd).congr (fun x => ?_) (by rw [hb4])
        by_cases hx : x = q
        · subst hx; rw [has4, hvs4]; exact ⟨rfl, rfl⟩
        · rw [ho4 x hx]; exact ⟨rfl, rfl⟩
      · intro x hx
        by_cases hxq : x = q
        · subst hxq
          refine Or.inr ?_
          rw [hi4]
          refine ⟨hdm, ?_⟩
          by_cases hlive : Live R (d - 1) (K0 ++ [x])
          · -- the values compared were exact: domination or a zero coordinate
            have hle' : Vk R.rel (d - 1) (K0 ++ [x]) ≤ Vk R.rel (d - 1) K0 := by
              rw [← hres hlive, ← hprevval _ hsame3 (hlive.subset hK0sub)]; exact hle
            rcases exists_dom_of_Vk_le hR hd1m (fun i hi => hKlt i (by simp [hi])) hq hle' with
              ⟨r, hrK0, hrdom⟩ | ⟨i, hi, hzi⟩
            · exact Or.inl ⟨r, by simp [hrK0], fun h => hqK0 (h ▸ hrK0), hbefore r hrK0, hrdom⟩
            · exact Or.inr (Or.inl ⟨i, by omega, hzi⟩)
          · -- they were not: a linked node up to `x` lies on the boundary in an objective ≥ d
            obtain ⟨z, hzK, i, hi, him, hzi⟩ := not_live hR hKlt hlive
            rcases List.mem_append.mp hzK with hz0 | hzq
            · exact Or.inr (Or.inr ⟨z, hzK, fun h => hqK0 (h ▸ hz0), hbefore z hz0, i, by omega, him, hzi⟩)
            · simp only [List.mem_singleton] at hzq; subst hzq
              exact Or.inr (Or.inl ⟨i, him, hzi⟩)
        · exact (hF3 x hx).congr (by rw [ho4 x hxq])
      · refine hFr3.trans (frame_single hqK (by rw [hW4.len, hW3.len]) hb4 ho4 ?_)
        refine nodeFrame_of_WF hW3 hW4 hq (fun j _ => ⟨by rw [has4], by rw [hvs4]⟩) (Or.inr ⟨?_, by rw [hi4]⟩)
        rw [hi3]
        have : (st2.node q).ignore ≤ d - 1 := by
          apply (hFr2.node q).ign_lo
          rw [hi1] at hsc ⊢; omega
        omega
      · intro x hx; rw [ho4 x hx]; exact hoth3 x hx
    · exact ⟨hW3, hC3, hF3, hA3, by rw [hvs3]; exact hq2v, hFr3, hoth3, hbd3⟩

/-- **the re-insertion loop, relativised** -/
theorem reinsertLoop_L {R : Run} (hR : R.OK5) {d : Nat} (hd2 : 2 ≤ d) (hdm : d < R.m)
    (rec : List Nat → St → Rat × St) (hrec : SpecL R (d - 1) rec) (l : List Nat) (hl : ListD R d l) :
    ∀ (Rm K0 : List Nat) (q : Nat) (D : List Nat) (hvol : Rat) (st : St),
      l = K0 ++ [q] ++ Rm → (∀ x ∈ D, x ∈ K0 ++ [q]) →
      WF R st → (∀ k, 2 ≤ k → k < d → CacheL R k (K0 ++ [q]) st) → AllFIG R (K0 ++ [q]) st →
      (Live R (d - 1) (K0 ++ [q]) → (st.node q).area.getD d 0 = Vk R.rel (d - 1) (K0 ++ [q])) →
      (Live R d (K0 ++ [q]) → hvol = volSum R.rel d (K0 ++ [q])) →
      LvlValsL R d l D st → (∀ x ∈ Rm, JustLG R d l st x) →
      ∃ K0' q', l = K0' ++ [q'] ∧
        (reinsertLoop d rec Rm q (K0 ++ [q]) hvol st).1 = q' ∧
        (Live R d l → (reinsertLoop d rec Rm q (K0 ++ [q]) hvol st).2.1 = volSum R.rel d l) ∧
        (Live R (d - 1) l →
          ((reinsertLoop d rec Rm q (K0 ++ [q]) hvol st).2.2.node q').area.getD d 0 = Vk R.rel (d - 1) l) ∧
        WF R (reinsertLoop d rec Rm q (K0 ++ [q]) hvol st).2.2 ∧
        (∀ k, 2 ≤ k → k < d → CacheL R k l (reinsertLoop d rec Rm q (K0 ++ [q]) hvol st).2.2) ∧
        AllFIG R l (reinsertLoop d rec Rm q (K0 ++ [q]) hvol st).2.2 ∧
        Frame d l st (reinsertLoop d rec Rm q (K0 ++ [q]) hvol st).2.2 ∧
        LvlValsL R d l (D ++ Rm) (reinsertLoop d rec Rm q (K0 ++ [q]) hvol st).2.2
  | [], K0, q, D, hvol, st, hlK, _, hW, hC, hF, hA, hV, hD, _ => by
    have hlK' : l = K0 ++ [q] := by simpa using hlK
    refine ⟨K0, q, hlK', rfl, ?_, ?_, hW, ?_, ?_, Frame.refl _ _ _, by simp only [reinsertLoop, List.append_nil]; exact hD⟩
    · simp only [reinsertLoop]; rw [hlK']; exact hV
    · simp only [reinsertLoop]; rw [hlK']; exact hA
    · simp only [reinsertLoop]; rw [hlK']; exact hC
    · simp only [reinsertLoop]; rw [hlK']; exact hF
  | p :: rest, K0, q, D, hvol, st, hlK, hDK, hW, hC, hF, hA, hV, hD, hJ => by
    have hB := hR.toBase
    have hlK' : l = (K0 ++ [q]) ++ p :: rest := by simpa using hlK
    have hp_l : p ∈ l := by rw [hlK']; simp
    have hq_l : q ∈ l := by rw [hlK']; simp
    have hp : p < R.rel.length := hl.lt p hp_l
    have hq : q < R.rel.length := hl.lt q hq_l
    have hKp_nd : ((K0 ++ [q]) ++ [p]).Nodup := by
      have := hl.nodup
      rw [hlK', show (K0 ++ [q]) ++ p :: rest = ((K0 ++ [q]) ++ [p]) ++ rest by simp] at this
      exact (List.nodup_append.mp this).1
    have hp_notK : p ∉ K0 ++ [q] := by
      have := List.nodup_append.mp hKp_nd
      intro h; exact this.2.2 p h p (by simp) rfl
    have hKp_lt : ∀ i ∈ (K0 ++ [q]) ++ [p], i < R.rel.length := by
      intro i hi; apply hl.lt; rw [hlK']
      simp only [List.mem_append, List.mem_cons, List.not_mem_nil, or_false] at hi ⊢; tauto
    have hKsubKp : ∀ x ∈ K0 ++ [q], x ∈ (K0 ++ [q]) ++ [p] := fun x hx => List.mem_append.mpr (Or.inl hx)
    -- list d is sorted: everything linked so far is not above p, nor above q
    have hsortedKp : ∀ y ∈ K0 ++ [q], zc R.rel d y ≤ zc R.rel d p := by
      intro y hy
      have := hl.sorted
      rw [hlK'] at this
      exact (List.pairwise_append.mp this).2.2 y hy p (by simp)
    have hsortedKq : ∀ y ∈ K0 ++ [q], zc R.rel d y ≤ zc R.rel d q := by
      intro y hy
      rcases List.mem_append.mp hy with hy | hy
      · have := hl.sorted
        rw [hlK', List.append_assoc] at this
        exact (List.pairwise_append.mp this).2.2 y hy q (by simp)
      · simp only [List.mem_singleton] at hy; subst hy; exact le_refl _
    have hzp0 : zc R.rel d p ≤ 0 := (hR.inter p d hp hdm).2
    -- the new hvol
    have hvol' : Live R d ((K0 ++ [q]) ++ [p]) →
        hvol + (st.node q).area.getD d 0 * (co (st.node p).cargo d - co (st.node q).cargo d)
        = volSum R.rel d ((K0 ++ [q]) ++ [p]) := by
      intro hlive
      have hliveK : Live R d (K0 ++ [q]) := hlive.subset hKsubKp
      rw [volSum_snoc, hV hliveK, hW.cargo p, hW.cargo q]
      show _ + _ * (zc R.rel d p - zc R.rel d q) = _ + _ * (zc R.rel d p - zc R.rel d q)
      by_cases hzq : zc R.rel d q < 0
      · rw [hA (hliveK.pred (fun y hy => lt_of_le_of_lt (hsortedKq y hy) hzq))]
      · have hq0 : zc R.rel d q = 0 := le_antisymm (hR.inter q d hq hdm).2 (not_lt.mp hzq)
        have hp0 : zc R.rel d p = 0 := le_antisymm hzp0 (by rw [← hq0]; exact hsortedKp q (by simp))
        rw [hq0, hp0]; ring
    -- the bounds update
    let b := updBounds d (st.bounds.set d (co (st.node p).cargo d)) (st.node p).cargo
    have hbl : b.length = st.bounds.length := by simp [b, updBounds_length]
    have hnodeb : ∀ x, ({ st with bounds := b } : St).node x = st.node x := node_bounds_irrel st b hbl
    have hblow : ∀ k, k < d → b.getD k 0 ≤ st.bounds.getD k 0 ∧ b.getD k 0 ≤ zc R.rel k p := by
      intro k hk
      have h1 := updBounds_le d (st.bounds.set d (co (st.node p).cargo d)) (st.node p).cargo k hk
        (by rw [List.length_set, hW.blen]; omega)
      rw [getD_set_ne _ _ _ _ (by omega : d ≠ k)] at h1
      have hz : co (st.node p).cargo k = zc R.rel k p := by rw [hW.cargo p]; rfl
      exact ⟨h1.1, h1.2.trans (le_of_eq hz)⟩
    have hbhi : ∀ j, d < j → b.getD j 0 = st.bounds.getD j 0 := by
      intro j hj
      show (updBounds d _ _).getD j 0 = _
      rw [updBounds_getD_ge d _ _ j (by omega), getD_set_ne _ _ _ _ (by omega : d ≠ j)]
    have hbd : b.getD d 0 = zc R.rel d p := by
      show (updBounds d _ _).getD d 0 = _
      rw [updBounds_getD_ge d _ _ d (Nat.le_refl _), getD_set_self _ _ _ (by rw [hW.blen]; exact hdm), hW.cargo p]
      rfl
    have hbnd : ∀ k, b.getD k 0 ≤ 0 := by
      intro k
      rcases Nat.lt_trichotomy k d with hk | hk | hk
      · exact le_trans (hblow k hk).1 (hW.bnd k)
      · subst hk; rw [hbd]; exact hzp0
      · rw [hbhi k hk]; exact hW.bnd k
    have hWb := hW.bounds b hbl hbnd
    have hCb : ∀ k, 2 ≤ k → k < d → CacheL R k ((K0 ++ [q]) ++ [p]) ({ st with bounds := b } : St) := by
      intro k hk2 hkd
      refine CacheL.restrict hB (by omega) (hC k hk2 hkd) ?_ (fun x => by rw [hnodeb x]; exact ⟨rfl, rfl⟩)
        (hblow k hkd).1
      intro y hy
      have hyp : y ≠ p := by
        rintro rfl
        exact absurd hy (not_lt.mpr (hblow k hkd).2)
      simp only [List.mem_append, List.mem_cons, List.not_mem_nil, or_false]
      tauto
    have hlK2 : l = (K0 ++ [q]) ++ [p] ++ rest := by rw [hlK']; simp
    have hFb : AllFIG R ((K0 ++ [q]) ++ [p]) ({ st with bounds := b } : St) := by
      intro x hx
      rcases List.mem_append.mp hx with hx' | hx'
      · exact ((hF x hx').mono hKsubKp).congr (by rw [hnodeb x])
      · simp only [List.mem_singleton] at hx'; subst hx'
        refine JustG.congr (st := st) (by rw [hnodeb x]) ?_
        exact justG_prefix hR hd2 hl hlK2 hx (hJ x (by simp))
    have hbef_p : ∀ r ∈ K0 ++ [q], Before (R.orders.getD d []) r p :=
      hl.before_of (K0 ++ [q]) p rest hlK'
    obtain ⟨hW2, hC2, hF2, hA2, hV2, hFr2, hoth2, hbd2⟩ :=
      settle_L hB hd2 hdm rec hrec (K0 ++ [q]) p (some q)
        (hvol + (st.node q).area.getD d 0 * (co (st.node p).cargo d - co (st.node q).cargo d))
        ({ st with bounds := b } : St) hKp_nd hKp_lt hWb hCb hFb hbef_p
        (Or.inr ⟨q, rfl, by simp, by rw [hnodeb q]; exact hA⟩)
    -- apply the induction hypothesis
    have ih := reinsertLoop_L hR hd2 hdm rec hrec l hl rest (K0 ++ [q]) p (D ++ [p])
      (hvol + (st.node q).area.getD d 0 * (co (st.node p).cargo d - co (st.node q).cargo d))
      (settle d rec p (some q) ((K0 ++ [q]) ++ [p])
        (hvol + (st.node q).area.getD d 0 * (co (st.node p).cargo d - co (st.node q).cargo d))
        ({ st with bounds := b } : St))
      hlK2
      (by intro x hx
          rcases List.mem_append.mp hx with hx | hx
          · exact List.mem_append.mpr (Or.inl (hDK x hx))
          · exact List.mem_append.mpr (Or.inr hx))
      hW2 hC2 hF2 hA2 hvol'
      (by -- level-d values of the done nodes
          intro P x post hsplit hx
          rcases List.mem_append.mp hx with hx | hx
          · have hxp : x ≠ p := fun h => hp_notK (h ▸ hDK x hx)
            have hnf := hoth2 x hxp
            rw [hnodeb x] at hnf
            rw [(hnf.hi d (by omega)).1, (hnf.hi d (by omega)).2]
            exact hD P x post hsplit hx
          · simp only [List.mem_singleton] at hx; subst hx
            have := (nodup_split_unique hl.nodup hsplit hlK').1
            subst this
            exact ⟨hA2, fun hlive => by rw [hV2, hvol' hlive]⟩)
      (by -- the nodes still waiting keep their flags
          intro x hx
          have hxnot : x ∉ (K0 ++ [q]) ++ [p] := by
            have := hl.nodup
            rw [hlK2] at this
            intro h; exact (List.nodup_append.mp this).2.2 x h x hx rfl
          have hsame : (settle d rec p (some q) ((K0 ++ [q]) ++ [p])
              (hvol + (st.node q).area.getD d 0 * (co (st.node p).cargo d - co (st.node q).cargo d))
              ({ st with bounds := b } : St)).node x = st.node x := by
            rw [hFr2.out x hxnot, hnodeb x]
          have := hJ x (by simp [hx])
          unfold JustLG at this ⊢
          rw [hsame]; exact this)
    obtain ⟨K0', q', e1, e2, e3, e4, e5, e6, e7, e8, e9⟩ := ih
    refine ⟨K0', q', e1, ?_, ?_, ?_, ?_, ?_, ?_, ?_, ?_⟩
    · simp only [reinsertLoop]; exact e2
    · simp only [reinsertLoop]; exact e3
    · simp only [reinsertLoop]; exact e4
    · simp only [reinsertLoop]; exact e5
    · simp only [reinsertLoop]; exact e6
    · simp only [reinsertLoop]; exact e7
    · simp only [reinsertLoop]
      refine ((frame_bounds (S := l) b hbl hbhi).trans (hFr2.mono (Nat.le_refl _) ?_)).trans e8
      intro x hx; rw [hlK2]; exact List.mem_append.mpr (Or.inl hx)
    · simp only [reinsertLoop]
      have : D ++ p :: rest = (D ++ [p]) ++ rest := by simp
      rw [this]; exact e9

end DH.Hypervolume
