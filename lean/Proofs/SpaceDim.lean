import Proofs.SpaceStage

/-! Per-dimension lemmas for C09: transform of a column of members, its shape and bounds, and the
inverse of the re-sliced block. -/

namespace DH.Space

/-- `L` (= `log_base`) is monotone on the positive numbers -/
def MonoOn (L : Rat → Rat) : Prop := ∀ x y : Rat, 0 < x → x ≤ y → L x ≤ L y

/-- `E` (= `base ** ·`) undoes `L` on the positive numbers -/
def InvOn (L E : Rat → Rat) : Prop := ∀ x : Rat, 0 < x → E (L x) = x

/-- the transformed coordinates of one member `v` of dimension `d` (specification-level, pure) -/
def cellT (L : Rat → Rat) : Dim → Val → List Rat
  | .real _ _ .uniform .identity, .num q => [q]
  | .real lo hi .uniform .normalize, .num q => [(q - lo) / (hi - lo)]
  | .real _ _ .logUniform .identity, .num q => [L q]
  | .real lo hi .logUniform .normalize, .num q => [(L q - L lo) / (L hi - L lo)]
  | .int _ _ .uniform .identity, .int i => [(i : Rat)]
  | .int lo hi .uniform .normalize, .int i => [((i : Rat) - (lo : Rat)) / ((hi : Rat) - (lo : Rat))]
  | .int _ _ .logUniform .identity, .int i => [L (i : Rat)]
  | .int lo hi .logUniform .normalize, .int i =>
      [(L (i : Rat) - L (lo : Rat)) / (L (hi : Rat) - L (lo : Rat))]
  | .cat cs .onehot, v => binarize cs.length (cs.idxOf v)
  | .cat cs .label, v => [(((sortU cs).idxOf v : Nat) : Rat)]
  | .cat cs .normalize, v =>
      [((((sortU cs).idxOf v : Nat) : Rat) - 0) / (((((cs.length : Int) - 1 : Int)) : Rat) - 0)]
  | .cat _ .identity, v => [(v.toRat?).getD 0]
  | _, _ => []

/-- the column block of dimension `d` as `Space.inverse_transform` slices it out of `Xt` -/
def reslice (w : Nat) (block : List (List Rat)) : Col :=
  if w = 1 then .vals (block.flatten.map Val.num) else .mat block

theorem toRows_vals_num (xs : List Rat) (f : Rat → Rat) :
    (Col.vals (xs.map (fun x => Val.num (f x)))).toRows = .ok (xs.map (fun x => [f x])) := by
  have := mapE_ok_map rowOfVal (fun v => [(v.toRat?).getD 0]) (xs.map (fun x => Val.num (f x)))
    (by intro v hv; obtain ⟨x, _, rfl⟩ := List.mem_map.mp hv; rfl)
  simpa [Col.toRows, List.map_map, Function.comp_def, Val.toRat?] using this

theorem toRows_vals_num_int (is : List Int) (f : Int → Rat) :
    (Col.vals (is.map (fun i => Val.num (f i)))).toRows = .ok (is.map (fun i => [f i])) := by
  have := mapE_ok_map rowOfVal (fun v => [(v.toRat?).getD 0]) (is.map (fun i => Val.num (f i)))
    (by intro v hv; obtain ⟨x, _, rfl⟩ := List.mem_map.mp hv; rfl)
  simpa [Col.toRows, List.map_map, Function.comp_def, Val.toRat?] using this

/-! ### `Real` -/

theorem real_transform_ok (L : Rat → Rat) (lo hi : Rat) (p : Prior) (t : NumTr)
    (hwf : (Dim.real lo hi p t).wf = true) (hM : MonoOn L) (qs : List Rat)
    (hb : ∀ q ∈ qs, lo ≤ q ∧ q ≤ hi) :
    ∃ c, (Dim.real lo hi p t).transform L (qs.map Val.num) = .ok c ∧
      c.toRows = .ok ((qs.map Val.num).map (cellT L (.real lo hi p t))) := by
  have hlt : lo < hi := by
    simp [Dim.wf] at hwf; exact hwf.1
  cases p <;> cases t
  · -- uniform identity
    refine ⟨.vals (qs.map Val.num), rfl, ?_⟩
    have := toRows_vals_num qs (fun x => x)
    simpa [List.map_map, Function.comp_def, cellT] using this
  · -- uniform normalize
    refine ⟨.vals (qs.map (fun x => .num ((x - lo) / (hi - lo)))), ?_, ?_⟩
    · exact runTransform_two L _ _ _ _ _ (identity_transform L _)
        (normalize_transform L lo hi _ qs (nums_map_num _ qs) (le_of_lt hlt) hb)
    · have := toRows_vals_num qs (fun x => (x - lo) / (hi - lo))
      simpa [List.map_map, Function.comp_def, cellT] using this
  · -- log-uniform identity
    refine ⟨.vals (qs.map (fun x => .num (L x))), ?_, ?_⟩
    · exact runTransform_one L _ _ _ (logN_transform L _ qs (nums_map_num _ qs))
    · have := toRows_vals_num qs L
      simpa [List.map_map, Function.comp_def, cellT] using this
  · -- log-uniform normalize
    have hpos : 0 < lo := by simp [Dim.wf] at hwf; exact hwf.2
    refine ⟨.vals (qs.map (fun x => .num ((L x - L lo) / (L hi - L lo)))), ?_, ?_⟩
    · have hn : nums .typeError (qs.map (fun x => Val.num (L x))) = .ok (qs.map L) := by
        have := nums_map_num .typeError (qs.map L)
        simpa [List.map_map, Function.comp_def] using this
      have h2 := normalize_transform L (L lo) (L hi) _ (qs.map L) hn (hM lo hi hpos (le_of_lt hlt))
        (by
          intro y hy
          obtain ⟨q, hq, rfl⟩ := List.mem_map.mp hy
          have := hb q hq
          exact ⟨hM lo q hpos this.1, hM q hi (lt_of_lt_of_le hpos this.1) this.2⟩)
      rw [List.map_map] at h2
      exact runTransform_two L _ _ _ _ _ (logN_transform L _ qs (nums_map_num _ qs)) h2
    · have := toRows_vals_num qs (fun x => (L x - L lo) / (L hi - L lo))
      simpa [List.map_map, Function.comp_def, cellT] using this

theorem flatten_map_singleton {α β : Type} (f : α → β) :
    ∀ l : List α, (l.map (fun x => [f x])).flatten = l.map f
  | [] => rfl
  | a :: as => by simp [flatten_map_singleton f as]

theorem inverseTransform_real (L E : Rat → Rat) (lo hi : Rat) (p : Prior) (t : NumTr) (c : Col)
    (ys : List Rat)
    (h : ((Dim.real lo hi p t).transformer L).inverse E c = .ok (.vals (ys.map Val.num))) :
    (Dim.real lo hi p t).inverseTransform L E c = .ok (ys.map (fun y => .num (clip lo hi y))) := by
  simp [Dim.inverseTransform, h, nums_map_num]

theorem inverseTransform_int (L E : Rat → Rat) (lo hi : Int) (p : Prior) (t : NumTr) (c : Col)
    (l : List Val) (ys : List Rat)
    (h : ((Dim.int lo hi p t).transformer L).inverse E c = .ok (.vals l))
    (hn : nums .typeError l = .ok ys) :
    (Dim.int lo hi p t).inverseTransform L E c =
      .ok (ys.map (fun y => .int (roundHalfEven (clip (lo : Rat) (hi : Rat) y)))) := by
  simp [Dim.inverseTransform, h, hn]

theorem inverseTransform_cat (L E : Rat → Rat) (cs : List Val) (t : CatTr) (c : Col) (l : List Val)
    (h : ((Dim.cat cs t).transformer L).inverse E c = .ok (.vals l)) :
    (Dim.cat cs t).inverseTransform L E c = .ok l := by
  simp [Dim.inverseTransform, h]

theorem L_strict (L E : Rat → Rat) (hM : MonoOn L) (hI : InvOn L E) (lo hi : Rat) (hpos : 0 < lo)
    (hlt : lo < hi) : L lo < L hi := by
  rcases lt_or_eq_of_le (hM lo hi hpos (le_of_lt hlt)) with h | h
  · exact h
  · exfalso
    have h1 := hI lo hpos
    have h2 := hI hi (lt_trans hpos hlt)
    rw [h] at h1
    rw [h1] at h2
    exact absurd h2 (ne_of_lt hlt)

theorem real_inverse_ok (L E : Rat → Rat) (lo hi : Rat) (p : Prior) (t : NumTr)
    (hwf : (Dim.real lo hi p t).wf = true) (hM : MonoOn L) (hI : InvOn L E) (qs : List Rat)
    (hb : ∀ q ∈ qs, lo ≤ q ∧ q ≤ hi) :
    (Dim.real lo hi p t).inverseTransform L E
      (reslice 1 ((qs.map Val.num).map (cellT L (.real lo hi p t)))) = .ok (qs.map Val.num) := by
  have hlt : lo < hi := by
    simp [Dim.wf] at hwf; exact hwf.1
  have hclip : qs.map (fun y => Val.num (clip lo hi y)) = qs.map Val.num := by
    apply List.map_congr_left
    intro q hq
    rw [clip_id lo hi q (hb q hq).1 (hb q hq).2]
  cases p <;> cases t
  · -- uniform identity
    have hs : reslice 1 ((qs.map Val.num).map (cellT L (.real lo hi .uniform .identity))) =
        .vals (qs.map Val.num) := by
      simp [reslice, List.map_map, Function.comp_def, cellT, flatten_map_singleton]
    have ht : ((Dim.real lo hi .uniform .identity).transformer L).inverse E (.vals (qs.map Val.num)) =
        .ok (.vals (qs.map Val.num)) := runInverse_one E _ _ _ (identity_inverse E _)
    rw [hs, inverseTransform_real L E lo hi _ _ _ qs ht, hclip]
  · -- uniform normalize
    have hs : reslice 1 ((qs.map Val.num).map (cellT L (.real lo hi .uniform .normalize))) =
        .vals ((qs.map (fun q => (q - lo) / (hi - lo))).map Val.num) := by
      simp [reslice, List.map_map, Function.comp_def, cellT, flatten_map_singleton]
    have h1 := normalize_inverse E lo hi false (qs.map (fun q => (q - lo) / (hi - lo))) (by
      intro t ht
      obtain ⟨q, hq, rfl⟩ := List.mem_map.mp ht
      exact norm_range q lo hi hlt (hb q hq).1 (hb q hq).2)
    have h2 : (qs.map (fun q => (q - lo) / (hi - lo))).map (fun t =>
        if false = true then Val.int (roundHalfEven (t * (hi - lo) + lo)) else Val.num (t * (hi - lo) + lo)) =
        qs.map Val.num := by
      rw [List.map_map]
      apply List.map_congr_left
      intro q _
      simp [norm_denorm q lo hi hlt]
    rw [h2] at h1
    have ht : ((Dim.real lo hi .uniform .normalize).transformer L).inverse E
        (.vals ((qs.map (fun q => (q - lo) / (hi - lo))).map Val.num)) =
        .ok (.vals (qs.map Val.num)) := runInverse_two E _ _ _ _ _ h1 (identity_inverse E _)
    rw [hs, inverseTransform_real L E lo hi _ _ _ qs ht, hclip]
  · -- log-uniform identity
    have hpos : 0 < lo := by simp [Dim.wf] at hwf; exact hwf.2
    have hs : reslice 1 ((qs.map Val.num).map (cellT L (.real lo hi .logUniform .identity))) =
        .vals ((qs.map L).map Val.num) := by
      simp [reslice, List.map_map, Function.comp_def, cellT, flatten_map_singleton]
    have h1 := logN_inverse E (qs.map L)
    have h2 : (qs.map L).map (fun t => Val.num (E t)) = qs.map Val.num := by
      rw [List.map_map]
      apply List.map_congr_left
      intro q hq
      simp [hI q (lt_of_lt_of_le hpos (hb q hq).1)]
    rw [h2] at h1
    have ht : ((Dim.real lo hi .logUniform .identity).transformer L).inverse E
        (.vals ((qs.map L).map Val.num)) = .ok (.vals (qs.map Val.num)) := runInverse_one E _ _ _ h1
    rw [hs, inverseTransform_real L E lo hi _ _ _ qs ht, hclip]
  · -- log-uniform normalize
    have hpos : 0 < lo := by simp [Dim.wf] at hwf; exact hwf.2
    have hL := L_strict L E hM hI lo hi hpos hlt
    have hs : reslice 1 ((qs.map Val.num).map (cellT L (.real lo hi .logUniform .normalize))) =
        .vals ((qs.map (fun q => (L q - L lo) / (L hi - L lo))).map Val.num) := by
      simp [reslice, List.map_map, Function.comp_def, cellT, flatten_map_singleton]
    have h1 := normalize_inverse E (L lo) (L hi) false
      (qs.map (fun q => (L q - L lo) / (L hi - L lo))) (by
      intro t ht
      obtain ⟨q, hq, rfl⟩ := List.mem_map.mp ht
      have hq' := hb q hq
      exact norm_range (L q) (L lo) (L hi) hL (hM lo q hpos hq'.1)
        (hM q hi (lt_of_lt_of_le hpos hq'.1) hq'.2))
    have h2 : (qs.map (fun q => (L q - L lo) / (L hi - L lo))).map (fun t =>
        if false = true then Val.int (roundHalfEven (t * (L hi - L lo) + L lo))
        else Val.num (t * (L hi - L lo) + L lo)) = (qs.map L).map Val.num := by
      rw [List.map_map, List.map_map]
      apply List.map_congr_left
      intro q _
      simp [norm_denorm (L q) (L lo) (L hi) hL]
    rw [h2] at h1
    have h3 := logN_inverse E (qs.map L)
    have h4 : (qs.map L).map (fun t => Val.num (E t)) = qs.map Val.num := by
      rw [List.map_map]
      apply List.map_congr_left
      intro q hq
      simp [hI q (lt_of_lt_of_le hpos (hb q hq).1)]
    rw [h4] at h3
    have ht : ((Dim.real lo hi .logUniform .normalize).transformer L).inverse E
        (.vals ((qs.map (fun q => (L q - L lo) / (L hi - L lo))).map Val.num)) =
        .ok (.vals (qs.map Val.num)) := runInverse_two E _ _ _ _ _ h1 h3
    rw [hs, inverseTransform_real L E lo hi _ _ _ qs ht, hclip]

/-! ### `Integer` -/

theorem toRows_vals_int (is : List Int) :
    (Col.vals (is.map Val.int)).toRows = .ok (is.map (fun (i : Int) => [(i : Rat)])) := by
  have := mapE_ok_map rowOfVal (fun v => [(v.toRat?).getD 0]) (is.map Val.int)
    (by intro v hv; obtain ⟨x, _, rfl⟩ := List.mem_map.mp hv; rfl)
  simpa [Col.toRows, List.map_map, Function.comp_def, Val.toRat?] using this

theorem int_bounds_cast (lo hi : Int) (is : List Int) (hb : ∀ i ∈ is, lo ≤ i ∧ i ≤ hi) :
    ∀ q ∈ is.map (fun (i : Int) => (i : Rat)), (lo : Rat) ≤ q ∧ q ≤ (hi : Rat) := by
  intro q hq
  obtain ⟨i, hi', rfl⟩ := List.mem_map.mp hq
  have := hb i hi'
  exact ⟨by exact_mod_cast this.1, by exact_mod_cast this.2⟩

theorem int_transform_ok (L : Rat → Rat) (lo hi : Int) (p : Prior) (t : NumTr)
    (hwf : (Dim.int lo hi p t).wf = true) (hM : MonoOn L) (is : List Int)
    (hb : ∀ i ∈ is, lo ≤ i ∧ i ≤ hi) :
    ∃ c, (Dim.int lo hi p t).transform L (is.map Val.int) = .ok c ∧
      c.toRows = .ok ((is.map Val.int).map (cellT L (.int lo hi p t))) := by
  have hlt : (lo : Rat) < (hi : Rat) := by
    simp [Dim.wf] at hwf; exact_mod_cast hwf.1
  have hbq := int_bounds_cast lo hi is hb
  cases p <;> cases t
  · -- uniform identity
    refine ⟨.vals (is.map Val.int), rfl, ?_⟩
    have := toRows_vals_int is
    simpa [List.map_map, Function.comp_def, cellT] using this
  · -- uniform normalize
    refine ⟨.vals (is.map (fun (i : Int) => Val.num (((i : Rat) - lo) / (hi - lo)))), ?_, ?_⟩
    · exact runTransform_two L _ _ _ _ _ (identity_transform L _)
        (normalize_int_transform L lo hi is (le_of_lt hlt) (by
          intro i hi'
          exact hbq _ (List.mem_map.mpr ⟨i, hi', rfl⟩)))
    · have := toRows_vals_num_int is (fun i => ((i : Rat) - lo) / (hi - lo))
      simpa [List.map_map, Function.comp_def, cellT] using this
  · -- log-uniform identity
    refine ⟨.vals (is.map (fun (i : Int) => Val.num (L (i : Rat)))), ?_, ?_⟩
    · have := logN_transform L _ _ (nums_map_int .valueError is)
      rw [List.map_map] at this
      exact runTransform_one L _ _ _ this
    · have := toRows_vals_num_int is (fun i => L (i : Rat))
      simpa [List.map_map, Function.comp_def, cellT] using this
  · -- log-uniform normalize
    have hpos : (0 : Rat) < (lo : Rat) := by simp [Dim.wf] at hwf; exact_mod_cast hwf.2
    refine ⟨.vals (is.map (fun (i : Int) =>
      Val.num ((L (i : Rat) - L (lo : Rat)) / (L (hi : Rat) - L (lo : Rat))))), ?_, ?_⟩
    · have h1 := logN_transform L _ _ (nums_map_int .valueError is)
      rw [List.map_map] at h1
      have hn : nums .typeError (is.map ((fun x => Val.num (L x)) ∘ fun (i : Int) => (i : Rat))) =
          .ok (is.map (fun (i : Int) => L (i : Rat))) := by
        have := nums_map_num .typeError (is.map (fun (i : Int) => L (i : Rat)))
        simpa [List.map_map, Function.comp_def] using this
      have h2 := normalize_transform L (L lo) (L hi) _ _ hn (hM lo hi hpos (le_of_lt hlt))
        (by
          intro y hy
          obtain ⟨i, hi', rfl⟩ := List.mem_map.mp hy
          have := hbq _ (List.mem_map.mpr ⟨i, hi', rfl⟩)
          exact ⟨hM lo i hpos this.1, hM i hi (lt_of_lt_of_le hpos this.1) this.2⟩)
      rw [List.map_map] at h2
      exact runTransform_two L _ _ _ _ _ h1 h2
    · have := toRows_vals_num_int is (fun i => (L (i : Rat) - L (lo : Rat)) / (L (hi : Rat) - L (lo : Rat)))
      simpa [List.map_map, Function.comp_def, cellT] using this

theorem int_inverse_ok (L E : Rat → Rat) (lo hi : Int) (p : Prior) (t : NumTr)
    (hwf : (Dim.int lo hi p t).wf = true) (hM : MonoOn L) (hI : InvOn L E) (is : List Int)
    (hb : ∀ i ∈ is, lo ≤ i ∧ i ≤ hi) :
    (Dim.int lo hi p t).inverseTransform L E
      (reslice 1 ((is.map Val.int).map (cellT L (.int lo hi p t)))) = .ok (is.map Val.int) := by
  have hlt : (lo : Rat) < (hi : Rat) := by
    simp [Dim.wf] at hwf; exact_mod_cast hwf.1
  have hbq := int_bounds_cast lo hi is hb
  have hclip : (is.map (fun (i : Int) => (i : Rat))).map
      (fun y => Val.int (roundHalfEven (clip (lo : Rat) (hi : Rat) y))) = is.map Val.int := by
    rw [List.map_map]
    apply List.map_congr_left
    intro i hi'
    have := hbq _ (List.mem_map.mpr ⟨i, hi', rfl⟩)
    simp [clip_id _ _ _ this.1 this.2, roundHalfEven_intCast]
  cases p <;> cases t
  · -- uniform identity
    have hs : reslice 1 ((is.map Val.int).map (cellT L (.int lo hi .uniform .identity))) =
        .vals ((is.map (fun (i : Int) => (i : Rat))).map Val.num) := by
      simp [reslice, List.map_map, Function.comp_def, cellT, flatten_map_singleton]
    have ht : ((Dim.int lo hi .uniform .identity).transformer L).inverse E
        (.vals ((is.map (fun (i : Int) => (i : Rat))).map Val.num)) =
        .ok (.vals ((is.map (fun (i : Int) => (i : Rat))).map Val.num)) :=
      runInverse_one E _ _ _ (identity_inverse E _)
    rw [hs, inverseTransform_int L E lo hi _ _ _ _ _ ht (nums_map_num _ _), hclip]
  · -- uniform normalize
    have hs : reslice 1 ((is.map Val.int).map (cellT L (.int lo hi .uniform .normalize))) =
        .vals ((is.map (fun (i : Int) => ((i : Rat) - lo) / (hi - lo))).map Val.num) := by
      simp [reslice, List.map_map, Function.comp_def, cellT, flatten_map_singleton]
    have h1 := normalize_inverse E lo hi true (is.map (fun (i : Int) => ((i : Rat) - lo) / (hi - lo))) (by
      intro t ht
      obtain ⟨i, hi', rfl⟩ := List.mem_map.mp ht
      have := hbq _ (List.mem_map.mpr ⟨i, hi', rfl⟩)
      exact norm_range i lo hi hlt this.1 this.2)
    have h2 : (is.map (fun (i : Int) => ((i : Rat) - lo) / (hi - lo))).map (fun t =>
        if true = true then Val.int (roundHalfEven (t * ((hi : Rat) - lo) + lo))
        else Val.num (t * ((hi : Rat) - lo) + lo)) = is.map Val.int := by
      rw [List.map_map]
      apply List.map_congr_left
      intro i _
      simp [norm_denorm (i : Rat) lo hi hlt, roundHalfEven_intCast]
    rw [h2] at h1
    have ht : ((Dim.int lo hi .uniform .normalize).transformer L).inverse E
        (.vals ((is.map (fun (i : Int) => ((i : Rat) - lo) / (hi - lo))).map Val.num)) =
        .ok (.vals (is.map Val.int)) := runInverse_two E _ _ _ _ _ h1 (identity_inverse E _)
    rw [hs, inverseTransform_int L E lo hi _ _ _ _ _ ht (nums_map_int _ _), hclip]
  · -- log-uniform identity
    have hpos : (0 : Rat) < (lo : Rat) := by simp [Dim.wf] at hwf; exact_mod_cast hwf.2
    have hs : reslice 1 ((is.map Val.int).map (cellT L (.int lo hi .logUniform .identity))) =
        .vals ((is.map (fun (i : Int) => L (i : Rat))).map Val.num) := by
      simp [reslice, List.map_map, Function.comp_def, cellT, flatten_map_singleton]
    have h1 := logN_inverse E (is.map (fun (i : Int) => L (i : Rat)))
    have h2 : (is.map (fun (i : Int) => L (i : Rat))).map (fun t => Val.num (E t)) =
        (is.map (fun (i : Int) => (i : Rat))).map Val.num := by
      rw [List.map_map, List.map_map]
      apply List.map_congr_left
      intro i hi'
      have := hbq _ (List.mem_map.mpr ⟨i, hi', rfl⟩)
      simp [hI i (lt_of_lt_of_le hpos this.1)]
    rw [h2] at h1
    have ht : ((Dim.int lo hi .logUniform .identity).transformer L).inverse E
        (.vals ((is.map (fun (i : Int) => L (i : Rat))).map Val.num)) =
        .ok (.vals ((is.map (fun (i : Int) => (i : Rat))).map Val.num)) := runInverse_one E _ _ _ h1
    rw [hs, inverseTransform_int L E lo hi _ _ _ _ _ ht (nums_map_num _ _), hclip]
  · -- log-uniform normalize
    have hpos : (0 : Rat) < (lo : Rat) := by simp [Dim.wf] at hwf; exact_mod_cast hwf.2
    have hL := L_strict L E hM hI lo hi hpos hlt
    have hs : reslice 1 ((is.map Val.int).map (cellT L (.int lo hi .logUniform .normalize))) =
        .vals ((is.map (fun (i : Int) => (L (i : Rat) - L lo) / (L hi - L lo))).map Val.num) := by
      simp [reslice, List.map_map, Function.comp_def, cellT, flatten_map_singleton]
    have h1 := normalize_inverse E (L lo) (L hi) false
      (is.map (fun (i : Int) => (L (i : Rat) - L lo) / (L hi - L lo))) (by
      intro t ht
      obtain ⟨i, hi', rfl⟩ := List.mem_map.mp ht
      have hq' := hbq _ (List.mem_map.mpr ⟨i, hi', rfl⟩)
      exact norm_range (L i) (L lo) (L hi) hL (hM lo i hpos hq'.1)
        (hM i hi (lt_of_lt_of_le hpos hq'.1) hq'.2))
    have h2 : (is.map (fun (i : Int) => (L (i : Rat) - L lo) / (L hi - L lo))).map (fun t =>
        if false = true then Val.int (roundHalfEven (t * (L hi - L lo) + L lo))
        else Val.num (t * (L hi - L lo) + L lo)) = (is.map (fun (i : Int) => L (i : Rat))).map Val.num := by
      rw [List.map_map, List.map_map]
      apply List.map_congr_left
      intro i _
      simp [norm_denorm (L i) (L lo) (L hi) hL]
    rw [h2] at h1
    have h3 := logN_inverse E (is.map (fun (i : Int) => L (i : Rat)))
    have h4 : (is.map (fun (i : Int) => L (i : Rat))).map (fun t => Val.num (E t)) =
        (is.map (fun (i : Int) => (i : Rat))).map Val.num := by
      rw [List.map_map, List.map_map]
      apply List.map_congr_left
      intro i hi'
      have := hbq _ (List.mem_map.mpr ⟨i, hi', rfl⟩)
      simp [hI i (lt_of_lt_of_le hpos this.1)]
    rw [h4] at h3
    have ht : ((Dim.int lo hi .logUniform .normalize).transformer L).inverse E
        (.vals ((is.map (fun (i : Int) => (L (i : Rat) - L lo) / (L hi - L lo))).map Val.num)) =
        .ok (.vals ((is.map (fun (i : Int) => (i : Rat))).map Val.num)) :=
      runInverse_two E _ _ _ _ _ h1 h3
    rw [hs, inverseTransform_int L E lo hi _ _ _ _ _ ht (nums_map_num _ _), hclip]

end DH.Space
