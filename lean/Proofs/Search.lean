import Model.Search

/-! Helper lemmas for C03 (core Lean only). -/

namespace DH.Search

/-- between two `search()` calls the evaluator is quiescent: nothing running, every job ever
created has been gathered and written to the table -/
structure Quiet (s : Ev) : Prop where
  running : s.running = 0
  stored : s.stored = s.gathered
  pending : s.pending = 0
  rows : s.rows = s.gathered
  offset : s.offset ≤ (s.gathered : Int)

/-- the fields the loop never writes -/
def SameCfg (s s' : Ev) : Prop :=
  s'.W = s.W ∧ s'.offset = s.offset ∧ s'.maxSub = s.maxSub ∧ s'.timeoutSet = s.timeoutSet

/-- bookkeeping that holds at every point of a call: created = gathered + running,
everything gathered is either pending or written -/
structure Books (s : Ev) : Prop where
  stored : s.stored = s.gathered + s.running
  rows : s.rows + s.pending = s.gathered

/-- closes the arithmetic / reflexivity side goals left after unfolding record updates -/
macro "fin" : tactic =>
  `(tactic| first | rfl | trivial | assumption | omega | (simp; done) | (simp; omega)
                  | (dsimp only; omega) | (simp at *; done) | (simp at *; omega))

/-! ### `submit` -/

structure SubmitSpec (s : Ev) (k : Nat) (r : Ev × Bool) : Prop where
  cfg : SameCfg s r.1
  gathered : r.1.gathered = s.gathered
  pending : r.1.pending = s.pending
  rows : r.1.rows = s.rows
  asks : r.1.asks = s.asks
  le : s.stored ≤ r.1.stored
  run : r.1.running + s.stored = s.running + r.1.stored
  upper : r.1.stored ≤ s.stored + k
  all : r.2 = false → r.1.stored = s.stored + k
  raised : r.2 = true → 0 < s.maxSub ∧ s.maxSub ≤ numSubmitted r.1
  capped : 0 < s.maxSub → numSubmitted s ≤ s.maxSub → numSubmitted r.1 ≤ s.maxSub
  nocap : s.maxSub ≤ 0 → r.2 = false

theorem submit_spec : ∀ (k : Nat) (s : Ev), SubmitSpec s k (submit s k)
  | 0, s => by
    simp only [submit]
    constructor <;> (try unfold SameCfg) <;> (try dsimp only) <;> (try intros) <;> fin
  | k + 1, s => by
    simp only [submit]
    split
    · next h =>
      constructor <;> (try unfold SameCfg) <;> (try dsimp only) <;> (try intros) <;> fin
    · next h =>
      have ih := submit_spec k { s with stored := s.stored + 1, running := s.running + 1 }
      obtain ⟨⟨c1, c2, c3, c4⟩, g, p, r, a, le, run, up, all, raised, capped, nocap⟩ := ih
      simp only at c1 c2 c3 c4 g p r a le run up all raised capped nocap
      refine ⟨⟨c1, c2, c3, c4⟩, g, p, r, a, by omega, by omega, by omega, ?_, raised, ?_, nocap⟩
      · intro h'; have := all h'; omega
      · intro hpos hle
        apply capped hpos
        simp only [numSubmitted] at h hle ⊢
        omega

/-! ### `gatherBatch1`, `gatherAll`, `dump`, `drain`, `close` -/

/-- the state after a gather that reported `g` finished jobs -/
def afterGather (s : Ev) (g : Nat) : Ev :=
  { s with running := s.running - g, gathered := s.gathered + g, pending := s.pending + g }

theorem gatherBatch1_ok {s : Ev} {g : Nat} (h : (gatherBatch1 s g).2 = .ok) :
    1 ≤ g ∧ g ≤ s.running ∧ gatherBatch1 s g = (afterGather s g, .ok) := by
  unfold gatherBatch1 at h ⊢
  split at h
  · simp at h
  · split at h
    · simp at h
    · next h1 h2 => simp only [h1, h2, if_false, afterGather]; and_intros <;> fin

theorem gatherBatch1_noJobs {s : Ev} {g : Nat} (h : (gatherBatch1 s g).2 = .noJobs) :
    s.running = 0 := by
  unfold gatherBatch1 at h
  split at h
  · assumption
  · split at h <;> simp at h

theorem gatherBatch1_badEnv {s : Ev} {g : Nat} (h : (gatherBatch1 s g).2 = .badEnv) :
    gatherBatch1 s g = (s, .badEnv) := by
  unfold gatherBatch1 at h ⊢
  split at h
  · simp at h
  · split at h
    · next h1 h2 => simp only [h1, h2, if_true, if_false]
    · simp at h

theorem drain_spec {s : Ev} (hb : Books s) (hp : s.pending = 0) :
    (drain s).2 = false ∧ SameCfg s (drain s).1 ∧ Books (drain s).1 ∧
    (drain s).1.running = 0 ∧ (drain s).1.pending = 0 ∧ (drain s).1.stored = s.stored ∧
    (drain s).1.asks = s.asks := by
  obtain ⟨h1, h2⟩ := hb
  unfold drain
  by_cases h : numSubmitted s > numGathered s
  · simp only [h, if_true]
    have : ¬ (numSubmitted (dump (gatherAll s)) > numGathered (dump (gatherAll s))) := by
      simp only [numSubmitted, numGathered, gatherAll, dump]; omega
    simp only [this, if_false]
    simp only [gatherAll, dump]
    refine ⟨?_, ?_, ⟨?_, ?_⟩, ?_, ?_, ?_, ?_⟩ <;> (try unfold SameCfg) <;> fin
  · simp only [h, if_false]
    simp only [numSubmitted, numGathered] at h
    have hr : s.running = 0 := by omega
    refine ⟨?_, ?_, ⟨?_, ?_⟩, ?_, ?_, ?_, ?_⟩ <;> (try unfold SameCfg) <;> fin

theorem close_idle {s : Ev} (h : s.running = 0) : close s = s := by
  cases s; simp only [close] at *; subst h; simp

theorem dump_idle {s : Ev} (h : s.pending = 0) : dump s = s := by
  cases s; simp only [dump] at *; subst h; simp

/-! ### the loop, non-strict budget (`num_evals = num_jobs_gathered`, no cap) -/

/-- what the loop guarantees in non-strict mode, relative to the call's entry count `G0`
(`target = n + (G0 - offset)`) -/
structure PlainSpec (n G0 W : Nat) (env : List Step) (s : Ev) (r : Ev × Stop) : Prop where
  cfg : SameCfg s r.1
  books : Books r.1
  pending : r.1.pending = 0
  le : s.stored ≤ r.1.stored
  upper : r.1.stored < G0 + n + W
  stops : r.2 = .budget ∨ r.2 = .timeout ∨ r.2 = .badEnv ∨ r.2 = .envExhausted
  budget : r.2 = .budget → G0 + n ≤ r.1.gathered
  timeout : r.2 = .timeout → s.timeoutSet = true ∧ ∃ st ∈ env, st.expired = true
  badEnv : r.2 = .badEnv → ∃ st ∈ env, st.g = 0 ∨ W < st.g
  exhausted : r.2 = .envExhausted → s.gathered + env.length < G0 + n

macro "plain_spec" : tactic =>
  `(tactic| (refine ⟨⟨?_, ?_, ?_, ?_⟩, ⟨?_, ?_⟩, ?_, ?_, ?_, ?_, ?_, ?_, ?_, ?_⟩ <;>
      (try dsimp only) <;> (try intros) <;> fin))

theorem exists_mem_cons {α} {P : α → Prop} {a : α} {l : List α} (h : ∃ x ∈ l, P x) :
    ∃ x ∈ a :: l, P x := by
  obtain ⟨x, hx, hp⟩ := h
  exact ⟨x, List.mem_cons_of_mem _ hx, hp⟩

theorem loop_plain (n : Nat) (G0 : Nat) (W : Nat) (hW : 1 ≤ W) :
    ∀ (env : List Step) (s : Ev) (nAsk : Nat) (T : Int),
      T = (n : Int) + ((G0 : Int) - s.offset) →
      s.W = W → s.maxSub ≤ 0 → Books s → s.pending = 0 → s.running + nAsk = W →
      G0 ≤ s.gathered → s.stored < G0 + n + W → s.offset ≤ (G0 : Int) →
      PlainSpec n G0 W env s (loop false T s nAsk env) := by
  intro env
  induction env with
  | nil =>
    intro s nAsk T hT hsW hcap hb hp hrun hG hup hoff
    obtain ⟨hb1, hb2⟩ := hb
    unfold loop
    simp only [numEvals, numGathered, Bool.false_eq_true, if_false]
    split
    · next hc =>
      have hlt : s.gathered < G0 + n := by omega
      have sp := submit_spec nAsk { s with asks := s.asks ++ [nAsk] }
      generalize hsub : submit { s with asks := s.asks ++ [nAsk] } nAsk = sub at sp ⊢
      obtain ⟨s1, raised⟩ := sub
      obtain ⟨⟨c1, c2, c3, c4⟩, sg, spd, sr, _, sle, srun, sup, sall, _, _, snocap⟩ := sp
      simp only at c1 c2 c3 c4 sg spd sr sle srun sup sall snocap
      have hnr := snocap hcap
      subst hnr
      simp only [Bool.false_eq_true, if_false]
      have hst := sall rfl
      plain_spec
    · plain_spec
  | cons st rest ih =>
    intro s nAsk T hT hsW hcap hb hp hrun hG hup hoff
    obtain ⟨hb1, hb2⟩ := hb
    unfold loop
    simp only [numEvals, numGathered, Bool.false_eq_true, if_false]
    split
    · next hc =>
      have hlt : s.gathered < G0 + n := by omega
      have sp := submit_spec nAsk { s with asks := s.asks ++ [nAsk] }
      generalize hsub : submit { s with asks := s.asks ++ [nAsk] } nAsk = sub at sp ⊢
      obtain ⟨s1, raised⟩ := sub
      obtain ⟨⟨c1, c2, c3, c4⟩, sg, spd, sr, _, sle, srun, sup, sall, _, _, snocap⟩ := sp
      simp only at c1 c2 c3 c4 sg spd sr sle srun sup sall snocap
      have hnr := snocap hcap
      subst hnr
      simp only [Bool.false_eq_true, if_false]
      have hst := sall rfl
      -- after the submit: running = W
      cases hga : (gatherBatch1 s1 st.g).2 with
      | noJobs =>
        have := gatherBatch1_noJobs hga
        omega
      | badEnv =>
        have hbad : st.g = 0 ∨ W < st.g := by
          unfold gatherBatch1 at hga
          split at hga
          · simp at hga
          · split at hga
            · next h => omega
            · simp at hga
        rw [gatherBatch1_badEnv hga]
        refine ⟨⟨?_, ?_, ?_, ?_⟩, ⟨?_, ?_⟩, ?_, ?_, ?_, ?_, ?_, ?_, ?_, ?_⟩ <;>
          (try dsimp only) <;> (try intros) <;>
          first | fin | exact ⟨st, List.mem_cons_self .., hbad⟩
      | ok =>
        obtain ⟨hg1, hg2, heq⟩ := gatherBatch1_ok hga
        simp only [heq]
        split
        · next ht =>
          have ht1 : s.timeoutSet = true := by
            simp only [dump, afterGather] at ht; rw [← c4]; exact ht.1
          have ht2 : st.expired = true := ht.2
          simp only [dump, afterGather]
          refine ⟨⟨?_, ?_, ?_, ?_⟩, ⟨?_, ?_⟩, ?_, ?_, ?_, ?_, ?_, ?_, ?_, ?_⟩ <;>
            (try dsimp only) <;> (try intros) <;>
            first | fin | exact ⟨ht1, st, List.mem_cons_self .., ht2⟩
        · next ht =>
          have := ih (dump (afterGather s1 st.g)) st.g T
            (by simp [dump, afterGather]; omega)
            (by simp [dump, afterGather]; omega) (by simp [dump, afterGather]; omega)
            ⟨by simp [dump, afterGather]; omega, by simp [dump, afterGather]; omega⟩
            (by simp [dump, afterGather])
            (by simp [dump, afterGather]; omega) (by simp [dump, afterGather]; omega)
            (by simp [dump, afterGather]; omega) (by simp [dump, afterGather]; omega)
          generalize loop false T (dump (afterGather s1 st.g)) st.g rest = r at this ⊢
          obtain ⟨⟨d1, d2, d3, d4⟩, db, dp, dle, dup, dstop, dbud, dto, dbad, dex⟩ := this
          simp only [dump, afterGather] at d1 d2 d3 d4 dle dto dex
          refine ⟨⟨by omega, by omega, by omega, by rw [d4, c4]⟩, db, dp, by omega, dup, dstop,
            dbud, ?_, ?_, ?_⟩
          · intro h; exact ⟨by rw [← c4]; exact (dto h).1, exists_mem_cons (dto h).2⟩
          · intro h; exact exists_mem_cons (dbad h)
          · intro h; have := dex h; simp only [List.length_cons]; omega
    · next hc =>
      plain_spec

/-! ### the loop, strict budget (`num_evals = num_jobs_submitted`, cap = `n`, offset = entry count) -/

structure StrictSpec (n G0 W : Nat) (env : List Step) (s : Ev) (r : Ev × Stop) : Prop where
  cfg : SameCfg s r.1
  books : Books r.1
  pending : r.1.pending = 0
  le : s.stored ≤ r.1.stored
  upper : r.1.stored ≤ G0 + n
  stops : r.2 = .budget ∨ r.2 = .cap ∨ r.2 = .timeout ∨ r.2 = .badEnv ∨ r.2 = .envExhausted
  exact : r.2 = .budget ∨ r.2 = .cap → r.1.stored = G0 + n
  timeout : r.2 = .timeout → s.timeoutSet = true ∧ ∃ st ∈ env, st.expired = true
  badEnv : r.2 = .badEnv → ∃ st ∈ env, st.g = 0 ∨ W < st.g
  exhausted : r.2 = .envExhausted → s.stored + env.length < G0 + n

macro "strict_spec" : tactic =>
  `(tactic| (refine ⟨⟨?_, ?_, ?_, ?_⟩, ⟨?_, ?_⟩, ?_, ?_, ?_, ?_, ?_, ?_, ?_, ?_⟩ <;>
      (try dsimp only) <;> (try intros) <;> fin))

theorem loop_strict (n : Nat) (G0 : Nat) (W : Nat) (hW : 1 ≤ W) :
    ∀ (env : List Step) (s : Ev) (nAsk : Nat),
      s.W = W → s.maxSub = (n : Int) → s.offset = (G0 : Int) → Books s → s.pending = 0 →
      s.running + nAsk = W → 1 ≤ nAsk → G0 ≤ s.stored → s.stored ≤ G0 + n →
      StrictSpec n G0 W env s (loop true (n : Int) s nAsk env) := by
  intro env
  induction env with
  | nil =>
    intro s nAsk hsW hcap hoff hb hp hrun hask hG hup
    obtain ⟨hb1, hb2⟩ := hb
    unfold loop
    simp only [numEvals, numSubmitted, if_true]
    split
    · next hc =>
      have hlt : s.stored < G0 + n := by omega
      have sp := submit_spec nAsk { s with asks := s.asks ++ [nAsk] }
      generalize hsub : submit { s with asks := s.asks ++ [nAsk] } nAsk = sub at sp ⊢
      obtain ⟨s1, raised⟩ := sub
      obtain ⟨⟨c1, c2, c3, c4⟩, sg, spd, sr, _, sle, srun, sup, sall, sraised, scapped, _⟩ := sp
      simp only [numSubmitted] at c1 c2 c3 c4 sg spd sr sle srun sup sall sraised scapped
      have hcapd := scapped (by omega) (by omega)
      cases raised with
      | true =>
        have := sraised rfl
        simp only [if_true]
        strict_spec
      | false =>
        simp only [Bool.false_eq_true, if_false]
        have hst := sall rfl
        strict_spec
    · strict_spec
  | cons st rest ih =>
    intro s nAsk hsW hcap hoff hb hp hrun hask hG hup
    obtain ⟨hb1, hb2⟩ := hb
    unfold loop
    simp only [numEvals, numSubmitted, if_true]
    split
    · next hc =>
      have hlt : s.stored < G0 + n := by omega
      have sp := submit_spec nAsk { s with asks := s.asks ++ [nAsk] }
      generalize hsub : submit { s with asks := s.asks ++ [nAsk] } nAsk = sub at sp ⊢
      obtain ⟨s1, raised⟩ := sub
      obtain ⟨⟨c1, c2, c3, c4⟩, sg, spd, sr, _, sle, srun, sup, sall, sraised, scapped, _⟩ := sp
      simp only [numSubmitted] at c1 c2 c3 c4 sg spd sr sle srun sup sall sraised scapped
      have hcapd := scapped (by omega) (by omega)
      cases raised with
      | true =>
        have := sraised rfl
        simp only [if_true]
        strict_spec
      | false =>
        simp only [Bool.false_eq_true, if_false]
        have hst := sall rfl
        cases hga : (gatherBatch1 s1 st.g).2 with
        | noJobs =>
          have := gatherBatch1_noJobs hga
          omega
        | badEnv =>
          have hbad : st.g = 0 ∨ W < st.g := by
            unfold gatherBatch1 at hga
            split at hga
            · simp at hga
            · split at hga
              · next h => omega
              · simp at hga
          rw [gatherBatch1_badEnv hga]
          refine ⟨⟨?_, ?_, ?_, ?_⟩, ⟨?_, ?_⟩, ?_, ?_, ?_, ?_, ?_, ?_, ?_, ?_⟩ <;>
            (try dsimp only) <;> (try intros) <;>
            first | fin | exact ⟨st, List.mem_cons_self .., hbad⟩
        | ok =>
          obtain ⟨hg1, hg2, heq⟩ := gatherBatch1_ok hga
          simp only [heq]
          split
          · next ht =>
            have ht1 : s.timeoutSet = true := by
              simp only [dump, afterGather] at ht; rw [← c4]; exact ht.1
            have ht2 : st.expired = true := ht.2
            simp only [dump, afterGather]
            refine ⟨⟨?_, ?_, ?_, ?_⟩, ⟨?_, ?_⟩, ?_, ?_, ?_, ?_, ?_, ?_, ?_, ?_⟩ <;>
              (try dsimp only) <;> (try intros) <;>
              first | fin | exact ⟨ht1, st, List.mem_cons_self .., ht2⟩
          · next ht =>
            have := ih (dump (afterGather s1 st.g)) st.g
              (by simp [dump, afterGather]; omega) (by simp [dump, afterGather]; omega)
              (by simp [dump, afterGather]; omega)
              ⟨by simp [dump, afterGather]; omega, by simp [dump, afterGather]; omega⟩
              (by simp [dump, afterGather])
              (by simp [dump, afterGather]; omega) (by omega)
              (by simp [dump, afterGather]; omega) (by simp [dump, afterGather]; omega)
            generalize loop true (n : Int) (dump (afterGather s1 st.g)) st.g rest = r at this ⊢
            obtain ⟨⟨d1, d2, d3, d4⟩, db, dp, dle, dup, dstop, dex, dto, dbad, dexh⟩ := this
            simp only [dump, afterGather] at d1 d2 d3 d4 dle dto dexh
            refine ⟨⟨by omega, by omega, by omega, by rw [d4, c4]⟩, db, dp, by omega, dup, dstop,
              dex, ?_, ?_, ?_⟩
            · intro h; exact ⟨by rw [← c4]; exact (dto h).1, exists_mem_cons (dto h).2⟩
            · intro h; exact exists_mem_cons (dbad h)
            · intro h; have := dexh h; simp only [List.length_cons]; omega
    · next hc =>
      strict_spec

/-! ### the loop in general (any target, any cap): bookkeeping only -/

structure AnySpec (s : Ev) (r : Ev × Stop) : Prop where
  cfg : SameCfg s r.1
  books : Books r.1
  pending : r.1.pending = 0
  le : s.stored ≤ r.1.stored
  stops : r.2 = .budget ∨ r.2 = .cap ∨ r.2 = .timeout ∨ r.2 = .badEnv ∨ r.2 = .envExhausted
  timeout : r.2 = .timeout → s.timeoutSet = true

macro "any_spec" : tactic =>
  `(tactic| (refine ⟨⟨?_, ?_, ?_, ?_⟩, ⟨?_, ?_⟩, ?_, ?_, ?_, ?_⟩ <;>
      (try dsimp only) <;> (try intros) <;> fin))

theorem loop_any (strict : Bool) (T : Int) (W : Nat) (hW : 1 ≤ W) :
    ∀ (env : List Step) (s : Ev) (nAsk : Nat),
      s.W = W → Books s → s.pending = 0 → s.running + nAsk = W → 1 ≤ nAsk →
      AnySpec s (loop strict T s nAsk env) := by
  intro env
  induction env with
  | nil =>
    intro s nAsk hsW hb hp hrun hask
    obtain ⟨hb1, hb2⟩ := hb
    unfold loop
    dsimp only
    split
    · next hc =>
      have sp := submit_spec nAsk { s with asks := s.asks ++ [nAsk] }
      generalize hsub : submit { s with asks := s.asks ++ [nAsk] } nAsk = sub at sp ⊢
      obtain ⟨s1, raised⟩ := sub
      obtain ⟨⟨c1, c2, c3, c4⟩, sg, spd, sr, _, sle, srun, sup, sall, _, _, _⟩ := sp
      simp only at c1 c2 c3 c4 sg spd sr sle srun sup sall
      cases raised with
      | true =>
        simp only [if_true]
        any_spec
      | false =>
        simp only [Bool.false_eq_true, if_false]
        have hst := sall rfl
        any_spec
    · any_spec
  | cons st rest ih =>
    intro s nAsk hsW hb hp hrun hask
    obtain ⟨hb1, hb2⟩ := hb
    unfold loop
    dsimp only
    split
    · next hc =>
      have sp := submit_spec nAsk { s with asks := s.asks ++ [nAsk] }
      generalize hsub : submit { s with asks := s.asks ++ [nAsk] } nAsk = sub at sp ⊢
      obtain ⟨s1, raised⟩ := sub
      obtain ⟨⟨c1, c2, c3, c4⟩, sg, spd, sr, _, sle, srun, sup, sall, _, _, _⟩ := sp
      simp only at c1 c2 c3 c4 sg spd sr sle srun sup sall
      cases raised with
      | true =>
        simp only [if_true]
        any_spec
      | false =>
        simp only [Bool.false_eq_true, if_false]
        have hst := sall rfl
        cases hga : (gatherBatch1 s1 st.g).2 with
        | noJobs =>
          have := gatherBatch1_noJobs hga
          omega
        | badEnv =>
          rw [gatherBatch1_badEnv hga]
          any_spec
        | ok =>
          obtain ⟨hg1, hg2, heq⟩ := gatherBatch1_ok hga
          simp only [heq]
          split
          · next ht =>
            have ht1 : s.timeoutSet = true := by
              simp only [dump, afterGather] at ht; rw [← c4]; exact ht.1
            simp only [dump, afterGather]
            any_spec
          · next ht =>
            have := ih (dump (afterGather s1 st.g)) st.g
              (by simp [dump, afterGather]; omega)
              ⟨by simp [dump, afterGather]; omega, by simp [dump, afterGather]; omega⟩
              (by simp [dump, afterGather])
              (by simp [dump, afterGather]; omega) (by omega)
            generalize loop strict T (dump (afterGather s1 st.g)) st.g rest = r at this ⊢
            obtain ⟨⟨d1, d2, d3, d4⟩, db, dp, dle, dstop, dto⟩ := this
            simp only [dump, afterGather] at d1 d2 d3 d4 dle dto
            exact ⟨⟨by omega, by omega, by omega, by rw [d4, c4]⟩, db, dp, by omega, dstop,
              fun h => by rw [← c4]; exact dto h⟩
    · next hc =>
      any_spec

/-! ### `searchCall` on the repaired code, split into its phases -/

/-- `_check_timeout` raises -/
def badTimeout (c : Call) : Bool :=
  match c.timeout with | some t => decide (t ≤ 0) | none => false

/-- the evaluator after the cap / timeout have been (re)set for this call -/
def prep (s : Ev) (c : Call) : Ev :=
  let s1 := if c.strict then setMax {} s c.maxEvals else { s with maxSub := -1 }
  match c.timeout with
  | some _ => { s1 with timeoutSet := true }
  | none => { s1 with timeoutSet := false }

def target (c : Call) (s2 : Ev) : Int :=
  if c.maxEvals < 0 then c.maxEvals else c.maxEvals + numEvals c.strict s2

/-- everything after the loop -/
def finish (s : Ev) (lp : Ev × Stop) : Ev × Out :=
  match lp.2 with
  | .noJobs => (lp.1, mkOut s lp.1 .noJobs false)
  | .badEnv => (lp.1, mkOut s lp.1 .badEnv false)
  | .envExhausted => (lp.1, mkOut s lp.1 .envExhausted false)
  | stop =>
    let dr := drain lp.1
    if dr.2 then (dr.1, mkOut s dr.1 .hang false)
    else
      let s5 := dump (close dr.1)
      (s5, mkOut s s5 stop true)

theorem searchCall_def (s : Ev) (c : Call) (env : List Step) :
    searchCall {} s c env =
      if badTimeout c then (s, mkOut s s .badTimeout false)
      else finish s (loop c.strict (target c (prep s c)) (prep s c) (prep s c).W env) := by
  obtain ⟨n, strict, to⟩ := c
  cases to <;> cases strict <;> rfl

theorem prep_spec {s : Ev} (c : Call) (hq : Quiet s) :
    (prep s c).W = s.W ∧ Books (prep s c) ∧ (prep s c).pending = 0 ∧ (prep s c).running = 0 ∧
    (prep s c).stored = s.stored ∧ (prep s c).gathered = s.gathered ∧ (prep s c).rows = s.rows ∧
    (prep s c).asks = s.asks ∧
    (prep s c).offset ≤ (s.gathered : Int) ∧
    (prep s c).timeoutSet = c.timeout.isSome ∧
    (c.strict = true → (prep s c).offset = (s.gathered : Int) ∧ (prep s c).maxSub = c.maxEvals) ∧
    (c.strict = false → (prep s c).offset = s.offset ∧ (prep s c).maxSub = -1) := by
  obtain ⟨q1, q2, q3, q4, q5⟩ := hq
  obtain ⟨n, strict, to⟩ := c
  cases to <;> cases strict <;> simp [prep, setMax] <;> (refine ⟨⟨?_, ?_⟩, ?_⟩ <;> fin)

/-- the part of `finish` that runs when the loop ended by budget / cap / timeout -/
theorem finish_settled {s : Ev} {lp : Ev × Stop} (hb : Books lp.1) (hp : lp.1.pending = 0)
    (hstop : lp.2 = .budget ∨ lp.2 = .cap ∨ lp.2 = .timeout) :
    finish s lp = ((drain lp.1).1, mkOut s (drain lp.1).1 lp.2 true) := by
  obtain ⟨hd, _, hdb, hdr, hdp, _, _⟩ := drain_spec hb hp
  obtain ⟨l1, l2⟩ := lp
  simp only at hstop hd hdr hdp ⊢
  unfold finish
  rcases hstop with h | h | h <;> subst h <;>
    simp only [hd, close_idle hdr, dump_idle hdp, Bool.false_eq_true, if_false]

theorem finish_unsettled {s : Ev} {lp : Ev × Stop}
    (hstop : lp.2 = .badEnv ∨ lp.2 = .envExhausted) :
    finish s lp = (lp.1, mkOut s lp.1 lp.2 false) := by
  unfold finish
  rcases hstop with h | h <;> rw [h]

/-- the evaluator is settled after the call: it returned (budget, cap or timeout) or raised
`ValueError` before touching anything -/
def Settled (o : Out) : Prop :=
  o.stop = .budget ∨ o.stop = .cap ∨ o.stop = .timeout ∨ o.stop = .badTimeout

/-- everything a settled call guarantees, whatever its arguments -/
structure CallSpec (s : Ev) (r : Ev × Out) : Prop where
  quiet : Quiet r.1
  W : r.1.W = s.W
  rows : r.1.rows = s.rows + r.2.evals
  table : r.2.stop ≠ .badTimeout → r.2.table = if r.1.rows = 0 then none else some r.1.rows

theorem searchCall_settled (s : Ev) (c : Call) (env : List Step) (hW : 1 ≤ s.W) (hq : Quiet s)
    (hs : Settled (searchCall {} s c env).2) : CallSpec s (searchCall {} s c env) := by
  rw [searchCall_def] at hs ⊢
  cases hbt : badTimeout c with
  | true =>
    simp only [if_true, mkOut]
    exact ⟨hq, rfl, by simp, by simp⟩
  | false =>
    simp only [hbt, Bool.false_eq_true, if_false] at hs ⊢
    obtain ⟨p1, p2, p3, p4, p5, p6, p7, p8, p9, p10, p11, p12⟩ := prep_spec c hq
    have la := loop_any c.strict (target c (prep s c)) s.W hW env (prep s c) (prep s c).W
      p1 p2 p3 (by omega) (by omega)
    generalize loop c.strict (target c (prep s c)) (prep s c) (prep s c).W env = lp at la hs ⊢
    obtain ⟨⟨c1, c2, c3, c4⟩, lb, lpd, lle, lstop, _⟩ := la
    have hstop : lp.2 = .budget ∨ lp.2 = .cap ∨ lp.2 = .timeout := by
      rcases lstop with h | h | h | h | h
      · exact Or.inl h
      · exact Or.inr (Or.inl h)
      · exact Or.inr (Or.inr h)
      · rw [finish_unsettled (Or.inl h)] at hs
        simp [Settled, mkOut, h] at hs
      · rw [finish_unsettled (Or.inr h)] at hs
        simp [Settled, mkOut, h] at hs
    rw [finish_settled lb lpd hstop]
    obtain ⟨_, ⟨e1, e2, e3, e4⟩, ⟨db1, db2⟩, dr, dp, dst, _⟩ := drain_spec lb lpd
    obtain ⟨q1, q2, q3, q4, q5⟩ := hq
    refine ⟨⟨dr, ?_, dp, ?_, ?_⟩, ?_, ?_, ?_⟩
    · dsimp only; omega
    · dsimp only; omega
    · dsimp only; omega
    · dsimp only; omega
    · simp only [mkOut]; omega
    · intro _
      simp only [mkOut]
      by_cases h0 : (drain lp.1).1.rows = 0 <;> simp [h0]

/-- the schedule respects the contract of `asyncio.wait(FIRST_COMPLETED)` (with `W` jobs in
flight it reports between 1 and `W` finished jobs) -/
def EnvOK (W : Nat) (env : List Step) : Prop := ∀ st ∈ env, 1 ≤ st.g ∧ st.g ≤ W

/-- the clock never passes the deadline during the schedule -/
def NoExpiry (env : List Step) : Prop := ∀ st ∈ env, st.expired = false

/-- budget of one call with `max_evals = n ≥ 0` on a quiescent evaluator -/
structure BudgetSpec (s : Ev) (c : Call) (env : List Step) (r : Ev × Out) : Prop where
  /-- the loop can only end in these ways -/
  stops : r.2.stop = .budget ∨ r.2.stop = .cap ∨ r.2.stop = .timeout ∨ r.2.stop = .badEnv ∨
          r.2.stop = .envExhausted
  /-- at least `n`, fewer than `n + W`, exactly `n` when strict -/
  lower : r.2.stop = .budget ∨ r.2.stop = .cap → c.maxEvals ≤ (r.2.evals : Int)
  upper : (r.2.evals : Int) < c.maxEvals + s.W
  strict : c.strict = true → r.2.stop = .budget ∨ r.2.stop = .cap → (r.2.evals : Int) = c.maxEvals
  strictUpper : c.strict = true → (r.2.evals : Int) ≤ c.maxEvals
  capOnlyStrict : r.2.stop = .cap → c.strict = true
  /-- a timeout stop needs a timeout argument and an expired reading of the clock -/
  timeout : r.2.stop = .timeout → c.timeout.isSome = true ∧ ∃ st ∈ env, st.expired = true
  badEnv : r.2.stop = .badEnv → ¬ EnvOK s.W env
  exhausted : r.2.stop = .envExhausted → (env.length : Int) < c.maxEvals

theorem not_envOK {W : Nat} {env : List Step} (h : ∃ st ∈ env, st.g = 0 ∨ W < st.g) :
    ¬ EnvOK W env := by
  intro hok
  obtain ⟨st, hm, hb⟩ := h
  have := hok st hm
  omega

theorem searchCall_budget (s : Ev) (c : Call) (env : List Step) (hW : 1 ≤ s.W) (hq : Quiet s)
    (hn : 0 ≤ c.maxEvals) (hbt : badTimeout c = false) :
    BudgetSpec s c env (searchCall {} s c env) := by
  rw [searchCall_def]
  simp only [hbt, Bool.false_eq_true, if_false]
  obtain ⟨p1, p2, p3, p4, p5, p6, p7, p8, p9, p10, p11, p12⟩ := prep_spec c hq
  obtain ⟨q1, q2, q3, q4, q5⟩ := hq
  obtain ⟨n, hnn⟩ : ∃ n : Nat, c.maxEvals = (n : Int) := ⟨c.maxEvals.toNat, by omega⟩
  cases hstrict : c.strict with
  | false =>
    obtain ⟨o1, o2⟩ := p12 hstrict
    have hT : target c (prep s c) = (n : Int) + ((s.gathered : Int) - (prep s c).offset) := by
      simp only [target, numEvals, numGathered, hstrict, Bool.false_eq_true, if_false]
      rw [if_neg (by omega), p6, hnn]
    have lpl := loop_plain n s.gathered s.W hW env (prep s c) (prep s c).W _ hT p1 (by omega) p2 p3
      (by omega) (by omega) (by omega) (by omega)
    generalize loop false (target c (prep s c)) (prep s c) (prep s c).W env = lp at lpl ⊢
    obtain ⟨⟨c1, c2, c3, c4⟩, lb, lpd, lle, lup, lstop, lbud, lto, lbad, lex⟩ := lpl
    obtain ⟨_, _, ⟨db1, db2⟩, dr, dp, dst, _⟩ := drain_spec lb lpd
    rcases lstop with h | h | h | h
    · rw [finish_settled lb lpd (Or.inl h)]
      have := lbud h
      obtain ⟨lb1, lb2⟩ := lb
      refine ⟨?_, ?_, ?_, ?_, ?_, ?_, ?_, ?_, ?_⟩ <;> simp only [mkOut, h] <;> (try intros) <;> first | fin | (simp [hstrict] at *; done)
    · rw [finish_settled lb lpd (Or.inr (Or.inr h))]
      obtain ⟨lb1, lb2⟩ := lb
      have hto := lto h
      refine ⟨?_, ?_, ?_, ?_, ?_, ?_, ?_, ?_, ?_⟩ <;> simp only [mkOut, h] <;> (try intros) <;>
        first | fin | (simp [hstrict] at *; done) | exact ⟨by rw [← p10]; exact hto.1, hto.2⟩
    · rw [finish_unsettled (Or.inl h)]
      obtain ⟨lb1, lb2⟩ := lb
      have := not_envOK (lbad h)
      refine ⟨?_, ?_, ?_, ?_, ?_, ?_, ?_, ?_, ?_⟩ <;> simp only [mkOut, h] <;> (try intros) <;> first | fin | (simp [hstrict] at *; done)
    · rw [finish_unsettled (Or.inr h)]
      obtain ⟨lb1, lb2⟩ := lb
      have := lex h
      refine ⟨?_, ?_, ?_, ?_, ?_, ?_, ?_, ?_, ?_⟩ <;> simp only [mkOut, h] <;> (try intros) <;> first | fin | (simp [hstrict] at *; done)
  | true =>
    obtain ⟨o1, o2⟩ := p11 hstrict
    have hT : target c (prep s c) = (n : Int) := by
      simp only [target, numEvals, numSubmitted, hstrict, if_true]
      rw [if_neg (by omega), p5, o1, hnn]; omega
    rw [hT]
    have lst := loop_strict n s.gathered s.W hW env (prep s c) (prep s c).W p1 (by omega) o1 p2 p3
      (by omega) (by omega) (by omega) (by omega)
    generalize loop true (n : Int) (prep s c) (prep s c).W env = lp at lst ⊢
    obtain ⟨⟨c1, c2, c3, c4⟩, lb, lpd, lle, lup, lstop, lexa, lto, lbad, lex⟩ := lst
    obtain ⟨_, _, ⟨db1, db2⟩, dr, dp, dst, _⟩ := drain_spec lb lpd
    rcases lstop with h | h | h | h | h
    · rw [finish_settled lb lpd (Or.inl h)]
      have := lexa (Or.inl h)
      refine ⟨?_, ?_, ?_, ?_, ?_, ?_, ?_, ?_, ?_⟩ <;> simp only [mkOut, h] <;> (try intros) <;> first | fin | (simp [hstrict] at *; done)
    · rw [finish_settled lb lpd (Or.inr (Or.inl h))]
      have := lexa (Or.inr h)
      refine ⟨?_, ?_, ?_, ?_, ?_, ?_, ?_, ?_, ?_⟩ <;> simp only [mkOut, h] <;> (try intros) <;> first | fin | (simp [hstrict] at *; done)
    · rw [finish_settled lb lpd (Or.inr (Or.inr h))]
      have hto := lto h
      refine ⟨?_, ?_, ?_, ?_, ?_, ?_, ?_, ?_, ?_⟩ <;> simp only [mkOut, h] <;> (try intros) <;>
        first | fin | (simp [hstrict] at *; done) | exact ⟨by rw [← p10]; exact hto.1, hto.2⟩
    · rw [finish_unsettled (Or.inl h)]
      have := not_envOK (lbad h)
      refine ⟨?_, ?_, ?_, ?_, ?_, ?_, ?_, ?_, ?_⟩ <;> simp only [mkOut, h] <;> (try intros) <;> first | fin | (simp [hstrict] at *; done)
    · rw [finish_unsettled (Or.inr h)]
      have := lex h
      refine ⟨?_, ?_, ?_, ?_, ?_, ?_, ?_, ?_, ?_⟩ <;> simp only [mkOut, h] <;> (try intros) <;> first | fin | (simp [hstrict] at *; done)

theorem searchCall_returns (s : Ev) (c : Call) (env : List Step) (hW : 1 ≤ s.W) (hq : Quiet s)
    (hn : 0 ≤ c.maxEvals) (hbt : badTimeout c = false) (hok : EnvOK s.W env)
    (hexp : c.timeout = none ∨ NoExpiry env) (hlen : c.maxEvals ≤ (env.length : Int)) :
    (searchCall {} s c env).2.stop = .budget ∨ (searchCall {} s c env).2.stop = .cap := by
  have b := searchCall_budget s c env hW hq hn hbt
  rcases b.stops with h | h | h | h | h
  · exact Or.inl h
  · exact Or.inr h
  · obtain ⟨h1, st, hm, he⟩ := b.timeout h
    rcases hexp with hx | hx
    · rw [hx] at h1; simp at h1
    · have := hx st hm; rw [this] at he; simp at he
  · exact absurd hok (b.badEnv h)
  · have := b.exhausted h; omega

/-- total number of evaluations of a list of call results -/
def totalEvals (outs : List Out) : Nat := (outs.map (·.evals)).sum

theorem init_quiet (W : Nat) : Quiet (init W) := ⟨rfl, rfl, rfl, rfl, by simp [init]⟩

/-- any history of settled calls leaves the evaluator quiescent, with one table row per
evaluation ever performed -/
theorem runCalls_settled : ∀ (hist : List (Call × List Step)) (s : Ev), 1 ≤ s.W → Quiet s →
    (∀ o ∈ (runCalls {} s hist).2, Settled o) →
    Quiet (runCalls {} s hist).1 ∧ (runCalls {} s hist).1.W = s.W ∧
    (runCalls {} s hist).1.rows = s.rows + totalEvals (runCalls {} s hist).2
  | [], s, _, hq, _ => by simp [runCalls, totalEvals, hq]
  | (c, env) :: rest, s, hW, hq, hs => by
    simp only [runCalls] at hs ⊢
    have h1 := searchCall_settled s c env hW hq (hs _ (List.mem_cons_self ..))
    obtain ⟨q, w, r, _⟩ := h1
    have ih := runCalls_settled rest (searchCall {} s c env).1 (by omega) q
      (fun o ho => hs o (List.mem_cons_of_mem _ ho))
    obtain ⟨i1, i2, i3⟩ := ih
    refine ⟨i1, by omega, ?_⟩
    simp only [totalEvals, List.map_cons, List.sum_cons] at i3 ⊢
    omega

end DH.Search
