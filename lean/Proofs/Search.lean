import Model.Search

/-! Helper lemmas for C03 (core Lean only). -/

namespace DH.Search

/-- between two `search()` calls the evaluator is quiescent: nothing running, every job ever
created has been gathered and written to the table -/
structure Quiet (s : Ev) : Prop where
  running : s.running = 0
  stored : s.stored = s.gathered
  pending : s.pending = 0
  rows : s.rows = s.gathered

/-- the fields the loop never writes -/
def SameCfg (s s' : Ev) : Prop :=
  s'.W = s.W ∧ s'.offset = s.offset ∧ s'.maxSub = s.maxSub ∧ s'.timeoutSet = s.timeoutSet

/-- bookkeeping that holds at every point of a call: created = gathered + running,
everything gathered is either pending or written -/
structure Books (s : Ev) : Prop where
  stored : s.stored = s.gathered + s.running
  rows : s.rows + s.pending = s.gathered

/-! ### `submit` -/

structure SubmitSpec (s : Ev) (k : Nat) (r : Ev × Bool) : Prop where
  cfg : SameCfg s r.1
  gathered : r.1.gathered = s.gathered
  pending : r.1.pending = s.pending
  rows : r.1.rows = s.rows
  asks : r.1.asks = s.asks
  le : s.stored ≤ r.1.stored
  run : r.1.running + s.stored = s.running + r.1.stored
  upper : r.1.stored ≤ s.stored + k
  all : r.2 = false → r.1.stored = s.stored + k
  raised : r.2 = true → 0 < s.maxSub ∧ s.maxSub ≤ numSubmitted r.1
  capped : 0 < s.maxSub → numSubmitted s ≤ s.maxSub → numSubmitted r.1 ≤ s.maxSub
  nocap : s.maxSub ≤ 0 → r.2 = false

theorem submit_spec : ∀ (k : Nat) (s : Ev), SubmitSpec s k (submit s k)
  | 0, s => by
    simp only [submit]
    exact ⟨⟨rfl, rfl, rfl, rfl⟩, rfl, rfl, rfl, rfl, Nat.le_refl _, by omega, by omega,
      fun _ => rfl, fun h => by simp at h, fun _ h => h, fun _ => rfl⟩
  | k + 1, s => by
    simp only [submit]
    split
    · next h =>
      exact ⟨⟨rfl, rfl, rfl, rfl⟩, rfl, rfl, rfl, rfl, Nat.le_refl _, by omega, by omega,
        fun h' => by simp at h', fun _ => h, fun _ h' => h', fun h' => by omega⟩
    · next h =>
      have ih := submit_spec k { s with stored := s.stored + 1, running := s.running + 1 }
      obtain ⟨⟨c1, c2, c3, c4⟩, g, p, r, a, le, run, up, all, raised, capped, nocap⟩ := ih
      simp only at c1 c2 c3 c4 g p r a le run up all raised capped nocap
      refine ⟨⟨c1, c2, c3, c4⟩, g, p, r, a, by omega, by omega, by omega, ?_, raised, ?_, nocap⟩
      · intro h'; have := all h'; omega
      · intro hpos hle
        apply capped hpos
        simp only [numSubmitted] at h hle ⊢
        omega

/-! ### `gatherBatch1`, `gatherAll`, `dump`, `drain`, `close` -/

theorem gatherBatch1_ok {s : Ev} {g : Nat} (h : (gatherBatch1 s g).2 = .ok) :
    1 ≤ g ∧ g ≤ s.running ∧
    gatherBatch1 s g = ({ s with running := s.running - g, gathered := s.gathered + g,
                                 pending := s.pending + g }, .ok) := by
  unfold gatherBatch1 at h ⊢
  split at h
  · simp at h
  · split at h
    · simp at h
    · next h1 h2 => simp only [h1, h2, if_false]; omega

theorem gatherBatch1_noJobs {s : Ev} {g : Nat} (h : (gatherBatch1 s g).2 = .noJobs) :
    s.running = 0 := by
  unfold gatherBatch1 at h
  split at h
  · assumption
  · split at h <;> simp at h

theorem drain_spec {s : Ev} (hb : Books s) :
    (drain s).2 = false ∧ SameCfg s (drain s).1 ∧ Books (drain s).1 ∧
    (drain s).1.running = 0 ∧ (drain s).1.pending = 0 ∧ (drain s).1.stored = s.stored ∧
    (drain s).1.asks = s.asks := by
  obtain ⟨h1, h2⟩ := hb
  unfold drain
  simp only [numSubmitted, numGathered, gatherAll, dump]
  split
  · next h =>
    have : ¬ ((s.stored : Int) - s.offset > ((s.gathered + s.running : Nat) : Int) - s.offset) := by
      omega
    simp only [this, if_false]
    exact ⟨rfl, ⟨rfl, rfl, rfl, rfl⟩, ⟨by simp; omega, by simp; omega⟩, rfl, rfl, rfl, rfl⟩
  · next h =>
    have hr : s.running = 0 := by omega
    exact ⟨rfl, ⟨rfl, rfl, rfl, rfl⟩, ⟨h1, h2⟩, hr, by omega, rfl, rfl⟩

theorem close_idle {s : Ev} (h : s.running = 0) : close s = s := by
  cases s; simp only [close] at *; subst h; simp

theorem dump_idle {s : Ev} (h : s.pending = 0) : dump s = s := by
  cases s; simp only [dump] at *; subst h; simp

/-! ### the loop, non-strict budget (`num_evals = num_jobs_gathered`, no cap) -/

/-- what the loop guarantees in non-strict mode, relative to the call's entry count `G0`:
`target = n + (G0 - offset)` -/
theorem loop_plain (n : Nat) (G0 : Nat) (W : Nat) (hW : 1 ≤ W) :
    ∀ (env : List Step) (s : Ev) (nAsk : Nat),
      s.W = W → s.maxSub ≤ 0 → Books s → s.pending = 0 → s.running + nAsk = W →
      G0 ≤ s.gathered → s.stored < G0 + n + W →
      let r := loop false ((n : Int) + ((G0 : Int) - s.offset)) s nAsk env
      SameCfg s r.1 ∧ Books r.1 ∧ r.1.pending = 0 ∧ s.stored ≤ r.1.stored ∧
      r.1.stored < G0 + n + W ∧
      (r.2 = .budget ∨ r.2 = .timeout ∨ r.2 = .badEnv ∨ r.2 = .envExhausted) ∧
      (r.2 = .budget → G0 + n ≤ r.1.gathered) ∧
      (r.2 = .timeout → s.timeoutSet = true) := by
  intro env
  induction env with
  | nil =>
    intro s nAsk hsW hcap hb hp hrun hG hup
    simp only
    unfold loop
    split
    · exact ⟨⟨rfl, rfl, rfl, rfl⟩, hb, hp, Nat.le_refl _, hup, by simp, by simp, by simp⟩
    · next hc =>
      refine ⟨⟨rfl, rfl, rfl, rfl⟩, hb, hp, Nat.le_refl _, hup, by simp, ?_, by simp⟩
      intro _
      simp only [numEvals, numGathered, Bool.false_eq_true, if_false] at hc
      omega
  | cons st rest ih =>
    intro s nAsk hsW hcap hb hp hrun hG hup
    simp only
    unfold loop
    split
    · next hc =>
      simp only [numEvals, numGathered, Bool.false_eq_true, if_false] at hc
      have hlt : s.gathered < G0 + n := by omega
      have sp := submit_spec nAsk { s with asks := s.asks ++ [nAsk] }
      obtain ⟨⟨c1, c2, c3, c4⟩, sg, spd, sr, _, sle, srun, sup, sall, _, _, snocap⟩ := sp
      simp only at c1 c2 c3 c4 sg spd sr sle srun sup sall snocap
      have hnr := snocap hcap
      simp only [hnr, Bool.false_eq_true, if_false]
      have hst := sall hnr
      -- after the submit: running = W
      cases hga : (gatherBatch1 (submit { s with asks := s.asks ++ [nAsk] } nAsk).1 st.g).2 with
      | noJobs =>
        have := gatherBatch1_noJobs hga
        obtain ⟨hb1, _⟩ := hb
        omega
      | badEnv =>
        simp only
        unfold gatherBatch1
        unfold gatherBatch1 at hga
        split at hga
        · simp at hga
        · split at hga
          · next h1 h2 =>
            simp only [h1, h2, if_true, if_false]
            obtain ⟨hb1, hb2⟩ := hb
            exact ⟨⟨c1, c2, c3, c4⟩, ⟨by omega, by omega⟩, by omega, by omega, by omega,
              by simp, by simp, by simp⟩
          · simp at hga
      | ok =>
        obtain ⟨hg1, hg2, heq⟩ := gatherBatch1_ok hga
        simp only [heq]
        obtain ⟨hb1, hb2⟩ := hb
        split
        · next ht =>
          simp only [dump] at ht ⊢
          refine ⟨⟨c1, c2, c3, c4⟩, ⟨by simp; omega, by simp; omega⟩, rfl, by simp; omega,
            by simp; omega, by simp, by simp, ?_⟩
          intro _; rw [← c4]; exact ht.1
        · next ht =>
          have := ih (dump { (submit { s with asks := s.asks ++ [nAsk] } nAsk).1 with
              running := (submit { s with asks := s.asks ++ [nAsk] } nAsk).1.running - st.g,
              gathered := (submit { s with asks := s.asks ++ [nAsk] } nAsk).1.gathered + st.g,
              pending := (submit { s with asks := s.asks ++ [nAsk] } nAsk).1.pending + st.g }) st.g
            (by simp [dump]; omega) (by simp [dump]; omega)
            ⟨by simp [dump]; omega, by simp [dump]; omega⟩ (by simp [dump])
            (by simp [dump]; omega) (by simp [dump]; omega) (by simp [dump]; omega)
          simp only [dump] at this ⊢
          rw [c2] at this
          obtain ⟨⟨d1, d2, d3, d4⟩, db, dp, dle, dup, dstop, dbud, dto⟩ := this
          simp only at d1 d2 d3 d4 dle
          refine ⟨⟨by omega, by omega, by omega, by rw [d4, c4]⟩, db, dp, by omega, dup, dstop,
            dbud, ?_⟩
          intro h; rw [← c4]; exact dto h
    · next hc =>
      refine ⟨⟨rfl, rfl, rfl, rfl⟩, hb, hp, Nat.le_refl _, hup, by simp, ?_, by simp⟩
      intro _
      simp only [numEvals, numGathered, Bool.false_eq_true, if_false] at hc
      omega

end DH.Search
