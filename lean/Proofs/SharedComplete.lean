import Proofs.SharedStorage

/-! Completeness of `search()` on an evaluator that shares its storage with others: the bookkeeping invariant
`WRep` (as `Rep` of `Proofs/Timeout.lean`, except that jobs of the storage may be reported without being in this
evaluator's `jobs_done` yet), its preservation, what `gather_other_jobs_done` adds to it (`Full`), and the
invariant `Quiet` of worlds between `search()` calls.  Core Lean only. -/

namespace DH.Timeout

/-- this evaluator's `jobs_done` holds only reported jobs, each once; its `_tasks_running` are exactly the jobs in
flight; nothing is aborted; jobs are HPO jobs (their outputs are stored) -/
structure WRep (s : Ev) : Prop where
  hpo : s.hpo = true
  nodupR : s.results.Nodup
  nodupRun : s.running.Nodup
  res : ∀ i ∈ s.results, (clsList s.jobs)[i]? = some 1
  run : ∀ i : Nat, i ∈ s.running ↔ (clsList s.jobs)[i]? = some 0
  noAborted : ∀ i : Nat, (clsList s.jobs)[i]? ≠ some 2

/-- every reported job of the storage is in this evaluator's `jobs_done` -/
def Full (s : Ev) : Prop := ∀ i : Nat, (clsList s.jobs)[i]? = some 1 → i ∈ s.results

theorem wrep_frame {s s' : Ev} (f : Frame s s') (h : WRep s) : WRep s' := by
  obtain ⟨h0, h1, h2, h3, h4, h5⟩ := h
  refine ⟨by rw [f.hpo]; exact h0, by rw [f.results]; exact h1, by rw [f.running]; exact h2, ?_, ?_, ?_⟩
  · intro i hi; rw [f.cl]; exact h3 i (by rw [← f.results]; exact hi)
  · intro i; rw [f.running, f.cl]; exact h4 i
  · intro i; rw [f.cl]; exact h5 i

theorem wrep_cfg {s s' : Ev} (hh : s'.hpo = s.hpo) (hj : s'.jobs = s.jobs) (hr : s'.running = s.running)
    (hres : s'.results = s.results) (h : WRep s) : WRep s' := by
  obtain ⟨h0, h1, h2, h3, h4, h5⟩ := h
  refine ⟨by rw [hh]; exact h0, by rw [hres]; exact h1, by rw [hr]; exact h2, ?_, ?_, ?_⟩
  · intro i hi; rw [hj]; exact h3 i (by rw [← hres]; exact hi)
  · intro i; rw [hr, hj]; exact h4 i
  · intro i; rw [hj]; exact h5 i

theorem wrep_push {s : Ev} (sp : Spec) (h : WRep s) :
    WRep { s with jobs := s.jobs ++ [({ spec := sp } : Job)], running := s.running ++ [s.jobs.length] } := by
  obtain ⟨h0, h1, h2, h3, h4, h5⟩ := h
  have hcl : clsList (s.jobs ++ [({ spec := sp } : Job)]) = clsList s.jobs ++ [0] := by
    simp [clsList, cls]
  have hlen := clsList_length s.jobs
  have hnot : s.jobs.length ∉ s.running := by
    intro hm
    have := (h4 _).mp hm
    rw [List.getElem?_eq_some_iff] at this
    obtain ⟨hlt, _⟩ := this
    omega
  refine ⟨h0, h1, ?_, ?_, ?_, ?_⟩
  · simp only
    rw [List.nodup_append]
    refine ⟨h2, by simp, ?_⟩
    intro a ha b hb
    simp only [List.mem_singleton] at hb
    subst hb
    intro hab; subst hab; exact hnot ha
  · intro i hi
    have := h3 i hi
    have hlt : i < (clsList s.jobs).length := (List.getElem?_eq_some_iff.mp this).1
    simp only [hcl]
    rw [List.getElem?_append_left hlt]; exact this
  · intro i
    simp only [hcl, List.getElem?_append, hlen, List.mem_append, List.mem_singleton]
    rw [h4 i]
    split
    · next hi =>
      constructor
      · intro hh; rcases hh with hh | hh
        · exact hh
        · omega
      · intro hh; exact Or.inl hh
    · next hi =>
      constructor
      · intro hh; rcases hh with hh | hh
        · rw [List.getElem?_eq_some_iff] at hh
          obtain ⟨hlt, _⟩ := hh
          omega
        · subst hh; simp
      · intro hh
        rw [List.getElem?_eq_some_iff] at hh
        obtain ⟨hlt, _⟩ := hh
        simp at hlt
        right; omega
  · intro i
    simp only [hcl, List.getElem?_append, hlen]
    split
    · exact h5 i
    · intro hh
      rw [List.getElem?_eq_some_iff] at hh
      obtain ⟨hlt, he⟩ := hh
      simp at hlt he

theorem wrep_submitCap : ∀ (k : Nat) (s : Ev), WRep s → WRep (submitCap s k).1
  | 0, s, h => by simpa [submitCap] using h
  | k + 1, s, h => by
    simp only [submitCap]
    split
    · exact h
    · exact wrep_submitCap k _ (wrep_push _ h)

theorem wrep_report1 {s : Ev} {i : Nat} (h : WRep s) (hm : i ∈ s.running)
    (hp : pcOf s i = some .returned) :
    WRep { s with jobs := upd jOnDone i s.jobs, running := s.running.erase i,
                  results := s.results ++ [i] } := by
  obtain ⟨h0, h1, h2, h3, h4, h5⟩ := h
  have hcl := clsList_onDone i s.jobs hp
  have hi0 := (h4 i).mp hm
  have hilt : i < (clsList s.jobs).length := by
    rw [List.getElem?_eq_some_iff] at hi0; exact hi0.1
  have hinot : i ∉ s.results := by
    intro hh; have := h3 i hh; rw [hi0] at this; simp at this
  refine ⟨h0, ?_, h2.erase i, ?_, ?_, ?_⟩
  · simp only
    rw [List.nodup_append]
    refine ⟨h1, by simp, ?_⟩
    intro a ha b hb
    simp only [List.mem_singleton] at hb
    subst hb
    intro hab; subst hab; exact hinot ha
  · intro k hk
    simp only [List.mem_append, List.mem_singleton] at hk
    simp only [hcl, List.getElem?_set]
    by_cases hki : i = k
    · subst hki; simp [hilt]
    · simp only [hki, if_false]
      rcases hk with hk | hk
      · exact h3 k hk
      · exact absurd hk.symm hki
  · intro k
    simp only [hcl, List.getElem?_set]
    rw [h2.mem_erase_iff, h4 k]
    by_cases hk : i = k
    · subst hk; simp [hilt]
    · simp only [hk, if_false]
      constructor
      · intro hh; exact hh.2
      · intro hh; exact ⟨fun e => hk e.symm, hh⟩
  · intro k
    simp only [hcl, List.getElem?_set]
    by_cases hk : i = k
    · subst hk; simp [hilt]
    · simp only [hk, if_false]; exact h5 k

theorem wrep_report : ∀ (rep : List Nat) (s s' : Ev), WRep s → report s rep = some s' →
    WRep s' ∧ s'.running.length + rep.length = s.running.length
  | [], s, s', h, hr => by
    simp [report] at hr; subst hr; simp [h]
  | i :: rest, s, s', h, hr => by
    simp only [report] at hr
    split at hr
    · next hc =>
      have h1 := wrep_report1 h hc.1 hc.2
      obtain ⟨r1, r2⟩ := wrep_report rest _ s' h1 hr
      simp only at r2
      refine ⟨r1, ?_⟩
      rw [List.length_erase_of_mem hc.1] at r2
      have : 0 < s.running.length := List.length_pos_of_mem hc.1
      simp only [List.length_cons]; omega
    · simp at hr

theorem wrep_gatherN (s : Ev) (size : Nat) (rep : List Nat) (h : WRep s)
    (hok : (gatherN s size rep).2 = none) :
    WRep (gatherN s size rep).1 ∧
    (s.running.length ≤ size → (gatherN s size rep).1.running = []) := by
  unfold gatherN at hok ⊢
  simp only at hok ⊢
  have fw := frame_waitFor s (min size s.running.length)
  generalize waitFor s (min size s.running.length) = w at fw hok ⊢
  split at hok
  · simp at hok
  · split at hok
    · simp at hok
    · split at hok
      · simp at hok
      · next hne hw hchk =>
        rw [if_neg hne, if_neg hw, if_neg hchk]
        split at hok
        · next s3 hr =>
          simp only [hr]
          obtain ⟨r1, r2⟩ := wrep_report rep w.1 s3 (wrep_frame fw h) hr
          rw [fw.running] at r2
          refine ⟨r1, ?_⟩
          intro hsz
          have : rep.length = s.running.length := by
            have hmin : min size s.running.length = s.running.length := Nat.min_eq_right hsz
            rw [hmin] at hchk
            false_or_by_contra
            rename_i hc
            exact hchk (Or.inr ⟨rfl, hc⟩)
          exact List.eq_nil_of_length_eq_zero (by omega)
        · simp at hok

theorem wrep_gather (s : Ev) (all : Bool) (size : Nat) (rep : List Nat) (h : WRep s)
    (hok : (gather s all size rep).2 = none) :
    WRep (gather s all size rep).1 ∧ (all = true → (gather s all size rep).1.running = []) := by
  unfold gather at hok ⊢
  simp only at hok ⊢
  cases all with
  | false =>
    simp only [Bool.false_eq_true, if_false] at hok ⊢
    split
    · next h0 =>
      rw [if_pos h0] at hok
      split
      · exact ⟨h, fun hh => by simp at hh⟩
      · next hne => rw [if_neg hne] at hok; simp at hok
    · next h0 =>
      rw [if_neg h0] at hok
      exact ⟨(wrep_gatherN s size rep h hok).1, fun hh => by simp at hh⟩
  | true =>
    simp only [if_true] at hok ⊢
    split
    · next h0 =>
      rw [if_pos h0] at hok
      split
      · exact ⟨h, fun _ => List.eq_nil_of_length_eq_zero h0⟩
      · next hne => rw [if_neg hne] at hok; simp at hok
    · next h0 =>
      rw [if_neg h0] at hok
      obtain ⟨r1, r3⟩ := wrep_gatherN s s.running.length rep h hok
      exact ⟨r1, fun _ => r3 (Nat.le_refl _)⟩

/-! ### what `gather_other_jobs_done` adds -/

theorem cls_jOther (j : Job) : cls (jOther j).pc = cls j.pc := by
  unfold jOther; split <;> simp [Job.write]

theorem clsList_foldl_jOther : ∀ (is : List Nat) (l : List Job),
    clsList (is.foldl (fun js i => upd jOther i js) l) = clsList l
  | [], _ => rfl
  | i :: rest, l => by
    simp only [List.foldl_cons]
    rw [clsList_foldl_jOther rest, clsList_upd cls_jOther]

theorem clsList_getElem? (l : List Job) (i : Nat) : (clsList l)[i]? = (l[i]?).map (fun j => cls j.pc) := by
  simp [clsList, List.getElem?_map]

theorem wrep_gatherOther {s s' : Ev} {orep : List Nat} (h : WRep s) (hg : gatherOther s orep = some s') :
    WRep s' ∧ Full s' ∧ s'.running = s.running := by
  obtain ⟨hnd, hm, he⟩ := gatherOther_spec hg
  subst he
  obtain ⟨h0, h1, h2, h3, h4, h5⟩ := h
  have hcl := clsList_foldl_jOther orep s.jobs
  have hone : ∀ i, i ∈ orep → (clsList s.jobs)[i]? = some 1 := by
    intro i hi
    obtain ⟨_, _, j, hj, hc⟩ := (mem_otherIds s i).mp ((hm i).mp hi)
    rw [clsList_getElem?, hj]
    unfold collectable at hc
    simp only [Bool.and_eq_true, Bool.or_eq_true, decide_eq_true_eq] at hc
    rcases hc.2 with e | e <;> simp [e, cls]
  refine ⟨⟨h0, ?_, h2, ?_, ?_, ?_⟩, ?_, rfl⟩
  · simp only
    rw [List.nodup_append]
    refine ⟨h1, hnd, ?_⟩
    intro a ha b hb hab
    subst hab
    exact ((mem_otherIds s a).mp ((hm a).mp hb)).2.1 ha
  · intro i hi
    simp only [List.mem_append] at hi
    simp only [hcl]
    rcases hi with hi | hi
    · exact h3 i hi
    · exact hone i hi
  · intro i; simp only [hcl]; exact h4 i
  · intro i; simp only [hcl]; exact h5 i
  · intro i hi
    simp only [hcl] at hi
    simp only [List.mem_append]
    by_cases hr : i ∈ s.results
    · exact Or.inl hr
    · right
      apply (hm i).mpr
      apply (mem_otherIds s i).mpr
      refine ⟨?_, hr, ?_⟩
      · intro hrun
        have := (h4 i).mp hrun
        rw [hi] at this; simp at this
      · rw [clsList_getElem?] at hi
        cases hj : s.jobs[i]? with
        | none => rw [hj] at hi; simp at hi
        | some j =>
          rw [hj] at hi
          simp only [Option.map_some, Option.some.injEq] at hi
          refine ⟨j, rfl, ?_⟩
          unfold collectable
          rcases cls_one hi with e | e <;> simp [h0, e]

theorem wrep_gatherO (s : Ev) (all : Bool) (size : Nat) (rep orep : List Nat) (h : WRep s)
    (hok : (gatherO s all size rep orep).2 = none) :
    WRep (gatherO s all size rep orep).1 ∧ Full (gatherO s all size rep orep).1 ∧
    (all = true → (gatherO s all size rep orep).1.running = []) := by
  unfold gatherO at hok ⊢
  dsimp only at hok ⊢
  have hg := wrep_gather s all size rep h
  generalize gather s all size rep = g at hg hok ⊢
  obtain ⟨g1, g2⟩ := g
  cases g2 with
  | some e => simp at hok
  | none =>
    simp only at hok ⊢
    obtain ⟨a, b⟩ := hg rfl
    simp only at a b
    cases ho : gatherOther g1 orep with
    | none => rw [ho] at hok; simp at hok
    | some s' =>
      simp only
      obtain ⟨c, d, e⟩ := wrep_gatherOther a ho
      exact ⟨c, d, fun hall => by rw [e]; exact b hall⟩

theorem wrep_loopO (strict : Bool) (target : Int) :
    ∀ (reps : List (List Nat × List Nat)) (s : Ev) (nAsk : Nat), WRep s →
      SettledStop (loopO strict target s nAsk reps).2 → WRep (loopO strict target s nAsk reps).1 := by
  intro reps
  induction reps with
  | nil =>
    intro s nAsk h hs
    unfold loopO at hs ⊢
    dsimp only at hs ⊢
    split
    · next hc =>
      rw [if_pos hc] at hs
      have hsub := wrep_submitCap nAsk (askStep s) (wrep_cfg (s := s) rfl rfl rfl rfl h)
      generalize submitCap (askStep s) nAsk = sub at hsub hs ⊢
      split
      · exact hsub
      · next hr => rw [if_neg hr] at hs; simp [SettledStop] at hs
    · exact h
  | cons rep rest ih =>
    intro s nAsk h hs
    unfold loopO at hs ⊢
    dsimp only at hs ⊢
    split
    · next hc =>
      rw [if_pos hc] at hs
      have hsub := wrep_submitCap nAsk (askStep s) (wrep_cfg (s := s) rfl rfl rfl rfl h)
      generalize submitCap (askStep s) nAsk = sub at hsub hs ⊢
      split
      · exact hsub
      · next hr =>
        rw [if_neg hr] at hs
        have hg := wrep_gatherO sub.1 false 1 rep.1 rep.2 hsub
        generalize gatherO sub.1 false 1 rep.1 rep.2 = ga at hg hs ⊢
        obtain ⟨g1, g2⟩ := ga
        cases g2 with
        | some e => cases e <;> simp [SettledStop] at hs
        | none =>
          simp only at hs ⊢
          have hg1 := (hg rfl).1
          split
          · exact hg1
          · next he =>
            rw [if_neg he] at hs
            exact ih _ _ hg1 hs
    · exact h

/-- nothing in flight and every reported job collected: every job of the storage is in `jobs_done` -/
theorem cover_of_full {s : Ev} (h : WRep s) (hf : Full s) (hr : s.running = []) :
    ∀ i, i < s.jobs.length → i ∈ s.results := by
  intro i hi
  have hlt : i < (clsList s.jobs).length := by rw [clsList_length]; exact hi
  have hget : (clsList s.jobs)[i]? = some (clsList s.jobs)[i] := List.getElem?_eq_getElem hlt
  have hc : (clsList s.jobs)[i] = cls (s.jobs[i]).pc := by simp [clsList]
  rcases cls_cases (s.jobs[i]).pc with e | e | e
  · have := (h.run i).mpr (by rw [hget, hc, e])
    rw [hr] at this; simp at this
  · exact hf i (by rw [hget, hc, e])
  · exact absurd (by rw [hget, hc, e]) (h.noAborted i)

/-- `num_jobs_submitted <= num_jobs_gathered`: the duplicate-free `jobs_done` of reported jobs is as long as the
storage, so it holds every job and nothing is in flight -/
theorem cover_of_count {s : Ev} (h : WRep s) (hc : s.jobs.length ≤ s.results.length) :
    (∀ i, i < s.jobs.length → i ∈ s.results) ∧ s.running = [] := by
  have hsub : ∀ x ∈ s.results, x < s.jobs.length := by
    intro x hx
    have := h.res x hx
    have := (List.getElem?_eq_some_iff.mp this).1
    rwa [clsList_length] at this
  have hcover : ∀ i, i < s.jobs.length → i ∈ s.results := by
    intro i hi
    false_or_by_contra
    rename_i hni
    have hs : s.results ⊆ (List.range s.jobs.length).erase i := by
      intro x hx
      have hxi : x ≠ i := fun e => hni (e ▸ hx)
      exact (List.mem_erase_of_ne hxi).mpr (List.mem_range.mpr (hsub x hx))
    have hle := h.nodupR.length_le_of_subset hs
    rw [List.length_erase_of_mem (List.mem_range.mpr hi), List.length_range] at hle
    omega
  refine ⟨hcover, ?_⟩
  apply List.eq_nil_iff_forall_not_mem.mpr
  intro r hr
  have h0 := (h.run r).mp hr
  have hlt : r < s.jobs.length := by
    have := (List.getElem?_eq_some_iff.mp h0).1
    rwa [clsList_length] at this
  have h1 := h.res r (hcover r hlt)
  rw [h0] at h1; simp at h1

/-- **completeness of one `search()` call on a shared storage**: if it returns (budget, cap or timeout), nothing is
left running, `jobs_done` has no duplicate and holds every job of the storage -/
theorem wrep_searchO (s : Ev) (c : Call) (reps : List (List Nat × List Nat)) (drainRep : List Nat × List Nat)
    (h : WRep s) (hs : SettledStop (searchO s c reps drainRep).2) :
    WRep (searchO s c reps drainRep).1 ∧ (searchO s c reps drainRep).1.running = [] ∧
    ∀ i, i < (searchO s c reps drainRep).1.jobs.length → i ∈ (searchO s c reps drainRep).1.results := by
  unfold searchO at hs ⊢
  dsimp only at hs ⊢
  have h2 : WRep (setTimeout (if c.strict = true then
      { s with maxSub := c.maxEvals, offset := (s.results.length : Int) } else { s with maxSub := -1 })
      c.timeout) := by
    unfold setTimeout
    split <;> exact wrep_cfg (s := s) rfl rfl rfl rfl h
  generalize setTimeout (if c.strict = true then
      { s with maxSub := c.maxEvals, offset := (s.results.length : Int) } else { s with maxSub := -1 })
      c.timeout = s2 at h2 hs ⊢
  have hl := wrep_loopO c.strict (if c.maxEvals < 0 then c.maxEvals else c.maxEvals + numEvals c.strict s2)
    reps s2 s2.W h2
  generalize loopO c.strict (if c.maxEvals < 0 then c.maxEvals else c.maxEvals + numEvals c.strict s2)
    s2 s2.W reps = lp at hl hs ⊢
  obtain ⟨l1, l2⟩ := lp
  have close_nil : ∀ (t : Ev), t.running = [] → (close t []).1 = t := by
    intro t ht; unfold close; simp [ht]
  have fin : ∀ (st : Stop), SettledStop st → WRep l1 →
      SettledStop (if numSubmitted l1 > numGathered l1 then
        match (gatherO l1 true 0 drainRep.1 drainRep.2).2 with
        | some .noJobs => ((gatherO l1 true 0 drainRep.1 drainRep.2).1, Stop.noJobs)
        | some .hang => ((gatherO l1 true 0 drainRep.1 drainRep.2).1, Stop.hang)
        | some .badEnv => ((gatherO l1 true 0 drainRep.1 drainRep.2).1, Stop.badEnv)
        | none =>
          if numSubmitted (gatherO l1 true 0 drainRep.1 drainRep.2).1 >
              numGathered (gatherO l1 true 0 drainRep.1 drainRep.2).1 then
            ((gatherO l1 true 0 drainRep.1 drainRep.2).1, Stop.hang)
          else ((close (gatherO l1 true 0 drainRep.1 drainRep.2).1 []).1, st)
      else ((close l1 []).1, st)).2 →
      let r := (if numSubmitted l1 > numGathered l1 then
        match (gatherO l1 true 0 drainRep.1 drainRep.2).2 with
        | some .noJobs => ((gatherO l1 true 0 drainRep.1 drainRep.2).1, Stop.noJobs)
        | some .hang => ((gatherO l1 true 0 drainRep.1 drainRep.2).1, Stop.hang)
        | some .badEnv => ((gatherO l1 true 0 drainRep.1 drainRep.2).1, Stop.badEnv)
        | none =>
          if numSubmitted (gatherO l1 true 0 drainRep.1 drainRep.2).1 >
              numGathered (gatherO l1 true 0 drainRep.1 drainRep.2).1 then
            ((gatherO l1 true 0 drainRep.1 drainRep.2).1, Stop.hang)
          else ((close (gatherO l1 true 0 drainRep.1 drainRep.2).1 []).1, st)
      else ((close l1 []).1, st))
      WRep r.1 ∧ r.1.running = [] ∧ ∀ i, i < r.1.jobs.length → i ∈ r.1.results := by
    intro st _ hr hs'
    intro r
    show WRep r.1 ∧ r.1.running = [] ∧ ∀ i, i < r.1.jobs.length → i ∈ r.1.results
    simp only [r]
    split
    · next hd =>
      rw [if_pos hd] at hs'
      have hg := wrep_gatherO l1 true 0 drainRep.1 drainRep.2 hr
      generalize gatherO l1 true 0 drainRep.1 drainRep.2 = ga at hg hs' ⊢
      obtain ⟨g1, g2⟩ := ga
      cases g2 with
      | some e => cases e <;> simp [SettledStop] at hs'
      | none =>
        simp only at hs' ⊢
        obtain ⟨a, b, cc⟩ := hg rfl
        have b' := cc rfl
        simp only at a b b'
        split
        · next hd2 => rw [if_pos hd2] at hs'; simp [SettledStop] at hs'
        · rw [close_nil g1 b']
          exact ⟨a, b', cover_of_full a b b'⟩
    · next hd =>
      have hcnt : l1.jobs.length ≤ l1.results.length := by
        unfold numSubmitted numGathered at hd
        omega
      obtain ⟨c1, c2⟩ := cover_of_count hr hcnt
      rw [close_nil l1 c2]
      exact ⟨hr, c2, c1⟩
  cases l2 with
  | noJobs => simp [SettledStop] at hs
  | hang => simp [SettledStop] at hs
  | badEnv => simp [SettledStop] at hs
  | envExhausted => simp [SettledStop] at hs
  | budget => exact fin .budget (Or.inl rfl) (hl (Or.inl rfl)) hs
  | cap => exact fin .cap (Or.inr (Or.inl rfl)) (hl (Or.inr (Or.inl rfl))) hs
  | timeout => exact fin .timeout (Or.inr (Or.inr rfl)) (hl (Or.inr (Or.inr rfl))) hs

/-! ### worlds between `search()` calls -/

/-- between two `search()` calls: HPO jobs, every job of the storage reported, no evaluator has anything in flight,
every evaluator's `jobs_done` is duplicate-free and refers to jobs of the storage -/
structure Quiet (w : World) : Prop where
  hpo : w.hpo = true
  inv : AllInv w.jobs
  reported : ∀ j ∈ w.jobs, j.pc = .gathered ∨ j.pc = .closedOut
  evs : ∀ l ∈ w.evs, l.running = [] ∧ l.results.Nodup ∧ ∀ i ∈ l.results, i < w.jobs.length

theorem quiet_winit (Ws : List Nat) (specs : List Spec) : Quiet (winit Ws true specs) := by
  refine ⟨rfl, allInv_winit Ws true specs, ?_, ?_⟩
  · intro j hj; simp [winit] at hj
  · intro l hl
    simp only [winit, List.mem_map] at hl
    obtain ⟨W, _, rfl⟩ := hl
    exact ⟨rfl, List.nodup_nil, fun i hi => by simp at hi⟩

theorem cls_reported {w : World} (hq : Quiet w) {i : Nat} (hi : i < w.jobs.length) :
    (clsList w.jobs)[i]? = some 1 := by
  rw [clsList_getElem?, List.getElem?_eq_getElem hi]
  rcases hq.reported _ (List.getElem_mem hi) with e | e <;> simp [e, cls]

theorem wrep_view {w : World} {l : Local} (hq : Quiet w) (hl : l ∈ w.evs) : WRep (view w l) := by
  obtain ⟨hr, hn, hb⟩ := hq.evs l hl
  refine ⟨hq.hpo, hn, ?_, ?_, ?_, ?_⟩
  · show l.running.Nodup
    rw [hr]; exact List.nodup_nil
  · intro i hi
    exact cls_reported hq (hb i hi)
  · intro i
    show i ∈ l.running ↔ (clsList w.jobs)[i]? = some 0
    rw [hr]
    constructor
    · intro h; simp at h
    · intro h
      have hlt : i < w.jobs.length := by
        have := (List.getElem?_eq_some_iff.mp h).1
        rwa [clsList_length] at this
      rw [cls_reported hq hlt] at h; simp at h
  · intro i h
    have hlt : i < w.jobs.length := by
      have := (List.getElem?_eq_some_iff.mp h).1
      rwa [clsList_length] at this
    have h' : (clsList w.jobs)[i]? = some 2 := h
    rw [cls_reported hq hlt] at h'; simp at h'

/-- one returned `search()` call of evaluator `k` in a quiet world: its table is complete, the world is quiet again -/
theorem quiet_searchO {w : World} (hq : Quiet w) {k : Nat} {l : Local} (hk : w.evs[k]? = some l)
    (c : Call) (reps : List (List Nat × List Nat)) (drainRep : List Nat × List Nat)
    (hs : SettledStop (searchO (view w l) c reps drainRep).2) :
    Quiet (put w k (searchO (view w l) c reps drainRep).1) ∧
    (searchO (view w l) c reps drainRep).1.running = [] ∧
    (searchO (view w l) c reps drainRep).1.results.Nodup ∧
    (∀ i, i < (searchO (view w l) c reps drainRep).1.jobs.length ↔
      i ∈ (searchO (view w l) c reps drainRep).1.results) ∧
    ∀ (i : Nat) (j : Job), (searchO (view w l) c reps drainRep).1.jobs[i]? = some j →
      (j.pc = .gathered ∨ j.pc = .closedOut) ∧ (j.status = .done ∨ j.status = .cancelled) := by
  have hl : l ∈ w.evs := List.mem_of_getElem? hk
  have hw := wrep_view hq hl
  obtain ⟨a, b, cc⟩ := wrep_searchO (view w l) c reps drainRep hw hs
  have hinv : AllInv (searchO (view w l) c reps drainRep).1.jobs :=
    allInv_searchO (view w l) c reps drainRep hq.inv
  have hkeep : Keeps w.jobs (searchO (view w l) c reps drainRep).1.jobs :=
    (pres_searchO (pres_inv_keeps w.jobs) (view w l) c reps drainRep ⟨hq.inv, Keeps.refl _⟩).2
  generalize (searchO (view w l) c reps drainRep).1 = s' at a b cc hinv hkeep ⊢
  have hlt_of_res : ∀ i ∈ s'.results, i < s'.jobs.length := by
    intro i hi
    have := (List.getElem?_eq_some_iff.mp (a.res i hi)).1
    rwa [clsList_length] at this
  have hrep : ∀ (i : Nat) (j : Job), s'.jobs[i]? = some j → j.pc = .gathered ∨ j.pc = .closedOut := by
    intro i j hj
    have hi : i < s'.jobs.length := (List.getElem?_eq_some_iff.mp hj).1
    have h1 := a.res i (cc i hi)
    rw [clsList_getElem?, hj] at h1
    simp only [Option.map_some, Option.some.injEq] at h1
    exact cls_one h1
  have hmono : ∀ i, i < w.jobs.length → i < s'.jobs.length := by
    intro i hi
    have hj : w.jobs[i]? = some w.jobs[i] := List.getElem?_eq_getElem hi
    have hf : Final w.jobs[i] := by
      rcases hq.reported _ (List.getElem_mem hi) with e | e
      · exact Or.inl e
      · exact Or.inr (Or.inl e)
    exact (List.getElem?_eq_some_iff.mp (hkeep i _ hj hf)).1
  refine ⟨⟨hq.hpo, hinv, ?_, ?_⟩, b, a.nodupR, fun i => ⟨cc i, hlt_of_res i⟩, ?_⟩
  · intro j hj
    obtain ⟨i, hi, rfl⟩ := List.getElem_of_mem hj
    exact hrep i _ (List.getElem?_eq_getElem hi)
  · intro l' hl'
    show l'.running = [] ∧ l'.results.Nodup ∧ ∀ i ∈ l'.results, i < s'.jobs.length
    have hl'' : l' ∈ w.evs.set k (localOf s') := hl'
    rcases List.mem_or_eq_of_mem_set hl'' with h | h
    · obtain ⟨x, y, z⟩ := hq.evs l' h
      exact ⟨x, y, fun i hi => hmono i (z i hi)⟩
    · subst h
      exact ⟨b, a.nodupR, hlt_of_res⟩
  · intro i j hj
    have hp := hrep i j hj
    exact ⟨hp, terminal_of_reported (hinv j (List.mem_of_getElem? hj)) hp⟩

theorem wsearches_quiet : ∀ (hist : List WCall) (w : World), Quiet w →
    (∀ st ∈ (wsearches w hist).2, SettledStop st) → Quiet (wsearches w hist).1
  | [], w, hq, _ => by simpa [wsearches] using hq
  | c :: rest, w, hq, hs => by
    unfold wsearches at hs ⊢
    cases hk : w.evs[c.k]? with
    | none =>
      simp only [hk] at hs ⊢
      exact wsearches_quiet rest w hq hs
    | some l =>
      simp only [hk] at hs ⊢
      have h1 := quiet_searchO hq hk c.call c.reps c.drainRep (hs _ (List.mem_cons_self ..))
      exact wsearches_quiet rest _ h1.1 (fun st hst => hs st (List.mem_cons_of_mem _ hst))

end DH.Timeout
