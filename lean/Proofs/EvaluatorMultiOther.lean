import Proofs.EvaluatorMultiHist

/-!
`gather_other_jobs_done` in closed form: when no job with a (truthy) stored output is RUNNING — an invariant
of the reachable systems — it never writes to the storage, and it reports exactly the candidates
(`otherCand`) whose stored output is truthy.  Core Lean only.
-/

namespace DH.Evaluator

variable {C O : Type}

/-! ### `np.setdiff1d` sorts: a permutation -/

theorem insertId_perm (a : Nat) : ∀ l : List Nat, (insertId a l).Perm (a :: l)
  | [] => List.Perm.refl _
  | b :: l => by
    simp only [insertId]
    split
    · exact List.Perm.refl _
    · exact ((insertId_perm a l).cons b).trans (List.Perm.swap a b l)

theorem sortIds_perm : ∀ l : List Nat, (sortIds l).Perm l
  | [] => List.Perm.refl _
  | a :: l => by
    show (insertId a (sortIds l)).Perm (a :: l)
    exact (insertId_perm a _).trans ((sortIds_perm l).cons a)

theorem mem_otherCand {rows : List (Row C O)} {me : MEv C O} {g : Nat} :
    g ∈ otherCand rows me ↔ g < rows.length ∧ g ∉ me.submitted ∧ g ∉ me.gathered := by
  unfold otherCand
  rw [(sortIds_perm _).mem_iff]
  simp [List.mem_filter, List.mem_range, not_or]

theorem otherCand_nodup (rows : List (Row C O)) (me : MEv C O) : (otherCand rows me).Nodup := by
  unfold otherCand
  rw [(sortIds_perm _).nodup_iff]
  exact List.Pairwise.filter _ List.nodup_range

/-! ### the closed form -/

/-- the `Job` object `gather_other_jobs_done` builds for job `id` (none when its stored output is falsy) -/
def foreignObj (p : MParams C O) (rows : List (Row C O)) (id : Nat) : Option (Obj C O) :=
  match rowOf rows id with
  | some r => if truthyOut p r.sout then some { id := id, cfg := r.cfg, out := r.sout } else none
  | none => none

/-- … as the caller sees it (status read from the storage) -/
def foreignRec (rows : List (Row C O)) (o : Obj C O) : JobRec C O :=
  { id := o.id, cfg := o.cfg, out := o.out,
    status := match rowOf rows o.id with
      | some r => r.status
      | none => .done }

def addObjs (me : MEv C O) (objs : List (Obj C O)) : MEv C O :=
  { me with
    gathered := me.gathered ++ objs.map (·.id)
    jobsDone := me.jobsDone ++ objs.map (·.id)
    foreign := me.foreign ++ objs
    reported := me.reported ++ objs.map (·.id) }

theorem addObjs_nil (me : MEv C O) : addObjs me [] = me := by
  simp [addObjs]

theorem addObjs_cons (me : MEv C O) (o : Obj C O) (objs : List (Obj C O)) :
    addObjs (addObjs me [o]) objs = addObjs me (o :: objs) := by
  simp [addObjs, List.append_assoc]

theorem updRow_self {rows : List (Row C O)} {id : Nat} {r0 : Row C O} (hn : (rows.map (·.id)).Nodup)
    (h : rowOf rows id = some r0) : updRow rows id (fun r => { r with status := r0.status }) = rows := by
  obtain ⟨hm, hid⟩ := rowOf_some h
  unfold updRow
  conv => rhs; rw [← List.map_id rows]
  apply List.map_congr_left
  intro x hx
  by_cases e : x.id = id
  · rw [if_pos e]
    have := eq_of_nodup_map (·.id) hn hx hm (e.trans hid.symm)
    subst this
    rfl
  · rw [if_neg e]; rfl

/-- no job whose stored output is truthy is RUNNING -/
def NoRunningStored (p : MParams C O) (rows : List (Row C O)) : Prop :=
  ∀ r ∈ rows, truthyOut p r.sout = true → r.status ≠ .running

theorem otherOne_eq (p : MParams C O) {rows : List (Row C O)} (hn : (rows.map (·.id)).Nodup)
    (ht : NoRunningStored p rows) (me : MEv C O) (out : List (JobRec C O)) (id : Nat) :
    otherOne p ((rows, me), out) id =
      match foreignObj p rows id with
      | some o => ((rows, addObjs me [o]), out ++ [foreignRec rows o])
      | none => ((rows, me), out) := by
  unfold otherOne foreignObj
  cases hrow : rowOf rows id with
  | none => rfl
  | some r =>
    simp only
    by_cases htr : truthyOut p r.sout = true
    · rw [if_pos htr, if_pos htr]
      have hs : r.status ≠ .running := ht r (rowOf_some hrow).1 htr
      simp only [if_neg hs]
      rw [updRow_self hn hrow]
      simp only [foreignRec, hrow, addObjs, List.map_cons, List.map_nil]
    · rw [if_neg htr, if_neg htr]

theorem foldl_otherOne (p : MParams C O) {rows : List (Row C O)} (hn : (rows.map (·.id)).Nodup)
    (ht : NoRunningStored p rows) : ∀ (l : List Nat) (me : MEv C O) (out : List (JobRec C O)),
    l.foldl (otherOne p) ((rows, me), out) =
      ((rows, addObjs me (l.filterMap (foreignObj p rows))),
        out ++ (l.filterMap (foreignObj p rows)).map (foreignRec rows))
  | [], me, out => by simp [addObjs_nil]
  | id :: l, me, out => by
    rw [List.foldl_cons, otherOne_eq p hn ht]
    cases ho : foreignObj p rows id with
    | none =>
      simp only [List.filterMap_cons, ho]
      exact foldl_otherOne p hn ht l me out
    | some o =>
      simp only [List.filterMap_cons, ho]
      rw [foldl_otherOne p hn ht l, addObjs_cons]
      simp

/-- the jobs `gather_other_jobs_done` reports -/
def otherObjs (p : MParams C O) (rows : List (Row C O)) (me : MEv C O) : List (Obj C O) :=
  (otherCand rows me).filterMap (foreignObj p rows)

theorem gatherOther_eq (p : MParams C O) {rows : List (Row C O)} (hn : (rows.map (·.id)).Nodup)
    (ht : NoRunningStored p rows) (me : MEv C O) :
    gatherOther p (rows, me) =
      ((rows, addObjs me (otherObjs p rows me)), (otherObjs p rows me).map (foreignRec rows)) := by
  unfold gatherOther otherObjs
  rw [foldl_otherOne p hn ht]
  simp

theorem foreignObj_some {p : MParams C O} {rows : List (Row C O)} {id : Nat} {o : Obj C O}
    (h : foreignObj p rows id = some o) :
    ∃ r, rowOf rows id = some r ∧ truthyOut p r.sout = true ∧ o = { id := id, cfg := r.cfg, out := r.sout } := by
  unfold foreignObj at h
  split at h
  · rename_i r hr
    split at h
    · rename_i ht
      simp only [Option.some.injEq] at h
      exact ⟨r, hr, ht, h.symm⟩
    · simp at h
  · simp at h

theorem otherObjs_ids {p : MParams C O} {rows : List (Row C O)} {me : MEv C O} :
    ((otherObjs p rows me).map (·.id)).Nodup ∧
    ∀ g, g ∈ (otherObjs p rows me).map (·.id) ↔
      g ∈ otherCand rows me ∧ ∃ r, rowOf rows g = some r ∧ truthyOut p r.sout = true := by
  have hid : ∀ id o, foreignObj p rows id = some o → o.id = id := by
    intro id o h
    obtain ⟨r, _, _, rfl⟩ := foreignObj_some h
    rfl
  constructor
  · unfold otherObjs
    have hnd := otherCand_nodup rows me
    generalize otherCand rows me = l at hnd
    induction l with
    | nil => simp
    | cons a l ih =>
      simp only [List.nodup_cons] at hnd
      simp only [List.filterMap_cons]
      cases ho : foreignObj p rows a with
      | none => exact ih hnd.2
      | some o =>
        simp only [List.map_cons, List.nodup_cons, List.mem_map, List.mem_filterMap, not_exists, not_and]
        refine ⟨?_, ih hnd.2⟩
        rintro x ⟨y, hy, hxy⟩ hx
        rw [hid a o ho, hid y x hxy] at hx
        exact hnd.1 (hx ▸ hy)
  · intro g
    unfold otherObjs
    simp only [List.mem_map, List.mem_filterMap]
    constructor
    · rintro ⟨o, ⟨id, hid', ho⟩, rfl⟩
      obtain ⟨r, hr, ht, rfl⟩ := foreignObj_some ho
      exact ⟨hid', r, hr, ht⟩
    · rintro ⟨hc, r, hr, ht⟩
      refine ⟨{ id := g, cfg := r.cfg, out := r.sout }, ⟨g, hc, ?_⟩, rfl⟩
      unfold foreignObj
      rw [hr]; simp only [ht, if_true]

end DH.Evaluator
