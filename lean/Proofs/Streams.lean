import Model.Streams

/-! Helper lemmas for `Props/C07.lean` (core Lean only). -/

namespace DH.Streams

@[simp] theorem World.set_same (w : World) (s : Stream) (v : Nat) : (w.set s v) s = v := by
  simp [World.set]

theorem World.set_other (w : World) (s t : Stream) (v : Nat) (h : t ≠ s) : (w.set s v) t = w t := by
  simp [World.set, h]

/-! ### non-interference, form 1: worlds that agree on the seeded streams -/

/-- the relation kept by pure instructions -/
structure Sim (c₁ c₂ : St) : Prop where
  world : Agree c₁.world c₂.world
  hist : c₁.hist = c₂.hist
  outs : c₁.outs = c₂.outs

theorem Agree.set_seeded {w₁ w₂ : World} (h : Agree w₁ w₂) (k v : Nat) :
    Agree (w₁.set (.seeded k) v) (w₂.set (.seeded k) v) := by
  intro j
  by_cases hj : j = k
  · subst hj; simp
  · have : Stream.seeded j ≠ Stream.seeded k := by intro e; cases e; exact hj rfl
    rw [World.set_other _ _ _ _ this, World.set_other _ _ _ _ this]; exact h j

theorem step_sim (g : Gen) (seed : Nat) {c₁ c₂ : St} (h : Sim c₁ c₂) (ins : Instr)
    (hp : ins.pure = true) : Sim (step g seed c₁ ins) (step g seed c₂ ins) := by
  cases ins with
  | draw site s =>
    cases s with
    | seeded k =>
      have e := h.world k
      refine ⟨?_, ?_, h.outs⟩
      · simp only [step, e]; exact h.world.set_seeded k _
      · simp only [step, e, h.hist]
    | _ => simp [Instr.pure, Stream.isSeeded] at hp
  | useSeed k => exact ⟨by simpa [step] using h.world.set_seeded k _, h.hist, h.outs⟩
  | fork p ch adv =>
    cases p with
    | seeded k =>
      have e := h.world k
      refine ⟨?_, h.hist, h.outs⟩
      cases adv
      · simp only [step, e]; exact h.world.set_seeded ch _
      · simp only [step, e]; exact (h.world.set_seeded k _).set_seeded ch _
    | _ => simp [Instr.pure, Stream.isSeeded] at hp
  | output => exact ⟨h.world, h.hist, by simp [step, h.hist, h.outs]⟩
  | memo site cache src => simp [Instr.pure] at hp

theorem run_sim (g : Gen) (seed : Nat) : ∀ (p : List Instr) (c₁ c₂ : St),
    p.all Instr.pure = true → Sim c₁ c₂ → Sim (run g seed p c₁) (run g seed p c₂)
  | [], _, _, _, h => h
  | ins :: p, c₁, c₂, hp, h => by
    simp only [List.all_cons, Bool.and_eq_true] at hp
    exact run_sim g seed p _ _ hp.2 (step_sim g seed h ins hp.1)

/-! ### non-interference, form 2: well-initialised programs, arbitrary worlds -/

/-- the relation kept by well-initialised programs: agreement on the initialised streams only -/
structure SimOn (i : List Nat) (c₁ c₂ : St) : Prop where
  world : ∀ k ∈ i, c₁.world (.seeded k) = c₂.world (.seeded k)
  hist : c₁.hist = c₂.hist
  outs : c₁.outs = c₂.outs

theorem agreeOn_set {w₁ w₂ : World} {i : List Nat}
    (h : ∀ k ∈ i, w₁ (.seeded k) = w₂ (.seeded k)) (c v : Nat) :
    ∀ k ∈ c :: i, (w₁.set (.seeded c) v) (.seeded k) = (w₂.set (.seeded c) v) (.seeded k) := by
  intro k hk
  by_cases hj : k = c
  · subst hj; simp
  · have : Stream.seeded k ≠ Stream.seeded c := by intro e; cases e; exact hj rfl
    rw [World.set_other _ _ _ _ this, World.set_other _ _ _ _ this]
    exact h k (by simpa [hj] using hk)

theorem agreeOn_set_keep {w₁ w₂ : World} {i : List Nat}
    (h : ∀ k ∈ i, w₁ (.seeded k) = w₂ (.seeded k)) (c v : Nat) (_hc : c ∈ i) :
    ∀ k ∈ i, (w₁.set (.seeded c) v) (.seeded k) = (w₂.set (.seeded c) v) (.seeded k) := by
  intro k hk
  exact agreeOn_set h c v k (List.mem_cons_of_mem _ hk)

theorem run_simOn (g : Gen) (seed : Nat) : ∀ (p : List Instr) (i : List Nat) (c₁ c₂ : St),
    wfGo i p = true → SimOn i c₁ c₂ →
    (run g seed p c₁).outs = (run g seed p c₂).outs
  | [], _, _, _, _, h => h.outs
  | .draw site s :: p, i, c₁, c₂, hw, h => by
    cases s with
    | seeded k =>
      simp only [wfGo, Bool.and_eq_true, decide_eq_true_eq] at hw
      have e := h.world k hw.1
      refine run_simOn g seed p i _ _ hw.2 ⟨?_, ?_, h.outs⟩
      · simp only [step, e]; exact agreeOn_set_keep h.world k _ hw.1
      · simp only [step, e, h.hist]
    | _ => simp [wfGo] at hw
  | .useSeed k :: p, i, c₁, c₂, hw, h => by
    simp only [wfGo] at hw
    exact run_simOn g seed p (k :: i) _ _ hw ⟨by simpa [step] using agreeOn_set h.world k _, h.hist, h.outs⟩
  | .fork par ch adv :: p, i, c₁, c₂, hw, h => by
    cases par with
    | seeded k =>
      simp only [wfGo, Bool.and_eq_true, decide_eq_true_eq] at hw
      have e := h.world k hw.1
      refine run_simOn g seed p (ch :: i) _ _ hw.2 ⟨?_, h.hist, h.outs⟩
      cases adv
      · simp only [step, e]; exact agreeOn_set h.world ch _
      · simp only [step, e]; exact agreeOn_set (agreeOn_set_keep h.world k _ hw.1) ch _
    | _ => simp [wfGo] at hw
  | .output :: p, i, c₁, c₂, hw, h => by
    simp only [wfGo] at hw
    exact run_simOn g seed p i _ _ hw ⟨h.world, h.hist, by simp [step, h.hist, h.outs]⟩
  | .memo _ _ _ :: p, i, c₁, c₂, hw, h => by simp [wfGo] at hw

/-! ### algebra of `wfGo` / `after` -/

theorem wfGo_append : ∀ (p q : List Instr) (i : List Nat),
    wfGo i (p ++ q) = (wfGo i p && wfGo (after i p) q)
  | [], q, i => by simp [wfGo, after]
  | .draw site s :: p, q, i => by
    cases s <;> simp [wfGo, after, wfGo_append p q, Bool.and_assoc]
  | .useSeed k :: p, q, i => by simp [wfGo, after, wfGo_append p q]
  | .fork par ch adv :: p, q, i => by
    cases par <;> simp [wfGo, after, wfGo_append p q, Bool.and_assoc]
  | .output :: p, q, i => by simp [wfGo, after, wfGo_append p q]
  | .memo _ _ _ :: p, q, i => by simp [wfGo]

theorem after_append : ∀ (p q : List Instr) (i : List Nat), after i (p ++ q) = after (after i p) q
  | [], _, _ => rfl
  | .draw _ _ :: p, q, i => by simp [after, after_append p q]
  | .useSeed _ :: p, q, i => by simp [after, after_append p q]
  | .fork _ _ _ :: p, q, i => by simp [after, after_append p q]
  | .output :: p, q, i => by simp [after, after_append p q]
  | .memo _ _ _ :: p, q, i => by simp [after, after_append p q]

theorem subset_after : ∀ (p : List Instr) (i : List Nat), ∀ k ∈ i, k ∈ after i p
  | [], _, _, h => h
  | .draw _ _ :: p, i, k, h => by simpa [after] using subset_after p i k h
  | .useSeed j :: p, i, k, h => by
    simpa [after] using subset_after p (j :: i) k (List.mem_cons_of_mem _ h)
  | .fork _ c _ :: p, i, k, h => by
    simpa [after] using subset_after p (c :: i) k (List.mem_cons_of_mem _ h)
  | .output :: p, i, k, h => by simpa [after] using subset_after p i k h
  | .memo _ _ _ :: p, i, k, h => by simpa [after] using subset_after p i k h

theorem wfGo_mono : ∀ (p : List Instr) (i j : List Nat), (∀ k ∈ i, k ∈ j) →
    wfGo i p = true → wfGo j p = true
  | [], _, _, _, _ => rfl
  | .draw site s :: p, i, j, hs, h => by
    cases s with
    | seeded k =>
      simp only [wfGo, Bool.and_eq_true, decide_eq_true_eq] at h ⊢
      exact ⟨hs k h.1, wfGo_mono p i j hs h.2⟩
    | _ => simp [wfGo] at h
  | .useSeed k :: p, i, j, hs, h => by
    simp only [wfGo] at h ⊢
    refine wfGo_mono p (k :: i) (k :: j) ?_ h
    intro x hx; rcases List.mem_cons.1 hx with rfl | hx
    · exact List.mem_cons_self
    · exact List.mem_cons_of_mem _ (hs x hx)
  | .fork par c adv :: p, i, j, hs, h => by
    cases par with
    | seeded k =>
      simp only [wfGo, Bool.and_eq_true, decide_eq_true_eq] at h ⊢
      refine ⟨hs k h.1, wfGo_mono p (c :: i) (c :: j) ?_ h.2⟩
      intro x hx; rcases List.mem_cons.1 hx with rfl | hx
      · exact List.mem_cons_self
      · exact List.mem_cons_of_mem _ (hs x hx)
    | _ => simp [wfGo] at h
  | .output :: p, i, j, hs, h => by
    simp only [wfGo] at h ⊢
    exact wfGo_mono p i j hs h
  | .memo _ _ _ :: p, i, j, hs, h => by simp [wfGo] at h

/-- a piece that is fine whenever the streams in `need` exist can be appended anywhere they exist -/
theorem wfGo_append_of (p q : List Instr) (i need : List Nat)
    (hp : wfGo i p = true) (hq : wfGo need q = true) (hn : ∀ k ∈ need, k ∈ i) :
    wfGo i (p ++ q) = true := by
  rw [wfGo_append, hp, Bool.true_and]
  exact wfGo_mono q need _ (fun k hk => subset_after p i k (hn k hk)) hq

/-! ### the pieces of the hand model -/

theorem wf_dimForks (r : Nat) : ∀ (ds : List Nat) (i : List Nat), r ∈ i → wfGo i (dimForks r ds) = true
  | [], _, _ => rfl
  | d :: ds, i, h => by
    simp only [dimForks, wfGo, Bool.and_eq_true, decide_eq_true_eq]
    exact ⟨h, List.mem_cons_self, wf_dimForks r ds _ (List.mem_cons_of_mem _ h)⟩

theorem wf_draws (site r : Nat) : ∀ (n : Nat) (i : List Nat), r ∈ i → wfGo i (draws site r n) = true
  | 0, _, _ => rfl
  | n + 1, i, h => by
    simp only [draws, wfGo, Bool.and_eq_true, decide_eq_true_eq]
    exact ⟨h, wf_draws site r n i h⟩

/-- the invariant of a living search object: the root exists, and ConfigSpace's generator exists
when sampling goes through ConfigSpace -/
def Inv (o : Opts) (i : List Nat) : Prop := 0 ∈ i ∧ (o.cfgSpace = true ∨ o.search ≠ .cbo → 3 ∈ i)

theorem wf_spaceRvs (o : Opts) (r : Nat) (i : List Nat) (hr : r ∈ i) (h3 : o.cfgSpace = true → 3 ∈ i) :
    wfGo i (spaceRvs o r) = true := by
  unfold spaceRvs
  split
  · rename_i hc; simp [wfGo, h3 hc]
  · exact wf_dimForks r _ i hr

theorem wf_fitStep (o : Opts) (r : Nat) (i : List Nat) (hr : r ∈ i) (h3 : o.cfgSpace = true → 3 ∈ i) :
    wfGo i (fitStep o r) = true := by
  unfold fitStep
  have hsub : ∀ k ∈ i, k ∈ i := fun _ h => h
  refine wfGo_append_of _ _ i i (wfGo_append_of _ _ i i (wfGo_append_of _ _ i i (wfGo_append_of _ _ i i ?_ ?_ hsub) ?_ hsub) ?_ hsub) ?_ hsub
  · split <;> simp [wfGo, hr]
  · exact wf_spaceRvs o r i hr h3
  · split <;> simp [wfGo, hr]
  · split <;> simp [wfGo, hr]
  · split <;> simp [wfGo, hr]

theorem wf_lies (o : Opts) : ∀ (n : Nat) (i : List Nat), 6 ∈ i → (o.cfgSpace = true → 3 ∈ i) →
    wfGo i (lies o n) = true
  | 0, _, _, _ => rfl
  | n + 1, i, h6, h3 => by
    simp only [lies]
    exact wfGo_append_of _ _ i i (wf_fitStep o 6 i h6 h3) (wf_lies o n i h6 h3) (fun _ h => h)

theorem wf_optimizerInit (o : Opts) (r : Nat) (i : List Nat) (hr : r ∈ i) :
    wfGo i (optimizerInit o r) = true ∧ (o.cfgSpace = true → 3 ∈ after i (optimizerInit o r)) := by
  unfold optimizerInit
  cases o.estimatorByName <;> cases o.cfgSpace <;> cases o.design <;> simp [wfGo, after, hr]

theorem Inv.mono {o : Opts} {i j : List Nat} (h : Inv o i) (hs : ∀ k ∈ i, k ∈ j) : Inv o j :=
  ⟨hs 0 h.1, fun c => hs 3 (h.2 c)⟩

theorem wf_cl (o : Opts) (n : Nat) (i : List Nat) (h : Inv o i) :
    wfGo i ([.fork (.seeded 0) 6 true] ++ optimizerInit o 6 ++ fitStep o 6 ++ lies o n) = true := by
  have h0 := h.1
  have h3 : o.cfgSpace = true → 3 ∈ i := fun c => h.2 (Or.inl c)
  -- after the fork the copy's generator exists
  have hfork : wfGo i [.fork (.seeded 0) 6 true] = true := by simp [wfGo, h0]
  have hneed : ∀ k ∈ 6 :: i, k ∈ after i [.fork (.seeded 0) 6 true] := by simp [after]
  have h6 : (6 : Nat) ∈ 6 :: i := List.mem_cons_self
  have h3' : o.cfgSpace = true → 3 ∈ 6 :: i := fun c => List.mem_cons_of_mem _ (h3 c)
  have step1 : wfGo i ([.fork (.seeded 0) 6 true] ++ optimizerInit o 6) = true := by
    rw [wfGo_append, hfork, Bool.true_and]
    exact wfGo_mono _ (6 :: i) _ hneed (wf_optimizerInit o 6 (6 :: i) h6).1
  have sub1 : ∀ k ∈ 6 :: i, k ∈ after i ([.fork (.seeded 0) 6 true] ++ optimizerInit o 6) := by
    intro k hk; rw [after_append]; exact subset_after _ _ k (hneed k hk)
  have step2 : wfGo i ([.fork (.seeded 0) 6 true] ++ optimizerInit o 6 ++ fitStep o 6) = true := by
    rw [wfGo_append, step1, Bool.true_and]
    exact wfGo_mono _ (6 :: i) _ sub1 (wf_fitStep o 6 (6 :: i) h6 h3')
  rw [wfGo_append, step2, Bool.true_and]
  refine wfGo_mono _ (6 :: i) _ ?_ (wf_lies o n (6 :: i) h6 h3')
  intro k hk; rw [after_append]; exact subset_after _ _ k (sub1 k hk)

theorem wf_opProgram (o : Opts) (op : Op) (i : List Nat) (h : Inv o i) :
    wfGo i (opProgram o op) = true := by
  have h0 := h.1
  have h3 : o.cfgSpace = true → 3 ∈ i := fun c => h.2 (Or.inl c)
  have hout : wfGo i [Instr.output] = true := rfl
  have hsub : ∀ k ∈ i, k ∈ i := fun _ hk => hk
  cases op with
  | tell fit =>
    cases fit
    · rfl
    · exact wf_fitStep o 0 i h0 h3
  | refresh fitted =>
    unfold opProgram
    cases o.search with
    | cbo =>
      have hi := wf_optimizerInit o 0 i h0
      rw [wfGo_append, hi.1, Bool.true_and]
      cases fitted
      · rfl
      · exact wfGo_mono _ i _ (subset_after _ i) (wf_fitStep o 0 i h0 h3)
    | random => rfl
    | regevo => rfl
  | ask n fitted randomPts =>
    unfold opProgram
    cases hs : o.search with
    | random =>
      have : 3 ∈ i := h.2 (Or.inr (by simp [hs]))
      simp [wfGo, this]
    | regevo =>
      have h3r : 3 ∈ i := h.2 (Or.inr (by simp [hs]))
      refine wfGo_append_of _ _ i i ?_ hout hsub
      cases fitted
      · simp [wfGo, h3r]
      · simp only [if_true]
        exact wfGo_append_of _ _ i i
          (wfGo_append_of _ _ i i (wf_draws 111 0 n i h0) (wf_draws 112 0 n i h0) hsub)
          (wf_draws 113 3 n i h3r) hsub
    | cbo =>
      refine wfGo_append_of _ _ i i ?_ hout hsub
      split
      · split
        · exact wf_spaceRvs o 0 i h0 h3
        · rfl
      · cases o.strategy with
        | topk => rfl
        | boltzmann => exact wf_draws 107 0 _ i h0
        | qlcb =>
          exact wfGo_append_of _ _ i i (wf_spaceRvs o 0 i h0 h3) (by simp [wfGo, h0]) hsub
        | cl => exact wf_cl o (n - 1) i h

theorem wf_script (o : Opts) : ∀ (ops : List Op) (i : List Nat), Inv o i → wfGo i (script o ops) = true
  | [], _, _ => rfl
  | op :: ops, i, h => by
    simp only [script]
    rw [wfGo_append, wf_opProgram o op i h, Bool.true_and]
    exact wf_script o ops _ (h.mono (subset_after _ i))

theorem wf_initProgram (o : Opts) :
    wfGo [] (initProgram o) = true ∧ Inv o (after [] (initProgram o)) := by
  unfold initProgram Inv optimizerInit
  cases o.search <;> cases o.estimatorByName <;> cases o.cfgSpace <;> cases o.design <;>
    simp [wfGo, after]

theorem wf_searchProgram (o : Opts) (ops : List Op) : WellInit (searchProgram o ops) = true := by
  unfold WellInit searchProgram
  rw [wfGo_append, (wf_initProgram o).1, Bool.true_and]
  exact wf_script o ops _ (wf_initProgram o).2

/-! ### the table program -/

theorem reaches_isLive (cfg : Config) (r : Reach) (h : r.reaches cfg = true) : r.isLive = true := by
  cases r <;> simp_all [Reach.reaches, Reach.isLive]

theorem wf_siteInstr (s : Site) (i : List Nat) (h0 : 0 ∈ i) (hs : s.stream.isSeeded = true) :
    wfGo i (siteInstr s) = true := by
  unfold siteInstr
  cases hst : s.stream <;> simp_all [wfGo, Stream.isSeeded]

theorem wf_flatMap_sites : ∀ (l : List Site) (i : List Nat), 0 ∈ i →
    (∀ s ∈ l, s.stream.isSeeded = true) → wfGo i (l.flatMap siteInstr) = true
  | [], _, _, _ => rfl
  | s :: l, i, h0, h => by
    simp only [List.flatMap_cons]
    rw [wfGo_append, wf_siteInstr s i h0 (h s List.mem_cons_self), Bool.true_and]
    exact wf_flatMap_sites l _ (subset_after _ i 0 h0) (fun t ht => h t (List.mem_cons_of_mem _ ht))

theorem reached_seeded (l : List Site) (cfg : Config) (h : sitesSeeded l = true) :
    ∀ s ∈ reached l cfg, s.stream.isSeeded = true := by
  intro s hs
  simp only [reached, List.mem_filter] at hs
  have hok := List.all_eq_true.1 h s hs.1
  have hl := reaches_isLive cfg s.reach hs.2
  simpa [Site.ok, hl] using hok

theorem wf_tableProgram (l : List Site) (cfg : Config) (h : sitesSeeded l = true) :
    ∀ n, wfGo [] (tableProgram l cfg n) = true ∧ 0 ∈ after [] (tableProgram l cfg n)
  | 0 => by simp [tableProgram, wfGo, after]
  | n + 1 => by
    have ih := wf_tableProgram l cfg h n
    simp only [tableProgram]
    rw [wfGo_append, after_append, ih.1, Bool.true_and]
    refine ⟨?_, subset_after _ _ 0 ih.2⟩
    unfold roundProgram
    rw [wfGo_append, wf_flatMap_sites _ _ ih.2 (reached_seeded l cfg h), Bool.true_and]
    rfl

end DH.Streams
