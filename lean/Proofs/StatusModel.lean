import Proofs.TimeoutLive
import Proofs.StatusCheck

/-! The model's own runs satisfy the specification that `checkStatusLog` decides. Core Lean only. -/

namespace DH.Timeout
open Status

/-- what the harness would observe of a job of the model -/
def obsJob (j : Job) : JobObs :=
  { log := j.log, start := j.start, ret := j.ret, natEnd := j.start + j.spec.m * j.spec.p,
    deadline := j.armed, saw := j.saw, pollsAgain := decide (1 ≤ j.spec.m), loopRan := true, tie := false,
    gathered := decide (j.pc = .gathered), valueKept := decide (j.output = .val j.spec.val) }

def obsOf (s : Ev) (complete : Bool) : Obs :=
  { jobs := s.jobs.map obsJob, results := s.results, complete := complete }

theorem monotone_of_allowed {l : List Status} (h : Allowed l) : MonotoneLog l := by
  unfold Allowed at h
  unfold MonotoneLog logDone logCancelled
  rcases h with h | h | h | h | h | h | h <;> subst h
  · left; exact ⟨by simp, Or.inl ⟨[running, done], rfl⟩⟩
  · left; exact ⟨by simp, Or.inl ⟨[done], rfl⟩⟩
  · left; exact ⟨by simp, Or.inl ⟨[], rfl⟩⟩
  · left; exact ⟨by simp, Or.inr ⟨[cancelled], rfl⟩⟩
  · left; exact ⟨by simp, Or.inr ⟨[], rfl⟩⟩
  · right; left; rfl
  · right; right; rfl

/-- a gathered job of the model is classified as the property says -/
theorem classified_of_inv {j : Job} (hi : Inv j) (hp : j.pc = .gathered) :
    Classified (obsJob j) ∧ (obsJob j).valueKept = true := by
  obtain ⟨h1, h2⟩ := hi
  unfold JInv at h1
  simp only [hp] at h1
  obtain ⟨ht, hf⟩ := h2 (Or.inr (Or.inr (Or.inr hp)))
  have hret : j.ret = (runFn j.armed j.spec j.start).1 := (Prod.mk.inj ht).1
  have hsaw : j.saw = (runFn j.armed j.spec j.start).2 := (Prod.mk.inj ht).2
  have hval : j.output = .val j.spec.val := by rcases h1 with ⟨_, _, _, d⟩ | ⟨_, _, _, d⟩ <;> exact d
  refine ⟨?_, by simp [obsJob, hval]⟩
  unfold Classified obsJob
  simp only
  cases ha : j.armed with
  | none =>
    rw [ha] at hf hsaw
    have hfired : j.fired = false := by rw [hf]; rfl
    have hs : j.saw = false := by
      cases hs : j.saw with
      | false => rfl
      | true =>
        have := (runFn_spec none j.spec j.start).2.2.1 (by rw [← hsaw]; exact hs)
        simp [sees] at this
    rcases h1 with ⟨a, _, _, _⟩ | ⟨_, _, x, _⟩
    · exact ⟨a, hs⟩
    · rw [hfired] at x; simp at x
  | some c =>
    rw [ha] at hf hret hsaw
    have hdone : j.fired = false → j.log = logDone := by
      intro hff
      rcases h1 with ⟨a, _, _, _⟩ | ⟨_, _, x, _⟩
      · exact a
      · rw [hff] at x; simp at x
    have hcanc : j.fired = true → j.log = logCancelled := by
      intro hff
      rcases h1 with ⟨_, _, x, _⟩ | ⟨a, _, _, _⟩
      · rw [hff] at x; simp at x
      · exact a
    refine ⟨fun hc => ?_, fun hs hb => ?_, fun hr hb => ?_⟩
    · have hfired : j.fired = true := by rw [hf, hret]; exact runFn_late c j.spec j.start hc
      refine ⟨hcanc hfired, fun hm => ?_⟩
      have hm' : 0 < j.spec.m := by have : 1 ≤ j.spec.m := by simpa using hm
                                    omega
      rw [hsaw, (runFn_spec (some c) j.spec j.start).2.2.2.2 hm']
      exact runFn_late c j.spec j.start hc
    · obtain ⟨r1, r2, _⟩ := runFn_after c j.spec j.start (Nat.le_of_lt hs) hb
      have hfired : j.fired = true := by rw [hf, hret]; exact r2
      exact ⟨hcanc hfired, fun _ => by rw [hsaw]; exact r1⟩
    · obtain ⟨r1, r2⟩ := runFn_before c j.spec j.start hb
      have hfired : j.fired = false := by rw [hf, hret]; exact r2
      refine ⟨hdone hfired, ?_⟩
      rw [hsaw, r1]

/-- **the model passes its own checker**: after any history of returned `search()` calls and a
further returned call, the observation of the model's state satisfies `LogSpec` (with `complete`) -/
theorem model_logSpec (W : Nat) (specs : List Spec) (hist : List SCall)
    (hh : ∀ st ∈ (runSearches (init W true specs) hist).2, SettledStop st)
    (c : Call) (reps : List (List Nat)) (drainRep : List Nat)
    (hs : SettledStop (search (runSearches (init W true specs) hist).1 c reps drainRep).2) :
    LogSpec (obsOf (search (runSearches (init W true specs) hist).1 c reps drainRep).1 true) := by
  obtain ⟨hr, hi⟩ := runSearches_rep hist (init W true specs) (rep_init W true specs)
    (allInv_init W true specs) hh
  obtain ⟨r1, r2⟩ := rep_search _ c reps drainRep hr hs
  have hi' := allInv_search _ c reps drainRep hi
  obtain ⟨c1, c2, c3⟩ := complete_of_rep r1 r2 hi'
  generalize (search (runSearches (init W true specs) hist).1 c reps drainRep).1 = s' at *
  refine ⟨?_, ⟨c1, ?_⟩, ?_, ?_, ?_⟩
  · intro jo hjo
    simp only [obsOf, List.mem_map] at hjo
    obtain ⟨j, hj, rfl⟩ := hjo
    exact monotone_of_allowed (allowed_of_inv (hi' j hj)).1
  · intro i hi0
    simp only [obsOf, List.length_map]
    exact (c2 i).mpr hi0
  · intro _ i hi0
    simp only [obsOf, List.length_map] at hi0 ⊢
    exact (c2 i).mp hi0
  · intro i _ jo hjo
    simp only [obsOf, List.getElem?_map] at hjo
    cases hj : s'.jobs[i]? with
    | none => rw [hj] at hjo; simp at hjo
    | some j =>
      rw [hj] at hjo
      simp only [Option.map_some, Option.some.injEq] at hjo
      subst hjo
      obtain ⟨hp, hst⟩ := c3 i j hj
      have hl := (allowed_of_inv (hi' j (List.mem_of_getElem? hj))).2
      unfold TerminalLog obsJob
      simp only
      rcases hst with e | e
      · left; rw [hl, e]
      · right; rw [hl, e]
  · intro jo hjo hg _
    simp only [obsOf, List.mem_map] at hjo
    obtain ⟨j, hj, rfl⟩ := hjo
    have hp : j.pc = .gathered := by simpa [obsJob] using hg
    exact classified_of_inv (hi' j hj) hp

end DH.Timeout
