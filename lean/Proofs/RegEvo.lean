import Model.RegEvo
import Proofs.Membership

/-! # Lemmas about `Model/RegEvo.lean` (used by `C02_regevo_member`) -/

namespace DH.RegEvo

open DH.Mem

theorem dimsAll_set : ∀ {hps : List Hp} {x : List Val} {i : Nat} {h : Hp} {v : Val},
    dimsAll hps x = true → hps[i]? = some h → memDim h.dim v = true → dimsAll hps (x.set i v) = true
  | [], _, _, _, _, _, hi, _ => by simp at hi
  | _ :: _, [], _, _, _, hd, _, _ => by simp [dimsAll] at hd
  | h0 :: hs, v0 :: vs, 0, h, v, hd, hi, hv => by
    simp only [List.getElem?_cons_zero, Option.some.injEq] at hi
    subst hi
    simp only [dimsAll, Bool.and_eq_true] at hd
    simp [dimsAll, hv, hd.2]
  | h0 :: hs, v0 :: vs, i + 1, h, v, hd, hi, hv => by
    simp only [List.getElem?_cons_succ] at hi
    simp only [dimsAll, Bool.and_eq_true] at hd
    simp [dimsAll, hd.1, dimsAll_set hd.2 hi hv]

theorem samplesOf_mem {pop : List (Config × Rat)} : ∀ {idxs : List Nat} {s : List (Config × Rat)},
    samplesOf pop idxs = some s → ∀ p ∈ s, p ∈ pop
  | [], s, h => by simp [samplesOf] at h; subst h; simp
  | i :: is, s, h => by
    simp only [samplesOf] at h
    split at h
    · rename_i a r ha hr
      cases h
      intro p hp
      rcases List.mem_cons.1 hp with rfl | hp
      · exact List.mem_of_getElem? ha
      · exact samplesOf_mem hr p hp
    · cases h

theorem best_mem : ∀ {l : List (Config × Rat)} {b : Config × Rat}, best l = some b → b ∈ l
  | [], _, h => by simp [best] at h
  | a :: rest, b, h => by
    simp only [best] at h
    split at h
    · cases h; exact List.mem_cons_self
    · rename_i c hc
      split at h
      · cases h; exact List.mem_cons_of_mem _ (best_mem hc)
      · cases h; exact List.mem_cons_self

/-- contract of one mutation attempt: `hp.rvs()` draws a member of the hyperparameter's dimension -/
def AttemptOK (d : Decl) (a : Attempt) : Prop :=
  ∀ i h, hpIndex d a.name = some i → d.hps[i]? = some h → memDim h.dim a.value = true

theorem mutate_mem {ne : NumEnv} {d : Decl} {parent : Config} {active : List Bool} (hw : d.wf = true)
    (hp : dimsAll d.hps parent = true) : ∀ (k : Nat) {atts : List Attempt} {y : Config},
    (∀ a ∈ atts, AttemptOK d a) → mutate ne d parent active k atts = .ok (some y) →
    memSpace d y = true
  | 0, _, _, _, h => by simp [mutate] at h
  | k + 1, [], _, _, h => by simp [mutate] at h
  | k + 1, a :: rest, y, ha, h => by
    simp only [mutate] at h
    split at h
    · cases h
    · rename_i i hi
      split at h
      · cases h
      · split at h
        · rename_i z hz
          cases h
          have hlt : i < d.hps.length := by
            have := List.findIdx?_eq_some_iff_findIdx_eq.1 hi
            exact this.1
          have hget : d.hps[i]? = some d.hps[i] := List.getElem?_eq_getElem hlt
          exact deactivateCS_mem hw
            (dimsAll_set hp hget (ha a List.mem_cons_self i _ hi hget)) hz
        · exact mutate_mem hw hp k (fun a' h' => ha a' (List.mem_cons_of_mem _ h')) h
        · cases h

/-- contract of one child's environment -/
def ChildOK (d : Decl) (e : ChildEnv) : Prop :=
  memSpace d e.fresh = true ∧ ∀ a ∈ e.attempts, AttemptOK d a

theorem child_mem {ne : NumEnv} {d : Decl} {st : St} {e : ChildEnv} {y : Config} (hw : d.wf = true)
    (hpop : ∀ p ∈ st.pop, dimsAll d.hps p.1 = true) (he : ChildOK d e)
    (h : child ne d st e = .ok y) : memSpace d y = true := by
  unfold child at h
  split at h
  · cases h
  · rename_i samples hs
    split at h
    · cases h
    · rename_i parent score hb
      have hp : dimsAll d.hps parent = true :=
        hpop _ (samplesOf_mem hs _ (best_mem hb))
      split at h
      · cases h
      · rename_i p0 hp0
        split at h
        · cases h
        · rename_i z hz
          cases h
          exact mutate_mem hw hp 100 he.2 hz
        · cases h
          exact he.1

theorem children_mem {ne : NumEnv} {d : Decl} {st : St} (hw : d.wf = true)
    (hpop : ∀ p ∈ st.pop, dimsAll d.hps p.1 = true) : ∀ {envs : List ChildEnv} {X : List Config},
    (∀ e ∈ envs, ChildOK d e) → children ne d st envs = .ok X → ∀ x ∈ X, memSpace d x = true
  | [], X, _, h => by simp [children] at h; subst h; simp
  | e :: es, X, he, h => by
    simp only [children] at h
    split at h
    · rename_i x xs hx hxs
      cases h
      intro y hy
      rcases List.mem_cons.1 hy with rfl | hy
      · exact child_mem hw hpop (he e List.mem_cons_self) hx
      · exact children_mem hw hpop (fun e' h' => he e' (List.mem_cons_of_mem _ h')) hxs y hy
    · cases h
    · cases h

theorem ask_mem {ne : NumEnv} {d : Decl} {st : St} {n : Nat} {fresh : List Config}
    {envs : List ChildEnv} {X : List Config} (hw : d.wf = true)
    (hpop : ∀ p ∈ st.pop, dimsAll d.hps p.1 = true)
    (hf : ∀ x ∈ fresh, memSpace d x = true) (he : ∀ e ∈ envs, ChildOK d e)
    (h : ask ne d st n fresh envs = .ok X) : ∀ x ∈ X, memSpace d x = true := by
  unfold ask at h
  split at h
  · split at h
    · cases h; exact hf
    · cases h
  · split at h
    · exact children_mem hw hpop he h
    · cases h

theorem push_mem {k : Nat} {pop : List (Config × Rat)} {e p : Config × Rat}
    (h : p ∈ push k pop e) : p ∈ pop ∨ p = e := by
  unfold push at h
  have := List.mem_of_mem_drop h
  rcases List.mem_append.1 this with h1 | h1
  · exact Or.inl h1
  · simp at h1; exact Or.inr h1

theorem tell_pop {d : Decl} {st : St} (hpop : ∀ p ∈ st.pop, dimsAll d.hps p.1 = true) :
    ∀ (results : List (Config × Option Rat)), (∀ r ∈ results, dimsAll d.hps r.1 = true) →
    ∀ p ∈ (tell st results).pop, dimsAll d.hps p.1 = true := by
  intro results hr
  unfold tell
  simp only
  suffices H : ∀ (rs : List (Config × Option Rat)) (pop : List (Config × Rat)),
      (∀ p ∈ pop, dimsAll d.hps p.1 = true) → (∀ r ∈ rs, dimsAll d.hps r.1 = true) →
      ∀ p ∈ rs.foldl (fun pop r => match r.2 with
          | some y => push st.popSize pop (r.1, y)
          | none => pop) pop, dimsAll d.hps p.1 = true from H results st.pop hpop hr
  intro rs
  induction rs with
  | nil => intro pop hp _; simpa using hp
  | cons r rs ih =>
    intro pop hp hrs
    simp only [List.foldl_cons]
    apply ih
    · intro p hpm
      cases hr2 : r.2 with
      | none => simp only [hr2] at hpm; exact hp p hpm
      | some y =>
        simp only [hr2] at hpm
        rcases push_mem hpm with h1 | h1
        · exact hp p h1
        · subst h1; exact hrs r List.mem_cons_self
    · exact fun r' h' => hrs r' (List.mem_cons_of_mem _ h')

/-- environment contract of one call -/
def OpOK (d : Decl) : Op → Prop
  | .ask _ fresh envs => (∀ x ∈ fresh, memSpace d x = true) ∧ ∀ e ∈ envs, ChildOK d e
  | .tell results => ∀ r ∈ results, dimsAll d.hps r.1 = true

theorem run_mem {ne : NumEnv} {d : Decl} (hw : d.wf = true) : ∀ {ops : List Op} {st st' : St}
    {Z : List Config}, (∀ p ∈ st.pop, dimsAll d.hps p.1 = true) → (∀ o ∈ ops, OpOK d o) →
    run ne d st ops = .ok (st', Z) → ∀ x ∈ Z, memSpace d x = true
  | [], st, st', Z, _, _, h => by simp [run] at h; rw [h.2]; simp
  | .ask n fresh envs :: rest, st, st', Z, hpop, ho, h => by
    simp only [run] at h
    split at h
    · cases h
    · rename_i X hX
      split at h
      · cases h
      · rename_i st2 Y hY
        cases h
        have h0 := ho _ List.mem_cons_self
        intro x hx
        rcases List.mem_append.1 hx with h1 | h1
        · exact ask_mem hw hpop h0.1 h0.2 hX x h1
        · exact run_mem hw hpop (fun o h' => ho o (List.mem_cons_of_mem _ h')) hY x h1
  | .tell results :: rest, st, st', Z, hpop, ho, h => by
    simp only [run] at h
    exact run_mem hw (tell_pop hpop results (ho _ List.mem_cons_self))
      (fun o h' => ho o (List.mem_cons_of_mem _ h')) h

end DH.RegEvo
